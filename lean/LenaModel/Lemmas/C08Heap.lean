import LenaModel.Model.C08Heap
/-! # C08 heap model — lemmas: fresh addresses of `deepcopyH`, in-place changes of unreachable objects, which addresses
`update_recursively` / `UpdateContext` put into a context, and the value model under the identities -/
namespace Lena.C08

/-! ### deepcopy -/
mutual
theorem deepcopyH_strip : ∀ (v : HVal) (n : Nat), (deepcopyH n v).1.strip = v.strip
  | .leaf a, n => by simp [deepcopyH, HVal.strip]
  | .dict j es, n => by simp [deepcopyH, HVal.strip, deepcopyE_strip es (n + 1)]
  | .list j xs, n => by simp [deepcopyH, HVal.strip, deepcopyL_strip xs (n + 1)]
  | .tuple xs, n => by simp [deepcopyH, HVal.strip, deepcopyL_strip xs n]
  | .cell k j x, n => by simp [deepcopyH, HVal.strip, deepcopyH_strip x (n + 1)]
theorem deepcopyE_strip : ∀ (es : HEntries) (n : Nat), stripE (deepcopyE n es).1 = stripE es
  | [], n => by simp [deepcopyE, stripE]
  | (k, v) :: r, n => by simp [deepcopyE, stripE, deepcopyH_strip v n, deepcopyE_strip r]
theorem deepcopyL_strip : ∀ (xs : List HVal) (n : Nat), stripL (deepcopyL n xs).1 = stripL xs
  | [], n => by simp [deepcopyL, stripL]
  | v :: r, n => by simp [deepcopyL, stripL, deepcopyH_strip v n, deepcopyL_strip r]
end

mutual
theorem deepcopyH_fresh : ∀ (v : HVal) (n : Nat),
    n ≤ (deepcopyH n v).2 ∧ ∀ i ∈ (deepcopyH n v).1.ids, n ≤ i ∧ i < (deepcopyH n v).2
  | .leaf a, n => by simp [deepcopyH, HVal.ids]
  | .dict j es, n => by
    have h := deepcopyE_fresh es (n + 1)
    simp only [deepcopyH, HVal.ids, List.mem_cons]
    refine ⟨by omega, ?_⟩
    rintro i (rfl | hi)
    · omega
    · have := h.2 i hi; omega
  | .list j xs, n => by
    have h := deepcopyL_fresh xs (n + 1)
    simp only [deepcopyH, HVal.ids, List.mem_cons]
    refine ⟨by omega, ?_⟩
    rintro i (rfl | hi)
    · omega
    · have := h.2 i hi; omega
  | .tuple xs, n => by
    have h := deepcopyL_fresh xs n
    simp only [deepcopyH, HVal.ids]
    exact h
  | .cell k j x, n => by
    have h := deepcopyH_fresh x (n + 1)
    simp only [deepcopyH, HVal.ids, List.mem_cons]
    refine ⟨by omega, ?_⟩
    rintro i (rfl | hi)
    · omega
    · have := h.2 i hi; omega
theorem deepcopyE_fresh : ∀ (es : HEntries) (n : Nat),
    n ≤ (deepcopyE n es).2 ∧ ∀ i ∈ idsE (deepcopyE n es).1, n ≤ i ∧ i < (deepcopyE n es).2
  | [], n => by simp [deepcopyE, idsE]
  | (k, v) :: r, n => by
    have h1 := deepcopyH_fresh v n
    have h2 := deepcopyE_fresh r (deepcopyH n v).2
    simp only [deepcopyE, idsE, List.mem_append]
    refine ⟨by omega, ?_⟩
    rintro i (hi | hi)
    · have := h1.2 i hi; omega
    · have := h2.2 i hi; omega
theorem deepcopyL_fresh : ∀ (xs : List HVal) (n : Nat),
    n ≤ (deepcopyL n xs).2 ∧ ∀ i ∈ idsL (deepcopyL n xs).1, n ≤ i ∧ i < (deepcopyL n xs).2
  | [], n => by simp [deepcopyL, idsL]
  | v :: r, n => by
    have h1 := deepcopyH_fresh v n
    have h2 := deepcopyL_fresh r (deepcopyH n v).2
    simp only [deepcopyL, idsL, List.mem_append]
    refine ⟨by omega, ?_⟩
    rintro i (hi | hi)
    · have := h1.2 i hi; omega
    · have := h2.2 i hi; omega
end

/-! ### an in-place change of an object a value does not reach -/
mutual
theorem pokeH_fresh : ∀ (v : HVal) (t : Nat), t ∉ v.ids → pokeH t v = v
  | .leaf a, t, _ => by simp [pokeH]
  | .dict j es, t, h => by
    simp only [HVal.ids, List.mem_cons, not_or] at h
    have := pokeE_fresh es t h.2
    simp [pokeH, this, Ne.symm h.1]
  | .list j xs, t, h => by
    simp only [HVal.ids, List.mem_cons, not_or] at h
    have := pokeL_fresh xs t h.2
    simp [pokeH, this, Ne.symm h.1]
  | .tuple xs, t, h => by
    simp only [HVal.ids] at h
    simp [pokeH, pokeL_fresh xs t h]
  | .cell k j x, t, h => by
    simp only [HVal.ids, List.mem_cons, not_or] at h
    simp [pokeH, pokeH_fresh x t h.2, Ne.symm h.1]
theorem pokeE_fresh : ∀ (es : HEntries) (t : Nat), t ∉ idsE es → pokeE t es = es
  | [], t, _ => by simp [pokeE]
  | (k, v) :: r, t, h => by
    simp only [idsE, List.mem_append, not_or] at h
    simp [pokeE, pokeH_fresh v t h.1, pokeE_fresh r t h.2]
theorem pokeL_fresh : ∀ (xs : List HVal) (t : Nat), t ∉ idsL xs → pokeL t xs = xs
  | [], t, _ => by simp [pokeL]
  | v :: r, t, h => by
    simp only [idsL, List.mem_append, not_or] at h
    simp [pokeL, pokeH_fresh v t h.1, pokeL_fresh r t h.2]
end


theorem ids_lookupH : ∀ (d : HEntries) (k : String) (v : HVal), lookupH d k = some v → ∀ i ∈ v.ids, i ∈ idsE d
  | [], _, _, h => by simp [lookupH] at h
  | (k', w) :: r, k, v, h => by
    intro i hi
    simp only [lookupH] at h
    simp only [idsE, List.mem_append]
    split at h
    · cases h; exact Or.inl hi
    · exact Or.inr (ids_lookupH r k v h i hi)

theorem ids_setKeyH : ∀ (d : HEntries) (k : String) (v : HVal), ∀ i ∈ idsE (setKeyH d k v), i ∈ idsE d ∨ i ∈ v.ids
  | [], k, v => by simp [setKeyH, idsE]
  | (k', w) :: r, k, v => by
    intro i hi
    simp only [setKeyH] at hi
    split at hi
    · simp only [idsE, List.mem_append] at hi ⊢
      rcases hi with hi | hi
      · exact Or.inr hi
      · exact Or.inl (Or.inr hi)
    · simp only [idsE, List.mem_append] at hi ⊢
      rcases hi with hi | hi
      · exact Or.inl (Or.inl hi)
      · rcases ids_setKeyH r k v i hi with h | h
        · exact Or.inl (Or.inr h)
        · exact Or.inr h

mutual
theorem updRecH_ids : ∀ (o : HEntries) (n : Nat) (d : HEntries),
    n ≤ (updRecH n d o).2 ∧
      ∀ i ∈ idsE (updRecH n d o).1, i ∈ idsE d ∨ i ∈ idsE o ∨ (n ≤ i ∧ i < (updRecH n d o).2)
  | [], n, d => by
    simp only [updRecH]
    exact ⟨Nat.le_refl _, fun i hi => Or.inl hi⟩
  | (k, v) :: r, n, d => by
    have h1 := updItemH_ids v n (lookupH d k)
    have h2 := updRecH_ids r (updItemH n (lookupH d k) v).2 (setKeyH d k (updItemH n (lookupH d k) v).1)
    simp only [updRecH]
    refine ⟨by omega, ?_⟩
    intro i hi
    rcases h2.2 i hi with h | h | h
    · rcases ids_setKeyH d k _ i h with h | h
      · exact Or.inl h
      · rcases h1.2 i h with ⟨c, hc, hic⟩ | h | h
        · exact Or.inl (ids_lookupH d k c hc i hic)
        · exact Or.inr (Or.inl (by simp only [idsE, List.mem_append]; exact Or.inl h))
        · exact Or.inr (Or.inr (by omega))
    · exact Or.inr (Or.inl (by simp only [idsE, List.mem_append]; exact Or.inr h))
    · exact Or.inr (Or.inr (by omega))
theorem updItemH_ids : ∀ (v : HVal) (n : Nat) (cur : Option HVal),
    n ≤ (updItemH n cur v).2 ∧
      ∀ i ∈ (updItemH n cur v).1.ids,
        (∃ c, cur = some c ∧ i ∈ c.ids) ∨ i ∈ v.ids ∨ (n ≤ i ∧ i < (updItemH n cur v).2)
  | .leaf a, n, cur => by simp [updItemH, HVal.ids]
  | .list j xs, n, cur => by
    simp only [updItemH]
    exact ⟨Nat.le_refl _, fun i hi => Or.inr (Or.inl hi)⟩
  | .tuple xs, n, cur => by
    simp only [updItemH]
    exact ⟨Nat.le_refl _, fun i hi => Or.inr (Or.inl hi)⟩
  | .cell k j x, n, cur => by
    simp only [updItemH]
    exact ⟨Nat.le_refl _, fun i hi => Or.inr (Or.inl hi)⟩
  | .dict j o, n, cur => by
    match cur with
    | none =>
      simp only [updItemH]
      exact ⟨Nat.le_refl _, fun i hi => Or.inr (Or.inl hi)⟩
    | some (.dict j' dk) =>
      have h := updRecH_ids o n dk
      simp only [updItemH, HVal.ids, List.mem_cons]
      refine ⟨h.1, ?_⟩
      rintro i (rfl | hi)
      · exact Or.inl ⟨_, rfl, by simp [HVal.ids]⟩
      · rcases h.2 i hi with h | h | h
        · exact Or.inl ⟨_, rfl, by simp [HVal.ids, h]⟩
        · exact Or.inr (Or.inl (Or.inr h))
        · exact Or.inr (Or.inr h)
    | some (.leaf a) =>
      have h := updRecH_ids o (n + 1) []
      simp only [updItemH, HVal.ids, List.mem_cons]
      refine ⟨by omega, ?_⟩
      rintro i (rfl | hi)
      · exact Or.inr (Or.inr (by omega))
      · rcases h.2 i hi with h | h | h
        · simp [idsE] at h
        · exact Or.inr (Or.inl (Or.inr h))
        · exact Or.inr (Or.inr (by omega))
    | some (.list j' xs) =>
      have h := updRecH_ids o (n + 1) []
      simp only [updItemH, HVal.ids, List.mem_cons]
      refine ⟨by omega, ?_⟩
      rintro i (rfl | hi)
      · exact Or.inr (Or.inr (by omega))
      · rcases h.2 i hi with h | h | h
        · simp [idsE] at h
        · exact Or.inr (Or.inl (Or.inr h))
        · exact Or.inr (Or.inr (by omega))
    | some (.tuple xs) =>
      have h := updRecH_ids o (n + 1) []
      simp only [updItemH, HVal.ids, List.mem_cons]
      refine ⟨by omega, ?_⟩
      rintro i (rfl | hi)
      · exact Or.inr (Or.inr (by omega))
      · rcases h.2 i hi with h | h | h
        · simp [idsE] at h
        · exact Or.inr (Or.inl (Or.inr h))
        · exact Or.inr (Or.inr (by omega))
    | some (.cell k' j' x) =>
      have h := updRecH_ids o (n + 1) []
      simp only [updItemH, HVal.ids, List.mem_cons]
      refine ⟨by omega, ?_⟩
      rintro i (rfl | hi)
      · exact Or.inr (Or.inr (by omega))
      · rcases h.2 i hi with h | h | h
        · simp [idsE] at h
        · exact Or.inr (Or.inl (Or.inr h))
        · exact Or.inr (Or.inr (by omega))
end


theorem ucSetH_ids (rec : Bool) : ∀ (p : List String) (n : Nat) (d : HEntries) (u : HVal),
    n ≤ (ucSetH rec n d p u).2 ∧
      ∀ i ∈ idsE (ucSetH rec n d p u).1, i ∈ idsE d ∨ i ∈ u.ids ∨ (n ≤ i ∧ i < (ucSetH rec n d p u).2)
  | [], n, d, u => by
    simp only [ucSetH]
    exact ⟨Nat.le_refl _, fun i hi => Or.inl hi⟩
  | [k], n, d, u => by
    cases rec with
    | true =>
      have h := updRecH_ids [(k, u)] n d
      simp only [ucSetH, if_true]
      refine ⟨h.1, fun i hi => ?_⟩
      rcases h.2 i hi with h | h | h
      · exact Or.inl h
      · simp only [idsE, List.append_nil] at h; exact Or.inr (Or.inl h)
      · exact Or.inr (Or.inr h)
    | false =>
      simp only [ucSetH, Bool.false_eq_true, if_false]
      refine ⟨Nat.le_refl _, fun i hi => ?_⟩
      rcases ids_setKeyH d k u i hi with h | h
      · exact Or.inl h
      · exact Or.inr (Or.inl h)
  | k :: k' :: r, n, d, u => by
    have fresh : ∀ (a : HEntries × Nat), n + 1 ≤ a.2 →
        (∀ i ∈ idsE a.1, i ∈ idsE ([] : HEntries) ∨ i ∈ u.ids ∨ (n + 1 ≤ i ∧ i < a.2)) →
        n ≤ a.2 ∧ ∀ i ∈ idsE (setKeyH d k (.dict n a.1)), i ∈ idsE d ∨ i ∈ u.ids ∨ (n ≤ i ∧ i < a.2) := by
      intro a h1 h2
      refine ⟨by omega, fun i hi => ?_⟩
      rcases ids_setKeyH d k _ i hi with hi | hi
      · exact Or.inl hi
      · simp only [HVal.ids, List.mem_cons] at hi
        rcases hi with rfl | hi
        · exact Or.inr (Or.inr ⟨Nat.le_refl _, by omega⟩)
        · rcases h2 i hi with h | h | h
          · simp [idsE] at h
          · exact Or.inr (Or.inl h)
          · exact Or.inr (Or.inr (by omega))
    have hB := ucSetH_ids rec (k' :: r) (n + 1) [] u
    cases hl : lookupH d k with
    | none =>
      simp only [ucSetH, hl]
      exact fresh _ hB.1 hB.2
    | some w =>
      cases w with
      | dict j e =>
        have hA := ucSetH_ids rec (k' :: r) n e u
        have hsub := ids_lookupH d k _ hl
        simp only [ucSetH, hl]
        refine ⟨hA.1, fun i hi => ?_⟩
        rcases ids_setKeyH d k _ i hi with hi | hi
        · exact Or.inl hi
        · simp only [HVal.ids, List.mem_cons] at hi
          rcases hi with rfl | hi
          · exact Or.inl (hsub _ (by simp [HVal.ids]))
          · rcases hA.2 i hi with h | h | h
            · exact Or.inl (hsub _ (by simp [HVal.ids, h]))
            · exact Or.inr (Or.inl h)
            · exact Or.inr (Or.inr h)
      | leaf a => simp only [ucSetH, hl]; exact fresh _ hB.1 hB.2
      | list j xs => simp only [ucSetH, hl]; exact fresh _ hB.1 hB.2
      | tuple xs => simp only [ucSetH, hl]; exact fresh _ hB.1 hB.2
      | cell c j x => simp only [ucSetH, hl]; exact fresh _ hB.1 hB.2

/-! ### the value model under the identities -/

theorem lookup_toValE : ∀ (es : HEntries) (k : String), lookup (toValE es) k = (lookupH es k).map HVal.toVal
  | [], k => by simp [toValE, lookup, lookupH]
  | (k', v) :: r, k => by
    simp only [toValE, lookup, lookupH]
    split
    · simp
    · exact lookup_toValE r k

theorem setKey_toValE : ∀ (es : HEntries) (k : String) (v : HVal),
    toValE (setKeyH es k v) = setKey (toValE es) k v.toVal
  | [], k, v => by simp [toValE, setKey, setKeyH]
  | (k', w) :: r, k, v => by
    simp only [toValE, setKey, setKeyH]
    split
    · simp [toValE]
    · simp [toValE, setKey_toValE r k v]

theorem getPathH_toVal : ∀ (p : List String) (v : HVal), (getPathH v p).map HVal.toVal = getPath v.toVal p
  | [], v => by simp [getPathH, getPath]
  | k :: p, .leaf a => by simp [getPathH, getPath, HVal.toVal]
  | k :: p, .list j xs => by simp [getPathH, getPath, HVal.toVal]
  | k :: p, .tuple xs => by simp [getPathH, getPath, HVal.toVal]
  | k :: p, .cell c j x => by simp [getPathH, getPath, HVal.toVal]
  | k :: p, .dict j es => by
    simp only [getPathH, getPath, HVal.toVal, lookup_toValE]
    cases lookupH es k with
    | none => simp
    | some w => simpa using getPathH_toVal p w

mutual
theorem deepcopyH_toVal : ∀ (v : HVal) (n : Nat), (deepcopyH n v).1.toVal = v.toVal
  | .leaf a, n => by simp [deepcopyH, HVal.toVal]
  | .dict j es, n => by simp [deepcopyH, HVal.toVal, deepcopyE_toVal es (n + 1)]
  | .list j xs, n => by simp [deepcopyH, HVal.toVal, deepcopyL_toVal xs (n + 1)]
  | .tuple xs, n => by simp [deepcopyH, HVal.toVal, deepcopyL_toVal xs n]
  | .cell k j x, n => by simp [deepcopyH, HVal.toVal]
theorem deepcopyE_toVal : ∀ (es : HEntries) (n : Nat), toValE (deepcopyE n es).1 = toValE es
  | [], n => by simp [deepcopyE, toValE]
  | (k, v) :: r, n => by simp [deepcopyE, toValE, deepcopyH_toVal v n, deepcopyE_toVal r]
theorem deepcopyL_toVal : ∀ (xs : List HVal) (n : Nat), toValL (deepcopyL n xs).1 = toValL xs
  | [], n => by simp [deepcopyL, toValL]
  | v :: r, n => by simp [deepcopyL, toValL, deepcopyH_toVal v n, deepcopyL_toVal r]
end

mutual
theorem updRecH_toVal : ∀ (o : HEntries) (n : Nat) (d : HEntries),
    toValE (updRecH n d o).1 = updRec (toValE d) (toValE o)
  | [], n, d => by simp [updRecH, updRec, toValE]
  | (k, v) :: r, n, d => by
    simp only [updRecH, toValE, updRec]
    rw [updRecH_toVal r, setKey_toValE, updItemH_toVal v n (lookupH d k), lookup_toValE]
theorem updItemH_toVal : ∀ (v : HVal) (n : Nat) (cur : Option HVal),
    (updItemH n cur v).1.toVal = updItem (cur.map HVal.toVal) v.toVal
  | .leaf a, n, cur => by simp [updItemH, updItem, HVal.toVal]
  | .list j xs, n, cur => by simp [updItemH, updItem, HVal.toVal]
  | .tuple xs, n, cur => by simp [updItemH, updItem, HVal.toVal]
  | .cell k j x, n, cur => by simp [updItemH, updItem, HVal.toVal]
  | .dict j o, n, cur => by
    match cur with
    | none => simp [updItemH, updItem, HVal.toVal]
    | some (.dict j' dk) => simp [updItemH, updItem, HVal.toVal, updRecH_toVal o n dk]
    | some (.leaf a) => simp [updItemH, updItem, HVal.toVal, updRecH_toVal o (n + 1) [], toValE]
    | some (.list j' xs) => simp [updItemH, updItem, HVal.toVal, updRecH_toVal o (n + 1) [], toValE]
    | some (.tuple xs) => simp [updItemH, updItem, HVal.toVal, updRecH_toVal o (n + 1) [], toValE]
    | some (.cell k' j' x) => simp [updItemH, updItem, HVal.toVal, updRecH_toVal o (n + 1) [], toValE]
end

theorem ucSetH_toVal (rec : Bool) : ∀ (p : List String) (n : Nat) (d : HEntries) (u : HVal),
    toValE (ucSetH rec n d p u).1 = ucSet rec (toValE d) p u.toVal
  | [], n, d, u => by simp [ucSetH, ucSet]
  | [k], n, d, u => by
    cases rec with
    | true => simp [ucSetH, ucSet, updRecH_toVal, toValE]
    | false => simp [ucSetH, ucSet, setKey_toValE]
  | k :: k' :: r, n, d, u => by
    cases hl : lookupH d k with
    | none =>
      simp only [ucSetH, ucSet, hl, lookup_toValE, setKey_toValE, HVal.toVal, Option.map_none]
      rw [ucSetH_toVal rec (k' :: r) (n + 1) [] u]; simp [toValE]
    | some w =>
      cases w with
      | dict j e =>
        simp only [ucSetH, ucSet, hl, lookup_toValE, setKey_toValE, HVal.toVal, Option.map_some]
        rw [ucSetH_toVal rec (k' :: r) n e u]
      | leaf a =>
        simp only [ucSetH, ucSet, hl, lookup_toValE, setKey_toValE, HVal.toVal, Option.map_some]
        rw [ucSetH_toVal rec (k' :: r) (n + 1) [] u]; simp [toValE]
      | list j xs =>
        simp only [ucSetH, ucSet, hl, lookup_toValE, setKey_toValE, HVal.toVal, Option.map_some]
        rw [ucSetH_toVal rec (k' :: r) (n + 1) [] u]; simp [toValE]
      | tuple xs =>
        simp only [ucSetH, ucSet, hl, lookup_toValE, setKey_toValE, HVal.toVal, Option.map_some]
        rw [ucSetH_toVal rec (k' :: r) (n + 1) [] u]; simp [toValE]
      | cell c j x =>
        simp only [ucSetH, ucSet, hl, lookup_toValE, setKey_toValE, HVal.toVal, Option.map_some]
        rw [ucSetH_toVal rec (k' :: r) (n + 1) [] u]; simp [toValE]

/-! ### `==` with tuples and the value model's `pyEq` -/

theorem allKeysIn_toVal : ∀ (eb ea : HEntries),
    allKeysIn eb ea = (toValE eb).all (fun e => (lookup (toValE ea) e.1).isSome)
  | [], ea => by simp [allKeysIn, toValE]
  | (k, v) :: r, ea => by
    simp only [allKeysIn, toValE, List.all_cons, lookup_toValE, Option.isSome_map]
    rw [allKeysIn_toVal r ea]
    simp [lookup_toValE]

mutual
theorem pyEqH_toVal : ∀ (a b : HVal), pyEqH a b = true → pyEq a.toVal b.toVal = true
  | .leaf x, .leaf y, h => by simpa [pyEqH, pyEq, HVal.toVal] using h
  | .dict i ea, .dict j eb, h => by
    simp only [pyEqH, Bool.and_eq_true] at h
    simp only [pyEq, HVal.toVal, Bool.and_eq_true]
    exact ⟨subEqH_toVal ea eb h.1, by rw [← allKeysIn_toVal]; exact h.2⟩
  | .list i xa, .list j xb, h => by
    simp only [pyEqH] at h
    simp only [pyEq, HVal.toVal]
    exact listEqH_toVal xa xb h
  | .tuple xa, .tuple xb, h => by
    simp only [pyEqH] at h
    simp only [pyEq, HVal.toVal]
    exact listEqH_toVal xa xb h
  | .cell k i x, .cell k' j y, _ => by simp [pyEq, HVal.toVal]
  | .leaf _, .dict _ _, h | .leaf _, .list _ _, h | .leaf _, .tuple _, h | .leaf _, .cell _ _ _, h
  | .dict _ _, .leaf _, h | .dict _ _, .list _ _, h | .dict _ _, .tuple _, h | .dict _ _, .cell _ _ _, h
  | .list _ _, .leaf _, h | .list _ _, .dict _ _, h | .list _ _, .tuple _, h | .list _ _, .cell _ _ _, h
  | .tuple _, .leaf _, h | .tuple _, .dict _ _, h | .tuple _, .list _ _, h | .tuple _, .cell _ _ _, h
  | .cell _ _ _, .leaf _, h | .cell _ _ _, .dict _ _, h | .cell _ _ _, .list _ _, h | .cell _ _ _, .tuple _, h => by
    simp [pyEqH] at h
theorem subEqH_toVal : ∀ (ea eb : HEntries), subEqH ea eb = true → subEq (toValE ea) (toValE eb) = true
  | [], eb, _ => by simp [toValE, subEq]
  | (k, v) :: r, eb, h => by
    simp only [subEqH, Bool.and_eq_true] at h
    simp only [toValE, subEq, Bool.and_eq_true, lookup_toValE]
    refine ⟨?_, subEqH_toVal r eb h.2⟩
    cases hl : lookupH eb k with
    | none => simp [hl] at h
    | some w =>
      simp only [hl] at h
      simpa using pyEqH_toVal v w h.1
theorem listEqH_toVal : ∀ (xa xb : List HVal), listEqH xa xb = true → listEq (toValL xa) (toValL xb) = true
  | [], [], _ => by simp [toValL, listEq]
  | x :: r, y :: r', h => by
    simp only [listEqH, Bool.and_eq_true] at h
    simp only [toValL, listEq, Bool.and_eq_true]
    exact ⟨pyEqH_toVal x y h.1, listEqH_toVal r r' h.2⟩
  | [], _ :: _, h => by simp [listEqH] at h
  | _ :: _, [], h => by simp [listEqH] at h
end

end Lena.C08
