import LenaModel.Lemmas.C02Split
import LenaModel.Lemmas.C03
/-! # C02 — what the stage specification functions say (list level): pull counts per result, and
the values are those of the list semantics. -/

namespace Lena.C02

variable {α β : Type}

/-! ## the source -/

theorem stamps_getElem? : ∀ (xs : List α) (c j : Nat),
    (stamps xs c)[j]? = xs[j]?.map (fun a => (a, c + j + 1))
  | [], _, _ => by simp [stamps]
  | a :: r, c, 0 => by simp [stamps]
  | a :: r, c, j + 1 => by
    simp only [stamps, List.getElem?_cons_succ, stamps_getElem? r (c + 1) j]
    congr 1
    funext x
    congr 1
    omega

@[simp] theorem stamps_length : ∀ (xs : List α) (c : Nat), (stamps xs c).length = xs.length
  | [], _ => rfl
  | _ :: r, c => by simp [stamps, stamps_length r]

theorem stamps_map_fst : ∀ (xs : List α) (c : Nat), (stamps xs c).map Prod.fst = xs
  | [], _ => rfl
  | a :: r, c => by simp [stamps, stamps_map_fst r]

/-- the instrumented input: `k` values cost `k` pulls; finding the end costs one more -/
theorem ofList_need (xs : List α) (k : Nat) : (SF.ofList xs).need k = min k (xs.length + 1) := by
  cases k with
  | zero => simp [SF.ofList]
  | succ k =>
    simp only [SF.need, SF.ofList, stamps_getElem?]
    by_cases h : k < xs.length
    · simp [h]; omega
    · simp [h]; omega

/-! ## maps -/

/-- **`map_pulls`** — a callable pulls exactly as often as it yields: after `k` results the source
clock is what it is after `k` inputs -/
theorem map_pulls (f : α → β) (sf : SF α) (k : Nat) : (mapSpec f sf).need k = sf.need k := by
  cases k with
  | zero => rfl
  | succ k =>
    simp only [SF.need, mapSpec, List.getElem?_map]
    cases sf.vals[k]? <;> rfl

/-! ## filter -/

theorem filter_getElem?_exists {γ : Type} (q : γ → Bool) :
    ∀ (l : List γ) (k : Nat) (x : γ), (l.filter q)[k]? = some x →
      ∃ j, l[j]? = some x ∧ q x = true ∧ ((l.take j).filter q).length = k
  | [], k, x, h => by simp at h
  | y :: l, k, x, h => by
    by_cases hy : q y = true
    · rw [List.filter_cons_of_pos hy] at h
      cases k with
      | zero =>
        simp at h
        subst h
        exact ⟨0, by simp, hy, by simp⟩
      | succ k =>
        rw [List.getElem?_cons_succ] at h
        obtain ⟨j, h1, h2, h3⟩ := filter_getElem?_exists q l k x h
        exact ⟨j + 1, by simpa using h1, h2, by simp [List.take_succ_cons, List.filter_cons_of_pos hy, h3]⟩
    · rw [List.filter_cons_of_neg hy] at h
      obtain ⟨j, h1, h2, h3⟩ := filter_getElem?_exists q l k x h
      exact ⟨j + 1, by simpa using h1, h2, by simp [List.take_succ_cons, List.filter_cons_of_neg hy, h3]⟩

theorem filter_fst_length (p : α → Bool) : ∀ l : List (α × Nat),
    (l.filter (fun q => p q.1)).length = ((l.map Prod.fst).filter p).length
  | [] => rfl
  | q :: l => by
    by_cases h : p q.1 = true
    · simp [List.filter_cons_of_pos, h, filter_fst_length p l]
    · simp [List.filter_cons_of_neg, h, filter_fst_length p l]

/-- **`filter_pulls`** — result number `k` of a `Filter` is input number `j`, the one with exactly `k`
selected values before it, and it is handed over at that input's stamp: the filter pulls up to the
`k`-th selected value and not beyond -/
theorem filter_pulls (p : α → Bool) (sf : SF α) (k : Nat) (a : α) (c : Nat)
    (h : (filterSpec p sf).vals[k]? = some (a, c)) :
    ∃ j, sf.vals[j]? = some (a, c) ∧ p a = true ∧ ((sf.vals.take j).filter (fun q => p q.1)).length = k :=
  filter_getElem?_exists (fun q : α × Nat => p q.1) sf.vals k (a, c) h

/-- on the instrumented input: pulls = index of the `k`-th selected value + 1 -/
theorem filter_pulls_source (p : α → Bool) (xs : List α) (k : Nat) (a : α) (c : Nat)
    (h : (filterSpec p (SF.ofList xs)).vals[k]? = some (a, c)) :
    ∃ j, xs[j]? = some a ∧ p a = true ∧ ((xs.take j).filter p).length = k ∧ c = j + 1 := by
  obtain ⟨j, h1, h2, h3⟩ := filter_pulls p (SF.ofList xs) k a c h
  simp only [SF.ofList, stamps_getElem?, Option.map_eq_some_iff] at h1
  obtain ⟨a', ha', he⟩ := h1
  cases he
  refine ⟨j, ha', h2, ?_, by omega⟩
  rw [← h3]
  simp only [SF.ofList, filter_fst_length, List.map_take, stamps_map_fst]

/-! ## `islice` -/

theorem islice_eq_everyNth (xs : List α) (start : Nat) (stop : Option Nat) (step : Nat) (hstep : 1 ≤ step) :
    Lena.C17.islice xs start stop step
      = Lena.C17.everyNth step (Lena.C17.takeOpt stop start (xs.drop start)) := by
  unfold Lena.C17.islice
  rw [Lena.C17.isliceGo_spec stop step hstep xs start 0 (Nat.zero_le _)]
  simp

/-- **`islice_pulls`** — result number `k` of `Slice(start, stop, step)` is input number
`start + k·step` (if that is below `stop`), handed over at that input's own stamp: on the instrumented
input after exactly `start + k·step + 1` pulls -/
theorem islice_pulls (start : Nat) (stop : Option Nat) (step : Nat) (hstep : 1 ≤ step) (sf : SF α) (k : Nat) :
    (isliceSpec start stop step sf).vals[k]? =
      if (∀ s, stop = some s → start + k * step < s) then sf.vals[start + k * step]? else none := by
  simp only [isliceSpec]
  rw [islice_eq_everyNth _ _ _ _ hstep, Lena.C17.everyNth_getElem? step hstep]
  cases stop with
  | none => simp [Lena.C17.takeOpt]
  | some s =>
    simp only [Lena.C17.takeOpt, List.getElem?_take, List.getElem?_drop, Option.some.injEq, forall_eq']
    by_cases h : start + k * step < s
    · have : k * step < s - start := by omega
      simp [h, this]
    · have : ¬ (k * step < s - start) := by omega
      simp [h, this]

/-- **`islice_end`** — with a `stop`, `islice` reports its end having obtained `max start stop` values (or
seen the end of a shorter input): it never pulls beyond index `stop` -/
theorem islice_end (start st step : Nat) (sf : SF α) :
    (isliceSpec start (some st) step sf).cf = sf.need (max start st) := rfl

/-! ## `Count` -/

theorem countSpecGo_getElem? (mark : Nat → α → α) (cf : Nat) :
    ∀ (rest : List (α × Nat)) (prev : α) (c0 n k : Nat),
      (countSpecGo mark cf prev n rest)[k]? =
        ((prev, c0) :: rest)[k]?.map (fun p =>
          (if k = rest.length then mark (n + rest.length) p.1 else p.1, (SF.mk c0 rest cf).need (k + 1)))
  | [], prev, c0, n, 0 => by simp [countSpecGo]
  | [], prev, c0, n, k + 1 => by simp [countSpecGo]
  | (v, c) :: r, prev, c0, n, 0 => by simp [countSpecGo]
  | (v, c) :: r, prev, c0, n, k + 1 => by
    simp only [countSpecGo, List.getElem?_cons_succ, List.length_cons]
    rw [countSpecGo_getElem? mark cf r v c (n + 1) k]
    simp only [List.getElem?_cons_succ, need_cons_succ, Nat.add_right_cancel_iff]
    have e : n + 1 + r.length = n + (r.length + 1) := by omega
    rw [e]

/-- **`count_lookahead`** — `Count` is one value ahead: result number `k` (from 0) is input number `k`,
handed over at the clock at which `k + 2` inputs have been obtained (or the end has been seen); the
last one carries the count -/
theorem count_lookahead (mark : Nat → α → α) (sf : SF α) (k : Nat) :
    (countSpec mark sf).vals[k]? =
      sf.vals[k]?.map (fun p =>
        (if k + 1 = sf.vals.length then mark sf.vals.length p.1 else p.1, sf.need (k + 2))) := by
  obtain ⟨c0, vals, cf⟩ := sf
  cases vals with
  | nil => simp [countSpec]
  | cons q r =>
    obtain ⟨a, c⟩ := q
    simp only [countSpec]
    rw [countSpecGo_getElem? mark cf r a c 1 k]
    simp only [List.length_cons, Nat.add_right_cancel_iff, need_cons_succ]
    have e : 1 + r.length = r.length + 1 := by omega
    rw [e]

/-! ## negative stop -/

/-- **`negslice_lag`** — with a negative stop `-m`, result number `k` is input number `k`, handed over
at the stamp of input number `k + m`: the slice lags its input by exactly `m` values -/
theorem negslice_lag (m : Nat) (xs : List (α × Nat)) (k : Nat) :
    (lagSpec m xs)[k]? = xs[k]?.bind (fun p => xs[k + m]?.map (fun q => (p.1, q.2))) := by
  simp only [lagSpec, List.getElem?_zipWith, List.getElem?_map, List.getElem?_drop]
  rw [Nat.add_comm m k]
  cases xs[k]? <;> cases xs[k + m]? <;> rfl

/-! ## the values are those of the list semantics -/

theorem isliceGo_map (f : α → β) (stop : Option Nat) (step : Nat) :
    ∀ (xs : List α) (next cnt : Nat),
      (Lena.C17.isliceGo stop step next cnt xs).map f = Lena.C17.isliceGo stop step next cnt (xs.map f)
  | [], next, cnt => by cases stop <;> simp [Lena.C17.isliceGo]
  | x :: rest, next, cnt => by
    cases stop with
    | none =>
      simp only [Lena.C17.isliceGo, List.map_cons]
      split
      · simp [isliceGo_map f none step rest]
      · exact isliceGo_map f none step rest _ _
    | some s =>
      simp only [Lena.C17.isliceGo, List.map_cons]
      split
      · rfl
      · split
        · simp [isliceGo_map f (some s) step rest]
        · exact isliceGo_map f (some s) step rest _ _

theorem islice_map (f : α → β) (xs : List α) (start : Nat) (stop : Option Nat) (step : Nat) :
    (Lena.C17.islice xs start stop step).map f = Lena.C17.islice (xs.map f) start stop step :=
  isliceGo_map f stop step xs start 0

theorem countSpecGo_fst (mark : Nat → α → α) (cf : Nat) :
    ∀ (rest : List (α × Nat)) (prev : α) (n : Nat),
      (countSpecGo mark cf prev n rest).map Prod.fst = countDenGo mark prev n (rest.map Prod.fst)
  | [], _, _ => rfl
  | (v, c) :: r, prev, n => by simp [countSpecGo, countDenGo, countSpecGo_fst mark cf r]

theorem zipWith_fst {γ : Type} (g : β → γ) : ∀ (as : List α) (bs : List β),
    (List.zipWith (fun a q => (a, g q)) as bs).map Prod.fst = as.take bs.length
  | [], _ => by simp
  | _ :: _, [] => by simp
  | a :: as, b :: bs => by simp [zipWith_fst g as bs]

theorem lagSpec_fst (m : Nat) (xs : List (α × Nat)) :
    (lagSpec m xs).map Prod.fst = (xs.map Prod.fst).take (xs.length - m) := by
  unfold lagSpec
  rw [zipWith_fst Prod.snd]
  simp

/-- the lag loop of `Lena.C17` on the deque `fill_deque` returns -/
theorem runNegative_lag (m : Nat) (hm : 1 ≤ m) (xs : List α) :
    (let r := Lena.C17.fillDeque m m [] xs; Lena.C17.lagLoop m r.1 r.2) = some (xs.take (xs.length - m)) := by
  rw [Lena.C17.fillDeque_spec m m [] xs (by simp)]
  simp only [List.append_nil]
  by_cases hx : xs.length ≤ m
  · rw [List.drop_eq_nil_of_le hx, Lena.C17.lagLoop_nil]
    have : xs.length - m = 0 := by omega
    simp [this]
  · have hne : (xs.take m).reverse ≠ [] := by
      intro h
      have := congrArg List.length h
      simp only [List.length_reverse, List.length_take, List.length_nil] at this
      omega
    rw [Lena.C17.lagLoop_spec m _ _ hne (by simp; omega)]
    simp

/-- the values `negSpec` yields are those of `Lena.C17.runNegative` (which is list slicing,
`Lena.C17.runNegative_eq_pySlice`) -/
theorem negSpec_fst (start stop : Option Int) (hargs : NegArgs start stop) (sf : SF α) :
    Lena.C17.runNegative start stop (sf.vals.map Prod.fst) = .ok ((negSpec start stop sf).vals.map Prod.fst) := by
  cases start with
  | none =>
    rcases hargs with ⟨i, hi, _⟩ | ⟨b, rfl, hb⟩
    · cases hi
    · have hm : 1 ≤ (-b).toNat := by omega
      have := runNegative_lag (-b).toNat hm (sf.vals.map Prod.fst)
      simp only at this
      simp only [Lena.C17.runNegative, negSpec, negLen, lagSpec_fst, List.length_map] at this ⊢
      rw [this]
  | some a =>
    by_cases ha : a ≥ 0
    · rcases hargs with ⟨i, hi, hi'⟩ | ⟨b, rfl, hb⟩
      · cases hi; omega
      · have hm : 1 ≤ (-b).toNat := by omega
        have := runNegative_lag (-b).toNat hm ((sf.vals.map Prod.fst).drop a.toNat)
        simp only at this
        simp only [Lena.C17.runNegative, negSpec, ha, if_true, negLen, List.length_drop, List.length_map] at this ⊢
        rw [Lena.C17.fillDeque_spec _ _ [] _ (by simp)] at this ⊢
        simp only [List.append_nil, List.length_reverse, List.length_take, List.length_drop, List.length_map] at this ⊢
        by_cases hshort : sf.vals.length - a.toNat < (-b).toNat
        · have h1 : min (-b).toNat (sf.vals.length - a.toNat) < (-b).toNat := by omega
          simp [h1, hshort]
        · have h1 : ¬ (min (-b).toNat (sf.vals.length - a.toNat) < (-b).toNat) := by omega
          rw [if_neg h1, this, if_neg hshort, lagSpec_fst]
          simp [List.map_drop]
    · have ha' : a < 0 := by omega
      cases stop with
      | none =>
        simp [negSpec, ha, negValsAt, Lena.C17.runNegative, Function.comp_def]
      | some b =>
        by_cases hba : b ≤ a
        · simp [negSpec, ha, hba, Lena.C17.runNegative]
        · by_cases hb : b < 0
          · have hn : (((Lena.C17.dqOfFlow (-a).toNat (sf.vals.map Prod.fst)).length : Int) + b).toNat
                ≤ (Lena.C17.dqOfFlow (-a).toNat (sf.vals.map Prod.fst)).length := by omega
            simp only [negSpec, ha, hba, hb, if_false, if_true, negValsAt, Lena.C17.runNegative]
            rw [Lena.C17.popLeftN_spec _ _ hn]
            simp [Function.comp_def]
          · have hpos := Lena.C17.posStopLoop_spec (-a).toNat (b - a).toNat (sf.vals.map Prod.fst) 0 []
              (Nat.zero_le _)
            by_cases hlong : sf.vals.length > (b - a).toNat
            · have h1 : (b - a).toNat < 0 + (sf.vals.map Prod.fst).length := by simpa using hlong
              rw [if_pos h1] at hpos
              simp [negSpec, ha, hba, hb, hlong, Lena.C17.runNegative, hpos]
            · have h1 : ¬ ((b - a).toNat < 0 + (sf.vals.map Prod.fst).length) := by simpa using hlong
              rw [if_neg h1] at hpos
              simp [negSpec, ha, hba, hb, hlong, negValsAt, Lena.C17.runNegative, hpos, Function.comp_def]

/-! ### `Split`: the generator's values are those of `Lena.C03.Split.run` -/

theorem outputs_append' (l₁ l₂ : List (Lena.C03.Ev α)) :
    Lena.C03.outputs (l₁ ++ l₂) = Lena.C03.outputs l₁ ++ Lena.C03.outputs l₂ := by
  induction l₁ with
  | nil => rfl
  | cons e r ih => cases e <;> simp [Lena.C03.outputs, ih]

theorem emptyRun_eq (xs : List α) : Lena.C03.emptyRun xs = xs := by
  induction xs with
  | nil => rfl
  | cons x r ih => simp [Lena.C03.emptyRun, ih]

theorem readBlock_map_fst (bufsize : Option Nat) (xs : List (α × Nat)) :
    Lena.C03.readBlock bufsize (xs.map Prod.fst)
      = ((xs.take (blockAsk bufsize xs)).map Prod.fst, (xs.drop (blockAsk bufsize xs)).map Prod.fst) := by
  cases bufsize with
  | some b => simp [Lena.C03.readBlock, blockAsk, List.map_take, List.map_drop]
  | none =>
    have h1 : xs.take (xs.length + 1) = xs := List.take_of_length_le (by omega)
    have h2 : xs.drop (xs.length + 1) = [] := List.drop_eq_nil_of_le (by omega)
    simp [Lena.C03.readBlock, blockAsk, h1, h2]

theorem splitSpecGo_fst {σb : Type} (bufsize : Option Nat) (copyBuf : Bool) (cf : Nat) :
    ∀ (fuel c0 : Nat) (xs : List (α × Nat)) (act : List (Lena.C03.Branch σb α)) (acc : List (Lena.C03.Ev α))
      (fwe : Bool), xs.length < fuel →
      Lena.C03.outputs ((Lena.C03.outerLoop copyBuf bufsize fuel (xs.map Prod.fst) act acc fwe).1
          ++ Lena.C03.finalPass (Lena.C03.outerLoop copyBuf bufsize fuel (xs.map Prod.fst) act acc fwe).2.2
              (Lena.C03.outerLoop copyBuf bufsize fuel (xs.map Prod.fst) act acc fwe).2.1)
        = Lena.C03.outputs acc ++ (splitSpecGo bufsize copyBuf cf fuel c0 xs act fwe).map Prod.fst := by
  intro fuel
  induction fuel with
  | zero => intro c0 xs act acc fwe h; omega
  | succ fuel ih =>
    intro c0 xs act acc fwe hlen
    rw [Lena.C03.outerLoop, splitSpecGo, readBlock_map_fst]
    simp only
    by_cases hempty : ((xs.take (blockAsk bufsize xs)).map Prod.fst).isEmpty = true
    · simp only [hempty, if_true, outputs_append', List.map_map, Function.comp_def, List.map_id']
    · simp only [hempty, if_false, Bool.false_eq_true]
      rw [Lena.C03.blockLoop_eq_fold, Lena.C03.blockLoop_eq_fold]
      simp only [List.nil_append]
      have hshort : (xs.drop (blockAsk bufsize xs)).length < fuel := by
        have hk : 1 ≤ blockAsk bufsize xs := by
          cases hk : blockAsk bufsize xs with
          | zero => simp [hk] at hempty
          | succ k => omega
        have hx : 1 ≤ xs.length := by
          cases xs with
          | nil => simp at hempty
          | cons p r => simp
        simp only [List.length_drop]
        omega
      rw [ih ((SF.mk c0 xs cf).need (blockAsk bufsize xs)) _ _ _ _ hshort]
      simp only [outputs_append', List.map_append, List.map_map, Function.comp_def, List.map_id',
        List.append_assoc]

theorem splitSpec_fst {σb : Type} (brs : List (Lena.C03.Branch σb α)) (bufsize : Option Nat) (copyBuf : Bool)
    (hne : ¬ brs.isEmpty = true) (sf : SF α) :
    (splitSpec brs bufsize copyBuf sf).vals.map Prod.fst
      = Lena.C03.Split.run { branches := brs, bufsize := bufsize, copyBuf := copyBuf } (sf.vals.map Prod.fst) := by
  simp only [Lena.C03.Split.run, hne, if_false, Bool.false_eq_true, Lena.C03.Split.runTrace, splitSpec,
    List.length_map]
  have := splitSpecGo_fst bufsize copyBuf sf.cf (sf.vals.length + 1) sf.c0 sf.vals brs [] true (by omega)
  rw [this]
  rfl

end Lena.C02
