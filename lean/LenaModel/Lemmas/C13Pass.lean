import LenaModel.Lemmas.C13Dict
/-! # C13 lemmas, part 2 — the multi-pass protocol has a closed form

`final t F`: the state of the objects of program `t` when the contexts delivered to `t` so far are `F`
(oldest first; for a sequence the first one is the `{}` of its own constructor).  It is defined from the
specification fold alone: every object is in the state that the **last** context that reaches it puts it in.
`setCtx_final` / `loop_final`: one more pass of the real protocol (with its skip-while-empty optimisation,
its two ways of ending on a `LenaKeyError`, and stale `_static_context`s) leads from `final t F` to
`final t (F ++ [c])`, provided every earlier context is `⊑ c` — which is what nesting guarantees. -/

namespace Lena.C13
open Lena Lena.Val

/-! ## the specification fold: monotone, length-preserving -/

mutual
theorem fold_mono (n : Nat) : ∀ (t : Tree) (c d x : Ctx), leL c d → fold n t c = .ok x →
    ∃ y, fold n t d = .ok y ∧ leL x y
  | .leaf (.set k ks v), c, d, x, h, hv => by
    simp only [fold, foldElem] at hv ⊢
    exact fmtUpdate_mono n k ks v c d x h hv
  | .leaf .store, c, d, x, h, hv => by simp only [fold, foldElem] at hv ⊢; cases hv; exact ⟨d, rfl, h⟩
  | .leaf .ucfs, c, d, x, h, hv => by simp only [fold, foldElem] at hv ⊢; cases hv; exact ⟨d, rfl, h⟩
  | .leaf (.mkf _), c, d, x, h, hv => by simp only [fold, foldElem] at hv ⊢; cases hv; exact ⟨d, rfl, h⟩
  | .leaf (.write _), c, d, x, h, hv => by simp only [fold, foldElem] at hv ⊢; cases hv; exact ⟨d, rfl, h⟩
  | .leaf (.cache _), c, d, x, h, hv => by simp only [fold, foldElem] at hv ⊢; cases hv; exact ⟨d, rfl, h⟩
  | .leaf .data, c, d, x, h, hv => by simp only [fold, foldElem] at hv ⊢; cases hv; exact ⟨d, rfl, h⟩
  | .leaf (.mut ..), c, d, x, h, hv => by simp only [fold, foldElem] at hv ⊢; cases hv; exact ⟨d, rfl, h⟩
  | .leaf .src, c, d, x, h, hv => by simp only [fold, foldElem] at hv ⊢; cases hv; exact ⟨d, rfl, h⟩
  | .seq _ cs, c, d, x, h, hv => by
    simp only [fold] at hv ⊢
    exact foldL_mono n cs c d x h hv
  | .split bs, c, d, x, h, hv => by
    simp only [fold] at hv ⊢
    cases hb : foldB n bs c with
    | error e => simp [hb] at hv
    | ok xs =>
      simp only [hb] at hv
      cases hv
      obtain ⟨ys, hys, hall⟩ := foldB_mono n bs c d xs h hb
      exact ⟨_, by simp [hys], interN_mono n xs ys hall⟩
theorem foldL_mono (n : Nat) : ∀ (ts : List Tree) (c d x : Ctx), leL c d → foldL n ts c = .ok x →
    ∃ y, foldL n ts d = .ok y ∧ leL x y
  | [], c, d, x, h, hv => by simp only [foldL] at hv ⊢; cases hv; exact ⟨d, rfl, h⟩
  | t :: ts, c, d, x, h, hv => by
    simp only [foldL] at hv ⊢
    cases ht : fold n t c with
    | error e => simp [ht] at hv
    | ok c' =>
      simp only [ht] at hv
      obtain ⟨d', hd', hle⟩ := fold_mono n t c d c' h ht
      simp only [hd']
      exact foldL_mono n ts c' d' x hle hv
theorem foldB_mono (n : Nat) : ∀ (bs : List Tree) (c d : Ctx) (xs : List Ctx), leL c d → foldB n bs c = .ok xs →
    ∃ ys, foldB n bs d = .ok ys ∧ All2 leL xs ys
  | [], c, d, xs, h, hv => by simp only [foldB] at hv ⊢; cases hv; exact ⟨[], rfl, All2.nil⟩
  | b :: bs, c, d, xs, h, hv => by
    simp only [foldB] at hv ⊢
    by_cases hg : b.hasGet = true
    · simp only [hg, if_true] at hv ⊢
      cases hb : fold n b c with
      | error e => simp [hb] at hv
      | ok x =>
        simp only [hb] at hv
        cases hr : foldB n bs c with
        | error e => simp [hr] at hv
        | ok xs' =>
          simp only [hr] at hv
          cases hv
          obtain ⟨y, hy, hle⟩ := fold_mono n b c d x h hb
          obtain ⟨ys, hys, hall⟩ := foldB_mono n bs c d xs' h hr
          exact ⟨y :: ys, by simp [hy, hys], All2.cons hle hall⟩
    · simp only [hg] at hv ⊢
      exact foldB_mono n bs c d xs h hv
end

mutual
theorem fold_length (n : Nat) : ∀ (t : Tree) (c x : Ctx), c.length = n → fold n t c = .ok x → x.length = n
  | .leaf (.set k ks v), c, x, h, hv => by
    simp only [fold, foldElem] at hv
    exact fmtUpdate_length n k ks v c x h hv
  | .leaf .store, c, x, h, hv => by simp only [fold, foldElem] at hv; cases hv; exact h
  | .leaf .ucfs, c, x, h, hv => by simp only [fold, foldElem] at hv; cases hv; exact h
  | .leaf (.mkf _), c, x, h, hv => by simp only [fold, foldElem] at hv; cases hv; exact h
  | .leaf (.write _), c, x, h, hv => by simp only [fold, foldElem] at hv; cases hv; exact h
  | .leaf (.cache _), c, x, h, hv => by simp only [fold, foldElem] at hv; cases hv; exact h
  | .leaf .data, c, x, h, hv => by simp only [fold, foldElem] at hv; cases hv; exact h
  | .leaf (.mut ..), c, x, h, hv => by simp only [fold, foldElem] at hv; cases hv; exact h
  | .leaf .src, c, x, h, hv => by simp only [fold, foldElem] at hv; cases hv; exact h
  | .seq _ cs, c, x, h, hv => by
    simp only [fold] at hv
    exact foldL_length n cs c x h hv
  | .split bs, c, x, h, hv => by
    simp only [fold] at hv
    cases hb : foldB n bs c with
    | error e => simp [hb] at hv
    | ok xs =>
      simp only [hb] at hv
      cases hv
      exact interN_length n xs (foldB_length n bs c xs h hb)
theorem foldL_length (n : Nat) : ∀ (ts : List Tree) (c x : Ctx), c.length = n → foldL n ts c = .ok x → x.length = n
  | [], c, x, h, hv => by simp only [foldL] at hv; cases hv; exact h
  | t :: ts, c, x, h, hv => by
    simp only [foldL] at hv
    cases ht : fold n t c with
    | error e => simp [ht] at hv
    | ok c' =>
      simp only [ht] at hv
      exact foldL_length n ts c' x (fold_length n t c c' h ht) hv
theorem foldB_length (n : Nat) : ∀ (bs : List Tree) (c : Ctx) (xs : List Ctx), c.length = n → foldB n bs c = .ok xs →
    ∀ x ∈ xs, x.length = n
  | [], c, xs, h, hv => by simp only [foldB] at hv; cases hv; simp
  | b :: bs, c, xs, h, hv => by
    simp only [foldB] at hv
    by_cases hg : b.hasGet = true
    · simp only [hg, if_true] at hv
      cases hb : fold n b c with
      | error e => simp [hb] at hv
      | ok x =>
        simp only [hb] at hv
        cases hr : foldB n bs c with
        | error e => simp [hr] at hv
        | ok xs' =>
          simp only [hr] at hv
          cases hv
          intro y hy
          simp only [List.mem_cons] at hy
          rcases hy with hy | hy
          · subst hy; exact fold_length n b c _ h hb
          · exact foldB_length n bs c xs' h hr y hy
    · simp only [hg] at hv
      exact foldB_length n bs c xs h hv
end

/-! ## basic facts about `final` -/

theorem lastD_cons_empty (n : Nat) (F : List Ctx) : lastD n (Val.empty n :: F) = lastD n F := by
  cases F <;> simp [lastD, List.getLastD]

theorem lastD_append_singleton (n : Nat) (F : List Ctx) (c : Ctx) : lastD n (F ++ [c]) = c := by
  simp [lastD, List.getLastD_eq_getLast?]

theorem lastD_mem_or (n : Nat) (F : List Ctx) : lastD n F = Val.empty n ∨ lastD n F ∈ F := by
  cases F with
  | nil => left; rfl
  | cons a F => right; simp only [lastD, List.getLastD_cons]; exact List.getLastD_mem_cons

theorem lastD_dup (n : Nat) (F1 F2 : List Ctx) (c : Ctx) :
    lastD n (F1 ++ c :: c :: F2) = lastD n (F1 ++ c :: F2) := by
  simp only [lastD, List.getLastD_eq_getLast?]
  congr 1
  cases F2 with
  | nil => simp [List.getLast?_append]
  | cons d F2 => simp [List.getLast?_append, List.getLast?_cons_cons]

theorem pastT_append (n : Nat) (t : Tree) (F G : List Ctx) : pastT n t (F ++ G) = pastT n t F ++ pastT n t G := by
  simp [pastT, List.filterMap_append]

theorem pastT_dup (n : Nat) (t : Tree) (F1 F2 : List Ctx) (c : Ctx) :
    (pastT n t (F1 ++ c :: c :: F2) = pastT n t (F1 ++ c :: F2)) ∨
    ∃ d, pastT n t (F1 ++ c :: c :: F2) = pastT n t F1 ++ d :: d :: pastT n t F2 ∧
         pastT n t (F1 ++ c :: F2) = pastT n t F1 ++ d :: pastT n t F2 := by
  cases h : fold n t c with
  | error e => left; simp [pastT, List.filterMap_append, h, Except.toOption]
  | ok d => right; exact ⟨d, by simp [pastT, List.filterMap_append, h, Except.toOption],
                            by simp [pastT, List.filterMap_append, h, Except.toOption]⟩

mutual
/-- a context delivered twice in a row counts once -/
theorem final_dup (n : Nat) : ∀ (t : Tree) (F1 F2 : List Ctx) (c : Ctx),
    final n t (F1 ++ c :: c :: F2) = final n t (F1 ++ c :: F2)
  | .leaf e, F1, F2, c => by simp only [final, lastD_dup]
  | .seq kind cs, F1, F2, c => by simp only [final, lastD_dup, finalL_dup n cs F1 F2 c]
  | .split bs, F1, F2, c => by simp only [final, finalB_dup n bs F1 F2 c]
theorem finalL_dup (n : Nat) : ∀ (ts : List Tree) (F1 F2 : List Ctx) (c : Ctx),
    finalL n ts (F1 ++ c :: c :: F2) = finalL n ts (F1 ++ c :: F2)
  | [], _, _, _ => by simp [finalL]
  | t :: ts, F1, F2, c => by
    simp only [finalL]
    have h1 := final_dup n t (Val.empty n :: F1) F2 c
    simp only [List.cons_append] at h1
    rw [h1]
    rcases pastT_dup n t F1 F2 c with h | ⟨d, h2, h3⟩
    · rw [h]
    · rw [h2, h3, finalL_dup n ts _ _ d]
theorem finalB_dup (n : Nat) : ∀ (bs : List Tree) (F1 F2 : List Ctx) (c : Ctx),
    finalB n bs (F1 ++ c :: c :: F2) = finalB n bs (F1 ++ c :: F2)
  | [], _, _, _ => by simp [finalB]
  | b :: bs, F1, F2, c => by
    simp only [finalB]
    have h1 := final_dup n b (Val.empty n :: F1) F2 c
    simp only [List.cons_append] at h1
    rw [h1, finalB_dup n bs F1 F2 c]
end

theorem final_hasSet (n : Nat) (t : Tree) (F : List Ctx) : (final n t F).hasSet = t.hasSet := by
  cases t with
  | leaf e => cases e <;> simp [final, leafFinal, St.hasSet, Tree.hasSet]
  | seq kind cs => simp [final, St.hasSet, Tree.hasSet]
  | split bs => simp [final, St.hasSet, Tree.hasSet]

theorem final_hasGet (n : Nat) (t : Tree) (F : List Ctx) : (final n t F).hasGet = t.hasGet := by
  cases t with
  | leaf e => cases e <;> simp [final, leafFinal, St.hasGet, Tree.hasGet]
  | seq kind cs => simp [final, St.hasGet, Tree.hasGet]
  | split bs => simp [final, St.hasGet, Tree.hasGet]

/-- an element without `_set_context` has no state -/
theorem final_noSet (n : Nat) (t : Tree) (F G : List Ctx) (h : t.hasSet = false) : final n t F = final n t G := by
  cases t with
  | leaf e => cases e <;> simp_all [final, leafFinal, Tree.hasSet]
  | seq kind cs => simp [Tree.hasSet] at h
  | split bs => simp [Tree.hasSet] at h

/-- an element without `_get_context` leaves the context of its sequence alone -/
theorem fold_noGet (n : Nat) (t : Tree) (c : Ctx) (h : t.hasGet = false) : fold n t c = .ok c := by
  cases t with
  | leaf e => cases e <;> simp_all [fold, foldElem, Tree.hasGet]
  | seq kind cs => simp [Tree.hasGet] at h
  | split bs => simp [Tree.hasGet] at h

theorem SC_get_ofExcept (r : Except Nat Ctx) : (SC.ofExcept r).get = r := by
  cases r <;> rfl

mutual
/-- `_get_context()` in a closed-form state is the specification fold of the last context -/
theorem getCtx_final (n : Nat) : ∀ (t : Tree) (F : List Ctx), t.hasGet = true →
    getCtx n (final n t F) = fold n t (lastD n F)
  | .leaf (.set k ks v), F, _ => by simp [final, leafFinal, getCtx, SC_get_ofExcept, fold, foldElem]
  | .leaf .store, _, h => by simp [Tree.hasGet] at h
  | .leaf .ucfs, _, h => by simp [Tree.hasGet] at h
  | .leaf (.mkf _), _, h => by simp [Tree.hasGet] at h
  | .leaf (.write _), _, h => by simp [Tree.hasGet] at h
  | .leaf (.cache _), _, h => by simp [Tree.hasGet] at h
  | .leaf .data, _, h => by simp [Tree.hasGet] at h
  | .leaf (.mut ..), _, h => by simp [Tree.hasGet] at h
  | .leaf .src, _, h => by simp [Tree.hasGet] at h
  | .seq kind cs, F, _ => by simp [final, getCtx, SC_get_ofExcept, fold]
  | .split bs, F, _ => by
    simp only [final, getCtx, fold, getCtxs_final n bs F]
theorem getCtxs_final (n : Nat) : ∀ (bs : List Tree) (F : List Ctx),
    getCtxs n (finalB n bs F) = foldB n bs (lastD n F)
  | [], _ => by simp [finalB, getCtxs, foldB]
  | b :: bs, F => by
    simp only [finalB, getCtxs, foldB, final_hasGet]
    by_cases hg : b.hasGet = true
    · simp only [hg, if_true]
      rw [getCtx_final n b _ hg, lastD_cons_empty, getCtxs_final n bs F]
    · simp only [hg]
      exact getCtxs_final n bs F
end

/-! ## one more pass -/

def LoopOut.toExcept : LoopOut → Except Nat Ctx
  | .done c => .ok c
  | .ret e => .error e
  | .raise e => .error e

/-- what nesting guarantees when a context `c` is delivered after the contexts `F`: they are all below it
(and all have `n` slots) -/
def Hist (n : Nat) (F : List Ctx) (c : Ctx) : Prop :=
  (∀ h ∈ F, leL h c ∧ h.length = n) ∧ c.length = n

theorem Hist.cons_empty {n : Nat} {F : List Ctx} {c : Ctx} (h : Hist n F c) : Hist n (Val.empty n :: F) c := by
  refine ⟨?_, h.2⟩
  intro x hx
  simp only [List.mem_cons] at hx
  rcases hx with hx | hx
  · subst hx; exact ⟨empty_leL n c, by simp [Val.empty]⟩
  · exact h.1 x hx

theorem Hist.lastD_le {n : Nat} {F : List Ctx} {c : Ctx} (h : Hist n F c) : leL (lastD n F) c := by
  rcases lastD_mem_or n F with h0 | h0
  · rw [h0]; exact empty_leL n c
  · exact (h.1 _ h0).1

theorem Hist.pastT {n : Nat} {F : List Ctx} {c c' : Ctx} (t : Tree) (h : Hist n F c) (hc : fold n t c = .ok c') :
    Hist n (pastT n t F) c' := by
  refine ⟨?_, fold_length n t c c' h.2 hc⟩
  intro x hx
  simp only [Lena.C13.pastT, List.mem_filterMap] at hx
  obtain ⟨a, ha, hax⟩ := hx
  cases hf : fold n t a with
  | error e => simp [hf, Except.toOption] at hax
  | ok x' =>
    simp only [hf, Except.toOption, Option.some.injEq] at hax
    subst hax
    obtain ⟨y, hy, hle⟩ := fold_mono n t a c x' (h.1 a ha).1 hf
    rw [hc] at hy; cases hy
    exact ⟨hle, fold_length n t a x' (h.1 a ha).2 hf⟩

theorem Hist.all_empty {n : Nat} {F : List Ctx} {c : Ctx} (h : Hist n F c) (hc : nonEmpty c = false) :
    c = Val.empty n ∧ ∀ x ∈ F, x = Val.empty n :=
  ⟨eq_empty_of_not_nonEmpty n c h.2 hc,
   fun x hx => eq_empty_of_not_nonEmpty n x (h.1 x hx).2 (nonEmpty_false_of_le (h.1 x hx).1 hc)⟩

/-- delivering `{}` once more after nothing but `{}` changes nothing -/
theorem final_skip (n : Nat) (t : Tree) (F : List Ctx) (hF : ∀ x ∈ F, x = Val.empty n) :
    final n t (Val.empty n :: F ++ [Val.empty n]) = final n t (Val.empty n :: F) := by
  have hrep : F = List.replicate F.length (Val.empty n) := List.eq_replicate_iff.2 ⟨rfl, hF⟩
  have : F ++ [Val.empty n] = Val.empty n :: F := by
    rw [hrep]; simp [← List.replicate_succ, List.replicate_succ']
  rw [List.cons_append, this]
  exact final_dup n t [] F (Val.empty n)

theorem lastD_all_empty (n : Nat) (F : List Ctx) (hF : ∀ x ∈ F, x = Val.empty n) : lastD n F = Val.empty n := by
  rcases lastD_mem_or n F with h | h
  · exact h
  · exact hF _ h

theorem pastT_noGet (n : Nat) (t : Tree) (F : List Ctx) (h : t.hasGet = false) : pastT n t F = F := by
  simp only [pastT, fold_noGet n t _ h, Except.toOption]
  induction F with
  | nil => rfl
  | cons a F ih => simp [ih]

theorem pastT_snoc_ok (n : Nat) (t : Tree) (F : List Ctx) (c c' : Ctx) (h : fold n t c = .ok c') :
    pastT n t (F ++ [c]) = pastT n t F ++ [c'] := by
  simp [pastT, List.filterMap_append, h, Except.toOption]

theorem pastT_snoc_error (n : Nat) (t : Tree) (F : List Ctx) (c : Ctx) (e : Nat) (h : fold n t c = .error e) :
    pastT n t (F ++ [c]) = pastT n t F := by
  simp [pastT, List.filterMap_append, h, Except.toOption]

/-- the update of `_static_context` / `_exc` after a pass, given that success is inherited from below -/
theorem SC_step (r0 r : Except Nat Ctx) (hmono : ∀ x, r0 = .ok x → ∃ y, r = .ok y) (e : Nat) (hr : r = .error e) :
    (SC.ofExcept r0).fail e = SC.ofExcept r := by
  subst hr
  cases r0 with
  | ok x => obtain ⟨y, hy⟩ := hmono x rfl; cases hy
  | error e0 => rfl

theorem nameUpdate_final (t : Tpl) (x c : Ctx) (h : leL x c) :
    nameUpdate t (if nonEmpty x = true then nameUpdate t none x else none) c = nameUpdate t none c := by
  by_cases hx0 : nonEmpty x = true
  · simp only [hx0, if_true]
    unfold nameUpdate
    by_cases hp : t.parts.isEmpty = true
    · simp [hp]
    · simp only [hp]
      cases hc : fmt t c with
      | ok l => rfl
      | error e =>
        cases hx : fmt t x with
        | ok l => rw [fmt_mono t x c l h hx] at hc; cases hc
        | error e0 => rfl
  · simp [hx0]

mutual
theorem setCtx_final (n : Nat) : ∀ (t : Tree) (F : List Ctx) (c : Ctx), Hist n F c → nonEmpty c = true →
    (setCtx n (final n t F) c).1 = final n t (F ++ [c]) ∧
    ∀ e, (setCtx n (final n t F) c).2 = some e → fold n t c = .error e
  | .leaf (.set k ks v), F, c, hH, _ => by
    simp only [final, leafFinal, setCtx, lastD_append_singleton, fold, foldElem]
    cases hf : fmtUpdate n k ks v c with
    | ok c' => simp [SC.ofExcept]
    | error e =>
      have := SC_step (fmtUpdate n k ks v (lastD n F)) (fmtUpdate n k ks v c)
        (fun x hx => by
          obtain ⟨y, hy, _⟩ := fmtUpdate_mono n k ks v _ c x hH.lastD_le hx
          exact ⟨y, hy⟩) e hf
      simp only [this, hf]
      simp
  | .leaf .store, F, c, _, _ => by simp [final, leafFinal, setCtx, lastD_append_singleton]
  | .leaf .ucfs, F, c, _, _ => by simp [final, leafFinal, setCtx, lastD_append_singleton]
  | .leaf (.mkf t), F, c, _, hne => by simp [final, leafFinal, setCtx, lastD_append_singleton, hne]
  | .leaf (.write t), F, c, hH, hne => by
    simp [final, leafFinal, setCtx, lastD_append_singleton, nameUpdate_final t _ c hH.lastD_le, hne]
  | .leaf (.cache t), F, c, hH, hne => by
    simp [final, leafFinal, setCtx, lastD_append_singleton, nameUpdate_final t _ c hH.lastD_le, hne]
  | .leaf .data, F, c, _, _ => by simp [final, leafFinal, setCtx]
  | .leaf (.mut ..), F, c, _, _ => by simp [final, leafFinal, setCtx]
  | .leaf .src, F, c, _, _ => by simp [final, leafFinal, setCtx]
  | .seq kind cs, F, c, hH, _ => by
    obtain ⟨o, hloop, ho⟩ := loop_final n cs F c hH
    have hmono : ∀ x, foldL n cs (lastD n F) = .ok x → ∃ y, foldL n cs c = .ok y := fun x hx => by
      obtain ⟨y, hy, _⟩ := foldL_mono n cs _ c x hH.lastD_le hx
      exact ⟨y, hy⟩
    simp only [final, setCtx, hloop, lastD_append_singleton, fold]
    cases o with
    | done c' =>
      simp only [LoopOut.toExcept] at ho
      simp [← ho, SC.ofExcept]
    | ret e =>
      simp only [LoopOut.toExcept] at ho
      simp [SC_step _ _ hmono e ho.symm]
    | raise e =>
      simp only [LoopOut.toExcept] at ho
      simp [SC_step _ _ hmono e ho.symm, ← ho]
  | .split bs, F, c, hH, hne => by
    simp [final, setCtx, hne, branches_final n bs F c hH hne]
/-- the loop of `LenaSequence._set_context` over children in closed form -/
theorem loop_final (n : Nat) : ∀ (ts : List Tree) (F : List Ctx) (c : Ctx), Hist n F c →
    ∃ o, loop n (finalL n ts F) c = (finalL n ts (F ++ [c]), o) ∧ o.toExcept = foldL n ts c
  | [], F, c, _ => ⟨.done c, by simp [finalL, loop], by simp [LoopOut.toExcept, foldL]⟩
  | t :: ts, F, c, hH => by
    simp only [finalL, loop, final_hasSet, foldL]
    -- the state of `t` after the `_set_context` part, and what was raised
    have hset : ∃ r, (if (t.hasSet && nonEmpty c) = true then setCtx n (final n t (Val.empty n :: F)) c
          else (final n t (Val.empty n :: F), none)) = (final n t (Val.empty n :: (F ++ [c])), r) ∧
        (∀ e, r = some e → fold n t c = .error e) := by
      by_cases hs : t.hasSet = true
      · by_cases hne : nonEmpty c = true
        · have := setCtx_final n t (Val.empty n :: F) c hH.cons_empty hne
          refine ⟨(setCtx n (final n t (Val.empty n :: F)) c).2, ?_, this.2⟩
          simp only [hs, hne, Bool.and_self, if_true]
          rw [← List.cons_append, ← this.1]
        · have hne' : nonEmpty c = false := by simpa using hne
          obtain ⟨hc, hF⟩ := hH.all_empty hne'
          refine ⟨none, ?_, by simp⟩
          simp only [hne', Bool.and_false, Bool.false_eq_true, if_false]
          subst hc
          rw [← List.cons_append, final_skip n t F hF]
      · have hs' : t.hasSet = false := by simpa using hs
        refine ⟨none, ?_, by simp⟩
        simp only [hs', Bool.false_and, Bool.false_eq_true, if_false]
        rw [final_noSet n t _ _ hs']
    obtain ⟨r, hr, hrr⟩ := hset
    rw [hr]
    cases r with
    | some e =>
      have he := hrr e rfl
      refine ⟨.ret e, ?_, by simp [LoopOut.toExcept, he]⟩
      simp only [pastT_snoc_error n t F c e he]
    | none =>
      simp only [final_hasGet]
      by_cases hg : t.hasGet = true
      · simp only [hg, if_true]
        rw [getCtx_final n t _ hg, lastD_cons_empty, lastD_append_singleton]
        cases hf : fold n t c with
        | error e =>
          refine ⟨.raise e, ?_, by simp [LoopOut.toExcept]⟩
          simp only [pastT_snoc_error n t F c e hf]
        | ok c' =>
          obtain ⟨o, hloop, ho⟩ := loop_final n ts (pastT n t F) c' (hH.pastT t hf)
          refine ⟨o, ?_, by simpa using ho⟩
          simp only [hloop, pastT_snoc_ok n t F c c' hf]
      · have hg' : t.hasGet = false := by simpa using hg
        simp only [hg', Bool.false_eq_true, if_false]
        have hf := fold_noGet n t c hg'
        have hH' : Hist n (pastT n t F) c := by rw [pastT_noGet n t F hg']; exact hH
        obtain ⟨o, hloop, ho⟩ := loop_final n ts (pastT n t F) c hH'
        refine ⟨o, ?_, by simpa [hf] using ho⟩
        simp only [hloop, pastT_snoc_ok n t F c c hf]
theorem branches_final (n : Nat) : ∀ (bs : List Tree) (F : List Ctx) (c : Ctx), Hist n F c → nonEmpty c = true →
    branches n (finalB n bs F) c = finalB n bs (F ++ [c])
  | [], _, _, _, _ => by simp [finalB, branches]
  | b :: bs, F, c, hH, hne => by
    simp only [finalB, branches, final_hasSet]
    rw [branches_final n bs F c hH hne]
    by_cases hs : b.hasSet = true
    · simp only [hs, if_true]
      rw [(setCtx_final n b (Val.empty n :: F) c hH.cons_empty hne).1, List.cons_append]
    · have hs' : b.hasSet = false := by simpa using hs
      simp only [hs', Bool.false_eq_true, if_false]
      rw [final_noSet n b _ (Val.empty n :: (F ++ [c])) hs']
end

/-! ## construction -/

theorem hist_nil (n : Nat) : Hist n [] (Val.empty n) := ⟨by simp, by simp [Val.empty]⟩

theorem initElem_eq (n : Nat) (e : Elem) : initElem n e = leafFinal n e (Val.empty n) := by
  cases e <;> simp [initElem, leafFinal, nonEmpty_empty]

mutual
/-- after its construction a program is in the closed-form state of the single history `[{}]` -/
theorem build_eq_final (n : Nat) : ∀ t : Tree, build n t = final n t [Val.empty n]
  | .leaf e => by simp [build, final, lastD, initElem_eq]
  | .seq kind cs => by
    simp only [build, mkSeq, buildL_eq_finalL n cs]
    obtain ⟨o, hloop, ho⟩ := loop_final n cs [] (Val.empty n) (hist_nil n)
    simp only [hloop, final, List.nil_append, lastD, List.getLastD_cons, List.getLastD_nil]
    cases o with
    | done c' => simp only [LoopOut.toExcept] at ho; simp [← ho, SC.ofExcept]
    | ret e => simp only [LoopOut.toExcept] at ho; simp [← ho, SC.ofExcept]
    | raise e => simp only [LoopOut.toExcept] at ho; simp [← ho, SC.ofExcept]
  | .split bs => by simp only [build, final, buildL_eq_finalB n bs]
theorem buildL_eq_finalL (n : Nat) : ∀ ts : List Tree, buildL n ts = finalL n ts []
  | [] => by simp [buildL, finalL]
  | t :: ts => by
    simp only [buildL, finalL, build_eq_final n t, buildL_eq_finalL n ts, pastT, List.filterMap_nil]
theorem buildL_eq_finalB (n : Nat) : ∀ bs : List Tree, buildL n bs = finalB n bs [Val.empty n]
  | [] => by simp [buildL, finalB]
  | b :: bs => by
    simp only [buildL, finalB, build_eq_final n b, buildL_eq_finalB n bs]
    rw [show [Val.empty n, Val.empty n] = [] ++ (Val.empty n : Ctx) :: Val.empty n :: [] from rfl, final_dup]
    rfl
end

end Lena.C13
