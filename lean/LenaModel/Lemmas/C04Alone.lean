import LenaModel.Lemmas.C04
/-! # C04 — lemmas for `branch_alone_equiv`: locality of a branch, frame and determinacy of the
steps of `Split.run`, simulation of the run by the run of one branch alone -/

namespace Lena.C04

open Lena.C03 (Kind readBlock blocks)

variable {σ S C : Type}

/-! ## the contents of a deep copy -/

/-- invariant of a running `copy.deepcopy` that started at counter `lo` on heap `st₀`: nothing but
the new objects changed, and every memo entry holds the content of its original -/
def CopyInv (ns lo : Nat) (st₀ : Store C) (c : CopySt C) : Prop :=
  (∀ u, ¬ InRange ns lo c.ctr u → c.st u = st₀ u) ∧
  (∀ p ∈ c.memo, InRange ns lo c.ctr p.2 ∧ c.st p.2 = st₀ p.1)

theorem CopyInv.memoIn {ns lo : Nat} {st₀ : Store C} {c : CopySt C} (h : CopyInv ns lo st₀ c) : MemoIn ns lo c :=
  fun p hp => (h.2 p hp).1

theorem copyCells_contents (ns lo : Nat) (st₀ : Store C) : ∀ (ts : List Tok) (c : CopySt C), lo ≤ c.ctr →
    CopyInv ns lo st₀ c → (∀ t ∈ ts, ¬ (t.1 = ns ∧ lo ≤ t.2)) →
    CopyInv ns lo st₀ (copyCells ns c ts).1 ∧
    ∀ p ∈ (copyCells ns c ts).2.zip ts, (copyCells ns c ts).1.st p.1 = st₀ p.2 := by
  intro ts
  induction ts with
  | nil => intro c _ hc _; simp [copyCells]; exact hc
  | cons t ts ih =>
    intro c hlo hc hsrc
    have hsrc' : ∀ t' ∈ ts, ¬ (t'.1 = ns ∧ lo ≤ t'.2) := fun t' ht' => hsrc t' (List.mem_cons_of_mem _ ht')
    unfold copyCells
    cases hl : c.memo.lookup t with
    | some t' =>
      simp only
      obtain ⟨i1, i2⟩ := ih c hlo hc hsrc'
      obtain ⟨_, _, _, _, fr⟩ := copyCells_spec ns lo ts c hlo hc.memoIn
      refine ⟨i1, ?_⟩
      intro p hp
      simp only [List.zip_cons_cons, List.mem_cons] at hp
      rcases hp with rfl | hp
      · obtain ⟨r, e⟩ := hc.2 _ (lookup_mem hl)
        simp only at r e ⊢
        rw [fr t' (by intro g; obtain ⟨_, g2, _⟩ := g; obtain ⟨_, _, r3⟩ := r; omega)]
        exact e
      · exact i2 p hp
    | none =>
      simp only
      have ht : c.st t = st₀ t := hc.1 t (by intro g; exact hsrc t (List.mem_cons_self ..) ⟨g.1, g.2.1⟩)
      have hc' : CopyInv ns lo st₀ ({ st := c.st.set (ns, c.ctr) (c.st t), ctr := c.ctr + 1, memo := (t, (ns, c.ctr)) :: c.memo } : CopySt C) := by
        refine ⟨?_, ?_⟩
        · intro u hu
          simp only
          rw [Store.set_ne]
          · exact hc.1 u (by intro g; obtain ⟨g1, g2, g3⟩ := g; exact hu ⟨g1, g2, by simp only; omega⟩)
          · intro heq; subst heq; exact hu ⟨rfl, hlo, by simp⟩
        · intro p hp
          rcases List.mem_cons.mp hp with rfl | hp
          · exact ⟨⟨rfl, hlo, by simp⟩, by simp [ht]⟩
          · obtain ⟨r, e⟩ := hc.2 p hp
            refine ⟨⟨r.1, r.2.1, by have := r.2.2; simp only; omega⟩, ?_⟩
            simp only
            rw [Store.set_ne]
            · exact e
            · intro heq
              have := r.2.2
              rw [heq] at this
              simp at this
      obtain ⟨i1, i2⟩ := ih _ (by simp only; omega) hc' hsrc'
      obtain ⟨_, _, _, _, fr⟩ := copyCells_spec ns lo ts
        ({ st := c.st.set (ns, c.ctr) (c.st t), ctr := c.ctr + 1, memo := (t, (ns, c.ctr)) :: c.memo } : CopySt C)
        (by simp only; omega) hc'.memoIn
      refine ⟨i1, ?_⟩
      intro p hp
      simp only [List.zip_cons_cons, List.mem_cons] at hp
      rcases hp with rfl | hp
      · simp only at fr ⊢
        rw [fr (ns, c.ctr) (by intro g; obtain ⟨_, g2, _⟩ := g; simp only at g2; omega)]
        simp [ht]
      · exact i2 p hp

theorem copyItems_contents (ns lo : Nat) (st₀ : Store C) : ∀ (xs : List (Item S)) (c : CopySt C), lo ≤ c.ctr →
    CopyInv ns lo st₀ c → (∀ t ∈ cellsOf xs, ¬ (t.1 = ns ∧ lo ≤ t.2)) →
    CopyInv ns lo st₀ (copyItems ns c xs).1 ∧
    ∀ p ∈ (cellsOf (copyItems ns c xs).2).zip (cellsOf xs), (copyItems ns c xs).1.st p.1 = st₀ p.2 := by
  intro xs
  induction xs with
  | nil => intro c _ hc _; simp [copyItems]; exact hc
  | cons x xs ih =>
    intro c hlo hc hsrc
    have hsx : ∀ t ∈ x.cells, ¬ (t.1 = ns ∧ lo ≤ t.2) := fun t ht => hsrc t (by rw [cellsOf_cons]; exact List.mem_append_left _ ht)
    have hsxs : ∀ t ∈ cellsOf xs, ¬ (t.1 = ns ∧ lo ≤ t.2) := fun t ht => hsrc t (by rw [cellsOf_cons]; exact List.mem_append_right _ ht)
    obtain ⟨a1, a2⟩ := copyCells_contents ns lo st₀ x.cells c hlo hc hsx
    obtain ⟨s1, _, s3, s4, _⟩ := copyCells_spec ns lo x.cells c hlo hc.memoIn
    obtain ⟨b1, b2⟩ := ih (copyCells ns c x.cells).1 (by omega) a1 hsxs
    obtain ⟨_, _, _, _, fr⟩ := copyItems_spec (S := S) ns lo xs (copyCells ns c x.cells).1 (by omega) a1.memoIn
    unfold copyItems
    simp only
    refine ⟨b1, ?_⟩
    intro p hp
    rw [cellsOf_cons, cellsOf_cons, List.zip_append (by simpa using s3)] at hp
    rcases List.mem_append.mp hp with hp | hp
    · rw [fr p.1 ?_]
      · exact a2 p hp
      · intro g
        have hm : p.1 ∈ (copyCells ns c x.cells).2 := (List.of_mem_zip hp).1
        obtain ⟨_, _, h3⟩ := s4 p.1 hm
        obtain ⟨_, g2, _⟩ := g
        omega
    · exact b2 p hp

/-- the objects of a deep copy hold what the originals hold, object by object -/
theorem deepcopy_contents (ns : Nat) (w : World C) (buf : List (Item S))
    (hsrc : ∀ t ∈ cellsOf buf, ¬ (t.1 = ns ∧ w.cc ≤ t.2)) :
    ∀ p ∈ (cellsOf (deepcopy ns w buf).2).zip (cellsOf buf), (deepcopy ns w buf).1.st p.1 = w.st p.2 := by
  have h := copyItems_contents (S := S) ns w.cc w.st buf { st := w.st, ctr := w.cc, memo := [] } (Nat.le_refl _)
    ⟨fun u _ => rfl, by intro p hp; simp at hp⟩ hsrc
  exact h.2

/-! ## locality -/

/-- two heaps agree on a set of objects -/
def Agree (W : Tok → Prop) (st₁ st₂ : Store C) : Prop := ∀ t, W t → st₁ t = st₂ t

theorem Agree.mono {W W' : Tok → Prop} {st₁ st₂ : Store C} (h : Agree W st₁ st₂) (hW : ∀ t, W' t → W t) :
    Agree W' st₁ st₂ := fun t ht => h t (hW t ht)

theorem Agree.symm {W : Tok → Prop} {st₁ st₂ : Store C} (h : Agree W st₁ st₂) : Agree W st₂ st₁ :=
  fun t ht => (h t ht).symm

theorem Agree.trans {W : Tok → Prop} {st₁ st₂ st₃ : Store C} (h : Agree W st₁ st₂) (h' : Agree W st₂ st₃) :
    Agree W st₁ st₃ := fun t ht => (h t ht).trans (h' t ht)

/-- one invocation on two heaps that agree on a set `W` containing the footprint -/
theorem act_agree {ops : Ops σ S C} {ns : Nat} (hl : Local ops ns) (W : Tok → Prop) (s : σ) (r : Req S)
    (hW : ∀ t, foot ns (ops.refs s) r.cells t → W t) {st₁ st₂ : Store C} (h : Agree W st₁ st₂) :
    (ops.act st₁ s r).2 = (ops.act st₂ s r).2 ∧ Agree W (ops.act st₁ s r).1 (ops.act st₂ s r).1 := by
  obtain ⟨d1, d2⟩ := hl.det st₁ st₂ s r (fun t ht => h t (hW t ht))
  refine ⟨d1, fun t ht => ?_⟩
  by_cases hf : foot ns (ops.refs s) r.cells t
  · exact d2 t hf
  · rw [hl.frame st₁ s r t hf, hl.frame st₂ s r t hf]; exact h t ht

theorem act_frame {ops : Ops σ S C} {ns : Nat} (hl : Local ops ns) (W : Tok → Prop) (s : σ) (r : Req S)
    (hW : ∀ t, foot ns (ops.refs s) r.cells t → W t) (st : Store C) :
    ∀ t, ¬ W t → (ops.act st s r).1 t = st t :=
  fun t ht => hl.frame st s r t (fun hf => ht (hW t hf))

theorem act_refs {ops : Ops σ S C} {ns : Nat} (hl : Local ops ns) (W : Tok → Prop) (s : σ) (r : Req S)
    (hW : ∀ t, foot ns (ops.refs s) r.cells t → W t) (st : Store C) :
    (∀ t ∈ ops.refs (ops.act st s r).2.1, W t) ∧ (∀ t ∈ cellsOf (ops.act st s r).2.2.outs, W t) :=
  ⟨fun t ht => hW t (hl.refs_sub st s r t (Or.inl ht)), fun t ht => hW t (hl.refs_sub st s r t (Or.inr ht))⟩

/-- the events of yielded values are the same on heaps that agree on the objects of the values -/
theorem outsEv_agree (i : Nat) (W : Tok → Prop) {st₁ st₂ : Store C} (h : Agree W st₁ st₂) (vals : List (Item S))
    (hv : ∀ t ∈ cellsOf vals, W t) : (outsEv i st₁ vals : List (Ev S C)) = outsEv i st₂ vals := by
  unfold outsEv
  apply List.map_congr_left
  intro v hvm
  have : v.cells.map st₁ = v.cells.map st₂ := by
    apply List.map_congr_left
    intro t ht
    exact h t (hv t (by simp only [cellsOf, List.mem_flatMap]; exact ⟨v, hvm, ht⟩))
  rw [this]

/-! ## filling a buffer -/

theorem fillBuf_local {ops : Ops σ S C} {ns : Nat} (hl : Local ops ns) (i : Nat) (W : Tok → Prop)
    (hns : ∀ t, t.1 = ns → W t) :
    ∀ (buf : List (Item S)) (s : σ), (∀ t ∈ ops.refs s, W t) → (∀ t ∈ cellsOf buf, W t) →
      (∀ st, (∀ t, ¬ W t → (fillBuf i ops st s buf).st t = st t) ∧
             (∀ t ∈ ops.refs (fillBuf i ops st s buf).s, W t)) ∧
      (∀ st₁ st₂, Agree W st₁ st₂ →
        (fillBuf i ops st₁ s buf).evs = (fillBuf i ops st₂ s buf).evs ∧
        (fillBuf i ops st₁ s buf).s = (fillBuf i ops st₂ s buf).s ∧
        (fillBuf i ops st₁ s buf).stopped = (fillBuf i ops st₂ s buf).stopped ∧
        Agree W (fillBuf i ops st₁ s buf).st (fillBuf i ops st₂ s buf).st) := by
  intro buf
  induction buf with
  | nil =>
    intro s hs _
    refine ⟨fun st => ⟨fun t _ => rfl, hs⟩, fun st₁ st₂ h => ⟨rfl, rfl, rfl, h⟩⟩
  | cons x xs ih =>
    intro s hs hb
    have hx : ∀ t ∈ x.cells, W t := fun t ht => hb t (by rw [cellsOf_cons]; exact List.mem_append_left _ ht)
    have hxs : ∀ t ∈ cellsOf xs, W t := fun t ht => hb t (by rw [cellsOf_cons]; exact List.mem_append_right _ ht)
    have hW : ∀ t, foot ns (ops.refs s) (Req.fill x).cells t → W t := by
      intro t ht
      rcases ht with ht | ht | ht
      · exact hns t ht
      · exact hs t ht
      · exact hx t ht
    refine ⟨fun st => ?_, fun st₁ st₂ h => ?_⟩
    · have hr := (act_refs hl W s (.fill x) hW st).1
      have hf := act_frame hl W s (.fill x) hW st
      obtain ⟨i1, _⟩ := ih (ops.act st s (.fill x)).2.1 hr hxs
      unfold fillBuf
      simp only
      split
      · exact ⟨hf, hr⟩
      · obtain ⟨j1, j2⟩ := i1 (ops.act st s (.fill x)).1
        exact ⟨fun t ht => by rw [j1 t ht, hf t ht], j2⟩
    · obtain ⟨a1, a2⟩ := act_agree hl W s (.fill x) hW h
      have hr := (act_refs hl W s (.fill x) hW st₁).1
      obtain ⟨_, i2⟩ := ih (ops.act st₁ s (.fill x)).2.1 hr hxs
      obtain ⟨j1, j2, j3, j4⟩ := i2 _ _ a2
      unfold fillBuf
      simp only
      rw [← a1]
      split
      · exact ⟨rfl, rfl, rfl, a2⟩
      · exact ⟨by rw [j1], j2, j3, j4⟩

/-! ## one branch, one buffer -/

/-- the set of objects that branch `b` may touch while it processes `buf` -/
def stepW (b : Branch σ S C) (buf : List (Item S)) (t : Tok) : Prop :=
  t.1 = ownNs b.id ∨ t ∈ b.ops.refs b.st ∨ t ∈ cellsOf buf

theorem stepBranch_local (b : Branch σ S C) (hl : Local b.ops (ownNs b.id)) (buf : List (Item S))
    (W : Tok → Prop) (hW : ∀ t, stepW b buf t → W t) :
    (∀ st, (∀ t, ¬ W t → (stepBranch buf st b).st t = st t) ∧
      (∀ b', (stepBranch buf st b).br = some b' →
        b'.id = b.id ∧ b'.kind = b.kind ∧ b'.ops = b.ops ∧ ∀ t ∈ b.ops.refs b'.st, W t)) ∧
    (∀ st₁ st₂, Agree W st₁ st₂ →
      (stepBranch buf st₁ b).evs = (stepBranch buf st₂ b).evs ∧
      (stepBranch buf st₁ b).br = (stepBranch buf st₂ b).br ∧
      Agree W (stepBranch buf st₁ b).st (stepBranch buf st₂ b).st) := by
  have hns : ∀ t, t.1 = ownNs b.id → W t := fun t ht => hW t (Or.inl ht)
  have hrefs : ∀ t ∈ b.ops.refs b.st, W t := fun t ht => hW t (Or.inr (Or.inl ht))
  have hbuf : ∀ t ∈ cellsOf buf, W t := fun t ht => hW t (Or.inr (Or.inr ht))
  obtain ⟨fb1, fb2⟩ := fillBuf_local hl b.id W hns buf b.st hrefs hbuf
  -- footprint of an invocation without arguments / with the buffer, in a state whose refs are in W
  have hfoot : ∀ (s : σ) (r : Req S), (∀ t ∈ b.ops.refs s, W t) → (∀ t ∈ r.cells, W t) →
      ∀ t, foot (ownNs b.id) (b.ops.refs s) r.cells t → W t := by
    intro s r hs hr t ht
    rcases ht with ht | ht | ht
    · exact hns t ht
    · exact hs t ht
    · exact hr t ht
  refine ⟨fun st => ?_, fun st₁ st₂ h => ?_⟩
  · unfold stepBranch
    split
    · have hf := hfoot b.st .call hrefs (by intro t ht; simp [Req.cells] at ht)
      exact ⟨act_frame hl W _ _ hf st, by intro b' hb'; simp at hb'⟩
    · dsimp only
      obtain ⟨g1, g2⟩ := fb1 st
      split
      · have hf := hfoot (fillBuf b.id b.ops st b.st buf).s .compute g2 (by intro t ht; simp [Req.cells] at ht)
        refine ⟨fun t ht => ?_, by intro b' hb'; simp at hb'⟩
        dsimp only
        rw [act_frame hl W _ _ hf _ t ht, g1 t ht]
      · refine ⟨g1, ?_⟩
        intro b' hb'
        simp only [Option.some.injEq] at hb'
        subst hb'
        exact ⟨rfl, rfl, rfl, g2⟩
    · dsimp only
      obtain ⟨g1, g2⟩ := fb1 st
      have hf := hfoot (fillBuf b.id b.ops st b.st buf).s .request g2 (by intro t ht; simp [Req.cells] at ht)
      refine ⟨fun t ht => ?_, ?_⟩
      · rw [act_frame hl W _ _ hf _ t ht, g1 t ht]
      · intro b' hb'
        split at hb'
        · simp at hb'
        · simp only [Option.some.injEq] at hb'
          subst hb'
          exact ⟨rfl, rfl, rfl, (act_refs hl W _ _ hf _).1⟩
    · have hf := hfoot b.st (.run buf) hrefs (by intro t ht; exact hbuf t (by simpa [Req.cells] using ht))
      refine ⟨act_frame hl W _ _ hf st, ?_⟩
      intro b' hb'
      simp only [Option.some.injEq] at hb'
      subst hb'
      exact ⟨rfl, rfl, rfl, (act_refs hl W _ _ hf _).1⟩
  · unfold stepBranch
    split
    · have hf := hfoot b.st .call hrefs (by intro t ht; simp [Req.cells] at ht)
      obtain ⟨a1, a2⟩ := act_agree hl W _ _ hf h
      have ho := (act_refs hl W _ _ hf st₁).2
      refine ⟨?_, rfl, a2⟩
      dsimp only
      rw [outsEv_agree b.id W a2 _ ho, a1]
    · dsimp only
      obtain ⟨j1, j2, j3, j4⟩ := fb2 st₁ st₂ h
      obtain ⟨_, g2⟩ := fb1 st₁
      rw [← j3]
      split
      · have hf := hfoot (fillBuf b.id b.ops st₁ b.st buf).s .compute g2 (by intro t ht; simp [Req.cells] at ht)
        obtain ⟨a1, a2⟩ := act_agree hl W _ _ hf j4
        have ho := (act_refs hl W _ _ hf (fillBuf b.id b.ops st₁ b.st buf).st).2
        rw [← j2, ← j1]
        refine ⟨?_, rfl, a2⟩
        dsimp only
        rw [outsEv_agree b.id W a2 _ ho, a1]
      · exact ⟨j1, by rw [j2], j4⟩
    · dsimp only
      obtain ⟨j1, j2, j3, j4⟩ := fb2 st₁ st₂ h
      obtain ⟨_, g2⟩ := fb1 st₁
      have hf := hfoot (fillBuf b.id b.ops st₁ b.st buf).s .request g2 (by intro t ht; simp [Req.cells] at ht)
      obtain ⟨a1, a2⟩ := act_agree hl W _ _ hf j4
      have ho := (act_refs hl W _ _ hf (fillBuf b.id b.ops st₁ b.st buf).st).2
      rw [← j3, ← j2, ← j1]
      refine ⟨?_, ?_, a2⟩
      · rw [outsEv_agree b.id W a2 _ ho, a1]
      · rw [a1]
    · have hf := hfoot b.st (.run buf) hrefs (by intro t ht; exact hbuf t (by simpa [Req.cells] using ht))
      obtain ⟨a1, a2⟩ := act_agree hl W _ _ hf h
      have ho := (act_refs hl W _ _ hf st₁).2
      refine ⟨?_, by dsimp only; rw [a1], a2⟩
      dsimp only
      rw [outsEv_agree b.id W a2 _ ho, a1]

/-! ## sharper frame of `copy.deepcopy`: only the objects of the copy are written -/

theorem copyCells_frame (ns : Nat) : ∀ (ts : List Tok) (c : CopySt C) (u : Tok),
    u ∉ (copyCells ns c ts).2 → (copyCells ns c ts).1.st u = c.st u := by
  intro ts
  induction ts with
  | nil => intro c u _; rfl
  | cons t ts ih =>
    intro c u hu
    unfold copyCells at hu ⊢
    cases hl : c.memo.lookup t with
    | some t' =>
      simp only [hl] at hu ⊢
      exact ih c u (fun h => hu (List.mem_cons_of_mem _ h))
    | none =>
      simp only [hl] at hu ⊢
      rw [ih _ u (fun h => hu (List.mem_cons_of_mem _ h))]
      exact Store.set_ne _ _ (fun h => hu (by rw [h]; exact List.mem_cons_self ..))

theorem copyItems_frame (ns : Nat) : ∀ (xs : List (Item S)) (c : CopySt C) (u : Tok),
    u ∉ cellsOf (copyItems ns c xs).2 → (copyItems ns c xs).1.st u = c.st u := by
  intro xs
  induction xs with
  | nil => intro c u _; rfl
  | cons x xs ih =>
    intro c u hu
    unfold copyItems at hu ⊢
    simp only [cellsOf_cons, List.mem_append, not_or] at hu ⊢
    rw [ih _ u hu.2]
    exact copyCells_frame ns x.cells c u hu.1

theorem deepcopy_frame (ns : Nat) (w : World C) (buf : List (Item S)) (u : Tok)
    (hu : u ∉ cellsOf (deepcopy ns w buf).2) : (deepcopy ns w buf).1.st u = w.st u :=
  copyItems_frame ns buf _ u hu

theorem copyItems_cells_length (ns : Nat) : ∀ (xs : List (Item S)) (c : CopySt C),
    (cellsOf (copyItems ns c xs).2).length = (cellsOf xs).length := by
  intro xs
  induction xs with
  | nil => intro c; rfl
  | cons x xs ih =>
    intro c
    unfold copyItems
    simp only [cellsOf_cons, List.length_append, ih]
    have : ∀ (ts : List Tok) (c : CopySt C), (copyCells ns c ts).2.length = ts.length := by
      intro ts
      induction ts with
      | nil => intro c; rfl
      | cons t ts ih2 =>
        intro c
        unfold copyCells
        cases c.memo.lookup t <;> simp [ih2]
    rw [this]

theorem deepcopy_cells_length (ns : Nat) (w : World C) (buf : List (Item S)) :
    (cellsOf (deepcopy ns w buf).2).length = (cellsOf buf).length :=
  copyItems_cells_length ns buf _


/-! ## namespaces -/

theorem ns_facts (i j : Nat) :
    (ownNs i = ownNs j ↔ i = j) ∧ (copyNsOf i = copyNsOf j ↔ i = j) ∧ ownNs i ≠ copyNsOf j ∧
    ownNs i ≠ upNs ∧ copyNsOf i ≠ upNs := by
  simp only [ownNs, copyNsOf, upNs]
  omega

/-! ## `pass` with a choice for the last branch; decomposition -/

/-- the turn of one branch in a pass (with `copy_buf=True`): a buffer is chosen (`more`: a deep copy),
the branch processes it -/
def branchTurn (more : Bool) (orig : List (Item S)) (w : World C) (b : Branch σ S C) :
    List (Ev S C) × Option (Branch σ S C) × World C :=
  let c := chooseBuf true more orig (copyNsOf b.id) w
  let r := stepBranch c.2.1 c.1.st b
  (.hand b.id c.2.1 c.2.2 :: r.evs, r.br, { st := r.st, cc := c.1.cc })

/-- `pass` (with `copy_buf=True`) where the last branch gets the original buffer only if `lastOrig` -/
def passG (lastOrig : Bool) (orig : List (Item S)) :
    World C → List (Branch σ S C) → List (Ev S C) × List (Branch σ S C) × World C
  | w, [] => ([], [], w)
  | w, b :: rest =>
    let t := branchTurn (!rest.isEmpty || !lastOrig) orig w b
    let q := passG lastOrig orig t.2.2 rest
    (t.1 ++ q.1, t.2.1.toList ++ q.2.1, q.2.2)

theorem pass_eq_passG (orig : List (Item S)) : ∀ (act : List (Branch σ S C)) (w : World C),
    pass true orig w act = passG true orig w act := by
  intro act
  induction act with
  | nil => intro w; rfl
  | cons b rest ih =>
    intro w
    conv => lhs; unfold pass
    conv => rhs; unfold passG
    simp only [Bool.not_true, Bool.or_false, ih, branchTurn]
    cases (stepBranch (chooseBuf true (!rest.isEmpty) orig (copyNsOf b.id) w).2.1
      (chooseBuf true (!rest.isEmpty) orig (copyNsOf b.id) w).1.st b).br <;> rfl

theorem passG_cons (lastOrig : Bool) (orig : List (Item S)) (w : World C) (b : Branch σ S C)
    (rest : List (Branch σ S C)) :
    passG lastOrig orig w (b :: rest) =
      ((branchTurn (!rest.isEmpty || !lastOrig) orig w b).1 ++
          (passG lastOrig orig (branchTurn (!rest.isEmpty || !lastOrig) orig w b).2.2 rest).1,
       (branchTurn (!rest.isEmpty || !lastOrig) orig w b).2.1.toList ++
          (passG lastOrig orig (branchTurn (!rest.isEmpty || !lastOrig) orig w b).2.2 rest).2.1,
       (passG lastOrig orig (branchTurn (!rest.isEmpty || !lastOrig) orig w b).2.2 rest).2.2) := by
  conv => lhs; unfold passG

theorem passG_append (lastOrig : Bool) (orig : List (Item S)) (suf : List (Branch σ S C)) (hs : suf ≠ []) :
    ∀ (pre : List (Branch σ S C)) (w : World C),
      passG lastOrig orig w (pre ++ suf) =
        ((passG false orig w pre).1 ++ (passG lastOrig orig (passG false orig w pre).2.2 suf).1,
         (passG false orig w pre).2.1 ++ (passG lastOrig orig (passG false orig w pre).2.2 suf).2.1,
         (passG lastOrig orig (passG false orig w pre).2.2 suf).2.2) := by
  intro pre
  induction pre with
  | nil => intro w; simp [passG]
  | cons b rest ih =>
    intro w
    have hne : (rest ++ suf).isEmpty = false := by cases rest <;> cases suf <;> simp_all
    rw [List.cons_append, passG_cons, passG_cons, ih]
    simp [hne, List.append_assoc]

/-! ## whose events -/

theorem fillBuf_branch (i : Nat) (ops : Ops σ S C) : ∀ (buf : List (Item S)) (st : Store C) (s : σ),
    ∀ e ∈ (fillBuf i ops st s buf).evs, e.branch = some i := by
  intro buf
  induction buf with
  | nil => intro st s e he; simp [fillBuf] at he
  | cons x xs ih =>
    intro st s e he
    unfold fillBuf at he
    simp only at he
    split at he
    · simp at he; subst he; rfl
    · rcases List.mem_cons.mp he with rfl | he
      · rfl
      · exact ih _ _ e he

theorem outsEv_branch (i : Nat) (st : Store C) (vals : List (Item S)) : ∀ e ∈ outsEv i st vals, e.branch = some i := by
  intro e he
  simp only [outsEv, List.mem_map] at he
  obtain ⟨v, _, rfl⟩ := he
  rfl

theorem stepBranch_branch (buf : List (Item S)) (st : Store C) (b : Branch σ S C) :
    ∀ e ∈ (stepBranch buf st b).evs, e.branch = some b.id := by
  intro e he
  unfold stepBranch at he
  split at he
  · rcases List.mem_cons.mp he with rfl | he
    · rfl
    · exact outsEv_branch _ _ _ e he
  · dsimp only at he
    split at he
    · rcases List.mem_append.mp he with he | he
      · exact fillBuf_branch _ _ _ _ _ e he
      · rcases List.mem_cons.mp he with rfl | he
        · rfl
        · exact outsEv_branch _ _ _ e he
    · exact fillBuf_branch _ _ _ _ _ e he
  · dsimp only at he
    rcases List.mem_append.mp he with he | he
    · exact fillBuf_branch _ _ _ _ _ e he
    · rcases List.mem_cons.mp he with rfl | he
      · rfl
      · exact outsEv_branch _ _ _ e he
  · rcases List.mem_cons.mp he with rfl | he
    · rfl
    · exact outsEv_branch _ _ _ e he

theorem stepBranch_br (buf : List (Item S)) (st : Store C) (b b' : Branch σ S C)
    (h : (stepBranch buf st b).br = some b') : b'.id = b.id ∧ b'.kind = b.kind ∧ b'.ops = b.ops ∧ b.kind ≠ .source := by
  unfold stepBranch at h
  split at h
  · simp at h
  · dsimp only at h
    split at h
    · simp at h
    · simp only [Option.some.injEq] at h; subst h; simp_all
  · dsimp only at h
    split at h
    · simp at h
    · simp only [Option.some.injEq] at h; subst h; simp_all
  · simp only [Option.some.injEq] at h; subst h; simp_all

theorem proj_all (i : Nat) (l : List (Ev S C)) (h : ∀ e ∈ l, e.branch = some i) : proj i l = l := by
  unfold proj
  rw [List.filter_eq_self]
  intro e he
  simp [h e he]

theorem proj_none (i j : Nat) (hij : j ≠ i) (l : List (Ev S C)) (h : ∀ e ∈ l, e.branch = some j) : proj i l = [] := by
  unfold proj
  rw [List.filter_eq_nil_iff]
  intro e he
  simp [h e he, hij]

theorem proj_append (i : Nat) (l₁ l₂ : List (Ev S C)) : proj i (l₁ ++ l₂) = proj i l₁ ++ proj i l₂ := by
  simp [proj]

theorem branchTurn_br (more : Bool) (orig : List (Item S)) (w : World C) (b b' : Branch σ S C)
    (h : b' ∈ (branchTurn more orig w b).2.1.toList) :
    b'.id = b.id ∧ b'.kind = b.kind ∧ b'.ops = b.ops ∧ b.kind ≠ .source := by
  simp only [branchTurn, Option.mem_toList] at h
  exact stepBranch_br _ _ _ _ h

theorem branchTurn_branch (more : Bool) (orig : List (Item S)) (w : World C) (b : Branch σ S C) :
    ∀ e ∈ (branchTurn more orig w b).1, e.branch = some b.id := by
  intro e he
  simp only [branchTurn] at he
  rcases List.mem_cons.mp he with rfl | he
  · rfl
  · exact stepBranch_branch _ _ _ e he

/-- the branches that survive a pass are branches of the list, in order, with new states -/
theorem passG_brs (lastOrig : Bool) (orig : List (Item S)) : ∀ (post : List (Branch σ S C)) (w : World C),
    ((passG lastOrig orig w post).2.1.map (·.id)).Sublist (post.map (·.id)) ∧
    ∀ b' ∈ (passG lastOrig orig w post).2.1, b'.kind ≠ .source ∧ ∃ b ∈ post, b'.id = b.id ∧ b'.kind = b.kind ∧ b'.ops = b.ops := by
  intro post
  induction post with
  | nil => intro w; simp [passG]
  | cons b rest ih =>
    intro w
    rw [passG_cons]
    simp only
    obtain ⟨i1, i2⟩ := ih (branchTurn (!rest.isEmpty || !lastOrig) orig w b).2.2
    have hb := branchTurn_br (!rest.isEmpty || !lastOrig) orig w b
    refine ⟨?_, ?_⟩
    · cases hbr : (branchTurn (!rest.isEmpty || !lastOrig) orig w b).2.1 with
      | none => simpa using List.Sublist.cons _ i1
      | some b1 =>
        have := (hb b1 (by simp [hbr])).1
        simp only [Option.toList_some, List.cons_append, List.nil_append, List.map_cons, this]
        exact List.Sublist.cons_cons _ i1
    · intro b' hb'
      rcases List.mem_append.mp hb' with hb' | hb'
      · obtain ⟨e1, e2, e3, e4⟩ := hb b' hb'
        exact ⟨by rw [e2]; exact e4, b, List.mem_cons_self .., e1, e2, e3⟩
      · obtain ⟨k, b0, hb0, h⟩ := i2 b' hb'
        exact ⟨k, b0, List.mem_cons_of_mem _ hb0, h⟩

/-! ## the other branches do not touch a protected set of objects -/

/-- what a branch `b` must satisfy so that a set `P` of objects is out of its reach -/
def Outside (i : Nat) (P : Tok → Prop) (b : Branch σ S C) : Prop :=
  b.id ≠ i ∧ Local b.ops (ownNs b.id) ∧ (∀ t, P t → t.1 ≠ ownNs b.id ∧ t.1 ≠ copyNsOf b.id) ∧
  (∀ t ∈ b.ops.refs b.st, ¬ P t)

theorem chooseBuf_spec (more : Bool) (orig : List (Item S)) (ns : Nat) (w : World C) :
    (more = true →
      (chooseBuf true more orig ns w).2.2 = true ∧
      (∀ t ∈ cellsOf (chooseBuf true more orig ns w).2.1, t.1 = ns) ∧
      (∀ u, u ∉ cellsOf (chooseBuf true more orig ns w).2.1 → (chooseBuf true more orig ns w).1.st u = w.st u) ∧
      (chooseBuf true more orig ns w).2.1.map (·.skel) = orig.map (·.skel)) ∧
    (more = false → chooseBuf true more orig ns w = (w, orig, false)) := by
  cases more with
  | false => simp [chooseBuf]
  | true =>
    have hd := deepcopy_spec ns w orig
    refine ⟨fun _ => ?_, fun h => by simp at h⟩
    simp only [chooseBuf, Bool.and_self, if_true]
    exact ⟨trivial, fun t ht => (hd.2.2.1 t ht).1, fun u hu => deepcopy_frame ns w orig u hu, hd.2.1⟩

theorem branchTurn_others (i : Nat) (P : Tok → Prop) (more : Bool) (orig : List (Item S))
    (hPorig : more = false → ∀ t ∈ cellsOf orig, ¬ P t) (w : World C) (b : Branch σ S C) (hout : Outside i P b) :
    (∀ t, P t → (branchTurn more orig w b).2.2.st t = w.st t) ∧
    proj i (branchTurn more orig w b).1 = [] ∧
    (∀ b' ∈ (branchTurn more orig w b).2.1.toList, ∀ t ∈ b'.ops.refs b'.st, ¬ P t) := by
  obtain ⟨hid, hloc, hns, hrefs⟩ := hout
  obtain ⟨cs1, cs2⟩ := chooseBuf_spec more orig (copyNsOf b.id) w
  have hbr := branchTurn_branch more orig w b
  simp only [branchTurn] at hbr ⊢
  generalize hc : chooseBuf true more orig (copyNsOf b.id) w = c at cs1 cs2 hbr
  -- the buffer consists of objects outside `P`, and choosing it left `P` unchanged
  have hbuf : (∀ t ∈ cellsOf c.2.1, ¬ P t) ∧ (∀ t, P t → c.1.st t = w.st t) := by
    cases hm : more with
    | true =>
      obtain ⟨_, a2, a3, _⟩ := cs1 hm
      exact ⟨fun t ht hp => (hns t hp).2 (a2 t ht), fun t hp => a3 t (fun hin => (hns t hp).2 (a2 t hin))⟩
    | false =>
      rw [cs2 hm]
      exact ⟨hPorig hm, fun t _ => rfl⟩
  have hW : ∀ t, stepW b c.2.1 t → ¬ P t := by
    intro t ht hp
    rcases ht with ht | ht | ht
    · exact (hns t hp).1 ht
    · exact hrefs t ht hp
    · exact hbuf.1 t ht hp
  obtain ⟨sl1, _⟩ := stepBranch_local b hloc c.2.1 (fun t => ¬ P t) hW
  obtain ⟨fr, br⟩ := sl1 c.1.st
  refine ⟨?_, proj_none i b.id hid _ hbr, ?_⟩
  · intro t hp
    rw [fr t (fun h => h hp), hbuf.2 t hp]
  · intro b' hb'
    simp only [Option.mem_toList] at hb'
    obtain ⟨_, _, e3, e4⟩ := br b' hb'
    intro t ht
    rw [e3] at ht
    exact e4 t ht

theorem passG_others (i : Nat) (P : Tok → Prop) (lastOrig : Bool) (orig : List (Item S))
    (hPorig : lastOrig = true → ∀ t ∈ cellsOf orig, ¬ P t) :
    ∀ (post : List (Branch σ S C)) (w : World C), (∀ b ∈ post, Outside i P b) →
      (∀ t, P t → (passG lastOrig orig w post).2.2.st t = w.st t) ∧
      proj i (passG lastOrig orig w post).1 = [] ∧
      (∀ b' ∈ (passG lastOrig orig w post).2.1, ∀ t ∈ b'.ops.refs b'.st, ¬ P t) := by
  intro post
  induction post with
  | nil => intro w _; simp [passG, proj]
  | cons b rest ih =>
    intro w hout
    rw [passG_cons]
    simp only
    obtain ⟨t1, t2, t3⟩ := branchTurn_others i P (!rest.isEmpty || !lastOrig) orig
      (by intro hm; apply hPorig; cases lastOrig <;> simp_all) w b (hout b (List.mem_cons_self ..))
    obtain ⟨i1, i2, i3⟩ := ih (branchTurn (!rest.isEmpty || !lastOrig) orig w b).2.2
      (fun b' hb' => hout b' (List.mem_cons_of_mem _ hb'))
    refine ⟨fun t hp => by rw [i1 t hp, t1 t hp], by rw [proj_append, t2, i2]; rfl, ?_⟩
    intro b' hb'
    rcases List.mem_append.mp hb' with hb' | hb'
    · exact t3 b' hb'
    · exact i3 b' hb'

/-! ## the run of one branch alone -/

/-- the objects that belong to branch `i`: its own objects, the copies made for it, and the
upstream objects `Ui` it was handed as originals -/
def Prot (i : Nat) (Ui : List Tok) (t : Tok) : Prop := t.1 = ownNs i ∨ t.1 = copyNsOf i ∨ t ∈ Ui

theorem lookup_none_of_not_mem {l : List (Tok × Tok)} {t : Tok} (h : t ∉ l.map (·.1)) : l.lookup t = none := by
  induction l with
  | nil => rfl
  | cons p l ih =>
    obtain ⟨k, v⟩ := p
    simp only [List.map_cons, List.mem_cons, not_or] at h
    rw [List.lookup_cons]
    have : (t == k) = false := by simpa using h.1
    simp only [this]
    exact ih h.2

theorem lookup_some_of_mem {l : List (Tok × Tok)} {t : Tok} (h : t ∈ l.map (·.1)) : ∃ s, l.lookup t = some s := by
  induction l with
  | nil => simp at h
  | cons p l ih =>
    obtain ⟨k, v⟩ := p
    rw [List.lookup_cons]
    by_cases hk : t = k
    · subst hk; exact ⟨v, by simp⟩
    · have : (t == k) = false := by simpa using hk
      simp only [this]
      simp only [List.map_cons, List.mem_cons] at h
      rcases h with h | h
      · exact absurd h hk
      · exact ih h

theorem preload_outside (st0 : Store C) (blk buf : List (Item S)) (st : Store C) (t : Tok)
    (h : t ∉ cellsOf buf) : preload st0 blk buf st t = st t := by
  unfold preload
  rw [lookup_none_of_not_mem]
  intro hm
  simp only [List.mem_map] at hm
  obtain ⟨p, hp, rfl⟩ := hm
  exact h (List.of_mem_zip hp).1

theorem preload_inside (st0 : Store C) (blk buf : List (Item S)) (st : Store C) (t : Tok)
    (hlen : (cellsOf buf).length = (cellsOf blk).length) (h : t ∈ cellsOf buf) :
    ∃ s, (t, s) ∈ (cellsOf buf).zip (cellsOf blk) ∧ preload st0 blk buf st t = st0 s := by
  have hm : t ∈ ((cellsOf buf).zip (cellsOf blk)).map (·.1) := by
    rw [List.map_fst_zip (by omega)]; exact h
  obtain ⟨s, hs⟩ := lookup_some_of_mem hm
  exact ⟨s, lookup_mem hs, by simp [preload, hs]⟩


theorem chooseBuf_contents (orig : List (Item S)) (ns : Nat) (w : World C) (hsrc : ∀ t ∈ cellsOf orig, t.1 ≠ ns) :
    (cellsOf (chooseBuf true true orig ns w).2.1).length = (cellsOf orig).length ∧
    ∀ p ∈ (cellsOf (chooseBuf true true orig ns w).2.1).zip (cellsOf orig),
      (chooseBuf true true orig ns w).1.st p.1 = w.st p.2 := by
  simp only [chooseBuf, Bool.and_self, if_true]
  exact ⟨deepcopy_cells_length ns w orig, deepcopy_contents ns w orig (fun t ht h => hsrc t ht h.1)⟩

/-- a branch other than `i` that reaches neither the objects of branch `i` nor the part `F` of the
flow that has not been handed out yet -/
def OutsideI (i : Nat) (Ui F : List Tok) (b : Branch σ S C) : Prop :=
  b.id ≠ i ∧ Local b.ops (ownNs b.id) ∧ ∀ t ∈ b.ops.refs b.st, ¬ Prot i Ui t ∧ t ∉ F

/-- the simulation relation between the run of the `Split` (heap `w.st`, active branches `act`) and
the run of branch `b` (number `i`) alone (heap `stA`) -/
structure Sim (i : Nat) (st0 : Store C) (Ui F : List Tok) (w : World C) (act : List (Branch σ S C))
    (stA : Store C) (b : Branch σ S C) : Prop where
  split : ∃ pre suf, act = pre ++ b :: suf ∧ ∀ b' ∈ pre ++ suf, OutsideI i Ui F b'
  bid : b.id = i
  loc : Local b.ops (ownNs i)
  mine : ∀ t ∈ b.ops.refs b.st, Prot i Ui t
  ui : ∀ t ∈ Ui, t.1 = upNs ∧ t ∉ F
  fup : ∀ t ∈ F, t.1 = upNs
  prist : ∀ t ∈ F, w.st t = st0 t ∧ stA t = st0 t
  agree : Agree (Prot i Ui) w.st stA

theorem outsideI_outside {i : Nat} {Ui F F' : List Tok} {b : Branch σ S C} (h : OutsideI i Ui F b)
    (hui : ∀ t ∈ Ui, t.1 = upNs) (hf : ∀ t ∈ F', t.1 = upNs ∧ t ∈ F) :
    Outside i (fun t => Prot i Ui t ∨ t ∈ F') b := by
  obtain ⟨h1, h2, h3⟩ := h
  have nf := ns_facts i b.id
  have nf' := ns_facts b.id i
  refine ⟨h1, h2, ?_, ?_⟩
  · intro t ht
    rcases ht with (ht | ht | ht) | ht
    · rw [ht]; exact ⟨fun e => h1 (nf.1.mp e).symm, nf.2.2.1⟩
    · rw [ht]; exact ⟨fun e => nf'.2.2.1 e.symm, fun e => h1 (nf.2.1.mp e).symm⟩
    · rw [(hui t ht)]; exact ⟨fun e => nf'.2.2.2.1 e.symm, fun e => nf'.2.2.2.2 e.symm⟩
    · rw [(hf t ht).1]; exact ⟨fun e => nf'.2.2.2.1 e.symm, fun e => nf'.2.2.2.2 e.symm⟩
  · intro t ht hp
    rcases hp with hp | hp
    · exact (h3 t ht).1 hp
    · exact (h3 t ht).2 (hf t hp).2


/-- the objects of branch `i` after a turn in which it was handed a copy (`more`) or the original block -/
def UiNext (more : Bool) (Ui : List Tok) (blk : List (Item S)) : List Tok := if more then Ui else Ui ++ cellsOf blk

theorem prot_mono {i : Nat} {Ui Ui' : List Tok} (h : ∀ t ∈ Ui, t ∈ Ui') {t : Tok} (ht : Prot i Ui t) : Prot i Ui' t := by
  rcases ht with ht | ht | ht
  · exact Or.inl ht
  · exact Or.inr (Or.inl ht)
  · exact Or.inr (Or.inr (h t ht))

/-- the turn of branch `i` itself: inside the `Split` and alone it sees the same, does the same and
leaves the same -/
theorem branchTurn_sim (i : Nat) (st0 : Store C) (Ui : List Tok) (blk : List (Item S)) (more : Bool)
    (w1 : World C) (stA : Store C) (b : Branch σ S C) (hbid : b.id = i) (hloc : Local b.ops (ownNs i))
    (hmine : ∀ t ∈ b.ops.refs b.st, Prot i Ui t) (hup : ∀ t ∈ cellsOf blk, t.1 = upNs)
    (hagree : Agree (Prot i Ui) w1.st stA) (hprist : ∀ t ∈ cellsOf blk, w1.st t = st0 t ∧ stA t = st0 t) :
    ∃ buf,
      buf.map (·.skel) = blk.map (·.skel) ∧ (more = false → buf = blk) ∧
      (more = true → ∀ t ∈ cellsOf buf, t.1 = copyNsOf i) ∧
      (branchTurn more blk w1 b).1 = (aloneStep st0 blk buf more stA b).evs ∧
      (branchTurn more blk w1 b).2.1 = (aloneStep st0 blk buf more stA b).br ∧
      Agree (Prot i (UiNext more Ui blk)) (branchTurn more blk w1 b).2.2.st (aloneStep st0 blk buf more stA b).st ∧
      (∀ t, ¬ Prot i (UiNext more Ui blk) t →
        (branchTurn more blk w1 b).2.2.st t = w1.st t ∧ (aloneStep st0 blk buf more stA b).st t = stA t) ∧
      (∀ b1 ∈ (branchTurn more blk w1 b).2.1.toList, ∀ t ∈ b1.ops.refs b1.st, Prot i (UiNext more Ui blk) t) := by
  subst hbid
  obtain ⟨cs1, cs2⟩ := chooseBuf_spec more blk (copyNsOf b.id) w1
  cases more with
  | false =>
    have hc := cs2 rfl
    refine ⟨blk, rfl, fun _ => rfl, by simp, ?_⟩
    simp only [branchTurn, aloneStep, hc, Bool.false_eq_true, if_false, UiNext]
    have hW : ∀ t, stepW b blk t → Prot b.id (Ui ++ cellsOf blk) t := by
      intro t ht
      rcases ht with ht | ht | ht
      · exact Or.inl ht
      · exact prot_mono (fun t ht => List.mem_append_left _ ht) (hmine t ht)
      · exact Or.inr (Or.inr (List.mem_append_right _ ht))
    obtain ⟨sl1, sl2⟩ := stepBranch_local b hloc blk (Prot b.id (Ui ++ cellsOf blk)) hW
    have hag : Agree (Prot b.id (Ui ++ cellsOf blk)) w1.st stA := by
      intro t ht
      rcases ht with ht | ht | ht
      · exact hagree t (Or.inl ht)
      · exact hagree t (Or.inr (Or.inl ht))
      · rcases List.mem_append.mp ht with ht | ht
        · exact hagree t (Or.inr (Or.inr ht))
        · rw [(hprist t ht).1, (hprist t ht).2]
    obtain ⟨e1, e2, e3⟩ := sl2 w1.st stA hag
    refine ⟨by rw [e1], e2, e3, fun t ht => ⟨(sl1 w1.st).1 t ht, (sl1 stA).1 t ht⟩, ?_⟩
    intro b1 hb1 t ht
    simp only [Option.mem_toList] at hb1
    obtain ⟨_, _, e3', e4⟩ := (sl1 w1.st).2 b1 hb1
    rw [e3'] at ht
    exact e4 t ht
  | true =>
    obtain ⟨_, a2, a3, a4⟩ := cs1 rfl
    obtain ⟨c1, c2⟩ := chooseBuf_contents blk (copyNsOf b.id) w1
      (fun t ht h => (ns_facts b.id b.id).2.2.2.2 (by rw [← h, hup t ht]))
    generalize hc : chooseBuf true true blk (copyNsOf b.id) w1 = c at a2 a3 a4 c1 c2
    refine ⟨c.2.1, a4, by simp, fun _ => a2, ?_⟩
    simp only [branchTurn, aloneStep, hc, if_true, UiNext]
    have hW : ∀ t, stepW b c.2.1 t → Prot b.id Ui t := by
      intro t ht
      rcases ht with ht | ht | ht
      · exact Or.inl ht
      · exact hmine t ht
      · exact Or.inr (Or.inl (a2 t ht))
    obtain ⟨sl1, sl2⟩ := stepBranch_local b hloc c.2.1 (Prot b.id Ui) hW
    have hag : Agree (Prot b.id Ui) c.1.st (preload st0 blk c.2.1 stA) := by
      intro t ht
      by_cases hin : t ∈ cellsOf c.2.1
      · obtain ⟨s, hs, hp⟩ := preload_inside st0 blk c.2.1 stA t c1 hin
        rw [hp, c2 (t, s) hs]
        exact (hprist s (List.of_mem_zip hs).2).1
      · rw [preload_outside st0 blk c.2.1 stA t hin, a3 t hin]
        exact hagree t ht
    obtain ⟨e1, e2, e3⟩ := sl2 c.1.st (preload st0 blk c.2.1 stA) hag
    have hcopied : c.2.2 = true := by rw [← hc]; simp [chooseBuf]
    refine ⟨by rw [e1, hcopied], e2, e3, ?_, ?_⟩
    · intro t ht
      have hnot : t ∉ cellsOf c.2.1 := fun hin => ht (Or.inr (Or.inl (a2 t hin)))
      refine ⟨by rw [(sl1 c.1.st).1 t ht, a3 t hnot], ?_⟩
      rw [(sl1 _).1 t ht, preload_outside st0 blk c.2.1 stA t hnot]
    · intro b1 hb1 t ht
      simp only [Option.mem_toList] at hb1
      obtain ⟨_, _, e3', e4⟩ := (sl1 c.1.st).2 b1 hb1
      rw [e3'] at ht
      exact e4 t ht


theorem proj_self (i : Nat) (b : Branch σ S C) (hb : b.id = i) (more : Bool) (orig : List (Item S)) (w : World C) :
    proj i (branchTurn more orig w b).1 = (branchTurn more orig w b).1 :=
  proj_all i _ (by intro e he; rw [← hb]; exact branchTurn_branch more orig w b e he)

/-- one pass of the `Split` seen from branch `i` -/
theorem pass_sim (i : Nat) (st0 : Store C) (Ui Fut : List Tok) (blk : List (Item S)) (w : World C)
    (act : List (Branch σ S C)) (stA : Store C) (b : Branch σ S C)
    (hsim : Sim i st0 Ui (cellsOf blk ++ Fut) w act stA b) (hdisj : ∀ t ∈ cellsOf blk, t ∉ Fut) :
    ∃ buf copied,
      buf.map (·.skel) = blk.map (·.skel) ∧ (copied = false → buf = blk) ∧
      (copied = true → ∀ t ∈ cellsOf buf, t.1 = copyNsOf i) ∧
      proj i (pass true blk w act).1 = (aloneStep st0 blk buf copied stA b).evs ∧
      (∀ b1, (aloneStep st0 blk buf copied stA b).br = some b1 →
        Sim i st0 (UiNext copied Ui blk) Fut (pass true blk w act).2.2 (pass true blk w act).2.1
          (aloneStep st0 blk buf copied stA b).st b1) ∧
      ((aloneStep st0 blk buf copied stA b).br = none → ∀ b' ∈ (pass true blk w act).2.1, b'.id ≠ i) := by
  obtain ⟨pre, suf, hact, hout⟩ := hsim.split
  subst hact
  have huiup : ∀ t ∈ Ui, t.1 = upNs := fun t ht => (hsim.ui t ht).1
  have hblkup : ∀ t ∈ cellsOf blk, t.1 = upNs := fun t ht => hsim.fup t (List.mem_append_left _ ht)
  rw [pass_eq_passG, passG_append true blk (b :: suf) (by simp) pre w, passG_cons]
  simp only
  -- the branches before `i`
  obtain ⟨p1, p2, p3⟩ := passG_others i (fun t => Prot i Ui t ∨ t ∈ cellsOf blk ++ Fut) false blk (by simp) pre w
    (fun b' hb' => outsideI_outside (hout b' (List.mem_append_left _ hb')) huiup
      (fun t ht => ⟨hsim.fup t ht, ht⟩))
  obtain ⟨pb1, pb2⟩ := passG_brs false blk pre w
  generalize passG false blk w pre = R at p1 p2 p3 pb1 pb2
  -- the turn of `i`
  obtain ⟨buf, t1, t2, t3, t4, t5, t6, t7, t8⟩ := branchTurn_sim i st0 Ui blk (!suf.isEmpty || !true) R.2.2 stA b
    hsim.bid hsim.loc hsim.mine hblkup
    (fun t ht => by rw [p1 t (Or.inl ht)]; exact hsim.agree t ht)
    (fun t ht => by
      have := hsim.prist t (List.mem_append_left _ ht)
      exact ⟨by rw [p1 t (Or.inr (List.mem_append_left _ ht))]; exact this.1, this.2⟩)
  generalize hT : branchTurn (!suf.isEmpty || !true) blk R.2.2 b = T at t4 t5 t6 t7 t8
  have hTproj : proj i T.1 = T.1 := by rw [← hT]; exact proj_self i b hsim.bid _ _ _
  -- the objects of the block are not objects of `i` before this pass
  have hblkNot : ∀ t ∈ cellsOf blk, ¬ Prot i Ui t := by
    intro t ht hp
    have hu := hblkup t ht
    have nf := ns_facts i i
    rcases hp with hp | hp | hp
    · exact nf.2.2.2.1 (by rw [← hp, hu])
    · exact nf.2.2.2.2 (by rw [← hp, hu])
    · exact (hsim.ui t hp).2 (List.mem_append_left _ ht)
  have hFutNot : ∀ t ∈ Fut, ¬ Prot i (UiNext (!suf.isEmpty || !true) Ui blk) t := by
    intro t ht hp
    have hu := hsim.fup t (List.mem_append_right _ ht)
    have nf := ns_facts i i
    rcases hp with hp | hp | hp
    · exact nf.2.2.2.1 (by rw [← hp, hu])
    · exact nf.2.2.2.2 (by rw [← hp, hu])
    · simp only [UiNext] at hp
      split at hp
      · exact (hsim.ui t hp).2 (List.mem_append_right _ ht)
      · rcases List.mem_append.mp hp with hp | hp
        · exact (hsim.ui t hp).2 (List.mem_append_right _ ht)
        · exact hdisj t hp ht
  -- the branches after `i`
  have hsufOut : ∀ b' ∈ suf, Outside i (fun t => Prot i (UiNext (!suf.isEmpty || !true) Ui blk) t ∨ t ∈ Fut) b' := by
    intro b' hb'
    have ho := hout b' (List.mem_append_right _ hb')
    have hm : (!suf.isEmpty || !true) = true := by cases suf <;> simp_all
    rw [hm]
    simp only [UiNext, if_true]
    exact outsideI_outside ho huiup (fun t ht => ⟨hsim.fup t (List.mem_append_right _ ht), List.mem_append_right _ ht⟩)
  have hq : (∀ t, (Prot i (UiNext (!suf.isEmpty || !true) Ui blk) t ∨ t ∈ Fut) →
        (passG true blk T.2.2 suf).2.2.st t = T.2.2.st t) ∧
      proj i (passG true blk T.2.2 suf).1 = [] ∧
      (∀ b' ∈ (passG true blk T.2.2 suf).2.1, ∀ t ∈ b'.ops.refs b'.st,
        ¬ (Prot i (UiNext (!suf.isEmpty || !true) Ui blk) t ∨ t ∈ Fut)) := by
    cases hsuf : suf with
    | nil => simp [passG, proj]
    | cons b2 suf' =>
      rw [← hsuf]
      refine passG_others i _ true blk ?_ suf T.2.2 hsufOut
      intro _ t ht hp
      rcases hp with hp | hp
      · simp only [hsuf, UiNext, List.isEmpty_cons, Bool.not_false, Bool.true_or, if_true] at hp
        exact hblkNot t ht hp
      · exact hdisj t ht hp
  obtain ⟨q1, q2, q3⟩ := hq
  obtain ⟨qb1, qb2⟩ := passG_brs true blk suf T.2.2
  generalize passG true blk T.2.2 suf = Q at q1 q2 q3 qb1 qb2
  refine ⟨buf, (!suf.isEmpty || !true), t1, t2, t3, ?_, ?_, ?_⟩
  · rw [proj_append, proj_append, p2, hTproj, q2, t4]; simp
  · intro b1 hb1
    rw [← t5] at hb1
    -- the surviving branches other than `i`
    have hothers : ∀ b' ∈ R.2.1 ++ Q.2.1, OutsideI i (UiNext (!suf.isEmpty || !true) Ui blk) Fut b' := by
      intro b' hb'
      rcases List.mem_append.mp hb' with hb' | hb'
      · obtain ⟨_, b0, hb0, e1, _, e3⟩ := pb2 b' hb'
        obtain ⟨o1, o2, _⟩ := hout b0 (List.mem_append_left _ hb0)
        refine ⟨by rw [e1]; exact o1, by rw [e1, e3]; exact o2, ?_⟩
        intro t ht
        have hn := p3 b' hb' t ht
        refine ⟨fun hp => ?_, fun hf => hn (Or.inr (List.mem_append_right _ hf))⟩
        rcases hp with hp | hp | hp
        · exact hn (Or.inl (Or.inl hp))
        · exact hn (Or.inl (Or.inr (Or.inl hp)))
        · simp only [UiNext] at hp
          split at hp
          · exact hn (Or.inl (Or.inr (Or.inr hp)))
          · rcases List.mem_append.mp hp with hp | hp
            · exact hn (Or.inl (Or.inr (Or.inr hp)))
            · exact hn (Or.inr (List.mem_append_left _ hp))
      · obtain ⟨_, b0, hb0, e1, _, e3⟩ := qb2 b' hb'
        obtain ⟨o1, o2, _⟩ := hout b0 (List.mem_append_right _ hb0)
        refine ⟨by rw [e1]; exact o1, by rw [e1, e3]; exact o2, ?_⟩
        intro t ht
        have hn := q3 b' hb' t ht
        exact ⟨fun hp => hn (Or.inl hp), fun hf => hn (Or.inr hf)⟩
    have hb1' : b1 ∈ T.2.1.toList := by simp [hb1]
    obtain ⟨e1, _, e3, _⟩ := by rw [← hT] at hb1'; exact branchTurn_br _ _ _ _ _ hb1'
    refine ⟨⟨R.2.1, Q.2.1, by simp [hb1], hothers⟩, by rw [e1]; exact hsim.bid, by rw [e3]; exact hsim.loc,
      t8 b1 hb1', ?_, fun t ht => hsim.fup t (List.mem_append_right _ ht), ?_, ?_⟩
    · intro t ht
      simp only [UiNext] at ht
      split at ht
      · exact ⟨huiup t ht, fun hf => (hsim.ui t ht).2 (List.mem_append_right _ hf)⟩
      · rcases List.mem_append.mp ht with ht | ht
        · exact ⟨huiup t ht, fun hf => (hsim.ui t ht).2 (List.mem_append_right _ hf)⟩
        · exact ⟨hblkup t ht, hdisj t ht⟩
    · intro t ht
      have hnp := hFutNot t ht
      have hpr := hsim.prist t (List.mem_append_right _ ht)
      refine ⟨?_, by rw [(t7 t hnp).2]; exact hpr.2⟩
      rw [q1 t (Or.inr ht), (t7 t hnp).1, p1 t (Or.inr (List.mem_append_right _ ht))]
      exact hpr.1
    · intro t ht
      rw [q1 t (Or.inl ht)]
      exact t6 t ht
  · intro hnone b' hb'
    rw [← t5] at hnone
    simp only [hnone, Option.toList_none, List.nil_append] at hb'
    rcases List.mem_append.mp hb' with hb' | hb'
    · obtain ⟨_, b0, hb0, e1, _, _⟩ := pb2 b' hb'
      rw [e1]; exact (hout b0 (List.mem_append_left _ hb0)).1
    · obtain ⟨_, b0, hb0, e1, _, _⟩ := qb2 b' hb'
      rw [e1]; exact (hout b0 (List.mem_append_right _ hb0)).1

/-! ## once branch `i` is gone -/

theorem passG_no_i (i : Nat) (lastOrig : Bool) (orig : List (Item S)) : ∀ (post : List (Branch σ S C)) (w : World C),
    (∀ b ∈ post, b.id ≠ i) →
    proj i (passG lastOrig orig w post).1 = [] ∧ ∀ b' ∈ (passG lastOrig orig w post).2.1, b'.id ≠ i := by
  intro post
  induction post with
  | nil => intro w _; simp [passG, proj]
  | cons b rest ih =>
    intro w h
    rw [passG_cons]
    simp only
    obtain ⟨i1, i2⟩ := ih (branchTurn (!rest.isEmpty || !lastOrig) orig w b).2.2 (fun b' hb' => h b' (List.mem_cons_of_mem _ hb'))
    refine ⟨?_, ?_⟩
    · rw [proj_append, i1, proj_none i b.id (h b (List.mem_cons_self ..)) _ (branchTurn_branch _ _ _ _)]
      rfl
    · intro b' hb'
      rcases List.mem_append.mp hb' with hb' | hb'
      · rw [(branchTurn_br _ _ _ _ _ hb').1]; exact h b (List.mem_cons_self ..)
      · exact i2 b' hb'

theorem passes_no_i (i : Nat) : ∀ (bl : List (List (Item S))) (act : List (Branch σ S C)) (w : World C),
    (∀ b ∈ act, b.id ≠ i) →
    proj i (passes true bl w act).1 = [] ∧ ∀ b' ∈ (passes true bl w act).2.1, b'.id ≠ i := by
  intro bl
  induction bl with
  | nil => intro act w h; simp [passes, proj]; exact h
  | cons blk rest ih =>
    intro act w h
    unfold passes
    simp only
    rw [pass_eq_passG]
    obtain ⟨p1, p2⟩ := passG_no_i i true blk act w h
    obtain ⟨q1, q2⟩ := ih (passG true blk w act).2.1 (passG true blk w act).2.2 p2
    exact ⟨by rw [proj_append, p1, q1]; rfl, q2⟩

theorem finalPass_branch (fwe : Bool) : ∀ (act : List (Branch σ S C)) (st : Store C),
    ∀ e ∈ (finalPass fwe st act).1, e.branch = none ∨ ∃ b ∈ act, e.branch = some b.id := by
  intro act
  induction act with
  | nil => intro st e he; simp [finalPass] at he
  | cons b rest ih =>
    intro st e he
    have hrest : ∀ st', e ∈ (finalPass fwe st' rest).1 → e.branch = none ∨ ∃ b' ∈ b :: rest, e.branch = some b'.id := by
      intro st' h
      rcases ih st' e h with h | ⟨b', hb', h⟩
      · exact Or.inl h
      · exact Or.inr ⟨b', List.mem_cons_of_mem _ hb', h⟩
    have hme : ∀ (st' : Store C) (vals : List (Item S)), e ∈ outsEv b.id st' vals →
        e.branch = none ∨ ∃ b' ∈ b :: rest, e.branch = some b'.id :=
      fun st' vals h => Or.inr ⟨b, List.mem_cons_self .., outsEv_branch _ _ _ e h⟩
    have hb : ∀ e' : Ev S C, e'.branch = some b.id → e = e' → e.branch = none ∨ ∃ b' ∈ b :: rest, e.branch = some b'.id :=
      fun e' h1 h2 => Or.inr ⟨b, List.mem_cons_self .., by rw [h2]; exact h1⟩
    unfold finalPass at he
    split at he
    · split at he
      · rcases List.mem_cons.mp he with h | he
        · exact hb _ rfl h
        · rcases List.mem_append.mp he with he | he
          · exact hme _ _ he
          · exact hrest _ he
      · simp at he; subst he; exact Or.inl rfl
    · rcases List.mem_cons.mp he with h | he
      · exact hb _ rfl h
      · rcases List.mem_append.mp he with he | he
        · exact hme _ _ he
        · exact hrest _ he
    · split at he
      · rcases List.mem_cons.mp he with h | he
        · exact hb _ rfl h
        · rcases List.mem_append.mp he with he | he
          · exact hme _ _ he
          · exact hrest _ he
      · exact hrest _ he
    · split at he
      · rcases List.mem_cons.mp he with h | he
        · exact hb _ rfl h
        · rcases List.mem_append.mp he with he | he
          · exact hme _ _ he
          · exact hrest _ he
      · exact hrest _ he

theorem finalPass_no_i (i : Nat) (fwe : Bool) (act : List (Branch σ S C)) (st : Store C)
    (h : ∀ b ∈ act, b.id ≠ i) : proj i (finalPass fwe st act).1 = [] := by
  unfold proj
  rw [List.filter_eq_nil_iff]
  intro e he
  rcases finalPass_branch fwe act st e he with hb | ⟨b, hb, hbe⟩
  · simp [hb]
  · simp [hbe, h b hb]


/-! ## all buffers -/

theorem aloneLife_none (st0 st : Store C) (sched : List (List (Item S) × List (Item S) × Bool)) :
    aloneLife (σ := σ) st0 st none sched = ([], st, none) := by
  cases sched <;> rfl

theorem passes_sim (i : Nat) (st0 : Store C) : ∀ (bl : List (List (Item S))) (Ui : List Tok) (w : World C)
    (act : List (Branch σ S C)) (stA : Store C) (b : Branch σ S C),
    Sim i st0 Ui (bl.flatMap cellsOf) w act stA b →
    bl.Pairwise (fun a b => Disj (cellsOf a) (cellsOf b)) →
    ∃ sched : List (List (Item S) × List (Item S) × Bool),
      sched.map (·.1) = bl.take sched.length ∧ (∀ e ∈ sched, SchedOK i e) ∧
      proj i (passes true bl w act).1 = (aloneLife st0 stA (some b) sched).1 ∧
      (∀ b1, (aloneLife st0 stA (some b) sched).2.2 = some b1 → sched.length = bl.length ∧
        ∃ Ui', Sim i st0 Ui' [] (passes true bl w act).2.2 (passes true bl w act).2.1
          (aloneLife st0 stA (some b) sched).2.1 b1) ∧
      ((aloneLife st0 stA (some b) sched).2.2 = none → ∀ b' ∈ (passes true bl w act).2.1, b'.id ≠ i) := by
  intro bl
  induction bl with
  | nil =>
    intro Ui w act stA b hsim _
    refine ⟨[], rfl, by simp, by simp [passes, aloneLife, proj], ?_, by simp [aloneLife]⟩
    intro b1 hb1
    simp only [aloneLife, Option.some.injEq] at hb1
    subst hb1
    exact ⟨rfl, Ui, by simpa [passes, aloneLife] using hsim⟩
  | cons blk rest ih =>
    intro Ui w act stA b hsim hpw
    rw [List.pairwise_cons] at hpw
    have hdisj : ∀ t ∈ cellsOf blk, t ∉ rest.flatMap cellsOf := by
      intro t ht hin
      simp only [List.mem_flatMap] at hin
      obtain ⟨blk', hb', ht'⟩ := hin
      exact hpw.1 blk' hb' t ht ht'
    rw [List.flatMap_cons] at hsim
    obtain ⟨buf, copied, s1, s2, s3, s4, s5, s6⟩ := pass_sim i st0 Ui (rest.flatMap cellsOf) blk w act stA b hsim hdisj
    unfold passes
    simp only
    cases hbr : (aloneStep st0 blk buf copied stA b).br with
    | none =>
      have hno := s6 hbr
      obtain ⟨n1, n2⟩ := passes_no_i i rest (pass true blk w act).2.1 (pass true blk w act).2.2 hno
      refine ⟨[(blk, buf, copied)], by simp, ?_, ?_, ?_, ?_⟩
      · intro e he; simp at he; subst he; exact ⟨s1, s2, s3⟩
      · simp only [aloneLife, hbr, aloneLife_none]
        rw [proj_append, s4, n1]
      · intro b1 hb1
        simp [aloneLife, hbr, aloneLife_none] at hb1
      · intro _; exact n2
    | some b1 =>
      obtain ⟨sched, r1, r2, r3, r4, r5⟩ := ih (UiNext copied Ui blk) (pass true blk w act).2.2 (pass true blk w act).2.1
        (aloneStep st0 blk buf copied stA b).st b1 (s5 b1 hbr) hpw.2
      refine ⟨(blk, buf, copied) :: sched, by simp [r1], ?_, ?_, ?_, ?_⟩
      · intro e he
        rcases List.mem_cons.mp he with rfl | he
        · exact ⟨s1, s2, s3⟩
        · exact r2 e he
      · simp only [aloneLife, hbr]
        rw [proj_append, s4, r3]
      · intro b2 hb2
        simp only [aloneLife, hbr] at hb2
        obtain ⟨l, Ui', hs⟩ := r4 b2 hb2
        refine ⟨by simp [l], Ui', ?_⟩
        simpa [aloneLife, hbr] using hs
      · intro hn
        simp only [aloneLife, hbr] at hn
        exact r5 hn


/-! ## the final pass -/

/-- no `assert flow_was_empty` can fail for this branch -/
def FinalOk (fwe : Bool) (b : Branch σ S C) : Prop := fwe = true ∨ b.kind ≠ .source

theorem finalPass_cons_ok (fwe : Bool) (st : Store C) (b : Branch σ S C) (rest : List (Branch σ S C))
    (hok : FinalOk fwe b) :
    finalPass fwe st (b :: rest) =
      ((finalPass fwe st [b]).1 ++ (finalPass fwe (finalPass fwe st [b]).2 rest).1,
       (finalPass fwe (finalPass fwe st [b]).2 rest).2) := by
  unfold FinalOk at hok
  cases hk : b.kind <;> cases fwe <;> simp_all [finalPass]

theorem finalPass_append_ok (fwe : Bool) : ∀ (pre suf : List (Branch σ S C)) (st : Store C),
    (∀ b ∈ pre, FinalOk fwe b) →
    finalPass fwe st (pre ++ suf) =
      ((finalPass fwe st pre).1 ++ (finalPass fwe (finalPass fwe st pre).2 suf).1,
       (finalPass fwe (finalPass fwe st pre).2 suf).2) := by
  intro pre
  induction pre with
  | nil => intro suf st _; simp [finalPass]
  | cons b rest ih =>
    intro suf st hok
    have hb := hok b (List.mem_cons_self ..)
    rw [List.cons_append, finalPass_cons_ok fwe st b _ hb, finalPass_cons_ok fwe st b rest hb,
      ih suf _ (fun b' hb' => hok b' (List.mem_cons_of_mem _ hb'))]
    simp [List.append_assoc]

/-- the final invocation on one branch is local -/
theorem finalOne_local (fwe : Bool) (b : Branch σ S C) (hl : Local b.ops (ownNs b.id)) (hok : FinalOk fwe b)
    (W : Tok → Prop) (hW : ∀ t, (t.1 = ownNs b.id ∨ t ∈ b.ops.refs b.st) → W t) :
    (∀ st, ∀ t, ¬ W t → (finalPass fwe st [b]).2 t = st t) ∧
    (∀ st₁ st₂, Agree W st₁ st₂ →
      (finalPass fwe st₁ [b]).1 = (finalPass fwe st₂ [b]).1 ∧ Agree W (finalPass fwe st₁ [b]).2 (finalPass fwe st₂ [b]).2) ∧
    (∀ st, ∀ e ∈ (finalPass fwe st [b]).1, e.branch = some b.id) := by
  have hfoot : ∀ (r : Req S), r.cells = [] → ∀ t, foot (ownNs b.id) (b.ops.refs b.st) r.cells t → W t := by
    intro r hr t ht
    rcases ht with ht | ht | ht
    · exact hW t (Or.inl ht)
    · exact hW t (Or.inr ht)
    · rw [hr] at ht; simp at ht
  -- one invocation `r` without arguments, yielded through `outsEv`
  have key : ∀ (r : Req S) (ev : Ev S C), r.cells = [] → ev.branch = some b.id →
      (∀ st, ∀ t, ¬ W t → (b.ops.act st b.st r).1 t = st t) ∧
      (∀ st₁ st₂, Agree W st₁ st₂ →
        (ev :: outsEv b.id (b.ops.act st₁ b.st r).1 (b.ops.act st₁ b.st r).2.2.outs ++ ([] : List (Ev S C))) =
          (ev :: outsEv b.id (b.ops.act st₂ b.st r).1 (b.ops.act st₂ b.st r).2.2.outs ++ []) ∧
        Agree W (b.ops.act st₁ b.st r).1 (b.ops.act st₂ b.st r).1) ∧
      (∀ st, ∀ e ∈ (ev :: outsEv b.id (b.ops.act st b.st r).1 (b.ops.act st b.st r).2.2.outs ++ ([] : List (Ev S C))),
        e.branch = some b.id) := by
    intro r ev hr hev
    refine ⟨fun st => act_frame hl W _ _ (hfoot r hr) st, fun st₁ st₂ h => ?_, fun st e he => ?_⟩
    · obtain ⟨a1, a2⟩ := act_agree hl W b.st r (hfoot r hr) h
      have ho := (act_refs hl W b.st r (hfoot r hr) st₁).2
      rw [outsEv_agree b.id W a2 _ ho, a1]
      exact ⟨rfl, a2⟩
    · simp only [List.append_nil, List.mem_cons] at he
      rcases he with rfl | he
      · exact hev
      · exact outsEv_branch _ _ _ e he
  unfold FinalOk at hok
  cases hk : b.kind with
  | source =>
    have hf : fwe = true := by rcases hok with h | h; exact h; exact absurd hk h
    subst hf
    simpa [finalPass, hk] using key .call (.call b.id) rfl rfl
  | fillCompute => simpa [finalPass, hk] using key .compute (.compute b.id) rfl rfl
  | fillRequest =>
    cases fwe with
    | true => simpa [finalPass, hk] using key .request (.request b.id) rfl rfl
    | false => simp [finalPass, hk, Agree]
  | sequence =>
    cases fwe with
    | true => simpa [finalPass, hk] using key (.run []) (.run b.id []) rfl rfl
    | false => simp [finalPass, hk, Agree]

theorem finalPass_others (i : Nat) (P : Tok → Prop) (fwe : Bool) : ∀ (pre : List (Branch σ S C)) (st : Store C),
    (∀ b ∈ pre, Outside i P b ∧ FinalOk fwe b) → ∀ t, P t → (finalPass fwe st pre).2 t = st t := by
  intro pre
  induction pre with
  | nil => intro st _ t _; rfl
  | cons b rest ih =>
    intro st h t hp
    obtain ⟨⟨_, hloc, hns, hrefs⟩, hok⟩ := h b (List.mem_cons_self ..)
    rw [finalPass_cons_ok fwe st b rest hok]
    simp only
    rw [ih _ (fun b' hb' => h b' (List.mem_cons_of_mem _ hb')) t hp]
    obtain ⟨f1, _, _⟩ := finalOne_local fwe b hloc hok (fun t => ¬ P t) (by
      intro t ht hp
      rcases ht with ht | ht
      · exact (hns t hp).1 ht
      · exact hrefs t ht hp)
    exact f1 st t (fun h => h hp)

/-- the final pass seen from branch `i` -/
theorem finalPass_sim (i : Nat) (st0 : Store C) (Ui : List Tok) (fwe : Bool) (w : World C)
    (act : List (Branch σ S C)) (stA : Store C) (b : Branch σ S C) (hsim : Sim i st0 Ui [] w act stA b)
    (hok : ∀ b' ∈ act, FinalOk fwe b') :
    proj i (finalPass fwe w.st act).1 = (finalPass fwe stA [b]).1 := by
  obtain ⟨pre, suf, hact, hout⟩ := hsim.split
  subst hact
  have huiup : ∀ t ∈ Ui, t.1 = upNs := fun t ht => (hsim.ui t ht).1
  have hokb : FinalOk fwe b := hok b (by simp)
  rw [finalPass_append_ok fwe pre (b :: suf) w.st (fun b' hb' => hok b' (List.mem_append_left _ hb')),
    finalPass_cons_ok fwe _ b suf hokb]
  simp only
  have hpre := finalPass_others i (fun t => Prot i Ui t ∨ t ∈ ([] : List Tok)) fwe pre w.st
    (fun b' hb' => ⟨outsideI_outside (hout b' (List.mem_append_left _ hb')) huiup (by intro t ht; simp at ht),
      hok b' (List.mem_append_left _ hb')⟩)
  have hb := hsim.bid
  subst hb
  obtain ⟨_, f2, f3⟩ := finalOne_local fwe b hsim.loc hokb (Prot b.id Ui) (by
    intro t ht
    rcases ht with ht | ht
    · exact Or.inl ht
    · exact hsim.mine t ht)
  have hag : Agree (Prot b.id Ui) (finalPass fwe w.st pre).2 stA := by
    intro t ht
    rw [hpre t (Or.inl ht)]
    exact hsim.agree t ht
  rw [proj_append, proj_append,
    finalPass_no_i b.id fwe pre w.st (fun b' hb' => (hout b' (List.mem_append_left _ hb')).1),
    finalPass_no_i b.id fwe suf _ (fun b' hb' => (hout b' (List.mem_append_right _ hb')).1),
    proj_all b.id _ (f3 _), (f2 _ _ hag).1]
  simp


theorem passes_nosource : ∀ (bl : List (List (Item S))) (act : List (Branch σ S C)) (w : World C), bl ≠ [] →
    ∀ b' ∈ (passes true bl w act).2.1, b'.kind ≠ .source := by
  intro bl
  induction bl with
  | nil => intro _ _ h; exact absurd rfl h
  | cons blk rest ih =>
    intro act w _
    unfold passes
    simp only
    cases rest with
    | nil =>
      simp only [passes]
      rw [pass_eq_passG]
      exact fun b' hb' => ((passG_brs true blk act w).2 b' hb').1
    | cons blk2 rest2 => exact ih _ _ (by simp)

end Lena.C04
