import LenaModel.Model.C14
/-! # C14 — lemmas: slot vectors, `_update_context` on well-formed dictionaries as the pure function `UP`,
its associativity (`UP_assoc`, `fold_assoc`), and the link to the transcribed functions of `Model/C14.lean`. -/
namespace Lena.C14
open V

/-! ## slot vectors -/

@[simp] theorem getSlot_nil (i : Nat) : getSlot [] i = none := by simp [getSlot]
@[simp] theorem getSlot_cons_zero (x : Option V) (r : Slots) : getSlot (x :: r) 0 = x := by
  cases x <;> simp [getSlot]
@[simp] theorem getSlot_cons_succ (x : Option V) (r : Slots) (i : Nat) :
    getSlot (x :: r) (i + 1) = getSlot r i := by simp [getSlot]

theorem getSlot_of_le (l : Slots) (i : Nat) (h : l.length ≤ i) : getSlot l i = none := by
  induction l generalizing i with
  | nil => simp
  | cons x r ih =>
    cases i with
    | zero => simp at h
    | succ i => simp at h; simp [ih i h]

theorem getSlot_setSlot (l : Slots) (i j : Nat) (v : Option V) :
    getSlot (setSlot l i v) j = if j = i then v else getSlot l j := by
  induction l generalizing i j with
  | nil =>
    induction i generalizing j with
    | zero => cases j <;> simp [setSlot]
    | succ i ih =>
      cases j with
      | zero => simp [setSlot]
      | succ j => simp [setSlot, ih j]
  | cons x r ih =>
    cases i with
    | zero => cases j <;> simp [setSlot]
    | succ i =>
      cases j with
      | zero => simp [setSlot]
      | succ j => simp [setSlot, ih i j]

theorem length_setSlot (l : Slots) (i : Nat) (v : Option V) (h : i < l.length) :
    (setSlot l i v).length = l.length := by
  induction l generalizing i with
  | nil => simp at h
  | cons x r ih =>
    cases i with
    | zero => simp [setSlot]
    | succ i => simp at h; simp [setSlot, ih i h]

theorem slots_ext (a b : Slots) (hl : a.length = b.length) (h : ∀ i, getSlot a i = getSlot b i) : a = b := by
  induction a generalizing b with
  | nil => cases b with
    | nil => rfl
    | cons y r => simp at hl
  | cons x r ih =>
    cases b with
    | nil => simp at hl
    | cons y r' =>
      have h0 := h 0
      simp at h0
      subst h0
      congr 1
      apply ih r' (by simpa using hl)
      intro i
      simpa using h (i + 1)

@[simp] theorem length_emptyD (n : Nat) : (emptyD n).length = n := by simp [emptyD]
@[simp] theorem getSlot_emptyD (n i : Nat) : getSlot (emptyD n) i = none := by
  simp only [emptyD, getSlot]
  by_cases h : i < n
  · simp [h]
  · simp [h]

theorem getSlot_dictUpdate (d o : Slots) (i : Nat) :
    getSlot (dictUpdate d o) i = match getSlot o i with | some v => some v | none => getSlot d i := by
  induction d generalizing o i with
  | nil => cases h : getSlot o i <;> simp [dictUpdate, h]
  | cons x r ih =>
    cases o with
    | nil => simp [dictUpdate]
    | cons y r' =>
      cases i with
      | zero => cases y <;> simp [dictUpdate]
      | succ i => simp [dictUpdate, ih r' i]

theorem length_dictUpdate (d o : Slots) (h : d.length = o.length) : (dictUpdate d o).length = d.length := by
  induction d generalizing o with
  | nil => cases o <;> simp_all [dictUpdate]
  | cons x r ih =>
    cases o with
    | nil => simp at h
    | cons y r' => simp at h; simp [dictUpdate, ih r' h]

theorem hasKey_eq (l : Slots) (i : Nat) : hasKey l i = (getSlot l i).isSome := rfl

/-! ## keys -/

theorem key_lt {names : List String} {s : String} (h : s ∈ names) : key names s < names.length := by
  simpa [key] using List.idxOf_lt_length_of_mem h

theorem key_inj {names : List String} {s t : String} (hs : s ∈ names) (h : key names s = key names t) : s = t := by
  unfold key at h
  have h1 : names[names.idxOf s]? = some s := by
    rw [List.getElem?_eq_getElem (List.idxOf_lt_length_of_mem hs)]
    simp
  rw [h] at h1
  by_cases ht : t ∈ names
  · have h2 : names[names.idxOf t]? = some t := by
      rw [List.getElem?_eq_getElem (List.idxOf_lt_length_of_mem ht)]
      simp
    rw [h2] at h1
    exact (Option.some.inj h1).symm
  · have : names.idxOf t = names.length := List.idxOf_eq_length ht
    rw [this] at h1
    simp at h1

theorem lt_of_getSlot_some {l : Slots} {i : Nat} {x : V} (h : getSlot l i = some x) : i < l.length := by
  by_cases hlt : i < l.length
  · exact hlt
  · rw [getSlot_of_le l i (by omega)] at h; cases h

section
variable (names : List String)

/-- the reserved words the code uses are keys of the alphabet, which has no duplicates -/
structure NamesOK : Prop where
  nodup : names.Nodup
  hName : "name" ∈ names
  hType : "type" ∈ names
  hCompose : "compose" ∈ names
  hVariable : "variable" ∈ names

/-- all entries are strings -/
def IsTypeList (l : List V) : Prop := ∀ t ∈ l, ∃ s, t = V.str s

/-- a well-formed variable context (or pre-existing `context.variable`): a dictionary over the alphabet
whose `compose`, if present, is a non-empty list of strings and whose `type`, if present, is a non-empty
string -/
structure VarWF (a : Slots) : Prop where
  len : a.length = names.length
  compose : ∀ v, getSlot a (kCompose names) = some v → ∃ l, v = V.seq false l ∧ l ≠ [] ∧ IsTypeList l
  type : ∀ v, getSlot a (kType names) = some v → ∃ s, v = V.str s ∧ s ≠ ""

/-- no key of `x` is named like a type of the chain `T`, except the types `x` itself lists -/
def NoClash (T : List V) (x : Slots) : Prop :=
  ∀ j, inT names T j = true → (getSlot x j).isSome = true → inT names (hist names x) j = true

variable {names}

theorem inT_append (c d : List V) (j : Nat) : inT names (c ++ d) j = (inT names c j || inT names d j) := by
  simp [inT, List.any_append]

theorem getSlot_presStep (old acc : Slots) (t : V) (j : Nat) :
    getSlot (presStep names old acc t) j =
      match getSlot acc j with
      | some x => some x
      | none => if inT names [t] j then getSlot old j else none := by
  cases t with
  | str s =>
    by_cases hj : key names s = j
    · subst hj
      cases h1 : getSlot acc (key names s) <;> cases h2 : getSlot old (key names s) <;>
        simp [presStep, h1, h2, inT, getSlot_setSlot]
    · have hj' : ¬ j = key names s := fun h => hj h.symm
      cases h1 : getSlot acc (key names s) <;> cases h2 : getSlot old (key names s) <;>
        cases h3 : getSlot acc j <;> simp [presStep, h1, h2, h3, inT, getSlot_setSlot, hj, hj']
  | int i => cases h3 : getSlot acc j <;> simp [presStep, inT, h3]
  | seq b l => cases h3 : getSlot acc j <;> simp [presStep, inT, h3]
  | dict l => cases h3 : getSlot acc j <;> simp [presStep, inT, h3]

theorem length_presStep (old acc : Slots) (t : V) (h : old.length = acc.length) :
    (presStep names old acc t).length = acc.length := by
  cases t with
  | str s =>
    cases h1 : getSlot acc (key names s) <;> cases h2 : getSlot old (key names s) <;>
      simp only [presStep, h1, h2]
    have hlt : key names s < acc.length := h ▸ lt_of_getSlot_some h2
    exact length_setSlot _ _ _ hlt
  | int i => rfl
  | seq b l => rfl
  | dict l => rfl

theorem preserveLoop_eq (old acc : Slots) (c : List V) (hc : IsTypeList c) :
    preserveLoop names old acc c = .ok (preservePure names old acc c) := by
  induction c generalizing acc with
  | nil => rfl
  | cons t r ih =>
    obtain ⟨s, rfl⟩ := hc t (by simp)
    have hr : IsTypeList r := fun t ht => hc t (by simp [ht])
    have hstep : preserveStep names old acc (.str s) = .ok (presStep names old acc (.str s)) := by
      simp only [preserveStep, presStep]
      cases h1 : getSlot acc (key names s) <;> cases h2 : getSlot old (key names s) <;> rfl
    simp only [preserveLoop, hstep, preservePure, List.foldl_cons]
    exact ih _ hr

theorem getSlot_preservePure (old acc : Slots) (c : List V) (j : Nat) :
    getSlot (preservePure names old acc c) j =
      match getSlot acc j with
      | some x => some x
      | none => if inT names c j then getSlot old j else none := by
  induction c generalizing acc with
  | nil => cases h : getSlot acc j <;> simp [preservePure, inT, h]
  | cons t r ih =>
    have ih' := ih (presStep names old acc t)
    simp only [preservePure, List.foldl_cons] at ih' ⊢
    rw [ih', getSlot_presStep]
    have hc : inT names (t :: r) j = (inT names [t] j || inT names r j) := inT_append [t] r j
    rw [hc]
    cases h3 : getSlot acc j <;> cases h4 : inT names [t] j <;> cases h5 : getSlot old j <;> simp

theorem length_preservePure (old acc : Slots) (c : List V) (h : old.length = acc.length) :
    (preservePure names old acc c).length = acc.length := by
  induction c generalizing acc with
  | nil => rfl
  | cons t r ih =>
    have ih' := ih (presStep names old acc t) (by rw [length_presStep _ _ _ h]; exact h)
    simp only [preservePure, List.foldl_cons] at ih' ⊢
    rw [ih', length_presStep _ _ _ h]

end

section
variable {names : List String}

theorem NamesOK.kCompose_lt (hn : NamesOK names) : kCompose names < names.length := key_lt hn.hCompose
theorem NamesOK.kType_lt (hn : NamesOK names) : kType names < names.length := key_lt hn.hType
theorem NamesOK.kName_lt (hn : NamesOK names) : kName names < names.length := key_lt hn.hName
theorem NamesOK.kVariable_lt (hn : NamesOK names) : kVariable names < names.length := key_lt hn.hVariable
theorem NamesOK.type_ne_compose (hn : NamesOK names) : kType names ≠ kCompose names := by
  intro h; have := key_inj hn.hType h; simp at this
theorem NamesOK.name_ne_compose (hn : NamesOK names) : kName names ≠ kCompose names := by
  intro h; have := key_inj hn.hName h; simp at this
theorem NamesOK.name_ne_type (hn : NamesOK names) : kName names ≠ kType names := by
  intro h; have := key_inj hn.hName h; simp at this

/-- the history of a well-formed dictionary is a list of strings -/
theorem VarWF.hist_typeList {a : Slots} (ha : VarWF names a) : IsTypeList (hist names a) := by
  unfold hist
  cases hc : getSlot a (kCompose names) with
  | some v =>
    obtain ⟨l, rfl, _, hl⟩ := ha.compose v hc
    exact hl
  | none =>
    cases ht : getSlot a (kType names) with
    | some t =>
      obtain ⟨s, rfl, _⟩ := ha.type t ht
      intro t' ht'
      simp at ht'
      exact ⟨s, ht'⟩
    | none => intro t' ht'; simp at ht'

/-- the history is non-empty exactly when `type` or `compose` is present -/
theorem VarWF.hist_ne_nil_iff {a : Slots} (ha : VarWF names a) :
    hist names a ≠ [] ↔ (hasKey a (kType names) || hasKey a (kCompose names)) = true := by
  unfold hist hasKey
  cases hc : getSlot a (kCompose names) with
  | some v =>
    obtain ⟨l, rfl, hne, _⟩ := ha.compose v hc
    simp [hne]
  | none =>
    cases ht : getSlot a (kType names) <;> simp

/-- one key of the result of an update: the new variable's binding wins; otherwise the old binding is kept
iff the key is one of the listed types -/
def mergeSlot (inc : Bool) (bj pj : Option V) : Option V :=
  match bj with
  | some x => some x
  | none => if inc then pj else none

theorem getSlot_UP (_hn : NamesOK names) (p b : Slots) (j : Nat) :
    getSlot (UP names p b) j =
      if hist names p = [] then getSlot b j
      else if j = kCompose names then some (.seq false (hist names p ++ hist names b))
      else mergeSlot (inT names (hist names p ++ hist names b) j) (getSlot b j) (getSlot p j) := by
  unfold UP
  by_cases hp : hist names p = []
  · simp [hp]
  · simp only [hp, if_false]
    rw [getSlot_preservePure]
    by_cases hj : j = kCompose names
    · subst hj
      simp [getSlot_setSlot]
    · simp only [getSlot_setSlot, hj, if_false]
      rfl

theorem UP_of_hist_nil {p : Slots} (b : Slots) (hp : hist names p = []) : UP names p b = b := by
  simp [UP, hp]

theorem length_UP (hn : NamesOK names) {p b : Slots} (hp : p.length = names.length) (hb : b.length = names.length) :
    (UP names p b).length = names.length := by
  unfold UP
  by_cases hh : hist names p = []
  · simp [hh, hb]
  · simp only [hh, if_false]
    have h1 : (setSlot b (kCompose names) (some (.seq false (hist names p ++ hist names b)))).length = names.length := by
      rw [length_setSlot _ _ _ (hb ▸ hn.kCompose_lt)]; exact hb
    have h2 : (setSlot p (kCompose names) (some (.seq false (hist names p ++ hist names b)))).length = names.length := by
      rw [length_setSlot _ _ _ (hp ▸ hn.kCompose_lt)]; exact hp
    rw [length_preservePure _ _ _ (h2.trans h1.symm), h1]

/-- the history after an update is the old history followed by the new variable's -/
theorem hist_UP (hn : NamesOK names) (p b : Slots) :
    hist names (UP names p b) = hist names p ++ hist names b := by
  by_cases hp : hist names p = []
  · have : UP names p b = b := by simp [UP, hp]
    rw [this, hp]; rfl
  · have h := getSlot_UP hn p b (kCompose names)
    simp only [hp, if_false, if_true] at h
    conv => lhs; unfold hist
    rw [h]

theorem VarWF_UP (hn : NamesOK names) {p b : Slots} (hp : VarWF names p) (hb : VarWF names b) :
    VarWF names (UP names p b) := by
  by_cases hh : hist names p = []
  · have : UP names p b = b := by simp [UP, hh]
    rw [this]; exact hb
  · refine ⟨length_UP hn hp.len hb.len, ?_, ?_⟩
    · intro v hv
      rw [getSlot_UP hn] at hv
      simp only [hh, if_false, if_true] at hv
      cases hv
      refine ⟨_, rfl, ?_, ?_⟩
      · simp [hh]
      · intro t ht
        rcases List.mem_append.1 ht with h | h
        · exact hp.hist_typeList t h
        · exact hb.hist_typeList t h
    · intro v hv
      rw [getSlot_UP hn] at hv
      simp only [hh, if_false, hn.type_ne_compose, mergeSlot] at hv
      cases hbt : getSlot b (kType names) with
      | some x => rw [hbt] at hv; cases hv; exact hb.type _ hbt
      | none =>
        rw [hbt] at hv
        simp only [] at hv
        split at hv
        · exact hp.type _ hv
        · cases hv

theorem NoClash_UP (hn : NamesOK names) {T : List V} {p b : Slots} (hT : inT names T (kCompose names) = false)
    (hb : NoClash names T b) : NoClash names T (UP names p b) := by
  intro j hj hs
  rw [hist_UP hn, inT_append]
  by_cases hh : hist names p = []
  · have : UP names p b = b := by simp [UP, hh]
    rw [this] at hs
    simp [hb j hj hs]
  · have hjc : j ≠ kCompose names := by
      intro h; rw [h, hT] at hj; cases hj
    rw [getSlot_UP hn] at hs
    simp only [hh, if_false, hjc, mergeSlot] at hs
    cases hbj : getSlot b j with
    | some x =>
      have := hb j hj (by simp [hbj])
      simp [this]
    | none =>
      rw [hbj] at hs
      simp only [] at hs
      split at hs
      · rename_i hin
        rw [inT_append] at hin
        exact hin
      · cases hs

theorem merge_assoc_nil (P B : Bool) (bj aj pj : Option V)
    (h1 : aj.isSome = true → (P || B) = false) (h2 : pj.isSome = true → B = true → P = true) :
    mergeSlot (P || B) bj (mergeSlot P aj pj) = mergeSlot (P || B) bj pj := by
  cases bj <;> cases aj <;> cases pj <;> cases P <;> cases B <;> simp_all [mergeSlot]

theorem merge_assoc_cons (P A B : Bool) (bj aj pj : Option V)
    (h1 : aj.isSome = true → (P || A || B) = true → A = true)
    (h2 : pj.isSome = true → (P || A || B) = true → P = true) :
    mergeSlot (P || A || B) bj (mergeSlot (P || A) aj pj) = mergeSlot (P || (A || B)) (mergeSlot (A || B) bj aj) pj := by
  cases bj <;> cases aj <;> cases pj <;> cases P <;> cases A <;> cases B <;> simp_all [mergeSlot]

/-- `_update_context` is associative on well-formed dictionaries whose keys do not clash with the types
of the chain: updating with `a` and then with `b` is updating with (`a` updated with `b`). -/
theorem UP_assoc (hn : NamesOK names) {T : List V} {p a b : Slots}
    (hp : VarWF names p) (ha : VarWF names a) (hb : VarWF names b)
    (hpc : NoClash names T p) (hac : NoClash names T a)
    (hT : ∀ j, inT names (hist names p ++ hist names a ++ hist names b) j = true → inT names T j = true) :
    UP names (UP names p a) b = UP names p (UP names a b) := by
  by_cases hhp : hist names p = []
  · -- no earlier history: both sides are `a` updated with `b`
    rw [UP_of_hist_nil a hhp, UP_of_hist_nil _ hhp]
  apply slots_ext
  · rw [length_UP hn (length_UP hn hp.len ha.len) hb.len, length_UP hn hp.len (length_UP hn ha.len hb.len)]
  intro j
  have hT' := hT j
  have hpc' := hpc j
  have hac' := hac j
  simp only [inT_append] at hT'
  by_cases hha : hist names a = []
  · rw [UP_of_hist_nil b hha, getSlot_UP hn (UP names p a) b, getSlot_UP hn p b, hist_UP hn]
    simp only [hhp, if_false, hha, List.append_nil]
    by_cases hj : j = kCompose names
    · simp [hj]
    · simp only [hj, if_false]
      rw [getSlot_UP hn p a]
      simp only [hhp, hj, if_false, hha, List.append_nil, inT_append]
      apply merge_assoc_nil
      · intro h
        cases hx : (inT names (hist names p) j || inT names (hist names b) j)
        · rfl
        · have h3 := hac' (hT' (by rw [hha]; simpa [inT] using hx)) h
          rw [hha] at h3
          simp [inT] at h3
      · intro h hB
        exact hpc' (hT' (by simp [hB])) h
  · rw [getSlot_UP hn (UP names p a) b, getSlot_UP hn p (UP names a b), hist_UP hn, hist_UP hn]
    have hne : ¬ (hist names p ++ hist names a = []) := by simp [hhp]
    simp only [hhp, hne, if_false]
    by_cases hj : j = kCompose names
    · simp [hj, List.append_assoc]
    · simp only [hj, if_false]
      rw [getSlot_UP hn a b, getSlot_UP hn p a]
      simp only [hhp, hha, hj, if_false, inT_append]
      apply merge_assoc_cons
      · intro h hx
        exact hac' (hT' hx) h
      · intro h hx
        exact hpc' (hT' hx) h

end

section
variable {names : List String}

/-- on well-formed dictionaries the transcribed `_update_context` (patched condition) does not raise and
computes `UP` -/
theorem updateVar_eq_UP (_hn : NamesOK names) {p b : Slots} (hp : VarWF names p) (hb : VarWF names b) :
    updateVar names true (some (.dict p)) b = .ok (UP names p b) := by
  by_cases hh : hist names p = []
  · rw [UP_of_hist_nil b hh]
    have hk : (hasKey p (kType names) || hasKey p (kCompose names)) = false := by
      cases h : (hasKey p (kType names) || hasKey p (kCompose names))
      · rfl
      · exact absurd hh ((hp.hist_ne_nil_iff).2 h)
    unfold updateVar
    simp only [Bool.true_and]
    by_cases ht : truthy (.dict p) = true
    · simp [ht, hk]
    · simp [ht]
  · have hk : (hasKey p (kType names) || hasKey p (kCompose names)) = true := (hp.hist_ne_nil_iff).1 hh
    have htr : truthy (.dict p) = true := by
      simp only [truthy, List.any_eq_true]
      simp only [hasKey, Bool.or_eq_true] at hk
      rcases hk with h | h
      · cases hg : getSlot p (kType names) with
        | none => rw [hg] at h; cases h
        | some x =>
          refine ⟨some x, ?_, rfl⟩
          unfold getSlot at hg
          cases hi : p[kType names]? with
          | none => rw [hi] at hg; cases hg
          | some y => rw [hi] at hg; simp only [] at hg; subst hg; exact List.mem_of_getElem? hi
      · cases hg : getSlot p (kCompose names) with
        | none => rw [hg] at h; cases h
        | some x =>
          refine ⟨some x, ?_, rfl⟩
          unfold getSlot at hg
          cases hi : p[kCompose names]? with
          | none => rw [hi] at hg; cases hg
          | some y => rw [hi] at hg; simp only [] at hg; subst hg; exact List.mem_of_getElem? hi
    -- `composed`
    have hc : composedOf names p b = .ok (hist names p ++ hist names b) := by
      unfold composedOf hist
      cases hpc : getSlot p (kCompose names) with
      | some v =>
        obtain ⟨l, rfl, _, _⟩ := hp.compose v hpc
        cases hbc : getSlot b (kCompose names) with
        | some w =>
          obtain ⟨l2, rfl, _, _⟩ := hb.compose w hbc
          rfl
        | none =>
          cases hbt : getSlot b (kType names) with
          | some t =>
            obtain ⟨s, rfl, hs⟩ := hb.type t hbt
            simp [truthy, hs]
          | none => simp
      | none =>
        cases hpt : getSlot p (kType names) with
        | none =>
          exfalso
          simp [hist, hpc, hpt] at hh
        | some t0 =>
          cases hbc : getSlot b (kCompose names) with
          | some w =>
            obtain ⟨l2, rfl, _, _⟩ := hb.compose w hbc
            rfl
          | none =>
            cases hbt : getSlot b (kType names) with
            | some t =>
              obtain ⟨s, rfl, hs⟩ := hb.type t hbt
              simp [truthy, hs]
            | none => simp
    have hlist : IsTypeList (hist names p ++ hist names b) := by
      intro t ht
      rcases List.mem_append.1 ht with h | h
      · exact hp.hist_typeList t h
      · exact hb.hist_typeList t h
    unfold updateVar
    simp only [htr, Bool.true_and, hk, hc, Bool.not_true]
    unfold finish
    have : (hist names p ++ hist names b).isEmpty = false := by
      cases hx : hist names p with
      | nil => exact absurd hx hh
      | cons x r => rfl
    simp only [this]
    rw [preserveLoop_eq _ _ _ hlist]
    simp [UP, hh]

end

section
variable {names : List String}

/-- the condition of line 196 as pinned (`fx = false`) agrees with the patched one on a dictionary that has
`type` whenever it has `compose` -/
def StepOK (names : List String) (fx : Bool) (p : Slots) : Prop :=
  fx = true ∨ (hasKey p (kCompose names) = true → hasKey p (kType names) = true)

/-- every variable context but the last has a `type` (needed only for the pinned condition) -/
def ChainTyped (names : List String) (fx : Bool) (as : List Slots) : Prop :=
  fx = true ∨ ∀ b ∈ as.dropLast, hasKey b (kType names) = true

theorem updateVar_eq_UP_gen (hn : NamesOK names) {fx : Bool} {p b : Slots} (hp : VarWF names p) (hb : VarWF names b)
    (hs : StepOK names fx p) : updateVar names fx (some (.dict p)) b = .ok (UP names p b) := by
  rw [← updateVar_eq_UP hn hp hb]
  rcases hs with h | h
  · rw [h]
  · cases fx with
    | true => rfl
    | false =>
      unfold updateVar
      cases hc : hasKey p (kCompose names) <;> cases ht : hasKey p (kType names) <;> simp_all

theorem hasKey_UP (hn : NamesOK names) (p : Slots) {b : Slots} {j : Nat} (hj : j ≠ kCompose names)
    (h : hasKey b j = true) : hasKey (UP names p b) j = true := by
  unfold hasKey at h ⊢
  rw [getSlot_UP hn]
  by_cases hh : hist names p = []
  · simp [hh, h]
  · cases hb : getSlot b j with
    | none => rw [hb] at h; cases h
    | some x => simp [hh, hj, mergeSlot]

theorem ChainTyped.tail {fx : Bool} {b c : Slots} {r : List Slots} (h : ChainTyped names fx (b :: c :: r)) :
    ChainTyped names fx (c :: r) ∧ (fx = true ∨ hasKey b (kType names) = true) := by
  rcases h with h | h
  · exact ⟨Or.inl h, Or.inl h⟩
  · refine ⟨Or.inr (fun x hx => h x ?_), Or.inr (h b ?_)⟩
    · simp only [List.dropLast_cons_cons, List.mem_cons] at hx ⊢
      exact Or.inr hx
    · simp

theorem StepOK.of_typed {fx : Bool} {p : Slots} (h : fx = true ∨ hasKey p (kType names) = true) : StepOK names fx p := by
  rcases h with h | h
  · exact Or.inl h
  · exact Or.inr (fun _ => h)

/-- the loop of `Compose.__init__` on well-formed variable contexts is the fold of `UP` -/
theorem composeFold_eq (hn : NamesOK names) {fx : Bool} (rest : List Slots) (a : Slots) (ha : VarWF names a)
    (hr : ∀ b ∈ rest, VarWF names b) (ht : ChainTyped names fx (a :: rest)) :
    composeFold names fx a rest = .ok (rest.foldl (UP names) a) := by
  induction rest generalizing a with
  | nil => rfl
  | cons b r ih =>
    have hb := hr b (by simp)
    have ht' := ht.tail
    simp only [composeFold, updateVar_eq_UP_gen hn ha hb (StepOK.of_typed ht'.2), List.foldl_cons]
    apply ih _ (VarWF_UP hn ha hb) (fun c hc => hr c (by simp [hc]))
    -- the accumulated context is typed when `b` is
    rcases ht'.1 with h | h
    · exact Or.inl h
    · refine Or.inr (fun x hx => ?_)
      cases r with
      | nil => simp at hx
      | cons c r' =>
        simp only [List.dropLast_cons_cons, List.mem_cons] at hx
        rcases hx with rfl | hx
        · exact hasKey_UP hn a hn.type_ne_compose (h b (by simp))
        · exact h x (by simp only [List.dropLast_cons_cons, List.mem_cons]; exact Or.inr hx)

theorem VarWF_foldl (hn : NamesOK names) (rest : List Slots) (a : Slots) (ha : VarWF names a)
    (hr : ∀ b ∈ rest, VarWF names b) : VarWF names (rest.foldl (UP names) a) := by
  induction rest generalizing a with
  | nil => exact ha
  | cons b r ih =>
    exact ih _ (VarWF_UP hn ha (hr b (by simp))) (fun c hc => hr c (by simp [hc]))

theorem hist_foldl (hn : NamesOK names) (rest : List Slots) (a : Slots) :
    hist names (rest.foldl (UP names) a) = hist names a ++ rest.flatMap (hist names) := by
  induction rest generalizing a with
  | nil => simp
  | cons b r ih => simp [ih, hist_UP hn, List.append_assoc]

/-- updating one after the other with `a, b₁, …, bₙ` is updating once with the fold `a ⊕ b₁ ⊕ … ⊕ bₙ` -/
theorem fold_assoc (hn : NamesOK names) {T : List V} {p : Slots} (hp : VarWF names p) (hpc : NoClash names T p)
    (hTc : inT names T (kCompose names) = false) (rest : List Slots) (a : Slots)
    (ha : VarWF names a) (hac : NoClash names T a)
    (hr : ∀ b ∈ rest, VarWF names b ∧ NoClash names T b)
    (hT : ∀ j, inT names (hist names p ++ hist names a ++ rest.flatMap (hist names)) j = true → inT names T j = true) :
    rest.foldl (UP names) (UP names p a) = UP names p (rest.foldl (UP names) a) := by
  induction rest generalizing a with
  | nil => rfl
  | cons b r ih =>
    have hb := hr b (by simp)
    simp only [List.foldl_cons]
    have hT1 : ∀ j, inT names (hist names p ++ hist names a ++ hist names b) j = true → inT names T j = true := by
      intro j hj
      apply hT j
      simp only [List.flatMap_cons, inT_append, Bool.or_eq_true] at hj ⊢
      rcases hj with (h | h) | h
      · exact Or.inl (Or.inl h)
      · exact Or.inl (Or.inr h)
      · exact Or.inr (Or.inl h)
    rw [UP_assoc hn hp ha hb.1 hpc hac hT1]
    apply ih _ (VarWF_UP hn ha hb.1) (NoClash_UP hn hTc hb.2) (fun c hc => hr c (by simp [hc]))
    intro j hj
    apply hT j
    simp only [hist_UP hn, List.flatMap_cons, inT_append] at hj ⊢
    simpa [Bool.or_assoc] using hj

/-- the branch of `_update_context` for a truthy `context.variable` that is not a dictionary -/
def nonDictOutcome (fx : Bool) (c : V) : Except Err Unit :=
  match nonDictContains "type" c with
  | .error e => .error e
  | .ok true => .error .typeError
  | .ok false =>
    if fx then
      match nonDictContains "compose" c with
      | .error e => .error e
      | .ok true => .error .typeError
      | .ok false => .ok ()
    else .ok ()

theorem updateVar_other (fx : Bool) (c : V) (hc : ∀ d, c ≠ .dict d) (ht : truthy c = true) (vc : Slots) :
    updateVar names fx (some c) vc =
      match nonDictOutcome fx c with
      | .ok _ => .ok vc
      | .error e => .error e := by
  cases c with
  | dict d => exact absurd rfl (hc d)
  | int i =>
    simp only [updateVar, ht, nonDictOutcome, Bool.not_true, Bool.false_eq_true, if_false]
    generalize nonDictContains "type" (V.int i) = r1
    generalize nonDictContains "compose" (V.int i) = r2
    cases r1 with
    | error e => rfl
    | ok b => cases b <;> cases fx <;> (try rfl) <;> cases r2 with
      | error e => rfl
      | ok b2 => cases b2 <;> rfl
  | str s =>
    simp only [updateVar, ht, nonDictOutcome, Bool.not_true, Bool.false_eq_true, if_false]
    generalize nonDictContains "type" (V.str s) = r1
    generalize nonDictContains "compose" (V.str s) = r2
    cases r1 with
    | error e => rfl
    | ok b => cases b <;> cases fx <;> (try rfl) <;> cases r2 with
      | error e => rfl
      | ok b2 => cases b2 <;> rfl
  | seq b l =>
    simp only [updateVar, ht, nonDictOutcome, Bool.not_true, Bool.false_eq_true, if_false]
    generalize nonDictContains "type" (V.seq b l) = r1
    generalize nonDictContains "compose" (V.seq b l) = r2
    cases r1 with
    | error e => rfl
    | ok b => cases b <;> cases fx <;> (try rfl) <;> cases r2 with
      | error e => rfl
      | ok b2 => cases b2 <;> rfl

/-- a `context.variable` that is absent or not a dictionary: `_update_context` either raises whatever the
new variable context is, or returns the new variable context unchanged -/
theorem updateVar_nondict (fx : Bool) (cv : Option V) (hcv : ∀ d, cv ≠ some (.dict d)) :
    (∀ vc, updateVar names fx cv vc = .ok vc) ∨ (∃ e, ∀ vc, updateVar names fx cv vc = .error e) := by
  cases cv with
  | none => left; intro vc; rfl
  | some c =>
    have hc : ∀ d, c ≠ .dict d := fun d h => hcv d (by rw [h])
    by_cases ht : truthy c = true
    · cases h : nonDictOutcome fx c with
      | ok u => left; intro vc; rw [updateVar_other fx c hc ht, h]
      | error e => right; exact ⟨e, fun vc => by rw [updateVar_other fx c hc ht, h]⟩
    · left; intro vc
      simp [updateVar, ht]

end

section
variable {names : List String} {D : Type}

theorem setSlot_setSlot (l : Slots) (i : Nat) (v w : Option V) : setSlot (setSlot l i v) i w = setSlot l i w := by
  induction l generalizing i with
  | nil =>
    induction i with
    | zero => rfl
    | succ i ih => simp [setSlot, ih]
  | cons x r ih =>
    cases i with
    | zero => rfl
    | succ i => simp [setSlot, ih i]

theorem composeGetter_eq (vars : List (Variable D)) : composeGetter vars = chainData vars := rfl

/-- a chain applied to a value whose `context.variable` is a well-formed dictionary `p`: the getters are
applied in order, `context.variable` becomes the fold of `UP` from `p`, nothing else changes -/
theorem seqCall_dict (hn : NamesOK names) {fx : Bool} (rest : List (Variable D)) (v : Variable D) (d : D) (c p : Slots)
    (hc : getSlot c (kVariable names) = some (.dict p)) (hp : VarWF names p) (hv : VarWF names v.varCtx)
    (hr : ∀ w ∈ rest, VarWF names w.varCtx) (hs : StepOK names fx p)
    (ht : ChainTyped names fx ((v :: rest).map Variable.varCtx)) :
    seqCall names fx (v :: rest) (.pair d c) =
      .ok (chainData (v :: rest) d,
           setSlot c (kVariable names) (some (.dict ((rest.map Variable.varCtx).foldl (UP names) (UP names p v.varCtx))))) := by
  induction rest generalizing v d c p with
  | nil =>
    simp only [seqCall, call, getDataContext, updateContext, hc, updateVar_eq_UP_gen hn hp hv hs]
    rfl
  | cons w r ih =>
    have hw := hr w (by simp)
    have ht' := ChainTyped.tail (by simpa using ht)
    have hstep : seqCall names fx (v :: w :: r) (.pair d c) =
        seqCall names fx (w :: r) (.pair (v.getter d) (setSlot c (kVariable names) (some (.dict (UP names p v.varCtx))))) := by
      simp only [seqCall, call, getDataContext, updateContext, hc, updateVar_eq_UP_gen hn hp hv hs]
    have hs' : StepOK names fx (UP names p v.varCtx) := by
      rcases ht'.2 with h | h
      · exact Or.inl h
      · exact Or.inr (fun _ => hasKey_UP hn p hn.type_ne_compose h)
    rw [hstep, ih w (v.getter d) _ (UP names p v.varCtx) (by simp [getSlot_setSlot]) (VarWF_UP hn hp hv) hw
      (fun u hu => hr u (by simp [hu])) hs' (by simpa using ht'.1)]
    simp only [setSlot_setSlot, chainData, List.foldl_cons, List.map_cons]

theorem dictUpdate_empty (hn : NamesOK names) (a : Slots) (ha : a.length = names.length) :
    dictUpdate a (setSlot (emptyD names.length) (kName names) none) = a := by
  have hl : (setSlot (emptyD names.length) (kName names) none).length = names.length := by
    rw [length_setSlot _ _ _ (by simpa using hn.kName_lt)]; simp
  apply slots_ext
  · rw [length_dictUpdate _ _ (ha.trans hl.symm)]
  · intro i
    rw [getSlot_dictUpdate, getSlot_setSlot]
    by_cases h : i = kName names <;> simp [h]

/-- `Compose(v₁, …, vₙ)` of well-formed, named variables is constructed without an exception; its getter
applies the getters in order and its `var_context` is the fold of `UP` over the variables' contexts -/
theorem mkCompose_ok (hn : NamesOK names) {fx : Bool} (v1 : Variable D) (rest : List (Variable D))
    (hv : ∀ v ∈ v1 :: rest, VarWF names v.varCtx ∧ (getSlot v.varCtx (kName names)).isSome = true)
    (ht : ChainTyped names fx ((v1 :: rest).map Variable.varCtx)) :
    mkCompose names fx ((v1 :: rest).map some) (emptyD names.length) =
      .ok ⟨chainData (v1 :: rest), (rest.map Variable.varCtx).foldl (UP names) v1.varCtx⟩ := by
  have hall : (List.map some (v1 :: rest)).all Option.isSome = true := by simp
  have hfm : List.filterMap id (List.map some (v1 :: rest)) = v1 :: rest := by
    simp [List.filterMap_map]
  have hfold := composeFold_eq hn (fx := fx) (rest.map Variable.varCtx) v1.varCtx (hv v1 (by simp)).1
    (by intro b hb; obtain ⟨w, hw, rfl⟩ := List.mem_map.1 hb; exact (hv w (by simp [hw])).1) (by simpa using ht)
  have hlast := hv ((v1 :: rest).getLast (by simp)) (List.getLast_mem _)
  have hwf := VarWF_foldl hn (rest.map Variable.varCtx) v1.varCtx (hv v1 (by simp)).1
    (by intro b hb; obtain ⟨w, hw, rfl⟩ := List.mem_map.1 hb; exact (hv w (by simp [hw])).1)
  unfold mkCompose
  simp only [hall, hfm, Bool.not_true, Bool.false_eq_true, if_false, hfold]
  have hg : hasKey (emptyD names.length) (kGetter names) = false := by simp [hasKey]
  have hnm : getSlot (emptyD names.length) (kName names) = none := by simp
  simp only [hg, Bool.false_eq_true, if_false, hnm, nameOf]
  cases hl : getSlot ((v1 :: rest).getLast (by simp)).varCtx (kName names) with
  | none => rw [hl] at hlast; cases hlast.2
  | some nm =>
    simp only [dictUpdate_empty hn _ hwf.len]
    rfl

end

section
variable {names : List String}

theorem isTypeListB_sound {l : List V} (h : isTypeListB l = true) : IsTypeList l := by
  intro t ht
  have := List.all_eq_true.1 h t ht
  cases t with
  | str s => exact ⟨s, rfl⟩
  | int i => cases this
  | seq b l => cases this
  | dict l => cases this

theorem varWFb_sound {a : Slots} (h : varWFb names a = true) : VarWF names a := by
  simp only [varWFb, Bool.and_eq_true, beq_iff_eq] at h
  obtain ⟨⟨hl, hc⟩, ht⟩ := h
  refine ⟨hl, ?_, ?_⟩
  · intro v hv
    rw [hv] at hc
    cases v with
    | seq b l =>
      cases b with
      | false =>
        simp only [Bool.and_eq_true, Bool.not_eq_true', List.isEmpty_eq_false_iff] at hc
        exact ⟨l, rfl, hc.1, isTypeListB_sound hc.2⟩
      | true => cases hc
    | int i => cases hc
    | str s => cases hc
    | dict l => cases hc
  · intro v hv
    rw [hv] at ht
    cases v with
    | str s => exact ⟨s, rfl, by simpa using ht⟩
    | int i => cases ht
    | seq b l => cases ht
    | dict l => cases ht

theorem noClashB_sound {T : List V} {x : Slots} (hl : x.length = names.length) (h : noClashB names T x = true) :
    NoClash names T x := by
  intro j hj hs
  by_cases hlt : j < names.length
  · have := List.all_eq_true.1 h j (List.mem_range.2 hlt)
    simp only [hj, hs, Bool.not_true, Bool.false_or] at this
    exact this
  · rw [getSlot_of_le x j (by omega)] at hs
    cases hs

theorem namesOKb_sound (h : namesOKb names = true) : NamesOK names := by
  simp only [namesOKb, Bool.and_eq_true, decide_eq_true_eq, List.contains_iff_mem] at h
  obtain ⟨⟨⟨⟨h1, h2⟩, h3⟩, h4⟩, h5⟩ := h
  exact ⟨h1, h2, h3, h4, h5⟩

end

section
variable {names : List String}

/-- a binding of the new variable context is in the result -/
theorem UP_own (hn : NamesOK names) (p : Slots) {b : Slots} {j : Nat} (hj : j ≠ kCompose names) {x : V}
    (h : getSlot b j = some x) : getSlot (UP names p b) j = some x := by
  rw [getSlot_UP hn]
  by_cases hh : hist names p = []
  · simp [hh, h]
  · simp [hh, hj, h, mergeSlot]

theorem inT_nil (j : Nat) : inT names [] j = false := rfl

/-- the binding of a listed type survives an update by a variable context that does not have that key -/
theorem UP_persist (hn : NamesOK names) {p b : Slots} {j : Nat} (hj : j ≠ kCompose names)
    (hb : getSlot b j = none) (hin : inT names (hist names p) j = true) :
    getSlot (UP names p b) j = getSlot p j := by
  have hh : hist names p ≠ [] := by
    intro h; rw [h, inT_nil] at hin; cases hin
  rw [getSlot_UP hn]
  simp [hh, hj, hb, mergeSlot, inT_append, hin]

theorem fold_persist (hn : NamesOK names) (as : List Slots) (p : Slots) {j : Nat} (hj : j ≠ kCompose names)
    (hin : inT names (hist names p) j = true) (hnone : ∀ a ∈ as, getSlot a j = none) :
    getSlot (as.foldl (UP names) p) j = getSlot p j := by
  induction as generalizing p with
  | nil => rfl
  | cons b r ih =>
    simp only [List.foldl_cons]
    rw [ih (UP names p b) (by rw [hist_UP hn, inT_append, hin]; rfl) (fun a ha => hnone a (by simp [ha])),
      UP_persist hn hj (hnone b (by simp)) hin]

/-- **types persist**: a binding that a variable context of the chain has under one of its own types is still
there at the end of the chain if no later variable context has that key -/
theorem chain_persist (hn : NamesOK names) (pre post : List Slots) (a p : Slots) {j : Nat} (hj : j ≠ kCompose names)
    {x : V} (ha : getSlot a j = some x) (hin : inT names (hist names a) j = true)
    (hpost : ∀ b ∈ post, getSlot b j = none) :
    getSlot ((pre ++ a :: post).foldl (UP names) p) j = some x := by
  rw [List.foldl_append, List.foldl_cons]
  rw [fold_persist hn post _ hj (by rw [hist_UP hn, inT_append, hin]; simp) hpost]
  exact UP_own hn _ hj ha

/-- **compose lists the types in application order**: after a chain of at least one variable context whose
predecessors (the value's own history included) carry some history, `compose` is the value's history followed
by the histories of the chain's variables -/
theorem fold_compose (hn : NamesOK names) (as : List Slots) (p : Slots) (hne : as ≠ [])
    (hh : hist names p ++ as.dropLast.flatMap (hist names) ≠ []) :
    getSlot (as.foldl (UP names) p) (kCompose names) =
      some (.seq false (hist names p ++ as.flatMap (hist names))) := by
  have hsplit := List.dropLast_concat_getLast hne
  rw [← hsplit, List.foldl_append]
  simp only [List.foldl_cons, List.foldl_nil]
  rw [getSlot_UP hn, hist_foldl hn]
  simp only [hh, if_false, if_true, List.flatMap_append, List.flatMap_cons, List.flatMap_nil, List.append_nil,
    List.append_assoc]

end

section
variable {names : List String} {D : Type}

/-! ## auxiliary facts for `Props/C14.lean` -/

theorem mkVariable_getter {name : V} {f : D → D} {ty : V} {kw : Slots} {v : Variable D}
    (h : mkVariable names name (.fn f) ty kw = .ok v) : v.getter = f := by
  unfold mkVariable at h
  simp only [] at h
  split at h
  · cases h; rfl
  · split at h
    · cases h; rfl
    · split at h <;> cases h

theorem preserveStep_keeps {old acc r : Slots} {t : V} (h : preserveStep names old acc t = .ok r)
    {j : Nat} {a : V} (hj : getSlot acc j = some a) : getSlot r j = some a := by
  unfold preserveStep at h
  cases t with
  | str s =>
    simp only [] at h
    cases h1 : getSlot acc (key names s) <;> cases h2 : getSlot old (key names s) <;> simp [h1, h2] at h
    · rw [← h]; exact hj
    · rw [← h, getSlot_setSlot]
      by_cases hk : j = key names s
      · rw [hk, h1] at hj; cases hj
      · simp [hk, hj]
    · rw [← h]; exact hj
    · rw [← h]; exact hj
  | int i => simp only [] at h; split at h <;> cases h; exact hj
  | seq b l => simp only [] at h; split at h <;> cases h; exact hj
  | dict l => simp only [] at h; split at h <;> cases h; exact hj

theorem preserveLoop_keeps {old : Slots} (c : List V) {acc r : Slots} (h : preserveLoop names old acc c = .ok r)
    {j : Nat} {a : V} (hj : getSlot acc j = some a) : getSlot r j = some a := by
  induction c generalizing acc with
  | nil => simp [preserveLoop] at h; rw [← h]; exact hj
  | cons t rest ih =>
    simp only [preserveLoop] at h
    cases hs : preserveStep names old acc t with
    | error e => simp [hs] at h
    | ok acc' =>
      simp only [hs] at h
      exact ih h (preserveStep_keeps hs hj)

/-- every binding of the new variable context except `compose` is in the updated `context.variable`
(any version of the condition, any old `context.variable`) -/
theorem updateVar_keeps {fx : Bool} {cv : Option V} {vc r : Slots} (h : updateVar names fx cv vc = .ok r)
    {j : Nat} (hjc : j ≠ kCompose names) {a : V} (hj : getSlot vc j = some a) : getSlot r j = some a := by
  have hfin : ∀ old composed, finish names old vc composed = .ok r → getSlot r j = some a := by
    intro old composed hf
    unfold finish at hf
    split at hf
    · cases hf; exact hj
    · exact preserveLoop_keeps composed hf (by rw [getSlot_setSlot]; simp [hjc, hj])
  unfold updateVar at h
  cases cv with
  | none => simp at h; rw [← h]; exact hj
  | some c =>
    simp only [] at h
    split at h
    · cases h; exact hj
    · cases c with
      | dict d =>
        simp only [] at h
        split at h
        · cases hco : composedOf names d vc with
          | error e => simp [hco] at h
          | ok composed => simp only [hco] at h; exact hfin _ _ h
        · cases h; exact hj
      | int i =>
        simp only [] at h
        split at h
        · cases h
        · cases h
        · split at h
          · split at h
            · cases h
            · cases h
            · cases h; exact hj
          · cases h; exact hj
      | str s =>
        simp only [] at h
        split at h
        · cases h
        · cases h
        · split at h
          · split at h
            · cases h
            · cases h
            · cases h; exact hj
          · cases h; exact hj
      | seq b l =>
        simp only [] at h
        split at h
        · cases h
        · cases h
        · split at h
          · split at h
            · cases h
            · cases h
            · cases h; exact hj
          · cases h; exact hj

/-- the context of an outcome -/
def ctxOf {D : Type} (r : Except Err (D × Slots)) : Option Slots :=
  match r with
  | .ok (_, c) => some c
  | .error _ => none

theorem ctxOf_call {D : Type} (names : List String) (fx : Bool) (v : Variable D) (x : Value D) :
    ctxOf (call names fx v x) =
      match updateContext names fx (getDataContext names x).2 v.varCtx with
      | .ok c => some c
      | .error _ => none := by
  unfold call
  generalize getDataContext names x = dc
  obtain ⟨d, c⟩ := dc
  simp only []
  cases updateContext names fx c v.varCtx <;> rfl

theorem mkVariable_leaf (l : Leaf D) (hty : l.ty ≠ "") :
    mkVariable names l.name (.fn l.f) (.str l.ty) l.kw = .ok (l.var names) := by
  simp [mkVariable, truthy, hty, Leaf.var, Leaf.ctx, Leaf.attrs]

theorem key_ne_of_ne {s t : String} (hs : s ∈ names) (h : s ≠ t) : key names s ≠ key names t :=
  fun he => h (key_inj hs he)

theorem Leaf.getSlot_ctx (l : Leaf D) (j : Nat) :
    getSlot (l.ctx names) j =
      if j = kType names then some (.str l.ty)
      else if j = key names l.ty then some (.dict (l.attrs names))
      else match getSlot l.kw j with
        | some v => some v
        | none => if j = kName names then some l.name else none := by
  unfold Leaf.ctx Leaf.attrs
  rw [getSlot_setSlot]
  by_cases h1 : j = kType names
  · simp [h1]
  · simp only [h1, if_false]
    rw [getSlot_setSlot]
    by_cases h2 : j = key names l.ty
    · simp [h2]
    · simp only [h2, if_false]
      rw [getSlot_dictUpdate, getSlot_setSlot]
      cases getSlot l.kw j <;> simp

theorem map_ctx_leaves (ls : List (Leaf D)) :
    (ls.map (Leaf.var names)).map Variable.varCtx = ls.map (Leaf.ctx names) := by
  induction ls with
  | nil => rfl
  | cons l r ih => simp only [List.map_cons, ih]; rfl

theorem hist_preDict (cv : Option V) : hist names (preDict names cv) = preHist names cv := by
  unfold preDict preHist
  cases cv with
  | none => simp [hist]
  | some c => cases c <;> simp [hist]

end

end Lena.C14
