import LenaModel.Model.C08
import LenaModel.Lemmas.C08
import LenaModel.Lemmas.C08Str
import LenaModel.Lemmas.C08Json
/-! # C08 — `to_string` is injective at the level of CHARACTERS for values without numbers

The spelled tokens of a value concatenate to a text that can be decoded in one way only: the structural
characters are single characters, `null/true/false` are fixed words, and a quoted string is a prefix code
(`jsonStrC_inj`).  Numbers are left out (`NumFree`): the model represents a float by an arbitrary `repr` string, and
the decimal spelling of integers is not analysed. -/
namespace Lena.C08

/-- the characters of a list of tokens, as `to_string` concatenates them -/
def spellAll : List Tok → List Char
  | [] => []
  | t :: r => (Tok.spell t).toList ++ spellAll r

theorem spellAll_append : ∀ (a b : List Tok), spellAll (a ++ b) = spellAll a ++ spellAll b
  | [], b => rfl
  | t :: r, b => by simp [spellAll, spellAll_append r b]

theorem toStringV_toList (v : Val) : (toStringV v).toList = spellAll (toTokens v) := by
  unfold toStringV
  rw [String.toList_join]
  generalize toTokens v = ts
  induction ts with
  | nil => rfl
  | cons t r ih => simp [spellAll, ih]

/-- a scalar that is not a number: `None`, a `bool`, a `str` -/
def Leaf.numFree : Leaf → Bool
  | .none => true
  | .bool _ => true
  | .str _ => true
  | _ => false

mutual
def numFree : Val → Bool
  | .leaf a => a.numFree
  | .dict es => numFreeE es
  | .list xs => numFreeL xs
def numFreeE : Entries → Bool
  | [] => true
  | (_, v) :: r => numFree v && numFreeE r
def numFreeL : List Val → Bool
  | [] => true
  | v :: r => numFree v && numFreeL r
end

theorem spell_key (k : String) : (Tok.spell (.key k)).toList = jsonStrC k.toList := by
  simp [Tok.spell, jsonStr]

theorem spell_str (s : String) : (Tok.spell (.scalar (.str s))).toList = jsonStrC s.toList := by
  simp [Tok.spell, jsonStr]

theorem spell_null : (Tok.spell (.scalar .none)).toList = ['n', 'u', 'l', 'l'] := by decide
theorem spell_true : (Tok.spell (.scalar (.bool true))).toList = ['t', 'r', 'u', 'e'] := by decide
theorem spell_false : (Tok.spell (.scalar (.bool false))).toList = ['f', 'a', 'l', 's', 'e'] := by decide
theorem spell_lbrace : (Tok.spell .lbrace).toList = ['{'] := by decide
theorem spell_rbrace : (Tok.spell .rbrace).toList = ['}'] := by decide
theorem spell_lbrack : (Tok.spell .lbrack).toList = ['['] := by decide
theorem spell_rbrack : (Tok.spell .rbrack).toList = [']'] := by decide
theorem spell_comma : (Tok.spell .comma).toList = [','] := by decide
theorem spell_colon : (Tok.spell .colon).toList = [':'] := by decide

/-- a scalar without numbers is spelled by a word that starts with `n`, `t`, `f` or `"` and can be read back -/
theorem scalar_inj (a b : Leaf) (ha : a.numFree = true) (hb : b.numFree = true) (x y : List Char)
    (h : (Tok.spell (.scalar a)).toList ++ x = (Tok.spell (.scalar b)).toList ++ y) : a = b ∧ x = y := by
  cases a with
  | float r => simp [Leaf.numFree] at ha
  | obj o => simp [Leaf.numFree] at ha
  | int i => simp [Leaf.numFree] at ha
  | none =>
    cases b with
    | float r => simp [Leaf.numFree] at hb
    | obj o => simp [Leaf.numFree] at hb
    | int i => simp [Leaf.numFree] at hb
    | none => rw [spell_null] at h; simpa using h
    | bool c => cases c <;> simp [spell_null, spell_true, spell_false] at h
    | str t => rw [spell_null, spell_str] at h; simp [jsonStrC] at h
  | bool c =>
    cases b with
    | float r => simp [Leaf.numFree] at hb
    | obj o => simp [Leaf.numFree] at hb
    | int i => simp [Leaf.numFree] at hb
    | none => cases c <;> simp [spell_null, spell_true, spell_false] at h
    | bool d =>
      cases c <;> cases d <;> simp [spell_true, spell_false] at h <;> simp [h]
    | str t => cases c <;> simp [spell_true, spell_false, spell_str, jsonStrC] at h
  | str s =>
    cases b with
    | float r => simp [Leaf.numFree] at hb
    | obj o => simp [Leaf.numFree] at hb
    | int i => simp [Leaf.numFree] at hb
    | none => rw [spell_null, spell_str] at h; simp [jsonStrC] at h
    | bool d => cases d <;> simp [spell_true, spell_false, spell_str, jsonStrC] at h
    | str t =>
      rw [spell_str, spell_str] at h
      obtain ⟨h1, h2⟩ := jsonStrC_inj _ _ _ _ h
      exact ⟨by rw [String.toList_inj.1 h1], h2⟩

/-- the first character of a spelled scalar without numbers is none of `{ [ } ] , :` -/
theorem scalar_head (a : Leaf) (ha : a.numFree = true) (x : List Char) :
    ∃ c r, (Tok.spell (.scalar a)).toList ++ x = c :: r ∧ c ≠ '{' ∧ c ≠ '[' ∧ c ≠ '}' ∧ c ≠ ']' ∧ c ≠ ',' := by
  cases a with
  | float r => simp [Leaf.numFree] at ha
  | obj o => simp [Leaf.numFree] at ha
  | int i => simp [Leaf.numFree] at ha
  | none => exact ⟨'n', _, by rw [spell_null]; rfl, by decide⟩
  | bool c => cases c
              · exact ⟨'f', _, by rw [spell_false]; rfl, by decide⟩
              · exact ⟨'t', _, by rw [spell_true]; rfl, by decide⟩
  | str s => exact ⟨'"', _, by rw [spell_str]; rfl, by decide⟩

theorem chars_leaf (a : Leaf) : spellAll (rawTokens (.leaf a)) = (Tok.spell (.scalar a)).toList := by
  simp [rawTokens, spellAll]

theorem chars_dict (es : Entries) : spellAll (rawTokens (.dict es)) = '{' :: (spellAll (rawEs es) ++ ['}']) := by
  simp [rawTokens, spellAll, spellAll_append, spell_lbrace, spell_rbrace]

theorem chars_list (xs : List Val) : spellAll (rawTokens (.list xs)) = '[' :: (spellAll (rawL xs) ++ [']']) := by
  simp [rawTokens, spellAll, spellAll_append, spell_lbrack, spell_rbrack]

theorem chars_es_one (k : String) (v : Val) :
    spellAll (rawEs [(k, v)]) = jsonStrC k.toList ++ ':' :: spellAll (rawTokens v) := by
  simp [rawEs, spellAll, spell_key, spell_colon]

theorem chars_es_more (k : String) (v : Val) (e : String × Val) (r : Entries) :
    spellAll (rawEs ((k, v) :: e :: r)) =
      jsonStrC k.toList ++ ':' :: (spellAll (rawTokens v) ++ ',' :: spellAll (rawEs (e :: r))) := by
  simp [rawEs, spellAll, spellAll_append, spell_key, spell_colon, spell_comma]

theorem chars_l_one (v : Val) : spellAll (rawL [v]) = spellAll (rawTokens v) := by simp [rawL]

theorem chars_l_more (v e : Val) (r : List Val) :
    spellAll (rawL (v :: e :: r)) = spellAll (rawTokens v) ++ ',' :: spellAll (rawL (e :: r)) := by
  simp [rawL, spellAll_append, spellAll, spell_comma]

/-- the spelling of a value starts with a character that is none of `} ] ,` -/
theorem value_head (v : Val) (hv : numFree v = true) (x : List Char) :
    ∃ c r, spellAll (rawTokens v) ++ x = c :: r ∧ c ≠ '}' ∧ c ≠ ']' ∧ c ≠ ',' := by
  cases v with
  | leaf a =>
    obtain ⟨c, r, h, _, _, h3, h4, h5⟩ := scalar_head a (by simpa [numFree] using hv) x
    exact ⟨c, r, by rw [chars_leaf]; exact h, h3, h4, h5⟩
  | dict es => exact ⟨'{', _, by rw [chars_dict]; rfl, by decide⟩
  | list xs => exact ⟨'[', _, by rw [chars_list]; rfl, by decide⟩

theorem jsonStrC_head (s x : List Char) : ∃ r, jsonStrC s ++ x = '"' :: r := ⟨_, rfl⟩

mutual
theorem charsV_inj : ∀ (a b : Val) (x y : List Char), numFree a = true → numFree b = true →
    spellAll (rawTokens a) ++ x = spellAll (rawTokens b) ++ y → a = b ∧ x = y
  | .leaf p, .leaf q, x, y, ha, hb, h => by
    rw [chars_leaf, chars_leaf] at h
    obtain ⟨h1, h2⟩ := scalar_inj p q (by simpa [numFree] using ha) (by simpa [numFree] using hb) x y h
    exact ⟨by rw [h1], h2⟩
  | .leaf p, .dict eb, x, y, ha, _, h => by
    obtain ⟨c, r, hc, h1, _⟩ := scalar_head p (by simpa [numFree] using ha) x
    rw [chars_leaf, hc, chars_dict] at h
    simp at h; exact absurd h.1 h1
  | .leaf p, .list xb, x, y, ha, _, h => by
    obtain ⟨c, r, hc, _, h2, _⟩ := scalar_head p (by simpa [numFree] using ha) x
    rw [chars_leaf, hc, chars_list] at h
    simp at h; exact absurd h.1 h2
  | .dict ea, .leaf q, x, y, _, hb, h => by
    obtain ⟨c, r, hc, h1, _⟩ := scalar_head q (by simpa [numFree] using hb) y
    rw [chars_leaf, hc, chars_dict] at h
    simp at h; exact absurd h.1.symm h1
  | .list xa, .leaf q, x, y, _, hb, h => by
    obtain ⟨c, r, hc, _, h2, _⟩ := scalar_head q (by simpa [numFree] using hb) y
    rw [chars_leaf, hc, chars_list] at h
    simp at h; exact absurd h.1.symm h2
  | .dict ea, .list xb, x, y, _, _, h => by
    rw [chars_dict, chars_list] at h; simp at h
  | .list xa, .dict eb, x, y, _, _, h => by
    rw [chars_dict, chars_list] at h; simp at h
  | .dict ea, .dict eb, x, y, ha, hb, h => by
    rw [chars_dict, chars_dict] at h
    simp only [List.cons_append, List.cons.injEq, true_and, List.append_assoc, List.nil_append] at h
    obtain ⟨h1, h2⟩ := charsEs_inj ea eb x y (by simpa [numFree] using ha) (by simpa [numFree] using hb) h
    exact ⟨by rw [h1], h2⟩
  | .list xa, .list xb, x, y, ha, hb, h => by
    rw [chars_list, chars_list] at h
    simp only [List.cons_append, List.cons.injEq, true_and, List.append_assoc, List.nil_append] at h
    obtain ⟨h1, h2⟩ := charsL_inj xa xb x y (by simpa [numFree] using ha) (by simpa [numFree] using hb) h
    exact ⟨by rw [h1], h2⟩
theorem charsEs_inj : ∀ (ea eb : Entries) (x y : List Char), numFreeE ea = true → numFreeE eb = true →
    spellAll (rawEs ea) ++ '}' :: x = spellAll (rawEs eb) ++ '}' :: y → ea = eb ∧ x = y
  | [], [], x, y, _, _, h => by simpa [rawEs, spellAll] using h
  | [], (k, v) :: r, x, y, _, _, h => by
    exfalso
    cases r with
    | nil => rw [chars_es_one] at h; simp [rawEs, spellAll, jsonStrC] at h
    | cons e t => rw [chars_es_more] at h; simp [rawEs, spellAll, jsonStrC] at h
  | (k, v) :: r, [], x, y, _, _, h => by
    exfalso
    cases r with
    | nil => rw [chars_es_one] at h; simp [rawEs, spellAll, jsonStrC] at h
    | cons e t => rw [chars_es_more] at h; simp [rawEs, spellAll, jsonStrC] at h
  | (k, v) :: r, (k', v') :: r', x, y, ha, hb, h => by
    simp only [numFreeE, Bool.and_eq_true] at ha hb
    cases r with
    | nil =>
      cases r' with
      | nil =>
        rw [chars_es_one, chars_es_one] at h
        simp only [List.append_assoc] at h
        obtain ⟨hk, h2⟩ := jsonStrC_inj _ _ _ _ h
        simp only [List.cons_append, List.cons.injEq, true_and] at h2
        obtain ⟨hv, hxy⟩ := charsV_inj v v' _ _ ha.1 hb.1 h2
        simp only [List.cons.injEq, true_and] at hxy
        exact ⟨by rw [String.toList_inj.1 hk, hv], hxy⟩
      | cons e' t' =>
        exfalso
        rw [chars_es_one, chars_es_more] at h
        simp only [List.append_assoc] at h
        obtain ⟨hk, h2⟩ := jsonStrC_inj _ _ _ _ h
        simp only [List.cons_append, List.cons.injEq, true_and, List.append_assoc] at h2
        obtain ⟨hv, hxy⟩ := charsV_inj v v' _ _ ha.1 hb.1 h2
        simp at hxy
    | cons e t =>
      cases r' with
      | nil =>
        exfalso
        rw [chars_es_one, chars_es_more] at h
        simp only [List.append_assoc] at h
        obtain ⟨hk, h2⟩ := jsonStrC_inj _ _ _ _ h
        simp only [List.cons_append, List.cons.injEq, true_and, List.append_assoc] at h2
        obtain ⟨hv, hxy⟩ := charsV_inj v v' _ _ ha.1 hb.1 h2
        simp at hxy
      | cons e' t' =>
        rw [chars_es_more, chars_es_more] at h
        simp only [List.append_assoc] at h
        obtain ⟨hk, h2⟩ := jsonStrC_inj _ _ _ _ h
        simp only [List.cons_append, List.cons.injEq, true_and, List.append_assoc] at h2
        obtain ⟨hv, hxy⟩ := charsV_inj v v' _ _ ha.1 hb.1 h2
        simp only [List.cons.injEq, true_and] at hxy
        obtain ⟨hr, hx⟩ := charsEs_inj (e :: t) (e' :: t') x y ha.2 hb.2 hxy
        exact ⟨by rw [String.toList_inj.1 hk, hv, hr], hx⟩
theorem charsL_inj : ∀ (xa xb : List Val) (x y : List Char), numFreeL xa = true → numFreeL xb = true →
    spellAll (rawL xa) ++ ']' :: x = spellAll (rawL xb) ++ ']' :: y → xa = xb ∧ x = y
  | [], [], x, y, _, _, h => by simpa [rawL, spellAll] using h
  | [], v :: r, x, y, _, hb, h => by
    exfalso
    simp only [numFreeL, Bool.and_eq_true] at hb
    cases r with
    | nil =>
      rw [chars_l_one] at h
      obtain ⟨c, t, hc, _, h2, _⟩ := value_head v hb.1 (']' :: y)
      rw [hc] at h; simp [rawL, spellAll] at h; exact h2 h.1.symm
    | cons e t =>
      rw [chars_l_more] at h
      simp only [List.append_assoc] at h
      obtain ⟨c, t2, hc, _, h2, _⟩ := value_head v hb.1 (',' :: spellAll (rawL (e :: t)) ++ ']' :: y)
      simp only [List.cons_append] at hc h
      rw [hc] at h; simp [rawL, spellAll] at h; exact h2 h.1.symm
  | v :: r, [], x, y, ha, _, h => by
    exfalso
    simp only [numFreeL, Bool.and_eq_true] at ha
    cases r with
    | nil =>
      rw [chars_l_one] at h
      obtain ⟨c, t, hc, _, h2, _⟩ := value_head v ha.1 (']' :: x)
      rw [hc] at h; simp [rawL, spellAll] at h; exact h2 h.1
    | cons e t =>
      rw [chars_l_more] at h
      simp only [List.append_assoc] at h
      obtain ⟨c, t2, hc, _, h2, _⟩ := value_head v ha.1 (',' :: spellAll (rawL (e :: t)) ++ ']' :: x)
      simp only [List.cons_append] at hc h
      rw [hc] at h; simp [rawL, spellAll] at h; exact h2 h.1
  | v :: r, v' :: r', x, y, ha, hb, h => by
    simp only [numFreeL, Bool.and_eq_true] at ha hb
    cases r with
    | nil =>
      cases r' with
      | nil =>
        rw [chars_l_one, chars_l_one] at h
        obtain ⟨hv, hxy⟩ := charsV_inj v v' _ _ ha.1 hb.1 h
        simp only [List.cons.injEq, true_and] at hxy
        exact ⟨by rw [hv], hxy⟩
      | cons e' t' =>
        exfalso
        rw [chars_l_one, chars_l_more] at h
        simp only [List.append_assoc, List.cons_append] at h
        obtain ⟨hv, hxy⟩ := charsV_inj v v' _ _ ha.1 hb.1 h
        simp at hxy
    | cons e t =>
      cases r' with
      | nil =>
        exfalso
        rw [chars_l_one, chars_l_more] at h
        simp only [List.append_assoc, List.cons_append] at h
        obtain ⟨hv, hxy⟩ := charsV_inj v v' _ _ ha.1 hb.1 h
        simp at hxy
      | cons e' t' =>
        rw [chars_l_more, chars_l_more] at h
        simp only [List.append_assoc, List.cons_append] at h
        obtain ⟨hv, hxy⟩ := charsV_inj v v' _ _ ha.1 hb.1 h
        simp only [List.cons.injEq, true_and] at hxy
        obtain ⟨hr, hx⟩ := charsL_inj (e :: t) (e' :: t') x y ha.2 hb.2 hxy
        exact ⟨by rw [hv, hr], hx⟩
end

/-! the canonical form has no numbers if the value has none -/
theorem numFreeE_insertE (k : String) (v : Val) (hv : numFree v = true) : ∀ l : Entries, numFreeE l = true →
    numFreeE (insertE k v l) = true
  | [], _ => by simp [insertE, numFreeE, hv]
  | (k', v') :: r, h => by
    simp only [numFreeE, Bool.and_eq_true] at h
    simp only [insertE]
    split
    · simp [numFreeE, hv, h.1, h.2]
    · simp [numFreeE, h.1, numFreeE_insertE k v hv r h.2]

mutual
theorem numFree_canon : ∀ v : Val, numFree v = true → numFree (canon v) = true
  | .leaf a, h => by simpa [canon] using h
  | .dict es, h => by simp only [canon, numFree] at h ⊢; exact numFreeE_canonEs es h
  | .list xs, h => by simp only [canon, numFree] at h ⊢; exact numFreeL_canonL xs h
theorem numFreeE_canonEs : ∀ es : Entries, numFreeE es = true → numFreeE (canonEs es) = true
  | [], _ => by simp [canonEs, numFreeE]
  | (k, v) :: r, h => by
    simp only [numFreeE, Bool.and_eq_true] at h
    simp only [canonEs]
    exact numFreeE_insertE k _ (numFree_canon v h.1) _ (numFreeE_canonEs r h.2)
theorem numFreeL_canonL : ∀ xs : List Val, numFreeL xs = true → numFreeL (canonL xs) = true
  | [], _ => by simp [canonL, numFreeL]
  | v :: r, h => by
    simp only [numFreeL, Bool.and_eq_true] at h
    simp [canonL, numFreeL, numFree_canon v h.1, numFreeL_canonL r h.2]
end

/-- **the strings of `to_string` decode uniquely** (values without numbers): equal strings — character by
character — come from equal canonical forms -/
theorem toStringV_inj_chars (a b : Val) (ha : numFree a = true) (hb : numFree b = true)
    (h : toStringV a = toStringV b) : canon a = canon b := by
  have h' := congrArg String.toList h
  rw [toStringV_toList, toStringV_toList, toTokens_eq_raw, toTokens_eq_raw] at h'
  have := charsV_inj (canon a) (canon b) [] [] (numFree_canon a ha) (numFree_canon b hb) (by simpa using h')
  exact this.1

end Lena.C08
