import LenaModel.Model.C07Ext
import LenaModel.Lemmas.C07
import LenaModel.Lemmas.C07Update
import LenaModel.Lemmas.C07Nested
/-! # C07 — helper lemmas for the extension model (string form of update_recursively, nested_dicts, callers) -/
namespace Lena.C07
open Lena Lena.Val
variable {α : Type} [DecidableEq α]

/-! ### `str_to_dict`: the chain of singletons -/

omit [DecidableEq α] in
theorem getSlot_empty (n k : Nat) : getSlot (Val.empty n : Slots α) k = none := by
  unfold getSlot Val.empty
  cases h : (List.replicate n (none : Option (Val α)))[k]? with
  | none => rfl
  | some x =>
    rw [List.getElem?_replicate] at h
    split at h <;> simp_all

omit [DecidableEq α] in
theorem getSlot_single_eq (n k : Nat) (v : Val α) : getSlot (single n k v) k = some v := by
  unfold single; rw [getSlot_setSlot_eq]

omit [DecidableEq α] in
theorem getSlot_single_ne (n k j : Nat) (v : Val α) (h : j ≠ k) : getSlot (single n k v) j = none := by
  unfold single; rw [getSlot_setSlot_ne _ _ _ _ h, getSlot_empty]

omit [DecidableEq α] in
/-- the value sits at the end of the path of keys -/
theorem getPath_chain (n : Nat) : ∀ (ks : List Nat) (v : Val α), getPath (chain n ks v) ks = some v
  | [], v => by simp [chain, getPath]
  | k :: ks, v => by
      rw [chain, getPath_cons_some _ _ _ _ (getSlot_single_eq n k _)]
      exact getPath_chain n ks v

omit [DecidableEq α] in
/-- a path that leaves the chain of keys at some point is not touched by the chain -/
theorem untouched_chain (n : Nat) : ∀ (ks : List Nat) (v : Val α) (i j : Nat) (q : List Nat) (k0 : Nat) (x : Slots α),
    chain n ks v = .dict x → i < ks.length → ks[i]? = some k0 → j ≠ k0 →
    untouchedL x (ks.take i ++ j :: q) = true
  | [], _, _, _, _, _, _, _, h, _, _ => by simp at h
  | k :: ks, v, 0, j, q, k0, x, hx, _, hk, hj => by
      simp only [chain, Val.dict.injEq] at hx
      subst hx
      simp only [List.getElem?_cons_zero, Option.some.injEq] at hk
      subst hk
      simp [untouchedL, getSlot_single_ne n k j _ hj]
  | k :: ks, v, i + 1, j, q, k0, x, hx, hi, hk, hj => by
      simp only [chain, Val.dict.injEq] at hx
      subst hx
      simp only [List.take_succ_cons, List.cons_append, untouchedL, getSlot_single_eq]
      have hi' : i < ks.length := by simpa using hi
      have hk' : ks[i]? = some k0 := by simpa using hk
      cases hc : chain n ks v with
      | leaf a =>
        -- a leaf below a non-empty rest of the chain is impossible
        cases ks with
        | nil => simp at hi'
        | cons k' ks' => simp [chain] at hc
      | dict y => exact untouched_chain n ks v i j q k0 y hc hi' hk' hj

/-- a leaf of `o` is a leaf of everything that contains `o` -/
theorem getPath_leaf_of_contL (lv : Int) : ∀ (p : List Nat) (o r : Slots α) (a : α),
    contL lv o r = true → getPath (.dict o) p = some (.leaf a) → getPath (.dict r) p = some (.leaf a)
  | [], _, _, _, _, h => by simp [getPath] at h
  | k :: p, o, r, a, hc, h => by
      have hk := (contL_iff_getSlot lv o r).1 hc k
      cases ho : getSlot o k with
      | none => rw [getPath_cons_none _ _ _ ho] at h; simp at h
      | some v =>
        rw [getPath_cons_some _ _ _ _ ho] at h
        rw [ho] at hk
        cases hr : getSlot r k with
        | none => rw [hr] at hk; simp [contO] at hk
        | some w =>
          rw [hr] at hk
          rw [getPath_cons_some _ _ _ _ hr]
          cases v with
          | leaf b =>
            cases w with
            | leaf b' =>
              simp [contO] at hk
              subst hk
              exact h
            | dict y => simp [contO] at hk
          | dict x =>
            cases w with
            | leaf b' => simp [contO] at hk
            | dict y =>
              simp [contO] at hk
              rcases hk with hk | ⟨_, hk⟩
              · subst hk; exact h
              · exact getPath_leaf_of_contL (lv - 1) p x y a hk h

/-! ### `update_recursively` is monotone in `d` (used by `_update_with_group`) -/

mutual
theorem updO_mono (lv : Int) (hl : lv < 0) : ∀ (a c o : Option (Val α)),
    contO lv a c = true → contO lv (updO a o) (updO c o) = true
  | a, c, none, h => by simpa [updO_none_right] using h
  | a, c, some (.leaf b), _ => by
      cases a <;> cases c <;> simp [updO, contO]
  | none, none, some (.dict y), _ => by simp [updO, contO]
  | none, some (.leaf b), some (.dict y), _ => by
      simp [updO, contO, updL_emptyLike_left]
  | none, some (.dict z), some (.dict y), _ => by
      have h1 : lv ≠ 1 := by omega
      simp [updO, contO, h1, updL_contains (lv - 1) (by omega) z y]
  | some (.leaf b), none, _, h => by simp [contO] at h
  | some (.leaf b), some (.leaf b'), some (.dict y), h => by
      simp [contO] at h; subst h; simp [updO, contO]
  | some (.leaf b), some (.dict z), _, h => by simp [contO] at h
  | some (.dict x), none, _, h => by simp [contO] at h
  | some (.dict x), some (.leaf b), _, h => by simp [contO] at h
  | some (.dict x), some (.dict z), some (.dict y), h => by
      have h1 : lv ≠ 1 := by omega
      simp [contO] at h
      simp only [updO, contO, Val.dict.injEq, Bool.or_eq_true, decide_eq_true_eq, Bool.and_eq_true, ne_eq]
      rcases h with h | ⟨_, h⟩
      · subst h; exact Or.inl rfl
      · exact Or.inr ⟨by simpa using h1, updL_mono (lv - 1) (by omega) x z y h⟩
theorem updL_mono (lv : Int) (hl : lv < 0) : ∀ (a c o : Slots α),
    contL lv a c = true → contL lv (updL a o) (updL c o) = true
  | a, c, [], h => by simpa [updL] using h
  | [], [], y :: r', _ => contL_refl lv _
  | [], z :: c, y :: r', _ => by
      simp only [updL, contL, Bool.and_eq_true]
      exact ⟨updO_mono lv hl none z y (by rw [contO]), updL_mono lv hl [] c r' (by simp [contL])⟩
  | x :: a, [], y :: r', h => by
      simp only [contL, Bool.and_eq_true] at h
      have hx : x = none := by
        cases x with
        | none => rfl
        | some v => simp [contO] at h
      subst hx
      have := updL_mono lv hl a [] r' h.2
      simp [updL, contL, contO_refl, this]
  | x :: a, z :: c, y :: r', h => by
      simp only [contL, Bool.and_eq_true] at h
      simp only [updL, contL, Bool.and_eq_true]
      exact ⟨updO_mono lv hl x z y h.1, updL_mono lv hl a c r' h.2⟩
end


/-! ### `get_most_nested_subdict_with`: the `nested_dicts` test never fires on a finite value -/

mutual
/-- number of nodes -/
def szV : Val α → Nat
  | .leaf _ => 1
  | .dict l => 1 + szL l
def szL : Slots α → Nat
  | [] => 0
  | none :: r => szL r
  | some v :: r => szV v + szL r
end

omit [DecidableEq α] in
theorem szL_cons_some (v : Val α) (r : Slots α) : szL (some v :: r) = szV v + szL r := by rw [szL]
omit [DecidableEq α] in
theorem szL_cons_le (x : Option (Val α)) (r : Slots α) : szL r ≤ szL (x :: r) := by
  cases x <;> simp [szL]

mutual
theorem mnV_no_valueError (k : Nat) : ∀ (v : Val α) (nd : List (Slots α)),
    (∀ s ∈ nd, szV v ≤ szL s) → mnV k nd v ≠ .lenaValueError
  | .leaf _, _, _ => by simp [mnV]
  | .dict y, nd, h => by
      rw [mnV]
      exact mnL_no_valueError k k y nd y (fun s hs => by have := h s hs; rw [szV] at this; omega) (Nat.le_refl _)
theorem mnL_no_valueError (k : Nat) : ∀ (j : Nat) (r : Slots α) (nd : List (Slots α)) (whole : Slots α),
    (∀ s ∈ nd, szL whole < szL s) → szL r ≤ szL whole → mnL k nd whole j r ≠ .lenaValueError
  | _, [], _, _, _, _ => by simp [mnL]
  | 0, none :: _, _, _, _, _ => by simp [mnL]
  | 0, some v :: r, nd, whole, h, hr => by
      rw [mnL]
      have hnot : whole ∉ nd := fun hm => by have := h whole hm; omega
      rw [if_neg hnot]
      rw [szL_cons_some] at hr
      refine mnV_no_valueError k v (whole :: nd) ?_
      intro s hs
      rcases List.mem_cons.1 hs with e | e
      · subst e; omega
      · have := h s e; omega
  | j + 1, x :: r, nd, whole, h, hr => by
      rw [mnL]
      exact mnL_no_valueError k j r nd whole h (Nat.le_trans (szL_cons_le x r) hr)
end

theorem mnL_none (k : Nat) (nd : List (Slots α)) (whole : Slots α) : ∀ (j : Nat) (l : Slots α),
    getSlot l j = none → mnL k nd whole j l = .ok whole
  | _, [], _ => by simp [mnL]
  | 0, none :: r, _ => by simp [mnL]
  | 0, some v :: r, h => by simp at h
  | j + 1, x :: r, h => by
      rw [getSlot_succ'] at h
      rw [mnL, mnL_none k nd whole j r h]

theorem mnL_some (k : Nat) (nd : List (Slots α)) (whole : Slots α) : ∀ (j : Nat) (l : Slots α) (v : Val α),
    getSlot l j = some v →
    mnL k nd whole j l = if whole ∈ nd then .lenaValueError else mnV k (whole :: nd) v
  | _, [], _, h => by simp at h
  | 0, none :: r, _, h => by simp at h
  | 0, some v :: r, w, h => by
      rw [getSlot_zero'] at h
      cases h
      rw [mnL]
  | j + 1, x :: r, v, h => by
      rw [getSlot_succ'] at h
      rw [mnL, mnL_some k nd whole j r v h]

/-- what the walk returns when the test does not fire: the dictionary `nestDepth` keys down, which has no `key`;
`TypeError` exactly when a non-dictionary is met there -/
theorem mnV_spec (k : Nat) : ∀ (m : Nat) (v : Val α) (nd : List (Slots α)), nestDepth k v = m →
    mnV k nd v ≠ .lenaValueError →
    (mnV k nd v = .typeError ↔ ∃ a, getPath v (List.replicate m k) = some (.leaf a)) ∧
    (∀ r, mnV k nd v = .ok r → getPath v (List.replicate m k) = some (.dict r) ∧ getSlot r k = none)
  | m, .leaf a, nd, hm, _ => by
      have : m = 0 := by simpa [nestDepth] using hm.symm
      subst this
      simp [mnV, getPath]
  | m, .dict y, nd, hm, hne => by
      cases hk : getSlot y k with
      | none =>
        rw [nestDepth_dict_none k y hk] at hm
        subst hm
        rw [mnV, mnL_none k nd y k y hk]
        simp [getPath, hk]
      | some w =>
        rw [nestDepth_dict_some k y w hk] at hm
        rw [mnV, mnL_some k nd y k y w hk] at hne ⊢
        cases m with
        | zero => omega
        | succ m =>
          by_cases hin : y ∈ nd
          · simp [hin] at hne
          · rw [if_neg hin] at hne ⊢
            have ih := mnV_spec k m w (y :: nd) (by omega) hne
            rw [List.replicate_succ, getPath_cons_some _ _ _ _ hk]
            exact ih

end Lena.C07
