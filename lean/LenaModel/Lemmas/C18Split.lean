import LenaModel.Model.C18Split
import LenaModel.Lemmas.C18
/-! # C18 — lemmas for `Split` with a Sequence branch -/

namespace Lena.C18

/-! ## A finished chain answers `StopIteration` for ever -/

/-- the most downstream generator of the chain is dead -/
def TopDead : Chain → Prop
  | ⟨.map _ _ _ _ dead :: _, _⟩ => dead = true
  | ⟨.dump _ st :: _, _⟩ => st = .dead
  | ⟨[], .src _ _ _ dead⟩ => dead = true
  | ⟨[], .load _ st _⟩ => st = .dead

theorem next_topDead (fs : FS) (ch : Chain) (h : TopDead ch) : next fs ch = (.done, [], fs, ch) := by
  obtain ⟨us, b⟩ := ch
  cases us with
  | nil =>
    cases b with
    | src vals i r dead => simp only [TopDead] at h; subst h; simp [next, nextUppers, nextBottom]
    | load c st rest => simp only [TopDead] at h; subst h; simp [next, nextUppers, nextBottom]
  | cons u us =>
    cases u with
    | map j a calls r dead => simp only [TopDead] at h; subst h; simp [next, nextUppers]
    | dump c st => simp only [TopDead] at h; subst h; simp [next, nextUppers]

theorem nextBottom_done_dead (fs : FS) (b : Bottom) (h : (nextBottom fs b).1 = .done) :
    TopDead ⟨[], (nextBottom fs b).2.2⟩ := by
  cases b with
  | src vals i r dead =>
    cases dead with
    | true => simp [nextBottom, TopDead]
    | false =>
      by_cases hr : r = some i
      · simp [nextBottom, hr] at h
      · cases hv : vals[i]? with
        | some v => simp [nextBottom, hr, hv] at h
        | none => simp [nextBottom, hr, hv, TopDead]
  | load c st rest =>
    cases st with
    | dead => simp [nextBottom, TopDead]
    | fresh =>
      simp only [nextBottom] at h ⊢
      split at h <;> simp_all [TopDead]
    | active => cases rest <;> simp_all [nextBottom, TopDead]

theorem nextUppers_done_dead : ∀ (us : List Upper) (fs : FS) (b : Bottom),
    (nextUppers fs us b).1 = .done → TopDead ⟨(nextUppers fs us b).2.2.2.1, (nextUppers fs us b).2.2.2.2⟩
  | [], fs, b, h => by
    simp only [nextUppers] at h ⊢
    exact nextBottom_done_dead fs b h
  | .map j a calls r true :: us, fs, b, _ => by simp [nextUppers, TopDead]
  | .map j a calls r false :: us, fs, b, h => by
    simp only [nextUppers] at h ⊢
    rcases hn : nextUppers fs us b with ⟨res0, evs0, fs0, us0, b0⟩
    rw [hn] at h
    cases res0 with
    | item v => simp only [mapAfter] at h ⊢; split at h <;> simp at h
    | done => simp [mapAfter, TopDead]
    | raised e => simp [mapAfter] at h
  | .dump c .dead :: us, fs, b, _ => by simp [nextUppers, TopDead]
  | .dump c .fresh :: us, fs, b, h => by
    simp only [nextUppers] at h ⊢
    rcases hn : nextUppers (fs.openTmpW c) us b with ⟨res0, evs0, fs0, us0, b0⟩
    rw [hn] at h
    cases res0 with
    | item v => simp [dumpAfter] at h
    | done => simp only [dumpAfter] at h ⊢; split <;> simp_all [TopDead]
    | raised e => simp [dumpAfter] at h
  | .dump c .active :: us, fs, b, h => by
    simp only [nextUppers] at h ⊢
    rcases hn : nextUppers fs us b with ⟨res0, evs0, fs0, us0, b0⟩
    rw [hn] at h
    cases res0 with
    | item v => simp [dumpAfter] at h
    | done => simp only [dumpAfter] at h ⊢; split <;> simp_all [TopDead]
    | raised e => simp [dumpAfter] at h

/-- a consumption that saw the end leaves a finished chain -/
theorem drive_exhausted_topDead : ∀ (k : Nat) (fs : FS) (ch : Chain),
    (drive k fs ch).end_ = .exhausted → TopDead (drive k fs ch).chain
  | 0, _, _, h => by simp [drive] at h
  | k + 1, fs, ch, h => by
    have hd := nextUppers_done_dead ch.uppers fs ch.bottom
    rcases hn : nextUppers fs ch.uppers ch.bottom with ⟨res, evs, fs', us', b'⟩
    rw [hn] at hd
    have hnext : next fs ch = (res, evs, fs', ⟨us', b'⟩) := by simp [next, hn]
    cases res with
    | item v =>
      simp only [drive, hnext] at h ⊢
      exact drive_exhausted_topDead k fs' ⟨us', b'⟩ h
    | done => simp only [drive, hnext]; exact hd rfl
    | raised e => simp [drive, hnext] at h

/-- pulling a finished chain: nothing happens -/
theorem drive_topDead (k : Nat) (fs : FS) (ch : Chain) (h : TopDead ch) :
    drive (k + 1) fs ch = ⟨[], [], .exhausted, fs, ch⟩ := by
  simp [drive, next_topDead fs ch h]

/-! ## Renumbering the elements changes only the labels of the events -/

def relU (f : Nat → Nat) : Upper → Upper
  | .map j a calls r dead => .map (f j) a calls r dead
  | .dump c st => .dump c st

def relE (f : Nat → Nat) : Ev → Ev
  | .step j i => .step (f j) i
  | .stepRaise j i => .stepRaise (f j) i
  | e => e

theorem mapAfter_rel (f : Nat → Nat) (j : Nat) (a : Int) (calls : Nat) (r : Option Nat)
    (x : Res × List Ev × FS × List Upper × Bottom) :
    mapAfter (f j) a calls r (x.1, x.2.1.map (relE f), x.2.2.1, x.2.2.2.1.map (relU f), x.2.2.2.2) =
      ((mapAfter j a calls r x).1, (mapAfter j a calls r x).2.1.map (relE f), (mapAfter j a calls r x).2.2.1,
        (mapAfter j a calls r x).2.2.2.1.map (relU f), (mapAfter j a calls r x).2.2.2.2) := by
  obtain ⟨res, evs, fs, us, b⟩ := x
  cases res with
  | item v =>
    simp only [mapAfter]
    split <;> simp [relE, relU]
  | done => simp [mapAfter, relU]
  | raised e => simp [mapAfter, relU]

theorem dumpAfter_rel (f : Nat → Nat) (c : Nat) (x : Res × List Ev × FS × List Upper × Bottom) :
    dumpAfter c (x.1, x.2.1.map (relE f), x.2.2.1, x.2.2.2.1.map (relU f), x.2.2.2.2) =
      ((dumpAfter c x).1, (dumpAfter c x).2.1.map (relE f), (dumpAfter c x).2.2.1,
        (dumpAfter c x).2.2.2.1.map (relU f), (dumpAfter c x).2.2.2.2) := by
  obtain ⟨res, evs, fs, us, b⟩ := x
  cases res with
  | item v => simp [dumpAfter, relU]
  | done =>
    simp only [dumpAfter]
    split <;> simp [relU]
  | raised e => simp [dumpAfter, relU]

theorem nextUppers_rel (f : Nat → Nat) : ∀ (us : List Upper) (fs : FS) (b : Bottom),
    nextUppers fs (us.map (relU f)) b =
      ((nextUppers fs us b).1, (nextUppers fs us b).2.1.map (relE f), (nextUppers fs us b).2.2.1,
        (nextUppers fs us b).2.2.2.1.map (relU f), (nextUppers fs us b).2.2.2.2)
  | [], fs, b => by
    simp only [List.map_nil, nextUppers]
    have : ∀ ev, ev ∈ (nextBottom fs b).2.1 → relE f ev = ev := by
      intro ev hev
      cases b with
      | src vals i r dead =>
        cases dead with
        | true => simp [nextBottom] at hev
        | false =>
          simp only [nextBottom] at hev
          split at hev
          · simp at hev; subst hev; rfl
          · split at hev <;> (simp at hev; subst hev; rfl)
      | load c st rest =>
        cases st with
        | dead => simp [nextBottom] at hev
        | fresh => simp only [nextBottom] at hev; split at hev <;> simp at hev
        | active => cases rest <;> simp [nextBottom] at hev
    simp [List.map_congr_left this]
  | .map j a calls r true :: us, fs, b => by simp [nextUppers, relU]
  | .map j a calls r false :: us, fs, b => by
    simp only [List.map_cons, relU, nextUppers]
    rw [nextUppers_rel f us fs b]
    exact mapAfter_rel f j a calls r _
  | .dump c .dead :: us, fs, b => by simp [nextUppers, relU]
  | .dump c .fresh :: us, fs, b => by
    simp only [List.map_cons, relU, nextUppers]
    rw [nextUppers_rel f us _ b]
    exact dumpAfter_rel f c _
  | .dump c .active :: us, fs, b => by
    simp only [List.map_cons, relU, nextUppers]
    rw [nextUppers_rel f us fs b]
    exact dumpAfter_rel f c _

def relC (f : Nat → Nat) (ch : Chain) : Chain := ⟨ch.uppers.map (relU f), ch.bottom⟩

theorem drive_rel (f : Nat → Nat) : ∀ (k : Nat) (fs : FS) (ch : Chain),
    (drive k fs (relC f ch)).outs = (drive k fs ch).outs ∧
    (drive k fs (relC f ch)).evs = (drive k fs ch).evs.map (relE f) ∧
    (drive k fs (relC f ch)).end_ = (drive k fs ch).end_ ∧
    (drive k fs (relC f ch)).fs = (drive k fs ch).fs ∧
    (drive k fs (relC f ch)).chain = relC f (drive k fs ch).chain
  | 0, _, _ => by simp [drive]
  | k + 1, fs, ch => by
    have h := nextUppers_rel f ch.uppers fs ch.bottom
    rcases hn : nextUppers fs ch.uppers ch.bottom with ⟨res, evs, fs', us', b'⟩
    rw [hn] at h
    have h1 : next fs ch = (res, evs, fs', ⟨us', b'⟩) := by simp [next, hn]
    have h2 : next fs (relC f ch) = (res, evs.map (relE f), fs', relC f ⟨us', b'⟩) := by
      simp [next, relC, h]
    cases res with
    | item v =>
      obtain ⟨i1, i2, i3, i4, i5⟩ := drive_rel f k fs' ⟨us', b'⟩
      simp only [drive, h1, h2]
      exact ⟨by rw [i1], by simp [i2], i3, i4, i5⟩
    | done => simp [drive, h1, h2]
    | raised e => simp [drive, h1, h2]

theorem buildEls_rel (fs : FS) (j0 : Nat) : ∀ (els : List ElSpec) (j : Nat) (ch : Chain),
    buildEls fs (j + j0) els (relC (· + j0) ch) = relC (· + j0) (buildEls fs j els ch)
  | [], _, _ => rfl
  | .map a r :: els, j, ch => by
    simp only [buildEls]
    have := buildEls_rel fs j0 els (j + 1) ⟨.map j a 0 r false :: ch.uppers, ch.bottom⟩
    simp only [relC, List.map_cons, relU] at this ⊢
    rw [← this]; congr 1; omega
  | .cache c rc :: els, j, ch => by
    simp only [buildEls]
    split
    · have := buildEls_rel fs j0 els (j + 1) ⟨[], .load c .fresh []⟩
      simp only [relC, List.map_nil] at this ⊢
      rw [← this]; congr 1; omega
    · have := buildEls_rel fs j0 els (j + 1) ⟨.dump c .fresh :: ch.uppers, ch.bottom⟩
      simp only [relC, List.map_cons, relU] at this ⊢
      rw [← this]; congr 1; omega

/-- the flow through elements depends on the file system only through the cache files of their caches -/
theorem elsFlow_congr {fs1 fs2 : FS} : ∀ (els : List ElSpec) (f : Flow),
    (∀ c, c ∈ cacheIds els → (fs1 c).final = (fs2 c).final) → elsFlow fs1 els f = elsFlow fs2 els f
  | [], _, _ => rfl
  | .map a r :: els, f, h => by
    simp only [elsFlow]
    exact elsFlow_congr els _ (fun c hc => h c (by simpa [cacheIds] using hc))
  | .cache c rc :: els, f, h => by
    have hc : (fs1 c).final = (fs2 c).final := h c (by simp [cacheIds])
    have ih := fun g => elsFlow_congr (fs1 := fs1) (fs2 := fs2) els g (fun d hd => h d (by simp [cacheIds, hd]))
    simp only [elsFlow, cacheExists, storedFlow, hc, ih]
    rfl

theorem mapFlow_length_le (a : Int) (r : Option Nat) (f : Flow) : (mapFlow a r f).vals.length ≤ f.vals.length := by
  cases r with
  | none => simp [mapFlow]
  | some q =>
    simp only [mapFlow]
    split
    · simp; omega
    · simp

/-- total length of the stored flows of the caches of a pipeline -/
def storedLen (fs : FS) (els : List ElSpec) : Nat := ((cacheIds els).map (fun c => ((fs c).final.getD []).length)).sum

theorem elsFlow_length_le (fs : FS) : ∀ (els : List ElSpec) (f : Flow),
    (elsFlow fs els f).vals.length ≤ f.vals.length + storedLen fs els
  | [], f => by simp [elsFlow, storedLen, cacheIds]
  | .map a r :: els, f => by
    have := elsFlow_length_le fs els (mapFlow a r f)
    have := mapFlow_length_le a r f
    simp only [elsFlow, storedLen, cacheIds] at *
    omega
  | .cache c rc :: els, f => by
    simp only [elsFlow, storedLen, cacheIds, List.map_cons, List.sum_cons]
    split
    · have := elsFlow_length_le fs els (storedFlow fs c)
      have hs : (storedFlow fs c).vals.length = ((fs c).final.getD []).length := by
        unfold storedFlow; cases (fs c).final <;> simp
      simp only [storedLen] at this
      omega
    · have := elsFlow_length_le fs els f
      simp only [storedLen] at this
      omega

theorem foldl_add_eq (g : Nat → Nat) : ∀ (l : List Nat) (init : Nat),
    l.foldl (fun n c => n + g c) init = init + (l.map g).sum
  | [], _ => by simp
  | c :: l, init => by simp [foldl_add_eq g l, Nat.add_assoc]

/-- `islice(flow, None)`: the demand used for it exceeds the length of the outer flow -/
theorem bigDemandOf_gt (fs : FS) (s : SrcSpec) (outer : List ElSpec) :
    (pipeFlow fs s outer).vals.length < bigDemandOf fs s outer := by
  have h1 := elsFlow_length_le fs outer (srcFlow s)
  have h2 : (srcFlow s).vals.length ≤ s.vals.length := by
    unfold srcFlow
    cases s.raiseAt with
    | none => simp
    | some r => simp only; split <;> simp <;> omega
  unfold bigDemandOf pipeFlow
  rw [foldl_add_eq]
  simp only [storedLen] at h1
  omega

/-- **one buffer holds the whole flow** (`bufsize=None`, or `b` larger than the outer flow): the loop of `Split.run`
is: pull the outer chain to its end; if it raised, that is the end of the run and no cache file has changed;
otherwise run the branch once, on the list of all outer values -/
theorem splitLoop_whole (b j0 : Nat) (branch : List ElSpec) (fuel k : Nat) (fs : FS) (oc : Chain)
    (ok : ChainOk fs oc) (hb : (rem fs oc).vals.length < b) (_hk : 0 < k) :
    (∀ e, (rem fs oc).exc = some e →
      (splitLoop b j0 branch (fuel + 2) k true fs oc).outs = [] ∧
      (splitLoop b j0 branch (fuel + 2) k true fs oc).end_ = .raised e ∧
      ∀ c, ((splitLoop b j0 branch (fuel + 2) k true fs oc).fs c).final = (fs c).final) ∧
    ((rem fs oc).exc = none →
      (splitLoop b j0 branch (fuel + 2) k true fs oc).outs =
        (drive k (drive b fs oc).fs (buildEls (drive b fs oc).fs j0 branch ⟨[], freshSrc ⟨(rem fs oc).vals, none⟩⟩)).outs ∧
      (splitLoop b j0 branch (fuel + 2) k true fs oc).end_ =
        (drive k (drive b fs oc).fs (buildEls (drive b fs oc).fs j0 branch ⟨[], freshSrc ⟨(rem fs oc).vals, none⟩⟩)).end_ ∧
      (splitLoop b j0 branch (fuel + 2) k true fs oc).fs =
        (drive k (drive b fs oc).fs (buildEls (drive b fs oc).fs j0 branch ⟨[], freshSrc ⟨(rem fs oc).vals, none⟩⟩)).fs) := by
  obtain ⟨h1, _, _, _, _, h6, h7⟩ := drive_spec b fs oc ok
  have hbuf : (drive b fs oc).outs.map (·.1) = (rem fs oc).vals := by
    rw [h1, List.take_of_length_le (by omega)]
  constructor
  · intro e he
    obtain ⟨hend, hfin⟩ := h7 e hb he
    simp only [splitLoop, hend]
    exact ⟨trivial, trivial, hfin⟩
  · intro he
    obtain ⟨hend, _⟩ := h6 hb he
    have hdead := drive_exhausted_topDead b fs oc hend
    simp only [splitLoop, hend, hbuf]
    generalize hd : drive k (drive b fs oc).fs
      (buildEls (drive b fs oc).fs j0 branch ⟨[], freshSrc ⟨(rem fs oc).vals, none⟩⟩) = d
    simp only [Bool.not_true, Bool.and_false, Bool.false_eq_true, if_false]
    cases hde : d.end_ with
    | stopped => simp
    | raised e => simp
    | exhausted =>
      simp only
      by_cases hempty : (rem fs oc).vals.isEmpty = true
      · simp [hempty]
      · simp only [hempty, Bool.false_eq_true, if_false]
        -- the next buffer: the outer chain is finished
        obtain ⟨b', rfl⟩ : ∃ b', b = b' + 1 := ⟨b - 1, by omega⟩
        simp [drive_topDead b' d.fs _ hdead]

theorem mem_cacheIds_of_mem {d : Nat} {rd : Bool} : ∀ {els : List ElSpec}, ElSpec.cache d rd ∈ els → d ∈ cacheIds els
  | [], h => by simp at h
  | .map _ _ :: els, h => by
    simp only [List.mem_cons] at h
    rcases h with h | h
    · cases h
    · exact mem_cacheIds_of_mem (els := els) h
  | .cache c rc :: els, h => by
    simp only [List.mem_cons, ElSpec.cache.injEq] at h
    rcases h with ⟨rfl, _⟩ | h
    · simp [cacheIds]
    · simp [cacheIds, mem_cacheIds_of_mem (els := els) h]

end Lena.C18
