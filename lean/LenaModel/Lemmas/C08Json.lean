import LenaModel.Model.C08
/-! # C08 — the JSON spelling of strings is a prefix code

`escChar` (how `json.dumps(ensure_ascii=True)` writes one character) is injective and no image is a prefix of
another one's continuation; hence a quoted string `"…"` followed by anything can be read back in exactly one
way (`jsonStrC_inj`): no key or string value can forge a quote, a comma, a colon or a brace of the structure. -/
namespace Lena.C08

def hexVal (c : Char) : Nat :=
  if c = '0' then 0 else if c = '1' then 1 else if c = '2' then 2 else if c = '3' then 3 else if c = '4' then 4
  else if c = '5' then 5 else if c = '6' then 6 else if c = '7' then 7 else if c = '8' then 8 else if c = '9' then 9
  else if c = 'a' then 10 else if c = 'b' then 11 else if c = 'c' then 12 else if c = 'd' then 13
  else if c = 'e' then 14 else 15

theorem hexVal_hexDigit : ∀ a, a < 16 → hexVal (hexDigit a) = a := by decide

theorem hex4_inj (n m : Nat) (hn : n < 65536) (hm : m < 65536) (x y : List Char)
    (h : hex4 n ++ x = hex4 m ++ y) : n = m ∧ x = y := by
  simp only [hex4, List.cons_append, List.nil_append, List.cons.injEq] at h
  obtain ⟨h3, h2, h1, h0, hxy⟩ := h
  have e3 := congrArg hexVal h3
  have e2 := congrArg hexVal h2
  have e1 := congrArg hexVal h1
  have e0 := congrArg hexVal h0
  rw [hexVal_hexDigit _ (Nat.mod_lt _ (by decide)), hexVal_hexDigit _ (Nat.mod_lt _ (by decide))] at e3 e2 e1 e0
  exact ⟨by omega, hxy⟩

theorem char_valid (c : Char) : c.toNat < 55296 ∨ (57343 < c.toNat ∧ c.toNat < 1114112) := c.valid

def hexNum (a b c d : Char) : Nat := 4096 * hexVal a + 256 * hexVal b + 16 * hexVal c + hexVal d

theorem hexNum_hex4 (n : Nat) (hn : n < 65536) :
    hexNum (hexDigit (n / 4096 % 16)) (hexDigit (n / 256 % 16)) (hexDigit (n / 16 % 16)) (hexDigit (n % 16)) = n := by
  unfold hexNum
  rw [hexVal_hexDigit _ (Nat.mod_lt _ (by decide)), hexVal_hexDigit _ (Nat.mod_lt _ (by decide)),
    hexVal_hexDigit _ (Nat.mod_lt _ (by decide)), hexVal_hexDigit _ (Nat.mod_lt _ (by decide))]
  omega

/-- reads one escaped character back -/
def unescHead : List Char → Option (Char × List Char)
  | [] => none
  | c :: r =>
    if c ≠ '\\' then some (c, r)
    else
      match r with
      | [] => none
      | e :: r' =>
        if e = '"' then some ('"', r')
        else if e = '\\' then some ('\\', r')
        else if e = 'n' then some ('\n', r')
        else if e = 'r' then some ('\r', r')
        else if e = 't' then some ('\t', r')
        else if e = 'b' then some ('\x08', r')
        else if e = 'f' then some ('\x0c', r')
        else if e = 'u' then
          match r' with
          | a :: b :: c2 :: d :: r'' =>
            if 55296 ≤ hexNum a b c2 d ∧ hexNum a b c2 d < 56320 then
              match r'' with
              | s1 :: s2 :: a' :: b' :: c' :: d' :: r3 =>
                if s1 = '\\' ∧ s2 = 'u' then
                  some (Char.ofNat (65536 + (hexNum a b c2 d - 55296) * 1024 + (hexNum a' b' c' d' - 56320)), r3)
                else none
              | _ => none
            else some (Char.ofNat (hexNum a b c2 d), r'')
          | _ => none
        else none

theorem unescHead_escChar (c : Char) (x : List Char) : unescHead (escChar c ++ x) = some (c, x) := by
  have vc := char_valid c
  unfold escChar
  split
  · rename_i h; subst h; simp [unescHead]
  · split
    · rename_i h; subst h; simp [unescHead]
    · split
      · rename_i h; subst h; simp [unescHead]
      · split
        · rename_i h; subst h; simp [unescHead]
        · split
          · rename_i h; subst h; simp [unescHead]
          · split
            · rename_i h; subst h; simp [unescHead]
            · split
              · rename_i h; subst h; simp [unescHead]
              · split
                · rename_i h1 h2 _ _ _ _ _ _
                  simp [unescHead, h2]
                · split
                  · rename_i hlt
                    have hn := hexNum_hex4 c.toNat hlt
                    have hnot : ¬ (55296 ≤ c.toNat ∧ c.toNat < 56320) := by omega
                    simp only [hex4, List.cons_append, List.nil_append, unescHead, ne_eq, not_true_eq_false, if_false]
                    simp only [show ('u' : Char) ≠ '"' from by decide, show ('u' : Char) ≠ '\\' from by decide,
                      show ('u' : Char) ≠ 'n' from by decide, show ('u' : Char) ≠ 'r' from by decide,
                      show ('u' : Char) ≠ 't' from by decide, show ('u' : Char) ≠ 'b' from by decide,
                      show ('u' : Char) ≠ 'f' from by decide, if_false, if_true, hn, hnot]
                    simp [Char.ofNat_toNat]
                  · rename_i hge
                    have hhi : 55296 + (c.toNat - 65536) / 1024 < 65536 := by omega
                    have hlo : 56320 + (c.toNat - 65536) % 1024 < 65536 := by omega
                    have h1 := hexNum_hex4 _ hhi
                    have h2 := hexNum_hex4 _ hlo
                    have hin : 55296 ≤ 55296 + (c.toNat - 65536) / 1024 ∧ 55296 + (c.toNat - 65536) / 1024 < 56320 := by
                      omega
                    simp only [hex4, List.cons_append, List.nil_append, unescHead, ne_eq, not_true_eq_false, if_false]
                    simp only [show ('u' : Char) ≠ '"' from by decide, show ('u' : Char) ≠ '\\' from by decide,
                      show ('u' : Char) ≠ 'n' from by decide, show ('u' : Char) ≠ 'r' from by decide,
                      show ('u' : Char) ≠ 't' from by decide, show ('u' : Char) ≠ 'b' from by decide,
                      show ('u' : Char) ≠ 'f' from by decide, if_false, if_true, h1, h2, hin, and_self]
                    have e1 : 55296 + (c.toNat - 65536) / 1024 - 55296 = (c.toNat - 65536) / 1024 :=
                      Nat.add_sub_cancel_left _ _
                    have e2 : 56320 + (c.toNat - 65536) % 1024 - 56320 = (c.toNat - 65536) % 1024 :=
                      Nat.add_sub_cancel_left _ _
                    have e3 : 65536 + (c.toNat - 65536) / 1024 * 1024 + (c.toNat - 65536) % 1024 = c.toNat := by
                      have hd := Nat.div_add_mod' (c.toNat - 65536) 1024
                      have hge' : 65536 ≤ c.toNat := Nat.le_of_not_lt hge
                      rw [Nat.add_assoc, hd]
                      exact Nat.add_sub_cancel' hge'
                    simp only [e1, e2, e3, Char.ofNat_toNat]

/-- one escaped character can be read back in one way only -/
theorem escChar_prefix_free (c d : Char) (x y : List Char) (h : escChar c ++ x = escChar d ++ y) :
    c = d ∧ x = y := by
  have h1 := unescHead_escChar c x
  rw [h, unescHead_escChar d y] at h1
  simp at h1
  exact ⟨h1.1.symm, h1.2.symm⟩

/-- an escaped character never starts with a quote -/
theorem escChar_head (c : Char) (x y : List Char) : escChar c ++ x ≠ '"' :: y := by
  intro h
  have h1 := unescHead_escChar c x
  rw [h] at h1
  simp [unescHead] at h1
  obtain ⟨rfl, rfl⟩ := h1
  simp [escChar] at h

/-- **a quoted JSON string is self-delimiting and injective**: from `"…"` followed by anything, the string and
the rest are determined -/
theorem jsonStrC_inj : ∀ (s t x y : List Char), jsonStrC s ++ x = jsonStrC t ++ y → s = t ∧ x = y := by
  intro s t x y h
  simp only [jsonStrC, List.cons_append, List.cons.injEq, true_and, List.append_assoc] at h
  induction s generalizing t with
  | nil =>
    cases t with
    | nil => simpa [escChars] using h
    | cons d t' =>
      simp only [escChars, List.nil_append, List.append_assoc] at h
      exact absurd h.symm (escChar_head d _ _)
  | cons c s' ih =>
    cases t with
    | nil =>
      simp only [escChars, List.nil_append, List.append_assoc] at h
      exact absurd h (escChar_head c _ _)
    | cons d t' =>
      simp only [escChars, List.append_assoc] at h
      obtain ⟨rfl, h'⟩ := escChar_prefix_free c d _ _ h
      obtain ⟨rfl, hxy⟩ := ih t' h'
      exact ⟨rfl, hxy⟩

end Lena.C08
