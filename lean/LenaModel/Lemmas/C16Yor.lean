import LenaModel.Model.C16
import LenaModel.Lemmas.C16
import LenaModel.Lemmas.C16Acc
/-! # C16 — `fill`/`request` with `yield_on_remainder`

With `yield_on_remainder` every `request()` empties the adapter.  The values filled between two
requests are processed as the consecutive blocks of that segment, the last one possibly short. -/

namespace Lena.C16

variable {σ α β : Type}

section
variable (e : El σ α β) (N : Nat) (rst bi : Bool)

/-- the state a `request()` with `yield_on_remainder` leaves: nothing pending, nothing buffered -/
def zeroSt (el : σ) : St σ α β := { el := el, nCount := 0, bufIn := [], bufOut := [] }

/-- `request()` with `yield_on_remainder` is `request()` without it followed by the remainder step -/
theorem requestR_yor (s : St σ α β) :
    requestR e N rst bi true s =
      ((requestR e N rst bi false s).1 ++ (reqStep4 e rst true (requestR e N rst bi false s).2).1,
       (reqStep4 e rst true (requestR e N rst bi false s).2).2) := by
  rw [requestR_steps, requestR_steps]
  simp [reqStep4]

theorem runOps_fills (yor : Bool) (xs : List α) (s : St σ α β) :
    runOps e N rst bi yor (xs.map Op.fill) s = ([], xs.foldl (fillR e N rst bi) s) := by
  induction xs generalizing s with
  | nil => rfl
  | cons x r ih => simp [runOps, ih]

/-- fills from an empty adapter, then `request()` (`yield_on_remainder` off): the fill-by-fill reference -/
theorem fills_request (hN : 0 < N) (el : σ) (xs : List α) :
    requestR e N rst bi false (xs.foldl (fillR e N rst bi) (zeroSt el)) =
      ((blocks e N rst xs el 0).1,
       { el := (blocks e N rst xs el 0).2.1, nCount := (blocks e N rst xs el 0).2.2, bufIn := [], bufOut := [] }) := by
  have hz : Normal N (zeroSt el : St σ α β) := ⟨hN, rfl, rfl⟩
  have h := schedule_specN e N rst bi hN (xs.map Op.fill) (zeroSt el) (normal_inv bi hz)
  rw [runOps_fills, request_normal e N rst bi _ hz, fills_map_fill] at h
  simp only [List.flatten_nil, List.nil_append] at h
  have hb := specN_blocks e N rst bi hN xs el 0 hN
  rw [show ({ el := el, nCount := 0, bufIn := [], bufOut := [] } : St σ α β) = zeroSt el from rfl] at hb
  rw [hb] at h
  exact Prod.ext h.1 h.2

/-- the fill-by-fill reference followed by the remainder step: every block of the segment is emitted -/
theorem blocks_tail (hN : 0 < N) : ∀ (k : Nat) (xs : List α) (el : σ), xs.length ≤ k →
    ((blocks e N rst xs el 0).1 ++
        (reqStep4 e rst true
          ({ el := (blocks e N rst xs el 0).2.1, nCount := (blocks e N rst xs el 0).2.2, bufIn := [], bufOut := [] } : St σ α β)).1,
      (reqStep4 e rst true
          ({ el := (blocks e N rst xs el 0).2.1, nCount := (blocks e N rst xs el 0).2.2, bufIn := [], bufOut := [] } : St σ α β)).2)
      = ((emitAll e rst el (chunks N xs)).1, zeroSt (emitAll e rst el (chunks N xs)).2)
  | 0, xs, el, h => by
    have : xs = [] := List.length_eq_zero_iff.mp (by omega)
    subst this
    simp [blocks, reqStep4, chunks_nil, emitAll, zeroSt]
  | k + 1, xs, el, h => by
    by_cases hx : xs = []
    · subst hx; simp [blocks, reqStep4, chunks_nil, emitAll, zeroSt]
    · have hpos : 0 < xs.length := List.length_pos_iff.mpr hx
      rw [chunks_cons N hN xs hx]
      by_cases hlen : xs.length < N
      · have hb := blocks_fold e N rst xs [] el 0 (by omega)
        simp only [List.append_nil, blocks, Nat.zero_add] at hb
        have htake : xs.take N = xs := List.take_of_length_le (by omega)
        have hdrop : xs.drop N = [] := List.drop_eq_nil_of_le (by omega)
        have hne : (xs.length != 0) = true := by simp; omega
        rw [hb, htake, hdrop, chunks_nil]
        simp [reqStep4, hne, emit, emitAll, zeroSt]
      · have htl : (xs.take N).length = N := by simp; omega
        have hsplit : xs = xs.take N ++ xs.drop N := (List.take_append_drop N xs).symm
        have ih := blocks_tail hN k (xs.drop N)
          (if rst then e.reset (e.req ((xs.take N).foldl e.fill el)).2 else (e.req ((xs.take N).foldl e.fill el)).2)
          (by simp; omega)
        have hfull := blocks_full e N rst (xs.take N) (xs.drop N) el htl hN
        rw [← hsplit] at hfull
        rw [hfull]
        simp only [emitAll]
        have ih1 := congrArg Prod.fst ih
        have ih2 := congrArg Prod.snd ih
        simp only at ih1 ih2
        rw [← ih1, ← ih2, List.append_assoc]

/-- **one segment**: fills from an empty adapter, then `request()` with `yield_on_remainder` -/
theorem segment_yor (hN : 0 < N) (el : σ) (xs : List α) :
    requestR e N rst bi true (xs.foldl (fillR e N rst bi) (zeroSt el)) =
      ((emitAll e rst el (chunks N xs)).1, zeroSt (emitAll e rst el (chunks N xs)).2) := by
  rw [requestR_yor, fills_request e N rst bi hN]
  exact blocks_tail e N rst hN _ xs el (Nat.le_refl _)

end
end Lena.C16
