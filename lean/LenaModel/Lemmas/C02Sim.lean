import LenaModel.Lemmas.C02
/-! # C02 — prefix determinacy: a pipeline cannot tell an infinite input from a long enough prefix

A pipeline over an input `g1` behaves exactly like the same pipeline over a *truncated* input `g2`
(one that ends where `g1` goes on) for as long as the truncated input has not reported its end.
This is a simulation argument: every stage is natural in its upstream generator — its loop body
looks at upstream only through the outcome of `next`.

`Sim g1 g2 fu R dead`: `R` relates states of the two generators; from related states `next` gives
related outcomes, unless the outcome of `g2` is `dead` (the truncation has been observed); `dead`
states stay dead.  -/

namespace Lena.C02

variable {σ1 σ2 τ1 τ2 α β : Type}

/-- related outcomes of `next` -/
def OutRel (R : σ1 → σ2 → Prop) : Out σ1 α → Out σ2 α → Prop
  | .item a s1, .item a' s2 => a = a' ∧ R s1 s2
  | .done s1, .done s2 => R s1 s2
  | _, _ => False

/-- the outcome of the truncated generator is dead (or not an outcome of Python at all) -/
def OutDead (dead : σ2 → Prop) : Out σ2 α → Prop
  | .item _ s2 => dead s2
  | .done s2 => dead s2
  | .fuel => True
  | .error _ => True

structure Sim (g1 : Gen σ1 α) (g2 : Gen σ2 α) (fu : Nat) (R : σ1 → σ2 → Prop) (dead : σ2 → Prop) : Prop where
  step : ∀ s1 s2, R s1 s2 → OutRel R (g1.next fu s1) (g2.next fu s2) ∨ OutDead dead (g2.next fu s2)
  mono : ∀ s2, dead s2 → OutDead dead (g2.next fu s2)

/-- related results of a loop iteration -/
def StepRel (R : τ1 → τ2 → Prop) : Step τ1 β → Step τ2 β → Prop
  | .yield b t1, .yield b' t2 => b = b' ∧ R t1 t2
  | .stop t1, .stop t2 => R t1 t2
  | .cont t1, .cont t2 => R t1 t2
  | _, _ => False

def StepDead (dead : τ2 → Prop) : Step τ2 β → Prop
  | .yield _ t => dead t
  | .stop t => dead t
  | .cont t => dead t
  | .fuel => True
  | .error _ => True

structure StepSim (st1 : τ1 → Step τ1 β) (st2 : τ2 → Step τ2 β) (R : τ1 → τ2 → Prop) (dead : τ2 → Prop) : Prop where
  step : ∀ t1 t2, R t1 t2 → StepRel R (st1 t1) (st2 t2) ∨ StepDead dead (st2 t2)
  mono : ∀ t2, dead t2 → StepDead dead (st2 t2)

theorem iter_dead {st2 : τ2 → Step τ2 β} {dead : τ2 → Prop} (hmono : ∀ t2, dead t2 → StepDead dead (st2 t2)) :
    ∀ (n : Nat) (t2 : τ2), dead t2 → OutDead dead (iter st2 n t2)
  | 0, _, _ => trivial
  | n + 1, t2, hd => by
    have := hmono t2 hd
    rw [iter]
    cases h : st2 t2 with
    | yield b t => rw [h] at this; exact this
    | stop t => rw [h] at this; exact this
    | cont t => rw [h] at this; exact iter_dead hmono n t this
    | fuel => trivial
    | error e => trivial

theorem iter_sim {st1 : τ1 → Step τ1 β} {st2 : τ2 → Step τ2 β} {R : τ1 → τ2 → Prop} {dead : τ2 → Prop}
    (h : StepSim st1 st2 R dead) :
    ∀ (n : Nat) (t1 : τ1) (t2 : τ2), R t1 t2 → OutRel R (iter st1 n t1) (iter st2 n t2) ∨ OutDead dead (iter st2 n t2)
  | 0, _, _, _ => Or.inr trivial
  | n + 1, t1, t2, hR => by
    rcases h.step t1 t2 hR with hrel | hdead
    · rw [iter, iter]
      cases h1 : st1 t1 <;> cases h2 : st2 t2 <;> rw [h1, h2] at hrel <;> simp only [StepRel] at hrel
      · exact Or.inl hrel
      · exact Or.inl hrel
      · exact iter_sim h n _ _ hrel
    · right
      rw [iter]
      cases h2 : st2 t2 with
      | yield b t => rw [h2] at hdead; exact hdead
      | stop t => rw [h2] at hdead; exact hdead
      | cont t => rw [h2] at hdead; exact iter_dead h.mono n t hdead
      | fuel => trivial
      | error e => trivial

/-- a generator given by a loop body is natural if the loop body is -/
theorem sim_ofStep {step1 : Nat → τ1 → Step τ1 β} {step2 : Nat → τ2 → Step τ2 β} {fu : Nat}
    {R : τ1 → τ2 → Prop} {dead : τ2 → Prop} (h : StepSim (step1 fu) (step2 fu) R dead) :
    Sim (ofStep step1) (ofStep step2) fu R dead :=
  ⟨fun t1 t2 hR => iter_sim h fu t1 t2 hR, fun t2 hd => iter_dead h.mono fu t2 hd⟩

/-- the relation and the dead states of a stage: those of its upstream, with equal local state -/
def liftR {L : Type} (R : σ1 → σ2 → Prop) : σ1 × L → σ2 × L → Prop := fun t1 t2 => R t1.1 t2.1 ∧ t1.2 = t2.2
def liftDead {L : Type} (dead : σ2 → Prop) : σ2 × L → Prop := fun t2 => dead t2.1

theorem Sim.cases {g1 : Gen σ1 α} {g2 : Gen σ2 α} {fu : Nat} {R : σ1 → σ2 → Prop} {dead : σ2 → Prop}
    (h : Sim g1 g2 fu R dead) {s1 : σ1} {s2 : σ2} (hR : R s1 s2) :
    (∃ a s1' s2', g1.next fu s1 = .item a s1' ∧ g2.next fu s2 = .item a s2' ∧ R s1' s2') ∨
    (∃ s1' s2', g1.next fu s1 = .done s1' ∧ g2.next fu s2 = .done s2' ∧ R s1' s2') ∨
    OutDead dead (g2.next fu s2) := by
  rcases h.step s1 s2 hR with hrel | hd
  · cases h1 : g1.next fu s1 <;> cases h2 : g2.next fu s2 <;> rw [h1, h2] at hrel <;> simp only [OutRel] at hrel
    · obtain ⟨rfl, hr⟩ := hrel
      exact Or.inl ⟨_, _, _, rfl, rfl, hr⟩
    · exact Or.inr (Or.inl ⟨_, _, rfl, rfl, hrel⟩)
  · exact Or.inr (Or.inr hd)

section stages
variable {up1 : Gen σ1 α} {up2 : Gen σ2 α} {fu : Nat} {R : σ1 → σ2 → Prop} {dead : σ2 → Prop}

theorem map_sim (f : α → β) (h : Sim up1 up2 fu R dead) : Sim (mapG f up1) (mapG f up2) fu R dead := by
  constructor
  · intro s1 s2 hR
    rcases h.cases hR with ⟨a, s1', s2', h1, h2, hr⟩ | ⟨s1', s2', h1, h2, hr⟩ | hd
    · left; simp [mapG, h1, h2, OutRel, hr]
    · left; simp [mapG, h1, h2, OutRel, hr]
    · right
      revert hd
      cases h2 : up2.next fu s2 <;> intro hd <;> simp_all [mapG, OutDead]
  · intro s2 hd
    have := h.mono s2 hd
    revert this
    cases h2 : up2.next fu s2 <;> intro hd <;> simp_all [mapG, OutDead]

theorem filter_stepSim (p : α → Bool) (h : Sim up1 up2 fu R dead) :
    StepSim (filterStep p up1 fu) (filterStep p up2 fu) R dead := by
  constructor
  · intro s1 s2 hR
    rcases h.cases hR with ⟨a, s1', s2', h1, h2, hr⟩ | ⟨s1', s2', h1, h2, hr⟩ | hd
    · left
      simp only [filterStep, h1, h2]
      split <;> simp_all [StepRel]
    · left
      simp [filterStep, h1, h2, StepRel, hr]
    · right
      revert hd
      cases h2 : up2.next fu s2 <;> intro hd <;> simp only [filterStep, h2] <;>
        (repeat' split) <;> simp_all [StepDead, OutDead]
  · intro s2 hd
    have := h.mono s2 hd
    revert this
    cases h2 : up2.next fu s2 <;> intro hd <;> simp only [filterStep, h2] <;>
      (repeat' split) <;> simp_all [StepDead, OutDead]

/-- the common shape: a loop iteration that pulls once.  `tac` closes the goals after the step function
has been unfolded with the upstream outcomes. -/
theorem pull_stepSim {L : Type} (step : {σ : Type} → Gen σ α → Nat → σ × L → Step (σ × L) β)
    (h : Sim up1 up2 fu R dead) (l : L) {s1 : σ1} {s2 : σ2} (hR : R s1 s2)
    (hitem : ∀ a s1' s2', up1.next fu s1 = .item a s1' → up2.next fu s2 = .item a s2' →
      (R s1' s2' → StepRel (liftR R) (step up1 fu (s1, l)) (step up2 fu (s2, l))) ∧
      (dead s2' → StepDead (liftDead dead) (step up2 fu (s2, l))))
    (hdone : ∀ s1' s2', up1.next fu s1 = .done s1' → up2.next fu s2 = .done s2' →
      (R s1' s2' → StepRel (liftR R) (step up1 fu (s1, l)) (step up2 fu (s2, l))))
    (hdead : OutDead dead (up2.next fu s2) → StepDead (liftDead dead) (step up2 fu (s2, l))) :
    StepRel (liftR R) (step up1 fu (s1, l)) (step up2 fu (s2, l)) ∨
      StepDead (liftDead dead) (step up2 fu (s2, l)) := by
  rcases h.cases hR with ⟨a, s1', s2', h1, h2, hr⟩ | ⟨s1', s2', h1, h2, hr⟩ | hd
  · exact Or.inl ((hitem a s1' s2' h1 h2).1 hr)
  · exact Or.inl (hdone s1' s2' h1 h2 hr)
  · exact Or.inr (hdead hd)

theorem runIf_stepSim {ι : Type} (sel : α → Bool) (inner : ι → α → List α × ι) (h : Sim up1 up2 fu R dead) :
    StepSim (runIfStep sel inner up1 fu) (runIfStep sel inner up2 fu) (liftR R) (liftDead dead) := by
  constructor
  · rintro ⟨s1, l⟩ ⟨s2, l2⟩ ⟨hR, hl⟩
    simp only at hR hl
    subst hl
    obtain ⟨pend, i⟩ := l
    cases pend with
    | cons x r => left; simp [runIfStep, StepRel, liftR, hR]
    | nil =>
      rcases h.cases hR with ⟨a, s1', s2', h1, h2, hr⟩ | ⟨s1', s2', h1, h2, hr⟩ | hd
      · left
        simp only [runIfStep, h1, h2]
        split <;> simp_all [StepRel, liftR]
      · left
        simp [runIfStep, h1, h2, StepRel, liftR, hr]
      · right
        revert hd
        cases h2 : up2.next fu s2 <;> intro hd <;> simp only [runIfStep, h2] <;>
          (repeat' split) <;> simp_all [StepDead, OutDead, liftDead]
  · rintro ⟨s2, pend, i⟩ hd
    simp only [liftDead] at hd
    have := h.mono s2 hd
    cases pend with
    | cons x r => simpa [runIfStep, StepDead, liftDead] using hd
    | nil =>
      revert this
      cases h2 : up2.next fu s2 <;> intro hd' <;> simp only [runIfStep, h2] <;>
        (repeat' split) <;> simp_all [StepDead, OutDead, liftDead]

theorem islice_stepSim (stop : Option Nat) (step : Nat) (h : Sim up1 up2 fu R dead) :
    StepSim (isliceStep stop step up1 fu) (isliceStep stop step up2 fu) (liftR R) (liftDead dead) := by
  constructor
  · rintro ⟨s1, l⟩ ⟨s2, l2⟩ ⟨hR, hl⟩
    simp only at hR hl
    subst hl
    by_cases hlive : l.live = true
    · by_cases hlt : l.cnt < l.next
      · rcases h.cases hR with ⟨a, s1', s2', h1, h2, hr⟩ | ⟨s1', s2', h1, h2, hr⟩ | hd
        · left; simp [isliceStep, hlive, hlt, h1, h2, StepRel, liftR, hr]
        · left; simp [isliceStep, hlive, hlt, h1, h2, StepRel, liftR, hr]
        · right
          revert hd
          cases h2 : up2.next fu s2 <;> intro hd <;> simp_all [isliceStep, StepDead, OutDead, liftDead]
      · by_cases hr' : reached stop l.cnt = true
        · left; simp [isliceStep, hlive, hlt, hr', StepRel, liftR, hR]
        · rcases h.cases hR with ⟨a, s1', s2', h1, h2, hr⟩ | ⟨s1', s2', h1, h2, hr⟩ | hd
          · left; simp [isliceStep, hlive, hlt, hr', h1, h2, StepRel, liftR, hr]
          · left; simp [isliceStep, hlive, hlt, hr', h1, h2, StepRel, liftR, hr]
          · right
            revert hd
            cases h2 : up2.next fu s2 <;> intro hd <;>
              simp [isliceStep, hlive, hlt, hr', h2, StepDead, liftDead] <;> simp_all [OutDead]
    · left; simp [isliceStep, hlive, StepRel, liftR, hR]
  · rintro ⟨s2, l⟩ hd
    simp only [liftDead] at hd
    have := h.mono s2 hd
    revert this
    cases h2 : up2.next fu s2 <;> intro hd' <;> simp only [isliceStep, h2] <;>
      (repeat' split) <;> simp_all [StepDead, OutDead, liftDead]

theorem count_stepSim (mark : Nat → α → α) (h : Sim up1 up2 fu R dead) :
    StepSim (countStep mark up1 fu) (countStep mark up2 fu) (liftR R) (liftDead dead) := by
  constructor
  · rintro ⟨s1, l⟩ ⟨s2, l2⟩ ⟨hR, hl⟩
    simp only at hR hl
    subst hl
    cases l with
    | finished => left; simp [countStep, StepRel, liftR, hR]
    | start =>
      rcases h.cases hR with ⟨a, s1', s2', h1, h2, hr⟩ | ⟨s1', s2', h1, h2, hr⟩ | hd
      · left; simp [countStep, h1, h2, StepRel, liftR, hr]
      · left; simp [countStep, h1, h2, StepRel, liftR, hr]
      · right
        revert hd
        cases h2 : up2.next fu s2 <;> intro hd <;> simp_all [countStep, StepDead, OutDead, liftDead]
    | running prev c =>
      rcases h.cases hR with ⟨a, s1', s2', h1, h2, hr⟩ | ⟨s1', s2', h1, h2, hr⟩ | hd
      · left; simp [countStep, h1, h2, StepRel, liftR, hr]
      · left; simp [countStep, h1, h2, StepRel, liftR, hr]
      · right
        revert hd
        cases h2 : up2.next fu s2 <;> intro hd <;> simp_all [countStep, StepDead, OutDead, liftDead]
  · rintro ⟨s2, l⟩ hd
    simp only [liftDead] at hd
    have := h.mono s2 hd
    revert this
    cases l <;> cases h2 : up2.next fu s2 <;> intro hd' <;> simp_all [countStep, StepDead, OutDead, liftDead]

theorem neg_stepSim (start stop : Option Int) (h : Sim up1 up2 fu R dead) :
    StepSim (negStep start stop up1 fu) (negStep start stop up2 fu) (liftR R) (liftDead dead) := by
  constructor
  · rintro ⟨s1, l⟩ ⟨s2, l2⟩ ⟨hR, hl⟩
    simp only at hR hl
    subst hl
    rcases h.cases hR with ⟨a, s1', s2', h1, h2, hr⟩ | ⟨s1', s2', h1, h2, hr⟩ | hd
    · cases l <;> simp only [negStep, afterFill, h1, h2] <;> (repeat' split) <;>
        first
          | (left; simp_all [StepRel, liftR]; done)
          | (right; simp_all [StepDead, liftDead]; done)
    · cases l <;> simp only [negStep, afterFill, h1, h2] <;> (repeat' split) <;>
        first
          | (left; simp_all [StepRel, liftR]; done)
          | (right; simp_all [StepDead, liftDead]; done)
    · revert hd
      cases h2 : up2.next fu s2 <;> intro hd <;> cases l <;> simp only [negStep, afterFill, h2] <;>
        (repeat' split) <;>
        first
          | (right; simp_all [StepDead, OutDead, liftDead]; done)
          | (left; simp_all [StepRel, liftR]; done)
  · rintro ⟨s2, l⟩ hd
    simp only [liftDead] at hd
    have := h.mono s2 hd
    revert this
    cases h2 : up2.next fu s2 <;> intro hd' <;> cases l <;> simp only [negStep, afterFill, h2] <;>
      (repeat' split) <;> simp_all [StepDead, OutDead, liftDead]

theorem split_stepSim {σb : Type} (bufsize : Option Nat) (copyBuf : Bool) (h : Sim up1 up2 fu R dead) :
    StepSim (splitStep (σb := σb) bufsize copyBuf up1 fu) (splitStep bufsize copyBuf up2 fu) (liftR R)
      (liftDead dead) := by
  constructor
  · rintro ⟨s1, l⟩ ⟨s2, l2⟩ ⟨hR, hl⟩
    simp only at hR hl
    subst hl
    rcases h.cases hR with ⟨a, s1', s2', h1, h2, hr⟩ | ⟨s1', s2', h1, h2, hr⟩ | hd
    · simp only [splitStep, processBlock, h1, h2]
      (repeat' split) <;>
        first
          | (left; simp_all [StepRel, liftR]; done)
          | (right; simp_all [StepDead, liftDead]; done)
    · simp only [splitStep, processBlock, h1, h2]
      (repeat' split) <;>
        first
          | (left; simp_all [StepRel, liftR]; done)
          | (right; simp_all [StepDead, liftDead]; done)
    · revert hd
      cases h2 : up2.next fu s2 <;> intro hd <;> simp only [splitStep, processBlock, h2] <;>
        (repeat' split) <;>
        first
          | (right; simp_all [StepDead, OutDead, liftDead]; done)
          | (left; simp_all [StepRel, liftR]; done)
  · rintro ⟨s2, l⟩ hd
    simp only [liftDead] at hd
    have := h.mono s2 hd
    revert this
    cases h2 : up2.next fu s2 <;> intro hd' <;> simp only [splitStep, processBlock, h2] <;>
      (repeat' split) <;> simp_all [StepDead, OutDead, liftDead]

end stages

/-! ## pipelines -/

/-- two pipelines (the same elements over two inputs) are related: the second is the truncated one;
its dead states are those whose clock has passed `n` -/
def PipeSim (fu n : Nat) (p1 p2 : Pipe α) : Prop :=
  ∃ (R : p1.σ → p2.σ → Prop) (dead : p2.σ → Prop), Sim p1.gen p2.gen fu R dead ∧ R p1.st p2.st ∧
    (∀ s1 s2, R s1 s2 → p1.clock s1 = p2.clock s2) ∧ (∀ s2, dead s2 → n < p2.clock s2)

theorem stage_pipeSim (st : Stage α) (fu n : Nat) (p1 p2 : Pipe α) (h : PipeSim fu n p1 p2) :
    PipeSim fu n (st.run p1) (st.run p2) := by
  obtain ⟨R, dead, hs, h0, hc, hd⟩ := h
  cases st with
  | map f => exact ⟨R, dead, map_sim f hs, h0, hc, hd⟩
  | filter q => exact ⟨R, dead, sim_ofStep (filter_stepSim q hs), h0, hc, hd⟩
  | islice a b s =>
    exact ⟨liftR R, liftDead dead, sim_ofStep (islice_stepSim b s hs), ⟨h0, rfl⟩,
      fun s1 s2 hr => hc _ _ hr.1, fun s2 h' => hd _ h'⟩
  | negslice a b s =>
    simp only [Stage.run]
    split
    · exact ⟨liftR R, liftDead dead, sim_ofStep (neg_stepSim a b hs), ⟨h0, rfl⟩,
        fun s1 s2 hr => hc _ _ hr.1, fun s2 h' => hd _ h'⟩
    · exact ⟨liftR (liftR R), liftDead (liftDead dead),
        sim_ofStep (islice_stepSim none s (sim_ofStep (neg_stepSim a b hs))), ⟨⟨h0, rfl⟩, rfl⟩,
        fun s1 s2 hr => hc _ _ hr.1.1, fun s2 h' => hd _ h'⟩
  | count mark =>
    exact ⟨liftR R, liftDead dead, sim_ofStep (count_stepSim mark hs), ⟨h0, rfl⟩,
      fun s1 s2 hr => hc _ _ hr.1, fun s2 h' => hd _ h'⟩
  | runIf ι init sel inner =>
    exact ⟨liftR R, liftDead dead, sim_ofStep (runIf_stepSim sel inner hs), ⟨h0, rfl⟩,
      fun s1 s2 hr => hc _ _ hr.1, fun s2 h' => hd _ h'⟩
  | split σb brs bufsize copyBuf =>
    simp only [Stage.run]
    split
    · exact ⟨R, dead, map_sim id hs, h0, hc, hd⟩
    · exact ⟨liftR R, liftDead dead, sim_ofStep (split_stepSim bufsize copyBuf hs), ⟨h0, rfl⟩,
        fun s1 s2 hr => hc _ _ hr.1, fun s2 h' => hd _ h'⟩

theorem seq_pipeSim (els : List (Stage α)) (fu n : Nat) (p1 p2 : Pipe α) (h : PipeSim fu n p1 p2) :
    PipeSim fu n (seqRun els p1) (seqRun els p2) := by
  induction els generalizing p1 p2 with
  | nil => exact h
  | cons e es ih => exact ih _ _ (stage_pipeSim e fu n p1 p2 h)

/-! ## the consumer cannot tell the difference while the truncated run stays below `n` -/

theorem take_dead {g2 : Gen σ2 α} {fu : Nat} {dead : σ2 → Prop} {c2 : σ2 → Nat} {n : Nat}
    (hmono : ∀ s2, dead s2 → OutDead dead (g2.next fu s2)) (hd : ∀ s2, dead s2 → n < c2 s2) :
    ∀ (k : Nat) (s2 : σ2), dead s2 → n < (takeG g2 c2 fu k s2).2.2
  | 0, s2, h => hd s2 h
  | k + 1, s2, h => by
    have := hmono s2 h
    rw [takeG]
    cases h2 : g2.next fu s2 with
    | item a s' => rw [h2] at this; exact take_dead hmono hd k s' this
    | done s' => rw [h2] at this; exact hd s' this
    | fuel => exact hd s2 h
    | error e => exact hd s2 h

theorem take_sim {g1 : Gen σ1 α} {g2 : Gen σ2 α} {fu : Nat} {R : σ1 → σ2 → Prop} {dead : σ2 → Prop}
    {c1 : σ1 → Nat} {c2 : σ2 → Nat} {n : Nat} (h : Sim g1 g2 fu R dead)
    (hc : ∀ s1 s2, R s1 s2 → c1 s1 = c2 s2) (hd : ∀ s2, dead s2 → n < c2 s2) :
    ∀ (k : Nat) (s1 : σ1) (s2 : σ2), R s1 s2 → (takeG g2 c2 fu k s2).2.2 ≤ n →
      (takeG g2 c2 fu k s2).2.1 ≠ Ending.fuel → (∀ e, (takeG g2 c2 fu k s2).2.1 ≠ Ending.error e) →
      takeG g1 c1 fu k s1 = takeG g2 c2 fu k s2
  | 0, s1, s2, hR, _, _, _ => by simp [takeG, hc s1 s2 hR]
  | k + 1, s1, s2, hR, hn, hf, he => by
    rcases h.cases hR with ⟨a, s1', s2', h1, h2, hr⟩ | ⟨s1', s2', h1, h2, hr⟩ | hdd
    · simp only [takeG, h1, h2] at hn hf he ⊢
      rw [take_sim h hc hd k s1' s2' hr hn hf he, hc s1' s2' hr]
    · simp [takeG, h1, h2, hc s1' s2' hr]
    · exfalso
      rw [takeG] at hn hf he
      cases h2 : g2.next fu s2 with
      | item a s' =>
        rw [h2] at hdd hn
        have := take_dead h.mono hd k s' hdd
        simp only at hn
        omega
      | done s' =>
        rw [h2] at hdd hn
        have := hd s' hdd
        simp only at hn
        omega
      | fuel => rw [h2] at hf; exact hf rfl
      | error e => rw [h2] at he; exact he e rfl

end Lena.C02
