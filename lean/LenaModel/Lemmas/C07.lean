import LenaModel.Model.C07
/-! # C07 — helper lemmas -/
