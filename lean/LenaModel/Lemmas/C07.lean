import LenaModel.Model.C07
/-! # C07 — helper lemmas: containment order, intersection as greatest lower bound, difference = specification -/
namespace Lena.C07
open Lena Lena.Val
variable {α : Type} [DecidableEq α]

/-! ### containment: order laws -/

theorem contO_refl (lv : Int) : ∀ x : Option (Val α), contO lv x x = true
  | none => by rw [contO]
  | some (.leaf a) => by simp [contO]
  | some (.dict x) => by simp [contO]

theorem contL_refl (lv : Int) : ∀ a : Slots α, contL lv a a = true
  | [] => by simp [contL]
  | x :: r => by simp [contL, contO_refl lv x, contL_refl lv r]

/-- `contL` treats a missing slot as an absent key -/
theorem contL_cons_left (lv : Int) (x : Option (Val α)) (r b : Slots α) :
    contL lv (x :: r) b = (contO lv x b.head?.join && contL lv r b.tail) := by
  cases b <;> simp [contL]

/-- a vector contained in the empty one has no keys, so it is contained in everything -/
theorem contL_of_nil (lv : Int) : ∀ (a c : Slots α), contL lv a [] = true → contL lv a c = true
  | [], _, _ => by simp [contL]
  | none :: r, [], h => h
  | none :: r, z :: c, h => by
      simp [contL] at h ⊢
      exact ⟨by rw [contO], contL_of_nil lv r c h.2⟩
  | some v :: r, _, h => by simp [contL, contO] at h

mutual
theorem contO_trans (lv : Int) : ∀ x y z : Option (Val α),
    contO lv x y = true → contO lv y z = true → contO lv x z = true
  | none, _, _, _, _ => by rw [contO]
  | some _, none, _, h, _ => by simp [contO] at h
  | some _, some _, none, _, h => by simp [contO] at h
  | some (.leaf a), some (.leaf b), some (.leaf c), h1, h2 => by
      simp [contO] at h1 h2 ⊢; simp [h1, h2]
  | some (.leaf a), some (.leaf b), some (.dict c), _, h2 => by simp [contO] at h2
  | some (.leaf a), some (.dict b), _, h1, _ => by simp [contO] at h1
  | some (.dict a), some (.leaf b), _, h1, _ => by simp [contO] at h1
  | some (.dict a), some (.dict b), some (.leaf c), _, h2 => by simp [contO] at h2
  | some (.dict a), some (.dict b), some (.dict c), h1, h2 => by
      simp [contO] at h1 h2 ⊢
      rcases h1 with h1 | ⟨hl, h1⟩
      · subst h1; exact h2
      · rcases h2 with h2 | ⟨_, h2⟩
        · subst h2; exact Or.inr ⟨hl, h1⟩
        · exact Or.inr ⟨hl, contL_trans (lv - 1) a b c h1 h2⟩
theorem contL_trans (lv : Int) : ∀ a b c : Slots α,
    contL lv a b = true → contL lv b c = true → contL lv a c = true
  | [], _, _, _, _ => by simp [contL]
  | x :: r, [], c, h1, _ => by
      exact contL_of_nil lv _ c h1
  | x :: r, y :: r', [], h1, h2 => by
      simp [contL] at h1 h2 ⊢
      exact ⟨contO_trans lv x y none h1.1 h2.1, contL_trans lv r r' [] h1.2 h2.2⟩
  | x :: r, y :: r', z :: r'', h1, h2 => by
      simp [contL] at h1 h2 ⊢
      exact ⟨contO_trans lv x y z h1.1 h2.1, contL_trans lv r r' r'' h1.2 h2.2⟩
end


/-! ### well-formedness helpers -/

omit [DecidableEq α] in
theorem WFL_cons (n : Nat) (x : Option (Val α)) (r : Slots α) :
    WFL n (x :: r) ↔ WFO n x ∧ WFL n r := by
  cases x <;> simp [WFL, WFO]

omit [DecidableEq α] in
theorem WFO_dict (n : Nat) (x : Slots α) : WFO n (some (.dict x)) ↔ x.length = n ∧ WFL n x := by
  simp [WFO, WF]

mutual
theorem contO_antisymm (lv : Int) (n : Nat) : ∀ x y : Option (Val α), WFO n x → WFO n y →
    contO lv x y = true → contO lv y x = true → x = y
  | none, none, _, _, _, _ => rfl
  | none, some _, _, _, _, h => by simp [contO] at h
  | some _, none, _, _, h, _ => by simp [contO] at h
  | some (.leaf a), some (.leaf b), _, _, h, _ => by simp [contO] at h; simp [h]
  | some (.leaf a), some (.dict b), _, _, h, _ => by simp [contO] at h
  | some (.dict a), some (.leaf b), _, _, h, _ => by simp [contO] at h
  | some (.dict a), some (.dict b), wa, wb, h1, h2 => by
      simp [contO] at h1 h2
      rcases h1 with h1 | ⟨_, h1⟩
      · simp [h1]
      · rcases h2 with h2 | ⟨_, h2⟩
        · simp [h2]
        · rw [WFO_dict] at wa wb
          have := contL_antisymm (lv - 1) n a b (by omega) wa.2 wb.2 h1 h2
          simp [this]
theorem contL_antisymm (lv : Int) (n : Nat) : ∀ a b : Slots α, a.length = b.length → WFL n a → WFL n b →
    contL lv a b = true → contL lv b a = true → a = b
  | [], [], _, _, _, _, _ => rfl
  | [], _ :: _, h, _, _, _, _ => by simp at h
  | _ :: _, [], h, _, _, _, _ => by simp at h
  | x :: r, y :: r', hl, wa, wb, h1, h2 => by
      rw [WFL_cons] at wa wb
      simp [contL] at h1 h2
      rw [contO_antisymm lv n x y wa.1 wb.1 h1.1 h2.1,
        contL_antisymm lv n r r' (by simpa using hl) wa.2 wb.2 h1.2 h2.2]
end

/-! ### intersection of two: lower bound and greatest -/

theorem interL_length (lv : Int) : ∀ a b : Slots α, (interL lv a b).length = a.length
  | [], _ => by simp [interL]
  | _ :: r, [] => by simp [interL, interL_length lv r []]
  | _ :: r, _ :: r' => by simp [interL, interL_length lv r r']

mutual
theorem interO_lower_left (lv : Int) : ∀ x y : Option (Val α), contO lv (interO lv x y) x = true
  | none, _ => by simp [interO, contO]
  | some v, none => by simp [interO, contO]
  | some (.leaf a), some (.leaf b) => by
      by_cases e : b = a <;> simp [interO, contO, e]
  | some (.leaf a), some (.dict y) => by simp [interO, contO]
  | some (.dict x), some (.leaf b) => by simp [interO, contO]
  | some (.dict x), some (.dict y) => by
      by_cases e : y = x
      · simp [interO, contO, e]
      · by_cases h1 : lv = 1
        · simp [interO, contO, e, h1]
        · have h0 : ¬ (lv - 1 = 0) := by omega
          simp [interO, contO, e, h1, h0, interL_lower_left (lv - 1) x y]
theorem interL_lower_left (lv : Int) : ∀ a b : Slots α, contL lv (interL lv a b) a = true
  | [], _ => by simp [interL, contL]
  | x :: r, [] => by simp [interL, contL, interO_lower_left lv x none, interL_lower_left lv r []]
  | x :: r, y :: r' => by simp [interL, contL, interO_lower_left lv x y, interL_lower_left lv r r']
end

mutual
theorem interO_lower_right (lv : Int) : ∀ x y : Option (Val α), contO lv (interO lv x y) y = true
  | none, _ => by simp [interO, contO]
  | some v, none => by simp [interO, contO]
  | some (.leaf a), some (.leaf b) => by
      by_cases e : b = a <;> simp [interO, contO, e]
  | some (.leaf a), some (.dict y) => by simp [interO, contO]
  | some (.dict x), some (.leaf b) => by simp [interO, contO]
  | some (.dict x), some (.dict y) => by
      by_cases e : y = x
      · simp [interO, contO, e]
      · by_cases h1 : lv = 1
        · simp [interO, contO, e, h1]
        · have h0 : ¬ (lv - 1 = 0) := by omega
          simp [interO, contO, e, h1, h0, interL_lower_right (lv - 1) x y]
theorem interL_lower_right (lv : Int) : ∀ a b : Slots α, contL lv (interL lv a b) b = true
  | [], _ => by simp [interL, contL]
  | x :: r, [] => by
      have := interL_lower_right lv r []
      simp [interL, contL, interO_lower_right lv x none, this]
  | x :: r, y :: r' => by simp [interL, contL, interO_lower_right lv x y, interL_lower_right lv r r']
end

mutual
theorem interO_greatest (lv : Int) : ∀ c x y : Option (Val α),
    contO lv c x = true → contO lv c y = true → contO lv c (interO lv x y) = true
  | none, _, _, _, _ => by rw [contO]
  | some _, none, _, h, _ => by simp [contO] at h
  | some _, some _, none, _, h => by simp [contO] at h
  | some (.leaf c), some (.leaf a), some (.leaf b), h1, h2 => by
      simp [contO] at h1 h2; subst h1; subst h2; simp [interO, contO]
  | some (.leaf c), some (.leaf a), some (.dict b), _, h2 => by simp [contO] at h2
  | some (.leaf c), some (.dict a), _, h1, _ => by simp [contO] at h1
  | some (.dict c), some (.leaf a), _, h1, _ => by simp [contO] at h1
  | some (.dict c), some (.dict a), some (.leaf b), _, h2 => by simp [contO] at h2
  | some (.dict c), some (.dict x), some (.dict y), h1, h2 => by
      by_cases e : y = x
      · subst e; simpa [interO] using h1
      · simp [contO] at h1 h2
        by_cases hl : lv = 1
        · exfalso
          rcases h1 with h1 | ⟨h, _⟩
          · rcases h2 with h2 | ⟨h, _⟩
            · exact e (h2.symm.trans h1)
            · exact h hl
          · exact h hl
        · have h0 : ¬ (lv - 1 = 0) := by omega
          simp only [interO, Val.dict.injEq, e, if_false, hl, h0]
          simp only [contO, Val.dict.injEq, Bool.or_eq_true, decide_eq_true_eq, Bool.and_eq_true, ne_eq]
          right
          refine ⟨hl, ?_⟩
          have r1 : contL (lv - 1) c x = true := by
            rcases h1 with h1 | ⟨_, h1⟩
            · subst h1; exact contL_refl _ _
            · exact h1
          have r2 : contL (lv - 1) c y = true := by
            rcases h2 with h2 | ⟨_, h2⟩
            · subst h2; exact contL_refl _ _
            · exact h2
          exact interL_greatest (lv - 1) c x y r1 r2
theorem interL_greatest (lv : Int) : ∀ c a b : Slots α,
    contL lv c a = true → contL lv c b = true → contL lv c (interL lv a b) = true
  | [], _, _, _, _ => by simp [contL]
  | z :: c, [], _, h1, _ => by
      simpa [interL] using h1
  | z :: c, x :: r, [], h1, h2 => by
      simp [contL] at h1 h2
      simp [interL, contL]
      exact ⟨interO_greatest lv z x none h1.1 h2.1, interL_greatest lv c r [] h1.2 h2.2⟩
  | z :: c, x :: r, y :: r', h1, h2 => by
      simp [contL] at h1 h2
      simp [interL, contL]
      exact ⟨interO_greatest lv z x y h1.1 h2.1, interL_greatest lv c r r' h1.2 h2.2⟩
end


/-! ### empty dictionaries -/

omit [DecidableEq α] in
@[simp] theorem emptyLike_length (l : Slots α) : (emptyLike l).length = l.length := by
  simp [emptyLike]

omit [DecidableEq α] in
@[simp] theorem nonEmpty_emptyLike (l : Slots α) : nonEmpty (emptyLike l) = false := by
  simp [nonEmpty, emptyLike]

omit [DecidableEq α] in
theorem nonEmpty_cons (x : Option (Val α)) (r : Slots α) :
    nonEmpty (x :: r) = (x.isSome || nonEmpty r) := by
  simp [nonEmpty]

omit [DecidableEq α] in
theorem emptyLike_cons (x : Option (Val α)) (r : Slots α) : emptyLike (x :: r) = none :: emptyLike r := by
  simp [emptyLike, List.replicate_succ]

omit [DecidableEq α] in
/-- a dictionary without keys is `{}` -/
theorem eq_emptyLike_of_empty : ∀ a : Slots α, nonEmpty a = false → a = emptyLike a
  | [], _ => by simp [emptyLike]
  | none :: r, h => by
      rw [nonEmpty_cons] at h
      rw [emptyLike_cons, ← eq_emptyLike_of_empty r (by simpa using h)]
  | some _ :: r, h => by simp [nonEmpty_cons] at h

omit [DecidableEq α] in
theorem empty_eq_of_length : ∀ a b : Slots α, nonEmpty a = false → nonEmpty b = false →
    a.length = b.length → a = b := by
  intro a b ha hb hl
  rw [eq_emptyLike_of_empty a ha, eq_emptyLike_of_empty b hb]
  simp [emptyLike, hl]

theorem contL_of_empty (lv : Int) : ∀ a b : Slots α, nonEmpty a = false → contL lv a b = true
  | [], _, _ => by simp [contL]
  | none :: r, [], h => by
      rw [nonEmpty_cons] at h
      simp [contL, contO, contL_of_empty lv r [] (by simpa using h)]
  | none :: r, y :: b, h => by
      rw [nonEmpty_cons] at h
      simp [contL, contO, contL_of_empty lv r b (by simpa using h)]
  | some _ :: r, _, h => by simp [nonEmpty_cons] at h

theorem interL_of_empty (lv : Int) : ∀ a b : Slots α, nonEmpty a = false → interL lv a b = a
  | [], _, _ => by simp [interL]
  | none :: r, [], h => by
      rw [nonEmpty_cons] at h
      simp [interL, interO, interL_of_empty lv r [] (by simpa using h)]
  | none :: r, y :: b, h => by
      rw [nonEmpty_cons] at h
      simp [interL, interO, interL_of_empty lv r b (by simpa using h)]
  | some _ :: r, _, h => by simp [nonEmpty_cons] at h

/-! ### containment at a level (`contained`, with the level-0 reading) -/

theorem contained_refl (lv : Int) (a : Slots α) : contained lv a a = true := by
  unfold contained; split <;> simp [contL_refl]

theorem contained_of_empty (lv : Int) (a b : Slots α) (h : nonEmpty a = false) :
    contained lv a b = true := by
  unfold contained; split <;> simp [h, contL_of_empty lv a b h]

theorem contained_trans (lv : Int) (a b c : Slots α)
    (h1 : contained lv a b = true) (h2 : contained lv b c = true) : contained lv a c = true := by
  unfold contained at *
  by_cases h0 : lv = 0
  · simp [h0] at h1 h2 ⊢
    rcases h1 with h1 | h1
    · subst h1; exact h2
    · exact Or.inr h1
  · simp [h0] at h1 h2 ⊢
    exact contL_trans lv a b c h1 h2

theorem contained_antisymm (lv : Int) (n : Nat) (a b : Slots α) (wa : WFD n a) (wb : WFD n b)
    (h1 : contained lv a b = true) (h2 : contained lv b a = true) : a = b := by
  unfold contained at *
  by_cases h0 : lv = 0
  · simp [h0] at h1 h2
    rcases h1 with h1 | h1
    · exact h1
    · rcases h2 with h2 | h2
      · exact h2.symm
      · exact empty_eq_of_length a b h1 h2 (by rw [wa.1, wb.1])
  · simp [h0] at h1 h2
    exact contL_antisymm lv n a b (by rw [wa.1, wb.1]) wa.2 wb.2 h1 h2

/-! ### one step of the loop over `dicts[1:]` -/

theorem inter2_lower_left (lv : Int) (a b : Slots α) : contained lv (inter2 lv a b) a = true := by
  unfold inter2 contained interLevel0
  by_cases h0 : lv = 0
  · simp only [h0, if_true]
    split <;> simp
  · simp [h0, interL_lower_left]

theorem inter2_lower_right (lv : Int) (a b : Slots α) : contained lv (inter2 lv a b) b = true := by
  unfold inter2 contained interLevel0
  by_cases h0 : lv = 0
  · simp only [h0, if_true]
    split
    · rename_i h; simp [h.1]
    · simp
  · simp [h0, interL_lower_right]

theorem inter2_greatest (lv : Int) (c a b : Slots α)
    (h1 : contained lv c a = true) (h2 : contained lv c b = true) :
    contained lv c (inter2 lv a b) = true := by
  unfold inter2 contained interLevel0 at *
  by_cases h0 : lv = 0
  · simp [h0] at h1 h2 ⊢
    rcases h1 with h1 | h1
    · rcases h2 with h2 | h2
      · subst h1; subst h2
        by_cases hn : nonEmpty c = true
        · simp [hn]
        · simp [hn]
      · exact Or.inr h2
    · exact Or.inr h1
  · simp [h0] at h1 h2 ⊢
    exact interL_greatest lv c a b h1 h2

theorem inter2_of_empty (lv : Int) (e d : Slots α) (h : nonEmpty e = false) : inter2 lv e d = e := by
  unfold inter2 interLevel0
  by_cases h0 : lv = 0
  · simp only [h0, if_true]
    split
    · rfl
    · exact (eq_emptyLike_of_empty e h).symm
  · simp [h0, interL_of_empty lv e d h]

theorem foldl_inter2_of_empty (lv : Int) : ∀ (ds : List (Slots α)) (e : Slots α), nonEmpty e = false →
    ds.foldl (inter2 lv) e = e
  | [], _, _ => rfl
  | d :: ds, e, h => by
      simp only [List.foldl_cons, inter2_of_empty lv e d h]
      exact foldl_inter2_of_empty lv ds e h

/-- the two early returns of the loop are an optimisation: the loop is the left fold of the binary step -/
theorem interFold_eq_foldl (lv : Int) : ∀ (ds : List (Slots α)) (res : Slots α),
    interFold lv res ds = ds.foldl (inter2 lv) res
  | [], _ => by simp [interFold]
  | d :: ds, res => by
      simp only [interFold, List.foldl_cons]
      by_cases h0 : lv = 0
      · simp only [h0, if_true, inter2, interLevel0]
        split
        · exact interFold_eq_foldl 0 ds res
        · exact (foldl_inter2_of_empty 0 ds _ (nonEmpty_emptyLike res)).symm
      · simp only [h0, if_false, inter2]
        split
        · exact interFold_eq_foldl lv ds _
        · rename_i hn
          exact (foldl_inter2_of_empty lv ds _ (by simpa using hn)).symm

theorem foldl_inter2_lower_init (lv : Int) : ∀ (ds : List (Slots α)) (res : Slots α),
    contained lv (ds.foldl (inter2 lv) res) res = true
  | [], res => contained_refl lv res
  | d :: ds, res => by
      simp only [List.foldl_cons]
      exact contained_trans lv _ _ _ (foldl_inter2_lower_init lv ds _) (inter2_lower_left lv res d)

theorem foldl_inter2_lower_mem (lv : Int) : ∀ (ds : List (Slots α)) (res d : Slots α), d ∈ ds →
    contained lv (ds.foldl (inter2 lv) res) d = true
  | [], _, _, h => by simp at h
  | d' :: ds, res, d, h => by
      simp only [List.foldl_cons]
      rcases List.mem_cons.1 h with h | h
      · subst h
        exact contained_trans lv _ _ _ (foldl_inter2_lower_init lv ds _) (inter2_lower_right lv res d)
      · exact foldl_inter2_lower_mem lv ds _ d h

theorem foldl_inter2_greatest (lv : Int) (c : Slots α) : ∀ (ds : List (Slots α)) (res : Slots α),
    contained lv c res = true → (∀ d ∈ ds, contained lv c d = true) →
    contained lv c (ds.foldl (inter2 lv) res) = true
  | [], _, h, _ => h
  | d :: ds, res, h, hall => by
      simp only [List.foldl_cons]
      exact foldl_inter2_greatest lv c ds _
        (inter2_greatest lv c res d h (hall d (by simp)))
        (fun d' hd' => hall d' (by simp [hd']))


/-! ### well-formedness is preserved -/

omit [DecidableEq α] in
theorem WFL_emptyLike (n : Nat) : ∀ l : Slots α, WFL n (emptyLike l)
  | [] => by simp [emptyLike, WFL]
  | x :: r => by rw [emptyLike_cons]; simp [WFL, WFL_emptyLike n r]

mutual
theorem interO_wf (lv : Int) (n : Nat) : ∀ x y : Option (Val α), WFO n x → WFO n (interO lv x y)
  | none, _, _ => by simp [interO, WFO]
  | some v, none, _ => by simp [interO, WFO]
  | some (.leaf a), some (.leaf b), _ => by
      by_cases e : b = a <;> simp [interO, WFO, WF, e]
  | some (.leaf a), some (.dict y), _ => by simp [interO, WFO]
  | some (.dict x), some (.leaf b), _ => by simp [interO, WFO]
  | some (.dict x), some (.dict y), h => by
      by_cases e : y = x
      · simpa [interO, e] using h
      · by_cases h1 : lv = 1
        · simp [interO, e, h1, WFO]
        · have h0 : ¬ (lv - 1 = 0) := by omega
          rw [WFO_dict] at h
          simp only [interO, Val.dict.injEq, e, if_false, h1, h0]
          rw [WFO_dict]
          exact ⟨by rw [interL_length]; exact h.1, interL_wf (lv - 1) n x y h.2⟩
theorem interL_wf (lv : Int) (n : Nat) : ∀ a b : Slots α, WFL n a → WFL n (interL lv a b)
  | [], _, _ => by simp [interL, WFL]
  | x :: r, [], h => by
      rw [WFL_cons] at h
      simp only [interL]; rw [WFL_cons]
      exact ⟨interO_wf lv n x none h.1, interL_wf lv n r [] h.2⟩
  | x :: r, y :: r', h => by
      rw [WFL_cons] at h
      simp only [interL]; rw [WFL_cons]
      exact ⟨interO_wf lv n x y h.1, interL_wf lv n r r' h.2⟩
end

theorem inter2_wf (lv : Int) (n : Nat) (a b : Slots α) (h : WFD n a) : WFD n (inter2 lv a b) := by
  unfold inter2 interLevel0
  by_cases h0 : lv = 0
  · simp only [h0, if_true]
    split
    · exact h
    · exact ⟨by simp [h.1], WFL_emptyLike n a⟩
  · simp only [h0, if_false]
    exact ⟨by rw [interL_length]; exact h.1, interL_wf lv n a b h.2⟩

theorem foldl_inter2_wf (lv : Int) (n : Nat) : ∀ (ds : List (Slots α)) (res : Slots α), WFD n res →
    WFD n (ds.foldl (inter2 lv) res)
  | [], _, h => h
  | d :: ds, res, h => by
      simp only [List.foldl_cons]
      exact foldl_inter2_wf lv n ds _ (inter2_wf lv n res d h)

/-! ### difference: the model computes the specification -/

theorem diffSpecO_isSome (lv : Int) : ∀ x y : Option (Val α),
    (diffSpecO lv x y).isSome = !contO lv x y
  | none, _ => by simp [diffSpecO, contO]
  | some v, none => by simp [diffSpecO, contO]
  | some (.leaf a), some (.leaf b) => by
      by_cases e : a = b <;> simp [diffSpecO, contO, e]
  | some (.leaf a), some (.dict y) => by simp [diffSpecO, contO]
  | some (.dict x), some (.leaf b) => by simp [diffSpecO, contO]
  | some (.dict x), some (.dict y) => by
      simp only [diffSpecO]
      split
      · rename_i h; simp [h]
      · rename_i h
        have : contO lv (some (.dict x)) (some (.dict y)) = false := by simpa using h
        rw [this]
        split <;> simp

theorem diffSpecL_nonEmpty (lv : Int) : ∀ a b : Slots α,
    nonEmpty (diffSpecL lv a b) = !contL lv a b
  | [], _ => by simp [diffSpecL, contL, nonEmpty]
  | x :: r, [] => by
      simp only [diffSpecL, contL, nonEmpty_cons, diffSpecO_isSome, diffSpecL_nonEmpty lv r []]
      simp [Bool.not_and]
  | x :: r, y :: r' => by
      simp only [diffSpecL, contL, nonEmpty_cons, diffSpecO_isSome, diffSpecL_nonEmpty lv r r']
      simp [Bool.not_and]

section diff
variable (truthy : α → Bool)

theorem diffL_length (lv : Int) : ∀ a b : Slots α, (diffL truthy lv a b).length = a.length
  | [], _ => by simp [diffL]
  | _ :: r, [] => by simp [diffL, diffL_length lv r []]
  | _ :: r, _ :: r' => by simp [diffL, diffL_length lv r r']

mutual
theorem diffO_eq_spec (lv : Int) : ∀ x y : Option (Val α), diffO truthy lv x y = diffSpecO lv x y
  | none, _ => by simp [diffO, diffSpecO]
  | some v, none => by simp [diffO, diffSpecO]
  | some (.leaf a), some (.leaf b) => by
      by_cases e : a = b <;> simp [diffO, diffSpecO, contO, isDict, e]
  | some (.leaf a), some (.dict y) => by simp [diffO, diffSpecO, contO, isDict]
  | some (.dict x), some (.leaf b) => by simp [diffO, diffSpecO, contO, isDict]
  | some (.dict x), some (.dict y) => by
      by_cases e : x = y
      · simp [diffO, diffSpecO, contO, e]
      · by_cases h1 : lv = 1
        · simp [diffO, diffSpecO, contO, isDict, e, h1]
        · have h0 : ¬ (lv - 1 = 0) := by omega
          have ih := diffL_eq_spec (lv - 1) x y
          have hne := diffSpecL_nonEmpty (lv - 1) x y
          simp only [diffO, diffSpecO, contO, Val.dict.injEq, e, isDict, diffV, h0, h1, truthyV, ih]
          by_cases hc : contL (lv - 1) x y = true
          · simp [hc, h1, hne]
          · simp [hc, h1, hne]
theorem diffL_eq_spec (lv : Int) : ∀ a b : Slots α, diffL truthy lv a b = diffSpecL lv a b
  | [], _ => by simp [diffL, diffSpecL]
  | x :: r, [] => by simp [diffL, diffSpecL, diffO_eq_spec lv x none, diffL_eq_spec lv r []]
  | x :: r, y :: r' => by simp [diffL, diffSpecL, diffO_eq_spec lv x y, diffL_eq_spec lv r r']
end

end diff

/-! ### the executable well-formedness test used by the driver implies `WF` -/

omit [DecidableEq α] in
mutual
theorem wfB_sound (n : Nat) : ∀ v : Val α, wfB n v = true → WF n v
  | .leaf _, _ => by simp [WF]
  | .dict l, h => by
      simp [wfB] at h
      exact ⟨h.1, wfLB_sound n l h.2⟩
theorem wfLB_sound (n : Nat) : ∀ l : Slots α, wfLB n l = true → WFL n l
  | [], _ => by simp [WFL]
  | none :: r, h => by
      simp [wfLB] at h
      simpa [WFL] using wfLB_sound n r h
  | some v :: r, h => by
      simp [wfLB] at h
      exact ⟨wfB_sound n v h.1, wfLB_sound n r h.2⟩
end

omit [DecidableEq α] in
/-- what the driver accepts as a dictionary over `n` keys satisfies the hypothesis `WFD n` of the theorems -/
theorem wfd_of_wfB (n : Nat) (a : Slots α) (h : wfB n (.dict a) = true) : WFD n a := by
  have := wfB_sound n (.dict a) h
  simpa [WF, WFD] using this

end Lena.C07
