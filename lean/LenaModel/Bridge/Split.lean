import LenaModel.Props.C02
import LenaModel.Props.C03
import LenaModel.Props.C03X
import LenaModel.Props.C04
import LenaModel.Props.C05
import LenaModel.Props.C16
/-! # Bridge — the independent transcriptions of `Split.run` / `Split._fill` / `Zip._fill` agree

`lena/core/split.py` (`Split.run`, `_fill`, `_compute`, `_request`), `lena/flow/zip.py`
(`Zip._fill`), `lena/core/fill_compute_seq.py` (a `FillComputeSeq` as a branch) and
`lena/core/adapters.py` (`FillRequest` as a branch) were transcribed into Lean several times, by
independent builders, for different properties:

| model | what it transcribes | value / state vocabulary |
|---|---|---|
| `Lena.C03` | `Split.run` (event trace), `_fill`, `_compute`, `_request`, `Zip._fill` | abstract branches `Ops σ α`, only `LenaStopFill` |
| `Lena.C03` (`Model/C03X.lean`) | `Split.run` once more, with exceptions of the branches (`SplitX.run`) | `OpsX σ α ε` |
| `Lena.C04` | the same loops at the level of object identity (tokens, shared heap) | `Ops σ S C` acting on a `Store C` |
| `Lena.C05` | `Split.run`, `_fill`, `_compute` for fill/compute branches that are `FillComputeSeq` chains, with exceptions | `Chain σ α`, `Strm` |
| `Lena.C16` | the `fill`/`request` schedule `Split.run` performs on a `FillRequest` adapter | `El σ α β`, `runOps` |
| `Lena.C02` | `Split.run` as a lazy generator | re-uses `C03.blockLoop`/`finalPass` |

Each transcription is validated against the real code by its own correspondence check.  This file
proves that they agree with each other, for ALL inputs, under explicit translation maps; so a
transcription error in one of them would contradict another one that was validated separately, and
theorems transfer (corollaries at the end of every section).

Sections: 0. blocks of a flow — 1. C05 ↔ C03 and C05 ↔ C03X — 2. C16 ↔ C03 — 3. C04 ↔ C03 — 4. C02 ↔ C03. -/

namespace Lena.Bridge.Split

/-! ## 0. `list(itertools.islice(flow, bufsize))` until empty: four transcriptions, one function

Python: split.py:325 (`orig_buf = list(itertools.islice(flow, self._bufsize))`).
Lean: `C03.blocks` (used by C03, C04 and C02), `Flow.chunks` (C05, C01), `C16.splitBlocks`/`C16.chunks`. -/

section blocks
variable {α : Type}

theorem chunksFuel_eq_blocksFuel (b : Nat) :
    ∀ (n : Nat) (xs : List α), Flow.chunksFuel b n xs = C03.blocksFuel b n xs
  | 0, _ => rfl
  | _ + 1, [] => rfl
  | n + 1, x :: xs => by
    simp only [Flow.chunksFuel, C03.blocksFuel]
    rw [chunksFuel_eq_blocksFuel b n]

/-- `Flow.chunks` (C05/C01) and `C03.blocks` are the same function — every `bufsize`, also `0`. -/
theorem chunks_eq_blocks (bufsize : Option Nat) (xs : List α) :
    Flow.chunks bufsize xs = C03.blocks bufsize xs := by
  cases bufsize with
  | none => rfl
  | some b => exact chunksFuel_eq_blocksFuel b _ xs

/-- `C16.chunks` (well-founded recursion) and `C03.blocks` (fuel) agree for every block size `≥ 1`.
Outside the common domain: block size `0` (`C16.chunks 0 xs = []`, `C03.blocks (some 0) xs` is a list
of empty blocks); `Split.__init__` and `FillRequest.__init__` reject it. -/
theorem c16_chunks_eq_blocks (m : Nat) (hm : 0 < m) :
    ∀ (k : Nat) (xs : List α), xs.length ≤ k → C16.chunks m xs = C03.blocks (some m) xs
  | 0, xs, h => by
    have : xs = [] := List.length_eq_zero_iff.mp (by omega)
    subst this; simp [C16.chunks_nil]
  | k + 1, xs, h => by
    cases xs with
    | nil => simp [C16.chunks_nil]
    | cons x xs =>
      rw [C16.chunks_cons m hm (x :: xs) (by simp), C03.blocks_some_cons m hm]
      congr 1
      exact c16_chunks_eq_blocks m hm k _ (by simp only [List.length_drop, List.length_cons] at h ⊢; omega)

/-- the blocks Split hands to a fill/request branch in the C16 model are the blocks of C03 -/
theorem c16_splitBlocks_eq_blocks (m : Option Nat) (hm : m ≠ some 0) (xs : List α) :
    C16.splitBlocks m xs = C03.blocks m xs := by
  cases m with
  | none => rfl
  | some m =>
    have : 0 < m := by
      cases m with
      | zero => exact absurd rfl hm
      | succ m => omega
    exact c16_chunks_eq_blocks m this _ xs (Nat.le_refl _)

example : Flow.chunks (some 2) [1, 2, 3, 4, 5] = [[1, 2], [3, 4], [5]]
    ∧ C16.splitBlocks (some 2) [1, 2, 3, 4, 5] = C03.blocks (some 2) [1, 2, 3, 4, 5] := by
  refine ⟨by decide, c16_splitBlocks_eq_blocks _ (by decide) _⟩

end blocks

/-! ## tagged outputs of a C03 trace -/

section tagged
variable {σ α : Type}

/-- the values yielded by `Split.run` together with the branch they are attributed to -/
def tagOuts : List (C03.Ev α) → List (Nat × α)
  | [] => []
  | .out i v :: r => (i, v) :: tagOuts r
  | .call _ :: r => tagOuts r
  | .fill _ _ _ :: r => tagOuts r
  | .compute _ :: r => tagOuts r
  | .request _ :: r => tagOuts r
  | .run _ _ :: r => tagOuts r
  | .assertFail :: r => tagOuts r

theorem tagOuts_append (l₁ l₂ : List (C03.Ev α)) : tagOuts (l₁ ++ l₂) = tagOuts l₁ ++ tagOuts l₂ := by
  induction l₁ with
  | nil => rfl
  | cons e r ih => cases e <;> simp [tagOuts, ih]

theorem tagOuts_outs (i : Nat) (vals : List α) : tagOuts (C03.outs i vals) = vals.map (fun v => (i, v)) := by
  induction vals with
  | nil => rfl
  | cons v r ih => simp only [C03.outs, List.map_cons, tagOuts] at ih ⊢; rw [ih]

theorem tagOuts_snd (tr : List (C03.Ev α)) : (tagOuts tr).map Prod.snd = C03.outputs tr := by
  induction tr with
  | nil => rfl
  | cons e r ih => cases e <;> simp [tagOuts, C03.outputs, ih]

theorem tagOuts_fillBuf (i : Nat) (ops : C03.Ops σ α) :
    ∀ (buf : List α) (s : σ), tagOuts (C03.fillBuf i ops s buf).1 = []
  | [], _ => rfl
  | x :: xs, s => by
    simp only [C03.fillBuf]
    cases h : ops.fill s x with
    | mk s' st =>
      cases st with
      | true => rfl
      | false => simp only [tagOuts]; exact tagOuts_fillBuf i ops xs s'

/-- the values attributed to branch `i` -/
theorem tagOuts_filter (i : Nat) (tr : List (C03.Ev α)) :
    ((tagOuts tr).filter (fun p => p.1 == i)).map Prod.snd = C03.outputsOf i tr := by
  unfold C03.outputsOf C03.proj
  induction tr with
  | nil => rfl
  | cons e r ih =>
    rw [List.filter_cons]
    cases e with
    | out j v =>
      have hb : (C03.Ev.out j v : C03.Ev α).branch = some j := rfl
      by_cases h : j = i
      · subst h; simp [tagOuts, hb, C03.outputs, ih]
      · simp [tagOuts, hb, h, ih]
    | assertFail =>
      have hb : (C03.Ev.assertFail : C03.Ev α).branch = none := rfl
      simp [tagOuts, hb, ih]
    | call j =>
      have hb : (C03.Ev.call j : C03.Ev α).branch = some j := rfl
      by_cases h : j = i
      · subst h; simp [tagOuts, hb, C03.outputs, ih]
      · simp [tagOuts, hb, h, ih]
    | compute j =>
      have hb : (C03.Ev.compute j : C03.Ev α).branch = some j := rfl
      by_cases h : j = i
      · subst h; simp [tagOuts, hb, C03.outputs, ih]
      · simp [tagOuts, hb, h, ih]
    | request j =>
      have hb : (C03.Ev.request j : C03.Ev α).branch = some j := rfl
      by_cases h : j = i
      · subst h; simp [tagOuts, hb, C03.outputs, ih]
      · simp [tagOuts, hb, h, ih]
    | fill j x st =>
      have hb : (C03.Ev.fill j x st : C03.Ev α).branch = some j := rfl
      by_cases h : j = i
      · subst h; simp [tagOuts, hb, C03.outputs, ih]
      · simp [tagOuts, hb, h, ih]
    | run j buf =>
      have hb : (C03.Ev.run j buf : C03.Ev α).branch = some j := rfl
      by_cases h : j = i
      · subst h; simp [tagOuts, hb, C03.outputs, ih]
      · simp [tagOuts, hb, h, ih]

/-- `stepBranch` on a fill/compute branch that accepts the whole buffer (split.py:349-357) -/
theorem stepBranch_fc_ok (buf : List α) (b : C03.Branch σ α) (hk : b.kind = .fillCompute)
    (h : (C03.fillBuf b.id b.ops b.st buf).2.2 = false) :
    C03.stepBranch buf b =
      ((C03.fillBuf b.id b.ops b.st buf).1, some { b with st := (C03.fillBuf b.id b.ops b.st buf).2.1 }) := by
  simp [C03.stepBranch, hk, h]

/-- `stepBranch` on a fill/compute branch that raises `LenaStopFill` (split.py:357-366) -/
theorem stepBranch_fc_stop (buf : List α) (b : C03.Branch σ α) (hk : b.kind = .fillCompute)
    (h : (C03.fillBuf b.id b.ops b.st buf).2.2 = true) :
    C03.stepBranch buf b =
      ((C03.fillBuf b.id b.ops b.st buf).1 ++ C03.Ev.compute b.id ::
        C03.outs b.id (b.ops.compute (C03.fillBuf b.id b.ops b.st buf).2.1).1, none) := by
  simp [C03.stepBranch, hk, h]

end tagged

/-! ## 1. C05 ↔ C03: `Split.run` over fill/compute branches that are `FillComputeSeq` chains

Python: `Split.run` (split.py:313-417) restricted to `seq_type == "fill_compute"` (349-366, 406-408),
with `seq.fill` = `FillComputeSeq.fill` (`FillSeq`'s `_Fill` chain, fill_seq.py:62-85) and
`seq.compute` = `FillComputeSeq.compute` (fill_compute_seq.py:118-122).

Lean: `C05.splitRunTagged` / `C05.splitRun` (`processBuf`, `finalCompute`, `splitLoop`: a direct
recursion over the buffers with exceptions as stream terminators) against `C03.Split.runTrace`
(`outerLoop`, `blockLoop` with the index loop and in-place deletion, `finalPass`) — and `C05.fillRun`
(driver 2: fill value by value until `LenaStopFill`, then `compute`) against `C03.fillBuf` + `compute`.

**Translation.**  A C05 branch `Active σ α` (chain, chain state, index) becomes the C03 branch
`toBranch A` of kind `fillCompute` whose state is `A` itself and whose methods are `activeOps`:
`fill` = the `fill` of the chain's sink, `LenaStopFill` ↦ the flag; `compute` = the values of
`computeAfter`.

**Common domain.**  C03 models no exception but `LenaStopFill`; C05 models every exception (a `fill`
that raises, a `compute` or a post-processing element that raises: the generator ends, `term = some e`).
The agreement is stated for the runs in which the C05 model predicts no exception
(`(splitRunTagged …).term = none`) — exactly the runs C03 speaks about; there `activeOps` never uses
its (arbitrary) totalisation of the `.err` case.  Outside: runs ending with an exception (C05 only),
branches of the other three kinds and the event trace (C03 only), and `cs = []` for the *untagged*
`run` (`Split([])` is the identity in C03 — `_empty_run` —, C05 has no such case: its scope is "every
branch of type fill_compute"). -/

section c05
open Lena.C05 Lena.Flow
variable {σ α : Type}

/-- the methods of a `FillComputeSeq` chain in state `A.st`, as a C03 branch sees them.  A `fill`
that raises something else than `LenaStopFill` is outside C03's vocabulary (totalised: no effect). -/
def activeOps : C03.Ops (Active σ α) α :=
  { call := fun A => ([], A)
    fill := fun A x =>
      match (chainSink A.chain.acc A.chain.pre).fill A.st x with
      | .ok st' => ({ A with st := st' }, false)
      | .stop st' => ({ A with st := st' }, true)
      | .err _ => (A, false)
    compute := fun A => ((computeAfter A.chain (chainAcc A.chain.pre A.st)).vals, A)
    request := fun A => ([], A)
    run := fun A _ => ([], A) }

/-- a C05 active branch as a C03 branch -/
def toBranch (A : Active σ α) : C03.Branch (Active σ α) α :=
  { id := A.idx, kind := .fillCompute, ops := activeOps, st := A }

/-- the C03 `Split` that corresponds to `Split([FillComputeSeq(*c) for c in cs], bufsize, copy_buf)` -/
def toSplit (cs : List (Chain σ α)) (bufsize : Option Nat) (copyBuf : Bool) : C03.Split (Active σ α) α :=
  { branches := (initActive 0 cs).map toBranch, bufsize := bufsize, copyBuf := copyBuf }

theorem andThen_term_none (a b : Strm α) (h : (a.andThen b).term = none) : a.term = none ∧ b.term = none := by
  obtain ⟨av, at_⟩ := a
  cases at_ with
  | none => exact ⟨rfl, by simpa [Strm.andThen] using h⟩
  | some e => simp [Strm.andThen] at h

theorem andThen_vals (a b : Strm α) (h : a.term = none) : (a.andThen b).vals = a.vals ++ b.vals := by
  obtain ⟨av, at_⟩ := a
  simp only at h
  subst h
  rfl

/-- what C03 sees of the outcome of filling: the new state of the object and the `stopped` flag;
`none` for an exception that C03 does not model -/
def stateFlag (A : Active σ α) : FillRes (ChainState σ A.chain.pre) → Option (Active σ α × Bool)
  | .ok st' => some ({ A with st := st' }, false)
  | .stop st' => some ({ A with st := st' }, true)
  | .err _ => none

theorem activeOps_fill (A : Active σ α) (x : α) (r : Active σ α × Bool)
    (h : stateFlag A ((chainSink A.chain.acc A.chain.pre).fill A.st x) = some r) :
    (activeOps : C03.Ops (Active σ α) α).fill A x = r := by
  simp only [activeOps]
  cases hf : (chainSink A.chain.acc A.chain.pre).fill A.st x with
  | ok s' => rw [hf] at h; simpa [stateFlag] using h
  | stop s' => rw [hf] at h; simpa [stateFlag] using h
  | err e => rw [hf] at h; simp [stateFlag] at h

theorem stateFlag_with (A : Active σ α) (s' : ChainState σ A.chain.pre) (r : FillRes (ChainState σ A.chain.pre)) :
    stateFlag { A with st := s' } r = stateFlag A r := by
  cases r <;> rfl

/-- the inner loop `for val in buf: try: seq.fill(val) except LenaStopFill: …; break`:
`C05.feedList` (outcome `ok`/`stop`/`err`) and `C03.fillBuf` (state + flag) -/
theorem fillBuf_active (i : Nat) : ∀ (buf : List α) (A : Active σ α) (r : Active σ α × Bool),
    stateFlag A (feedList (chainSink A.chain.acc A.chain.pre) A.st buf) = some r →
      (C03.fillBuf i activeOps A buf).2 = r
  | [], A, r, h => by
    simp only [feedList, stateFlag, Option.some.injEq] at h
    subst h
    rfl
  | x :: xs, A, r, h => by
    simp only [feedList] at h
    cases hf : (chainSink A.chain.acc A.chain.pre).fill A.st x with
    | ok s' =>
      rw [hf] at h
      simp only at h
      rw [C03.fillBuf_cons_ok i activeOps A { A with st := s' } x xs
        (activeOps_fill A x _ (by rw [hf]; rfl))]
      exact fillBuf_active i xs { A with st := s' } r ((stateFlag_with A s' _).trans h)
    | stop s' =>
      rw [hf] at h
      simp only [stateFlag, Option.some.injEq] at h
      subst h
      rw [C03.fillBuf_cons_stop i activeOps A { A with st := s' } x xs
        (activeOps_fill A x _ (by rw [hf]; rfl))]
    | err e => rw [hf] at h; simp [stateFlag] at h

/-- one buffer, all active branches: `C05.processBuf` is C03's fold of `stepBranch` over the
active branches — same survivors, same tagged output — whenever no exception is raised -/
theorem processBuf_agrees (buf : List α) : ∀ (act : List (Active σ α)),
    (processBuf buf act).2.term = none →
      (C03.foldB (C03.stepBranch buf) (act.map toBranch)).2 = (processBuf buf act).1.map toBranch ∧
      tagOuts (C03.foldB (C03.stepBranch buf) (act.map toBranch)).1 = (processBuf buf act).2.vals
  | [], _ => by simp [processBuf, C03.foldB, tagOuts, Strm.nil]
  | B :: rest, h => by
    have hto := tagOuts_fillBuf B.idx (activeOps : C03.Ops (Active σ α) α) buf B
    cases hf : feedList (chainSink B.chain.acc B.chain.pre) B.st buf with
    | err e =>
      rw [processBuf, hf] at h
      simp [Strm.fail] at h
    | ok st' =>
      have hfb := fillBuf_active B.idx buf B ({ B with st := st' }, false) (by rw [hf]; rfl)
      have hp : processBuf buf (B :: rest) = ({ B with st := st' } :: (processBuf buf rest).1, (processBuf buf rest).2) := by
        rw [processBuf, hf]
      rw [hp] at h ⊢
      obtain ⟨ih1, ih2⟩ := processBuf_agrees buf rest h
      have hs : C03.stepBranch buf (toBranch B) =
          ((C03.fillBuf B.idx activeOps B buf).1, some (toBranch { B with st := st' })) := by
        rw [stepBranch_fc_ok buf (toBranch B) rfl (congrArg Prod.snd hfb)]
        simp only [toBranch, congrArg Prod.fst hfb]
      simp only [List.map_cons, C03.foldB, hs, ih1, ih2, tagOuts_append, hto, List.nil_append, and_self]
    | stop st' =>
      have hfb := fillBuf_active B.idx buf B ({ B with st := st' }, true) (by rw [hf]; rfl)
      have hp : processBuf buf (B :: rest) = ((processBuf buf rest).1,
          (tag B.idx (computeAfter B.chain (chainAcc B.chain.pre st'))).andThen (processBuf buf rest).2) := by
        rw [processBuf, hf]
      rw [hp] at h ⊢
      obtain ⟨hc, hr⟩ := andThen_term_none _ _ h
      obtain ⟨ih1, ih2⟩ := processBuf_agrees buf rest hr
      have hs : C03.stepBranch buf (toBranch B) =
          ((C03.fillBuf B.idx activeOps B buf).1 ++ C03.Ev.compute B.idx ::
              C03.outs B.idx (computeAfter B.chain (chainAcc B.chain.pre st')).vals, none) := by
        rw [stepBranch_fc_stop buf (toBranch B) rfl (congrArg Prod.snd hfb)]
        simp only [toBranch, congrArg Prod.fst hfb]
        rfl
      simp only [List.map_cons, C03.foldB, hs, ih1, ih2, tagOuts_append, hto, List.nil_append, tagOuts,
        tagOuts_outs, true_and]
      rw [andThen_vals _ _ hc]
      rfl

/-- the final pass over fill/compute branches (split.py:406-408) -/
theorem finalCompute_agrees (fwe : Bool) : ∀ (act : List (Active σ α)), (finalCompute act).term = none →
    tagOuts (C03.finalPass fwe (act.map toBranch)) = (finalCompute act).vals
  | [], _ => rfl
  | B :: rest, h => by
    simp only [finalCompute] at h ⊢
    obtain ⟨hc, hr⟩ := andThen_term_none _ _ h
    simp only [List.map_cons, C03.finalPass, toBranch, tagOuts, tagOuts_append, tagOuts_outs, activeOps]
    have ih := finalCompute_agrees fwe rest hr
    rw [ih, andThen_vals _ _ hc]
    rfl

/-- buffer after buffer, then the final pass -/
theorem splitLoop_agrees (fwe : Bool) : ∀ (bufs : List (List α)) (act : List (Active σ α)),
    (splitLoop bufs act).term = none →
      tagOuts ((C03.passes bufs (act.map toBranch)).1 ++ C03.finalPass fwe (C03.passes bufs (act.map toBranch)).2)
        = (splitLoop bufs act).vals
  | [], act, h => by
    simp only [splitLoop] at h ⊢
    simpa [C03.passes] using finalCompute_agrees fwe act h
  | buf :: bufs, act, h => by
    simp only [splitLoop] at h ⊢
    obtain ⟨hp, hr⟩ := andThen_term_none _ _ h
    obtain ⟨p1, p2⟩ := processBuf_agrees buf act hp
    have ih := splitLoop_agrees fwe bufs (processBuf buf act).1 hr
    simp only [C03.passes, p1, List.append_assoc, tagOuts_append, p2]
    rw [andThen_vals _ _ hp, ← ih, tagOuts_append]

/-- **C05 ↔ C03, `Split.run` (tagged).**  For every list of chains, every `bufsize` (`None` or `≥ 1`),
both values of `copy_buf` and every flow: if the C05 transcription predicts a run without exception,
the values it yields, each with the index of its branch, are exactly the `out` events of the C03
transcription on the translated `Split`. -/
theorem c05_split_agrees (cs : List (Chain σ α)) (bufsize : Option Nat) (hb : bufsize ≠ some 0) (copyBuf : Bool)
    (xs : List α) (h : (splitRunTagged cs bufsize xs).term = none) :
    (splitRunTagged cs bufsize xs).vals = tagOuts ((toSplit cs bufsize copyBuf).runTrace xs) := by
  rw [C03.loop_refines_spec (toSplit cs bufsize copyBuf) hb]
  unfold splitRunTagged at h ⊢
  simp only [C03.Split.runSpec, toSplit, ← chunks_eq_blocks]
  exact (splitLoop_agrees _ _ _ h).symm

/-- **C05 ↔ C03, `Split.run` (what is yielded).**  `cs ≠ []`: `Split([])` is the identity
(`_empty_run`, C03), which is outside C05's scope. -/
theorem c05_splitRun_agrees (cs : List (Chain σ α)) (hne : cs ≠ []) (bufsize : Option Nat) (hb : bufsize ≠ some 0)
    (copyBuf : Bool) (xs : List α) (h : (splitRun cs bufsize xs).term = none) :
    (splitRun cs bufsize xs).vals = (toSplit cs bufsize copyBuf).run xs := by
  have h' : (splitRunTagged cs bufsize xs).term = none := h
  have hbr : (toSplit cs bufsize copyBuf).branches.isEmpty = false := by
    cases cs with
    | nil => exact absurd rfl hne
    | cons c cs => rfl
  simp only [C03.Split.run, hbr, Bool.false_eq_true, if_false, splitRun, Strm.map]
  rw [c05_split_agrees cs bufsize hb copyBuf xs h', tagOuts_snd]

/-- the values of branch `i`: `C05.project` and `C03.outputsOf` -/
theorem c05_project_agrees (cs : List (Chain σ α)) (bufsize : Option Nat) (hb : bufsize ≠ some 0) (copyBuf : Bool)
    (xs : List α) (h : (splitRunTagged cs bufsize xs).term = none) (i : Nat) :
    project i (splitRunTagged cs bufsize xs) = C03.outputsOf i ((toSplit cs bufsize copyBuf).runTrace xs) := by
  unfold project
  rw [c05_split_agrees cs bufsize hb copyBuf xs h, tagOuts_filter]

/-- **C05 ↔ C03, driver 2** (`for v in xs: try: seq.fill(v) except LenaStopFill: break`, then
`list(seq.compute())` on a fresh `FillComputeSeq`): `C05.fillRun` is `C03.fillBuf` followed by
`compute`, whenever `fillRun` predicts no exception. -/
theorem c05_fillRun_agrees (c : Chain σ α) (xs : List α) (h : (fillRun c xs).term = none) (i : Nat) :
    (fillRun c xs).vals =
      (activeOps.compute (C03.fillBuf i activeOps
        ({ chain := c, st := chainInit c.acc.init c.pre, idx := i } : Active σ α) xs).2.1).1 := by
  have hfb := fillBuf_active i xs ({ chain := c, st := chainInit c.acc.init c.pre, idx := i } : Active σ α)
  unfold fillRun fillAllChain at h ⊢
  cases hf : feedList (chainSink c.acc c.pre) (chainInit c.acc.init c.pre) xs with
  | err e => rw [hf] at h; simp [Strm.fail] at h
  | ok st => rw [congrArg Prod.fst (hfb _ (by rw [hf]; rfl))]; rfl
  | stop st => rw [congrArg Prod.fst (hfb _ (by rw [hf]; rfl))]; rfl

/-! ### runs that end with an exception: agreement up to the exception (unconditional)

Without any hypothesis: what the C05 transcription yields before the generator dies is always a prefix of
what the C03 transcription (which knows no exception) predicts; with `c05_split_agrees` it is all of it
when there is no exception. -/

theorem andThen_vals_some (a b : Strm α) (e : Exc) (h : a.term = some e) : (a.andThen b).vals = a.vals := by
  obtain ⟨av, at_⟩ := a
  simp only at h
  subst h
  rfl

theorem andThen_term_some (a b : Strm α) (e : Exc) (h : a.term = some e) : (a.andThen b).term = some e := by
  obtain ⟨av, at_⟩ := a
  simp only at h
  subst h
  rfl

theorem andThen_prefix {β : Type} (a b : Strm β) (l₁ l₂ : List β) (ha : a.vals = l₁) (hb : b.vals <+: l₂) :
    (a.andThen b).vals <+: l₁ ++ l₂ := by
  cases ht : a.term with
  | none =>
    rw [andThen_vals a b ht, ha]
    exact (List.prefix_append_right_inj l₁).mpr hb
  | some e =>
    rw [andThen_vals_some a b e ht, ha]
    exact List.prefix_append l₁ l₂

theorem processBuf_prefix (buf : List α) : ∀ (act : List (Active σ α)),
    (processBuf buf act).2.vals <+: tagOuts (C03.foldB (C03.stepBranch buf) (act.map toBranch)).1
  | [] => by simp [processBuf, C03.foldB, tagOuts, Strm.nil]
  | B :: rest => by
    have hto := tagOuts_fillBuf B.idx (activeOps : C03.Ops (Active σ α) α) buf B
    have ih := processBuf_prefix buf rest
    cases hf : feedList (chainSink B.chain.acc B.chain.pre) B.st buf with
    | err e =>
      rw [processBuf, hf]
      exact List.nil_prefix
    | ok st' =>
      have hfb := fillBuf_active B.idx buf B ({ B with st := st' }, false) (by rw [hf]; rfl)
      have hp : processBuf buf (B :: rest) = ({ B with st := st' } :: (processBuf buf rest).1, (processBuf buf rest).2) := by
        rw [processBuf, hf]
      have hs : C03.stepBranch buf (toBranch B) =
          ((C03.fillBuf B.idx activeOps B buf).1, some (toBranch { B with st := st' })) := by
        rw [stepBranch_fc_ok buf (toBranch B) rfl (congrArg Prod.snd hfb)]
        simp only [toBranch, congrArg Prod.fst hfb]
      rw [hp]
      simp only [List.map_cons, C03.foldB, hs, tagOuts_append, hto, List.nil_append]
      exact ih
    | stop st' =>
      have hfb := fillBuf_active B.idx buf B ({ B with st := st' }, true) (by rw [hf]; rfl)
      have hp : processBuf buf (B :: rest) = ((processBuf buf rest).1,
          (tag B.idx (computeAfter B.chain (chainAcc B.chain.pre st'))).andThen (processBuf buf rest).2) := by
        rw [processBuf, hf]
      have hs : C03.stepBranch buf (toBranch B) =
          ((C03.fillBuf B.idx activeOps B buf).1 ++ C03.Ev.compute B.idx ::
              C03.outs B.idx (computeAfter B.chain (chainAcc B.chain.pre st')).vals, none) := by
        rw [stepBranch_fc_stop buf (toBranch B) rfl (congrArg Prod.snd hfb)]
        simp only [toBranch, congrArg Prod.fst hfb]
        rfl
      rw [hp]
      simp only [List.map_cons, C03.foldB, hs, tagOuts_append, hto, List.nil_append, tagOuts, tagOuts_outs]
      exact andThen_prefix _ _ _ _ rfl ih

theorem finalCompute_prefix (fwe : Bool) : ∀ (act : List (Active σ α)),
    (finalCompute act).vals <+: tagOuts (C03.finalPass fwe (act.map toBranch))
  | [] => List.prefix_refl _
  | B :: rest => by
    simp only [finalCompute, List.map_cons, C03.finalPass, toBranch, tagOuts, tagOuts_append, tagOuts_outs, activeOps]
    exact andThen_prefix _ _ _ _ rfl (finalCompute_prefix fwe rest)

theorem splitLoop_prefix (fwe : Bool) : ∀ (bufs : List (List α)) (act : List (Active σ α)),
    (splitLoop bufs act).vals <+:
      tagOuts ((C03.passes bufs (act.map toBranch)).1 ++ C03.finalPass fwe (C03.passes bufs (act.map toBranch)).2)
  | [], act => by
    simpa [splitLoop, C03.passes] using finalCompute_prefix fwe act
  | buf :: bufs, act => by
    simp only [splitLoop, C03.passes, List.append_assoc, tagOuts_append]
    cases ht : (processBuf buf act).2.term with
    | none =>
      obtain ⟨p1, p2⟩ := processBuf_agrees buf act ht
      rw [andThen_vals _ _ ht, p1, p2]
      have ih := splitLoop_prefix fwe bufs (processBuf buf act).1
      rw [tagOuts_append] at ih
      exact (List.prefix_append_right_inj _).mpr ih
    | some e =>
      rw [andThen_vals_some _ _ e ht]
      exact List.IsPrefix.trans (processBuf_prefix buf act) (List.prefix_append _ _)

/-- **C05 ↔ C03, `Split.run`, every run (also those that end with an exception).**  For every list of chains,
`bufsize ≠ 0`, `copy_buf`, flow: the tagged values the C05 transcription yields — up to the exception, if one
is raised — are a prefix of the `out` events of the C03 transcription. -/
theorem c05_split_prefix (cs : List (Chain σ α)) (bufsize : Option Nat) (hb : bufsize ≠ some 0) (copyBuf : Bool)
    (xs : List α) :
    (splitRunTagged cs bufsize xs).vals <+: tagOuts ((toSplit cs bufsize copyBuf).runTrace xs) := by
  rw [C03.loop_refines_spec (toSplit cs bufsize copyBuf) hb]
  unfold splitRunTagged
  simp only [C03.Split.runSpec, toSplit, ← chunks_eq_blocks]
  exact splitLoop_prefix _ _ _

/-- a run that ends with an exception: `Split([(boom, Sum()), (Sum(),)], bufsize=2)` on `[1, 13, 3]` — `boom`
raises on 13; C05 predicts `ValueError` before anything is yielded, C03 (no exceptions) goes on -/
example :
    let cs : List (Chain Int Int) :=
      [{ pre := [.call (fun v => if v = 13 then .error .valueError else .ok v)], acc := exSum, post := [] },
       { pre := [], acc := exSum, post := [] }]
    splitRunTagged cs (some 2) [1, 13, 3] = ⟨[], some .valueError⟩ ∧
    tagOuts ((toSplit cs (some 2) true).runTrace [1, 13, 3]) = [(0, 4), (1, 17)] := by
  decide

/-! ### the whole story, exceptions included: C05 ↔ C03X (`Model/C03X.lean`, unconditional)

`Model/C03X.lean` transcribes `Split.run` once more (generic loops `blockLoopG`/`outerLoopG`/`finalPassG`,
body `stepX`) for branches whose methods may raise: `fill` ends `ok`/`stop`/`raised e`, a generator yields
some values and then ends or raises.  With the C05 chain plugged in (`activeOpsX`: `fill` of the chain's
sink with all three outcomes, `compute` = the values and the terminator of `computeAfter`) the two
transcriptions agree on EVERY run, with no side condition: same tagged values, same exception. -/

/-- the methods of a `FillComputeSeq` chain, exceptions included, as a C03X branch sees them -/
def activeOpsX : C03.OpsX (Active σ α) α Exc :=
  { call := fun A => ([], A, none)
    fill := fun A x =>
      match (chainSink A.chain.acc A.chain.pre).fill A.st x with
      | .ok st' => ({ A with st := st' }, .ok)
      | .stop st' => ({ A with st := st' }, .stop)
      | .err e => (A, .raised e)
    compute := fun A =>
      ((computeAfter A.chain (chainAcc A.chain.pre A.st)).vals, A, (computeAfter A.chain (chainAcc A.chain.pre A.st)).term)
    request := fun A => ([], A, none)
    run := fun A _ => ([], A, none) }

def toBranchX (A : Active σ α) : C03.BranchX (Active σ α) α Exc :=
  { id := A.idx, kind := .fillCompute, ops := activeOpsX, st := A }

def toSplitX (cs : List (Chain σ α)) (bufsize : Option Nat) (copyBuf : Bool) : C03.SplitX (Active σ α) α Exc :=
  { branches := (initActive 0 cs).map toBranchX, bufsize := bufsize, copyBuf := copyBuf }

/-- the exception that ended `Split.run`, if any -/
def termExc : C03.Term Exc → Option Exc
  | .done => none
  | .raised _ e => some e
  | .assertFail => none
  | .isliceError => none

def finalTerm : Option (C03.FinalExc Exc) → Option Exc
  | none => none
  | some (.raised _ e) => some e
  | some .assertFail => none

/-- what C03X sees of the outcome of filling a buffer -/
def stateFlagX (A : Active σ α) : FillRes (ChainState σ A.chain.pre) → Active σ α × C03.FillRes Exc → Prop
  | .ok st', r => r = ({ A with st := st' }, .ok)
  | .stop st', r => r = ({ A with st := st' }, .stop)
  | .err e, r => r.2 = .raised e

theorem stateFlagX_with (A : Active σ α) (s' : ChainState σ A.chain.pre) (f : FillRes (ChainState σ A.chain.pre))
    (r : Active σ α × C03.FillRes Exc) : stateFlagX { A with st := s' } f r ↔ stateFlagX A f r := by
  cases f <;> exact Iff.rfl

theorem tagOuts_fillBufX (i : Nat) (ops : C03.OpsX σ α Exc) :
    ∀ (buf : List α) (s : σ), tagOuts (C03.fillBufX i ops s buf).1 = []
  | [], _ => rfl
  | x :: xs, s => by
    simp only [C03.fillBufX]
    cases h : ops.fill s x with
    | mk s' r =>
      cases r with
      | ok => simp only [tagOuts]; exact tagOuts_fillBufX i ops xs s'
      | stop => rfl
      | raised e => rfl

theorem fillBufX_active (i : Nat) : ∀ (buf : List α) (A : Active σ α),
    stateFlagX A (feedList (chainSink A.chain.acc A.chain.pre) A.st buf) (C03.fillBufX i activeOpsX A buf).2
  | [], A => by simp [feedList, C03.fillBufX, stateFlagX]
  | x :: xs, A => by
    simp only [feedList]
    cases hf : (chainSink A.chain.acc A.chain.pre).fill A.st x with
    | ok s' =>
      have hfill : (activeOpsX : C03.OpsX (Active σ α) α Exc).fill A x = ({ A with st := s' }, .ok) := by
        simp only [activeOpsX, hf]
      simp only [C03.fillBufX, hfill]
      exact (stateFlagX_with A s' _ _).mp (fillBufX_active i xs { A with st := s' })
    | stop s' =>
      have hfill : (activeOpsX : C03.OpsX (Active σ α) α Exc).fill A x = ({ A with st := s' }, .stop) := by
        simp only [activeOpsX, hf]
      simp only [C03.fillBufX, hfill, stateFlagX]
    | err e =>
      have hfill : (activeOpsX : C03.OpsX (Active σ α) α Exc).fill A x = (A, .raised e) := by
        simp only [activeOpsX, hf]
      simp only [C03.fillBufX, hfill, stateFlagX]

/-- one buffer, all active branches, exceptions included -/
theorem processBuf_agreesX (buf : List α) : ∀ (act : List (Active σ α)),
    (processBuf buf act).2.vals = tagOuts (C03.foldG (C03.stepX buf) (act.map toBranchX)).events ∧
    (processBuf buf act).2.term = (C03.foldG (C03.stepX buf) (act.map toBranchX)).exc.map Prod.snd ∧
    ((C03.foldG (C03.stepX buf) (act.map toBranchX)).exc = none →
      (C03.foldG (C03.stepX buf) (act.map toBranchX)).act = (processBuf buf act).1.map toBranchX)
  | [] => by simp [processBuf, C03.foldG, tagOuts, Strm.nil]
  | B :: rest => by
    have hto := tagOuts_fillBufX B.idx (activeOpsX : C03.OpsX (Active σ α) α Exc) buf B
    have hfb := fillBufX_active B.idx buf B
    obtain ⟨i1, i2, i3⟩ := processBuf_agreesX buf rest
    obtain ⟨evs, A', fr, hfx⟩ : ∃ evs A' fr, C03.fillBufX B.idx activeOpsX B buf = (evs, A', fr) := ⟨_, _, _, rfl⟩
    rw [hfx] at hto hfb
    simp only at hto hfb
    have hstep : C03.stepX buf (toBranchX B) =
        (match fr with
          | .raised e => (evs, { toBranchX B with st := A' }, C03.Res.abort (B.idx, e))
          | .stop =>
            (evs ++ C03.Ev.compute B.idx :: C03.outs B.idx (activeOpsX.compute A').1,
              { toBranchX B with st := (activeOpsX.compute A').2.1 },
              C03.genRes (activeOpsX.compute A').2.2 B.idx .drop)
          | .ok => (evs, { toBranchX B with st := A' }, .stay)) := by
      simp only [C03.stepX, toBranchX, hfx]
      cases fr <;> rfl
    cases hf : feedList (chainSink B.chain.acc B.chain.pre) B.st buf with
    | err e =>
      rw [hf] at hfb
      simp only [stateFlagX] at hfb
      subst hfb
      rw [processBuf, hf]
      simp only [List.map_cons, C03.foldG, hstep, hto, Strm.fail, Option.map_some]
      exact ⟨trivial, trivial, fun h => by cases h⟩
    | ok st' =>
      rw [hf] at hfb
      simp only [stateFlagX, Prod.mk.injEq] at hfb
      obtain ⟨rfl, rfl⟩ := hfb
      have hp : processBuf buf (B :: rest) = ({ B with st := st' } :: (processBuf buf rest).1, (processBuf buf rest).2) := by
        rw [processBuf, hf]
      rw [hp]
      simp only [List.map_cons, C03.foldG, hstep, tagOuts_append, hto, List.nil_append, i1, i2, true_and]
      intro h
      rw [i3 h]
      rfl
    | stop st' =>
      rw [hf] at hfb
      simp only [stateFlagX, Prod.mk.injEq] at hfb
      obtain ⟨rfl, rfl⟩ := hfb
      have hp : processBuf buf (B :: rest) = ((processBuf buf rest).1,
          (tag B.idx (computeAfter B.chain (chainAcc B.chain.pre st'))).andThen (processBuf buf rest).2) := by
        rw [processBuf, hf]
      rw [hp]
      simp only [List.map_cons, C03.foldG, hstep]
      cases hc : (computeAfter B.chain (chainAcc B.chain.pre st')).term with
      | some e =>
        have hc' : (activeOpsX.compute ({ B with st := st' } : Active σ α)).2.2 = some e := hc
        have ht : (tag B.idx (computeAfter B.chain (chainAcc B.chain.pre st'))).term = some e := hc
        simp only [C03.genRes, hc', tagOuts_append, hto, List.nil_append, tagOuts, tagOuts_outs, Option.map_some]
        rw [andThen_vals_some _ _ e ht, andThen_term_some _ _ e ht]
        exact ⟨rfl, rfl, fun h => by cases h⟩
      | none =>
        have hc' : (activeOpsX.compute ({ B with st := st' } : Active σ α)).2.2 = none := hc
        have ht : (tag B.idx (computeAfter B.chain (chainAcc B.chain.pre st'))).term = none := hc
        simp only [C03.genRes, hc', tagOuts_append, hto, List.nil_append, tagOuts, tagOuts_outs]
        rw [andThen_vals _ _ ht, andThen_term _ _ ht, i1, i2]
        exact ⟨rfl, rfl, i3⟩

/-- the final pass, exceptions included -/
theorem finalCompute_agreesX (fwe : Bool) : ∀ (act : List (Active σ α)),
    (finalCompute act).vals = tagOuts (C03.finalPassG (C03.finalX fwe) (act.map toBranchX)).1 ∧
    (finalCompute act).term = finalTerm (C03.finalPassG (C03.finalX fwe) (act.map toBranchX)).2.2
  | [] => ⟨rfl, rfl⟩
  | B :: rest => by
    obtain ⟨i1, i2⟩ := finalCompute_agreesX fwe rest
    have hfin : C03.finalX fwe (toBranchX B) =
        (C03.Ev.compute B.idx :: C03.outs B.idx (computeAfter B.chain (chainAcc B.chain.pre B.st)).vals,
          toBranchX B, (computeAfter B.chain (chainAcc B.chain.pre B.st)).term.map (C03.FinalExc.raised B.idx)) := rfl
    simp only [finalCompute, List.map_cons, C03.finalPassG, hfin]
    cases hc : (computeAfter B.chain (chainAcc B.chain.pre B.st)).term with
    | some e =>
      have ht : (tag B.idx (computeAfter B.chain (chainAcc B.chain.pre B.st))).term = some e := hc
      simp only [Option.map_some, tagOuts, tagOuts_outs, finalTerm]
      rw [andThen_vals_some _ _ e ht, andThen_term_some _ _ e ht]
      exact ⟨rfl, rfl⟩
    | none =>
      have ht : (tag B.idx (computeAfter B.chain (chainAcc B.chain.pre B.st))).term = none := hc
      simp only [Option.map_none, tagOuts, tagOuts_append, tagOuts_outs]
      rw [andThen_vals _ _ ht, andThen_term _ _ ht, i1, i2]
      exact ⟨rfl, rfl⟩

/-- buffer after buffer, then the final pass; the run ends at the first exception -/
theorem splitLoop_agreesX (fwe : Bool) : ∀ (bufs : List (List α)) (act : List (Active σ α))
    (dropped : List (C03.BranchX (Active σ α) α Exc)),
    (match (C03.passesG C03.stepX bufs (act.map toBranchX) dropped).exc with
      | some ie =>
        (splitLoop bufs act).vals = tagOuts (C03.passesG C03.stepX bufs (act.map toBranchX) dropped).events ∧
        (splitLoop bufs act).term = some ie.2
      | none =>
        (splitLoop bufs act).vals =
          tagOuts ((C03.passesG C03.stepX bufs (act.map toBranchX) dropped).events ++
            (C03.finalPassG (C03.finalX fwe) (C03.passesG C03.stepX bufs (act.map toBranchX) dropped).act).1) ∧
        (splitLoop bufs act).term =
          finalTerm (C03.finalPassG (C03.finalX fwe) (C03.passesG C03.stepX bufs (act.map toBranchX) dropped).act).2.2)
  | [], act, dropped => by
    simp only [C03.passesG, splitLoop, List.nil_append]
    exact finalCompute_agreesX fwe act
  | buf :: bufs, act, dropped => by
    obtain ⟨p1, p2, p3⟩ := processBuf_agreesX buf act
    simp only [C03.passesG, splitLoop]
    cases hx : (C03.foldG (C03.stepX buf) (act.map toBranchX)).exc with
    | some ie =>
      rw [hx] at p2
      simp only [Option.map_some] at p2
      simp only
      rw [andThen_vals_some _ _ _ p2, andThen_term_some _ _ _ p2, p1]
      exact ⟨rfl, rfl⟩
    | none =>
      rw [hx] at p2
      simp only [Option.map_none] at p2
      have ih := splitLoop_agreesX fwe bufs (processBuf buf act).1
        (dropped ++ (C03.foldG (C03.stepX buf) (act.map toBranchX)).dropped)
      rw [← p3 hx] at ih
      simp only
      cases hq : (C03.passesG C03.stepX bufs (C03.foldG (C03.stepX buf) (act.map toBranchX)).act
          (dropped ++ (C03.foldG (C03.stepX buf) (act.map toBranchX)).dropped)).exc with
      | some ie =>
        rw [hq] at ih
        simp only at ih ⊢
        rw [andThen_vals _ _ p2, andThen_term _ _ p2, p1, ih.1, ih.2, tagOuts_append]
        exact ⟨rfl, rfl⟩
      | none =>
        rw [hq] at ih
        simp only at ih ⊢
        rw [andThen_vals _ _ p2, andThen_term _ _ p2, p1, ih.1, ih.2]
        simp only [tagOuts_append, List.append_assoc]
        exact ⟨by first | trivial | rfl, by first | trivial | rfl⟩

/-- **C05 ↔ C03X, `Split.run`, EVERY run, no side condition.**  For every list of chains, every `bufsize`
(`None` or `≥ 1`), both values of `copy_buf` and every flow: the tagged values AND the exception (if any) that the
C05 transcription predicts are those of the C03X transcription on the translated `Split`. -/
theorem c05_split_agreesX (cs : List (Chain σ α)) (bufsize : Option Nat) (hb : bufsize ≠ some 0) (copyBuf : Bool)
    (xs : List α) :
    (splitRunTagged cs bufsize xs).vals = tagOuts ((toSplitX cs bufsize copyBuf).run xs).trace ∧
    (splitRunTagged cs bufsize xs).term = termExc ((toSplitX cs bufsize copyBuf).run xs).term := by
  obtain ⟨o1, o2, _, o4, o5⟩ := C03.outerLoopG_eq_passesG copyBuf bufsize hb
    (C03.stepX (σ := Active σ α) (α := α) (ε := Exc)) (xs.length + 1) xs ((initActive 0 cs).map toBranchX) [] [] true
    (by omega)
  have key := splitLoop_agreesX (C03.blocks bufsize xs).isEmpty (C03.blocks bufsize xs) (initActive 0 cs)
    ([] : List (C03.BranchX (Active σ α) α Exc))
  unfold splitRunTagged
  rw [chunks_eq_blocks]
  simp only [C03.SplitX.run, toSplitX, Bool.false_eq_true, if_false]
  rw [o4]
  cases hx : (C03.passesG C03.stepX (C03.blocks bufsize xs) ((initActive 0 cs).map toBranchX)
      ([] : List (C03.BranchX (Active σ α) α Exc))).exc with
  | some ie =>
    rw [hx] at key
    obtain ⟨i, e⟩ := ie
    simp only at key ⊢
    rw [o1, List.nil_append]
    exact ⟨key.1, key.2⟩
  | none =>
    rw [hx] at key
    have hfwe := o5 hx
    rw [Bool.true_and] at hfwe
    simp only at key ⊢
    rw [o1, o2, hfwe, List.nil_append, key.1, key.2]
    refine ⟨rfl, ?_⟩
    cases (C03.finalPassG (C03.finalX (C03.blocks bufsize xs).isEmpty)
      (C03.passesG C03.stepX (C03.blocks bufsize xs) ((initActive 0 cs).map toBranchX)
        ([] : List (C03.BranchX (Active σ α) α Exc))).act).2.2 with
    | none => rfl
    | some fe => cases fe <;> rfl

/-- the exception example again: both transcriptions predict no value and `ValueError` -/
example :
    let cs : List (Chain Int Int) :=
      [{ pre := [.call (fun v => if v = 13 then .error .valueError else .ok v)], acc := exSum, post := [] },
       { pre := [], acc := exSum, post := [] }]
    tagOuts ((toSplitX cs (some 2) true).run [1, 13, 3]).trace = [] ∧
    termExc ((toSplitX cs (some 2) true).run [1, 13, 3]).term = some .valueError := by
  decide

/-! ### `Split._fill` / `Split._compute` over `FillComputeSeq` branches: `C05.splitFill`, `C05.splitFillRun`

Python: split.py:257-268.  Lean: `C05.splitFill` (outcome `ok`/`stop`/`err` of the whole `_fill`),
`C05.splitFillRun` (fill a flow until `LenaStopFill`, then `_compute`) against `C03.splitFill`,
`C03.splitFillAll`, `C03.splitCompute`.  Common domain as for `run`: no exception other than `LenaStopFill`. -/

/-- what C03 sees of the outcome of `Split._fill`: the branch objects and the flag; `none` for an exception -/
def brsFlag : FillRes (List (Active σ α)) → Option (List (C03.Branch (Active σ α) α) × Bool)
  | .ok act => some (act.map toBranch, false)
  | .stop act => some (act.map toBranch, true)
  | .err _ => none

/-- **C05 ↔ C03, `Split._fill(val)`** -/
theorem c05_splitFill_agrees (v : α) : ∀ (act : List (Active σ α)) (r : List (C03.Branch (Active σ α) α) × Bool),
    brsFlag (C05.splitFill act v) = some r → C03.splitFill v (act.map toBranch) = r
  | [], r, h => by
    simp only [C05.splitFill, brsFlag, Option.some.injEq] at h
    subst h; rfl
  | B :: rest, r, h => by
    simp only [C05.splitFill] at h
    simp only [List.map_cons, C03.splitFill]
    have hbr : (toBranch B).ops.fill (toBranch B).st v = (activeOps : C03.Ops (Active σ α) α).fill B v := rfl
    rw [hbr]
    cases hf : (chainSink B.chain.acc B.chain.pre).fill B.st v with
    | err e => rw [hf] at h; simp [brsFlag] at h
    | stop st' =>
      rw [hf] at h
      simp only [brsFlag, Option.some.injEq] at h
      subst h
      rw [activeOps_fill B v ({ B with st := st' }, true) (by rw [hf]; rfl)]
      rfl
    | ok st' =>
      rw [hf] at h
      rw [activeOps_fill B v ({ B with st := st' }, false) (by rw [hf]; rfl)]
      simp only at h ⊢
      cases hr : C05.splitFill rest v with
      | err e => rw [hr] at h; simp [FillRes.map, brsFlag] at h
      | ok act' =>
        rw [hr] at h
        simp only [FillRes.map, brsFlag, Option.some.injEq] at h
        subst h
        rw [c05_splitFill_agrees v rest (act'.map toBranch, false) (by rw [hr]; rfl)]
        rfl
      | stop act' =>
        rw [hr] at h
        simp only [FillRes.map, brsFlag, Option.some.injEq] at h
        subst h
        rw [c05_splitFill_agrees v rest (act'.map toBranch, true) (by rw [hr]; rfl)]
        rfl

/-- **C05 ↔ C03, a caller that fills a flow into the `Split`** (`for v in xs: split.fill(v)` until `LenaStopFill`) -/
theorem c05_splitFillAll_agrees : ∀ (xs : List α) (act : List (Active σ α))
    (r : List (C03.Branch (Active σ α) α) × Bool),
    brsFlag (feedList splitSink act xs) = some r → C03.splitFillAll (act.map toBranch) xs = r
  | [], act, r, h => by
    simp only [feedList, brsFlag, Option.some.injEq] at h
    subst h; rfl
  | x :: xs, act, r, h => by
    simp only [feedList, splitSink] at h
    simp only [C03.splitFillAll]
    cases hf : C05.splitFill act x with
    | err e => rw [hf] at h; simp [brsFlag] at h
    | stop act' =>
      rw [hf] at h
      rw [c05_splitFill_agrees x act (act'.map toBranch, true) (by rw [hf]; rfl)]
      simpa [brsFlag] using h
    | ok act' =>
      rw [hf] at h
      rw [c05_splitFill_agrees x act (act'.map toBranch, false) (by rw [hf]; rfl)]
      exact c05_splitFillAll_agrees xs act' r h

/-- `Split._compute()`: `C05.finalCompute` (tagged, with exceptions) and `C03.splitCompute` -/
theorem finalCompute_splitCompute : ∀ (act : List (Active σ α)), (finalCompute act).term = none →
    (finalCompute act).vals.map Prod.snd = (C03.splitCompute (act.map toBranch)).1
  | [], _ => rfl
  | B :: rest, h => by
    simp only [finalCompute] at h ⊢
    obtain ⟨hc, hr⟩ := andThen_term_none _ _ h
    rw [andThen_vals _ _ hc, List.map_append, finalCompute_splitCompute rest hr]
    simp only [List.map_cons, C03.splitCompute, toBranch, activeOps, tag, Strm.map, List.map_map]
    congr 1
    simp [Function.comp_def]

/-- **C05 ↔ C03, `Split` driven by `fill` + `compute`**: `C05.splitFillRun` is `C03.splitFillAll` followed by
`C03.splitCompute`, whenever C05 predicts no exception -/
theorem c05_splitFillRun_agrees (cs : List (Chain σ α)) (xs : List α) (h : (splitFillRun cs xs).term = none) :
    (splitFillRun cs xs).vals.map Prod.snd =
      (C03.splitCompute (C03.splitFillAll ((initActive 0 cs).map toBranch) xs).1).1 := by
  unfold splitFillRun at h ⊢
  cases hf : feedList splitSink (initActive 0 cs) xs with
  | err e => rw [hf] at h; simp [Strm.fail] at h
  | ok act =>
    rw [hf] at h
    rw [c05_splitFillAll_agrees xs (initActive 0 cs) (act.map toBranch, false) (by rw [hf]; rfl)]
    exact finalCompute_splitCompute act h
  | stop act =>
    rw [hf] at h
    rw [c05_splitFillAll_agrees xs (initActive 0 cs) (act.map toBranch, true) (by rw [hf]; rfl)]
    exact finalCompute_splitCompute act h

example : (splitFillRun exSibling [1, 2, 3, 4, 5, 6, 7]).term = none ∧
    (C03.splitCompute (C03.splitFillAll ((initActive 0 exSibling).map toBranch) [1, 2, 3, 4, 5, 6, 7]).1).1 = [3, 6] :=
  ⟨by decide, by rw [← c05_splitFillRun_agrees exSibling _ (by decide)]; decide⟩

/-! ### non-vacuity and transfer -/

/-- the demo of `Props/C05.lean` (`Split([(Slice(2), Sum()), (double, Sum())], bufsize=2)` on `1..7`)
satisfies the hypothesis, and both transcriptions give `[(0, 3), (1, 56)]` -/
example : (splitRunTagged exSibling (some 2) [1, 2, 3, 4, 5, 6, 7]).term = none
    ∧ tagOuts ((toSplit exSibling (some 2) true).runTrace [1, 2, 3, 4, 5, 6, 7]) = [(0, 3), (1, 56)] :=
  ⟨rfl, (c05_split_agrees exSibling (some 2) (by decide) true _ rfl).symm⟩

/-- **Transfer C05 → C03** (`C05.split_branches_independent` through the bridge): in the C03 transcription
of `Split.run` over `FillComputeSeq` branches, the values attributed to branch `i` are what that chain
yields when it is filled alone (driver 2) — any siblings, any `bufsize`, any flow without exception. -/
theorem c03_fc_branch_alone (cs : List (Chain σ α)) (bufsize : Option Nat) (hb : bufsize ≠ some 0) (copyBuf : Bool)
    (xs : List α) (hok : ∀ c ∈ cs, (fillRun c xs).term = none) (i : Nat) (hi : i < cs.length) :
    C03.outputsOf i ((toSplit cs bufsize copyBuf).runTrace xs) = (fillRun cs[i] xs).vals := by
  obtain ⟨ht, hp⟩ := split_branches_independent cs bufsize hb xs hok
  rw [← c05_project_agrees cs bufsize hb copyBuf xs ht i, hp i hi]

/-- **Transfer C03 → C05** (`C03.no_assert_fail` and the schedule theorem `C03.run_eq_schedule` through the
bridge): the tagged output of the C05 transcription is the documented block/branch schedule of C03 -/
theorem c05_split_is_schedule (cs : List (Chain σ α)) (bufsize : Option Nat) (hb : bufsize ≠ some 0)
    (xs : List α) (h : (splitRunTagged cs bufsize xs).term = none) :
    (splitRunTagged cs bufsize xs).vals = tagOuts ((toSplit cs bufsize true).schedule xs) := by
  rw [c05_split_agrees cs bufsize hb true xs h, C03.run_eq_schedule (toSplit cs bufsize true) hb]

/-- **Transfer C03 → C05** (`C03.copy_buf_irrelevant`-style, here by the bridge itself): the C05 model has no
`copy_buf`; the bridge holds for both values, hence the C03 outputs do not depend on it -/
theorem c03_fc_copyBuf_irrelevant (cs : List (Chain σ α)) (bufsize : Option Nat) (hb : bufsize ≠ some 0)
    (xs : List α) (h : (splitRunTagged cs bufsize xs).term = none) :
    tagOuts ((toSplit cs bufsize true).runTrace xs) = tagOuts ((toSplit cs bufsize false).runTrace xs) := by
  rw [← c05_split_agrees cs bufsize hb true xs h, ← c05_split_agrees cs bufsize hb false xs h]

end c05

/-! ## 2. C16 ↔ C03: `Split.run` around a fill/request branch that is a `FillRequest` adapter

Python: `Split.run` for `seq_type == "fill_request"` (split.py:367-382, 409-413) with
`seq.fill`/`seq.request` = `FillRequest.fill`/`FillRequest.request` (adapters.py:404-477).

Lean: `C16.splitFR` = `runOps` over the call schedule `C16.splitOps` (written down by C16's builder from
the docstring: per block, fill every value then `request()`; on an empty flow one `request()`) against
the events of that branch in `C03.Split.runTrace` (where the schedule *results* from the transcribed
loops) with the adapter's methods `frOps` plugged in.

**Translation.**  C03 has one value type for what flows in and what is yielded; C16's element maps
`α` to `β`.  The C03 value type is `α ⊕ β`: the flow is `xs.map .inl`, the results are `.inr`.
`FillRequest.fill` never raises `LenaStopFill` (flag `false`).  The other branches of the `Split` are
arbitrary (any kinds, any methods over the same state type).

**Common domain**: everything C16's `splitFR` speaks about (every element, block size, flag combination,
`bufsize ≠ 0`, flow).  Outside: a wrapped element whose `fill` raises `LenaStopFill` (C03 only: the
branch is then dropped after a last `request()`; C16's `El.fill` cannot raise). -/

section c16
open Lena.C16
variable {σ α β : Type}

/-- `FillRequest(el, bufsize=N, reset=rst, buffer_input=bi, yield_on_remainder=yor)` as a C03 branch
object: `fill` and `request` of the adapter, state `C16.St` -/
def frOps (e : El σ α β) (N : Nat) (rst bi yor : Bool) : C03.Ops (St σ α β) (α ⊕ β) :=
  { call := fun s => ([], s)
    fill := fun s v =>
      match v with
      | .inl x => (fillR e N rst bi s x, false)
      | .inr _ => (s, false)
    compute := fun s => ([], s)
    request := fun s => ((requestR e N rst bi yor s).1.map .inr, (requestR e N rst bi yor s).2)
    run := fun s _ => ([], s) }

/-- the branch with tag `i`: a fresh adapter around an element in state `el` -/
def frBranch (i : Nat) (e : El σ α β) (N : Nat) (rst bi yor : Bool) (el : σ) : C03.Branch (St σ α β) (α ⊕ β) :=
  { id := i, kind := .fillRequest, ops := frOps e N rst bi yor, st := St.init el }

theorem blocksFuel_map {γ δ : Type} (f : γ → δ) (b : Nat) :
    ∀ (n : Nat) (xs : List γ), C03.blocksFuel b n (xs.map f) = (C03.blocksFuel b n xs).map (List.map f)
  | 0, _ => rfl
  | _ + 1, [] => rfl
  | n + 1, x :: xs => by
    simp only [List.map_cons, C03.blocksFuel]
    rw [← blocksFuel_map f b n]
    simp

/-- cutting a flow into blocks commutes with a per-value translation -/
theorem blocks_map {γ δ : Type} (f : γ → δ) (bs : Option Nat) (xs : List γ) :
    C03.blocks bs (xs.map f) = (C03.blocks bs xs).map (List.map f) := by
  cases bs with
  | none => cases xs <;> simp [C03.blocks]
  | some b => simp only [C03.blocks, List.length_map]; exact blocksFuel_map f b _ xs

/-- `for val in buf: seq.fill(val)` on the adapter: never stopped, no value yielded -/
theorem fillBuf_fr (i : Nat) (e : El σ α β) (N : Nat) (rst bi yor : Bool) :
    ∀ (blk : List α) (s : St σ α β),
      (C03.fillBuf i (frOps e N rst bi yor) s (blk.map Sum.inl)).2 = (blk.foldl (fillR e N rst bi) s, false) ∧
      C03.outputs (C03.fillBuf i (frOps e N rst bi yor) s (blk.map Sum.inl)).1 = []
  | [], _ => ⟨rfl, rfl⟩
  | x :: xs, s => by
    have ih := fillBuf_fr i e N rst bi yor xs (fillR e N rst bi s x)
    rw [List.map_cons, C03.fillBuf_cons_ok i (frOps e N rst bi yor) s (fillR e N rst bi s x) (Sum.inl x) _ rfl]
    exact ⟨ih.1, by simpa [C03.outputs] using ih.2⟩

/-- block by block, a fill/request branch that is a `FillRequest` adapter yields what `runOps` yields for
the schedule "fill every value of the block, then `request()`" -/
theorem frTrace_fr (i : Nat) (e : El σ α β) (N : Nat) (rst bi yor : Bool) :
    ∀ (bl : List (List α)) (s : St σ α β),
      C03.outputs (C03.frTrace i (frOps e N rst bi yor) s (bl.map (List.map Sum.inl))) =
        ((runOps e N rst bi yor (bl.flatMap (fun b => b.map Op.fill ++ [Op.request])) s).1.flatten).map Sum.inr
  | [], _ => rfl
  | blk :: rest, s => by
    obtain ⟨h1, h2⟩ := fillBuf_fr i e N rst bi yor blk s
    have hst : (C03.fillBuf i (frOps e N rst bi yor) s (blk.map Sum.inl)).2.1 = blk.foldl (fillR e N rst bi) s :=
      congrArg Prod.fst h1
    have hfl : (C03.fillBuf i (frOps e N rst bi yor) s (blk.map Sum.inl)).2.2 = false := congrArg Prod.snd h1
    simp only [List.map_cons, C03.frTrace, hst, hfl, Bool.false_eq_true, if_false, C03.outputs_append, h2,
      List.nil_append, C03.outputs, C03.outputs_outs, List.flatMap_cons, List.append_assoc]
    rw [runOps_append, runOps_fills]
    simp only [List.nil_append, List.cons_append, runOps, List.flatten_cons, List.map_append]
    rw [frTrace_fr i e N rst bi yor rest]
    rfl

/-- **C16 ↔ C03.**  In ANY `Split` (branches with distinct tags, any `bufsize ≠ 0`, either `copy_buf`)
that contains the branch `frBranch i e N rst bi yor el`, the values `Split.run` yields on behalf of that
branch — read off the transcribed loops of C03 — are exactly `C16.splitFR`, for every flow. -/
theorem c16_splitFR_agrees (s : C03.Split (St σ α β) (α ⊕ β)) (hv : s.bufsize ≠ some 0)
    (hnd : (s.branches.map (·.id)).Nodup) (i : Nat) (e : El σ α β) (N : Nat) (rst bi yor : Bool) (el : σ)
    (hb : frBranch i e N rst bi yor el ∈ s.branches) (xs : List α) :
    C03.outputsOf i (s.runTrace (xs.map Sum.inl)) = (splitFR e N rst bi yor s.bufsize el xs).map Sum.inr := by
  have hp := C03.projection s hv hnd _ hb (xs.map Sum.inl)
  simp only [frBranch] at hp
  unfold C03.outputsOf
  rw [hp, C03.branchTrace_fillRequest _ rfl, blocks_map]
  unfold splitFR splitOps
  rw [c16_splitBlocks_eq_blocks s.bufsize hv]
  by_cases hx : xs = []
  · subst hx
    simp [C03.outputs, C03.outputs_outs, runOps, frOps]
  · have hbl : C03.blocks s.bufsize xs ≠ [] := by
      intro h0
      have := C03.blocks_flatten s.bufsize hv xs
      rw [h0] at this
      exact hx (by simpa using this.symm)
    have hx' : xs.isEmpty = false := by cases xs <;> simp_all
    simp only [List.map_eq_nil_iff, hbl, if_false, hx', Bool.false_eq_true]
    exact frTrace_fr i e N rst bi yor _ _

/-- the special case C16 names: `Split([FillRequest(el, …)], bufsize=m).run(xs)` -/
theorem c16_single_branch_agrees (e : El σ α β) (N : Nat) (rst bi yor : Bool) (m : Option Nat) (hm : m ≠ some 0)
    (copyBuf : Bool) (el : σ) (xs : List α) :
    C03.Split.run { branches := [frBranch 0 e N rst bi yor el], bufsize := m, copyBuf := copyBuf } (xs.map Sum.inl)
      = (splitFR e N rst bi yor m el xs).map Sum.inr := by
  have h := c16_splitFR_agrees { branches := [frBranch 0 e N rst bi yor el], bufsize := m, copyBuf := copyBuf }
    hm (by simp) 0 e N rst bi yor el (by simp) xs
  rw [← h]
  simp only [C03.Split.run, List.isEmpty_cons, Bool.false_eq_true, if_false, C03.outputsOf]
  congr 1
  symm
  apply C03.proj_eq_self
  intro ev hev
  have hp := C03.projection { branches := [frBranch 0 e N rst bi yor el], bufsize := m, copyBuf := copyBuf }
    hm (by simp) (frBranch 0 e N rst bi yor el) (by simp) (xs.map Sum.inl)
  -- every event of a one-branch Split belongs to that branch
  have hall : ∀ ev ∈ C03.Split.schedule
      { branches := [frBranch 0 e N rst bi yor el], bufsize := m, copyBuf := copyBuf } (xs.map Sum.inl),
      ev.branch = some 0 := by
    intro ev hev
    simp only [C03.Split.schedule, List.flatMap_cons, List.flatMap_nil, List.append_nil, List.mem_append,
      List.mem_flatMap, List.mem_range] at hev
    rcases hev with ⟨k, _, hk⟩ | hk
    · exact C03.contribution_branch _ _ k ev hk
    · exact C03.finalContribution_branch _ _ ev hk
  rw [C03.run_eq_schedule
    { branches := [frBranch 0 e N rst bi yor el], bufsize := m, copyBuf := copyBuf } hm] at hev
  exact hall ev hev

/-! ### non-vacuity and transfer -/

/-- the regression case of `Props/C16.lean` (`Split(bufsize=2)` around `FillRequest(bufsize=3)`) through the
C03 loops -/
example :
    C03.Split.run
      { branches := [frBranch 0 (lstEl : El (List Nat) Nat (List Nat)) 3 true true false ([] : List Nat)]
        bufsize := some 2
        copyBuf := true } ([0, 1, 2, 3, 4, 5, 6].map Sum.inl)
    = [Sum.inr [0, 1, 2], Sum.inr [3, 4, 5]] := by
  rw [c16_single_branch_agrees _ _ _ _ _ _ (by decide)]
  decide +kernel

/-- **Transfer C16 → C03** (`C16.split_equals_run` through the bridge): in the C03 transcription of
`Split.run`, a `FillRequest` branch yields what `FillRequest.run(flow)` yields — whatever the other branches,
for every Split block size `m ≥ 1` or `None`, dividing the adapter's block size or not. -/
theorem c03_fr_branch_eq_run (s : C03.Split (St σ α β) (α ⊕ β)) (hv : s.bufsize ≠ some 0)
    (hnd : (s.branches.map (·.id)).Nodup) (i : Nat) (e : El σ α β) (c : Cfg) (hN : 0 < c.bufsize)
    (hy : c.yor = false) (hrun : c.runKind = .runRun → RunConsistent e) (el : σ)
    (hb : frBranch i e c.bufsize c.reset c.bufferInput c.yor el ∈ s.branches) (xs : List α) :
    C03.outputsOf i (s.runTrace (xs.map Sum.inl)) = (runFR e c el xs).1.map Sum.inr := by
  rw [c16_splitFR_agrees s hv hnd i e _ _ _ _ el hb xs, split_equals_run e c hN hy hrun s.bufsize hv el xs]

/-- **Transfer C03 → C16** (`C03.copy_buf_irrelevant`/`projection`: the contribution of a branch depends on
that branch and the blocks only): C16's `splitFR`, defined for a `Split` with ONE branch, is also what the
adapter yields next to arbitrary sibling branches — stated above as `c16_splitFR_agrees`; in particular it
does not depend on `copy_buf`. -/
theorem c16_splitFR_any_siblings (brs : List (C03.Branch (St σ α β) (α ⊕ β))) (m : Option Nat) (hm : m ≠ some 0)
    (hnd : (brs.map (·.id)).Nodup) (i : Nat) (e : El σ α β) (N : Nat) (rst bi yor : Bool) (el : σ)
    (hb : frBranch i e N rst bi yor el ∈ brs) (xs : List α) (cb : Bool) :
    C03.outputsOf i (C03.Split.runTrace { branches := brs, bufsize := m, copyBuf := cb } (xs.map Sum.inl)) =
      C03.Split.run { branches := [frBranch 0 e N rst bi yor el], bufsize := m, copyBuf := true } (xs.map Sum.inl) := by
  rw [c16_single_branch_agrees e N rst bi yor m hm true el xs]
  exact c16_splitFR_agrees { branches := brs, bufsize := m, copyBuf := cb } hm hnd i e N rst bi yor el hb xs

end c16

/-! ## 3. C04 ↔ C03: erase the tokens

Python: the same lines of `Split.run` (split.py:313-417), `Split._fill` (257-263), `_compute`/`_request`
(265-273) and `Zip._fill` (zip.py:100-102), transcribed twice: in C03 over plain values, in C04 over
*items* (`skeleton + identities of the mutable objects`) on a shared heap, where `copy.deepcopy` allocates
new objects (`C04.chooseBuf`, `C04.fillOne`) and every yielded value is recorded with a snapshot of the
contents of its objects.

**Translation** (`Erasure`): a value is what its skeleton says (`val : S → α`; identities and heap
contents are forgotten, so a deep copy erases to the same value — `deepcopy_spec`); a branch state is
abstracted by `abs : σ₄ → σ₃` (forget the tokens the object holds); `ops` translates the methods.  Events:
`hand` (which buffer object was bound) disappears, `out i v snap ↦ out i (val v)`, the rest literally.

**Side condition** (`Erasure.Sound`): what a method invocation *returns at the level of skeletons* — the
skeletons yielded, whether `LenaStopFill` was raised, the abstracted new state — is the translated method
applied to the erased arguments, whatever the heap.  The heap itself and the identities may evolve in any
way (no locality hypothesis is needed: the hypothesis quantifies over all heaps).

**Common domain.**  Branches whose skeleton-level behaviour does not depend on the *contents* of mutable
objects.  Inside: every C03 branch (`embed`: C03 is literally the token-free fragment of C04,
`c03_is_token_free_c04`), and of C04's element vocabulary `Variable`, `UpdateContext`, the user mutators,
`Count`, `Slice`, `StoreFilled`, `Histogram`, `SplitIntoBins`, … (they write contexts but never branch on
them).  Outside: elements that *test* a context (`MakeFilename`: "output.filename already there?";
`Sum`/`Mean`/… `.compute`: `if not self._cur_context`) — for those the value abstraction would have to
include heap contents, and agreement with C03 (which assumes that branches do not mutate flow values) needs
C04's non-interference theorem itself; and `Resp.err` (C04 records an exception of `compute`, its loops go
on; C03 has no such outcome). -/

section c04
open Lena.C04 (Item Store Tok World Req Resp)
variable {σ₄ σ₃ S C α : Type}

/-- how a C04 model instance is read as a C03 model instance -/
structure Erasure (σ₄ S C σ₃ α : Type) where
  /-- the plain value of a skeleton -/
  val : S → α
  /-- the branch state without its tokens -/
  abs : σ₄ → σ₃
  /-- the methods of a branch object on plain values -/
  ops : C04.Ops σ₄ S C → C03.Ops σ₃ α

namespace Erasure
variable (E : Erasure σ₄ S C σ₃ α)

def item (x : Item S) : α := E.val x.skel
def buf (xs : List (Item S)) : List α := xs.map E.item

/-- the skeleton-level behaviour of the object `o₄` is `E.ops o₄`, on every heap -/
structure Sound (o₄ : C04.Ops σ₄ S C) : Prop where
  call : ∀ st s, (((o₄.act st s .call).2.2.outs.map E.item), E.abs (o₄.act st s .call).2.1) = (E.ops o₄).call (E.abs s)
  fill : ∀ st s x, (E.abs (o₄.act st s (.fill x)).2.1, (o₄.act st s (.fill x)).2.2.stopped)
      = (E.ops o₄).fill (E.abs s) (E.item x)
  compute : ∀ st s, (((o₄.act st s .compute).2.2.outs.map E.item), E.abs (o₄.act st s .compute).2.1)
      = (E.ops o₄).compute (E.abs s)
  request : ∀ st s, (((o₄.act st s .request).2.2.outs.map E.item), E.abs (o₄.act st s .request).2.1)
      = (E.ops o₄).request (E.abs s)
  run : ∀ st s b, (((o₄.act st s (.run b)).2.2.outs.map E.item), E.abs (o₄.act st s (.run b)).2.1)
      = (E.ops o₄).run (E.abs s) (E.buf b)

def ev : C04.Ev S C → Option (C03.Ev α)
  | .hand _ _ _ => none
  | .fill i x st => some (.fill i (E.item x) st)
  | .call i => some (.call i)
  | .compute i => some (.compute i)
  | .request i => some (.request i)
  | .run i b => some (.run i (E.buf b))
  | .out i v _ => some (.out i (E.item v))
  | .assertFail => some .assertFail

/-- the C03 trace of a C04 trace -/
def trace (tr : List (C04.Ev S C)) : List (C03.Ev α) := tr.filterMap E.ev

def branch (b : C04.Branch σ₄ S C) : C03.Branch σ₃ α :=
  { id := b.id, kind := b.kind, ops := E.ops b.ops, st := E.abs b.st }

def split (s : C04.Split σ₄ S C) : C03.Split σ₃ α :=
  { branches := s.branches.map E.branch, bufsize := s.bufsize, copyBuf := s.copyBuf }

theorem trace_append (l₁ l₂ : List (C04.Ev S C)) : E.trace (l₁ ++ l₂) = E.trace l₁ ++ E.trace l₂ := by
  simp [trace]

theorem trace_cons_hand (i : Nat) (b : List (Item S)) (c : Bool) (l : List (C04.Ev S C)) :
    E.trace (.hand i b c :: l) = E.trace l := rfl
theorem trace_cons_call (i : Nat) (l : List (C04.Ev S C)) : E.trace (.call i :: l) = .call i :: E.trace l := rfl
theorem trace_cons_compute (i : Nat) (l : List (C04.Ev S C)) :
    E.trace (.compute i :: l) = .compute i :: E.trace l := rfl
theorem trace_cons_request (i : Nat) (l : List (C04.Ev S C)) :
    E.trace (.request i :: l) = .request i :: E.trace l := rfl
theorem trace_cons_run (i : Nat) (b : List (Item S)) (l : List (C04.Ev S C)) :
    E.trace (.run i b :: l) = .run i (E.buf b) :: E.trace l := rfl
theorem trace_cons_fill (i : Nat) (x : Item S) (st : Bool) (l : List (C04.Ev S C)) :
    E.trace (.fill i x st :: l) = .fill i (E.item x) st :: E.trace l := rfl
theorem trace_assertFail : E.trace ([.assertFail] : List (C04.Ev S C)) = [.assertFail] := rfl

theorem trace_outsEv (i : Nat) (st : Store C) (vals : List (Item S)) :
    E.trace (C04.outsEv i st vals) = C03.outs i (vals.map E.item) := by
  induction vals with
  | nil => rfl
  | cons v r ih =>
    simp only [trace, C04.outsEv, C03.outs, List.map_cons, List.filterMap_cons, ev] at ih ⊢
    rw [ih]

/-- the values yielded: `C04.outputs` erases to `C03.outputs` -/
theorem outputs_trace (tr : List (C04.Ev S C)) : C03.outputs (E.trace tr) = (C04.outputs tr).map E.item := by
  induction tr with
  | nil => rfl
  | cons e r ih =>
    cases e <;> simp only [trace, List.filterMap_cons, ev, C03.outputs, C04.outputs, List.map_cons] <;>
      first | exact ih | (simp only [trace] at ih; rw [ih])

/-- `for val in buf: try: seq.fill(val) except LenaStopFill: …` (split.py:350-356): `C04.fillBuf` ↦ `C03.fillBuf` -/
theorem fillBuf_erases (i : Nat) (o₄ : C04.Ops σ₄ S C) (h : E.Sound o₄) :
    ∀ (b : List (Item S)) (st : Store C) (s : σ₄),
      E.trace (C04.fillBuf i o₄ st s b).evs = (C03.fillBuf i (E.ops o₄) (E.abs s) (E.buf b)).1 ∧
      (E.abs (C04.fillBuf i o₄ st s b).s, (C04.fillBuf i o₄ st s b).stopped)
        = (C03.fillBuf i (E.ops o₄) (E.abs s) (E.buf b)).2
  | [], _, _ => ⟨rfl, rfl⟩
  | x :: xs, st, s => by
    have hf := h.fill st s x
    simp only [buf, List.map_cons, C04.fillBuf]
    by_cases hs : (o₄.act st s (.fill x)).2.2.stopped = true
    · rw [hs] at hf
      rw [C03.fillBuf_cons_stop i (E.ops o₄) (E.abs s) _ (E.item x) _ hf.symm]
      simp [hs, trace, ev]
    · have hs' : (o₄.act st s (.fill x)).2.2.stopped = false := by simpa using hs
      rw [hs'] at hf
      rw [C03.fillBuf_cons_ok i (E.ops o₄) (E.abs s) _ (E.item x) _ hf.symm]
      obtain ⟨ih1, ih2⟩ := fillBuf_erases i o₄ h xs (o₄.act st s (.fill x)).1 (o₄.act st s (.fill x)).2.1
      simp only [hs', Bool.false_eq_true, if_false]
      refine ⟨?_, ih2⟩
      simp only [trace, List.filterMap_cons, ev] at ih1 ⊢
      rw [ih1]; rfl

/-- the body of the loop over active sequences (split.py:339-395): `C04.stepBranch` ↦ `C03.stepBranch` -/
theorem stepBranch_erases (b : C04.Branch σ₄ S C) (h : E.Sound b.ops) (bf : List (Item S)) (st : Store C) :
    E.trace (C04.stepBranch bf st b).evs = (C03.stepBranch (E.buf bf) (E.branch b)).1 ∧
    (C04.stepBranch bf st b).br.map E.branch = (C03.stepBranch (E.buf bf) (E.branch b)).2 := by
  obtain ⟨f1, f2⟩ := E.fillBuf_erases b.id b.ops h bf st b.st
  have f2a := congrArg Prod.fst f2
  have f2b := congrArg Prod.snd f2
  simp only at f2a f2b
  cases hk : b.kind with
  | source =>
    have hc := h.call st b.st
    simp only [C04.stepBranch, C03.stepBranch, branch, hk, ← hc, Option.map_none, and_true,
      trace_cons_call, trace_outsEv]
  | fillCompute =>
    simp only [C04.stepBranch, C03.stepBranch, branch, hk]
    have hc := h.compute (C04.fillBuf b.id b.ops st b.st bf).st (C04.fillBuf b.id b.ops st b.st bf).s
    rw [← f2b]
    by_cases hs : (C04.fillBuf b.id b.ops st b.st bf).stopped = true
    · simp only [hs, if_true, Option.map_none, and_true, trace_append, f1, ← f2a, ← hc,
        trace_cons_compute, trace_outsEv]
    · simp only [hs, Bool.false_eq_true, if_false, f1, Option.map_some, branch, f2a, and_self]
  | fillRequest =>
    simp only [C04.stepBranch, C03.stepBranch, branch, hk]
    have hc := h.request (C04.fillBuf b.id b.ops st b.st bf).st (C04.fillBuf b.id b.ops st b.st bf).s
    rw [← f2b, ← f2a, ← hc]
    refine ⟨?_, ?_⟩
    · simp only [trace_append, f1, trace_cons_request, trace_outsEv]
    · by_cases hs : (C04.fillBuf b.id b.ops st b.st bf).stopped = true
      · simp [hs]
      · simp [hs, branch]
  | sequence =>
    have hc := h.run st b.st bf
    simp only [C04.stepBranch, C03.stepBranch, branch, hk, ← hc, Option.map_some, and_true,
      trace_cons_run, trace_outsEv]

/-- `copy.deepcopy(orig_buf)` or `orig_buf` (split.py:334-338): the same plain values -/
theorem chooseBuf_erases (copyBuf more : Bool) (orig : List (Item S)) (ns : Nat) (w : World C) :
    E.buf (C04.chooseBuf copyBuf more orig ns w).2.1 = E.buf orig := by
  unfold C04.chooseBuf
  split
  · have h := (C04.deepcopy_spec ns w orig).2.1
    have key : ∀ l : List (Item S), E.buf l = (l.map (·.skel)).map E.val := by
      intro l; simp [buf, item, List.map_map, Function.comp_def]
    rw [key, key]
    exact congrArg (List.map E.val) h
  · rfl

/-- one buffer, all active branches: `C04.pass` ↦ C03's fold of `stepBranch` -/
theorem pass_erases (copyBuf : Bool) (orig : List (Item S)) :
    ∀ (act : List (C04.Branch σ₄ S C)) (w : World C), (∀ b ∈ act, E.Sound b.ops) →
      E.trace (C04.pass copyBuf orig w act).1 = (C03.foldB (C03.stepBranch (E.buf orig)) (act.map E.branch)).1 ∧
      (C04.pass copyBuf orig w act).2.1.map E.branch = (C03.foldB (C03.stepBranch (E.buf orig)) (act.map E.branch)).2 ∧
      (∀ b ∈ (C04.pass copyBuf orig w act).2.1, E.Sound b.ops)
  | [], _, _ => ⟨rfl, rfl, by intro b hb; simp [C04.pass] at hb⟩
  | b :: rest, w, hs => by
    have hb := hs b (List.mem_cons_self ..)
    have hrest : ∀ b' ∈ rest, E.Sound b'.ops := fun b' hb' => hs b' (List.mem_cons_of_mem _ hb')
    simp only [C04.pass, List.map_cons, C03.foldB]
    obtain ⟨s1, s2⟩ := E.stepBranch_erases b hb
      (C04.chooseBuf copyBuf (!rest.isEmpty) orig (C04.copyNsOf b.id) w).2.1
      (C04.chooseBuf copyBuf (!rest.isEmpty) orig (C04.copyNsOf b.id) w).1.st
    rw [chooseBuf_erases] at s1 s2
    obtain ⟨i1, i2, i3⟩ := pass_erases copyBuf orig rest
      { (C04.chooseBuf copyBuf (!rest.isEmpty) orig (C04.copyNsOf b.id) w).1 with
        st := (C04.stepBranch (C04.chooseBuf copyBuf (!rest.isEmpty) orig (C04.copyNsOf b.id) w).2.1
          (C04.chooseBuf copyBuf (!rest.isEmpty) orig (C04.copyNsOf b.id) w).1.st b).st } hrest
    refine ⟨?_, ?_, ?_⟩
    · show E.trace (_ :: (_ ++ _)) = _
      rw [E.trace_cons_hand, E.trace_append, s1]
      exact congrArg _ i1
    · rw [← s2]
      cases hbr : (C04.stepBranch (C04.chooseBuf copyBuf (!rest.isEmpty) orig (C04.copyNsOf b.id) w).2.1
          (C04.chooseBuf copyBuf (!rest.isEmpty) orig (C04.copyNsOf b.id) w).1.st b).br with
      | none => simpa using i2
      | some b' => simpa using i2
    · intro b'' hb''
      cases hbr : (C04.stepBranch (C04.chooseBuf copyBuf (!rest.isEmpty) orig (C04.copyNsOf b.id) w).2.1
          (C04.chooseBuf copyBuf (!rest.isEmpty) orig (C04.copyNsOf b.id) w).1.st b).br with
      | none => rw [hbr] at hb''; exact i3 b'' hb''
      | some b' =>
        rw [hbr] at hb''
        rcases List.mem_cons.mp hb'' with rfl | hb''
        · rw [(C04.stepBranch_br _ _ b _ hbr).2.2.1]; exact hb
        · exact i3 b'' hb''

/-- buffer after buffer -/
theorem passes_erases (copyBuf : Bool) :
    ∀ (bl : List (List (Item S))) (w : World C) (act : List (C04.Branch σ₄ S C)), (∀ b ∈ act, E.Sound b.ops) →
      E.trace (C04.passes copyBuf bl w act).1 = (C03.passes (bl.map E.buf) (act.map E.branch)).1 ∧
      (C04.passes copyBuf bl w act).2.1.map E.branch = (C03.passes (bl.map E.buf) (act.map E.branch)).2 ∧
      (∀ b ∈ (C04.passes copyBuf bl w act).2.1, E.Sound b.ops)
  | [], _, _, hs => ⟨rfl, rfl, hs⟩
  | blk :: rest, w, act, hs => by
    obtain ⟨p1, p2, p3⟩ := E.pass_erases copyBuf blk act w hs
    obtain ⟨q1, q2, q3⟩ := passes_erases copyBuf rest (C04.pass copyBuf blk w act).2.2 (C04.pass copyBuf blk w act).2.1 p3
    simp only [C04.passes, C03.passes, List.map_cons, trace_append, p1, ← p2, q1, q2, true_and]
    exact q3

/-- the final pass (split.py:400-417) -/
theorem finalPass_erases (fwe : Bool) :
    ∀ (act : List (C04.Branch σ₄ S C)) (st : Store C), (∀ b ∈ act, E.Sound b.ops) →
      E.trace (C04.finalPass fwe st act).1 = C03.finalPass fwe (act.map E.branch)
  | [], _, _ => rfl
  | b :: rest, st, hs => by
    have hb := hs b (List.mem_cons_self ..)
    have hrest : ∀ b' ∈ rest, E.Sound b'.ops := fun b' hb' => hs b' (List.mem_cons_of_mem _ hb')
    cases hk : b.kind with
    | source =>
      cases fwe with
      | false => simp [C04.finalPass, C03.finalPass, branch, hk, trace_assertFail]
      | true =>
        have hc := congrArg Prod.fst (hb.call st b.st)
        simp only at hc
        simp only [C04.finalPass, C03.finalPass, List.map_cons, branch, hk, if_true, ← hc,
          trace_cons_call, trace_append, trace_outsEv]
        rw [finalPass_erases true rest _ hrest]
    | fillCompute =>
      have hc := congrArg Prod.fst (hb.compute st b.st)
      simp only at hc
      simp only [C04.finalPass, C03.finalPass, List.map_cons, branch, hk, ← hc,
        trace_cons_compute, trace_append, trace_outsEv]
      rw [finalPass_erases fwe rest _ hrest]
    | fillRequest =>
      cases fwe with
      | false =>
        simp only [C04.finalPass, C03.finalPass, List.map_cons, branch, hk, Bool.false_eq_true, if_false]
        exact finalPass_erases false rest _ hrest
      | true =>
        have hc := congrArg Prod.fst (hb.request st b.st)
        simp only at hc
        simp only [C04.finalPass, C03.finalPass, List.map_cons, branch, hk, if_true, ← hc,
          trace_cons_request, trace_append, trace_outsEv]
        rw [finalPass_erases true rest _ hrest]
    | sequence =>
      cases fwe with
      | false =>
        simp only [C04.finalPass, C03.finalPass, List.map_cons, branch, hk, Bool.false_eq_true, if_false]
        exact finalPass_erases false rest _ hrest
      | true =>
        have hc := congrArg Prod.fst (hb.run st b.st [])
        simp only at hc
        simp only [C04.finalPass, C03.finalPass, List.map_cons, branch, hk, if_true,
          trace_cons_run, trace_append, trace_outsEv]
        rw [finalPass_erases true rest _ hrest, hc]
        rfl

end Erasure

/-- **C04 ↔ C03, `Split.run`.**  For every `Split` (any number and mix of branches, `bufsize` `None` or
`≥ 1`, both values of `copy_buf`), every initial heap and every flow: the event trace of the token/heap
transcription, with the tokens erased, IS the event trace of the plain transcription on the erased
`Split` and flow — provided the branches' skeleton-level behaviour is heap-independent (`Sound`). -/
theorem c04_run_erases (E : Erasure σ₄ S C σ₃ α) (s : C04.Split σ₄ S C) (hv : s.bufsize ≠ some 0)
    (hs : ∀ b ∈ s.branches, E.Sound b.ops) (st0 : Store C) (flow : List (Item S)) :
    E.trace (s.runTrace st0 flow).1 = (E.split s).runTrace (E.buf flow) := by
  rw [C04.runTrace_eq s hv, C03.loop_refines_spec (E.split s) hv]
  simp only [C03.Split.runSpec, Erasure.split, Erasure.buf, blocks_map]
  obtain ⟨p1, p2, p3⟩ := E.passes_erases s.copyBuf (C03.blocks s.bufsize flow) { st := st0, cc := 0 } s.branches hs
  have hbuf : (E.buf : List (Item S) → List α) = List.map E.item := rfl
  rw [hbuf] at p1 p2
  rw [E.trace_append, p1, ← p2, E.finalPass_erases _ _ _ p3]
  simp

/-- what `split.run(flow)` yields -/
theorem c04_outputs_erase (E : Erasure σ₄ S C σ₃ α) (s : C04.Split σ₄ S C) (hv : s.bufsize ≠ some 0)
    (hs : ∀ b ∈ s.branches, E.Sound b.ops) (st0 : Store C) (flow : List (Item S)) :
    (C04.outputs (s.runTrace st0 flow).1).map E.item = C03.outputs ((E.split s).runTrace (E.buf flow)) := by
  rw [← c04_run_erases E s hv hs, E.outputs_trace]

theorem emptyRun_eq {β : Type} : ∀ (l : List β), C03.emptyRun l = l
  | [] => rfl
  | x :: r => by simp [C03.emptyRun, emptyRun_eq r]

/-- **C04 ↔ C03, what `split.run(flow)` yields** (`C04.Split.run` / `C03.Split.run`, the `_empty_run` of a
`Split([])` included) -/
theorem c04_splitRun_erases (E : Erasure σ₄ S C σ₃ α) (s : C04.Split σ₄ S C) (hv : s.bufsize ≠ some 0)
    (hs : ∀ b ∈ s.branches, E.Sound b.ops) (st0 : Store C) (flow : List (Item S)) :
    (s.run st0 flow).1.map E.item = (E.split s).run (E.buf flow) := by
  unfold C04.Split.run C03.Split.run
  by_cases he : s.branches.isEmpty = true
  · have he' : (E.split s).branches.isEmpty = true := by simpa [Erasure.split] using he
    simp only [he, he', if_true, emptyRun_eq]
    rfl
  · have he' : ¬ (E.split s).branches.isEmpty = true := by simpa [Erasure.split] using he
    simp only [he, he']
    exact c04_outputs_erase E s hv hs st0 flow

/-! ### `Split._fill`, `Zip._fill`, `_compute`, `_request` -/

namespace Erasure
variable (E : Erasure σ₄ S C σ₃ α)

/-- the value handed to a branch by `_fill` — `copy.deepcopy(val)` or `val` — erases to the same plain value -/
theorem fillOne_item (copied : Bool) (x : Item S) (ns : Nat) (w : World C) :
    E.item ((if copied then C04.deepcopy ns w [x] else (w, [x])).2.headD x) = E.item x := by
  cases copied with
  | false => rfl
  | true =>
    have h1 := C04.deepcopy_single ns w x
    have h2 := (C04.deepcopy_spec ns w [x]).2.1
    rw [h1] at h2
    simp only [List.map_cons, List.map_nil, List.cons.injEq, and_true] at h2
    simp only [if_true, item, h2]

/-- `seq.fill(copy.deepcopy(val))` / `seq.fill(val)` for one branch -/
theorem fillOne_erases (copied : Bool) (x : Item S) (w : World C) (b : C04.Branch σ₄ S C) (h : E.Sound b.ops) :
    E.branch (C04.fillOne copied x w b).2.2.1 =
      { E.branch b with st := ((E.ops b.ops).fill (E.abs b.st) (E.item x)).1 } ∧
    (C04.fillOne copied x w b).2.2.2 = ((E.ops b.ops).fill (E.abs b.st) (E.item x)).2 ∧
    (C04.fillOne copied x w b).2.2.1.ops = b.ops := by
  have hi := E.fillOne_item copied x (C04.copyNsOf b.id) w
  have hf := h.fill (if copied then C04.deepcopy (C04.copyNsOf b.id) w [x] else (w, [x])).1.st b.st
    ((if copied then C04.deepcopy (C04.copyNsOf b.id) w [x] else (w, [x])).2.headD x)
  rw [hi] at hf
  refine ⟨?_, ?_, rfl⟩
  · simp only [C04.fillOne, branch]
    rw [← congrArg Prod.fst hf]
  · simp only [C04.fillOne]
    rw [← congrArg Prod.snd hf]

/-- the loop shared by `Split._fill` and `Zip._fill`, for any copy policy -/
theorem fillLoop_erases (x : Item S) (loop : World C → List (C04.Branch σ₄ S C) → C04.FillAllRes σ₄ S C)
    (copied : List (C04.Branch σ₄ S C) → Bool)
    (hnil : ∀ w, loop w [] = ⟨[], w, [], false⟩)
    (hcons : ∀ w b rest, loop w (b :: rest) =
      (let r := C04.fillOne (copied rest) x w b
       if r.2.2.2 then ⟨r.1, r.2.1, r.2.2.1 :: rest, true⟩
       else
         let q := loop r.2.1 rest
         ⟨r.1 ++ q.evs, q.w, r.2.2.1 :: q.brs, q.stopped⟩)) :
    ∀ (brs : List (C04.Branch σ₄ S C)) (w : World C), (∀ b ∈ brs, E.Sound b.ops) →
      ((loop w brs).brs.map E.branch, (loop w brs).stopped) = C03.splitFill (E.item x) (brs.map E.branch) ∧
      (∀ b ∈ (loop w brs).brs, E.Sound b.ops)
  | [], w, _ => by rw [hnil]; exact ⟨rfl, by intro b hb; simp at hb⟩
  | b :: rest, w, hs => by
    have hb := hs b (List.mem_cons_self ..)
    have hrest : ∀ b' ∈ rest, E.Sound b'.ops := fun b' hb' => hs b' (List.mem_cons_of_mem _ hb')
    obtain ⟨f1, f2, f3⟩ := E.fillOne_erases (copied rest) x w b hb
    rw [hcons]
    simp only [List.map_cons, C03.splitFill]
    have hbr : (E.branch b).ops.fill (E.branch b).st (E.item x) = (E.ops b.ops).fill (E.abs b.st) (E.item x) := rfl
    rw [hbr]
    by_cases hst : (C04.fillOne (copied rest) x w b).2.2.2 = true
    · have hst' : ((E.ops b.ops).fill (E.abs b.st) (E.item x)).2 = true := by rw [← f2]; exact hst
      have hp : (E.ops b.ops).fill (E.abs b.st) (E.item x)
          = (((E.ops b.ops).fill (E.abs b.st) (E.item x)).1, true) := Prod.ext rfl hst'
      rw [hp]
      simp only [hst, if_true, List.map_cons, f1]
      refine ⟨by first | trivial | rfl, ?_⟩
      intro b' hb'
      rcases List.mem_cons.mp hb' with rfl | hb'
      · rw [f3]; exact hb
      · exact hrest b' hb'
    · have hst0 : (C04.fillOne (copied rest) x w b).2.2.2 = false := by simpa using hst
      have hst' : ((E.ops b.ops).fill (E.abs b.st) (E.item x)).2 = false := by rw [← f2]; exact hst0
      have hp : (E.ops b.ops).fill (E.abs b.st) (E.item x)
          = (((E.ops b.ops).fill (E.abs b.st) (E.item x)).1, false) := Prod.ext rfl hst'
      rw [hp]
      obtain ⟨i1, i2⟩ := fillLoop_erases x loop copied hnil hcons rest (C04.fillOne (copied rest) x w b).2.1 hrest
      simp only [hst0, Bool.false_eq_true, if_false, List.map_cons, f1]
      rw [← i1]
      refine ⟨by first | trivial | rfl, ?_⟩
      intro b' hb'
      rcases List.mem_cons.mp hb' with rfl | hb'
      · rw [f3]; exact hb
      · exact i2 b' hb'

end Erasure

/-- **C04 ↔ C03, `Split._fill(val)`** (split.py:257-263), both values of `copy_buf`: the branches afterwards
and whether `LenaStopFill` left the loop -/
theorem c04_splitFill_erases (E : Erasure σ₄ S C σ₃ α) (copyBuf : Bool) (x : Item S)
    (brs : List (C04.Branch σ₄ S C)) (w : World C) (hs : ∀ b ∈ brs, E.Sound b.ops) :
    ((C04.splitFill copyBuf x w brs).brs.map E.branch, (C04.splitFill copyBuf x w brs).stopped)
      = C03.splitFill (E.item x) (brs.map E.branch) :=
  (E.fillLoop_erases x (C04.splitFill copyBuf x) (fun rest => copyBuf && !rest.isEmpty)
    (fun _ => rfl) (fun _ _ _ => rfl) brs w hs).1

/-- **C04 ↔ C03, `Zip._fill(val)`** (zip.py:100-102; C03 re-uses `splitFill`: `C03.zipFill`) -/
theorem c04_zipFill_erases (E : Erasure σ₄ S C σ₃ α) (x : Item S)
    (brs : List (C04.Branch σ₄ S C)) (w : World C) (hs : ∀ b ∈ brs, E.Sound b.ops) :
    ((C04.zipFill x w brs).brs.map E.branch, (C04.zipFill x w brs).stopped)
      = C03.zipFill (E.item x) (brs.map E.branch) :=
  (E.fillLoop_erases x (C04.zipFill x) (fun _ => true) (fun _ => rfl) (fun _ _ _ => rfl) brs w hs).1

/-- **C04 ↔ C03, a caller that fills a whole flow** (`for val in flow: split.fill(val)` until `LenaStopFill`):
`C04.fillFlow (splitFill copyBuf)` ↦ `C03.splitFillAll` -/
theorem c04_fillFlow_erases (E : Erasure σ₄ S C σ₃ α) (copyBuf : Bool) :
    ∀ (flow : List (Item S)) (brs : List (C04.Branch σ₄ S C)) (w : World C), (∀ b ∈ brs, E.Sound b.ops) →
      ((C04.fillFlow (C04.splitFill copyBuf) w brs flow).brs.map E.branch,
        (C04.fillFlow (C04.splitFill copyBuf) w brs flow).stopped)
        = C03.splitFillAll (brs.map E.branch) (E.buf flow)
  | [], _, _, _ => rfl
  | x :: xs, brs, w, hs => by
    obtain ⟨f1, f2⟩ := E.fillLoop_erases x (C04.splitFill copyBuf x) (fun rest => copyBuf && !rest.isEmpty)
      (fun _ => rfl) (fun _ _ _ => rfl) brs w hs
    simp only [C04.fillFlow, Erasure.buf, List.map_cons, C03.splitFillAll]
    rw [← f1]
    by_cases hst : (C04.splitFill copyBuf x w brs).stopped = true
    · simp [hst]
    · have hst0 : (C04.splitFill copyBuf x w brs).stopped = false := by simpa using hst
      simp only [hst0, Bool.false_eq_true, if_false]
      exact c04_fillFlow_erases E copyBuf xs _ _ f2

/-- **C04 ↔ C03, `Split._compute()` / `Split._request()`** (split.py:265-273): `C04.collect` ↦
`C03.splitCompute` / `C03.splitRequest` -/
theorem c04_compute_erases (E : Erasure σ₄ S C σ₃ α) :
    ∀ (brs : List (C04.Branch σ₄ S C)) (st : Store C), (∀ b ∈ brs, E.Sound b.ops) →
      ((C04.outputs (C04.collect .compute C04.Ev.compute st brs).1).map E.item,
        (C04.collect .compute C04.Ev.compute st brs).2.2.map E.branch) = C03.splitCompute (brs.map E.branch)
  | [], _, _ => rfl
  | b :: rest, st, hs => by
    have hb := hs b (List.mem_cons_self ..)
    have hc := hb.compute st b.st
    have ih := c04_compute_erases E rest (b.ops.act st b.st .compute).1 (fun b' hb' => hs b' (List.mem_cons_of_mem _ hb'))
    simp only [C04.collect, List.map_cons, C03.splitCompute, C04.outputs, C04.outputs_append, C04.outputs_outsEv,
      List.map_append]
    rw [← ih]
    have hbr : (E.branch b).ops.compute (E.branch b).st = (E.ops b.ops).compute (E.abs b.st) := rfl
    rw [hbr, ← hc]
    rfl

theorem c04_request_erases (E : Erasure σ₄ S C σ₃ α) :
    ∀ (brs : List (C04.Branch σ₄ S C)) (st : Store C), (∀ b ∈ brs, E.Sound b.ops) →
      ((C04.outputs (C04.collect .request C04.Ev.request st brs).1).map E.item,
        (C04.collect .request C04.Ev.request st brs).2.2.map E.branch) = C03.splitRequest (brs.map E.branch)
  | [], _, _ => rfl
  | b :: rest, st, hs => by
    have hb := hs b (List.mem_cons_self ..)
    have hc := hb.request st b.st
    have ih := c04_request_erases E rest (b.ops.act st b.st .request).1 (fun b' hb' => hs b' (List.mem_cons_of_mem _ hb'))
    simp only [C04.collect, List.map_cons, C03.splitRequest, C04.outputs, C04.outputs_append, C04.outputs_outsEv,
      List.map_append]
    rw [← ih]
    have hbr : (E.branch b).ops.request (E.branch b).st = (E.ops b.ops).request (E.abs b.st) := rfl
    rw [hbr, ← hc]
    rfl

/-! ### the canonical erasure; C03 is the token-free fragment of C04 -/

/-- a value without mutable objects -/
def bare (x : S) : Item S := ⟨x, []⟩

/-- the methods of a C04 object read off on a heap that holds `c0` everywhere and on values without
mutable objects: skeletons yielded, flag, new state -/
def canonOps (c0 : C) (o : C04.Ops σ₄ S C) : C03.Ops σ₄ S :=
  { call := fun s => ((o.act (fun _ => c0) s .call).2.2.outs.map (·.skel), (o.act (fun _ => c0) s .call).2.1)
    fill := fun s x =>
      ((o.act (fun _ => c0) s (.fill (bare x))).2.1, (o.act (fun _ => c0) s (.fill (bare x))).2.2.stopped)
    compute := fun s =>
      ((o.act (fun _ => c0) s .compute).2.2.outs.map (·.skel), (o.act (fun _ => c0) s .compute).2.1)
    request := fun s =>
      ((o.act (fun _ => c0) s .request).2.2.outs.map (·.skel), (o.act (fun _ => c0) s .request).2.1)
    run := fun s b =>
      ((o.act (fun _ => c0) s (.run (b.map bare))).2.2.outs.map (·.skel),
        (o.act (fun _ => c0) s (.run (b.map bare))).2.1) }

/-- the canonical erasure: values are skeletons, states are kept -/
def canon (c0 : C) : Erasure σ₄ S C σ₄ S := { val := id, abs := id, ops := canonOps c0 }

/-- the observable (skeleton-level) behaviour of the object depends neither on the heap nor on identities -/
def Oblivious (c0 : C) (o : C04.Ops σ₄ S C) : Prop := (canon c0).Sound o

/-- a C03 branch object as a C04 branch object that owns no mutable object and never touches the heap -/
def embedOps {σ α : Type} (o : C03.Ops σ α) : C04.Ops σ α Unit :=
  { act := fun st s r =>
      match r with
      | .call => (st, (o.call s).2, { outs := (o.call s).1.map bare })
      | .fill x => (st, (o.fill s x.skel).1, { stopped := (o.fill s x.skel).2 })
      | .compute => (st, (o.compute s).2, { outs := (o.compute s).1.map bare })
      | .request => (st, (o.request s).2, { outs := (o.request s).1.map bare })
      | .run b => (st, (o.run s (b.map (·.skel))).2, { outs := (o.run s (b.map (·.skel))).1.map bare })
    refs := fun _ => [] }

def embedBranch {σ α : Type} (b : C03.Branch σ α) : C04.Branch σ α Unit :=
  { id := b.id, kind := b.kind, ops := embedOps b.ops, st := b.st }

def embedSplit {σ α : Type} (s : C03.Split σ α) : C04.Split σ α Unit :=
  { branches := s.branches.map embedBranch, bufsize := s.bufsize, copyBuf := s.copyBuf }

theorem map_skel_bare {α : Type} (l : List α) : (l.map (bare : α → Item α)).map (·.skel) = l := by
  simp [List.map_map, Function.comp_def, bare]

theorem canonOps_embed {σ α : Type} (o : C03.Ops σ α) : canonOps () (embedOps o) = o := by
  cases o
  simp only [canonOps, embedOps, map_skel_bare, bare]

/-- every C03 object, embedded, is heap-oblivious: `Sound` is satisfiable by every branch C03 can express -/
theorem embed_oblivious {σ α : Type} (o : C03.Ops σ α) : Oblivious () (embedOps o) := by
  have key : ∀ l : List α, List.map (canon (σ₄ := σ) ()).item (l.map (bare : α → Item α)) = l := by
    intro l; simp [Erasure.item, canon, List.map_map, Function.comp_def, bare]
  have kb : ∀ b : List (Item α), (canon (σ₄ := σ) ()).buf b = b.map (·.skel) := by
    intro b; simp [Erasure.buf, Erasure.item, canon]
  unfold Oblivious
  constructor
  · intro st s
    show (List.map (canon (σ₄ := σ) ()).item ((o.call s).1.map bare), (o.call s).2) = (canonOps () (embedOps o)).call s
    rw [canonOps_embed, key]
  · intro st s x
    show ((o.fill s x.skel).1, (o.fill s x.skel).2) = (canonOps () (embedOps o)).fill s x.skel
    rw [canonOps_embed]
  · intro st s
    show (List.map (canon (σ₄ := σ) ()).item ((o.compute s).1.map bare), (o.compute s).2) = (canonOps () (embedOps o)).compute s
    rw [canonOps_embed, key]
  · intro st s
    show (List.map (canon (σ₄ := σ) ()).item ((o.request s).1.map bare), (o.request s).2) = (canonOps () (embedOps o)).request s
    rw [canonOps_embed, key]
  · intro st s b
    show (List.map (canon (σ₄ := σ) ()).item ((o.run s (b.map (·.skel))).1.map bare), (o.run s (b.map (·.skel))).2)
      = (canonOps () (embedOps o)).run s ((canon (σ₄ := σ) ()).buf b)
    rw [canonOps_embed, key, kb]

/-- **C03 is literally the token-free fragment of C04** (unconditional, for EVERY C03 `Split` — any branches,
kinds, methods — and every flow): run the C04 transcription of `Split.run` on the embedded `Split` (objects that
own no mutable object), erase — the result is the trace of the C03 transcription. -/
theorem c03_is_token_free_c04 {σ α : Type} (s : C03.Split σ α) (hv : s.bufsize ≠ some 0) (st0 : Store Unit)
    (flow : List α) :
    (canon (σ₄ := σ) ()).trace ((embedSplit s).runTrace st0 (flow.map bare)).1 = s.runTrace flow := by
  rw [c04_run_erases (canon (σ₄ := σ) ()) (embedSplit s) hv
    (by intro b hb
        simp only [embedSplit, List.mem_map] at hb
        obtain ⟨b', _, rfl⟩ := hb
        exact embed_oblivious b'.ops)]
  have h1 : (canon (σ₄ := σ) ()).split (embedSplit s) = s := by
    cases s with
    | mk brs bs cb =>
      simp only [Erasure.split, embedSplit, List.map_map, C03.Split.mk.injEq, and_true]
      conv => rhs; rw [← List.map_id brs]
      apply List.map_congr_left
      intro b _
      cases b
      simp [Erasure.branch, embedBranch, canon, canonOps_embed]
  have h2 : (canon (σ₄ := σ) ()).buf (flow.map (bare : α → Item α)) = flow := by
    simp [Erasure.buf, Erasure.item, canon, List.map_map, Function.comp_def, bare]
  rw [h1, h2]

/-! ### an object that does mutate the heap, and is `Sound`

`tagger`: a fill/compute element in the style of `Variable`/`UpdateContext` + `StoreFilled`: `fill` writes
into every mutable object of the value it is given (the heap changes) and keeps the value; `compute`
yields what was kept.  Its skeleton-level behaviour is `taggerPlain`, whatever the heap. -/

def tagger : C04.Ops (List (Item Nat)) Nat Nat :=
  { act := fun st s r =>
      match r with
      | .fill x => (x.cells.foldl (fun h t => h.set t (h t + 1)) st, s ++ [x], {})
      | .compute => (st, s, { outs := s })
      | .request => (st, [], { outs := s })
      | .call => (st, s, {})
      | .run b => (st, s, { outs := b })
    refs := fun s => C04.cellsOf s }

def taggerPlain : C03.Ops (List Nat) Nat :=
  { call := fun s => ([], s), fill := fun s x => (s ++ [x], false), compute := fun s => (s, s)
    request := fun s => (s, []), run := fun s b => (b, s) }

def taggerErasure : Erasure (List (Item Nat)) Nat Nat (List Nat) Nat :=
  { val := id, abs := fun s => s.map (·.skel), ops := fun _ => taggerPlain }

theorem tagger_sound : taggerErasure.Sound tagger := by
  constructor <;> intros <;> simp [tagger, taggerPlain, taggerErasure, Erasure.item, Erasure.buf]

/-- a run in which the heap is really mutated (the object of the first value holds 1 afterwards — the second
branch got the original buffer) and where the erased C04 trace is the C03 trace -/
example :
    let s : C04.Split (List (Item Nat)) Nat Nat :=
      { branches := [{ id := 0, kind := .fillCompute, ops := tagger, st := [] },
                     { id := 1, kind := .fillRequest, ops := tagger, st := [] }],
        bufsize := some 2, copyBuf := true }
    let flow : List (Item Nat) := [⟨10, [(0, 0)]⟩, ⟨11, [(0, 1)]⟩, ⟨12, []⟩]
    (s.runTrace (fun _ => 0) flow).2 (0, 0) = 1 ∧
    taggerErasure.trace (s.runTrace (fun _ => 0) flow).1 = (taggerErasure.split s).runTrace [10, 11, 12] ∧
    C03.outputs ((taggerErasure.split s).runTrace [10, 11, 12]) = [10, 11, 12, 10, 11, 12] := by
  refine ⟨by decide, ?_, by decide⟩
  exact c04_run_erases taggerErasure _ (by decide)
    (by intro b hb; simp only [List.mem_cons, List.not_mem_nil, or_false] at hb
        rcases hb with rfl | rfl <;> exact tagger_sound) _ _

/-! ### transfer C03 → C04 -/

theorem filter_filterMap_comm {A B : Type} (f : A → Option B) (p : B → Bool) (q : A → Bool)
    (h : ∀ a b, f a = some b → p b = q a) : ∀ l : List A, (l.filterMap f).filter p = (l.filter q).filterMap f
  | [] => rfl
  | a :: l => by
    have ih := filter_filterMap_comm f p q h l
    cases hf : f a with
    | none =>
      rw [List.filterMap_cons_none hf, List.filter_cons]
      split
      · rw [List.filterMap_cons_none hf]; exact ih
      · exact ih
    | some b =>
      rw [List.filterMap_cons_some hf, List.filter_cons, List.filter_cons, h a b hf]
      split
      · rw [List.filterMap_cons_some hf, ih]
      · exact ih

theorem Erasure.ev_branch (E : Erasure σ₄ S C σ₃ α) (e : C04.Ev S C) (e' : C03.Ev α) (h : E.ev e = some e') :
    e'.branch = e.branch := by
  cases e <;> simp only [Erasure.ev, Option.some.injEq] at h <;> first | (subst h; rfl) | exact absurd h (by simp)

theorem Erasure.proj_trace (E : Erasure σ₄ S C σ₃ α) (i : Nat) (tr : List (C04.Ev S C)) :
    C03.proj i (E.trace tr) = E.trace (C04.proj i tr) :=
  filter_filterMap_comm E.ev _ _ (fun a b h => by rw [E.ev_branch a b h]) tr

/-- **Transfer C03 → C04** (`C03.projection` + the four closed forms of `branchTrace`): in the token model, the
events of a branch — erased — are the life of that branch over the blocks of the flow as C03 defines it;
whatever the other branches do to the heap. -/
theorem c04_branch_events (E : Erasure σ₄ S C σ₃ α) (s : C04.Split σ₄ S C) (hv : s.bufsize ≠ some 0)
    (hs : ∀ b ∈ s.branches, E.Sound b.ops) (hnd : (s.branches.map (·.id)).Nodup)
    (b : C04.Branch σ₄ S C) (hb : b ∈ s.branches) (st0 : Store C) (flow : List (Item S)) :
    E.trace (C04.proj b.id (s.runTrace st0 flow).1) =
      C03.branchTrace (E.branch b) (C03.blocks s.bufsize (E.buf flow)) := by
  rw [← E.proj_trace, c04_run_erases E s hv hs]
  have hnd' : ((E.split s).branches.map (·.id)).Nodup := by
    simpa [Erasure.split, List.map_map, Function.comp_def, Erasure.branch] using hnd
  exact C03.projection (E.split s) hv hnd' (E.branch b) (List.mem_map_of_mem hb) (E.buf flow)

/-- **Transfer C03 → C04** (`C03.no_assert_fail`): `assert flow_was_empty` never fails in the token model -/
theorem c04_no_assert_fail (E : Erasure σ₄ S C σ₃ α) (s : C04.Split σ₄ S C) (hv : s.bufsize ≠ some 0)
    (hs : ∀ b ∈ s.branches, E.Sound b.ops) (st0 : Store C) (flow : List (Item S)) :
    C04.Ev.assertFail ∉ (s.runTrace st0 flow).1 := by
  intro hmem
  have h1 : C03.Ev.assertFail ∈ E.trace (s.runTrace st0 flow).1 :=
    List.mem_filterMap.mpr ⟨_, hmem, rfl⟩
  rw [c04_run_erases E s hv hs] at h1
  obtain ⟨i, hi⟩ := C03.no_assert_fail (E.split s) hv _ _ h1
  simp [C03.Ev.branch] at hi

/-- **Transfer C03 → C04** (`C03.copy_buf_irrelevant`): at the level of plain values, `copy_buf` changes nothing
(identities and heap contents do differ: that is C04's subject) -/
theorem c04_copyBuf_values_irrelevant (E : Erasure σ₄ S C σ₃ α) (brs : List (C04.Branch σ₄ S C))
    (bs : Option Nat) (hv : bs ≠ some 0) (hs : ∀ b ∈ brs, E.Sound b.ops) (st0 : Store C) (flow : List (Item S)) :
    E.trace (C04.Split.runTrace { branches := brs, bufsize := bs, copyBuf := true } st0 flow).1 =
      E.trace (C04.Split.runTrace { branches := brs, bufsize := bs, copyBuf := false } st0 flow).1 := by
  rw [c04_run_erases E _ hv hs, c04_run_erases E _ hv hs]
  exact C03.copy_buf_irrelevant _ bs hv _

end c04

/-! ## 4. C02 ↔ C03: `Split.run` as a lazy generator

**What is shared by construction** (no bridge needed): the per-block processing.  `C02.processBlock`
*calls* `C03.blockLoop` (the index loop with in-place deletion) and `C03.finalPass`; C02's list semantics
`Stage.den (.split …)` *is* `C03.Split.run` (first `example`).  A transcription error in `blockLoop`,
`stepBranch`, `fillBuf` or `finalPass` would therefore be common to C02 and C03 — these four are covered
by the independent C04/C05/C16 transcriptions of sections 1-3.

**What is independent**: the `while True:` loop over the flow.  C03 reads blocks from a list
(`outerLoop`/`readBlock`); C02 has its own program-point machine (`splitStep`: phases `reading` — one
upstream `next` per step, `islice` semantics —, `blockRead`, `emitting`, `finalEmit`) over a pull-based
upstream.  Their agreement is `C02.split_produces` (the generator realises the stamped specification
`splitSpec`) composed with `C02.splitSpec_fst` (the values of `splitSpec` are `C03.Split.run`); it is
re-stated here as one bridge theorem, and composed with section 2. -/

section c02
open Lena.C02
variable {σ σb α : Type}

/-- shared by definition: the list semantics C02 gives to a `Split` stage is the C03 transcription -/
example (brs : List (C03.Branch σb α)) (bs : Option Nat) (cb : Bool) (xs : List α) :
    Stage.den (.split σb brs bs cb) xs = C03.Split.run { branches := brs, bufsize := bs, copyBuf := cb } xs := rfl

/-- shared by definition: a complete non-empty block is processed by `C03.blockLoop` -/
example (cb : Bool) (s : σ) (l : SSt σb α) (h : l.buf.isEmpty = false) :
    ∃ l' : SSt σb α, processBlock cb s l = .cont (s, l') ∧
      l'.act = (C03.blockLoop cb l.buf (l.act.length + 1) 0 l.act []).2 ∧
      l'.pending = C03.outputs (C03.blockLoop cb l.buf (l.act.length + 1) 0 l.act []).1 := by
  simp [processBlock, h]

/-- shared by definition: the final pass is `C03.finalPass` -/
example (cb : Bool) (s : σ) (l : SSt σb α) (h : l.buf.isEmpty = true) :
    ∃ l' : SSt σb α, processBlock cb s l = .cont (s, l') ∧
      l'.pending = C03.outputs (C03.finalPass l.fwe l.act) := by
  simp [processBlock, h]

/-- **C02 ↔ C03.**  Whatever upstream generator produces the stamped values `vals` (`Produces`), the generator
`splitG` (C02's transcription of `Split.run`, own outer loop) produces — with enough fuel, for every non-empty
list of branches, `bufsize ≠ 0`, either `copy_buf` — stamped values whose value part is exactly what the
C03 transcription of `Split.run` yields on the values of `vals`. -/
theorem c02_splitG_agrees (bufsize : Option Nat) (copyBuf : Bool) (up : Gen σ α) (cnt : σ → Nat) (fu : Nat)
    (hb : bufsize ≠ some 0) (brs : List (C03.Branch σb α)) (hne : brs ≠ [])
    {s : σ} {vals : List (α × Nat)} {cf : Nat} (h : Produces up cnt fu s vals cf)
    (hfu : 4 * vals.length + 5 < fu) :
    ∃ out : List (α × Nat),
      Produces (splitG bufsize copyBuf up) (fun t => cnt t.1) fu (s, splitInit brs) out cf ∧
      out.map Prod.fst = C03.Split.run { branches := brs, bufsize := bufsize, copyBuf := copyBuf } (vals.map Prod.fst) := by
  refine ⟨_, split_produces bufsize copyBuf up cnt fu hb brs h hfu, ?_⟩
  have hne' : ¬ brs.isEmpty = true := by cases brs <;> simp_all
  exact splitSpec_fst brs bufsize copyBuf hne' ⟨cnt s, vals, cf⟩

/-- **Transfer C16 → C02 through C03**: the lazy `Split.run` around one `FillRequest` branch yields, whatever
the upstream generator and the pull schedule, the values `C16.splitFR` predicts. -/
theorem c02_splitG_fillRequest {σe β γ : Type} (e : C16.El σe β γ) (N : Nat) (rst bi yor : Bool) (el : σe)
    (bufsize : Option Nat) (copyBuf : Bool) (up : Gen σ (β ⊕ γ)) (cnt : σ → Nat) (fu : Nat)
    (hb : bufsize ≠ some 0) {s : σ} (xs : List β) {vals : List ((β ⊕ γ) × Nat)} {cf : Nat}
    (hvals : vals.map Prod.fst = xs.map Sum.inl) (h : Produces up cnt fu s vals cf)
    (hfu : 4 * vals.length + 5 < fu) :
    ∃ out : List ((β ⊕ γ) × Nat),
      Produces (splitG bufsize copyBuf up) (fun t => cnt t.1) fu (s, splitInit [frBranch 0 e N rst bi yor el]) out cf ∧
      out.map Prod.fst = (C16.splitFR e N rst bi yor bufsize el xs).map Sum.inr := by
  obtain ⟨out, h1, h2⟩ := c02_splitG_agrees bufsize copyBuf up cnt fu hb [frBranch 0 e N rst bi yor el] (by simp) h hfu
  refine ⟨out, h1, ?_⟩
  rw [h2, hvals, c16_single_branch_agrees e N rst bi yor bufsize hb copyBuf el xs]

/-- non-vacuity: the instrumented list source of C02 satisfies the hypotheses, for any flow and enough fuel -/
example (xs : List Nat) (fu : Nat) (hfu : 4 * xs.length + 5 < fu) :
    ∃ out : List ((Nat ⊕ List Nat) × Nat),
      Produces (splitG (some 2) true listSrc) (fun t => Src.clock t.1) fu
        ({ rest := xs.map Sum.inl, clock := 0, ended := false },
          splitInit [frBranch 0 (C16.lstEl : C16.El (List Nat) Nat (List Nat)) 3 true true false []]) out
        (0 + (xs.map (Sum.inl : Nat → Nat ⊕ List Nat)).length + 1) ∧
      out.map Prod.fst = (C16.splitFR C16.lstEl 3 true true false (some 2) [] xs).map Sum.inr :=
  c02_splitG_fillRequest C16.lstEl 3 true true false [] (some 2) true listSrc Src.clock fu (by decide) xs
    (stamps_map_fst _ 0) (listSrc_produces fu _ 0) (by simpa using hfu)

end c02

end Lena.Bridge.Split
