import LenaModel.Props.C06
import LenaModel.Props.C09
import LenaModel.Props.C11
import LenaModel.Props.C12
/-! # Bridge: histogram bin search, fill and arithmetic — the independent transcriptions agree

The Python code of `lena/structures/hist_functions.py` (`check_edges_increasing`, `get_bin_on_value_1d`,
`get_bin_on_value`, `init_bins`, `iter_bins`, `iter_bins_with_edges`/`get_bin_edges`, `integral`) and
`lena/structures/histogram.py` (`histogram.__init__/fill/scale/add/get_nevents`, `Histogram.__init__/fill/
compute/reset`) is transcribed into Lean several times, by independent builders, each transcription validated by
its own correspondence check:

| model | what it contains | value types |
|---|---|---|
| `Lena.C06` (`Model/C06.lean`) | the search loop `bin1dLoop`/`bin1d`, `getBinOnValue`, `checkEdgesIncreasing`, `initBins`, `mkHist`, `fillWalk`/`fill`, `HistEl` | any ordered `α`, any additive `β`, any dimension |
| `Lena.C09` (`Model/C09.lean`) | the 1-dimensional `Histogram` machine: `increasing`, `mkHist`, `binIndex` (closed form), `Hist.fill`, `Histogram.new/fill/compute/reset` | `Int` edges and contents, bins a `List Int` |
| `Lena.C12` (`Model/C12.lean`) | `checkEdgesIncreasing`, `mkHist` (bins through `NArr.full`), `getNevents`, `add`, `setScale`, `cellEdges`, `iterBinsWithEdges` | `Rat`, own `Edges` type, a cached `scale` |
| `Lena.C11` (`Model/C11.lean`) | uses C06's search; own `Hist`, `mkHistogram`, `fillWalk` (the walk of `SplitIntoBins.fill`), `cellEdges`, `binIndices`, `binWithEdges` | any `α`, cells of any type |

This file proves that they agree, under explicit translation maps, **for all inputs** (no bound on lengths,
dimensions, number of fills), and transfers theorems of one property to the models of the others.

## Translation maps

* `mapEdges f`, `mapCoord f`, `mapHist f g` — change of number type along `f : α → α'` that preserves and reflects
  `<`, `≤`, `=` (`OrdEmb f`; instance `intCast_ordEmb : Int → Rat`) and `g : β → β'` additive;
* `edges12to06`/`edges06to12` (a bijection: the two `Edges` types are the same type written twice),
  `hist06to12` (forgets `dim`, sets the cached `scale` to `None`), `hist12to06` (forgets the cache);
* `liftBins : List β → NArr β` (a Python list of numbers as a nested array), `hist09to06 es h` (C09's `(bins, nOut)`
  with the configuration `es` as C06's state over flat edges, `dim = 1`), `el09to06` (the element: the same with the
  current context), `flow09to06` (a flow of C09 items as C06's flow of `(guess, coordinate, context)`),
  `err09to06`/`res09to06` (exception classes and results; a left inverse of C09's own `ofLenaErr`);
* `hist09to12 es h` = `hist06to12 ∘ mapHist Int.cast Int.cast ∘ hist09to06 es`;
* `hist06to11` (C11 observes only `edges` and `bins`), `Lena.C11.liftErr`/`Exc.ofErr` (C11's own class map).

## What is outside the common domain (stated next to each theorem)

* C09's `binIndex` is a *closed form*, valid "for increasing edges": agreement with C06's search loop needs
  strictly increasing non-empty edges and a guess in range where consulted (`GuessOKAt`); for other edges the loop
  still returns (C06 `bin1d_returns`) but the closed form means nothing; for `[]` the loop raises `IndexError`.
* C09 models only flat one-dimensional edges with scalar coordinates and weight 1, and has no builtin
  `TypeError`/`IndexError` outcomes of ill-typed bins; C06's `HistEl.new` has no `make_bins` (the bridge passes the
  effective bins) and no `LenaTypeError` for "both bins and make_bins".
* C12's `mkHist` answers `unmodelled` for nested edges with a single axis (`[[0, 1, 2]]`), which C06 and C11 model
  (as the code is after the fix 8d715e5, notes/C06_defect_1.md): `mkHist_12_06` excludes them,
  `mkHist_12_nested1` says what C12 does there.  C12 has no `fill`; C06 has no `add`/`scale`.
* C11's walk (`SplitIntoBins.fill`) and C06's walk (`histogram.fill`) are different Python loops; C11 calls
  every irregular situation `unmodelled` where C06 has the builtin exception: C11 *refines* C06
  (`fillWalk_11_06`: whatever C11 returns, C06 returns), and on regular bins both return the same
  (`fillWalk_11_06_regular`).  The empty bin index (possible only for edges without axes) is excluded.
* `C11.binWithEdges` requires a cell to be a number; `C12.iterBinsWithEdges` also returns sub-arrays: refinement
  (`iterBinsWithEdges_11_12`).

Core Lean only. -/
open Lena
namespace Lena.Bridge.Hist
set_option linter.unusedSectionVars false
set_option linter.unusedSimpArgs false

/-- `Except.map` written as a match (so that `rfl`/`simp` see through it) -/
def mapOk {ε α β : Type} (f : α → β) : Except ε α → Except ε β
  | .ok a => .ok (f a)
  | .error e => .error e

/-! ## 1. The histogram code looks at numbers only through `<`, `>=`, `==` and `+`

Naturality of C06's transcriptions under an order embedding: this relates every instantiation of the
order-polymorphic C06 model to every other one (C09 runs it on `Int`, C12's world is `Rat`, C06's own harness
encodes Python numbers as their *ranks* — all three are justified by the theorems of this section). -/
section Natural
variable {α α' : Type}
  [LT α] [LE α] [DecidableLT α] [DecidableLE α] [DecidableEq α]
  [LT α'] [LE α'] [DecidableLT α'] [DecidableLE α'] [DecidableEq α']

/-- `f` preserves and reflects everything the histogram code looks at in a number: `<`, `<=`/`>=`, `==` -/
structure OrdEmb (f : α → α') : Prop where
  lt : ∀ a b, f a < f b ↔ a < b
  le : ∀ a b, f a ≤ f b ↔ a ≤ b
  eq : ∀ a b, f a = f b ↔ a = b

/-- `edges` with every number replaced by its image -/
def mapEdges (f : α → α') : C06.Edges α → C06.Edges α'
  | .flat arr => .flat (arr.map f)
  | .nested axes => .nested (axes.map (·.map f))

/-- a coordinate with every number replaced by its image -/
def mapCoord (f : α → α') : C06.Coord α → C06.Coord α'
  | .scalar x => .scalar (f x)
  | .tuple xs => .tuple (xs.map f)

variable {f : α → α'}

/-- `_check_edges_increasing_1d`'s `all(a < b ...)`: `C06.increasingPairs` over `α` ↔ over `α'` -/
theorem increasingPairs_natural (hf : OrdEmb f) : ∀ arr : List α,
    C06.increasingPairs (arr.map f) = C06.increasingPairs arr
  | [] => rfl
  | [_] => rfl
  | a :: b :: rest => by
    have ih := increasingPairs_natural hf (b :: rest)
    simp only [List.map_cons] at ih
    simp only [List.map_cons, C06.increasingPairs, ih, decide_eq_decide.2 (hf.lt a b)]

/-- `_check_edges_increasing_1d`: `C06.checkEdges1d` over `α` ↔ over `α'` -/
theorem checkEdges1d_natural (hf : OrdEmb f) (arr : List α) :
    C06.checkEdges1d (arr.map f) = C06.checkEdges1d arr := by
  simp only [C06.checkEdges1d, List.length_map, increasingPairs_natural hf]

theorem checkEdgesAxes_natural (hf : OrdEmb f) : ∀ axes : List (List α),
    C06.checkEdgesAxes (axes.map (·.map f)) = C06.checkEdgesAxes axes
  | [] => rfl
  | arr :: rest => by
    simp only [List.map_cons, C06.checkEdgesAxes, List.length_map, checkEdges1d_natural hf,
      checkEdgesAxes_natural hf rest]

/-- `check_edges_increasing` (hist_functions.py:83-102): `C06.checkEdgesIncreasing` gives the same verdict (same
exception) on the translated edges.  All edges. -/
theorem checkEdgesIncreasing_natural (hf : OrdEmb f) (e : C06.Edges α) :
    C06.checkEdgesIncreasing (mapEdges f e) = C06.checkEdgesIncreasing e := by
  cases e with
  | flat arr => simp only [mapEdges, C06.checkEdgesIncreasing, List.length_map, checkEdges1d_natural hf]
  | nested axes => simp only [mapEdges, C06.checkEdgesIncreasing, List.length_map, checkEdgesAxes_natural hf]

/-- `get_bin_on_value_1d`, the `while True:` loop (hist_functions.py:189-227): `C06.bin1dLoop` on the translated
value and array takes the same branches and returns the same index or exception, from every state, for every
guess function, **without** any hypothesis on the array (not sorted, too short, guess out of range: all the
same on both sides). -/
theorem bin1dLoop_natural (hf : OrdEmb f) (guess : Nat → Nat → Int) (val : α) (arr : List α) :
    ∀ (n lo hi : Nat), hi - lo = n →
      C06.bin1dLoop guess (f val) (arr.map f) lo hi = C06.bin1dLoop guess val arr lo hi := by
  intro n
  induction n using Nat.strongRecOn with
  | _ n ih =>
    intro lo hi hn
    rw [C06.bin1dLoop, C06.bin1dLoop.eq_def guess val arr lo hi]
    simp only [List.getElem?_map]
    cases hlo : arr[lo]? with
    | none => simp
    | some alo =>
      simp only [Option.map_some, hf.lt, hf.eq]
      cases hhi : arr[hi]? with
      | none => simp
      | some ahi =>
        simp only [Option.map_some, hf.le]
        by_cases hsmall : hi - lo ≤ 1
        · simp only [hsmall, if_true]
        · simp only [hsmall, if_false]
          by_cases he : val = alo
          · simp only [he, if_true]
          · simp only [he, if_false]
            by_cases h1 : val < alo
            · simp only [h1, if_true]
            · simp only [h1, if_false]
              by_cases h2 : ahi ≤ val
              · simp only [h2, if_true]
              · simp only [h2, if_false]
                -- (C06 defect 3 / lena 4fbe73b: `ind_guess <= ind_min`, `ind_guess >= ind_max`; no `unmodelled` branch)
                by_cases c1 : guess lo hi ≤ (lo : Int)
                · simp only [c1, if_true]
                  exact ih (hi - (lo + 1)) (by omega) _ _ rfl
                · simp only [c1, if_false]
                  by_cases c2 : (hi : Int) ≤ guess lo hi
                  · simp only [c2, if_true]
                    exact ih (hi - 1 - lo) (by omega) _ _ rfl
                  · simp only [c2, if_false]
                    cases hg : arr[(guess lo hi).toNat]? with
                    | none => simp
                    | some ag =>
                      simp only [Option.map_some, hf.lt]
                      by_cases c3 : val < ag
                      · simp only [c3, if_true]
                        exact ih ((guess lo hi).toNat - lo) (by omega) _ _ rfl
                      · simp only [c3, if_false]
                        exact ih (hi - (guess lo hi).toNat) (by omega) _ _ rfl

/-- `get_bin_on_value_1d(val, arr)`: `C06.bin1d` over `α` ↔ over `α'`.  All inputs. -/
theorem bin1d_natural (hf : OrdEmb f) (guess : Nat → Nat → Int) (val : α) (arr : List α) :
    C06.bin1d guess (f val) (arr.map f) = C06.bin1d guess val arr := by
  simp only [C06.bin1d, List.length_map, bin1dLoop_natural hf guess val arr _ _ _ rfl]

theorem binsLoop_natural (hf : OrdEmb f) (guess : Nat → Nat → Nat → Int) :
    ∀ (k : Nat) (xs : List α) (axes : List (List α)),
      C06.binsLoop guess k (xs.map f) (axes.map (·.map f)) = C06.binsLoop guess k xs axes
  | _, _, [] => by simp [C06.binsLoop]
  | _, [], _ :: _ => by simp [C06.binsLoop]
  | k, x :: xs, arr :: axes => by
    simp only [List.map_cons, C06.binsLoop, bin1d_natural hf, binsLoop_natural hf guess (k + 1) xs axes]

/-- `get_bin_on_value(arg, edges)` (hist_functions.py:230-279): `C06.getBinOnValue` over `α` ↔ over `α'`, every
form of coordinate and edges, every error branch. -/
theorem getBinOnValue_natural (hf : OrdEmb f) (guess : Nat → Nat → Nat → Int) (c : C06.Coord α) (e : C06.Edges α) :
    C06.getBinOnValue guess (mapCoord f c) (mapEdges f e) = C06.getBinOnValue guess c e := by
  cases c <;> cases e <;>
    simp only [mapCoord, mapEdges, C06.getBinOnValue, bin1d_natural hf, binsLoop_natural hf, List.length_map]


/-! ### bins: the contents are only copied and added -/

variable {β β' : Type}

/-- a histogram state with edges translated along `f` and contents along `g` -/
def mapHist (f : α → α') (g : β → β') (h : C06.Hist α β) : C06.Hist α' β' :=
  { edges := mapEdges f h.edges, bins := NArr.map g h.bins, nOut := g h.nOut, dim := h.dim }

theorem map_leaf (g : β → β') (v : β) : NArr.map g (.leaf v) = .leaf (g v) := by rw [NArr.map]

theorem map_node (g : β → β') (xs : List (NArr β)) : NArr.map g (.node xs) = .node (xs.map (NArr.map g)) := by
  rw [NArr.map, NArr.mapList_eq_map]

theorem initBinsAxes_natural (f : α → α') (g : β → β') (v : β) : ∀ axes : List (List α),
    C06.initBinsAxes (g v) (axes.map (·.map f)) = mapOk (NArr.map g) (C06.initBinsAxes v axes)
  | [] => rfl
  | [arr] => by simp [C06.initBinsAxes, mapOk, map_node, map_leaf]
  | arr :: b :: rest => by
    have ih := initBinsAxes_natural f g v (b :: rest)
    simp only [List.map_cons] at ih
    simp only [List.map_cons, C06.initBinsAxes, ih, bind, Except.bind, List.length_map]
    cases C06.initBinsAxes v (b :: rest) with
    | error e => rfl
    | ok sub => simp [mapOk, pure, Except.pure, map_node]

/-- `init_bins(edges, value)` (hist_functions.py:394-435): `C06.initBins` commutes with the translations -/
theorem initBins_natural (f : α → α') (g : β → β') (v : β) (e : C06.Edges α) :
    C06.initBins (g v) (mapEdges f e) = mapOk (NArr.map g) (C06.initBins v e) := by
  cases e with
  | flat arr =>
    simp only [mapEdges, C06.initBins, List.length_map]
    by_cases h : arr.length = 0 <;> simp [h, mapOk, map_node, map_leaf]
  | nested axes => exact initBinsAxes_natural f g v axes

theorem lenBins_map (g : β → β') (b : NArr β) : C06.lenBins (NArr.map g b) = C06.lenBins b := by
  cases b with
  | leaf v => simp [map_leaf, C06.lenBins]
  | node xs => simp [map_node, C06.lenBins]

/-- `histogram.__init__(edges, bins, initial_value)` (histogram.py:117-164): `C06.mkHist` commutes with the
translations (`g 0 = 0`: `n_out_of_range` starts at the number zero).  All inputs, every error branch. -/
theorem mkHist_natural [Zero β] [Zero β'] (hf : OrdEmb f) (g : β → β') (g0 : g 0 = 0)
    (e : C06.Edges α) (bins : Option (NArr β)) (init : β) :
    C06.mkHist (mapEdges f e) (bins.map (NArr.map g)) (g init) = mapOk (mapHist f g) (C06.mkHist e bins init) := by
  unfold C06.mkHist
  rw [checkEdgesIncreasing_natural hf]
  cases C06.checkEdgesIncreasing e with
  | error err => rfl
  | ok u =>
    simp only [bind, Except.bind]
    cases bins with
    | none =>
      simp only [Option.map_none, initBins_natural]
      cases C06.initBins init e with
      | error err => rfl
      | ok b => cases e <;> simp [mapOk, pure, Except.pure, mapHist, g0, mapEdges]
    | some b =>
      simp only [Option.map_some, lenBins_map]
      cases C06.lenBins b with
      | error err => rfl
      | ok n =>
        cases e with
        | flat arr =>
          simp only [mapEdges, List.length_map]
          by_cases h : n = arr.length - 1 <;> simp [h, mapOk, pure, Except.pure, mapHist, g0, mapEdges]
        | nested axes =>
          simp only [mapEdges, List.length_map]
          cases axes with
          | nil => rfl
          | cons a0 rest =>
            simp only [List.map_cons, List.length_map]
            by_cases h : n = a0.length - 1 <;> simp [h, mapOk, pure, Except.pure, mapHist, g0, mapEdges]

/-- the walk of `histogram.fill` through the nested bins (histogram.py:239-264): `C06.fillWalk` commutes with an
additive translation of the contents.  Any bins (irregular ones too), any index list. -/
theorem fillWalk_natural [Add β] [Add β'] (g : β → β') (gadd : ∀ a b, g (a + b) = g a + g b) (w : β) :
    ∀ (idxs : List Int) (a : NArr β),
      C06.fillWalk (g w) (NArr.map g a) idxs = mapOk (Option.map (NArr.map g)) (C06.fillWalk w a idxs)
  | [], a => by simp [C06.fillWalk_nil, mapOk]
  | [i], a => by
    unfold C06.fillWalk
    by_cases h0 : i < 0
    · simp [h0, mapOk]
    · simp only [h0, if_false]
      cases a with
      | leaf c => simp [map_leaf, mapOk]
      | node xs =>
        simp only [map_node, List.getElem?_map]
        cases hx : xs[i.toNat]? with
        | none => simp [mapOk]
        | some x =>
          cases x with
          | leaf c => simp [map_leaf, mapOk, gadd, map_node, List.map_set]
          | node ys => simp [map_node, mapOk]
  | i :: j :: is, a => by
    unfold C06.fillWalk
    by_cases h0 : i < 0
    · simp [h0, mapOk]
    · simp only [h0, if_false]
      cases a with
      | leaf c => simp [map_leaf, mapOk]
      | node xs =>
        simp only [map_node, List.getElem?_map]
        cases hx : xs[i.toNat]? with
        | none => simp [mapOk]
        | some x =>
          simp only [Option.map_some, fillWalk_natural g gadd w (j :: is) x]
          cases C06.fillWalk w x (j :: is) with
          | error e => simp [mapOk]
          | ok r =>
            cases r with
            | none => simp [mapOk]
            | some x' => simp [mapOk, map_node, List.map_set]

/-- `histogram.fill(coord, weight)` (histogram.py:233-264): `C06.fill` commutes with the translations.  All
states, coordinates, weights, guesses, including every exception. -/
theorem fill_natural [Add β] [Add β'] (hf : OrdEmb f) (g : β → β') (gadd : ∀ a b, g (a + b) = g a + g b)
    (guess : Nat → Nat → Nat → Int) (h : C06.Hist α β) (c : C06.Coord α) (w : β) :
    C06.fill guess (mapHist f g h) (mapCoord f c) (g w) = mapOk (mapHist f g) (C06.fill guess h c w) := by
  unfold C06.fill
  simp only [mapHist, getBinOnValue_natural hf]
  cases C06.getBinOnValue guess c h.edges with
  | error e => rfl
  | ok idxs =>
    simp only [bind, Except.bind, fillWalk_natural g gadd]
    cases C06.fillWalk w h.bins idxs with
    | error e => rfl
    | ok r => cases r <;> simp [mapOk, pure, Except.pure, gadd, mapHist]

/-- the embedding `Int → Rat` (Python ints among floats / exact rationals) -/
theorem intCast_ordEmb : OrdEmb (fun a : Int => (a : Rat)) :=
  ⟨fun _ _ => Rat.intCast_lt_intCast, fun _ _ => Rat.intCast_le_intCast, fun _ _ => Rat.intCast_inj⟩

end Natural

/-! ## 2. C09 ↔ C06: the one-dimensional `Histogram` machine is C06's histogram over flat edges

Common domain: flat edges, scalar coordinates, weight 1, bins a list of numbers.  Construction agrees on ALL
inputs (`mkHist_09_06`); the bin index and `fill` agree for strictly increasing non-empty edges and in-range
guesses — outside, C09's `binIndex` (a closed form "for increasing edges") is not a transcription of anything. -/

/-- a one-dimensional list of bin contents as nested array -/
def liftBins {β : Type} (l : List β) : NArr β := .node (l.map .leaf)

/-- C09's histogram state `(bins, n_out_of_range)` over the configured edges `es`, as a state of C06's model -/
def hist09to06 (es : List Int) (h : C09.Hist) : C06.Hist Int Int :=
  { edges := .flat es, bins := liftBins h.bins, nOut := h.nOut, dim := 1 }

/-- exception classes of C09 as classes of the shared `Lena.Err` (C06, C12).  `zeroDivision`, `runtimeError`,
`assertionError` are never raised by histogram code (`mkHist_09_error`); they go to `unmodelled`. -/
def err09to06 : C09.Err → Lena.Err
  | .valueError => .lenaValueError
  | .typeError => .lenaTypeError
  | .lenaIndexError => .lenaIndexError
  | .indexError => .indexError
  | .pyTypeError => .typeError
  | .unmodelled => .unmodelled
  | .zeroDivision => .unmodelled
  | .runtimeError => .unmodelled
  | .assertionError => .unmodelled

/-- `err09to06` is a left inverse of the class map `C09.ofLenaErr` that C09's own n-dimensional histogram uses -/
theorem err09to06_ofLenaErr (e : Lena.Err) : err09to06 (C09.ofLenaErr e) = e := by cases e <;> rfl

/-- a result of C09's model as a result of C06's -/
def res09to06 {α β : Type} (f : α → β) : Except C09.Err α → Except Lena.Err β
  | .ok a => .ok (f a)
  | .error e => .error (err09to06 e)

/-- `all(a < b for a, b in zip(arr, arr[1:]))`: `C09.increasing` ↔ `C06.increasingPairs`.  All lists. -/
theorem increasing_09_06 : ∀ arr : List Int, C09.increasing arr = C06.increasingPairs arr
  | [] => rfl
  | [_] => rfl
  | a :: b :: rest => by
    simp only [C09.increasing, C06.increasingPairs, increasing_09_06 (b :: rest)]

/-- `check_edges_increasing` on flat edges: `C06.checkEdgesIncreasing (.flat es)` is exactly the two tests that
`C09.mkHist` inlines.  All lists. -/
theorem checkEdges_09_06 (es : List Int) :
    C06.checkEdgesIncreasing (.flat es) =
      if es.length ≤ 1 then .error .lenaValueError
      else if !C09.increasing es then .error .lenaValueError else .ok () := by
  simp only [C06.checkEdgesIncreasing, C06.checkEdges1d, increasing_09_06]
  by_cases h : es.length = 0
  · simp [h]
  · simp [h]

/-- `histogram.__init__(edges, bins, initial_value)` for flat edges (histogram.py:117-164, with
`check_edges_increasing` and `init_bins`): `C09.mkHist` ↔ `C06.mkHist`.  ALL edge lists, bins (given or not, any
length) and initial values; same success, same state, same exception class. -/
theorem mkHist_09_06 (es : List Int) (bins : Option (List Int)) (iv : Int) :
    C06.mkHist (.flat es) (bins.map liftBins) iv = res09to06 (hist09to06 es) (C09.mkHist es bins iv) := by
  unfold C06.mkHist C09.mkHist
  rw [checkEdges_09_06]
  by_cases h1 : es.length ≤ 1
  · simp [h1, bind, Except.bind, res09to06, err09to06]
  · by_cases h2 : C09.increasing es = true
    · have hne : ¬ es.length = 0 := by omega
      cases bins with
      | none =>
        simp [h1, h2, bind, Except.bind, res09to06, C06.initBins, hne, pure, Except.pure, hist09to06, liftBins]
      | some b =>
        by_cases h3 : b.length = es.length - 1
        · simp [h1, h2, h3, bind, Except.bind, res09to06, pure, Except.pure, hist09to06, liftBins, C06.lenBins,
            C06.Edges.len]
        · simp [h1, h2, h3, bind, Except.bind, res09to06, liftBins, C06.lenBins, C06.Edges.len, err09to06]
    · simp [h1, h2, bind, Except.bind, res09to06, err09to06]

/-- the only exception class `C09.mkHist` raises -/
theorem mkHist_09_error (es : List Int) (bins : Option (List Int)) (iv : Int) (e : C09.Err)
    (h : C09.mkHist es bins iv = .error e) : e = .valueError := by
  unfold C09.mkHist at h
  repeat' split at h
  all_goals first | (cases h; rfl) | cases h

/-- C09's closed form is C06's specification `countLE − 1` -/
theorem binIndex_eq_countLE (es : List Int) (x : Int) : C09.binIndex es x = (C06.countLE es x : Int) - 1 := by
  simp [C09.binIndex, C06.countLE, List.countP_eq_length_filter]

/-- `get_bin_on_value_1d(x, edges)`: C06's transcription of the search **loop** (`C06.bin1d`) returns C09's
closed form `C09.binIndex`, for every strictly increasing non-empty `es`, every `x`, every guess function that is
in range where consulted.  Outside this domain: `es = []` (the loop raises `IndexError`, `binIndex = -1`),
edges that are not increasing (`binIndex` is then not what the code computes), guesses out of range
(`Err.unmodelled`). -/
theorem bin1d_09_06 (guess : Nat → Nat → Int) (es : List Int) (x : Int) (hg : C06.GuessOKAt es x guess)
    (hinc : C06.StrictInc es) (hne : es ≠ []) :
    C06.bin1d guess x es = .ok (C09.binIndex es x) := by
  rw [binIndex_eq_countLE]; exact C06.bin1d_spec guess x hg hinc hne

/-- the same with the source's interpolation formula in exact integer arithmetic as the guess: no hypothesis on
the guess is left -/
theorem bin1d_interp_09_06 (es : List Int) (x : Int) (hinc : C06.StrictInc es) (hne : es ≠ []) :
    C06.bin1d (C06.interpGuess es x) x es = .ok (C09.binIndex es x) :=
  bin1d_09_06 _ es x (C06.interpGuess_okAt es x) hinc hne

/-- `get_bin_on_value(x, edges)` for a number and flat edges: `C06.getBinOnValue` ↔ `[C09.binIndex]` -/
theorem getBinOnValue_09_06 (g : Nat → Nat → Nat → Int) (es : List Int) (x : Int) (hg : C06.GuessOKAt es x (g 0))
    (hinc : C06.StrictInc es) (hne : es ≠ []) :
    C06.getBinOnValue g (.scalar x) (.flat es) = .ok [C09.binIndex es x] := by
  simp [C06.getBinOnValue, bin1d_09_06 (g 0) es x hg hinc hne, bind, Except.bind, pure, Except.pure]

theorem set_map_modify {α β : Type} (g : α → β) (f : α → α) : ∀ (bins : List α) (k : Nat) (h : k < bins.length),
    (bins.map g).set k (g (f bins[k])) = (bins.modify k f).map g
  | [], k, h => by simp at h
  | b :: bs, 0, _ => by simp
  | b :: bs, k + 1, h => by
    simp [set_map_modify g f bs k (by simpa using h)]

/-- C06's walk (`subarr[ind] += weight` with its `IndexError` → out of range) on a flat list of numbers: any
list, any index -/
theorem fillWalk_lift (w : Int) (bins : List Int) (i : Int) :
    C06.fillWalk w (liftBins bins) [i] =
      .ok (if i < 0 then none
           else if i.toNat < bins.length then some (liftBins (bins.modify i.toNat (· + w))) else none) := by
  unfold C06.fillWalk liftBins
  by_cases h0 : i < 0
  · simp [h0]
  · simp only [h0, if_false, List.getElem?_map]
    by_cases h1 : i.toNat < bins.length
    · simp [h1, set_map_modify NArr.leaf (· + w) bins i.toNat h1]
    · simp [h1]

/-- `histogram.fill(x)` (histogram.py:233-264), one dimension, weight 1: `C09.Hist.fill` ↔ `C06.fill`.  Every
state — bins of ANY length, also one that does not match the edges —, every `x`; edges strictly increasing and
non-empty, guess in range where consulted.  C06's `fill` never raises here. -/
theorem fill_09_06 (g : Nat → Nat → Nat → Int) (es : List Int) (h : C09.Hist) (x : Int)
    (hg : C06.GuessOKAt es x (g 0)) (hinc : C06.StrictInc es) (hne : es ≠ []) :
    C06.fill g (hist09to06 es h) (.scalar x) 1 = .ok (hist09to06 es (C09.Hist.fill es h x)) := by
  simp only [C06.fill, hist09to06, getBinOnValue_09_06 g es x hg hinc hne, bind, Except.bind, fillWalk_lift]
  unfold C09.Hist.fill
  by_cases h0 : C09.binIndex es x < 0
  · simp [h0, pure, Except.pure]
  · by_cases h1 : (C09.binIndex es x).toNat < h.bins.length
    · simp [h0, h1, pure, Except.pure]
    · simp [h0, h1, pure, Except.pure]


/-! ### the element -/

/-- the state of C09's `Histogram` element as a state of C06's `HistEl` (contexts: C09's flat dictionaries) -/
def el09to06 (es : List Int) (s : C09.HistSt) : C06.HistEl Int Int C09.Ctx :=
  { hist := hist09to06 es s.hist, curContext := s.ctx }

/-- the `bins` argument that `Histogram.__init__` hands to `histogram(...)` -/
def effBins (cfg : C09.HistCfg) : Option (List Int) :=
  match cfg.makeBins with
  | some b => some b
  | none => cfg.bins

/-- `Histogram.__init__(edges, bins, make_bins, initial_value)` (histogram.py:405-435): `C09.Histogram.new` ↔
`C06.HistEl.new` on the effective bins.  All configurations except "both `bins` and `make_bins`" — that
`LenaTypeError` is modelled by C09 only (C06's `HistEl.new` is "without `make_bins`"). -/
theorem histogramNew_09_06 (cfg : C09.HistCfg) (hb : ¬ (cfg.makeBins.isSome ∧ cfg.bins.isSome)) :
    C06.HistEl.new ([] : C09.Ctx) (.flat cfg.edges) ((effBins cfg).map liftBins) cfg.initialValue
      = res09to06 (el09to06 cfg.edges) (C09.Histogram.new cfg) := by
  have hb' : (cfg.makeBins.isSome && cfg.bins.isSome) = false := by
    cases h1 : cfg.makeBins.isSome <;> cases h2 : cfg.bins.isSome <;> simp_all
  unfold C06.HistEl.new C09.Histogram.new
  rw [mkHist_09_06]
  simp only [hb', Bool.false_eq_true, if_false]
  have : ∀ ob : Option (List Int), (do
      let h ← res09to06 (hist09to06 cfg.edges) (C09.mkHist cfg.edges ob cfg.initialValue)
      pure ({ hist := h, curContext := [] } : C06.HistEl Int Int C09.Ctx)) =
    res09to06 (el09to06 cfg.edges)
      (match C09.mkHist cfg.edges ob cfg.initialValue with
      | Except.error e => Except.error e
      | Except.ok h => Except.ok { hist := h, ctx := [] }) := by
    intro ob
    cases C09.mkHist cfg.edges ob cfg.initialValue with
    | error e => simp [res09to06, bind, Except.bind]
    | ok h => simp [res09to06, bind, Except.bind, pure, Except.pure, el09to06]
  cases hm : cfg.makeBins <;> simp only [effBins, hm] <;> exact this _

/-- `Histogram.fill(value)` (histogram.py:437-446): `C09.Histogram.fill` ↔ `C06.HistEl.fill` with unit weight;
the current context becomes the value's context (`{}` for a bare value) in both. -/
theorem histogramFill_09_06 (g : Nat → Nat → Nat → Int) (cfg : C09.HistCfg) (s : C09.HistSt) (v : C09.Item Int)
    (hg : C06.GuessOKAt cfg.edges v.data (g 0)) (hinc : C06.StrictInc cfg.edges) (hne : cfg.edges ≠ []) :
    C06.HistEl.fill ([] : C09.Ctx) 1 g (el09to06 cfg.edges s) (.scalar v.data) v.ctx
      = .ok (el09to06 cfg.edges (C09.Histogram.fill cfg s v)) := by
  simp only [C06.HistEl.fill, el09to06, fill_09_06 g cfg.edges s.hist v.data hg hinc hne, bind, Except.bind,
    pure, Except.pure, C09.Histogram.fill, C09.Item.context]

/-- a flow of C09 values as the flow of the C06 element (all with the same guess function) -/
def flow09to06 (g : Nat → Nat → Nat → Int) (vs : List (C09.Item Int)) :
    List ((Nat → Nat → Nat → Int) × C06.Coord Int × Option C09.Ctx) :=
  vs.map (fun v => (g, .scalar v.data, v.ctx))

/-- a whole flow: `C09.Machine.fillAll (histogramM …)` ↔ `C06.HistEl.fillAll`.  Flows of any length, from any
state. -/
theorem histogramFillAll_09_06 (g : Nat → Nat → Nat → Int) (hg : C06.GuessesOK g) (cfg : C09.HistCfg) (s0 : C09.HistSt)
    (hinc : C06.StrictInc cfg.edges) (hne : cfg.edges ≠ []) : ∀ (vs : List (C09.Item Int)) (s : C09.HistSt),
    C06.HistEl.fillAll ([] : C09.Ctx) 1 (el09to06 cfg.edges s) (flow09to06 g vs)
      = .ok (el09to06 cfg.edges ((C09.histogramM cfg s0).fillAll s vs))
  | [], s => rfl
  | v :: vs, s => by
    have h1 := histogramFill_09_06 g cfg s v ((hg 0).at _ _) hinc hne
    have ih := histogramFillAll_09_06 g hg cfg s0 hinc hne vs (C09.Histogram.fill cfg s v)
    simp only [flow09to06, List.map_cons, C06.HistEl.fillAll, h1, bind, Except.bind]
    simp only [flow09to06] at ih
    rw [ih]
    rfl

/-- `Histogram.reset()` (histogram.py:452-468): the state `C09.Histogram.reset` returns is what C06's constructor
builds from the same arguments (C06 has no `reset` of its own: it *is* a new `histogram(...)`) -/
theorem histogramReset_09_06 (cfg : C09.HistCfg) (s0 s : C09.HistSt) (h : C09.Histogram.new cfg = .ok s0) :
    C06.HistEl.new ([] : C09.Ctx) (.flat cfg.edges) ((effBins cfg).map liftBins) cfg.initialValue
      = .ok (el09to06 cfg.edges (C09.Histogram.reset cfg s)) := by
  have hb : ¬ (cfg.makeBins.isSome ∧ cfg.bins.isSome) := by
    intro hb
    simp [C09.Histogram.new, hb.1, hb.2] at h
  rw [histogramNew_09_06 cfg hb, h, C09.hist_reset_is_init cfg s0 h s]
  rfl

/-! ### transfers between C06 and C09 -/

theorem get?_liftBins {β : Type} (l : List β) (j : Nat) : NArr.get? (liftBins l) [j] = (l[j]?).map NArr.leaf := by
  simp only [liftBins, NArr.get?, List.getElem?_map]
  cases l[j]? <;> simp [NArr.get?]

theorem total_liftBins : ∀ l : List Int, C06.totalList (l.map NArr.leaf) = l.sum
  | [] => rfl
  | a :: l => by simp [C06.totalList, C06.total, total_liftBins l]

/-- **C09 → C06.**  C09's `hist_compute_spec`, transferred to C06's model of the element: after
`Histogram(edges, bins…)` and any flow of numbers, bin `j` of C06's `HistEl` holds its initial content plus the
number of values with `binIndex = j`, `n_out_of_range` counts the others, the current context is the last
value's.  (C06 itself proves exact-cell and conservation theorems but no closed form for a whole flow.) -/
theorem c06_element_counts (g : Nat → Nat → Nat → Int) (hg : C06.GuessesOK g) (cfg : C09.HistCfg) (s0 : C09.HistSt)
    (hnew : C09.Histogram.new cfg = .ok s0) (vs : List (C09.Item Int)) :
    ∃ e0 e, C06.HistEl.new ([] : C09.Ctx) (.flat cfg.edges) ((effBins cfg).map liftBins) cfg.initialValue = .ok e0 ∧
      C06.HistEl.fillAll ([] : C09.Ctx) 1 e0 (flow09to06 g vs) = .ok e ∧
      (∀ j, NArr.get? e.hist.bins [j] =
        (cfg.initBins[j]?).map (fun c => NArr.leaf (c + ((vs.countP (C09.inBin cfg.edges j) : Nat) : Int)))) ∧
      e.hist.nOut = ((vs.countP (C09.outOfRange cfg.edges (cfg.edges.length - 1)) : Nat) : Int) ∧
      e.curContext = C09.ctxAfter [] vs := by
  have hb : ¬ (cfg.makeBins.isSome ∧ cfg.bins.isSome) := by
    intro hb
    simp [C09.Histogram.new, hb.1, hb.2] at hnew
  obtain ⟨hs0, hlen, hinc, h2⟩ := C09.Histogram.new_ok cfg s0 hnew
  have hne : cfg.edges ≠ [] := by intro h; simp [h] at h2
  have hf := C09.hist_fillAll cfg s0 s0 vs
  refine ⟨_, _, by rw [histogramNew_09_06 cfg hb, hnew]; rfl,
    histogramFillAll_09_06 g hg cfg s0 hinc hne vs s0, ?_, ?_, ?_⟩
  · intro j
    simp only [el09to06, hist09to06, get?_liftBins, hf.2.1 j]
    rw [hs0]
    cases cfg.initBins[j]? <;> simp
  · simp only [el09to06, hist09to06, hf.2.2.1]
    rw [hs0]; simp [hlen]
  · simp only [el09to06, hf.2.2.2]
    rw [hs0]

/-- **C06 → C09.**  C06's `bin1d_halfopen` transferred to C09's closed form: the index is negative exactly below
the first edge, and `≥ len − 1` exactly from the last edge on (C09's own `binIndex_spec` covers only the inner
bins). -/
theorem c09_binIndex_underflow (es : List Int) (hinc : es.Pairwise (· < ·)) (hne : es ≠ []) (x : Int) :
    (C09.binIndex es x < 0 ↔ x < es[0]'(List.length_pos_iff.2 hne)) ∧
    ((es.length : Int) - 1 ≤ C09.binIndex es x ↔
      es[es.length - 1]'(Nat.sub_lt (List.length_pos_iff.2 hne) Nat.one_pos) ≤ x) := by
  obtain ⟨r, hr, h1, h2, _⟩ := C06.bin1d_halfopen C06.midGuess C06.midGuess_ok (arr := es) hinc hne x
  rw [bin1d_09_06 C06.midGuess es x (C06.midGuess_ok.at _ _) hinc hne] at hr
  simp only [Except.ok.injEq] at hr
  subst hr
  have hk := C06.countLE_le_length es x
  rw [binIndex_eq_countLE] at h1 h2 ⊢
  constructor
  · rw [← h1]; omega
  · rw [← h2]; omega

/-- **C06 → C09.**  What `n_out_of_range` counts in C09's `hist_compute_spec`: the values below the first or not
below the last edge. -/
theorem c09_outOfRange_iff (es : List Int) (hinc : es.Pairwise (· < ·)) (hne : es ≠ []) (v : C09.Item Int) :
    C09.outOfRange es (es.length - 1) v = true ↔
      v.data < es[0]'(List.length_pos_iff.2 hne) ∨
      es[es.length - 1]'(Nat.sub_lt (List.length_pos_iff.2 hne) Nat.one_pos) ≤ v.data := by
  have hpos := List.length_pos_iff.2 hne
  obtain ⟨h1, h2⟩ := c09_binIndex_underflow es hinc hne v.data
  simp only [C09.outOfRange, Bool.or_eq_true, decide_eq_true_eq]
  rw [← h1, ← h2]
  have : ((es.length - 1 : Nat) : Int) = (es.length : Int) - 1 := by omega
  rw [this]

/-- **C06 → C09.**  C09's conservation law obtained from C06's `fillAll_conserves` through the bridge (C09 proves
`hist_conservation` independently and without the hypothesis on the edges: two separately validated models, two
proofs, one statement). -/
theorem c09_conservation_via_c06 (cfg : C09.HistCfg) (s0 s : C09.HistSt) (vs : List (C09.Item Int))
    (hinc : cfg.edges.Pairwise (· < ·)) (hne : cfg.edges ≠ []) :
    ((C09.histogramM cfg s0).fillAll s vs).hist.bins.sum + ((C09.histogramM cfg s0).fillAll s vs).hist.nOut
      = s.hist.bins.sum + s.hist.nOut + vs.length := by
  have hfa := histogramFillAll_09_06 (fun _ => C06.midGuess) (fun _ => C06.midGuess_ok) cfg s0 hinc hne vs s
  rw [C06.histEl_fillAll_eq] at hfa
  cases hf : C06.fillAll (el09to06 cfg.edges s).hist
      (C06.toOps 1 (flow09to06 (fun _ => C06.midGuess) vs)) with
  | error e => rw [hf] at hfa; cases hfa
  | ok h' =>
    rw [hf] at hfa
    simp only [Except.map, Except.ok.injEq] at hfa
    have hh : h' = hist09to06 cfg.edges ((C09.histogramM cfg s0).fillAll s vs).hist := by
      have := congrArg C06.HistEl.hist hfa
      simpa [el09to06] using this
    have hc := (C06.fillAll_conserves _ _ _ hf).2
    rw [C06.sumW_toOps] at hc
    subst hh
    simp only [el09to06, hist09to06, liftBins, C06.total, total_liftBins, flow09to06, List.length_map] at hc
    have hs : ∀ n : Nat, C06.sumW (List.replicate n (1 : Int)) = n := by
      intro n; induction n with
      | zero => rfl
      | succ n ih => simp only [List.replicate_succ, C06.sumW, ih]; omega
    rw [hs] at hc
    exact hc

/-! ## 3. C12 ↔ C06: the histogram of the arithmetic property is C06's histogram over `Rat`

C12 re-transcribes `check_edges_increasing` and `histogram.__init__` for its own `Edges`/`Hist` types.  Common
domain: everything except nested edges with a single axis (C12: `unmodelled`). -/

/-- C12's edges as C06's (the same two formats) -/
def edges12to06 : C12.Edges → C06.Edges Rat
  | .flat e => .flat e
  | .nested es => .nested es

/-- … and back -/
def edges06to12 : C06.Edges Rat → C12.Edges
  | .flat e => .flat e
  | .nested es => .nested es

@[simp] theorem edges06to12_12to06 (e : C12.Edges) : edges06to12 (edges12to06 e) = e := by cases e <;> rfl
@[simp] theorem edges12to06_06to12 (e : C06.Edges Rat) : edges12to06 (edges06to12 e) = e := by cases e <;> rfl

@[simp] theorem axes_12to06 (e : C12.Edges) : (edges12to06 e).axes = e.axes := by cases e <;> rfl
@[simp] theorem axes_06to12 (e : C06.Edges Rat) : (edges06to12 e).axes = e.axes := by cases e <;> rfl

theorem nbinsOf_eq_dimsOf (axes : List (List Rat)) : C12.nbinsOf axes = C06.dimsOf axes := rfl

/-- C06's state as C12's: `dim` is recomputed by C12 from the edges, the cached `_scale` is `None` -/
def hist06to12 (h : C06.Hist Rat Rat) : C12.Hist :=
  { edges := edges06to12 h.edges, bins := h.bins, nOut := h.nOut, scale := none }

/-- C12's state as C06's: the cached scale is forgotten -/
def hist12to06 (h : C12.Hist) : C06.Hist Rat Rat :=
  { edges := edges12to06 h.edges, bins := h.bins, nOut := h.nOut, dim := h.dim }

/-- `all(a < b …)`: `C12.increasingPairs` ↔ `C06.increasingPairs`.  All lists. -/
theorem increasingPairs_12_06 : ∀ arr : List Rat, C12.increasingPairs arr = C06.increasingPairs arr
  | [] => rfl
  | [_] => rfl
  | a :: b :: rest => by
    simp only [C12.increasingPairs, C06.increasingPairs, increasingPairs_12_06 (b :: rest)]

theorem checkEdges1d_12_06 (arr : List Rat) : C12.checkEdges1d arr = C06.checkEdges1d arr := by
  simp only [C12.checkEdges1d, C06.checkEdges1d, increasingPairs_12_06]

theorem checkEdgesAxes_12_06 : ∀ axes : List (List Rat), C12.checkEdgesAxes axes = C06.checkEdgesAxes axes
  | [] => rfl
  | arr :: rest => by
    simp only [C12.checkEdgesAxes, C06.checkEdgesAxes, checkEdges1d_12_06, checkEdgesAxes_12_06 rest]

/-- `check_edges_increasing(edges)` (hist_functions.py:83-102): `C12.checkEdgesIncreasing` ↔
`C06.checkEdgesIncreasing`.  ALL edges, both formats, same exception. -/
theorem checkEdgesIncreasing_12_06 (e : C12.Edges) :
    C12.checkEdgesIncreasing e = C06.checkEdgesIncreasing (edges12to06 e) := by
  cases e with
  | flat arr =>
    simp only [C12.checkEdgesIncreasing, edges12to06, C06.checkEdgesIncreasing, checkEdges1d_12_06]
    cases arr <;> simp
  | nested axes =>
    simp only [C12.checkEdgesIncreasing, edges12to06, C06.checkEdgesIncreasing, checkEdgesAxes_12_06]
    cases axes <;> simp

theorem lenBins_12_06 (b : NArr Rat) : C12.lenBins b = C06.lenBins b := by cases b <;> rfl

/-- `histogram.__init__(edges, bins, initial_value)` (histogram.py:117-164; `init_bins` as `NArr.full` in C12, as
the transcribed recursion `initBinsAxes` in C06): `C12.mkHist` ↔ `C06.mkHist`.  ALL edges except `[[…]]` (one
nested axis), all bins, all initial values; same state, same exception in the same order (edges, `len(bins)` of a
number, wrong length). -/
theorem mkHist_12_06 (e : C12.Edges) (hn : ∀ ax, e ≠ .nested [ax]) (bins : Option (NArr Rat)) (init : Rat) :
    C12.mkHist e bins init = mapOk hist06to12 (C06.mkHist (edges12to06 e) bins init) := by
  unfold C12.mkHist C06.mkHist
  rw [checkEdgesIncreasing_12_06]
  cases hc : C06.checkEdgesIncreasing (edges12to06 e) with
  | error err => simp [bind, Except.bind, mapOk]
  | ok u =>
    simp only [bind, Except.bind]
    cases e with
    | flat arr =>
      have hne : arr.length ≠ 0 := by
        intro h0
        simp [edges12to06, C06.checkEdgesIncreasing, h0] at hc
      cases bins with
      | none =>
        simp [edges12to06, C12.Edges.axes, C06.initBins, hne, pure, Except.pure, mapOk, hist06to12, edges06to12,
          C12.nbinsOf, NArr.full]
      | some b =>
        simp only [edges12to06, C12.Edges.axes, lenBins_12_06, C06.Edges.len]
        cases C06.lenBins b with
        | error err => simp [mapOk]
        | ok n =>
          by_cases h : n = arr.length - 1 <;> simp [h, pure, Except.pure, mapOk, hist06to12, edges06to12]
    | nested axes =>
      cases axes with
      | nil => simp [edges12to06, C06.checkEdgesIncreasing] at hc
      | cons a0 rest =>
        cases rest with
        | nil => exact absurd rfl (hn a0)
        | cons a1 rest' =>
          cases bins with
          | none =>
            have := C06.initBinsAxes_eq init (a0 :: a1 :: rest') (by simp)
            simp [edges12to06, C12.Edges.axes, C06.initBins, this, pure, Except.pure, mapOk, hist06to12, edges06to12,
              C12.nbinsOf]
          | some b =>
            simp only [edges12to06, C12.Edges.axes, lenBins_12_06, C06.Edges.len]
            cases C06.lenBins b with
            | error err => simp [mapOk]
            | ok n =>
              by_cases h : n = a0.length - 1 <;> simp [h, pure, Except.pure, mapOk, hist06to12, edges06to12]

/-- outside the common domain: for one nested axis C12 stops with `unmodelled` after the check of the edges, while
C06 transcribes the constructor for this format too (`C06.mkHist_bins`; the branch repaired by 8d715e5,
notes/C06_defect_1.md) -/
theorem mkHist_12_nested1 (ax : List Rat) (bins : Option (NArr Rat)) (init : Rat) :
    C12.mkHist (.nested [ax]) bins init =
      (match C06.checkEdgesIncreasing (.nested [ax] : C06.Edges Rat) with
       | .error e => .error e
       | .ok () => .error .unmodelled) := by
  unfold C12.mkHist
  rw [checkEdgesIncreasing_12_06]
  simp only [edges12to06]
  cases C06.checkEdgesIncreasing (.nested [ax] : C06.Edges Rat) with
  | error e => rfl
  | ok u => rfl

/-! ### round trips, well-formedness -/

theorem hist06to12_12to06 (h : C12.Hist) (hs : h.scale = none) : hist06to12 (hist12to06 h) = h := by
  cases h; simp_all [hist06to12, hist12to06]

theorem hist12to06_06to12 (h : C06.Hist Rat Rat) (hd : h.dim = C06.edgesDim h.edges) :
    hist12to06 (hist06to12 h) = h := by
  cases h with
  | mk edges bins nOut dim =>
    simp only at hd
    subst hd
    cases edges <;> simp [hist06to12, hist12to06, C12.Hist.dim, edges06to12, C12.Edges.axes, C06.edgesDim, edges12to06]

/-- C06's well-formedness gives C12's -/
theorem wf_06_12 {h : C06.Hist Rat Rat} (hwf : C06.WF h) : (hist06to12 h).WF := by
  refine ⟨?_, ?_⟩
  · simp only [hist06to12, axes_06to12]; exact hwf.edges.1
  · simp only [C12.Hist.nbins, hist06to12, axes_06to12]; exact hwf.shape

/-- … and C12's `Hist.Valid` (the hypothesis of `C12.add_defined`) -/
theorem valid_06_12 {h : C06.Hist Rat Rat} (hwf : C06.WF h) (hn : ∀ ax, h.edges ≠ .nested [ax]) :
    (hist06to12 h).Valid := by
  refine ⟨wf_06_12 hwf, ?_, ?_⟩
  · rw [checkEdgesIncreasing_12_06]
    simp only [hist06to12, edges12to06_06to12]
    exact C06.checkEdgesIncreasing_ok hwf.edges
  · intro ax hax
    apply hn ax
    have := congrArg edges12to06 hax
    rw [show (hist06to12 h).edges = edges06to12 h.edges from rfl, edges12to06_06to12] at this
    exact this

/-! ### `get_nevents` (C12) is C06's `total` -/

/-- `sum(content for _, content in iter_bins(bins))`: C12's `sumQ (values bins)` (in `get_nevents`) ↔ C06's
`total` (the quantity of its conservation theorems).  Any array. -/
theorem sumQ_values_eq_total (b : NArr Rat) : C12.sumQ (NArr.values b) = C06.total b := by
  have := C06.foldl_values b (0 : Rat)
  simp only [C12.sumQ, NArr.values]
  rw [this]; grind

/-- `histogram.get_nevents(include_out_of_range)` (histogram.py:266-284) of a C06 state -/
theorem getNevents_06_12 (h : C06.Hist Rat Rat) :
    C12.getNevents (hist06to12 h) false = C06.total h.bins ∧
    C12.getNevents (hist06to12 h) true = C06.total h.bins + h.nOut := by
  simp [C12.getNevents, hist06to12, sumQ_values_eq_total]

/-- **C06 → C12.**  C06's `weight_conserved` in C12's vocabulary: a histogram constructed by **C12's** `mkHist`,
filled (C06's `fill`) with any sequence of proper coordinates and weights, is a valid operand for C12's arithmetic
(`Hist.Valid`) and `get_nevents(include_out_of_range=True)` equals the total filled weight. -/
theorem c12_nevents_after_fills (e : C12.Edges) (he : C06.ValidEdges (edges12to06 e)) (hn : ∀ ax, e ≠ .nested [ax])
    (ops : List ((Nat → Nat → Nat → Int) × C06.Coord Rat × Rat)) (hops : C06.OpsOK (edges12to06 e) ops) :
    ∃ h₀ h, C12.mkHist e none 0 = .ok h₀ ∧ C06.fillAll (hist12to06 h₀) ops = .ok h ∧
      (hist06to12 h).Valid ∧ (hist06to12 h).edges = e ∧
      C12.getNevents (hist06to12 h) true = C06.sumW (ops.map (·.2.2)) := by
  obtain ⟨g₀, g, hm, hf, hed, hsum⟩ := C06.weight_conserved (β := Rat) he ops hops
  obtain ⟨hwf0, _, _, _⟩ := C06.mkHist_wf he (0 : Rat) hm
  have hd : g₀.dim = C06.edgesDim g₀.edges := by
    rw [C06.mkHist_valid he (0 : Rat)] at hm
    simp only [Except.ok.injEq] at hm
    subst hm; rfl
  obtain ⟨g', hf', hwf', _⟩ := C06.fillAll_ok ops g₀ hwf0 (by
    have := (C06.mkHist_wf he (0 : Rat) hm).2.1
    rw [this]; exact hops)
  rw [hf] at hf'
  simp only [Except.ok.injEq] at hf'
  subst hf'
  refine ⟨hist06to12 g₀, g, ?_, ?_, ?_, ?_, ?_⟩
  · rw [mkHist_12_06 e hn, hm]; rfl
  · rw [hist12to06_06to12 g₀ hd]; exact hf
  · apply valid_06_12 hwf'
    intro ax hax
    rw [hed] at hax
    apply hn ax
    have := congrArg edges06to12 hax
    rw [edges06to12_12to06] at this
    exact this
  · simp [hist06to12, hed]
  · rw [(getNevents_06_12 g).2, hsum]

/-! ### `histogram.add` (C12) on histograms filled in the C06 model -/

theorem totalList_zipWithList (w : Rat) (ns : List Nat)
    (ih : ∀ a b : NArr Rat, NArr.HasShape ns a → NArr.HasShape ns b →
      C06.total (NArr.zipWith (fun x y => x + y * w) a b) = C06.total a + C06.total b * w) :
    ∀ (xs ys : List (NArr Rat)), xs.length = ys.length → (∀ x ∈ xs, NArr.HasShape ns x) →
      (∀ y ∈ ys, NArr.HasShape ns y) →
      C06.totalList (NArr.zipWithList (fun x y => x + y * w) xs ys) = C06.totalList xs + C06.totalList ys * w
  | [], [], _, _, _ => by simp only [NArr.zipWithList, C06.totalList]; grind
  | [], _ :: _, h, _, _ => by simp at h
  | _ :: _, [], h, _, _ => by simp at h
  | x :: xs, y :: ys, h, hx, hy => by
    have i1 := ih x y (hx x (by simp)) (hy y (by simp))
    have i2 := totalList_zipWithList w ns ih xs ys (by simpa using h)
      (fun a ha => hx a (List.mem_cons_of_mem _ ha)) (fun a ha => hy a (List.mem_cons_of_mem _ ha))
    simp only [NArr.zipWithList, C06.totalList, i1, i2]
    grind

theorem total_zipWith (w : Rat) : ∀ (ds : List Nat) (a b : NArr Rat), NArr.HasShape ds a → NArr.HasShape ds b →
    C06.total (NArr.zipWith (fun x y => x + y * w) a b) = C06.total a + C06.total b * w
  | [], .leaf x, .leaf y, _, _ => by simp [NArr.zipWith, C06.total]
  | [], .node _, _, h, _ => by simp [NArr.HasShape] at h
  | [], .leaf _, .node _, _, h => by simp [NArr.HasShape] at h
  | _ :: _, .leaf _, _, h, _ => by simp [NArr.HasShape] at h
  | _ :: _, .node _, .leaf _, _, h => by simp [NArr.HasShape] at h
  | n :: ns, .node xs, .node ys, ha, hb => by
    simp only [NArr.HasShape] at ha hb
    simp only [NArr.zipWith, C06.total]
    exact totalList_zipWithList w ns (total_zipWith w ns) xs ys (by omega) ha.2 hb.2

/-- **C12 → C06.**  C12's `add_defined` and `add_cellwise` on histograms that are well-formed in C06's sense (e.g.
after any fills, `C06.fill_wf`): `a.add(b, w)` never raises for equal edges, and the conserved quantity of C06
(`total bins + n_out_of_range`) of the sum is `a`'s plus `w` times `b`'s. -/
theorem c06_add_defined_and_conserves {a b : C06.Hist Rat Rat} (ha : C06.WF a) (hb : C06.WF b)
    (he : a.edges = b.edges) (hn : ∀ ax, a.edges ≠ .nested [ax]) (w : Rat) (t : C12.Tol) (hr : 0 ≤ t.rel) :
    ∃ c, C12.add (hist06to12 a) (hist06to12 b) w t = .ok c ∧ c.edges = edges06to12 a.edges ∧
      C06.total c.bins + c.nOut = (C06.total a.bins + a.nOut) + (C06.total b.bins + b.nOut) * w := by
  have va := valid_06_12 ha hn
  have vb := valid_06_12 hb (by rw [← he]; exact hn)
  obtain ⟨c, hc⟩ := C12.add_defined (hist06to12 a) (hist06to12 b) w t va vb (by simp [hist06to12, he]) hr
  obtain ⟨_, _, h3, h4, h5, _⟩ := C12.add_cellwise _ _ _ _ _ hc
  refine ⟨c, hc, h3, ?_⟩
  rw [h4, h5]
  simp only [hist06to12]
  rw [total_zipWith w _ a.bins b.bins ha.shape (by rw [he]; exact hb.shape)]
  grind

/-! ## 4. C09 ↔ C12 (through C06 and the embedding `Int → Rat`) -/

/-- the embedding of Python ints into the exact rationals of C12 -/
abbrev iq (a : Int) : Rat := (a : Rat)

/-- a list of integer bin contents as C12's bins -/
def castBins (l : List Int) : NArr Rat := liftBins (l.map iq)

/-- C09's histogram state over the edges `es` as C12's histogram -/
def hist09to12 (es : List Int) (h : C09.Hist) : C12.Hist :=
  { edges := .flat (es.map iq), bins := castBins h.bins, nOut := (h.nOut : Rat), scale := none }

theorem map_liftBins {β β' : Type} (g : β → β') (l : List β) : NArr.map g (liftBins l) = liftBins (l.map g) := by
  simp [liftBins, map_node, map_leaf]

/-- the three maps compose -/
theorem hist09to12_eq (es : List Int) (h : C09.Hist) :
    hist09to12 es h = hist06to12 (mapHist iq iq (hist09to06 es h)) := by
  simp [hist09to12, hist06to12, mapHist, hist09to06, mapEdges, edges06to12, castBins, map_liftBins]

/-- `histogram.__init__` for flat edges: `C09.mkHist` (over `Int`) ↔ `C12.mkHist` (over `Rat`).  ALL inputs.
Composition of `mkHist_09_06`, `mkHist_natural` and `mkHist_12_06`. -/
theorem mkHist_09_12 (es : List Int) (bins : Option (List Int)) (iv : Int) :
    C12.mkHist (.flat (es.map iq)) (bins.map castBins) (iq iv)
      = res09to06 (hist09to12 es) (C09.mkHist es bins iv) := by
  rw [mkHist_12_06 _ (by intro ax h; cases h)]
  have h1 := mkHist_natural (β := Int) (β' := Rat) intCast_ordEmb iq (by simp)
    (.flat es) (bins.map liftBins) iv
  have hb : (bins.map liftBins).map (NArr.map iq) = bins.map castBins := by
    cases bins <;> simp [castBins, map_liftBins]
  rw [hb] at h1
  simp only [mapEdges] at h1
  simp only [edges12to06]
  rw [h1, mkHist_09_06]
  cases C09.mkHist es bins iv with
  | error e => rfl
  | ok h => simp [res09to06, mapOk, hist09to12_eq]

theorem total_castBins : ∀ l : List Int, C06.totalList ((l.map iq).map NArr.leaf) = ((l.sum : Int) : Rat)
  | [] => by simp [C06.totalList]
  | a :: l => by
    have ih := total_castBins l
    simp only [List.map_cons, List.sum_cons, C06.totalList, C06.total, ih, Rat.intCast_add]

/-- `get_nevents` (C12) of a C09 histogram is the integer sum C09 reasons about -/
theorem getNevents_09_12 (es : List Int) (h : C09.Hist) :
    C12.getNevents (hist09to12 es h) true = ((h.bins.sum + h.nOut : Int) : Rat) := by
  simp only [C12.getNevents, hist09to12, sumQ_values_eq_total, castBins, liftBins, C06.total, total_castBins,
    Rat.intCast_add, if_true]

/-- **C09 → C12.**  C09's `hist_conservation` in C12's vocabulary: for the histogram that the `Histogram` element
holds after any flow, `get_nevents(include_out_of_range=True)` is the sum of the initial bins plus the number of
values filled. -/
theorem c12_nevents_of_c09_flow (cfg : C09.HistCfg) (s0 : C09.HistSt) (hnew : C09.Histogram.new cfg = .ok s0)
    (vs : List (C09.Item Int)) :
    C12.getNevents (hist09to12 cfg.edges ((C09.histogramM cfg s0).fillAll s0 vs).hist) true
      = ((cfg.initBins.sum + vs.length : Int) : Rat) := by
  rw [getNevents_09_12, C09.hist_conservation cfg s0 s0 vs]
  obtain ⟨hs0, _⟩ := C09.Histogram.new_ok cfg s0 hnew
  rw [hs0]; simp

/-- the histogram of a C09 element is well-formed for C12 -/
theorem wf_09_12 (es : List Int) (h : C09.Hist) (hl : h.bins.length = es.length - 1) : (hist09to12 es h).WF := by
  refine ⟨by simp [hist09to12, C12.Edges.axes], ?_⟩
  simp only [C12.Hist.nbins, hist09to12, C12.Edges.axes, C12.nbinsOf, List.map_cons, List.map_nil, List.length_map,
    castBins, liftBins, NArr.HasShape]
  refine ⟨by simp [hl], ?_⟩
  intro x hx
  simp only [List.mem_map] at hx
  obtain ⟨_, ⟨_, _, rfl⟩, rfl⟩ := hx
  trivial

/-- **C12 → C09.**  C12's `set_nevents_total`/`set_nevents_spec` for the histogram a C09 element yields: unless
no event at all was counted, `set_nevents(n, include_out_of_range=True)` returns and makes `get_nevents` equal
`n`. -/
theorem c09_hist_set_nevents (cfg : C09.HistCfg) (s0 : C09.HistSt) (hnew : C09.Histogram.new cfg = .ok s0)
    (vs : List (C09.Item Int)) (n : Rat) (hnz : cfg.initBins.sum + (vs.length : Int) ≠ 0) :
    ∃ h', C12.setNevents (hist09to12 cfg.edges ((C09.histogramM cfg s0).fillAll s0 vs).hist) n true = .ok h' ∧
      C12.getNevents h' true = n := by
  have hne := c12_nevents_of_c09_flow cfg s0 hnew vs
  obtain ⟨hs0, hlen, _, _⟩ := C09.Histogram.new_ok cfg s0 hnew
  have hl : ((C09.histogramM cfg s0).fillAll s0 vs).hist.bins.length = cfg.edges.length - 1 := by
    rw [(C09.hist_fillAll cfg s0 s0 vs).1, hs0]; exact hlen
  have hwf := wf_09_12 cfg.edges _ hl
  have hnz' : C12.getNevents (hist09to12 cfg.edges ((C09.histogramM cfg s0).fillAll s0 vs).hist) true ≠ 0 := by
    rw [hne]
    intro h0
    exact hnz (by exact_mod_cast h0)
  obtain ⟨h', hh'⟩ := C12.set_nevents_total _ hwf n true hnz'
  exact ⟨h', hh', (C12.set_nevents_spec _ _ n true hh').2.1⟩

/-! ## 5. C09's n-dimensional `HistogramNd` (built on C06) ↔ C09's one-dimensional `Histogram`

`Model/C09.lean` contains the element twice: the original one-dimensional machine with the closed-form bin index,
and `HistogramNd`, which calls C06's `mkHist`/`fill` with bisection as the guess.  On flat edges they are the same
element. -/

/-- a one-dimensional configuration as an n-dimensional one -/
def cfg1dToNd (cfg : C09.HistCfg) : C09.HistNdCfg :=
  { edges := .flat cfg.edges, bins := cfg.bins.map liftBins, makeBins := cfg.makeBins.map liftBins,
    initialValue := cfg.initialValue }

/-- a one-dimensional state as an n-dimensional one -/
def st1dToNd (es : List Int) (s : C09.HistSt) : C09.HistNdSt := ⟨hist09to06 es s.hist, s.ctx⟩

theorem bisect_ok : C06.GuessesOK C09.bisect := by
  intro k lo hi h; simp only [C09.bisect]; omega

/-- `Histogram.__init__`: `C09.HistogramNd.new` ↔ `C09.Histogram.new`.  ALL one-dimensional configurations, including
the `LenaTypeError` for both `bins` and `make_bins`. -/
theorem histogramNd_new (cfg : C09.HistCfg) :
    C09.HistogramNd.new (cfg1dToNd cfg) =
      match C09.Histogram.new cfg with
      | .ok s => .ok (st1dToNd cfg.edges s)
      | .error e => .error e := by
  unfold C09.HistogramNd.new C09.Histogram.new
  have hsome : ((cfg1dToNd cfg).makeBins.isSome && (cfg1dToNd cfg).bins.isSome) = (cfg.makeBins.isSome && cfg.bins.isSome) := by
    simp [cfg1dToNd]
  rw [hsome]
  by_cases hb : (cfg.makeBins.isSome && cfg.bins.isSome) = true
  · simp [hb]
  · simp only [hb, Bool.false_eq_true, if_false]
    have key : ∀ ob : Option (List Int),
        (match C06.mkHist (C06.Edges.flat cfg.edges) (ob.map liftBins) cfg.initialValue with
          | .error e => (.error (C09.ofLenaErr e) : Except C09.Err C09.HistNdSt)
          | .ok h => .ok ⟨h, []⟩) =
        (match (match C09.mkHist cfg.edges ob cfg.initialValue with
            | .error e => (.error e : Except C09.Err C09.HistSt)
            | .ok h => .ok ⟨h, []⟩) with
          | .ok s => .ok (st1dToNd cfg.edges s)
          | .error e => .error e) := by
      intro ob
      rw [mkHist_09_06]
      cases hm : C09.mkHist cfg.edges ob cfg.initialValue with
      | error e =>
        have := mkHist_09_error _ _ _ _ hm
        subst this; rfl
      | ok h => rfl
    cases hm : cfg.makeBins with
    | none =>
      have hstart : (cfg1dToNd cfg).startBins = cfg.bins.map liftBins := by
        simp [C09.HistNdCfg.startBins, cfg1dToNd, hm]
      rw [hstart]
      exact key cfg.bins
    | some b =>
      have hstart : (cfg1dToNd cfg).startBins = (some b : Option (List Int)).map liftBins := by
        simp [C09.HistNdCfg.startBins, cfg1dToNd, hm]
      rw [hstart]
      exact key (some b)

/-- `Histogram.fill`: `C09.HistogramNd.fill` ↔ `C09.Histogram.fill` (strictly increasing non-empty edges, as
every constructed element has) -/
theorem histogramNd_fill (cfg : C09.HistCfg) (s : C09.HistSt) (v : C09.Item Int)
    (hinc : C06.StrictInc cfg.edges) (hne : cfg.edges ≠ []) :
    C09.HistogramNd.fill (st1dToNd cfg.edges s) ⟨.scalar v.data, v.ctx⟩
      = (st1dToNd cfg.edges (C09.Histogram.fill cfg s v), none) := by
  simp only [C09.HistogramNd.fill, st1dToNd,
    fill_09_06 C09.bisect cfg.edges s.hist v.data ((bisect_ok 0).at _ _) hinc hne]
  rfl

/-- `Histogram.reset`: `C09.HistogramNd.reset` ↔ `C09.Histogram.reset`, for every element that was constructed -/
theorem histogramNd_reset (cfg : C09.HistCfg) (s0 s : C09.HistSt) (h : C09.Histogram.new cfg = .ok s0) :
    C09.HistogramNd.reset (cfg1dToNd cfg) (st1dToNd cfg.edges s)
      = st1dToNd cfg.edges (C09.Histogram.reset cfg s) := by
  have hn := histogramNd_new cfg
  rw [h] at hn
  have hb : (cfg.makeBins.isSome && cfg.bins.isSome) = false := by
    cases h1 : cfg.makeBins.isSome <;> cases h2 : cfg.bins.isSome <;> simp_all [C09.Histogram.new]
  unfold C09.HistogramNd.new at hn
  rw [show ((cfg1dToNd cfg).makeBins.isSome && (cfg1dToNd cfg).bins.isSome) = false by simp [cfg1dToNd, hb]] at hn
  simp only [Bool.false_eq_true, if_false] at hn
  unfold C09.HistogramNd.reset
  rw [C09.hist_reset_is_init cfg s0 h s]
  cases hm : C06.mkHist (cfg1dToNd cfg).edges (cfg1dToNd cfg).startBins (cfg1dToNd cfg).initialValue with
  | error e => rw [hm] at hn; cases hn
  | ok hh =>
    rw [hm] at hn
    simp only [Except.ok.injEq] at hn
    exact hn

/-! ## 6. C11 ↔ C06: `histogram(edges, bins)` and the walk of `SplitIntoBins.fill`

C11 uses C06's `getBinOnValue`, `checkEdgesIncreasing`, `initBins` directly; what it transcribes again is the
constructor with bins given and the walk through the nested bins (a different Python loop doing the same walk). -/
section C11
variable {α β ε : Type} [LT α] [LE α] [DecidableLT α] [DecidableLE α] [DecidableEq α]

/-- C11 observes only `edges` and `bins` of a histogram -/
def hist06to11 (h : C06.Hist α β) : C11.Hist α β := ⟨h.edges, h.bins⟩

/-- `histogram.__init__(edges, bins)` (histogram.py:117-164) with bins given: `C11.mkHistogram` ↔ `C06.mkHist`.
ALL edges and bins (also the one-axis nested format `[[…]]`, whose shape test was repaired by 8d715e5: both
transcribe the repaired test); same exception through C11's own class map `Exc.ofErr`.  (`init` is not looked at when bins are given.) -/
theorem mkHistogram_11_06 [Zero β] (edges : C06.Edges α) (bins : NArr β) (init : β) :
    (C11.mkHistogram edges bins : Except (C11.Exc ε) (C11.Hist α β)) =
      match C06.mkHist edges (some bins) init with
      | .ok h => .ok (hist06to11 h)
      | .error e => .error (C11.Exc.ofErr e) := by
  unfold C11.mkHistogram C06.mkHist
  cases C06.checkEdgesIncreasing edges with
  | error e => rfl
  | ok u =>
    simp only [bind, Except.bind]
    cases C06.lenBins bins with
    | error e => rfl
    | ok n =>
      cases edges with
      | flat arr =>
        by_cases h : n = arr.length - 1 <;> simp [h, pure, Except.pure, hist06to11, C11.Exc.ofErr]
      | nested axes =>
        cases axes with
        | nil => rfl
        | cons a0 rest =>
          by_cases h : n = a0.length - 1 <;> simp [h, pure, Except.pure, hist06to11, C11.Exc.ofErr]

/-- the walk through the nested bins along the bin index — `SplitIntoBins.fill` (split_into_bins.py:351-362,
`C11.fillWalk` with a cell action that adds `w`) against `histogram.fill` (histogram.py:239-264, `C06.fillWalk`):
whatever C11's walk returns (a filled cell, or "ignored"), C06's walk returns the same — for ANY bins, regular or
not, and any non-empty index.  Outside: where C11 says `unmodelled` (indexing a number, a list where a cell is
expected) C06 has the builtin exception or the out-of-range outcome; the empty index (C06: `IndexError` from
`indices[-1]`, C11: the array itself is the cell). -/
theorem fillWalk_11_06 [Add β] (w : β) : ∀ (idxs : List Int) (a : NArr β) (r : Option (NArr β)), idxs ≠ [] →
    (C11.fillWalk (fun c => (.ok (c + w) : Except ε β)) a idxs = .ok r) → C06.fillWalk w a idxs = .ok r
  | [], _, _, h, _ => absurd rfl h
  | _ :: _, .leaf _, _, _, h => by simp [C11.fillWalk] at h
  | [i], .node xs, r, _, h => by
    unfold C11.fillWalk at h
    unfold C06.fillWalk
    by_cases h0 : i < 0
    · simp only [h0, if_true, Except.ok.injEq] at h ⊢; exact h
    · simp only [h0, if_false] at h ⊢
      cases hx : xs[i.toNat]? with
      | none => simp only [hx, Except.ok.injEq] at h ⊢; exact h
      | some x =>
        simp only [hx] at h ⊢
        cases x with
        | leaf c => simpa [C11.fillWalk] using h
        | node ys => simp [C11.fillWalk] at h
  | i :: j :: is, .node xs, r, _, h => by
    unfold C11.fillWalk at h
    unfold C06.fillWalk
    by_cases h0 : i < 0
    · simp only [h0, if_true, Except.ok.injEq] at h ⊢; exact h
    · simp only [h0, if_false] at h ⊢
      cases hx : xs[i.toNat]? with
      | none => simp only [hx, Except.ok.injEq] at h ⊢; exact h
      | some x =>
        simp only [hx] at h ⊢
        cases hr : C11.fillWalk (fun c => (.ok (c + w) : Except ε β)) x (j :: is) with
        | error e => simp [hr] at h
        | ok r' =>
          have := fillWalk_11_06 w (j :: is) x r' (by simp) hr
          simp only [hr] at h
          simp only [this]
          cases r' with
          | none => simp only [Except.ok.injEq] at h ⊢; exact h
          | some x' => simp only [Except.ok.injEq] at h ⊢; exact h

/-- on regular bins and a bin index with one component per axis both walks return, and return the same -/
theorem fillWalk_11_06_regular [Add β] (w : β) (ds : List Nat) (hd : ds ≠ []) (a : NArr β) (hs : NArr.HasShape ds a)
    (idxs : List Int) (hl : idxs.length = ds.length) :
    (C11.fillWalk (fun c => (.ok (c + w) : Except ε β)) a idxs : Except (C11.Exc ε) _) =
      C11.liftErr (C06.fillWalk w a idxs) := by
  have hne : idxs ≠ [] := by
    intro h; subst h; cases ds with
    | nil => exact hd rfl
    | cons _ _ => simp at hl
  have hok : ∃ r, (C11.fillWalk (fun c => (.ok (c + w) : Except ε β)) a idxs : Except (C11.Exc ε) _) = .ok r := by
    by_cases hr : C06.InRange idxs ds
    · obtain ⟨c, _, hw⟩ := C11.fillWalk_in (ε := ε) (fun c => .ok (c + w)) ds a idxs hs hr
      exact ⟨_, hw⟩
    · exact ⟨_, C11.fillWalk_out (fun c => .ok (c + w)) ds a idxs hs hl hr⟩
  obtain ⟨r, hr⟩ := hok
  rw [hr, fillWalk_11_06 w idxs a r hne hr]
  rfl


/-- **C06 → C11.**  `SplitIntoBins.fill(val)` around an analysis whose `fill` adds `w` to its cell is
`histogram.fill(x, w)` on the same bins: whenever C11's `SIB.fill` returns, C06's `fill` on the state with the
same edges and bins returns the same bins — and C06's `fill_conserves` then holds for the SplitIntoBins: the
cells' total grew by `w`, or the value was outside and the weight is in `n_out_of_range`. -/
theorem sibFill_11_06 [Std.IsLinearOrder α] [Std.LawfulOrderLT α] [Lean.Grind.AddCommMonoid β]
    {D ρ : Type} (names : List String) (an : C11.Analysis β D ρ ε) (av : C11.ArgVar α D ε)
    (guess : Nat → Nat → Nat → Int) (s s' : C11.SIB α β) (val : C14.Value D) (w : β) (x : C06.Coord α)
    (hfill : ∀ c, an.fill c val = .ok (c + w))
    (hget : av.getter (C14.getDataContext names val).1 = .ok x)
    (he : C06.ValidEdges s.edges)
    (h : C11.SIB.fill names an av guess s val = .ok s') (nOut : β) (dim : Nat) :
    ∃ h', C06.fill guess { edges := s.edges, bins := s.bins, nOut := nOut, dim := dim } x w = .ok h' ∧
      h'.bins = s'.bins ∧ h'.edges = s'.edges ∧
      C06.total s'.bins + h'.nOut = C06.total s.bins + nOut + w := by
  have hfun : (fun c => an.fill c val) = (fun c => (.ok (c + w) : Except ε β)) := funext hfill
  unfold C11.SIB.fill at h
  simp only [hget, hfun] at h
  cases hb : C06.getBinOnValue guess x s.edges with
  | error e => simp [hb] at h
  | ok idx =>
    simp only [hb] at h
    have hlen := C11.getBinOnValue_length guess he x idx hb
    have hne : idx ≠ [] := by
      intro h0; subst h0
      have := he.1
      simp at hlen
      exact this (List.eq_nil_of_length_eq_zero hlen.symm)
    cases hw : C11.fillWalk (fun c => (.ok (c + w) : Except ε β)) s.bins idx with
    | error e => simp [hw] at h
    | ok r =>
      have h06 := fillWalk_11_06 w idx s.bins r hne hw
      simp only [hw] at h
      have hf : C06.fill guess { edges := s.edges, bins := s.bins, nOut := nOut, dim := dim } x w =
          .ok (match r with
            | none => { edges := s.edges, bins := s.bins, nOut := nOut + w, dim := dim }
            | some b => { edges := s.edges, bins := b, nOut := nOut, dim := dim }) := by
        simp only [C06.fill, hb, h06, bind, Except.bind]
        cases r <;> rfl
      have hc := (C06.fill_conserves guess _ _ x w hf).2.2
      refine ⟨_, hf, ?_, ?_, ?_⟩
      · cases r with
        | none => simp only [Except.ok.injEq] at h; subst h; rfl
        | some b => simp only [Except.ok.injEq] at h; subst h; rfl
      · cases r with
        | none => simp only [Except.ok.injEq] at h; subst h; rfl
        | some b => simp only [Except.ok.injEq] at h; subst h; rfl
      · cases r with
        | none => simp only [Except.ok.injEq] at h; subst h; exact hc
        | some b => simp only [Except.ok.injEq] at h; subst h; exact hc

end C11

/-! ## 7. C11 ↔ C12: `get_bin_edges` / `iter_bins_with_edges` -/

/-- `[(edges[coord][i], edges[coord][i+1]) for coord, i in enumerate(index)]` (`get_bin_edges`,
`iter_bins_with_edges`, hist_functions.py:105-123, 502-506): `C11.cellEdges` ↔ `C12.cellEdges`.  ALL axes and
indices, same `IndexError`. -/
theorem cellEdges_11_12 {ε : Type} : ∀ (axes : List (List Rat)) (idx : List Nat),
    (C11.cellEdges axes idx : Except (C11.Exc ε) _) = C11.liftErr (C12.cellEdges axes idx)
  | _, [] => by simp [C11.cellEdges, C12.cellEdges, C11.liftErr]
  | [], _ :: _ => by simp [C11.cellEdges, C12.cellEdges, C11.liftErr, C11.Exc.ofErr]
  | e :: es, i :: is => by
    simp only [C11.cellEdges, C12.cellEdges]
    cases h1 : e[i]? with
    | none => simp [C11.liftErr, C11.Exc.ofErr]
    | some lo =>
      cases h2 : e[i + 1]? with
      | none => simp [C11.liftErr, C11.Exc.ofErr]
      | some hi =>
        simp only [cellEdges_11_12 es is, bind, Except.bind]
        cases C12.cellEdges es is <;> simp [C11.liftErr, pure, Except.pure]

/-- the index tuples of `iter_bins_with_edges` (`itertools.product(*[range(len(edge) - 1) …])`): `C11.binIndices` is
literally the list `C12.iterBinsWithEdges` maps over -/
theorem binIndices_11_12 (e : C06.Edges Rat) :
    C11.binIndices e = NArr.indexProd (e.axes.map (fun a => List.range (a.length - 1))) := rfl

/-- a `mapM` whose steps refine another one's -/
theorem mapM_refines {ι A B E : Type} (f : ι → Except (C11.Exc E) A) (g : ι → Except Err B) (p : A → B)
    (hfg : ∀ i a, f i = .ok a → g i = .ok (p a)) : ∀ (l : List ι) (r : List A),
    l.mapM f = .ok r → l.mapM g = .ok (r.map p)
  | [], r, h => by
    simp only [List.mapM_nil, pure, Except.pure, Except.ok.injEq] at h
    subst h; rfl
  | i :: l, r, h => by
    simp only [List.mapM_cons, bind, Except.bind] at h ⊢
    cases hi : f i with
    | error e => simp [hi] at h
    | ok a =>
      simp only [hi] at h
      cases hl : l.mapM f with
      | error e => simp [hl] at h
      | ok r' =>
        simp only [hl, pure, Except.pure, Except.ok.injEq] at h
        subst h
        simp [hfg i a hi, mapM_refines f g p hfg l r' hl, pure, Except.pure]

/-- `iter_bins_with_edges(bins, edges)`: what C11's per-cell step produces for all its index tuples is what
C12's transcription yields -/
theorem iterBinsWithEdges_11_12 {ε : Type} (bins : NArr Rat) (e : C12.Edges) (l : List (Rat × List (Rat × Rat)))
    (h : (C11.binIndices (edges12to06 e)).mapM
          (C11.binWithEdges (ε := ε) ⟨edges12to06 e, bins⟩) = .ok l) :
    C12.iterBinsWithEdges bins e = .ok (l.map (fun vc => (.leaf vc.1, vc.2))) := by
  unfold C12.iterBinsWithEdges
  have hax : (edges12to06 e).axes = e.axes := by cases e <;> rfl
  rw [binIndices_11_12, hax] at h
  refine mapM_refines _ _ (fun vc => (NArr.leaf vc.1, vc.2)) ?_ _ l h
  intro idx vc hv
  unfold C11.binWithEdges at hv
  simp only [hax] at hv
  cases hg : NArr.getBin bins idx with
  | error e' => simp [hg] at hv
  | ok b =>
    cases b with
    | node ys => simp [hg] at hv
    | leaf v =>
      simp only [hg, cellEdges_11_12] at hv
      cases hc : C12.cellEdges e.axes idx with
      | error e' => simp [hc, C11.liftErr] at hv
      | ok ce =>
        simp only [hc, C11.liftErr, Except.ok.injEq] at hv
        subst hv
        simp [bind, Except.bind, pure, Except.pure]

/-! ## 8. Non-vacuity: concrete instances of the hypotheses (tests, not theorems) -/
section Examples
open Lena.C06 (midGuess midGuess_ok exArr exArr_inc exEdges exEdges_valid)

/-- edges and a state used below: `histogram([0, 1, 3], bins=[2, 2])` -/
def exEs : List Int := [0, 1, 3]
theorem exEs_inc : C06.StrictInc exEs := by unfold C06.StrictInc exEs; decide

-- section 1: the search over `Rat` takes the same path as over `Int` (the C06 example 45 ↦ bin 2)
example : C06.bin1d midGuess (iq 45) (exArr.map iq) = .ok 2 := by
  rw [bin1d_natural intCast_ordEmb, C06.bin1d_spec midGuess _ (midGuess_ok.at _ _) exArr_inc (by decide)]; rfl
example : C06.getBinOnValue (fun _ => midGuess) (mapCoord iq (.tuple [3, 1])) (mapEdges iq exEdges)
    = C06.getBinOnValue (fun _ => midGuess) (.tuple [3, 1]) exEdges :=
  getBinOnValue_natural intCast_ordEmb _ _ _

-- section 2: the hypotheses of `bin1d_09_06`, `fill_09_06`, `histogramFill_09_06` hold; the closed form computes
example : C06.bin1d midGuess 45 exArr = .ok (C09.binIndex exArr 45) ∧ C09.binIndex exArr 45 = 2 :=
  ⟨bin1d_09_06 midGuess exArr 45 (midGuess_ok.at _ _) exArr_inc (by decide), by decide⟩
example : C06.bin1d (C06.interpGuess exArr 100) 100 exArr = .ok 5 :=
  bin1d_interp_09_06 exArr 100 exArr_inc (by decide)
example : C06.fill (fun _ => midGuess) (hist09to06 exEs ⟨[2, 2], 0⟩) (.scalar 2) 1
    = .ok (hist09to06 exEs ⟨[2, 3], 0⟩) :=
  fill_09_06 (fun _ => midGuess) exEs ⟨[2, 2], 0⟩ 2 (midGuess_ok.at _ _) exEs_inc (by decide)
example : C06.fill (fun _ => midGuess) (hist09to06 exEs ⟨[2, 2], 0⟩) (.scalar 3) 1
    = .ok (hist09to06 exEs ⟨[2, 2], 1⟩) :=
  fill_09_06 (fun _ => midGuess) exEs ⟨[2, 2], 0⟩ 3 (midGuess_ok.at _ _) exEs_inc (by decide)
-- a state whose bins do not match the edges (one bin for three edges): still the same on both sides
example : C06.fill (fun _ => midGuess) (hist09to06 exEs ⟨[7], 0⟩) (.scalar 2) 1 = .ok (hist09to06 exEs ⟨[7], 1⟩) :=
  fill_09_06 (fun _ => midGuess) exEs ⟨[7], 0⟩ 2 (midGuess_ok.at _ _) exEs_inc (by decide)
-- construction: success and both failures
example : C06.mkHist (.flat exEs) none (2 : Int) = .ok (hist09to06 exEs ⟨[2, 2], 0⟩) := mkHist_09_06 exEs none 2
example : C06.mkHist (.flat [0, 1, 1] : C06.Edges Int) (none : Option (NArr Int)) (0 : Int) = .error .lenaValueError :=
  mkHist_09_06 [0, 1, 1] none 0
example : C06.mkHist (.flat exEs) (some (liftBins [1])) (0 : Int) = .error .lenaValueError :=
  mkHist_09_06 exEs (some [1]) 0

/-- a constructed C09 element (the hypothesis `hnew` of the transfer theorems) -/
def exCfg : C09.HistCfg := ⟨exEs, none, none, 2⟩
theorem exCfg_new : C09.Histogram.new exCfg = .ok ⟨⟨[2, 2], 0⟩, []⟩ := by rfl

example : ∃ e0 e, C06.HistEl.new ([] : C09.Ctx) (.flat exEs) none (2 : Int) = .ok e0 ∧
    C06.HistEl.fillAll ([] : C09.Ctx) 1 e0 (flow09to06 (fun _ => midGuess) [⟨2, none⟩, ⟨5, none⟩, ⟨0, none⟩]) = .ok e ∧
    e.hist.nOut = 1 := by
  obtain ⟨e0, e, h1, h2, _, h4, _⟩ :=
    c06_element_counts (fun _ => midGuess) (fun _ => midGuess_ok) exCfg _ exCfg_new [⟨2, none⟩, ⟨5, none⟩, ⟨0, none⟩]
  exact ⟨e0, e, h1, h2, by rw [h4]; decide⟩

example : C12.getNevents (hist09to12 exEs ((C09.histogramM exCfg ⟨⟨[2, 2], 0⟩, []⟩).fillAll ⟨⟨[2, 2], 0⟩, []⟩
    [⟨2, none⟩, ⟨5, none⟩]).hist) true = 6 := by
  have := c12_nevents_of_c09_flow exCfg _ exCfg_new [⟨2, none⟩, ⟨5, none⟩]
  rw [show exCfg.edges = exEs from rfl] at this
  rw [this]; decide

-- section 5: the two transcriptions of the element inside C09 agree on this configuration
example : C09.HistogramNd.new (cfg1dToNd exCfg) = .ok (st1dToNd exEs ⟨⟨[2, 2], 0⟩, []⟩) := by
  rw [histogramNd_new, exCfg_new]; rfl
example : C09.HistogramNd.new (cfg1dToNd ⟨exEs, some [1, 1], some [1, 1], 0⟩) = .error .typeError := by
  rw [histogramNd_new]; rfl

-- section 3: C12 ↔ C06
theorem exQ_axis : C06.ValidAxis ([0, 1, 3] : List Rat) := ⟨by decide, by unfold C06.StrictInc; decide⟩
/-- valid flat edges over `Rat` -/
theorem exQ_valid : C06.ValidEdges (edges12to06 (.flat [0, 1, 3])) := by
  refine ⟨by simp [edges12to06, C06.Edges.axes], ?_⟩
  intro arr h
  simp only [edges12to06, C06.Edges.axes, List.mem_cons, List.not_mem_nil, or_false] at h
  subst h
  exact exQ_axis
theorem exQ1_valid : C06.ValidEdges (.nested [[0, 1, 3]] : C06.Edges Rat) := by
  refine ⟨by simp [C06.Edges.axes], ?_⟩
  intro arr h
  simp only [C06.Edges.axes, List.mem_cons, List.not_mem_nil, or_false] at h
  subst h
  exact exQ_axis

example : C12.mkHist (.nested [[0, 1, 3], [0, 2]]) none 0
    = mapOk hist06to12 (C06.mkHist (.nested [[0, 1, 3], [0, 2]]) none 0) :=
  mkHist_12_06 _ (by intro ax h; cases h) none 0
example : C12.mkHist (.nested [[0, 1, 3]]) none 0 = .error .unmodelled := by
  rw [mkHist_12_nested1, C06.checkEdgesIncreasing_ok exQ1_valid]

example : ∃ h₀ h, C12.mkHist (.flat [0, 1, 3]) none 0 = .ok h₀ ∧
    C06.fillAll (hist12to06 h₀) [(fun _ => midGuess, .scalar 2, 5), (fun _ => midGuess, .scalar 7, (1 : Rat) / 2)] = .ok h ∧
    C12.getNevents (hist06to12 h) true = 5 + 1 / 2 := by
  obtain ⟨h₀, h, h1, h2, _, _, h5⟩ := c12_nevents_after_fills (.flat [0, 1, 3]) exQ_valid (by intro ax h; cases h)
    [(fun _ => midGuess, .scalar 2, 5), (fun _ => midGuess, .scalar 7, (1 : Rat) / 2)]
    (by
      intro op hm
      simp only [List.mem_cons, List.not_mem_nil, or_false] at hm
      rcases hm with rfl | rfl <;> exact ⟨fun _ => midGuess_ok, _, C06.Proper.flat _ _⟩)
  refine ⟨h₀, h, h1, h2, ?_⟩
  rw [h5]; simp [C06.sumW]; grind

/-- a well-formed C06 state over `Rat` -/
def exQ : C06.Hist Rat Rat := { edges := .flat [0, 1, 3], bins := .node [.leaf 1, .leaf 2], nOut := 1, dim := 1 }
theorem exQ_wf : C06.WF exQ := ⟨exQ_valid, by simp [exQ, C06.dimsOf, C06.Edges.axes, NArr.HasShape]⟩
example : ∃ c, C12.add (hist06to12 exQ) (hist06to12 exQ) (1 / 2) ⟨0, 0⟩ = .ok c ∧
    C06.total c.bins + c.nOut = (C06.total exQ.bins + exQ.nOut) + (C06.total exQ.bins + exQ.nOut) * (1 / 2) := by
  obtain ⟨c, h1, _, h3⟩ := c06_add_defined_and_conserves exQ_wf exQ_wf rfl (by intro ax h; cases h) (1 / 2)
    ⟨0, 0⟩ Rat.le_refl
  exact ⟨c, h1, h3⟩

-- section 6: C11 ↔ C06
example : C06.fillWalk (5 : Int) (NArr.full [3, 2] 0) [2, 1]
    = .ok (some (.node [.node [.leaf 0, .leaf 0], .node [.leaf 0, .leaf 0], .node [.leaf 0, .leaf 5]])) :=
  fillWalk_11_06 (ε := Unit) 5 [2, 1] _ _ (by simp) (by rfl)
example : (C11.mkHistogram exEdges (.node [.leaf 0, .leaf 0, .leaf 0]) : Except (C11.Exc Unit) (C11.Hist Int Int))
    = .ok ⟨exEdges, .node [.leaf 0, .leaf 0, .leaf 0]⟩ := by
  rw [mkHistogram_11_06 (init := (0 : Int)), C06.mkHist_bins exEdges_valid]; rfl

/-- an analysis that counts -/
def exCount : C11.Analysis Int (List Int) Int Unit where
  fill c _ := .ok (c + 1)
  compute c := ⟨[c], none⟩

example : ∃ s' h', C11.SIB.fill [] exCount C11.exAv C11.exG ⟨exEdges, NArr.full [3, 2] (0 : Int), []⟩ (.bare [3, 1]) = .ok s' ∧
    C06.fill C11.exG { edges := exEdges, bins := NArr.full [3, 2] (0 : Int), nOut := 0, dim := 2 } (.tuple [3, 1]) 1 = .ok h' ∧
    h'.bins = s'.bins := by
  obtain ⟨c, _, _, hok⟩ := (C11.fill_one [] exCount C11.exAv C11.exG (s := ⟨exEdges, NArr.full [3, 2] 0, []⟩)
    exEdges_valid (C06.hasShape_full _ _) (.bare [3, 1])).2.2 [2, 1] C11.ex_route_in
  have hs := hok (c + 1) rfl
  obtain ⟨h', hf, hb, _, _⟩ := sibFill_11_06 [] exCount C11.exAv C11.exG _ _ (.bare [3, 1]) 1 (.tuple [3, 1])
    (fun _ => rfl) rfl exEdges_valid hs 0 2
  exact ⟨_, h', hs, hf, hb⟩

-- section 7: C11 ↔ C12
example : (C11.cellEdges [[0, 1, 3], [0, 2]] [1, 0] : Except (C11.Exc Unit) (List (Rat × Rat))) = .ok [(1, 3), (0, 2)] := by
  rw [cellEdges_11_12]; rfl
example : C12.iterBinsWithEdges (.node [.leaf 1, .leaf 2]) (.flat [0, 1, 3])
    = .ok [(.leaf 1, [(0, 1)]), (.leaf 2, [(1, 3)])] :=
  iterBinsWithEdges_11_12 (ε := Unit) _ _ [(1, [(0, 1)]), (2, [(1, 3)])] (by rfl)

end Examples

end Lena.Bridge.Hist
