import LenaModel.Props.C01
import LenaModel.Props.C02
import LenaModel.Props.C05
import LenaModel.Props.C10
import LenaModel.Props.C17
/-! # Bridge: `Sequence.run`, the stream stages and the iterators — agreement of the independent transcriptions

The same Python code (`lena/core/sequence.py` `Sequence.__init__/run`, `lena/core/adapters.py` `Run._call_run/_fc_run`,
`lena/flow/filter.py` `Filter.run/fill_into`, `lena/flow/iterators.py` `Slice.run/fill_into`,
`lena/flow/elements.py` `Count.run`, `RunIf.run`, `End.run`, `lena/core/fill_seq.py` `_Fill.fill`) is transcribed
into Lean several times, by different builders, with different value types:

* C01 (`Model/C01Stream.lean`, `Model/C01.lean`): streams `Strm` (values + terminating exception), stages,
  elements with history-indexed `fill`/`compute`, `Seq.run` as a fold, the vocabulary `Spec`;
* C05 (`Model/C05.lean`): its own `Strm`/stages, state-machine accumulators, `Obj`/`Caps`, `driveSeq`, the `_Fill`
  chain `chainSink`;
* C02 (`Model/C02.lean`): generator machines (`mapG`, `filterG`, `isliceG`, `negG`, `countG`, `runIfG`, `seqRun`)
  and their list semantics `den`/`seqDen`, the `_Fill` chain `fillChain`;
* C17 (`Model/C17.lean`): `Slice` on lists (`islice`, `runNegative`, `sliceRun`, `fillInto`);
* C10 (`Model/C10.lean`): the loop of `RunIf.run` with blocks, state and its own exceptions.

Each is validated against /repo by its own correspondence check.  The theorems below show that they agree
with each other under explicit translation maps — so that an error in one transcription would contradict
another that was validated separately, and so that theorems proved about one model transfer to the others
(`c05_sliceS_ofList`, `c02_negslice_den`, `machines_yield_stream_prefix`, `c01_seq_eq_fill`, `c05_seq_append`,
`c01_runIf_term_determined_by_selected`, `c01_runIf_unselected_id`).

Sections: 1 streams C01↔C05; 2 `_fc_run`, `Sequence.__init__/run` C01↔C05; 3 the vocabularies, `driveSeq_agree`;
4 machines/list semantics C02 ↔ streams; 5 `Slice` C17 ↔ streams; 6 `RunIf` C10↔C02↔C01; 7 concrete values
C02↔Flow; 8 transfers C01↔C05; 9 the `_Fill` chain C02↔C05; 10 what the executable cross-check evaluates.  Every agreement is stated for all inputs; where two
models legitimately differ the common domain is a hypothesis and the comment says what is outside it. -/

namespace Lena.Bridge.Flow
open Lena.Flow

variable {α β : Type}

/-! ## 1. C01 streams ↔ C05 streams -/

/-- translation of a C01 stream into a C05 stream (same fields) -/
def to5 (s : Lena.C01.Strm α) : Lena.C05.Strm α := ⟨s.vals, s.term⟩
/-- and back -/
def to1 (s : Lena.C05.Strm α) : Lena.C01.Strm α := ⟨s.vals, s.term⟩

@[simp] theorem to1_to5 (s : Lena.C01.Strm α) : to1 (to5 s) = s := rfl
@[simp] theorem to5_to1 (s : Lena.C05.Strm α) : to5 (to1 s) = s := rfl
@[simp] theorem to5_vals (s : Lena.C01.Strm α) : (to5 s).vals = s.vals := rfl
@[simp] theorem to5_term (s : Lena.C01.Strm α) : (to5 s).term = s.term := rfl
@[simp] theorem to1_vals (s : Lena.C05.Strm α) : (to1 s).vals = s.vals := rfl
@[simp] theorem to1_term (s : Lena.C05.Strm α) : (to1 s).term = s.term := rfl
@[simp] theorem to5_mk (v : List α) (t : Option Exc) : to5 (⟨v, t⟩ : Lena.C01.Strm α) = ⟨v, t⟩ := rfl

theorem to5_injective : Function.Injective (to5 (α := α)) := fun a b h => by
  have := congrArg to1 h
  simpa using this

/-- a C01 stage seen as a C05 stage -/
def stage5 (t : Lena.C01.Stage α) : Lena.C05.Stage α := fun s => (t (to1 s)).map to5
/-- a C05 stage seen as a C01 stage -/
def stage1 (t : Lena.C05.Stage α) : Lena.C01.Stage α := fun s => (t (to5 s)).map to1

theorem except_map_map {ε a b c : Type} (f : a → b) (g : b → c) (x : Except ε a) :
    (x.map f).map g = x.map (g ∘ f) := by cases x <;> rfl

theorem except_map_id' {ε a : Type} (f : a → a) (hf : ∀ x, f x = x) (x : Except ε a) : x.map f = x := by
  cases x with
  | error e => rfl
  | ok v => simp [Except.map, hf]

@[simp] theorem stage1_stage5 (t : Lena.C01.Stage α) : stage1 (stage5 t) = t := by
  funext s
  simp only [stage1, stage5, to1_to5, except_map_map]
  exact except_map_id' _ (fun x => rfl) _

@[simp] theorem stage5_stage1 (t : Lena.C05.Stage α) : stage5 (stage1 t) = t := by
  funext s
  simp only [stage1, stage5, to5_to1, except_map_map]
  exact except_map_id' _ (fun x => rfl) _

@[simp] theorem to5_nil : to5 (Lena.C01.Strm.nil : Lena.C01.Strm α) = Lena.C05.Strm.nil := rfl
@[simp] theorem to5_ofList (xs : List α) : to5 (Lena.C01.Strm.ofList xs) = Lena.C05.Strm.ofList xs := rfl
@[simp] theorem to5_fail (e : Exc) : to5 (Lena.C01.Strm.fail e : Lena.C01.Strm α) = Lena.C05.Strm.fail e := rfl
@[simp] theorem to5_cons (x : α) (s : Lena.C01.Strm α) : to5 (s.cons x) = (to5 s).cons x := rfl

@[simp] theorem to5_andThen (s t : Lena.C01.Strm α) : to5 (s.andThen t) = (to5 s).andThen (to5 t) := by
  unfold Lena.C01.Strm.andThen Lena.C05.Strm.andThen
  cases h : s.term <;> simp [h]

theorem to5_observe (r : Except Exc (Lena.C01.Strm α)) :
    to5 (Lena.C01.observe r) = Lena.C05.observe (r.map to5) := by
  cases r <;> rfl

/-- `Run._call_run` (`for val in flow: yield self._el(val)`): `Lena.C01.mapS` and `Lena.C05.mapS` agree on
every stream (values and terminating exception), for every possibly-raising `f` -/
theorem mapGo_agree (f : α → Except Exc β) (t : Option Exc) : ∀ xs : List α,
    to5 (Lena.C01.mapGo f t xs) = Lena.C05.mapGo f t xs
  | [] => rfl
  | x :: xs => by
    simp only [Lena.C01.mapGo, Lena.C05.mapGo]
    cases f x with
    | error e => rfl
    | ok y => simp [mapGo_agree f t xs]

theorem mapS_agree (f : α → Except Exc β) (s : Lena.C01.Strm α) :
    to5 (Lena.C01.mapS f s) = Lena.C05.mapS f (to5 s) := mapGo_agree f s.term s.vals

theorem filterGo_agree (p : α → Except Exc Bool) (t : Option Exc) : ∀ xs : List α,
    to5 (Lena.C01.filterGo p t xs) = Lena.C05.filterGo p t xs
  | [] => rfl
  | x :: xs => by
    simp only [Lena.C01.filterGo, Lena.C05.filterGo]
    cases p x with
    | error e => rfl
    | ok b => cases b <;> simp [filterGo_agree p t xs]

/-- `Filter.run`: `Lena.C01.filterS` and `Lena.C05.filterS` agree on every stream -/
theorem filterS_agree (p : α → Except Exc Bool) (s : Lena.C01.Strm α) :
    to5 (Lena.C01.filterS p s) = Lena.C05.filterS p (to5 s) := filterGo_agree p s.term s.vals

theorem bindGo_agree (g : α → Lena.C01.Strm β) (t : Option Exc) : ∀ xs : List α,
    to5 (Lena.C01.bindGo g t xs) = Lena.C05.bindGo (fun v => to5 (g v)) t xs
  | [] => rfl
  | x :: xs => by
    simp only [Lena.C01.bindGo, Lena.C05.bindGo, to5_andThen, bindGo_agree g t xs]

/-- `for val in flow: yield from g(val)` -/
theorem bindS_agree (g : α → Lena.C01.Strm β) (s : Lena.C01.Strm α) :
    to5 (Lena.C01.bindS g s) = Lena.C05.bindS (fun v => to5 (g v)) (to5 s) := bindGo_agree g s.term s.vals

/-- `RunIf.run`: `Lena.C01.runIfS` and `Lena.C05.runIfS` agree on every stream, for every selector and
every inner sequence (the inner stage is translated with `stage5`) -/
theorem runIfS_agree (select : α → Except Exc Bool) (inner : Lena.C01.Stage α) (s : Lena.C01.Strm α) :
    to5 (Lena.C01.runIfS select inner s) = Lena.C05.runIfS select (stage5 inner) (to5 s) := by
  unfold Lena.C01.runIfS Lena.C05.runIfS
  rw [bindS_agree]
  congr 1
  funext v
  cases select v with
  | error e => rfl
  | ok b =>
    cases b with
    | false => rfl
    | true =>
      show to5 (Lena.C01.observe (inner (.ofList [v]))) = Lena.C05.observe (stage5 inner (.ofList [v]))
      rw [to5_observe]
      rfl

/-- `Reverse.run` -/
theorem reverseS_agree (s : Lena.C01.Strm α) : to5 (Lena.C01.reverseS s) = Lena.C05.reverseS (to5 s) := by
  unfold Lena.C01.reverseS Lena.C05.reverseS
  cases h : s.term <;> simp [h]

/-- `End.run` -/
theorem endS_agree (s : Lena.C01.Strm α) : to5 (Lena.C01.endS s) = Lena.C05.endS (to5 s) := by
  unfold Lena.C01.endS Lena.C05.endS
  cases h : s.term <;> simp [h]

/-- the two transcriptions of "how `_run_negative_islice` meets the end of its input" -/
def negMode5 : Lena.C01.NegMode → Lena.C05.NegMode
  | .lazyTail => .lazyTail
  | .drainFirst => .drainFirst
  | .early => .early

theorem negMode_agree (a b : Option Int) (n : Nat) :
    negMode5 (Lena.C01.negMode a b n) = Lena.C05.negMode a b n := by
  unfold Lena.C01.negMode Lena.C05.negMode
  cases a with
  | none => rfl
  | some a =>
    by_cases h1 : a ≥ 0
    · simp [h1, negMode5]
    · simp only [h1, if_false]
      cases b with
      | none => rfl
      | some b =>
        by_cases h2 : b ≤ a
        · simp [h2, negMode5]
        · by_cases h3 : b < 0
          · simp [h2, h3, negMode5]
          · by_cases h4 : n > (b - a).toNat <;> simp [h2, h3, h4, negMode5]

/-- `Slice.run` (`itertools.islice` and `_run_negative_islice`): `Lena.C01.sliceS` and `Lena.C05.sliceS` agree
on every stream and every `SliceKind` -/
theorem sliceS_agree (k : Lena.C17.SliceKind) (s : Lena.C01.Strm α) :
    to5 (Lena.C01.sliceS k s) = Lena.C05.sliceS k (to5 s) := by
  cases k with
  | valueError => rfl
  | islice a b st => rfl
  | negative a b st =>
    simp only [Lena.C01.sliceS, Lena.C05.sliceS, to5_vals, to5_term]
    cases Lena.C17.runNegative a b s.vals with
    | indexError => rfl
    | ok ys =>
      simp only []
      rw [← negMode_agree]
      cases Lena.C01.negMode a b s.vals.length with
      | lazyTail => rfl
      | early => rfl
      | drainFirst =>
        simp only [negMode5]
        cases s.term <;> rfl

/-- `Slice.run` for non-negative arguments: `Lena.C01.sliceS (.islice ..)` is `Lena.C05.isliceS` -/
theorem isliceS_agree (a : Nat) (b : Option Nat) (st : Nat) (s : Lena.C01.Strm α) :
    to5 (Lena.C01.sliceS (.islice a b st) s) = Lena.C05.isliceS a b st (to5 s) := rfl

/-- `Count.run`: `Lena.C01.countS` and `Lena.C05.countS` agree on every stream -/
theorem countS_agree (name : String) (count0 : Int) (s : Lena.C01.Strm Value) :
    to5 (Lena.C01.countS name count0 s) = Lena.C05.countS name count0 (to5 s) := by
  unfold Lena.C01.countS Lena.C05.countS
  simp only [to5_vals, to5_term]
  cases s.vals with
  | nil => rfl
  | cons first rest =>
    simp only []
    cases s.term <;> rfl

/-- `Sequence.run`: `for el in self._data_seq: flow = el.run(flow)` — `Lena.C01.composeS` and `Lena.C05.composeS` -/
theorem composeS_agree : ∀ (ts : List (Lena.C01.Stage α)) (s : Lena.C01.Strm α),
    (Lena.C01.composeS ts s).map to5 = Lena.C05.composeS (ts.map stage5) (to5 s)
  | [], s => rfl
  | t :: ts, s => by
    simp only [Lena.C01.composeS, Lena.C05.composeS, List.map_cons, stage5, to1_to5]
    cases t s with
    | error e => rfl
    | ok s' => exact composeS_agree ts s'

theorem composeS_agree' (ts : List (Lena.C05.Stage α)) (s : Lena.C05.Strm α) :
    (Lena.C05.composeS ts s).map to1 = Lena.C01.composeS (ts.map stage1) (to1 s) := by
  have h := composeS_agree (ts.map stage1) (to1 s)
  simp only [List.map_map, to5_to1] at h
  have e : (stage5 ∘ stage1 : Lena.C05.Stage α → Lena.C05.Stage α) = id := by
    funext t; simp
  rw [e, List.map_id] at h
  rw [← h, except_map_map]
  exact (except_map_id' _ (fun x => rfl) _).symm ▸ rfl

end Lena.Bridge.Flow

namespace Lena.Bridge.Flow
open Lena.Flow

variable {α β σ : Type}

/-! ## 2. `Run._fc_run`, `Sequence.__init__`, `Sequence.run`: C01 (`Element`/`Stored`/`Seq`) ↔ C05 (`Obj`/`Stage`)

The two models legitimately differ in one place: C01's `Sum`/`Mean` also model a float total (`Value.quot`
filled into a `Sum`/`Mean`: `QState.fl`), C05's raise `TypeError` there (its generator never lets a float reach
a numeric accumulator).  The agreement is therefore stated for runs in which every value filled into a
`Sum`/`Mean` has non-float data (`nfB`); the flag `fr` of an element says whether it is one of these two. -/

theorem fillAll_snoc (a : Acc σ α) (x : α) : ∀ (h : List α) (s : σ),
    a.fillAll s (h ++ [x]) = (match a.fillAll s h with
      | .error e => .error e
      | .ok s' => a.fill s' x)
  | [], s => by
    simp only [List.nil_append, Acc.fillAll]
    cases a.fill s x <;> rfl
  | y :: h, s => by
    simp only [List.cons_append, Acc.fillAll]
    cases a.fill s y with
    | error e => rfl
    | ok s' => exact fillAll_snoc a x h s'

/-- a C01 element whose `fill`/`compute` denotations (functions of the history of filled values) are those
of the state machine `a` (the representation C05 uses for the same Python object), on histories of values
that satisfy `P` -/
structure AccBackedOn (P : α → Prop) (e : Lena.C01.Element α) (a : Acc σ α) : Prop where
  fillDen : ∀ h v, (∀ x ∈ h, P x) → P v → e.fillDen h v =
    (match a.fillAll a.init h with
     | .error err => .error err
     | .ok s => match a.fill s v with
       | .error err => .error err
       | .ok _ => .ok ())
  computeDen : ∀ h, (∀ x ∈ h, P x) → e.computeDen h =
    (match a.fillAll a.init h with
     | .error err => .error err
     | .ok s => .ok (to1 (Lena.C05.computeS a s)))

theorem fcSpec_agree_go (P : α → Prop) (e : Lena.C01.Element α) (a : Acc σ α) (hb : AccBackedOn P e a)
    (t : Option Exc) : ∀ (xs h : List α) (s : σ), (∀ x ∈ h, P x) → (∀ x ∈ xs, P x) → a.fillAll a.init h = .ok s →
      (Lena.C01.fcSpec e t h xs).map to5 =
        (match a.fillAll s xs with
         | .error err => .error err
         | .ok st => match t with
           | some err => .error err
           | none => .ok (Lena.C05.computeS a st))
  | [], h, s, hh, _, h0 => by
    simp only [Lena.C01.fcSpec, Acc.fillAll]
    cases t with
    | some err => rfl
    | none => simp [hb.computeDen h hh, h0, Except.map]
  | x :: xs, h, s, hh, hxs, h0 => by
    have hx : P x := hxs x (by simp)
    simp only [Lena.C01.fcSpec, Acc.fillAll, hb.fillDen h x hh hx, h0]
    cases hfx : a.fill s x with
    | error err => rfl
    | ok s' =>
      simp only []
      have h1 : a.fillAll a.init (h ++ [x]) = .ok s' := by rw [fillAll_snoc, h0]; exact hfx
      refine fcSpec_agree_go P e a hb t xs (h ++ [x]) s' ?_ (fun y hy => hxs y (by simp [hy])) h1
      intro y hy
      rcases List.mem_append.1 hy with hy | hy
      · exact hh y hy
      · simp at hy; subst hy; exact hx

/-- `Run._fc_run` (`for arg in flow: el.fill(arg)`, then `return el.compute()`): the history-indexed
transcription of C01 (`fcSpec`, and `fcLoop` when `fill`/`compute` are methods) and the state-machine
transcription of C05 (`fcRun`) agree on every stream of values in the common domain `P`, including which
exceptions are raised by the call itself -/
theorem fcSpec_agree (P : α → Prop) (e : Lena.C01.Element α) (a : Acc σ α) (hb : AccBackedOn P e a)
    (s : Lena.C01.Strm α) (hs : ∀ x ∈ s.vals, P x) :
    (Lena.C01.fcSpec e s.term [] s.vals).map to5 = Lena.C05.fcRun a (to5 s) := by
  rw [fcSpec_agree_go P e a hb s.term s.vals [] a.init (by simp) hs rfl]
  rfl

theorem fcLoop_agree (P : α → Prop) (e : Lena.C01.Element α) (a : Acc σ α) (hb : AccBackedOn P e a)
    (hf : e.fill.callable = true) (hc : e.compute.callable = true) (s : Lena.C01.Strm α)
    (hs : ∀ x ∈ s.vals, P x) :
    (Lena.C01.fcLoop e s.term [] s.vals).map to5 = Lena.C05.fcRun a (to5 s) := by
  rw [Lena.C01.fcLoop_eq_fcSpec e hf hc]
  exact fcSpec_agree P e a hb s hs

/-- the data part of the value is not a float -/
def nfB (v : Value) : Bool :=
  match (getDataContext v).1 with
  | .quot _ _ => false
  | _ => true

theorem nfB_spec (v : Value) (h : nfB v = true) : ∀ n d, (getDataContext v).1 ≠ .quot n d := by
  intro n d hq
  simp [nfB, hq] at h

/-- `Sum` and `Mean`: the accumulators that do arithmetic on the data -/
def isNumK : AccKind → Bool
  | .sum => true
  | .mean => true
  | _ => false

/-- the values for which agreement of a stage is claimed: all of them, or — for a numeric accumulator — those
whose data is not a float -/
def Dom (fr : Bool) (v : Value) : Prop := fr = true → nfB v = true

theorem accFillQ_dom (k : AccKind) (s : AccState) (v : Value) (hv : Dom (isNumK k) v) :
    Lena.C01.accFillQ k ⟨s, none⟩ v = (accFill k s v).map (fun s' => ⟨s', none⟩) := by
  cases k with
  | sum => exact Lena.C01.accFillQ_noFloat .sum s v (nfB_spec v (hv rfl))
  | mean => exact Lena.C01.accFillQ_noFloat .mean s v (nfB_spec v (hv rfl))
  | store g => rfl
  | count n => rfl

theorem accOfQ_fillAll (k : AccKind) : ∀ (h : List Value) (s : AccState), (∀ x ∈ h, Dom (isNumK k) x) →
    (Lena.C01.accOfQ k).fillAll ⟨s, none⟩ h = ((accOf k).fillAll s h).map (fun s' => ⟨s', none⟩)
  | [], s, _ => rfl
  | x :: h, s, hh => by
    simp only [Acc.fillAll]
    have hx : (Lena.C01.accOfQ k).fill ⟨s, none⟩ x = ((accOf k).fill s x).map (fun s' => ⟨s', none⟩) :=
      accFillQ_dom k s x (hh x (by simp))
    rw [hx]
    cases (accOf k).fill s x with
    | error e => rfl
    | ok s' => exact accOfQ_fillAll k h s' (fun y hy => hh y (by simp [hy]))

theorem accComputeS_agree (k : AccKind) (s : AccState) :
    to5 (Lena.C01.accComputeS k ⟨s, none⟩) = Lena.C05.computeS (accOf k) s := by
  unfold Lena.C01.accComputeS Lena.C05.computeS
  rw [Lena.C01.accComputeQ_noFloat]
  have : (accOf k).compute s = accCompute k s := rfl
  rw [this]
  cases accCompute k s <;> rfl

/-- the accumulators `Sum`, `Mean`, `StoreFilled`, `FillCompute(Count)`: `Lena.C01.accElement k` (over `accOfQ`) is
backed by `accOf k`, the machine C05 uses, as long as no float is filled into a `Sum`/`Mean` -/
theorem accElement_backed (k : AccKind) : AccBackedOn (Dom (isNumK k)) (Lena.C01.accElement k) (accOf k) where
  fillDen := fun h v hh hv => by
    have e0 : (Lena.C01.accOfQ k).init = ⟨(accOf k).init, none⟩ := rfl
    simp only [Lena.C01.accElement, e0, accOfQ_fillAll k h _ hh]
    cases (accOf k).fillAll (accOf k).init h with
    | error e => rfl
    | ok s =>
      simp only [Except.map]
      have hv' : (Lena.C01.accOfQ k).fill ⟨s, none⟩ v = ((accOf k).fill s v).map (fun s' => ⟨s', none⟩) :=
        accFillQ_dom k s v hv
      rw [hv']
      cases (accOf k).fill s v <;> rfl
  computeDen := fun h hh => by
    have e0 : (Lena.C01.accOfQ k).init = ⟨(accOf k).init, none⟩ := rfl
    simp only [Lena.C01.accElement, e0, accOfQ_fillAll k h _ hh]
    cases (accOf k).fillAll (accOf k).init h with
    | error e => rfl
    | ok s =>
      simp only [Except.map]
      rw [← accComputeS_agree]
      rfl

theorem AccBackedOn.mono {P Q : α → Prop} {e : Lena.C01.Element α} {a : Acc σ α} (h : AccBackedOn P e a)
    (hpq : ∀ x, Q x → P x) : AccBackedOn Q e a where
  fillDen := fun hs v hh hv => h.fillDen hs v (fun x hx => hpq x (hh x hx)) (hpq v hv)
  computeDen := fun hs hh => h.computeDen hs (fun x hx => hpq x (hh x hx))

theorem synAcc_fillAll : ∀ (h : List Value) (s : AccState),
    Lena.C05.synAcc.fillAll s h = .ok { s with group := s.group ++ h }
  | [], s => by simp [Acc.fillAll]
  | x :: h, s => by
    simp only [Acc.fillAll]
    show Lena.C05.synAcc.fillAll { s with group := s.group ++ [x] } h = _
    rw [synAcc_fillAll h]
    simp

/-- the synthetic fill/compute classes of the two harnesses (all values) -/
theorem synElement_backed (P : Value → Prop) (r : Lena.C01.Attr) (c : Bool) (f p : Lena.C01.Attr) (n : Bool) :
    AccBackedOn P (Lena.C01.synElement r c f p n) Lena.C05.synAcc where
  fillDen := fun h v _ _ => by
    rw [synAcc_fillAll]
    rfl
  computeDen := fun h _ => by
    rw [synAcc_fillAll]
    show _ = Except.ok (to1 (Lena.C05.computeS Lena.C05.synAcc { group := [] ++ h }))
    simp [Lena.C01.synElement, Lena.C05.computeS, Lena.C05.synAcc, to1, Lena.C01.Strm.ofList, Lena.C05.Strm.ofList]

/-- attribute states -/
def attr1 : Lena.C05.Attr → Lena.C01.Attr
  | .absent => .absent
  | .value => .value
  | .method => .method

@[simp] theorem attr1_present (a : Lena.C05.Attr) : (attr1 a).present = a.present := by cases a <;> rfl
@[simp] theorem attr1_callable (a : Lena.C05.Attr) : (attr1 a).callable = a.callable := by cases a <;> rfl

/-- one Python object as C01 describes it (`Element`: flags + denotations by history) and as C05 describes it
(`Obj`: capability table + denotations by state), as far as `Sequence.__init__`/`Sequence.run` can tell;
`fr`: the object is a `Sum`/`Mean` (agreement of its fill/compute face only without floats) -/
structure ElObj (fr : Bool) (e : Lena.C01.Element Value) (o : Lena.C05.Obj) : Prop where
  run : e.run = attr1 (o.caps.attr "run")
  call : e.call = o.caps.callable
  fill : e.fill = attr1 (o.caps.attr "fill")
  compute : e.compute = attr1 (o.caps.attr "compute")
  nodata : e.hasNoData = o.hasNoData
  runDen : e.run = .method → stage5 e.runDen = o.runDen
  callDen : e.call = true → e.callDen = o.callDen
  acc : Lena.C01.isFillComputeEl e = true → AccBackedOn (Dom fr) e o.accDen

/-- both raise the same exception, or both succeed with related results -/
def ExRel {a b : Type} (R : a → b → Prop) : Except Exc a → Except Exc b → Prop
  | .ok x, .ok y => R x y
  | .error e, .error e' => e = e'
  | _, _ => False

theorem ExRel.of_ok {a b : Type} {R : a → b → Prop} {x : Except Exc a} {y : Except Exc b} (h : ExRel R x y) :
    (∃ e, x = .error e ∧ y = .error e) ∨ (∃ u v, x = .ok u ∧ y = .ok v ∧ R u v) := by
  cases x with
  | error e =>
    cases y with
    | error e' => left; exact ⟨e, rfl, by simp [ExRel] at h; rw [h]⟩
    | ok v => simp [ExRel] at h
  | ok u =>
    cases y with
    | error e' => simp [ExRel] at h
    | ok v => right; exact ⟨u, v, rfl, rfl, h⟩

/-- three lists related element by element -/
inductive AllRel3 {a b c : Type} (R : a → b → c → Prop) : List a → List b → List c → Prop
  | nil : AllRel3 R [] [] []
  | cons {x y z xs ys zs} : R x y z → AllRel3 R xs ys zs → AllRel3 R (x :: xs) (y :: ys) (z :: zs)

/-- a C01 stage and a C05 stage agree on the streams whose values are in the domain -/
def StageAgree (fr : Bool) (t1 : Lena.C01.Stage Value) (t5 : Lena.C05.Stage Value) : Prop :=
  ∀ s : Lena.C01.Strm Value, (∀ v ∈ s.vals, Dom fr v) → (t1 s).map to5 = t5 (to5 s)

theorem stageAgree_of_eq (fr : Bool) (t1 : Lena.C01.Stage Value) (t5 : Lena.C05.Stage Value)
    (h : stage5 t1 = t5) : StageAgree fr t1 t5 := by
  intro s _
  rw [← h]
  simp [stage5]

theorem stage5_mapS (f : Value → Except Exc Value) :
    stage5 (fun s => .ok (Lena.C01.mapS f s)) = (fun s => .ok (Lena.C05.mapS f s)) := by
  funext s
  simp only [stage5, Except.map]
  rw [mapS_agree]
  rfl

/-- the body of the loop of `Sequence.__init__` (`hasattr(el, "run") and callable(el.run)`, else
`adapters.Run(el)`: `run`, then `__call__`, then `fill`+`compute`, else `LenaTypeError`): C01's `convert` and
C05's `Obj.toStage` accept the same objects, raise the same exception, and bind the same stage -/
theorem convert_agree (fr : Bool) (e : Lena.C01.Element Value) (o : Lena.C05.Obj) (h : ElObj fr e o) :
    ExRel (fun st t => StageAgree fr st.run t) (Lena.C01.convert e) o.toStage := by
  have hfc : Lena.C01.isFillComputeEl e = o.caps.isFillComputeEl := by
    simp [Lena.C01.isFillComputeEl, Lena.C05.Caps.isFillComputeEl, h.fill, h.compute]
  have hrunCase : ∀ (hr : (o.caps.attr "run").callable = false),
      ExRel (fun st t => StageAgree fr st.run t) (Lena.C01.convert e) o.toStage := by
    intro hr
    have hrc : e.run.callable = false := by rw [h.run, attr1_callable, hr]
    by_cases hc : o.caps.callable = true
    · have hc1 : e.call = true := by rw [h.call, hc]
      simp only [Lena.C01.convert, Lena.C05.Obj.toStage, Lena.C01.mkRun, Lena.C05.mkRun, Lena.C05.Caps.hasMethod,
        hr, hrc, hc, hc1, Bool.and_false, Bool.false_eq_true, if_false, if_true, ExRel]
      apply stageAgree_of_eq
      rw [← h.callDen hc1, ← stage5_mapS]
      simp only [Lena.C01.Stored.run, Lena.C01.invokeCall_of_call e hc1]
    · have hc' : o.caps.callable = false := by simpa using hc
      have hc1 : e.call = false := by rw [h.call, hc']
      by_cases hf : o.caps.isFillComputeEl = true
      · have hf1 : Lena.C01.isFillComputeEl e = true := by rw [hfc, hf]
        simp only [Lena.C01.convert, Lena.C05.Obj.toStage, Lena.C01.mkRun, Lena.C05.mkRun, Lena.C05.Caps.hasMethod,
          hr, hrc, hc', hc1, hf, hf1, Bool.and_false, Bool.false_eq_true, if_false, if_true, ExRel]
        have hb := h.acc hf1
        rw [Lena.C01.isFillComputeEl_iff] at hf1
        have hfl : e.fill.callable = true := by cases hh : e.fill.callable <;> simp_all
        have hcp : e.compute.callable = true := by cases hh : e.compute.callable <;> simp_all
        intro s hs
        simp only [Lena.C01.Stored.run]
        exact fcLoop_agree (Dom fr) e o.accDen hb hfl hcp s hs
      · have hf' : o.caps.isFillComputeEl = false := by simpa using hf
        have hf1 : Lena.C01.isFillComputeEl e = false := by rw [hfc, hf']
        simp [Lena.C01.convert, Lena.C05.Obj.toStage, Lena.C01.mkRun, Lena.C05.mkRun, Lena.C05.Caps.hasMethod,
          hr, hrc, hc', hc1, hf', hf1, ExRel]
  cases hr : o.caps.attr "run" with
  | method =>
    have h1 : e.run = .method := by rw [h.run, hr]; rfl
    simp only [Lena.C01.convert, Lena.C05.Obj.toStage, h1, hr, Lena.C01.Attr.present, Lena.C01.Attr.callable,
      Lena.C05.Attr.present, Lena.C05.Attr.callable, Bool.and_self, if_true, ExRel]
    apply stageAgree_of_eq
    rw [← h.runDen h1]
    congr 1
    funext s
    simp [Lena.C01.Stored.run, Lena.C01.Element.invokeRun, h1]
  | absent =>
    exact hrunCase (by rw [hr]; rfl)
  | value =>
    exact hrunCase (by rw [hr]; rfl)

/-- "no float reaches a `Sum`/`Mean`" when the C05 model runs `Sequence(*os)` on the stream `s`; `frs` flags the
numeric accumulators.  Executable (`drivers/BridgeFlow.lean` evaluates it on every generated case). -/
def foldOKb : List Bool → List Lena.C05.Obj → Lena.C05.Strm Value → Bool
  | fr :: frs, o :: os, s =>
    if o.hasNoData then foldOKb frs os s
    else
      match o.toStage with
      | .error _ => true
      | .ok t =>
        (!fr || s.vals.all nfB) &&
          (match t s with
           | .ok s' => foldOKb frs os s'
           | .error _ => true)
  | _, _, _ => true

def foldOK (frs : List Bool) (os : List Lena.C05.Obj) (s : Lena.C05.Strm Value) : Prop := foldOKb frs os s = true

theorem foldOK_nodata (fr : Bool) (frs : List Bool) (o : Lena.C05.Obj) (os : List Lena.C05.Obj)
    (s : Lena.C05.Strm Value) (hd : o.hasNoData = true) : foldOK (fr :: frs) (o :: os) s ↔ foldOK frs os s := by
  simp [foldOK, foldOKb, hd]

theorem foldOK_data (fr : Bool) (frs : List Bool) (o : Lena.C05.Obj) (os : List Lena.C05.Obj)
    (s : Lena.C05.Strm Value) (t : Lena.C05.Stage Value) (hd : o.hasNoData = false) (ht : o.toStage = .ok t) :
    foldOK (fr :: frs) (o :: os) s ↔ ((∀ v ∈ s.vals, Dom fr v) ∧ ∀ s', t s = .ok s' → foldOK frs os s') := by
  simp only [foldOK, foldOKb, hd, ht, Bool.false_eq_true, if_false, Bool.and_eq_true, Bool.or_eq_true,
    Bool.not_eq_true', List.all_eq_true, Dom]
  constructor
  · rintro ⟨h1, h2⟩
    refine ⟨fun v hv hfr => ?_, fun s' hs' => ?_⟩
    · rcases h1 with h1 | h1
      · rw [hfr] at h1; cases h1
      · exact h1 v hv
    · rw [hs'] at h2; exact h2
  · rintro ⟨h1, h2⟩
    refine ⟨?_, ?_⟩
    · cases fr with
      | false => exact Or.inl rfl
      | true => exact Or.inr (fun v hv => h1 v hv rfl)
    · cases hts : t s with
      | error e => rfl
      | ok s' => exact h2 s' hts

theorem foldOK_false : ∀ (frs : List Bool) (os : List Lena.C05.Obj) (s : Lena.C05.Strm Value),
    (∀ fr ∈ frs, fr = false) → foldOK frs os s
  | [], _, _, _ => by simp [foldOK, foldOKb]
  | _ :: _, [], _, _ => by simp [foldOK, foldOKb]
  | fr :: frs, o :: os, s, h => by
    have hfr : fr = false := h fr (by simp)
    have ih := fun s' => foldOK_false frs os s' (fun x hx => h x (by simp [hx]))
    cases hd : o.hasNoData with
    | true => exact (foldOK_nodata fr frs o os s hd).2 (ih s)
    | false =>
      cases ht : o.toStage with
      | error e => simp [foldOK, foldOKb, hd, ht]
      | ok t =>
        refine (foldOK_data fr frs o os s t hd ht).2 ⟨fun v _ hv => ?_, fun s' _ => ih s'⟩
        rw [hfr] at hv; cases hv

/-- the conversion loop of `Sequence.__init__` over `_data_seq`, and the loop of `Sequence.run` -/
theorem convertData_agree : ∀ (frs : List Bool) (es : List (Lena.C01.Element Value)) (os : List Lena.C05.Obj),
    AllRel3 ElObj frs es os →
    ExRel (fun ss ts => ∀ s : Lena.C01.Strm Value, foldOK frs os (to5 s) →
        (Lena.C01.runStored ss s).map to5 = Lena.C05.composeS ts (to5 s))
      (Lena.C01.convertAll (Lena.C01.dataSeq es)) (Lena.C05.toStages (Lena.C05.dataSeq os))
  | _, _, _, .nil => by
    simp only [Lena.C01.dataSeq, Lena.C05.dataSeq, List.filter_nil, Lena.C01.convertAll, Lena.C05.toStages, ExRel]
    intro s _
    rfl
  | _, _, _, .cons (x := fr) (y := e) (z := o) (xs := frs) (ys := es) (zs := os) h hs => by
    have ih := convertData_agree frs es os hs
    have hnd := h.nodata
    cases hod : o.hasNoData with
    | true =>
      have d1 : Lena.C01.dataSeq (e :: es) = Lena.C01.dataSeq es := by
        simp [Lena.C01.dataSeq, hnd, hod]
      have d5 : Lena.C05.dataSeq (o :: os) = Lena.C05.dataSeq os := by
        simp [Lena.C05.dataSeq, hod]
      rw [d1, d5]
      rcases ih.of_ok with ⟨err, a1, a5⟩ | ⟨ss, ts, a1, a5, hr⟩
      · simp [a1, a5, ExRel]
      · simp only [a1, a5, ExRel]
        intro s hs'
        exact hr s ((foldOK_nodata fr frs o os _ hod).1 hs')
    | false =>
      have d1 : Lena.C01.dataSeq (e :: es) = e :: Lena.C01.dataSeq es := by
        simp [Lena.C01.dataSeq, hnd, hod]
      have d5 : Lena.C05.dataSeq (o :: os) = o :: Lena.C05.dataSeq os := by
        simp [Lena.C05.dataSeq, hod]
      rw [d1, d5]
      simp only [Lena.C01.convertAll, Lena.C05.toStages]
      rcases (convert_agree fr e o h).of_ok with ⟨err, c1, c5⟩ | ⟨st, t, c1, c5, hst⟩
      · simp [c1, c5, ExRel]
      · rcases ih.of_ok with ⟨err, a1, a5⟩ | ⟨ss, ts, a1, a5, hr⟩
        · simp [c1, c5, a1, a5, ExRel]
        · simp only [c1, c5, a1, a5, ExRel]
          intro s hs'
          have hs'' : (∀ v ∈ (to5 s).vals, Dom fr v) ∧ ∀ s', t (to5 s) = .ok s' → foldOK frs os s' :=
            (foldOK_data fr frs o os _ t hod c5).1 hs'
          have hag := hst s hs''.1
          simp only [Lena.C01.runStored, Lena.C05.composeS]
          cases hrun : st.run s with
          | error err =>
            rw [hrun] at hag
            rw [← hag]
            rfl
          | ok s1 =>
            rw [hrun] at hag
            have ht : t (to5 s) = .ok (to5 s1) := hag.symm
            rw [ht]
            exact hr s1 (hs''.2 _ ht)

/-- `Sequence(*args)`: C01's `mkSequence` and C05's `mkSequence` raise the same exception or build sequences
whose `run` agree on every stream on which no float reaches a `Sum`/`Mean` -/
theorem mkSequence_agree (frs : List Bool) (es : List (Lena.C01.Element Value)) (os : List Lena.C05.Obj)
    (h : AllRel3 ElObj frs es os) :
    ExRel (fun sq t => ∀ s : Lena.C01.Strm Value, foldOK frs os (to5 s) → (sq.run s).map to5 = t (to5 s))
      (Lena.C01.mkSequence es) (Lena.C05.mkSequence os) := by
  have h1 := convertData_agree frs es os h
  unfold Lena.C01.mkSequence Lena.C05.mkSequence
  rcases h1.of_ok with ⟨err, a1, a5⟩ | ⟨ss, ts, a1, a5, hr⟩
  · simp [a1, a5, ExRel]
  · simp only [a1, a5, ExRel]
    exact hr

/-- without numeric accumulators the two `run`s are the same function -/
theorem mkSequence_agree_eq (frs : List Bool) (es : List (Lena.C01.Element Value)) (os : List Lena.C05.Obj)
    (h : AllRel3 ElObj frs es os) (hf : ∀ fr ∈ frs, fr = false) :
    ExRel (fun sq t => stage5 sq.run = t) (Lena.C01.mkSequence es) (Lena.C05.mkSequence os) := by
  rcases (mkSequence_agree frs es os h).of_ok with ⟨err, a1, a5⟩ | ⟨sq, t, a1, a5, hr⟩
  · simp [a1, a5, ExRel]
  · simp only [a1, a5, ExRel]
    funext s
    have := hr (to1 s) (foldOK_false frs os _ hf)
    simpa [stage5] using this

end Lena.Bridge.Flow

namespace Lena.Bridge.Flow
open Lena.Flow

/-! ## 3. the element vocabularies of the two correspondence checks: `C05.Spec` ↔ `C01.Spec`

`drivers/C05.lean` evaluates `Lena.C05.driveSeq` for `list(Sequence(*args).run(iter(flow)))`;
`drivers/C01.lean` evaluates `Spec.toElement (.seq prog)` and `invokeRun` for the same Python expression.
`spec1` maps a C05 description to the C01 description of the same object.  Outside the common domain:
* `runIfBad` (`RunIf(5, …)`) and `dup` — C01 has no description for them;
* nested `Sequence`, `Split`, explicit `Run(el)`, `Source` heads — C01 only;
* stateful elements inside a `RunIf` (`Count`, accumulators, synthetic fill/compute classes): C01 keeps their
  state from one selected value to the next (`runIfH`, `rerunDen`), C05's `RunIf` runs a fresh copy of its
  inner sequence for every selected value (its generator only puts stateless run/call elements there);
* a float reaching a `Sum`/`Mean` (`foldOK`, section 2). -/

mutual
/-- the C01 description of the object a C05 description denotes (`runIfBad`, `dup` have none: mapped to
`junk`, excluded by `Common`) -/
def spec1 : Lena.C05.Spec → Lena.C01.Spec
  | .call f => .call f
  | .var n g => .var n g
  | .filter p => .filter p
  | .slice a b s => .slice a b s
  | .runIf p inner => .runIf p (specs1 inner)
  | .count n => .count n
  | .reverse => .reverse
  | .end_ => .end_
  | .acc k => .acc k
  | .syn attrs c nd =>
    .syn (attr1 ((attrs.lookup "run").getD .absent)) c (attr1 ((attrs.lookup "fill").getD .absent))
      (attr1 ((attrs.lookup "compute").getD .absent)) nd
  | .junk => .junk
  | .setContext => .setContext
  | _ => .junk
def specs1 : List Lena.C05.Spec → List Lena.C01.Spec
  | [] => []
  | s :: ss => spec1 s :: specs1 ss
end

theorem specs1_eq_map : ∀ ss : List Lena.C05.Spec, specs1 ss = ss.map spec1
  | [] => by simp [specs1]
  | s :: ss => by simp [specs1, specs1_eq_map ss]

/-- `Sum()` / `Mean()` -/
def isNum : Lena.C05.Spec → Bool
  | .acc k => isNumK k
  | _ => false

mutual
/-- elements that keep no state between two runs of the same object and are not converted through
`fill`/`compute` (what both models allow inside a `RunIf`) -/
def Stateless : Lena.C05.Spec → Prop
  | .call _ => True
  | .var _ _ => True
  | .filter _ => True
  | .slice _ _ _ => True
  | .runIf _ inner => StatelessL inner
  | .reverse => True
  | .end_ => True
  | .syn attrs c _ =>
    (attrs.lookup "run").getD .absent = .method ∨ c = true ∨
      (((attrs.lookup "fill").getD .absent).callable && ((attrs.lookup "compute").getD .absent).callable) = false
  | .junk => True
  | .setContext => True
  | _ => False
def StatelessL : List Lena.C05.Spec → Prop
  | [] => True
  | s :: ss => Stateless s ∧ StatelessL ss
end

/-- the common domain of the two vocabularies -/
def Common : Lena.C05.Spec → Prop
  | .call _ => True
  | .var _ _ => True
  | .filter _ => True
  | .slice _ _ _ => True
  | .runIf _ inner => StatelessL inner
  | .count _ => True
  | .reverse => True
  | .end_ => True
  | .acc _ => True
  | .syn _ _ _ => True
  | .junk => True
  | .setContext => True
  | _ => False

def CommonL : List Lena.C05.Spec → Prop
  | [] => True
  | s :: ss => Common s ∧ CommonL ss

mutual
/-- executable forms of `Stateless`, `StatelessL` (evaluated by `drivers/BridgeFlow.lean`) -/
def statelessB : Lena.C05.Spec → Bool
  | .call _ => true
  | .var _ _ => true
  | .filter _ => true
  | .slice _ _ _ => true
  | .runIf _ inner => statelessLB inner
  | .reverse => true
  | .end_ => true
  | .syn attrs c _ =>
    decide ((attrs.lookup "run").getD .absent = .method) || c ||
      !(((attrs.lookup "fill").getD .absent).callable && ((attrs.lookup "compute").getD .absent).callable)
  | .junk => true
  | .setContext => true
  | _ => false
def statelessLB : List Lena.C05.Spec → Bool
  | [] => true
  | s :: ss => statelessB s && statelessLB ss
end

/-- executable form of `Common` -/
def commonB : Lena.C05.Spec → Bool
  | .call _ => true
  | .var _ _ => true
  | .filter _ => true
  | .slice _ _ _ => true
  | .runIf _ inner => statelessLB inner
  | .count _ => true
  | .reverse => true
  | .end_ => true
  | .acc _ => true
  | .syn _ _ _ => true
  | .junk => true
  | .setContext => true
  | _ => false

def commonLB : List Lena.C05.Spec → Bool
  | [] => true
  | s :: ss => commonB s && commonLB ss

mutual
theorem statelessB_sound : ∀ s : Lena.C05.Spec, statelessB s = true → Stateless s
  | .call _, _ => trivial
  | .var _ _, _ => trivial
  | .filter _, _ => trivial
  | .slice _ _ _, _ => trivial
  | .runIf _ inner, h => by
    simp only [statelessB] at h
    simp only [Stateless]
    exact statelessLB_sound inner h
  | .reverse, _ => trivial
  | .end_, _ => trivial
  | .syn attrs c _, h => by
    simp only [statelessB, Bool.or_eq_true, decide_eq_true_eq, Bool.not_eq_true'] at h
    simp only [Stateless]
    rcases h with (h | h) | h
    · exact Or.inl h
    · exact Or.inr (Or.inl h)
    · exact Or.inr (Or.inr h)
  | .junk, _ => trivial
  | .setContext, _ => trivial
  | .count _, h => by simp [statelessB] at h
  | .acc _, h => by simp [statelessB] at h
  | .runIfBad _, h => by simp [statelessB] at h
  | .dup, h => by simp [statelessB] at h
theorem statelessLB_sound : ∀ ss : List Lena.C05.Spec, statelessLB ss = true → StatelessL ss
  | [], _ => trivial
  | s :: ss, h => by
    simp only [statelessLB, Bool.and_eq_true] at h
    exact ⟨statelessB_sound s h.1, statelessLB_sound ss h.2⟩
end

theorem commonB_sound (s : Lena.C05.Spec) (h : commonB s = true) : Common s := by
  cases s <;> simp_all [commonB, Common]
  exact statelessLB_sound _ h

theorem commonLB_sound : ∀ ss : List Lena.C05.Spec, commonLB ss = true → CommonL ss
  | [], _ => trivial
  | s :: ss, h => by
    simp only [commonLB, Bool.and_eq_true] at h
    exact ⟨commonB_sound s h.1, commonLB_sound ss h.2⟩

theorem stateless_common (s : Lena.C05.Spec) (h : Stateless s) : Common s := by
  cases s <;> simp_all [Stateless, Common]

theorem statelessL_commonL : ∀ ss : List Lena.C05.Spec, StatelessL ss → CommonL ss
  | [], _ => trivial
  | s :: ss, h => ⟨stateless_common s h.1, statelessL_commonL ss h.2⟩

theorem stateless_not_num (s : Lena.C05.Spec) (h : Stateless s) : isNum s = false := by
  cases s <;> simp_all [Stateless, isNum]

theorem statelessL_not_num : ∀ ss : List Lena.C05.Spec, StatelessL ss → ∀ fr ∈ ss.map isNum, fr = false
  | [], _, fr, hfr => by simp at hfr
  | s :: ss, h, fr, hfr => by
    simp only [List.map_cons, List.mem_cons] at hfr
    rcases hfr with rfl | hfr
    · exact stateless_not_num s h.1
    · exact statelessL_not_num ss h.2 fr hfr

theorem spec1_not_seq (s : Lena.C05.Spec) (els : List Lena.C01.Spec) : spec1 s ≠ .seq els := by
  cases s <;> simp [spec1]

theorem specs1_not_single_seq (ss : List Lena.C05.Spec) (els : List Lena.C01.Spec) : specs1 ss ≠ [.seq els] := by
  cases ss with
  | nil => simp [specs1]
  | cons s r =>
    cases r with
    | nil => simp [specs1, spec1_not_seq]
    | cons _ _ => simp [specs1]

theorem runIfSeq_false (es : List (Lena.C01.Element Value)) :
    Lena.C01.runIfSeq false es = (Lena.C01.mkSequence es).map Lena.C01.Seq.toElement := by
  cases es with
  | nil => rfl
  | cons e r => cases r <;> rfl

/-! ### elements whose `run` does not depend on earlier runs -/

/-- the element's `run` is the same whatever was run before, and `Sequence.__init__` does not convert it
through `fill`/`compute` (an adapter around an accumulator keeps the filled values) -/
def HistFree (e : Lena.C01.Element Value) : Prop :=
  (∀ past, e.rerunDen past = e.runDen) ∧
  (e.run.callable = false → e.call = false → Lena.C01.isFillComputeEl e = false)

theorem convert_histFree (e : Lena.C01.Element Value) (st : Lena.C01.Stored Value) (he : HistFree e)
    (h : Lena.C01.convert e = .ok st) : ∀ past, st.rerun past = st.run := by
  intro past
  unfold Lena.C01.convert at h
  by_cases h1 : e.run.callable = true
  · have hp := Lena.C01.Attr.present_of_callable _ h1
    simp [h1, hp] at h
    subst h
    funext s
    have hm := (Lena.C01.Attr.callable_iff e.run).1 h1
    simp [Lena.C01.Stored.rerun, Lena.C01.Stored.run, Lena.C01.Element.invokeRerun, Lena.C01.Element.invokeRun, hm,
      he.1 past]
  · have h1' : e.run.callable = false := by simpa using h1
    simp only [h1', Bool.and_false, Bool.false_eq_true, if_false, Lena.C01.mkRun] at h
    by_cases h2 : e.call = true
    · simp [h2] at h
      subst h
      rfl
    · have h2' : e.call = false := by simpa using h2
      have h3 := he.2 h1' h2'
      simp [h2', h3] at h

theorem rerunStored_histFree : ∀ (ss : List (Lena.C01.Stored Value)),
    (∀ st ∈ ss, ∀ past, st.rerun past = st.run) → ∀ past, Lena.C01.rerunStored ss past = Lena.C01.runStored ss
  | [], _, _ => by funext s; rfl
  | st :: ss, h, past => by
    funext s
    simp only [Lena.C01.rerunStored, Lena.C01.runStored, h st (by simp) past]
    cases st.run s with
    | error e => rfl
    | ok s' => rw [rerunStored_histFree ss (fun st' hst' => h st' (by simp [hst']))]

theorem convertAll_histFree : ∀ (es : List (Lena.C01.Element Value)) (ss : List (Lena.C01.Stored Value)),
    (∀ e ∈ es, HistFree e) → Lena.C01.convertAll es = .ok ss → ∀ st ∈ ss, ∀ past, st.rerun past = st.run
  | [], ss, _, h => by simp [Lena.C01.convertAll] at h; subst h; simp
  | e :: es, ss, he, h => by
    simp only [Lena.C01.convertAll] at h
    cases hc : Lena.C01.convert e with
    | error err => simp [hc] at h
    | ok st =>
      cases hr : Lena.C01.convertAll es with
      | error err => simp [hc, hr] at h
      | ok ss' =>
        simp [hc, hr] at h; subst h
        intro st' hst'
        rcases List.mem_cons.1 hst' with rfl | h'
        · exact convert_histFree e _ (he e (by simp)) hc
        · exact convertAll_histFree es ss' (fun e' he' => he e' (by simp [he'])) hr st' h'

/-- a `Sequence` of such elements is run again as it is run the first time -/
theorem seq_histFree (es : List (Lena.C01.Element Value)) (sq : Lena.C01.Seq Value)
    (he : ∀ e ∈ es, HistFree e) (h : Lena.C01.mkSequence es = .ok sq) : ∀ past, sq.rerun past = sq.run := by
  intro past
  unfold Lena.C01.mkSequence at h
  cases hc : Lena.C01.convertAll (Lena.C01.dataSeq es) with
  | error err => simp [hc] at h
  | ok ss =>
    simp [hc] at h; subst h
    have := convertAll_histFree (Lena.C01.dataSeq es) ss
      (fun e hm => he e ((Lena.C01.mem_dataSeq es e).1 hm).1) hc
    exact rerunStored_histFree ss this past

theorem toElement_invokeRerun (sq : Lena.C01.Seq Value) (h : ∀ past, sq.rerun past = sq.run) :
    sq.toElement.invokeRerun = fun _ => sq.run := by
  funext past s
  simp [Lena.C01.Seq.toElement, Lena.C01.Element.invokeRerun, h past]

/-- the object C01 builds for `RunIf(p, *inner)` when the arguments are not a single nested `Sequence` -/
def runIfElement (p : Pred) (s : Lena.C01.Element Value) : Lena.C01.Element Value :=
  { run := .method, canBreakFlow := true, asValue := some (Lena.C01.objValue "RunIf")
    runDen := fun fl => .ok (Lena.C01.runIfH p.eval s.invokeRerun [] fl)
    rerunDen := fun past fl => .ok (Lena.C01.runIfH p.eval s.invokeRerun past fl) }

/-- `RunIf.__init__` in C01 when the arguments are not a single nested `Sequence` -/
theorem toElement_runIf (p : Pred) (l : List Lena.C01.Spec) (hl : ∀ els, l ≠ [.seq els]) :
    Lena.C01.Spec.toElement (.runIf p l) =
      (match Lena.C01.Spec.toElements l with
       | .error e => .error e
       | .ok es =>
         match (Lena.C01.mkSequence es).map Lena.C01.Seq.toElement with
         | .error e => .error e
         | .ok s => .ok (runIfElement p s)) := by
  simp only [Lena.C01.Spec.toElement, ← runIfSeq_false, runIfElement]
  cases l with
  | nil => rfl
  | cons s r =>
    cases r with
    | nil =>
      cases s with
      | seq els => exact absurd rfl (hl els)
      | _ => rfl
    | cons _ _ => rfl

/-- a `RunIf` around a history-free sequence is itself history-free, and is the stream function `runIfS` -/
theorem runIfElement_histFree (p : Pred) (sq : Lena.C01.Seq Value) (h : ∀ past, sq.rerun past = sq.run) :
    HistFree (runIfElement p sq.toElement) ∧
    (runIfElement p sq.toElement).runDen = fun fl => .ok (Lena.C01.runIfS p.eval sq.run fl) := by
  have hi := toElement_invokeRerun sq h
  refine ⟨⟨?_, ?_⟩, ?_⟩
  · intro past
    funext fl
    simp only [runIfElement, hi, Lena.C01.runIfH_const]
  · intro hr
    simp [runIfElement, Lena.C01.Attr.callable] at hr
  · funext fl
    simp only [runIfElement, hi, Lena.C01.runIfH_const]

theorem stage5_ok (f : Lena.C01.Strm Value → Lena.C01.Strm Value) (g : Lena.C05.Strm Value → Lena.C05.Strm Value)
    (h : ∀ s, to5 (f s) = g (to5 s)) :
    stage5 (fun s => .ok (f s)) = (fun s => .ok (g s)) := by
  funext s
  simp only [stage5, Except.map]
  rw [h, to5_to1]

theorem histFree_default (e : Lena.C01.Element Value) (hr : ∀ past, e.rerunDen past = e.runDen)
    (hf : Lena.C01.isFillComputeEl e = false) : HistFree e := ⟨hr, fun _ _ => hf⟩

mutual
/-- every stateless element description denotes a history-free C01 element -/
theorem spec_histFree : ∀ s : Lena.C05.Spec, Stateless s → ∀ e, Lena.C01.Spec.toElement (spec1 s) = .ok e → HistFree e
  | .call f, _, e, h => by
    simp only [spec1, Lena.C01.Spec.toElement, Except.ok.injEq] at h
    subst h
    exact histFree_default _ (fun _ => rfl) rfl
  | .var n g, _, e, h => by
    simp only [spec1, Lena.C01.Spec.toElement, Except.ok.injEq] at h
    subst h
    exact histFree_default _ (fun _ => rfl) rfl
  | .filter p, _, e, h => by
    simp only [spec1, Lena.C01.Spec.toElement, Except.ok.injEq] at h
    subst h
    exact histFree_default _ (fun _ => rfl) rfl
  | .slice a b s, _, e, h => by
    simp only [spec1, Lena.C01.Spec.toElement] at h
    cases hk : Lena.C17.mkSlice a b s with
    | valueError => simp [hk] at h
    | islice a' b' st => simp [hk] at h; subst h; exact histFree_default _ (fun _ => rfl) rfl
    | negative a' b' st => simp [hk] at h; subst h; exact histFree_default _ (fun _ => rfl) rfl
  | .runIf p inner, hs, e, h => by
    have hsi : StatelessL inner := by simpa [Stateless] using hs
    simp only [spec1] at h
    rw [toElement_runIf p (specs1 inner) (specs1_not_single_seq inner)] at h
    cases h1 : Lena.C01.Spec.toElements (specs1 inner) with
    | error err => simp [h1] at h
    | ok es =>
      simp only [h1] at h
      cases hm : Lena.C01.mkSequence es with
      | error err => simp [hm, Except.map] at h
      | ok sq =>
        simp only [hm, Except.map, Except.ok.injEq] at h
        subst h
        have hes := specs_histFree inner hsi es h1
        exact (runIfElement_histFree p sq (seq_histFree es sq hes hm)).1
  | .reverse, _, e, h => by
    simp only [spec1, Lena.C01.Spec.toElement, Except.ok.injEq] at h
    subst h
    exact histFree_default _ (fun _ => rfl) rfl
  | .end_, _, e, h => by
    simp only [spec1, Lena.C01.Spec.toElement, Except.ok.injEq] at h
    subst h
    exact histFree_default _ (fun _ => rfl) rfl
  | .syn attrs c nd, hs, e, h => by
    simp only [spec1, Lena.C01.Spec.toElement, Except.ok.injEq] at h
    subst h
    refine ⟨fun _ => rfl, ?_⟩
    intro hr hc
    have hs' : (attrs.lookup "run").getD .absent = .method ∨ c = true ∨
        (((attrs.lookup "fill").getD .absent).callable && ((attrs.lookup "compute").getD .absent).callable) = false := hs
    have hr' : ((attrs.lookup "run").getD .absent).callable = false := by
      have : (attr1 ((attrs.lookup "run").getD .absent)).callable = false := hr
      simpa using this
    have hc' : c = false := hc
    rcases hs' with h1 | h1 | h1
    · rw [h1] at hr'; cases hr'
    · rw [h1] at hc'; cases hc'
    · rw [Lena.C01.isFillComputeEl_iff]
      show ((attr1 _).callable && (attr1 _).callable) = false
      simpa using h1
  | .junk, _, e, h => by
    simp only [spec1, Lena.C01.Spec.toElement, Except.ok.injEq] at h
    subst h
    exact histFree_default _ (fun _ => rfl) rfl
  | .setContext, _, e, h => by
    simp only [spec1, Lena.C01.Spec.toElement, Except.ok.injEq] at h
    subst h
    exact histFree_default _ (fun _ => rfl) rfl
  | .count _, hs, _, _ => by simp [Stateless] at hs
  | .acc _, hs, _, _ => by simp [Stateless] at hs
  | .runIfBad _, hs, _, _ => by simp [Stateless] at hs
  | .dup, hs, _, _ => by simp [Stateless] at hs
theorem specs_histFree : ∀ ss : List Lena.C05.Spec, StatelessL ss →
    ∀ es, Lena.C01.Spec.toElements (specs1 ss) = .ok es → ∀ e ∈ es, HistFree e
  | [], _, es, h => by
    simp only [specs1, Lena.C01.Spec.toElements, Except.ok.injEq] at h
    subst h
    simp
  | s :: ss, hs, es, h => by
    simp only [specs1, Lena.C01.Spec.toElements] at h
    cases h1 : Lena.C01.Spec.toElement (spec1 s) with
    | error err => simp [h1] at h
    | ok el =>
      cases h2 : Lena.C01.Spec.toElements (specs1 ss) with
      | error err => simp [h1, h2] at h
      | ok els =>
        simp only [h1, h2, Except.ok.injEq] at h
        subst h
        intro e he
        rcases List.mem_cons.1 he with rfl | he
        · exact spec_histFree s hs.1 _ h1
        · exact specs_histFree ss hs.2 els h2 e he
end

/-- an element without `fill` and `compute` methods -/
theorem not_fc (e : Lena.C01.Element Value) (fr : Bool) (a : Acc AccState Value) (hf : e.fill = .absent) :
    Lena.C01.isFillComputeEl e = true → AccBackedOn (Dom fr) e a := by
  intro h
  simp [Lena.C01.isFillComputeEl, hf, Lena.C01.Attr.present] at h

mutual
/-- every common element description denotes, in the two models, the same Python object as far as
`Sequence` can tell (`ElObj`), or its constructor raises the same exception in both -/
theorem spec_agree : ∀ s : Lena.C05.Spec, Common s →
    ExRel (ElObj (isNum s)) (Lena.C01.Spec.toElement (spec1 s)) s.toObj
  | .call f, _ => by
    simp only [spec1, Lena.C01.Spec.toElement, Lena.C05.Spec.toObj, ExRel]
    exact { run := rfl, call := rfl, fill := rfl, compute := rfl, nodata := rfl,
            runDen := fun h => (by cases h), callDen := fun _ => rfl, acc := not_fc _ _ _ rfl }
  | .var n g, _ => by
    simp only [spec1, Lena.C01.Spec.toElement, Lena.C05.Spec.toObj, ExRel]
    exact { run := rfl, call := rfl, fill := rfl, compute := rfl, nodata := rfl,
            runDen := fun h => (by cases h), callDen := fun _ => rfl, acc := not_fc _ _ _ rfl }
  | .filter p, _ => by
    simp only [spec1, Lena.C01.Spec.toElement, Lena.C05.Spec.toObj, ExRel]
    exact { run := rfl, call := rfl, fill := rfl, compute := rfl, nodata := rfl,
            runDen := fun _ => stage5_ok _ _ (filterS_agree _), callDen := fun h => (by cases h),
            acc := not_fc _ _ _ rfl }
  | .slice a b s, _ => by
    simp only [spec1, Lena.C01.Spec.toElement, Lena.C05.Spec.toObj]
    cases hk : Lena.C17.mkSlice a b s with
    | valueError => simp [ExRel]
    | islice a' b' st =>
      simp only [ExRel]
      exact { run := rfl, call := rfl, fill := rfl, compute := rfl, nodata := rfl,
              runDen := fun _ => stage5_ok _ _ (isliceS_agree a' b' st), callDen := fun h => (by cases h),
              acc := not_fc _ _ _ rfl }
    | negative a' b' st =>
      simp only [ExRel]
      exact { run := rfl, call := rfl, fill := rfl, compute := rfl, nodata := rfl,
              runDen := fun _ => stage5_ok _ _ (sliceS_agree _), callDen := fun h => (by cases h),
              acc := not_fc _ _ _ rfl }
  | .runIf p inner, hc => by
    have hsi : StatelessL inner := by simpa [Common] using hc
    have ih := specs_agree inner (statelessL_commonL inner hsi)
    simp only [spec1, Lena.C05.Spec.toObj]
    rw [toElement_runIf p (specs1 inner) (specs1_not_single_seq inner)]
    rcases ih.of_ok with ⟨e, h1, h5⟩ | ⟨es, os, h1, h5, hr⟩
    · simp [h1, h5, ExRel]
    · simp only [h1, h5]
      have hm := mkSequence_agree_eq _ es os hr (statelessL_not_num inner hsi)
      rcases hm.of_ok with ⟨e, m1, m5⟩ | ⟨sq, seq, m1, m5, hs⟩
      · simp [m1, m5, ExRel, Except.map]
      · simp only [m1, m5, Except.map, ExRel]
        have hes := specs_histFree inner hsi es h1
        have hrd := (runIfElement_histFree p sq (seq_histFree es sq hes m1)).2
        exact { run := rfl, call := rfl, fill := rfl, compute := rfl, nodata := rfl,
                runDen := fun _ => (by
                  subst hs
                  rw [hrd]
                  apply stage5_ok
                  intro s
                  exact runIfS_agree p.eval sq.run s),
                callDen := fun h => (by cases h),
                acc := not_fc _ _ _ rfl }
  | .count n, _ => by
    simp only [spec1, Lena.C01.Spec.toElement, Lena.C05.Spec.toObj, ExRel]
    exact { run := rfl, call := rfl, fill := rfl, compute := rfl, nodata := rfl,
            runDen := fun _ => stage5_ok _ _ (countS_agree n 0), callDen := fun h => (by cases h),
            acc := fun _ => ⟨(accElement_backed (.count n)).fillDen, (accElement_backed (.count n)).computeDen⟩ }
  | .reverse, _ => by
    simp only [spec1, Lena.C01.Spec.toElement, Lena.C05.Spec.toObj, ExRel]
    exact { run := rfl, call := rfl, fill := rfl, compute := rfl, nodata := rfl,
            runDen := fun _ => stage5_ok _ _ reverseS_agree, callDen := fun h => (by cases h),
            acc := not_fc _ _ _ rfl }
  | .end_, _ => by
    simp only [spec1, Lena.C01.Spec.toElement, Lena.C05.Spec.toObj, ExRel]
    exact { run := rfl, call := rfl, fill := rfl, compute := rfl, nodata := rfl,
            runDen := fun _ => stage5_ok _ _ endS_agree, callDen := fun h => (by cases h),
            acc := not_fc _ _ _ rfl }
  | .acc k, _ => by
    simp only [spec1, Lena.C01.Spec.toElement, Lena.C05.Spec.toObj, ExRel]
    exact { run := rfl, call := rfl, fill := rfl, compute := rfl, nodata := rfl,
            runDen := fun h => (by cases h), callDen := fun h => (by cases h),
            acc := fun _ => accElement_backed k }
  | .syn attrs c nd, _ => by
    simp only [spec1, Lena.C01.Spec.toElement, Lena.C05.Spec.toObj, ExRel]
    exact { run := rfl, call := rfl, fill := rfl, compute := rfl, nodata := rfl,
            runDen := fun _ => stage5_ok _ _ (mapS_agree _), callDen := fun _ => rfl,
            acc := fun _ => synElement_backed _ _ _ _ _ _ }
  | .junk, _ => by
    simp only [spec1, Lena.C01.Spec.toElement, Lena.C05.Spec.toObj, ExRel]
    exact { run := rfl, call := rfl, fill := rfl, compute := rfl, nodata := rfl,
            runDen := fun h => (by cases h), callDen := fun h => (by cases h), acc := not_fc _ _ _ rfl }
  | .setContext, _ => by
    simp only [spec1, Lena.C01.Spec.toElement, Lena.C05.Spec.toObj, ExRel]
    exact { run := rfl, call := rfl, fill := rfl, compute := rfl, nodata := rfl,
            runDen := fun h => (by cases h), callDen := fun h => (by cases h), acc := not_fc _ _ _ rfl }
  | .runIfBad _, hc => by simp [Common] at hc
  | .dup, hc => by simp [Common] at hc
theorem specs_agree : ∀ ss : List Lena.C05.Spec, CommonL ss →
    ExRel (AllRel3 ElObj (ss.map isNum)) (Lena.C01.Spec.toElements (specs1 ss)) (Lena.C05.Spec.toObjs ss)
  | [], _ => by simp [specs1, Lena.C01.Spec.toElements, Lena.C05.Spec.toObjs, ExRel, AllRel3.nil]
  | s :: ss, hc => by
    have h1 := spec_agree s hc.1
    have h2 := specs_agree ss hc.2
    simp only [specs1, Lena.C01.Spec.toElements, Lena.C05.Spec.toObjs, List.map_cons]
    rcases h1.of_ok with ⟨e, a1, a5⟩ | ⟨el, o, a1, a5, hr⟩
    · simp [a1, a5, ExRel]
    · rcases h2.of_ok with ⟨e, b1, b5⟩ | ⟨els, os, b1, b5, hrs⟩
      · simp [a1, a5, b1, b5, ExRel]
      · simp only [a1, a5, b1, b5, ExRel]
        exact .cons hr hrs
end

/-- what `drivers/C01.lean` computes for `{"op":"run","prog":prog,"flow":flow}`, as a C05 outcome -/
def drive1 (prog : List Lena.C01.Spec) (flow : List Value) : Lena.C05.Outcome :=
  match Lena.C01.Spec.toElement (.seq prog) with
  | .error e => .init e
  | .ok el => .ran (to5 (Lena.C01.observe (el.invokeRun (.ofList flow))))

/-- no float reaches a `Sum`/`Mean` when the C05 model runs `Sequence(*args)` on `flow` -/
def FloatSafe (args : List Lena.C05.Spec) (flow : List Value) : Prop :=
  ∀ os, Lena.C05.Spec.toObjs args = .ok os → foldOK (args.map isNum) os (.ofList flow)

/-- executable form of `FloatSafe` -/
def floatSafeB (args : List Lena.C05.Spec) (flow : List Value) : Bool :=
  match Lena.C05.Spec.toObjs args with
  | .error _ => true
  | .ok os => foldOKb (args.map isNum) os (.ofList flow)

theorem floatSafeB_sound (args : List Lena.C05.Spec) (flow : List Value) (h : floatSafeB args flow = true) :
    FloatSafe args flow := by
  intro os hos
  simpa [floatSafeB, hos, foldOK] using h

/-- a program without `Sum`/`Mean` is float-safe on every flow -/
theorem floatSafe_of_no_num (args : List Lena.C05.Spec) (h : ∀ s ∈ args, isNum s = false) (flow : List Value) :
    FloatSafe args flow := by
  intro os _
  apply foldOK_false
  intro fr hfr
  obtain ⟨s, hs, rfl⟩ := List.mem_map.1 hfr
  exact h s hs

/-- **`Sequence(*args).run(flow)`, end to end on the functions the two correspondence checks evaluate**:
for every program over the common vocabulary (any length, any nesting of `RunIf`) and every flow on which no
float reaches a `Sum`/`Mean`, C05's `driveSeq` and C01's `Spec.toElement (.seq …)`/`invokeRun` give the same
outcome — the same constructor exception, or the same values and the same terminating exception -/
theorem driveSeq_agree (args : List Lena.C05.Spec) (hc : CommonL args) (flow : List Value)
    (hf : FloatSafe args flow) :
    Lena.C05.driveSeq args flow = drive1 (specs1 args) flow := by
  have h := specs_agree args hc
  simp only [Lena.C05.driveSeq, drive1, Lena.C01.Spec.toElement]
  rcases h.of_ok with ⟨e, a1, a5⟩ | ⟨es, os, a1, a5, hr⟩
  · simp [a1, a5]
  · simp only [a1, a5]
    have hm := mkSequence_agree _ es os hr
    rcases hm.of_ok with ⟨e, m1, m5⟩ | ⟨sq, seq, m1, m5, hs⟩
    · simp [m1, m5, Except.map]
    · simp only [m1, m5, Except.map]
      have := hs (.ofList flow) (hf os a5)
      rw [Lena.C01.toElement_invokeRun, to5_observe, this]
      rfl

/-- … in particular for every program without `Sum`/`Mean`, on every flow -/
theorem driveSeq_agree_no_num (args : List Lena.C05.Spec) (hc : CommonL args) (hn : ∀ s ∈ args, isNum s = false)
    (flow : List Value) : Lena.C05.driveSeq args flow = drive1 (specs1 args) flow :=
  driveSeq_agree args hc flow (floatSafe_of_no_num args hn flow)

/-- the form the executable cross-check uses: whenever the two Boolean side conditions evaluate to `true`, the two
drivers' functions agree -/
theorem driveSeq_agree_checked (args : List Lena.C05.Spec) (flow : List Value)
    (hc : commonLB args = true) (hf : floatSafeB args flow = true) :
    Lena.C05.driveSeq args flow = drive1 (specs1 args) flow :=
  driveSeq_agree args (commonLB_sound args hc) flow (floatSafeB_sound args flow hf)

/-- non-vacuity / instances: `Sequence(inc, Filter(even), RunIf(pos, wrap), Slice(-1), StoreFilled(True))`
and `Sequence(Filter(lt5), Sum())` on `1..5` -/
example : CommonL [.call .inc, .filter .even, .runIf .pos [.call .wrap], .slice none (some (-1)) none, .acc (.store true)] := by
  simp [CommonL, Common, StatelessL, Stateless]

example : drive1 (specs1 [.call .inc, .filter .even, .runIf .pos [.call .wrap], .slice none (some (-1)) none,
      .acc (.store true)]) [.int 1, .int 2, .int 3, .int 4, .int 5]
    = .ran ⟨[.list [.list [.int 2], .list [.int 4]]], none⟩ := by rfl

example : FloatSafe [.filter .lt5, .acc .sum] [.int 1, .int 7, .int 3] := by
  intro os h
  cases h
  rfl

/-- … and a run that is outside the common domain: the float of `Mean` reaches `Sum` -/
example : ¬ FloatSafe [.acc .mean, .acc .sum] [.int 1, .int 2] := by
  intro h
  have := h _ rfl
  exact absurd this (by unfold foldOK; decide)

end Lena.Bridge.Flow

namespace Lena.Bridge.Flow
open Lena.Flow

/-! ## 4. C02 (generator machines, list semantics `den`) ↔ C01 streams (↔ C05 through section 1)

C02 transcribes the same `run` methods as *generator machines* (`mapG`, `filterG`, `isliceG`, `negG`, `countG`,
`runIfG`) over values of an arbitrary type `β`, with total element functions (no exception of user code, no
exception of the input), and proves (`pipeline_values`) that what a consumer pulls out of a pipeline of
machines is a prefix of the list semantics `seqDen`.  C01/C05 transcribe them as functions on streams over
`Flow.Value` with possibly raising element functions.

Common domain: flows that end normally (`Strm.ofList`), element functions that do not raise on the values
of the flow.  Translation: an embedding `emb : β → Value` of C02's values, with commutation conditions for
the element functions (`StageRel`).  Outside the common domain: exceptions (C01/C05 only); pull counts, fuel,
partial consumption (C02 only); stateful inner sequences of `RunIf` (C02 only); `Split` (other bridge). -/

universe u v

inductive AllRelU {a : Type u} {b : Type v} (R : a → b → Prop) : List a → List b → Prop
  | nil : AllRelU R [] []
  | cons {x y xs ys} : R x y → AllRelU R xs ys → AllRelU R (x :: xs) (y :: ys)

variable {β : Type}

theorem andThen_ofList (l : List α) (t : Lena.C01.Strm α) :
    (Lena.C01.Strm.ofList l).andThen t = ⟨l ++ t.vals, t.term⟩ := rfl

/-- `Run._call_run`: `Lena.C01.mapS` on a normally ending flow is the list semantics of `Lena.C02.Stage.map`
(which the machine `mapG` realises) -/
theorem mapS_den (emb : β → Value) (f : β → β) (f1 : Value → Except Exc Value)
    (h : ∀ v, f1 (emb v) = .ok (emb (f v))) : ∀ xs : List β,
    Lena.C01.mapS f1 (.ofList (xs.map emb)) = .ofList (((Lena.C02.Stage.map f).den xs).map emb)
  | [] => rfl
  | x :: xs => by
    have ih := mapS_den emb f f1 h xs
    simp only [Lena.C01.mapS, Lena.C01.Strm.ofList, List.map_cons, Lena.C01.mapGo, h, Lena.C02.Stage.den] at ih ⊢
    rw [ih]
    rfl

/-- `Filter.run`: `Lena.C01.filterS` vs `Lena.C02.Stage.filter` (`filterG`) -/
theorem filterS_den (emb : β → Value) (p : β → Bool) (p1 : Value → Except Exc Bool)
    (h : ∀ v, p1 (emb v) = .ok (p v)) : ∀ xs : List β,
    Lena.C01.filterS p1 (.ofList (xs.map emb)) = .ofList (((Lena.C02.Stage.filter p).den xs).map emb)
  | [] => rfl
  | x :: xs => by
    have ih := filterS_den emb p p1 h xs
    simp only [Lena.C01.filterS, Lena.C01.Strm.ofList, List.map_cons, Lena.C01.filterGo, h, Lena.C02.Stage.den] at ih ⊢
    cases hp : p x with
    | true => simp only [List.filter_cons_of_pos hp, List.map_cons]; rw [ih]; rfl
    | false =>
      have : ¬ (p x = true) := by simp [hp]
      simp only [List.filter_cons_of_neg this]; exact ih

theorem everyNthAux_map (f : α → β) (k : Nat) : ∀ (j : Nat) (xs : List α),
    Lena.C17.everyNthAux k j (xs.map f) = (Lena.C17.everyNthAux k j xs).map f
  | _, [] => by simp [Lena.C17.everyNthAux]
  | 0, x :: xs => by simp [Lena.C17.everyNthAux, everyNthAux_map f k (k - 1) xs]
  | j + 1, x :: xs => by simp [Lena.C17.everyNthAux, everyNthAux_map f k j xs]

theorem everyNth_map (f : α → β) (k : Nat) (xs : List α) :
    Lena.C17.everyNth k (xs.map f) = (Lena.C17.everyNth k xs).map f := everyNthAux_map f k 0 xs

theorem pySlice_map (f : α → β) (xs : List α) (a b : Option Int) (s : Nat) :
    Lena.C17.pySlice (xs.map f) a b s = (Lena.C17.pySlice xs a b s).map f := by
  simp only [Lena.C17.pySlice, List.length_map, ← List.map_drop, ← List.map_take, everyNth_map]

/-- `Slice.run` with non-negative arguments (`itertools.islice`): `Lena.C01.sliceS (.islice …)` (= `Lena.C05.isliceS`)
vs `Lena.C02.Stage.islice` (`isliceG`, CPython's `islice_next`) -/
theorem islice_den (emb : β → Value) (a : Nat) (b : Option Nat) (st : Nat) (xs : List β) :
    Lena.C01.sliceS (.islice a b st) (.ofList (xs.map emb))
      = .ofList (((Lena.C02.Stage.islice a b st).den xs).map emb) := by
  simp only [Lena.C01.sliceS, Lena.C01.Strm.ofList, Lena.C02.Stage.den, Lena.C02.islice_map]
  cases b with
  | none => rfl
  | some b => simp

/-- `Slice._run_negative_islice` (and `islice(·, None, None, step)` around it): `Lena.C01.sliceS (.negative …)`
(= `Lena.C05.sliceS`) vs `Lena.C02.Stage.negslice` (`negG`); no `IndexError` on either side -/
theorem negslice_den (emb : β → Value) (a b : Option Int) (st : Nat) (h : Lena.C17.HasNeg a b) (xs : List β) :
    Lena.C01.sliceS (.negative a b st) (.ofList (xs.map emb))
      = .ofList (((Lena.C02.Stage.negslice a b st).den xs).map emb) := by
  simp only [Lena.C01.sliceS, Lena.C01.Strm.ofList, Lena.C02.Stage.den, Lena.C17.sliceRun,
    Lena.C17.runNegative_eq_pySlice a b h, pySlice_map]
  have hout : (if st = 1 then (Lena.C17.pySlice xs a b 1).map emb
        else Lena.C17.everyNth st ((Lena.C17.pySlice xs a b 1).map emb))
      = (if st = 1 then Lena.C17.pySlice xs a b 1 else Lena.C17.everyNth st (Lena.C17.pySlice xs a b 1)).map emb := by
    split
    · rfl
    · exact everyNth_map emb st _
  rw [hout]
  cases Lena.C01.negMode a b (xs.map emb).length <;> rfl

/-- the mark `Count.run` puts on the last value, on `Flow.Value`s (what `Lena.C01.countS`/`Lena.C05.countS` compute) -/
def markValue (name : String) (count0 : Int) (n : Nat) (v : Value) : Value :=
  .tup [(getDataContext v).1, .dict (dictSet (getDataContext v).2 name (.int (count0 + n)))]

theorem countLoop_den (emb : β → Value) (mark : Nat → β → β) (name : String) (count0 : Int)
    (h : ∀ n v, markValue name count0 n (emb v) = emb (mark n v)) : ∀ (rest : List β) (prev : β) (n : Nat),
    (countLoop (emb prev) n (rest.map emb)).1
        ++ [markValue name count0 (countLoop (emb prev) n (rest.map emb)).2.2 (countLoop (emb prev) n (rest.map emb)).2.1]
      = (Lena.C02.countDenGo mark prev n rest).map emb
  | [], prev, n => by simp [countLoop, Lena.C02.countDenGo, h]
  | v :: rest, prev, n => by
    have ih := countLoop_den emb mark name count0 h rest v (n + 1)
    simp only [List.map_cons, countLoop, Lena.C02.countDenGo, List.cons_append]
    rw [ih]

/-- `Count.run`: `Lena.C01.countS` (= `Lena.C05.countS`) vs `Lena.C02.Stage.count` (`countG`) -/
theorem countS_den (emb : β → Value) (mark : Nat → β → β) (name : String) (count0 : Int)
    (h : ∀ n v, markValue name count0 n (emb v) = emb (mark n v)) (xs : List β) :
    Lena.C01.countS name count0 (.ofList (xs.map emb)) = .ofList (((Lena.C02.Stage.count mark).den xs).map emb) := by
  cases xs with
  | nil => rfl
  | cons first rest =>
    have := countLoop_den emb mark name count0 h rest first 1
    simp only [Lena.C01.countS, Lena.C01.Strm.ofList, List.map_cons, Lena.C02.Stage.den, Lena.C02.countDen]
    rw [← this]
    rfl

theorem runIfS_den_go {ι : Type} (emb : β → Value) (sel : β → Bool) (sel1 : Value → Except Exc Bool)
    (inner : ι → β → List β × ι) (inner1 : Lena.C01.Stage Value)
    (hs : ∀ v, sel1 (emb v) = .ok (sel v))
    (hi : ∀ i v, Lena.C01.observe (inner1 (.ofList [emb v])) = .ofList (((inner i v).1).map emb)) :
    ∀ (xs : List β) (i : ι),
      Lena.C01.bindGo (fun v =>
          match sel1 v with
          | .error e => .fail e
          | .ok true => Lena.C01.observe (inner1 (.ofList [v]))
          | .ok false => .ofList [v]) none (xs.map emb)
        = .ofList ((Lena.C02.runIfDenGo sel inner i xs).map emb)
  | [], _ => rfl
  | v :: r, i => by
    simp only [List.map_cons, Lena.C01.bindGo, Lena.C02.runIfDenGo, hs]
    cases hv : sel v with
    | true =>
      simp only [if_true, hi i v]
      rw [runIfS_den_go emb sel sel1 inner inner1 hs hi r (inner i v).2, andThen_ofList]
      simp [Lena.C01.Strm.ofList]
    | false =>
      simp only [Bool.false_eq_true, if_false]
      rw [runIfS_den_go emb sel sel1 inner inner1 hs hi r i, andThen_ofList]
      simp [Lena.C01.Strm.ofList]

/-- `RunIf.run`: `Lena.C01.runIfS` (= `Lena.C05.runIfS`) vs `Lena.C02.Stage.runIf` (`runIfG`), for an inner sequence
whose output for one value does not depend on the state C02 threads through it (C01/C05 have no such
state: there the elements inside a `RunIf` are stateless) -/
theorem runIfS_den {ι : Type} (emb : β → Value) (sel : β → Bool) (sel1 : Value → Except Exc Bool)
    (inner : ι → β → List β × ι) (inner1 : Lena.C01.Stage Value) (i0 : ι)
    (hs : ∀ v, sel1 (emb v) = .ok (sel v))
    (hi : ∀ i v, Lena.C01.observe (inner1 (.ofList [emb v])) = .ofList (((inner i v).1).map emb)) (xs : List β) :
    Lena.C01.runIfS sel1 inner1 (.ofList (xs.map emb))
      = .ofList (((Lena.C02.Stage.runIf ι i0 sel inner).den xs).map emb) :=
  runIfS_den_go emb sel sel1 inner inner1 hs hi xs i0

/-- one element as C02 describes it (a `Stage` over `β` with total element functions) and as C01 describes
it (a `Stage` on streams of `Flow.Value`), related through the embedding `emb` of the values -/
inductive StageRel (emb : β → Value) : Lena.C02.Stage β → Lena.C01.Stage Value → Prop
  /-- a callable through `Run._call_run` -/
  | map (f : β → β) (f1 : Value → Except Exc Value) (h : ∀ v, f1 (emb v) = .ok (emb (f v))) :
      StageRel emb (.map f) (fun s => .ok (Lena.C01.mapS f1 s))
  /-- `Filter` -/
  | filter (p : β → Bool) (p1 : Value → Except Exc Bool) (h : ∀ v, p1 (emb v) = .ok (p v)) :
      StageRel emb (.filter p) (fun s => .ok (Lena.C01.filterS p1 s))
  /-- `Slice` with non-negative arguments -/
  | islice (a : Nat) (b : Option Nat) (st : Nat) (hst : 1 ≤ st) :
      StageRel emb (.islice a b st) (fun s => .ok (Lena.C01.sliceS (.islice a b st) s))
  /-- `Slice` with a negative argument -/
  | negslice (a b : Option Int) (st : Nat) (h : Lena.C17.HasNeg a b) (hst : 1 ≤ st) :
      StageRel emb (.negslice a b st) (fun s => .ok (Lena.C01.sliceS (.negative a b st) s))
  /-- `Count(name, count0)` -/
  | count (mark : Nat → β → β) (name : String) (count0 : Int)
      (h : ∀ n v, markValue name count0 n (emb v) = emb (mark n v)) :
      StageRel emb (.count mark) (fun s => .ok (Lena.C01.countS name count0 s))
  /-- `RunIf(select, *inner)` -/
  | runIf (ι : Type) (i0 : ι) (sel : β → Bool) (sel1 : Value → Except Exc Bool)
      (inner : ι → β → List β × ι) (inner1 : Lena.C01.Stage Value)
      (hs : ∀ v, sel1 (emb v) = .ok (sel v))
      (hi : ∀ i v, Lena.C01.observe (inner1 (.ofList [emb v])) = .ofList (((inner i v).1).map emb)) :
      StageRel emb (.runIf ι i0 sel inner) (fun s => .ok (Lena.C01.runIfS sel1 inner1 s))

/-- per element: the C01 stage applied to a normally ending flow is the C02 list semantics -/
theorem stage_den (emb : β → Value) (e : Lena.C02.Stage β) (t : Lena.C01.Stage Value) (h : StageRel emb e t)
    (xs : List β) : t (.ofList (xs.map emb)) = .ok (.ofList ((e.den xs).map emb)) := by
  cases h with
  | map f f1 h => exact congrArg Except.ok (mapS_den emb f f1 h xs)
  | filter p p1 h => exact congrArg Except.ok (filterS_den emb p p1 h xs)
  | islice a b st hst => exact congrArg Except.ok (islice_den emb a b st xs)
  | negslice a b st h hst => exact congrArg Except.ok (negslice_den emb a b st h xs)
  | count mark name count0 h => exact congrArg Except.ok (countS_den emb mark name count0 h xs)
  | runIf ι i0 sel sel1 inner inner1 hs hi => exact congrArg Except.ok (runIfS_den emb sel sel1 inner inner1 i0 hs hi xs)

/-- a related element is well-formed in C02's sense (what the constructors guarantee) -/
theorem stageRel_wf (emb : β → Value) (e : Lena.C02.Stage β) (t : Lena.C01.Stage Value) (h : StageRel emb e t) :
    e.WF := by
  cases h with
  | islice a b st hst => exact hst
  | negslice a b st h hst => exact ⟨h, hst⟩
  | _ => trivial

/-- **`Sequence.run` on a normally ending flow**: for pipelines related element by element, the fold of C01
(`composeS`, i.e. `Seq.run`; by section 1 also C05's `composeS`) yields exactly C02's list semantics `seqDen`,
and ends normally -/
theorem pipeline_den (emb : β → Value) : ∀ (els : List (Lena.C02.Stage β)) (ts : List (Lena.C01.Stage Value)),
    AllRelU (StageRel emb) els ts → ∀ xs : List β,
    Lena.C01.composeS ts (.ofList (xs.map emb)) = .ok (.ofList ((Lena.C02.seqDen els xs).map emb))
  | _, _, .nil, xs => rfl
  | _, _, .cons (x := e) (y := t) (xs := els) (ys := ts) h hs, xs => by
    simp only [Lena.C01.composeS, stage_den emb e t h xs]
    exact pipeline_den emb els ts hs (e.den xs)

theorem allRel_wf (emb : β → Value) : ∀ (els : List (Lena.C02.Stage β)) (ts : List (Lena.C01.Stage Value)),
    AllRelU (StageRel emb) els ts → ∀ e ∈ els, e.WF
  | _, _, .nil, e, he => by cases he
  | _, _, .cons (x := e0) (y := t) (xs := els) (ys := ts) h hs, e, he => by
    rcases List.mem_cons.1 he with rfl | he
    · exact stageRel_wf emb _ t h
    · exact allRel_wf emb els ts hs e he

/-- **Transfer of C02's `pipeline_values` to the stream models** (machines ↔ streams): for pipelines related
element by element, any finite input, sufficient fuel and any number `k` of results the consumer takes, the
values pulled out of the chain of generator machines (`Lena.C02.seqRun … |>.take fu k`) are the first `k` values of
the stream C01 computes for `Sequence(*els).run(flow)` — so the machine transcription and the stream
transcription of `Run._call_run`, `Filter.run`, `Slice.run`, `Count.run`, `RunIf.run`, `Sequence.run` agree -/
theorem machines_yield_stream_prefix (emb : β → Value) (els : List (Lena.C02.Stage β))
    (ts : List (Lena.C01.Stage Value)) (h : AllRelU (StageRel emb) els ts) (xs : List β) (fu : Nat)
    (hfu : Lena.C02.seqFuelOK els (Lena.C02.SF.ofList xs) fu) (k : Nat) :
    ((((Lena.C02.seqRun els (Lena.C02.Pipe.ofList xs)).take fu k).1).map Prod.fst).map emb
      = ((Lena.C01.observe (Lena.C01.composeS ts (.ofList (xs.map emb)))).vals).take k ∧
    (Lena.C01.observe (Lena.C01.composeS ts (.ofList (xs.map emb)))).term = none := by
  rw [Lena.C02.pipeline_values els (allRel_wf emb els ts h) xs fu hfu k, pipeline_den emb els ts h xs]
  simp [Lena.C01.observe, Lena.C01.Strm.ofList, List.map_take]

/-- the same against C05's fold -/
theorem machines_yield_stream_prefix_c05 (emb : β → Value) (els : List (Lena.C02.Stage β))
    (ts : List (Lena.C01.Stage Value)) (h : AllRelU (StageRel emb) els ts) (xs : List β) (fu : Nat)
    (hfu : Lena.C02.seqFuelOK els (Lena.C02.SF.ofList xs) fu) (k : Nat) :
    ((((Lena.C02.seqRun els (Lena.C02.Pipe.ofList xs)).take fu k).1).map Prod.fst).map emb
      = ((Lena.C05.observe (Lena.C05.composeS (ts.map stage5) (.ofList (xs.map emb)))).vals).take k := by
  rw [(machines_yield_stream_prefix emb els ts h xs fu hfu k).1]
  have := composeS_agree ts (.ofList (xs.map emb))
  rw [to5_ofList] at this
  rw [← this, ← to5_observe]
  rfl

end Lena.Bridge.Flow

namespace Lena.Bridge.Flow
open Lena.Flow

variable {α : Type}

/-! ## 5. `Slice`: C17 (lists) ↔ C01/C05 (streams) ↔ `Flow.sliceT` -/

/-- `Slice(*args).run` on a normally ending flow: the stream transcriptions of C01 (and, by `sliceS_agree`, C05)
are the list transcription `Lena.C17.sliceRun` (which C17's theorems are about), for every `SliceKind`, the
`IndexError` branch and the rejected-at-construction kind included -/
theorem sliceS_sliceRun (k : Lena.C17.SliceKind) (xs : List α) :
    Lena.C01.sliceS k (.ofList xs) =
      (match Lena.C17.sliceRun k xs with
       | none => .fail .lenaValueError
       | some (.ok ys) => .ofList ys
       | some .indexError => .fail .indexError) := by
  cases k with
  | valueError => rfl
  | islice a b st =>
    simp only [Lena.C01.sliceS, Lena.C17.sliceRun, Lena.C01.Strm.ofList]
    cases b with
    | none => rfl
    | some b => by_cases hc : max a b ≤ xs.length <;> simp [hc]
  | negative a b st =>
    simp only [Lena.C01.sliceS, Lena.C17.sliceRun, Lena.C01.Strm.ofList]
    cases Lena.C17.runNegative a b xs with
    | indexError => rfl
    | ok ys =>
      simp only []
      cases Lena.C01.negMode a b xs.length <;> rfl

/-- the same for C05 -/
theorem sliceS5_sliceRun (k : Lena.C17.SliceKind) (xs : List α) :
    Lena.C05.sliceS k (.ofList xs) =
      (match Lena.C17.sliceRun k xs with
       | none => .fail .lenaValueError
       | some (.ok ys) => .ofList ys
       | some .indexError => .fail .indexError) := by
  have h := sliceS_agree k (Lena.C01.Strm.ofList xs)
  rw [to5_ofList] at h
  rw [← h, sliceS_sliceRun]
  cases Lena.C17.sliceRun k xs with
  | none => rfl
  | some o => cases o <;> rfl

/-- `Flow.sliceT` (the whole-list `Trans` of the shared vocabulary) is what a draining consumer observes of the
stream transcription -/
theorem sliceT_observe (k : Lena.C17.SliceKind) (xs : List α) :
    (match sliceT k xs with
     | .ok ys => Lena.C01.Strm.ofList ys
     | .error e => .fail e) = Lena.C01.sliceS k (.ofList xs) := by
  rw [sliceS_sliceRun]
  unfold sliceT
  cases Lena.C17.sliceRun k xs with
  | none => rfl
  | some o => cases o <;> rfl

/-- whatever the input does after its values: the values `islice` lets through are those of `Lena.C17.islice` -/
theorem isliceS_vals (a : Nat) (b : Option Nat) (st : Nat) (s : Lena.C05.Strm α) :
    (Lena.C05.isliceS a b st s).vals = Lena.C17.islice s.vals a b st := rfl

/-- **Transfer of C17's `slice_run_eq_pyslice` to C05** (through C01's `sliceS_ofList`): a constructed `Slice`
run on a normally ending flow yields exactly `xs[start:stop:step]` in C05's stream model too -/
theorem c05_sliceS_ofList (start stop step : Option Int) (hs : Lena.C17.GoodStep step) (xs : List α) :
    Lena.C05.sliceS (Lena.C17.mkSlice start stop step) (.ofList xs)
      = .ofList (Lena.C17.pySlice xs start stop ((step.getD 1).toNat)) := by
  rw [sliceS5_sliceRun, Lena.C17.slice_run_eq_pyslice start stop step hs xs]

example : Lena.C05.sliceS (Lena.C17.mkSlice (some (-3)) (some 5) none) (.ofList [0, 1, 2, 3, 4, 5, 6])
    = .ofList [4] := by decide

/-- **Transfer of C17's `slice_run_eq_pyslice` to C02's list semantics**: the `den` of the stage C02 builds for a
negative `Slice` is Python slicing (C02 totalises `IndexError` to `[]`; this shows the branch is dead) -/
theorem c02_negslice_den (a b : Option Int) (st : Nat) (h : Lena.C17.HasNeg a b) (xs : List α) :
    (Lena.C02.Stage.negslice a b st).den xs
      = (if st = 1 then Lena.C17.pySlice xs a b 1 else Lena.C17.everyNth st (Lena.C17.pySlice xs a b 1)) := by
  simp only [Lena.C02.Stage.den, Lena.C17.sliceRun, Lena.C17.runNegative_eq_pySlice a b h]

/-! ## 6. `RunIf.run`: C10 (blocks, state, exception) ↔ C02 (stateful list semantics) ↔ C01/C05 (streams)

C10 transcribes the loop of `RunIf.run` as `loop (runIfStep select inner)` over its own `Item`s, with an
arbitrary state `σ` threaded through the inner sequence and its own exception enum; C02 as `runIfDenGo`
(stateful inner, no exceptions); C01/C05 as `runIfS` (stateless inner, exceptions).  Common domains:
C10/C02: inner sequences that do not raise; C10/C01: inner sequences that do not change the state (any
exceptions, translated by an arbitrary `ex : C10.Exc → Flow.Exc`). -/

theorem flatten_singletons : ∀ xs : List α, (xs.map (fun b => [b])).flatten = xs
  | [] => rfl
  | x :: xs => by simp [flatten_singletons xs]

open Lena.C10 in
/-- `RunIf.run`, C10 ↔ C02, stateful inner sequence without exceptions: same output, same final state, no
exception -/
theorem runIf_c10_c02 {σ : Type} (select : Item → Bool) (inner10 : σ → List Item → Step σ Item)
    (inner2 : σ → Item → List Item × σ)
    (h : ∀ s v, inner10 s [v] = ⟨(inner2 s v).1, (inner2 s v).2, none⟩) : ∀ (xs : List Item) (s : σ),
    (runIfRun select inner10 s xs).out = Lena.C02.runIfDenGo select inner2 s xs ∧
    (runIfRun select inner10 s xs).err = none
  | [], s => ⟨rfl, rfl⟩
  | v :: vs, s => by
    cases hv : select v with
    | true =>
      have hstep : runIfStep select inner10 s v = ⟨(inner2 s v).1, (inner2 s v).2, none⟩ := by
        simp [runIfStep, hv, h]
      obtain ⟨ih1, ih2⟩ := runIf_c10_c02 select inner10 inner2 h vs (inner2 s v).2
      unfold runIfRun at ih1 ih2 ⊢
      rw [Lena.C10.loop_cons_ok _ s _ v vs _ hstep]
      simp only [Run.out, List.flatten_cons, Lena.C02.runIfDenGo, hv, if_true]
      exact ⟨by rw [← ih1]; rfl, ih2⟩
    | false =>
      have hstep : runIfStep select inner10 s v = ⟨[v], s, none⟩ := by
        simp [runIfStep, hv, pass]
      obtain ⟨ih1, ih2⟩ := runIf_c10_c02 select inner10 inner2 h vs s
      unfold runIfRun at ih1 ih2 ⊢
      rw [Lena.C10.loop_cons_ok _ s _ v vs _ hstep]
      simp only [Run.out, List.flatten_cons, Lena.C02.runIfDenGo, hv, Bool.false_eq_true, if_false]
      exact ⟨by rw [← ih1]; rfl, ih2⟩

open Lena.C10 in
/-- `RunIf.run`, C10 ↔ C01, stateless inner sequence that may raise: the values yielded and the exception
that ends the run (translated by `ex`) are those of the stream transcription `Lena.C01.runIfS` -/
theorem runIf_c10_c01 {σ : Type} (ex : Lena.C10.Exc → Flow.Exc) (select : Item → Bool)
    (inner10 : σ → List Item → Step σ Item) (inner1 : Lena.C01.Stage Item)
    (out : Item → List Item) (err : Item → Option Lena.C10.Exc)
    (h10 : ∀ s v, inner10 s [v] = ⟨out v, s, err v⟩)
    (h1 : ∀ v, Lena.C01.observe (inner1 (.ofList [v])) = ⟨out v, (err v).map ex⟩) : ∀ (xs : List Item) (s : σ),
    Lena.C01.runIfS (fun v => .ok (select v)) inner1 (.ofList xs)
      = ⟨(runIfRun select inner10 s xs).out, (runIfRun select inner10 s xs).err.map ex⟩
  | [], s => rfl
  | v :: vs, s => by
    have ih := runIf_c10_c01 ex select inner10 inner1 out err h10 h1 vs s
    unfold Lena.C01.runIfS Lena.C01.bindS at ih ⊢
    simp only [Lena.C01.Strm.ofList, Lena.C01.bindGo] at ih ⊢
    rw [ih]
    unfold runIfRun
    cases hv : select v with
    | true =>
      simp only []
      cases he : err v with
      | none =>
        have hstep : runIfStep select inner10 s v = ⟨out v, s, none⟩ := by simp [runIfStep, hv, h10, he]
        rw [Lena.C10.loop_cons_ok _ s _ v vs _ hstep]
        have := h1 v
        rw [he] at this
        simp only [Lena.C01.Strm.ofList] at this
        rw [this]
        simp [Lena.C01.Strm.andThen, Run.out]
      | some e =>
        have hstep : runIfStep select inner10 s v = ⟨out v, s, some e⟩ := by simp [runIfStep, hv, h10, he]
        rw [Lena.C10.loop_cons_err _ s _ v vs _ e hstep]
        have := h1 v
        rw [he] at this
        simp only [Lena.C01.Strm.ofList] at this
        rw [this]
        simp [Lena.C01.Strm.andThen, Run.out]
    | false =>
      have hstep : runIfStep select inner10 s v = ⟨[v], s, none⟩ := by simp [runIfStep, hv, pass]
      rw [Lena.C10.loop_cons_ok _ s _ v vs _ hstep]
      simp [Lena.C01.Strm.andThen, Run.out]

open Lena.C10 in
/-- **Transfer of C10's `run_determined_by_selected` to the stream model**: how `RunIf.run` ends (normally, or
with which exception) is decided by the selected values alone — the unselected values of the flow do not matter.
Stated for `Lena.C01.runIfS`; by `runIfS_agree` it holds for `Lena.C05.runIfS` as well. -/
theorem c01_runIf_term_determined_by_selected {σ : Type} (ex : Lena.C10.Exc → Flow.Exc) (select : Item → Bool)
    (inner10 : σ → List Item → Step σ Item) (inner1 : Lena.C01.Stage Item)
    (out : Item → List Item) (err : Item → Option Lena.C10.Exc)
    (h10 : ∀ s v, inner10 s [v] = ⟨out v, s, err v⟩)
    (h1 : ∀ v, Lena.C01.observe (inner1 (.ofList [v])) = ⟨out v, (err v).map ex⟩) (s0 : σ) (xs : List Item) :
    (Lena.C01.runIfS (fun v => .ok (select v)) inner1 (.ofList xs)).term
      = (Lena.C01.runIfS (fun v => .ok (select v)) inner1 (.ofList (xs.filter select))).term := by
  rw [runIf_c10_c01 ex select inner10 inner1 out err h10 h1 xs s0,
    runIf_c10_c01 ex select inner10 inner1 out err h10 h1 (xs.filter select) s0]
  have := (Lena.C10.run_determined_by_selected (runIfStep select inner10) select
    (Lena.C10.runIf_passes select inner10) xs s0).2.2
  unfold runIfRun
  simp only [this]

open Lena.C10 in
/-- **Transfer of C10's `state_untouched_by_unselected`**: a flow without selected values passes `RunIf` unchanged -/
theorem c01_runIf_unselected_id {σ : Type} (ex : Lena.C10.Exc → Flow.Exc) (select : Item → Bool)
    (inner10 : σ → List Item → Step σ Item) (inner1 : Lena.C01.Stage Item)
    (out : Item → List Item) (err : Item → Option Lena.C10.Exc)
    (h10 : ∀ s v, inner10 s [v] = ⟨out v, s, err v⟩)
    (h1 : ∀ v, Lena.C01.observe (inner1 (.ofList [v])) = ⟨out v, (err v).map ex⟩) (s0 : σ) (xs : List Item)
    (hx : ∀ b ∈ xs, select b = false) :
    Lena.C01.runIfS (fun v => .ok (select v)) inner1 (.ofList xs) = .ofList xs := by
  rw [runIf_c10_c01 ex select inner10 inner1 out err h10 h1 xs s0]
  unfold runIfRun
  rw [Lena.C10.state_untouched_by_unselected _ select (Lena.C10.runIf_passes select inner10) xs s0 hx]
  simp [Run.out, Lena.C01.Strm.ofList, flatten_singletons]

/-- non-vacuity of the hypotheses of the C10 ↔ C01 bridge: an inner sequence that yields the value twice and
raises `KeyError` (seen as `ValueError` by `ex`) on values of type `str` -/
example : ∃ (inner10 : Unit → List Lena.C10.Item → Lena.C10.Step Unit Lena.C10.Item)
    (inner1 : Lena.C01.Stage Lena.C10.Item) (out : Lena.C10.Item → List Lena.C10.Item)
    (err : Lena.C10.Item → Option Lena.C10.Exc),
    (∀ s v, inner10 s [v] = ⟨out v, s, err v⟩) ∧
    (∀ v, Lena.C01.observe (inner1 (.ofList [v])) = ⟨out v, (err v).map (fun _ => Exc.valueError)⟩) ∧
    err Lena.C10.exStr = some .keyError ∧ err Lena.C10.exInt = none := by
  refine ⟨fun s l => ⟨l ++ l, s, if (l.all fun v => v.data.isStr) then some .keyError else none⟩,
    fun st => .ok ⟨st.vals ++ st.vals, if (st.vals.all fun v => v.data.isStr) then some .valueError else none⟩,
    fun v => [v, v], fun v => if v.data.isStr then some .keyError else none, ?_, ?_, ?_, ?_⟩
  · intro s v; simp
  · intro v
    simp only [Lena.C01.observe, Lena.C01.Strm.ofList, List.all_cons, List.all_nil, Bool.and_true]
    cases v.data.isStr <;> rfl
  · rfl
  · rfl

end Lena.Bridge.Flow

namespace Lena.Bridge.Flow
open Lena.Flow

/-! ## 7. the concrete vocabularies: C02's values `V`, callables `Fn`, selectors `Pred` ↔ `Flow.Value`, `Flow.Fn`,
`Flow.Pred` (used by C01 and C05)

C02's harness observes a flow value as its integer datum and the integer-valued top-level context entries;
C01/C05 observe the whole `(data, context)` pair.  `vToValue` embeds the former into the latter. -/

/-- a C02 value as the `(data, context)` pair C01/C05 see -/
def vToValue (v : Lena.C02.V) : Value :=
  .tup [.int v.d, .dict (v.ctx.map (fun p => (p.1, Value.int p.2)))]

theorem dictSet_ctxSet (name : String) (x : Int) : ∀ ctx : List (String × Int),
    dictSet (ctx.map (fun p => (p.1, Value.int p.2))) name (.int x)
      = (Lena.C02.ctxSet ctx name x).map (fun p => (p.1, Value.int p.2))
  | [] => rfl
  | (k, w) :: rest => by
    simp only [List.map_cons, dictSet, Lena.C02.ctxSet]
    split
    · rfl
    · simp [dictSet_ctxSet name x rest]

/-- `Count.run`'s mark: C02's `markCount` is C01/C05's `markValue` under the embedding -/
theorem markCount_emb (name : String) (count0 : Int) (n : Nat) (v : Lena.C02.V) :
    markValue name count0 n (vToValue v) = vToValue (Lena.C02.markCount name count0 n v) := by
  simp only [markValue, vToValue, getDataContext, Lena.C02.markCount, dictSet_ctxSet]

/-- the plain callables both harnesses have: `d + 1`, `-d`, identity -/
theorem fn_inc_emb (v : Lena.C02.V) : Fn.call .inc (vToValue v) = .ok (vToValue ((Lena.C02.Fn.add 1).app v)) := rfl
theorem fn_ident_emb (v : Lena.C02.V) : Fn.call .ident (vToValue v) = .ok (vToValue (Lena.C02.Fn.ident.app v)) := rfl
theorem fn_neg_emb (v : Lena.C02.V) : Fn.call .neg (vToValue v) = .ok (vToValue ((Lena.C02.Fn.mul (-1)).app v)) := by
  simp [Fn.call, hasContext, vToValue, getDataContext, Fn.onData, Lena.C02.Fn.app]

/-- the selectors both harnesses have -/
theorem pred_even_emb (v : Lena.C02.V) : Pred.eval .even (vToValue v) = .ok ((Lena.C02.Pred.mod 2 0).eval v) := rfl
theorem pred_lt5_emb (v : Lena.C02.V) : Pred.eval .lt5 (vToValue v) = .ok ((Lena.C02.Pred.lt 5).eval v) := rfl
theorem pred_pos_emb (v : Lena.C02.V) : Pred.eval .pos (vToValue v) = .ok ((Lena.C02.Pred.ge 1).eval v) := by
  simp only [Pred.eval, getData, getDataContext, vToValue, Lena.C02.Pred.eval]
  congr 1
theorem pred_all_emb (v : Lena.C02.V) : Pred.eval .all (vToValue v) = .ok (Lena.C02.Pred.all.eval v) := rfl
theorem pred_none_emb (v : Lena.C02.V) : Pred.eval .none (vToValue v) = .ok (Lena.C02.Pred.none.eval v) := rfl

/-- an instance of the machines ↔ streams bridge on the harness vocabularies:
`Sequence(inc, Filter(even), Slice(2), Count("n"))` -/
def exEls : List (Lena.C02.Stage Lena.C02.V) :=
  [.map (Lena.C02.Fn.add 1).app, .filter (Lena.C02.Pred.mod 2 0).eval, .islice 0 (some 2) 1,
   .count (Lena.C02.markCount "n" 0)]

def exTs : List (Lena.C01.Stage Value) :=
  [fun s => .ok (Lena.C01.mapS (Fn.call .inc) s), fun s => .ok (Lena.C01.filterS (Pred.eval .even) s),
   fun s => .ok (Lena.C01.sliceS (.islice 0 (some 2) 1) s), fun s => .ok (Lena.C01.countS "n" 0 s)]

theorem exRel : AllRelU (StageRel vToValue) exEls exTs :=
  .cons (.map _ _ fn_inc_emb) (.cons (.filter _ _ pred_even_emb) (.cons (.islice 0 (some 2) 1 (by decide))
    (.cons (.count _ "n" 0 (markCount_emb "n" 0)) .nil)))

def exXs : List Lena.C02.V := [⟨1, []⟩, ⟨2, [("a", 7)]⟩, ⟨3, []⟩, ⟨5, []⟩, ⟨8, []⟩]

example : Lena.C02.seqFuelOK exEls (Lena.C02.SF.ofList exXs) 60 := by
  simp [Lena.C02.seqFuelOK, Lena.C02.Stage.fuelOK, Lena.C02.Stage.spec, Lena.C02.mapSpec, Lena.C02.filterSpec,
    Lena.C02.isliceSpec, Lena.C02.SF.ofList, Lena.C02.stamps, Lena.C17.islice, exEls, exXs]
  decide

/-- … and what both sides then give: `[2, (4 with n = 2)]`, the machine having pulled exactly 3 values -/
example : ((Lena.C02.seqRun exEls (Lena.C02.Pipe.ofList exXs)).take 60 5)
    = ([(⟨2, []⟩, 3), (⟨4, [("n", 2)]⟩, 3)], .exhausted, 3) := by decide

example : Lena.C01.observe (Lena.C01.composeS exTs (.ofList (exXs.map vToValue)))
    = .ofList [vToValue ⟨2, []⟩, vToValue ⟨4, [("n", 2)]⟩] := by rfl

/-! ## 8. transfers between C01 and C05 through the `Sequence` bridge -/

/-- **Transfer of C05's `spec_drivers_agree` to C01's model**: for a chain `pre* acc post*` over the common
vocabulary whose pre-processing part is of the property's kinds and raises nothing on the flow, what the C01
model computes for `Sequence(*args).run(flow)` is what the C05 model computes for the `FillComputeSeq` filled
value by value and then computed — C01's `Sequence` model satisfies C05's driver-independence (`hfloat`: no float
reaches a `Sum`/`Mean`, the one place where the two accumulator models differ) -/
theorem c01_seq_eq_fill (pre post : List Lena.C05.Spec) (k : AccKind) (flow : List Value)
    (hcommon : CommonL (pre ++ .acc k :: post)) (hfloat : FloatSafe (pre ++ .acc k :: post) flow)
    (hscope : ∀ s ∈ pre, s.InScope)
    (os : List Lena.C05.Obj) (hos : Lena.C05.Spec.toObjs (pre ++ .acc k :: post) = .ok os)
    (c : Lena.C05.Chain AccState Value) (hc : Lena.C05.mkFillComputeSeq os = .ok c)
    (hsafe : Lena.C05.PreSafe c.pre flow) :
    drive1 (specs1 (pre ++ .acc k :: post)) flow = .ran (Lena.C05.fillRun c flow) := by
  rw [← driveSeq_agree _ hcommon flow hfloat]
  exact (Lena.C05.spec_drivers_agree pre post k flow none (by simp) hscope os hos c hc hsafe).1

example : CommonL (Lena.C05.exPreSpecs ++ .acc .sum :: [.call .wrap]) ∧
    FloatSafe (Lena.C05.exPreSpecs ++ .acc .sum :: [.call .wrap]) Lena.C05.exFlow :=
  ⟨by simp [Lena.C05.exPreSpecs, CommonL, Common], by intro os h; cases h; rfl⟩

example : drive1 (specs1 (Lena.C05.exPreSpecs ++ .acc .sum :: [.call .wrap])) Lena.C05.exFlow
    = .ran ⟨[.list [.int 6]], none⟩ := by rfl

theorem allRel3_append {a b c : Type} {R : a → b → c → Prop} :
    ∀ {xs : List a} {ys : List b} {zs : List c} {xs' : List a} {ys' : List b} {zs' : List c},
    AllRel3 R xs ys zs → AllRel3 R xs' ys' zs' → AllRel3 R (xs ++ xs') (ys ++ ys') (zs ++ zs')
  | _, _, _, _, _, _, .nil, h2 => h2
  | _, _, _, _, _, _, .cons h hs, h2 => .cons h (allRel3_append hs h2)

/-- **Transfer of C01's `seq_append` to C05's model**: for objects that both models describe (`ElObj`, none of
them a `Sum`/`Mean`), if `Sequence(*a)` and `Sequence(*b)` can be built then so can `Sequence(*a, *b)`, and its
`run` is the run of the second on the output of the first (exceptions of the calls `run(flow)` included) -/
theorem c05_seq_append (fa fb : List Bool) (ea eb : List (Lena.C01.Element Value)) (oa ob : List Lena.C05.Obj)
    (ha : AllRel3 ElObj fa ea oa) (hb : AllRel3 ElObj fb eb ob)
    (hfa : ∀ fr ∈ fa, fr = false) (hfb : ∀ fr ∈ fb, fr = false) (sta stb : Lena.C05.Stage Value)
    (h1 : Lena.C05.mkSequence oa = .ok sta) (h2 : Lena.C05.mkSequence ob = .ok stb) :
    ∃ st, Lena.C05.mkSequence (oa ++ ob) = .ok st ∧ ∀ s, st s = (sta s >>= stb) := by
  rcases (mkSequence_agree_eq fa ea oa ha hfa).of_ok with ⟨e, _, m5⟩ | ⟨sa, sta', m1, m5, hsa⟩
  · rw [m5] at h1; cases h1
  rcases (mkSequence_agree_eq fb eb ob hb hfb).of_ok with ⟨e, _, n5⟩ | ⟨sb, stb', n1, n5, hsb⟩
  · rw [n5] at h2; cases h2
  rw [m5] at h1; rw [n5] at h2
  cases h1; cases h2
  obtain ⟨sab, hab⟩ := (Lena.C01.seq_append ea eb).2 sa sb m1 n1
  obtain ⟨sa', sb', m1', n1', hrun⟩ := (Lena.C01.seq_append ea eb).1 sab hab
  rw [m1] at m1'; rw [n1] at n1'
  cases m1'; cases n1'
  have hfab : ∀ fr ∈ fa ++ fb, fr = false := by
    intro fr hfr
    rcases List.mem_append.1 hfr with h | h
    · exact hfa fr h
    · exact hfb fr h
  rcases (mkSequence_agree_eq (fa ++ fb) (ea ++ eb) (oa ++ ob) (allRel3_append ha hb) hfab).of_ok with
    ⟨e, p1, _⟩ | ⟨sab', st, p1, p5, hst⟩
  · rw [hab] at p1; cases p1
  rw [hab] at p1; cases p1
  refine ⟨st, p5, fun s => ?_⟩
  rw [← hst, ← hsa, ← hsb]
  simp only [stage5, hrun]
  cases sa.run (to1 s) with
  | error e => rfl
  | ok s' =>
    simp only [Except.map, bind, Except.bind, stage5, to1_to5]

end Lena.Bridge.Flow

namespace Lena.Bridge.Flow
open Lena.Flow

/-! ## 9. the `_Fill` chain of `FillSeq` (`FillSeq.__init__`, `_Fill.fill`, `FillInto.fill_into`, `Filter.fill_into`,
`Slice.fill_into`): C02 (`fillChain`) ↔ C05 (`chainSink`/`stageFill`)

C02 keeps the `fill_into` states inside the list of elements and returns what reached the fill/compute
element (`reached v | dropped | stopped`); C05 threads a typed tuple of states and calls the filled
element itself.  Both use `Lena.C17.fillInto` for the index bookkeeping of `Slice.fill_into`.

Common domain: chains of plain callables, `Filter` and non-negative `Slice` (C02's `Count.fill_into` has no
C05 counterpart; C05's `RunIf` through `_run_fill_into` and raising callables have no C02 counterpart), a
filled element whose `fill` returns normally.  After `LenaStopFill` the two models differ in a place that is
never observed: C05 (like the code) leaves `_index` of an outer `Slice` unchanged when an inner element
raises `LenaStopFill`, C02 has already incremented it — the branch is computed and never filled again, so
the agreement after a stop is stated for the accumulator only. -/

variable {σ : Type}

/-- a C02 pre-processing element as a C05 one, on C02's values (`count` is outside the common domain) -/
def pre5 : Lena.C02.PreEl → Lena.C05.Pre Lena.C02.V
  | .map f => .call (fun v => .ok (f.app v))
  | .filter p => .filter (fun v => .ok (p.eval v))
  | .slice stop step _ => .slice 0 stop step
  | .count _ _ => .call (fun v => .ok v)

def pres5 : List Lena.C02.PreEl → List (Lena.C05.Pre Lena.C02.V)
  | [] => []
  | e :: r => pre5 e :: pres5 r

/-- same element (same function / selector / `stop`, `step`), and the `Slice.fill_into` state C05 holds is
the one C02 holds; never a `count` -/
def headRel : Lena.C02.PreEl → Lena.C02.PreEl → Lena.C17.FillState → Prop
  | .map f, .map f0, _ => f = f0
  | .filter p, .filter p0, _ => p = p0
  | .slice stop step _, .slice stop0 step0 fs0, fs => stop = stop0 ∧ step = step0 ∧ fs = fs0
  | _, _, _ => False

/-- the C05 chain state `st` (typed by the list `l` the chain was built from) holds the `fill_into` states
that C02 keeps inside its current list `l0`, and the accumulator state `s` -/
def StRel : (l : List Lena.C02.PreEl) → List Lena.C02.PreEl → Lena.C05.ChainState σ (pres5 l) → σ → Prop
  | [], l0, st, s => l0 = [] ∧ st = s
  | e :: r, l0, st, s =>
    match l0 with
    | [] => False
    | e0 :: r0 =>
      let st' : Lena.C17.FillState × Lena.C05.ChainState σ (pres5 r) := st
      headRel e e0 st'.1 ∧ StRel r r0 st'.2 s

theorem StRel.acc : ∀ (l l0 : List Lena.C02.PreEl) (st : Lena.C05.ChainState σ (pres5 l)) (s : σ),
    StRel l l0 st s → Lena.C05.chainAcc (pres5 l) st = s
  | [], _, _, _, h => h.2
  | _ :: r, [], _, _, h => by simp [StRel] at h
  | _ :: r, _ :: r0, st, s, h => StRel.acc r r0 _ s h.2

/-- what "the same outcome of `seq.fill(v)`" means between the two models (`s` = accumulator state before) -/
def FillAgree (a : Acc σ Lena.C02.V) (l : List Lena.C02.PreEl) (s : σ)
    (r2 : List Lena.C02.PreEl × Lena.C02.FillRes) (r5 : Lena.C05.FillRes (Lena.C05.ChainState σ (pres5 l))) : Prop :=
  match r2.2 with
  | .reached v' => ∀ s', a.fill s v' = .ok s' → ∃ st', r5 = .ok st' ∧ StRel l r2.1 st' s'
  | .dropped => ∃ st', r5 = .ok st' ∧ StRel l r2.1 st' s
  | .stopped => ∃ st', r5 = .stop st' ∧ Lena.C05.chainAcc (pres5 l) st' = s

/-- **one `seq.fill(value)` through the `_Fill` chain**: from related states, C02's `fillChain` and C05's
`chainSink` agree on whether the value reaches the fill/compute element (and as which value), is dropped, or
`LenaStopFill` is raised, and on all states afterwards (after a stop: on the accumulator) -/
theorem fillChain_agree (a : Acc σ Lena.C02.V) : ∀ (l l0 : List Lena.C02.PreEl)
    (st : Lena.C05.ChainState σ (pres5 l)) (s : σ) (v : Lena.C02.V), StRel l l0 st s →
    FillAgree a l s (Lena.C02.fillChain l0 v) ((Lena.C05.chainSink a (pres5 l)).fill st v)
  | [], l0, st, s, v, h => by
    obtain ⟨rfl, rfl⟩ := h
    intro s' hs'
    refine ⟨s', ?_, rfl, rfl⟩
    show (match a.fill st v with
      | .ok s' => Lena.C05.FillRes.ok s'
      | .error e => Lena.C05.FillRes.raise e st) = _
    rw [hs']; rfl
  | e :: r, [], st, s, v, h => by simp [StRel] at h
  | e :: r, e0 :: r0, st, s, v, h => by
    obtain ⟨hh, hr⟩ := h
    have ih := fun w => fillChain_agree a r r0 st.2 s w hr
    cases e with
    | map f =>
      cases e0 with
      | map f0 =>
        have hf : f = f0 := hh
        subst hf
        have ih := ih (f.app v)
        show FillAgree a (.map f :: r) s (Lena.C02.fillChain (.map f :: r0) v)
          (Lena.C05.stageFill (.call (fun v => .ok (f.app v))) (Lena.C05.chainSink a (pres5 r)) (st.1, st.2) v)
        simp only [Lena.C02.fillChain, Lena.C05.stageFill]
        unfold FillAgree at ih ⊢
        cases hq : (Lena.C02.fillChain r0 (f.app v)).2 with
        | reached v' =>
          simp only [hq] at ih ⊢
          intro s' hs'
          obtain ⟨st', h1, h2⟩ := ih s' hs'
          exact ⟨(st.1, st'), by rw [h1]; rfl, rfl, h2⟩
        | dropped =>
          simp only [hq] at ih ⊢
          obtain ⟨st', h1, h2⟩ := ih
          exact ⟨(st.1, st'), by rw [h1]; rfl, rfl, h2⟩
        | stopped =>
          simp only [hq] at ih ⊢
          obtain ⟨st', h1, h2⟩ := ih
          exact ⟨(st.1, st'), by rw [h1]; rfl, h2⟩
      | _ => exact absurd hh (by simp [headRel])
    | filter p =>
      cases e0 with
      | filter p0 =>
        have hp : p = p0 := hh
        subst hp
        have ih := ih v
        show FillAgree a (.filter p :: r) s (Lena.C02.fillChain (.filter p :: r0) v)
          (Lena.C05.stageFill (.filter (fun v => .ok (p.eval v))) (Lena.C05.chainSink a (pres5 r)) (st.1, st.2) v)
        simp only [Lena.C02.fillChain, Lena.C05.stageFill]
        cases hp : p.eval v with
        | false =>
          simp only [Bool.false_eq_true, if_false]
          exact ⟨(st.1, st.2), rfl, rfl, hr⟩
        | true =>
          simp only [if_true]
          unfold FillAgree at ih ⊢
          cases hq : (Lena.C02.fillChain r0 v).2 with
          | reached v' =>
            simp only [hq] at ih ⊢
            intro s' hs'
            obtain ⟨st', h1, h2⟩ := ih s' hs'
            exact ⟨(st.1, st'), by rw [h1]; rfl, rfl, h2⟩
          | dropped =>
            simp only [hq] at ih ⊢
            obtain ⟨st', h1, h2⟩ := ih
            exact ⟨(st.1, st'), by rw [h1]; rfl, rfl, h2⟩
          | stopped =>
            simp only [hq] at ih ⊢
            obtain ⟨st', h1, h2⟩ := ih
            exact ⟨(st.1, st'), by rw [h1]; rfl, h2⟩
      | _ => exact absurd hh (by simp [headRel])
    | slice stop step fsl =>
      cases e0 with
      | slice stop0 step0 fs0 =>
        obtain ⟨h1, h2, h3⟩ : stop = stop0 ∧ step = step0 ∧ st.1 = fs0 := hh
        subst h1 h2
        have ih := ih v
        show FillAgree a (.slice stop step fsl :: r) s (Lena.C02.fillChain (.slice stop step fs0 :: r0) v)
          (Lena.C05.stageFill (.slice 0 stop step) (Lena.C05.chainSink a (pres5 r)) (st.1, st.2) v)
        simp only [Lena.C02.fillChain, Lena.C05.stageFill, h3]
        rcases hfi : Lena.C17.fillInto stop step fs0 with ⟨fs', out⟩
        cases out with
        | stopFill =>
          simp only []
          exact ⟨(fs0, st.2), rfl, StRel.acc r r0 st.2 s hr⟩
        | skipped =>
          simp only []
          exact ⟨(fs', st.2), rfl, ⟨rfl, rfl, rfl⟩, hr⟩
        | filled =>
          simp only []
          unfold FillAgree at ih ⊢
          cases hq : (Lena.C02.fillChain r0 v).2 with
          | reached v' =>
            simp only [hq] at ih ⊢
            intro s' hs'
            obtain ⟨st', h1, h2⟩ := ih s' hs'
            exact ⟨(fs', st'), by rw [h1]; rfl, ⟨rfl, rfl, rfl⟩, h2⟩
          | dropped =>
            simp only [hq] at ih ⊢
            obtain ⟨st', h1, h2⟩ := ih
            exact ⟨(fs', st'), by rw [h1]; rfl, ⟨rfl, rfl, rfl⟩, h2⟩
          | stopped =>
            simp only [hq] at ih ⊢
            obtain ⟨st', h1, h2⟩ := ih
            exact ⟨({ fs' with index := fs0.index }, st'), by rw [h1]; rfl, h2⟩
      | _ => exact absurd hh (by simp [headRel])
    | count n c => cases e0 <;> exact absurd hh (by simp [headRel])

/-- the initial states are related: C05's `chainInit` and C02's list with `fillInit start` in every `Slice` -/
theorem stRel_init (s0 : σ) : ∀ (l : List Lena.C02.PreEl), (∀ e ∈ l, ∃ x, headRel e e x) →
    (∀ stop step fs, Lena.C02.PreEl.slice stop step fs ∈ l → fs = Lena.C17.fillInit 0) →
    StRel l l (Lena.C05.chainInit s0 (pres5 l)) s0
  | [], _, _ => ⟨rfl, rfl⟩
  | e :: r, hne, hsl => by
    refine ⟨?_, stRel_init s0 r (fun e' he' => hne e' (by simp [he'])) (fun a b c hc => hsl a b c (by simp [hc]))⟩
    cases e with
    | map f => rfl
    | filter p => rfl
    | slice stop step fs =>
      have := hsl stop step fs (by simp)
      subst this
      exact ⟨rfl, rfl, rfl⟩
    | count n c =>
      obtain ⟨x, hx⟩ := hne (.count n c) (by simp)
      simp [headRel] at hx

/-- non-vacuity: `FillSeq(x ↦ 2x, Filter(d < 9), Slice(2), acc)`; the third value raises `LenaStopFill` in both -/
example :
    let l : List Lena.C02.PreEl := [.map (.mul 2), .filter (.lt 9), .slice (some 2) 1 (Lena.C17.fillInit 0)]
    let a : Acc (List Int) Lena.C02.V := { init := [], fill := fun s v => .ok (s ++ [v.d]), compute := fun _ => .ok [] }
    StRel l l (Lena.C05.chainInit a.init (pres5 l)) a.init ∧
    (Lena.C02.fillChain l ⟨3, []⟩).2 = .reached ⟨6, []⟩ ∧
    (∃ st, Lena.C05.feedList (Lena.C05.chainSink a (pres5 l)) (Lena.C05.chainInit a.init (pres5 l))
        [⟨3, []⟩, ⟨7, []⟩, ⟨4, []⟩, ⟨1, []⟩] = .stop st ∧ Lena.C05.chainAcc (pres5 l) st = [6, 8]) :=
  ⟨⟨rfl, rfl, ⟨rfl, rfl, rfl⟩, rfl, rfl⟩, rfl, _, rfl, rfl⟩

end Lena.Bridge.Flow

namespace Lena.Bridge.Flow
open Lena.Flow

/-! ## 10. what the executable cross-check (`drivers/BridgeFlow.lean`, `harness/props/bridge_flow.py`) evaluates

For a program over the part of the vocabulary that C01/C05 *and* C02 have (callables `inc`, `neg`, `ident`;
all selectors; `Slice`; `Count`; `RunIf` around stateless elements of these kinds) and a flow of
`(int, {name: int})` pairs, the driver evaluates the C05 transcription (`driveSeq`), the C01 transcription
(`drive1 ∘ specs1`), the C02 machines (`seqRun … take`) and C02's list semantics (`seqDen`) on the C02 program
`stages2`, and the harness demands that all of them equal what the real `Sequence(*args).run(flow)` yields.
`stages2_rel` shows that `stages2` is an instance of the relation `StageRel` the bridge theorems of section 4
are about. -/

/-- the plain callables both vocabularies have -/
def fn2 : Fn → Option Lena.C02.Fn
  | .inc => some (.add 1)
  | .neg => some (.mul (-1))
  | .ident => some .ident
  | _ => none

/-- the selectors (both vocabularies have all five) -/
def pred2 : Pred → Lena.C02.Pred
  | .even => .mod 2 0
  | .pos => .ge 1
  | .lt5 => .lt 5
  | .all => .all
  | .none => .none

theorem fn2_emb (f : Fn) (g : Lena.C02.Fn) (h : fn2 f = some g) (v : Lena.C02.V) :
    f.call (vToValue v) = .ok (vToValue (g.app v)) := by
  cases f <;> simp [fn2] at h <;> subst h
  · exact fn_inc_emb v
  · exact fn_neg_emb v
  · exact fn_ident_emb v

theorem pred2_emb (p : Pred) (v : Lena.C02.V) : p.eval (vToValue v) = .ok ((pred2 p).eval v) := by
  cases p
  · exact pred_even_emb v
  · exact pred_pos_emb v
  · exact pred_lt5_emb v
  · exact pred_all_emb v
  · exact pred_none_emb v

mutual
/-- the C02 stage for an element description, where C02 has one (stateless inner sequence for `RunIf`) -/
def stage2 : Lena.C05.Spec → Option (Lena.C02.Stage Lena.C02.V)
  | .call f =>
    match fn2 f with
    | some g => some (.map g.app)
    | none => none
  | .filter p => some (.filter (pred2 p).eval)
  | .slice a b s =>
    match Lena.C17.mkSlice a b s with
    | .islice a' b' st => some (.islice a' b' st)
    | .negative a' b' st => some (.negslice a' b' st)
    | .valueError => none
  | .count n => some (.count (Lena.C02.markCount n 0))
  | .runIf p inner =>
    -- a `Count` inside a `RunIf` keeps counting from one selected value to the next: not a stateless inner sequence
    if statelessLB inner then
      match stages2 inner with
      | some els => some (.runIf Unit () (pred2 p).eval (fun _ v => (Lena.C02.seqDen els [v], ())))
      | none => none
    else none
  | _ => none
def stages2 : List Lena.C05.Spec → Option (List (Lena.C02.Stage Lena.C02.V))
  | [] => some []
  | s :: ss =>
    match stage2 s, stages2 ss with
    | some e, some es => some (e :: es)
    | _, _ => none
end

mutual
/-- the C01 stream function of the same description (what `Element.den` of `Spec.toElement (spec1 s)` is) -/
def stage1of : Lena.C05.Spec → Lena.C01.Stage Value
  | .call f => fun s => .ok (Lena.C01.mapS f.call s)
  | .filter p => fun s => .ok (Lena.C01.filterS p.eval s)
  | .slice a b st => fun s => .ok (Lena.C01.sliceS (Lena.C17.mkSlice a b st) s)
  | .count n => fun s => .ok (Lena.C01.countS n 0 s)
  | .runIf p inner => fun s => .ok (Lena.C01.runIfS p.eval (Lena.C01.composeS (stages1of inner)) s)
  | _ => fun s => .ok s
def stages1of : List Lena.C05.Spec → List (Lena.C01.Stage Value)
  | [] => []
  | s :: ss => stage1of s :: stages1of ss
end

theorem mkSlice_islice_wf (a b s : Option Int) (a' : Nat) (b' : Option Nat) (st : Nat)
    (h : Lena.C17.mkSlice a b s = .islice a' b' st) : 1 ≤ st := Lena.C05.mkSlice_islice_step a b s a' b' st h

theorem mkSlice_negative_wf (a b s a' b' : Option Int) (st : Nat)
    (h : Lena.C17.mkSlice a b s = .negative a' b' st) : Lena.C17.HasNeg a' b' ∧ 1 ≤ st := by
  obtain ⟨h1, h2, h3⟩ := Lena.C17.mkSlice_negative_hasNeg a b s a' b' st h
  subst h1 h2
  refine ⟨h3, ?_⟩
  unfold Lena.C17.mkSlice at h
  split at h
  · split at h <;> cases h
  · simp only [] at h
    split at h
    · cases h
    · rename_i hst
      simp only [Lena.C17.SliceKind.negative.injEq] at h
      obtain ⟨_, _, rfl⟩ := h
      omega

mutual
/-- the C02 program the cross-check evaluates is related, element by element, to the C01 stream functions —
so `pipeline_den` and `machines_yield_stream_prefix` are about exactly what is executed -/
theorem stage2_rel : ∀ (s : Lena.C05.Spec) (e : Lena.C02.Stage Lena.C02.V), stage2 s = some e →
    StageRel vToValue e (stage1of s)
  | .call f, e, h => by
    simp only [stage2] at h
    cases hf : fn2 f with
    | none => simp [hf] at h
    | some g =>
      simp only [hf, Option.some.injEq] at h
      subst h
      exact .map g.app f.call (fn2_emb f g hf)
  | .filter p, e, h => by
    simp only [stage2, Option.some.injEq] at h
    subst h
    exact .filter _ _ (pred2_emb p)
  | .slice a b s, e, h => by
    simp only [stage2] at h
    cases hk : Lena.C17.mkSlice a b s with
    | valueError => simp [hk] at h
    | islice a' b' st =>
      simp only [hk, Option.some.injEq] at h
      subst h
      simp only [stage1of, hk]
      exact .islice a' b' st (mkSlice_islice_wf a b s a' b' st hk)
    | negative a' b' st =>
      simp only [hk, Option.some.injEq] at h
      subst h
      simp only [stage1of, hk]
      obtain ⟨h1, h2⟩ := mkSlice_negative_wf a b s a' b' st hk
      exact .negslice a' b' st h1 h2
  | .count n, e, h => by
    simp only [stage2, Option.some.injEq] at h
    subst h
    exact .count _ n 0 (markCount_emb n 0)
  | .runIf p inner, e, h => by
    simp only [stage2] at h
    cases hsl : statelessLB inner with
    | false => simp [hsl] at h
    | true =>
    cases hi : stages2 inner with
    | none => simp [hsl, hi] at h
    | some els =>
      simp only [hsl, hi, if_true, Option.some.injEq] at h
      subst h
      have hrel := stages2_rel inner els hi
      refine .runIf Unit () _ _ _ _ (pred2_emb p) ?_
      intro _ v
      have := pipeline_den vToValue els (stages1of inner) hrel [v]
      simp only [List.map_cons, List.map_nil] at this
      rw [this]
      rfl
  | .var _ _, _, h => by simp [stage2] at h
  | .reverse, _, h => by simp [stage2] at h
  | .end_, _, h => by simp [stage2] at h
  | .acc _, _, h => by simp [stage2] at h
  | .syn _ _ _, _, h => by simp [stage2] at h
  | .junk, _, h => by simp [stage2] at h
  | .setContext, _, h => by simp [stage2] at h
  | .runIfBad _, _, h => by simp [stage2] at h
  | .dup, _, h => by simp [stage2] at h
theorem stages2_rel : ∀ (ss : List Lena.C05.Spec) (es : List (Lena.C02.Stage Lena.C02.V)), stages2 ss = some es →
    AllRelU (StageRel vToValue) es (stages1of ss)
  | [], es, h => by
    simp only [stages2, Option.some.injEq] at h
    subst h
    exact .nil
  | s :: ss, es, h => by
    simp only [stages2] at h
    cases h1 : stage2 s with
    | none => simp [h1] at h
    | some e =>
      cases h2 : stages2 ss with
      | none => simp [h1, h2] at h
      | some es' =>
        simp only [h1, h2, Option.some.injEq] at h
        subst h
        exact .cons (stage2_rel s e h1) (stages2_rel ss es' h2)
end

/-- **machines ↔ streams on what the cross-check executes**: for every program that has a C02 counterpart, every
flow of C02 values, sufficient fuel and every `k`: the first `k` values pulled out of the C02 machines are the
first `k` values of the C01 stream functions' composition on the embedded flow, which ends normally and yields
exactly C02's list semantics -/
theorem crosscheck_c02_c01 (args : List Lena.C05.Spec) (els : List (Lena.C02.Stage Lena.C02.V))
    (h : stages2 args = some els) (xs : List Lena.C02.V) (fu : Nat)
    (hfu : Lena.C02.seqFuelOK els (Lena.C02.SF.ofList xs) fu) (k : Nat) :
    Lena.C01.composeS (stages1of args) (.ofList (xs.map vToValue))
      = .ok (.ofList ((Lena.C02.seqDen els xs).map vToValue)) ∧
    ((((Lena.C02.seqRun els (Lena.C02.Pipe.ofList xs)).take fu k).1).map Prod.fst).map vToValue
      = ((Lena.C02.seqDen els xs).map vToValue).take k := by
  have hrel := stages2_rel args els h
  have h1 := pipeline_den vToValue els (stages1of args) hrel xs
  refine ⟨h1, ?_⟩
  have h2 := (machines_yield_stream_prefix vToValue els (stages1of args) hrel xs fu hfu k).1
  rw [h2, h1]
  rfl

/-- what `Sequence.__init__` needs of an element, and its stream function -/
def DenIs (e : Lena.C01.Element Value) (t : Lena.C01.Stage Value) : Prop :=
  e.hasNoData = false ∧ e.convertible = true ∧ e.den = t

theorem denIs_run (e : Lena.C01.Element Value) (t : Lena.C01.Stage Value) (hn : e.hasNoData = false)
    (hr : e.run = .method) (ht : e.runDen = t) : DenIs e t := by
  refine ⟨hn, ?_, ?_⟩
  · simp [Lena.C01.Element.convertible, hr, Lena.C01.Attr.callable]
  · simp [Lena.C01.Element.den, hr, Lena.C01.Attr.callable, ht]

theorem denIs_okAll : ∀ (es : List (Lena.C01.Element Value)) (ts : List (Lena.C01.Stage Value)),
    AllRelU DenIs es ts → Lena.C01.okAll es ∧ (Lena.C01.dataSeq es).map Lena.C01.Element.den = ts
  | _, _, .nil => ⟨Lena.C01.okAll_nil, rfl⟩
  | _, _, .cons (x := e) (y := t) (xs := es) (ys := ts) hd hs => by
    obtain ⟨ih1, ih2⟩ := denIs_okAll es ts hs
    refine ⟨?_, ?_⟩
    · rw [Lena.C01.okAll_cons]
      refine ⟨?_, ih1⟩
      intro e' he' _
      simp at he'; subst he'
      exact hd.2.1
    · have : Lena.C01.dataSeq (e :: es) = e :: Lena.C01.dataSeq es := by simp [Lena.C01.dataSeq, hd.1]
      rw [this, List.map_cons, hd.2.2, ih2]

theorem mkSequence_denIs (es : List (Lena.C01.Element Value)) (ts : List (Lena.C01.Stage Value))
    (h : AllRelU DenIs es ts) : ∃ sq, Lena.C01.mkSequence es = .ok sq ∧ sq.run = Lena.C01.composeS ts := by
  obtain ⟨hok, hmap⟩ := denIs_okAll es ts h
  obtain ⟨sq, h1, h2, _⟩ := Lena.C01.mkSequence_ok es hok
  exact ⟨sq, h1, by rw [h2, Lena.C01.denAll, hmap]⟩

mutual
/-- for a description that has a C02 counterpart, the element C01 builds has the stream function `stage1of` -/
theorem stage2_denIs : ∀ (s : Lena.C05.Spec) (e2 : Lena.C02.Stage Lena.C02.V), stage2 s = some e2 →
    ∃ e, Lena.C01.Spec.toElement (spec1 s) = .ok e ∧ DenIs e (stage1of s)
  | .call f, _, _ => ⟨_, rfl, rfl, rfl, rfl⟩
  | .filter p, _, _ => ⟨_, rfl, denIs_run _ _ rfl rfl rfl⟩
  | .slice a b st, e2, h => by
    simp only [stage2] at h
    simp only [spec1, Lena.C01.Spec.toElement, stage1of]
    cases hk : Lena.C17.mkSlice a b st with
    | valueError => simp [hk] at h
    | islice a' b' st' => exact ⟨_, rfl, denIs_run _ _ rfl rfl rfl⟩
    | negative a' b' st' => exact ⟨_, rfl, denIs_run _ _ rfl rfl rfl⟩
  | .count n, _, _ => ⟨_, rfl, denIs_run _ _ rfl rfl rfl⟩
  | .runIf p inner, e2, h => by
    simp only [stage2] at h
    cases hsl : statelessLB inner with
    | false => simp [hsl] at h
    | true =>
    cases hi : stages2 inner with
    | none => simp [hsl, hi] at h
    | some els =>
      obtain ⟨es, h1, hall⟩ := stages2_denIs inner els hi
      obtain ⟨sq, hm, hrun⟩ := mkSequence_denIs es (stages1of inner) hall
      have hes := specs_histFree inner (statelessLB_sound inner hsl) es h1
      have hrd := (runIfElement_histFree p sq (seq_histFree es sq hes hm)).2
      refine ⟨runIfElement p sq.toElement, ?_, ?_⟩
      · simp only [spec1]
        rw [toElement_runIf p (specs1 inner) (specs1_not_single_seq inner), h1]
        simp [hm, Except.map]
      · refine denIs_run _ _ rfl rfl ?_
        rw [hrd, hrun]
        rfl
  | .var _ _, _, h => by simp [stage2] at h
  | .reverse, _, h => by simp [stage2] at h
  | .end_, _, h => by simp [stage2] at h
  | .acc _, _, h => by simp [stage2] at h
  | .syn _ _ _, _, h => by simp [stage2] at h
  | .junk, _, h => by simp [stage2] at h
  | .setContext, _, h => by simp [stage2] at h
  | .runIfBad _, _, h => by simp [stage2] at h
  | .dup, _, h => by simp [stage2] at h
theorem stages2_denIs : ∀ (ss : List Lena.C05.Spec) (es2 : List (Lena.C02.Stage Lena.C02.V)), stages2 ss = some es2 →
    ∃ es, Lena.C01.Spec.toElements (specs1 ss) = .ok es ∧ AllRelU DenIs es (stages1of ss)
  | [], _, _ => ⟨[], rfl, .nil⟩
  | s :: ss, es2, h => by
    simp only [stages2] at h
    cases h1 : stage2 s with
    | none => simp [h1] at h
    | some e2 =>
      cases h2 : stages2 ss with
      | none => simp [h1, h2] at h
      | some es2' =>
        obtain ⟨e, he, hd⟩ := stage2_denIs s e2 h1
        obtain ⟨es, hes, hds⟩ := stages2_denIs ss es2' h2
        exact ⟨e :: es, by simp [specs1, Lena.C01.Spec.toElements, he, hes], .cons hd hds⟩
end

/-- **what `drivers/C01.lean` computes for such a program is the composition of the stream functions**
(no constructor fails, every element is converted) -/
theorem drive1_stages1of (args : List Lena.C05.Spec) (els : List (Lena.C02.Stage Lena.C02.V))
    (h : stages2 args = some els) (flow : List Value) :
    drive1 (specs1 args) flow
      = .ran (to5 (Lena.C01.observe (Lena.C01.composeS (stages1of args) (.ofList flow)))) := by
  obtain ⟨es, h1, hall⟩ := stages2_denIs args els h
  obtain ⟨sq, hm, hrun⟩ := mkSequence_denIs es (stages1of args) hall
  simp only [drive1, Lena.C01.Spec.toElement, h1, hm, Except.map]
  rw [Lena.C01.toElement_invokeRun, hrun]

/-- **End to end, C01's driver function ↔ C02's machines**: for every program that has a C02 counterpart, every
flow of C02 values (embedded as `(data, context)` pairs), sufficient fuel and every `k`: what `drivers/C01.lean`
computes for `Sequence(*args).run(flow)` ends normally, and its first `k` values are the values a consumer pulls
out of C02's chain of generator machines -/
theorem crosscheck_drive1_c02 (args : List Lena.C05.Spec) (els : List (Lena.C02.Stage Lena.C02.V))
    (h : stages2 args = some els) (xs : List Lena.C02.V) (fu : Nat)
    (hfu : Lena.C02.seqFuelOK els (Lena.C02.SF.ofList xs) fu) (k : Nat) :
    drive1 (specs1 args) (xs.map vToValue) = .ran (.ofList ((Lena.C02.seqDen els xs).map vToValue)) ∧
    ((((Lena.C02.seqRun els (Lena.C02.Pipe.ofList xs)).take fu k).1).map Prod.fst).map vToValue
      = ((Lena.C02.seqDen els xs).map vToValue).take k := by
  obtain ⟨h1, h2⟩ := crosscheck_c02_c01 args els h xs fu hfu k
  refine ⟨?_, h2⟩
  rw [drive1_stages1of args els h, h1]
  rfl

/-- an instance: `Sequence(inc, Filter(even), RunIf(lt5, neg), Slice(-1), Count("n"))` -/
example : ∃ els, stages2 [.call .inc, .filter .even, .runIf .lt5 [.call .neg], .slice none (some (-1)) none,
    .count "n"] = some els ∧
    Lena.C02.seqDen els [⟨1, []⟩, ⟨3, [("a", 5)]⟩, ⟨5, []⟩, ⟨7, []⟩]
      = [⟨-2, []⟩, ⟨-4, [("a", 5)]⟩, ⟨6, [("n", 3)]⟩] :=
  ⟨_, rfl, by decide⟩

end Lena.Bridge.Flow
