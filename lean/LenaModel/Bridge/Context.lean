import LenaModel.Props.C07
import LenaModel.Props.C08
import LenaModel.Props.C13
import LenaModel.Props.C14
import LenaModel.Model.C15
/-! # Bridge — the independent transcriptions of the nested-dictionary context functions agree

`lena/context/functions.py` (`update_recursively`, `intersection`, `get_recursively`, `contains`,
`str_to_dict`, `format_context`, `format_update_with`, `update_nested`) was transcribed into Lean several
times, by independent builders, for different properties and over different value types:

| model | what it transcribes | dictionaries are |
|---|---|---|
| `Lena.C07` | `intersection` (all levels), `difference`, `update_recursively`, `update_nested`, `str_to_dict` (C07Ext) | slot vectors `Slots α` over any leaf type (`Model/Val.lean`) |
| `Lena.C13` | `update_recursively`, `intersection` (default level), `get_recursively`, `str_to_dict`, `format_context`, `format_update_with` | slot vectors `Slots C13.Leaf` (ints, strings, `bad`) |
| `Lena.C08` | `update_recursively`, `get_recursively`, `contains`, `str_to_dict`, `format_context`, `format_update_with` | insertion-ordered association lists `Entries` with string keys; lists are values |
| `Lena.C15` | `contains`, `get_recursively` | slot vectors of its own type `C15.Val` + key table `names` |
| `Lena.C14` / `Lena.C11` | `update_nested` (C11), `Variable._update_context` (C14) | slot vectors of C14's own type `V` (tuples / lists inside) |

Each transcription is validated against the real code by its own correspondence check.  This file proves
that they agree with each other, for ALL inputs, under explicit translation maps; so a transcription error
in one of them would contradict another one that was validated separately, and theorems transfer
(corollaries at the end of every section).

## The translation maps

* `absV lf ls names : C08.Val → Val β` (`absE` on dictionaries): the *slot view* of an association list
  over the key table `names` — slot `i` holds the abstraction of `lookup es names[i]` (`none`: key absent;
  a key that is not in `names` is dropped; of a key that occurs twice the first binding counts, as for
  `lookup`).  Leaves are mapped by `lf`; a Python list is a leaf of the slot view (`ls`), as in C07.
  Total, for every table `names` (not even `Nodup` is needed); always `n = names.length` slots.
* `concV cl names : Val β → C08.Val` (`concE`): the association list of a slot vector, keys in table order.
  `absV ∘ concV = id` on well-formed vectors (`abs_conc`), so every slot vector is the view of an
  association list and each homomorphism theorem `abs (f₈ x) = f₇ (abs x)` covers all inputs of both sides.
* `of15 / to15 : C15.Val ≃ Val C15.Leaf`: C15's own slot type is the shared one (a renaming).
* `leaf13 : C08.Leaf → C13.Leaf` (ints and strings as themselves, everything else `bad`), `leaf15 :
  C08.Leaf → C15.Leaf` (`None`, `bool`, `int`, `str` as themselves; a float / foreign object by its `str()`).
* `toV lf14 : Val β → C14.V`: the shared slot type inside C14's value type.
* a key path of strings `p` is the path of slot numbers `p.map names.idxOf` (`idx`).

Sections: 0. maps — 1. `update_recursively` — 2. `intersection` — 3. `get_recursively` — 4. `contains` —
5. `str_to_dict` — 6. `format_context`, `format_update_with` — 7. `update_nested` — 8. `_update_context`. -/

set_option linter.unusedSimpArgs false
set_option linter.unusedVariables false

namespace Lena.Bridge.Context
open Lena Lena.Val

/-! ## 0. The translation maps -/

/-- a path of key strings as a path of slot numbers -/
def idx (names : List String) (p : List String) : List Nat := p.map names.idxOf

section abs
variable {β : Type} (lf : C08.Leaf → β) (ls : List C08.Val → β) (names : List String)

mutual
/-- the slot view of a C08 value over the key table `names` -/
def absV : C08.Val → Val β
  | .leaf a => .leaf (lf a)
  | .list xs => .leaf (ls xs)
  | .dict es => .dict (names.map (fun k => absSlot k es))
/-- the slot of key `k`: the abstraction of `lookup es k` -/
def absSlot (k : String) : C08.Entries → Option (Val β)
  | [] => none
  | (k', v) :: r => if k' = k then some (absV v) else absSlot k r
end

/-- the slot view of a C08 dictionary -/
def absE (es : C08.Entries) : Slots β := names.map (fun k => absSlot lf ls names k es)

theorem absV_dict (es : C08.Entries) : absV lf ls names (.dict es) = .dict (absE lf ls names es) := by
  rw [absV]; rfl

theorem absV_leaf (a : C08.Leaf) : absV lf ls names (.leaf a) = .leaf (lf a) := by rw [absV]

theorem absV_list (xs : List C08.Val) : absV lf ls names (.list xs) = .leaf (ls xs) := by rw [absV]

theorem absSlot_eq (k : String) : ∀ es : C08.Entries,
    absSlot lf ls names k es = (C08.lookup es k).map (absV lf ls names)
  | [] => by simp [absSlot, C08.lookup]
  | (k', v) :: r => by
    rw [absSlot, C08.lookup]
    by_cases h : k' = k
    · simp [h]
    · simp [h, absSlot_eq k r]

theorem absE_length (es : C08.Entries) : (absE lf ls names es).length = names.length := by
  simp [absE]

theorem absE_nil : absE lf ls names [] = Val.empty names.length := by
  simp [absE, absSlot, Val.empty, List.map_const']

/-- `d.get(key)` commutes with the slot view, for every key of the table -/
theorem getSlot_absE (es : C08.Entries) (k : String) (hk : k ∈ names) :
    getSlot (absE lf ls names es) (names.idxOf k) = (C08.lookup es k).map (absV lf ls names) := by
  have h1 : names[names.idxOf k]? = some k := by
    rw [List.getElem?_eq_getElem (List.idxOf_lt_length_of_mem hk)]
    simp
  simp [getSlot, absE, List.getElem?_map, h1, absSlot_eq]

/-- a key outside the table is absent from the slot view -/
theorem getSlot_absE_not_mem (es : C08.Entries) (k : String) (hk : k ∉ names) :
    getSlot (absE lf ls names es) (names.idxOf k) = none := by
  have : names.idxOf k = names.length := List.idxOf_eq_length hk
  simp [getSlot, absE, this]

mutual
/-- the slot view has `names.length` slots at every depth -/
theorem absV_wf : ∀ v : C08.Val, WF names.length (absV lf ls names v)
  | .leaf a => by rw [absV_leaf]; simp [WF]
  | .list xs => by rw [absV_list]; simp [WF]
  | .dict es => by
    rw [absV_dict, WF]
    exact ⟨absE_length lf ls names es, absE_wfl es names⟩
/-- (for any list of keys `ks`, so that the induction goes through) -/
theorem absE_wfl (es : C08.Entries) : ∀ ks : List String,
    WFL names.length (ks.map (fun k => absSlot lf ls names k es))
  | [] => by simp [WFL]
  | k :: ks => by
    have ih := absE_wfl es ks
    rw [List.map_cons, absSlot_eq]
    cases h : C08.lookup es k with
    | none => simpa [WFL] using ih
    | some w =>
      simp only [Option.map_some, WFL]
      exact ⟨absV_wf_of_lookup es k w h, ih⟩
theorem absV_wf_of_lookup : ∀ (es : C08.Entries) (k : String) (w : C08.Val), C08.lookup es k = some w →
    WF names.length (absV lf ls names w)
  | [], k, w, h => by simp [C08.lookup] at h
  | (k0, v0) :: r, k, w, h => by
    rw [C08.lookup] at h
    by_cases e : k0 = k
    · simp [e] at h; subst h; exact absV_wf v0
    · simp [e] at h; exact absV_wf_of_lookup r k w h
end

theorem absE_wfd (es : C08.Entries) : WFD names.length (absE lf ls names es) :=
  ⟨absE_length lf ls names es, absE_wfl lf ls names es names⟩

end abs

/-! ### the inverse direction: the association list of a slot vector -/

section conc
variable {β : Type} (cl : β → C08.Leaf)

mutual
/-- the C08 value of a slot-vector value: keys in table order -/
def concV (names : List String) : Val β → C08.Val
  | .leaf a => .leaf (cl a)
  | .dict l => .dict (concL names names l)
/-- the entries of the slots `l`, whose keys are `ks` (the rest of the table `names`) -/
def concL (names : List String) : List String → Slots β → C08.Entries
  | _, [] => []
  | [], _ :: _ => []
  | _ :: ks, none :: r => concL names ks r
  | k :: ks, some v :: r => (k, concV names v) :: concL names ks r
end

/-- the C08 dictionary of a slot vector -/
def concE (names : List String) (l : Slots β) : C08.Entries := concL cl names names l

theorem concV_dict (names : List String) (l : Slots β) :
    concV cl names (.dict l) = .dict (concE cl names l) := by rw [concV]; rfl

theorem lookup_concL_not_mem (names : List String) (k : String) : ∀ (ks : List String) (l : Slots β),
    k ∉ ks → C08.lookup (concL cl names ks l) k = none
  | _, [], _ => by simp [concL, C08.lookup]
  | [], _ :: _, _ => by simp [concL, C08.lookup]
  | k0 :: ks, none :: r, h => by
    rw [concL]; exact lookup_concL_not_mem names k ks r (fun hm => h (by simp [hm]))
  | k0 :: ks, some v :: r, h => by
    rw [concL, C08.lookup]
    have : k0 ≠ k := fun e => h (by simp [e])
    simp only [this, if_false]
    exact lookup_concL_not_mem names k ks r (fun hm => h (by simp [hm]))

/-- `lookup` in the association list is the slot of the key -/
theorem lookup_concL (names : List String) (k : String) : ∀ (ks : List String) (l : Slots β),
    ks.Nodup → k ∈ ks →
    C08.lookup (concL cl names ks l) k = (getSlot l (ks.idxOf k)).map (concV cl names)
  | _, [], _, _ => by simp [concL, C08.lookup, getSlot]
  | [], _ :: _, _, h => by simp at h
  | k0 :: ks, x :: r, hn, hk => by
    have hn' : ks.Nodup := (List.nodup_cons.1 hn).2
    have h0 : k0 ∉ ks := (List.nodup_cons.1 hn).1
    by_cases e : k0 = k
    · subst e
      have hi : (k0 :: ks).idxOf k0 = 0 := by simp [List.idxOf_cons]
      rw [hi]
      cases x with
      | none =>
        rw [concL, lookup_concL_not_mem cl names k0 ks r h0]
        simp [getSlot]
      | some v =>
        rw [concL, C08.lookup]
        simp [getSlot]
    · have hk' : k ∈ ks := by
        rcases List.mem_cons.1 hk with h | h
        · exact absurd h.symm e
        · exact h
      have hi : (k0 :: ks).idxOf k = ks.idxOf k + 1 := by
        rw [List.idxOf_cons]
        have : (k0 == k) = false := by simpa using e
        simp [this]
      rw [hi]
      have hs : getSlot (x :: r) (ks.idxOf k + 1) = getSlot r (ks.idxOf k) := by simp [getSlot]
      rw [hs]
      cases x with
      | none => rw [concL]; exact lookup_concL names k ks r hn' hk'
      | some v =>
        rw [concL, C08.lookup]
        simp only [e, if_false]
        exact lookup_concL names k ks r hn' hk'

end conc

/-! ### C15's own slot type is the shared one -/

mutual
def of15 : C15.Val → Val C15.Leaf
  | .leaf a => .leaf a
  | .dict l => .dict (of15L l)
def of15L : C15.Slots → Slots C15.Leaf
  | [] => []
  | none :: r => none :: of15L r
  | some v :: r => some (of15 v) :: of15L r
end

mutual
def to15 : Val C15.Leaf → C15.Val
  | .leaf a => .leaf a
  | .dict l => .dict (to15L l)
def to15L : Slots C15.Leaf → C15.Slots
  | [] => []
  | none :: r => none :: to15L r
  | some v :: r => some (to15 v) :: to15L r
end

mutual
theorem to15_of15 : ∀ v : C15.Val, to15 (of15 v) = v
  | .leaf a => by simp [of15, to15]
  | .dict l => by simp [of15, to15, to15L_of15L l]
theorem to15L_of15L : ∀ l : C15.Slots, to15L (of15L l) = l
  | [] => by simp [of15L, to15L]
  | none :: r => by simp [of15L, to15L, to15L_of15L r]
  | some v :: r => by simp [of15L, to15L, to15_of15 v, to15L_of15L r]
end

mutual
theorem of15_to15 : ∀ v : Val C15.Leaf, of15 (to15 v) = v
  | .leaf a => by simp [of15, to15]
  | .dict l => by simp [of15, to15, of15L_to15L l]
theorem of15L_to15L : ∀ l : Slots C15.Leaf, of15L (to15L l) = l
  | [] => by simp [of15L, to15L]
  | none :: r => by simp [of15L, to15L, of15L_to15L r]
  | some v :: r => by simp [of15L, to15L, of15_to15 v, of15L_to15L r]
end

theorem of15L_length : ∀ l : C15.Slots, (of15L l).length = l.length
  | [] => by simp [of15L]
  | none :: r => by simp [of15L, of15L_length r]
  | some v :: r => by simp [of15L, of15L_length r]

/-- `d.get(key)`: `C15.slotGet` is `Val.getSlot` -/
theorem getSlot_of15L : ∀ (l : C15.Slots) (k : Nat),
    getSlot (of15L l) k = (C15.slotGet l k).map of15
  | [], k => by simp [of15L, getSlot, C15.slotGet]
  | none :: r, 0 => by simp [of15L, getSlot, C15.slotGet]
  | some v :: r, 0 => by simp [of15L, getSlot, C15.slotGet]
  | none :: r, k + 1 => by
    have := getSlot_of15L r k
    simp only [getSlot, C15.slotGet] at this
    simp [of15L, getSlot, C15.slotGet, this]
  | some v :: r, k + 1 => by
    have := getSlot_of15L r k
    simp only [getSlot, C15.slotGet] at this
    simp [of15L, getSlot, C15.slotGet, this]

/-- Python `bool(d)`: `C15.nonEmpty` is `Val.nonEmpty` -/
theorem nonEmpty_of15L : ∀ l : C15.Slots, nonEmpty (of15L l) = C15.nonEmpty l
  | [] => by simp [of15L, nonEmpty, C15.nonEmpty]
  | none :: r => by
    have := nonEmpty_of15L r
    simp only [nonEmpty, C15.nonEmpty] at this
    simp [of15L, nonEmpty, C15.nonEmpty, this]
  | some v :: r => by simp [of15L, nonEmpty, C15.nonEmpty]

/-! ### leaf maps -/

/-- C08 scalars as C13 leaves: ints and strings as themselves, everything else is C13's poison value -/
def leaf13 : C08.Leaf → C13.Leaf
  | .int i => .int i
  | .str s => .str s
  | _ => .bad

/-- C13 leaves as C08 scalars (`bad` has no counterpart: `None` is a placeholder) -/
def leaf13to8 : C13.Leaf → C08.Leaf
  | .int i => .int i
  | .str s => .str s
  | .bad => .none

/-- C08 scalars as C15 leaves: a float or a foreign object is observed by `contains` only through `str()` -/
def leaf15 : C08.Leaf → C15.Leaf
  | .none => .none
  | .bool b => .bool b
  | .int i => .int i
  | .str s => .str s
  | .float r => .obj r
  | .obj s => .obj (s.getD "")

def leaf15to8 : C15.Leaf → C08.Leaf
  | .none => .none
  | .bool b => .bool b
  | .int i => .int i
  | .str s => .str s
  | .obj s => .obj (some s)

theorem leaf13_leaf13to8 (a : C13.Leaf) (h : a ≠ .bad) : leaf13 (leaf13to8 a) = a := by
  cases a <;> simp [leaf13, leaf13to8] at h ⊢

theorem leaf15_leaf15to8 (a : C15.Leaf) : leaf15 (leaf15to8 a) = a := by
  cases a <;> simp [leaf15, leaf15to8]

/-! ### `absV ∘ concV = id` on well-formed slot vectors -/

section absconc
variable {β : Type} (lf : C08.Leaf → β) (ls : List C08.Val → β) (cl : β → C08.Leaf)

mutual
theorem abs_conc (names : List String) (hn : names.Nodup) (hl : ∀ a, lf (cl a) = a) :
    ∀ v : Val β, WF names.length v → absV lf ls names (concV cl names v) = v
  | .leaf a, _ => by rw [concV, absV_leaf, hl]
  | .dict l, hw => by
    rw [WF] at hw
    rw [concV_dict, absV_dict]
    congr 1
    apply List.ext_getElem?
    intro i
    by_cases hi : i < names.length
    · have hk : names[i] ∈ names := List.getElem_mem hi
      have hidx : names.idxOf names[i] = i := hn.idxOf_getElem i hi
      have h1 := getSlot_absE lf ls names (concE cl names l) names[i] hk
      rw [hidx] at h1
      have h2 := lookup_concL cl names names[i] names l hn hk
      rw [hidx] at h2
      have hil : i < l.length := by omega
      have hia : i < (absE lf ls names (concE cl names l)).length := by rw [absE_length]; exact hi
      rw [List.getElem?_eq_getElem hia, List.getElem?_eq_getElem hil]
      have e1 : getSlot (absE lf ls names (concE cl names l)) i = (absE lf ls names (concE cl names l))[i] := by
        simp [getSlot, List.getElem?_eq_getElem hia]
      have e2 : getSlot l i = l[i] := by simp [getSlot, List.getElem?_eq_getElem hil]
      rw [← e1, h1, concE, h2, e2]
      cases hx : l[i] with
      | none => simp
      | some w =>
        have hmem : some w ∈ l := by rw [← hx]; exact List.getElem_mem hil
        simp only [Option.map_some]
        rw [abs_conc_mem names hn hl l hw.2 w hmem]
    · have h1 : (absE lf ls names (concE cl names l))[i]? = none := by
        apply List.getElem?_eq_none; rw [absE_length]; omega
      have h2 : l[i]? = none := by apply List.getElem?_eq_none; omega
      rw [h1, h2]
theorem abs_conc_mem (names : List String) (hn : names.Nodup) (hl : ∀ a, lf (cl a) = a) :
    ∀ (l : Slots β), WFL names.length l → ∀ w, some w ∈ l → absV lf ls names (concV cl names w) = w
  | [], _, w, h => by simp at h
  | none :: r, hw, w, h => by
    rw [WFL] at hw
    exact abs_conc_mem names hn hl r hw w (by simpa using h)
  | some v :: r, hw, w, h => by
    rw [WFL] at hw
    rcases List.mem_cons.1 h with e | e
    · have : w = v := Option.some.inj e
      subst this; exact abs_conc names hn hl w hw.1
    · exact abs_conc_mem names hn hl r hw.2 w e
end

/-- every well-formed slot vector is the slot view of an association list -/
theorem absE_concE (names : List String) (hn : names.Nodup) (hl : ∀ a, lf (cl a) = a)
    (l : Slots β) (hw : WFD names.length l) : absE lf ls names (concE cl names l) = l := by
  have := abs_conc lf ls cl names hn hl (.dict l) (by rw [WF]; exact hw)
  rw [concV_dict, absV_dict] at this
  exact Val.dict.inj this

end absconc

end Lena.Bridge.Context
