import LenaModel.Props.C07
import LenaModel.Props.C08
import LenaModel.Props.C13
import LenaModel.Props.C14
import LenaModel.Model.C15
import LenaModel.Model.C11
import LenaModel.Model.Flow
/-! # Bridge — the independent transcriptions of the nested-dictionary context functions agree

`lena/context/functions.py` (`update_recursively`, `intersection`, `get_recursively`, `contains`,
`str_to_dict`, `format_context`, `format_update_with`, `update_nested`) was transcribed into Lean several
times, by independent builders, for different properties and over different value types:

| model | what it transcribes | dictionaries are |
|---|---|---|
| `Lena.C07` | `intersection` (all levels), `difference`, `update_recursively`, `update_nested`, `str_to_dict` (C07Ext) | slot vectors `Slots α` over any leaf type (`Model/Val.lean`) |
| `Lena.C13` | `update_recursively`, `intersection` (default level), `get_recursively`, `str_to_dict`, `format_context`, `format_update_with` | slot vectors `Slots C13.Leaf` (ints, strings, `bad`) |
| `Lena.C08` | `update_recursively`, `get_recursively`, `contains`, `str_to_dict`, `format_context`, `format_update_with` | insertion-ordered association lists `Entries` with string keys; lists are values |
| `Lena.C15` | `contains`, `get_recursively` | slot vectors of its own type `C15.Val` + key table `names` |
| `Lena.C14` / `Lena.C11` | `update_nested` (C11), `Variable._update_context` (C14) | slot vectors of C14's own type `V` (tuples / lists inside) |
| `Lena.Flow` (C01, C05) | `Variable._update_context` for untyped variables (`variableCall`) | association lists `Flow.Ctx` |

Each transcription is validated against the real code by its own correspondence check.  This file proves
that they agree with each other, for ALL inputs, under explicit translation maps; so a transcription error
in one of them would contradict another one that was validated separately, and theorems transfer
(corollaries at the end of every section).

## The translation maps

* `absV lf ls names : C08.Val → Val β` (`absE` on dictionaries): the *slot view* of an association list
  over the key table `names` — slot `i` holds the abstraction of `lookup es names[i]` (`none`: key absent;
  a key that is not in `names` is dropped; of a key that occurs twice the first binding counts, as for
  `lookup`).  Leaves are mapped by `lf`; a Python list is a leaf of the slot view (`ls`), as in C07.
  Total, for every table `names` (not even `Nodup` is needed); always `n = names.length` slots.
* `concV cl names : Val β → C08.Val` (`concE`): the association list of a slot vector, keys in table order.
  `absV ∘ concV = id` on well-formed vectors (`abs_conc`), so every slot vector is the view of an
  association list and each homomorphism theorem `abs (f₈ x) = f₇ (abs x)` covers all inputs of both sides.
* `of15 / to15 : C15.Val ≃ Val C15.Leaf`: C15's own slot type is the shared one (a renaming).
* `leaf13 : C08.Leaf → C13.Leaf` (ints and strings as themselves, everything else `bad`), `leaf15 :
  C08.Leaf → C15.Leaf` (`None`, `bool`, `int`, `str` as themselves; a float / foreign object by its `str()`).
* `mapLeaf f : Val α → Val γ`: change of leaf type (the functions that never look at a leaf commute with it).
* `toV lv : Val β → C14.V` (`toVL`): the shared slot type inside C14's value type (`lv` must not produce a
  dictionary); `absF names : Flow.Value → C14.V` (`absFE`): the slot view of the association lists of the
  flow vocabulary of C01/C05.
* a key path of strings `p` is the path of slot numbers `idx names p = p.map names.idxOf`; a template with
  string keys `Tpl8` is read by C08 as its template string `Tpl8.str` and by C13 as the parsed `Tpl8.to13`.

The executable cross-check (`drivers/BridgeContext.lean`, `harness/props/bridge_context.py`) imports this file:
the maps that the driver applies to the inputs of the real code are the maps the theorems are about.

Sections: 0. maps — 1. `update_recursively` — 2. `intersection` — 3. `get_recursively` — 4. `contains` —
5. `str_to_dict` — 6. `format_context`, `format_update_with` — 7. `update_nested` — 8. `_update_context` —
9. the slot-vector side is covered too (`absE` is onto).

Not bridged here (other transcriptions of the same functions exist): `C10.getRec`/`updPath` (literal dotted keys
on C10's association lists), `C04.interL1`/`diffL1` (level 1 on C04's contents), `C19.interOut`/`diffOut`/`updOut`
(one flat record), `C09`'s flat `d.update`; `difference` is transcribed in full only by C07. -/

set_option linter.unusedSimpArgs false
set_option linter.unusedVariables false

namespace Lena.Bridge.Context
open Lena Lena.Val

/-! ## 0. The translation maps -/

/-- a path of key strings as a path of slot numbers -/
def idx (names : List String) (p : List String) : List Nat := p.map names.idxOf

section abs
variable {β : Type} (lf : C08.Leaf → β) (ls : List C08.Val → β) (names : List String)

mutual
/-- the slot view of a C08 value over the key table `names` -/
def absV : C08.Val → Val β
  | .leaf a => .leaf (lf a)
  | .list xs => .leaf (ls xs)
  | .dict es => .dict (names.map (fun k => absSlot k es))
/-- the slot of key `k`: the abstraction of `lookup es k` -/
def absSlot (k : String) : C08.Entries → Option (Val β)
  | [] => none
  | (k', v) :: r => if k' = k then some (absV v) else absSlot k r
end

/-- the slot view of a C08 dictionary -/
def absE (es : C08.Entries) : Slots β := names.map (fun k => absSlot lf ls names k es)

theorem absV_dict (es : C08.Entries) : absV lf ls names (.dict es) = .dict (absE lf ls names es) := by
  rw [absV]; rfl

theorem absV_leaf (a : C08.Leaf) : absV lf ls names (.leaf a) = .leaf (lf a) := by rw [absV]

theorem absV_list (xs : List C08.Val) : absV lf ls names (.list xs) = .leaf (ls xs) := by rw [absV]

theorem absSlot_eq (k : String) : ∀ es : C08.Entries,
    absSlot lf ls names k es = (C08.lookup es k).map (absV lf ls names)
  | [] => by simp [absSlot, C08.lookup]
  | (k', v) :: r => by
    rw [absSlot, C08.lookup]
    by_cases h : k' = k
    · simp [h]
    · simp [h, absSlot_eq k r]

theorem absE_length (es : C08.Entries) : (absE lf ls names es).length = names.length := by
  simp [absE]

theorem absE_nil : absE lf ls names [] = Val.empty names.length := by
  simp [absE, absSlot, Val.empty, List.map_const']

/-- `d.get(key)` commutes with the slot view, for every key of the table -/
theorem getSlot_absE (es : C08.Entries) (k : String) (hk : k ∈ names) :
    getSlot (absE lf ls names es) (names.idxOf k) = (C08.lookup es k).map (absV lf ls names) := by
  have h1 : names[names.idxOf k]? = some k := by
    rw [List.getElem?_eq_getElem (List.idxOf_lt_length_of_mem hk)]
    simp
  simp [getSlot, absE, List.getElem?_map, h1, absSlot_eq]

/-- a key outside the table is absent from the slot view -/
theorem getSlot_absE_not_mem (es : C08.Entries) (k : String) (hk : k ∉ names) :
    getSlot (absE lf ls names es) (names.idxOf k) = none := by
  have : names.idxOf k = names.length := List.idxOf_eq_length hk
  simp [getSlot, absE, this]

mutual
/-- the slot view has `names.length` slots at every depth -/
theorem absV_wf : ∀ v : C08.Val, WF names.length (absV lf ls names v)
  | .leaf a => by rw [absV_leaf]; simp [WF]
  | .list xs => by rw [absV_list]; simp [WF]
  | .dict es => by
    rw [absV_dict, WF]
    exact ⟨absE_length lf ls names es, absE_wfl es names⟩
/-- (for any list of keys `ks`, so that the induction goes through) -/
theorem absE_wfl (es : C08.Entries) : ∀ ks : List String,
    WFL names.length (ks.map (fun k => absSlot lf ls names k es))
  | [] => by simp [WFL]
  | k :: ks => by
    have ih := absE_wfl es ks
    rw [List.map_cons, absSlot_eq]
    cases h : C08.lookup es k with
    | none => simpa [WFL] using ih
    | some w =>
      simp only [Option.map_some, WFL]
      exact ⟨absV_wf_of_lookup es k w h, ih⟩
theorem absV_wf_of_lookup : ∀ (es : C08.Entries) (k : String) (w : C08.Val), C08.lookup es k = some w →
    WF names.length (absV lf ls names w)
  | [], k, w, h => by simp [C08.lookup] at h
  | (k0, v0) :: r, k, w, h => by
    rw [C08.lookup] at h
    by_cases e : k0 = k
    · simp [e] at h; subst h; exact absV_wf v0
    · simp [e] at h; exact absV_wf_of_lookup r k w h
end

theorem absE_wfd (es : C08.Entries) : WFD names.length (absE lf ls names es) :=
  ⟨absE_length lf ls names es, absE_wfl lf ls names es names⟩

end abs

/-! ### the inverse direction: the association list of a slot vector -/

section conc
variable {β : Type} (cl : β → C08.Leaf)

mutual
/-- the C08 value of a slot-vector value: keys in table order -/
def concV (names : List String) : Val β → C08.Val
  | .leaf a => .leaf (cl a)
  | .dict l => .dict (concL names names l)
/-- the entries of the slots `l`, whose keys are `ks` (the rest of the table `names`) -/
def concL (names : List String) : List String → Slots β → C08.Entries
  | _, [] => []
  | [], _ :: _ => []
  | _ :: ks, none :: r => concL names ks r
  | k :: ks, some v :: r => (k, concV names v) :: concL names ks r
end

/-- the C08 dictionary of a slot vector -/
def concE (names : List String) (l : Slots β) : C08.Entries := concL cl names names l

theorem concV_dict (names : List String) (l : Slots β) :
    concV cl names (.dict l) = .dict (concE cl names l) := by rw [concV]; rfl

theorem lookup_concL_not_mem (names : List String) (k : String) : ∀ (ks : List String) (l : Slots β),
    k ∉ ks → C08.lookup (concL cl names ks l) k = none
  | _, [], _ => by simp [concL, C08.lookup]
  | [], _ :: _, _ => by simp [concL, C08.lookup]
  | k0 :: ks, none :: r, h => by
    rw [concL]; exact lookup_concL_not_mem names k ks r (fun hm => h (by simp [hm]))
  | k0 :: ks, some v :: r, h => by
    rw [concL, C08.lookup]
    have : k0 ≠ k := fun e => h (by simp [e])
    simp only [this, if_false]
    exact lookup_concL_not_mem names k ks r (fun hm => h (by simp [hm]))

/-- `lookup` in the association list is the slot of the key -/
theorem lookup_concL (names : List String) (k : String) : ∀ (ks : List String) (l : Slots β),
    ks.Nodup → k ∈ ks →
    C08.lookup (concL cl names ks l) k = (getSlot l (ks.idxOf k)).map (concV cl names)
  | _, [], _, _ => by simp [concL, C08.lookup, getSlot]
  | [], _ :: _, _, h => by simp at h
  | k0 :: ks, x :: r, hn, hk => by
    have hn' : ks.Nodup := (List.nodup_cons.1 hn).2
    have h0 : k0 ∉ ks := (List.nodup_cons.1 hn).1
    by_cases e : k0 = k
    · subst e
      have hi : (k0 :: ks).idxOf k0 = 0 := by simp [List.idxOf_cons]
      rw [hi]
      cases x with
      | none =>
        rw [concL, lookup_concL_not_mem cl names k0 ks r h0]
        simp [getSlot]
      | some v =>
        rw [concL, C08.lookup]
        simp [getSlot]
    · have hk' : k ∈ ks := by
        rcases List.mem_cons.1 hk with h | h
        · exact absurd h.symm e
        · exact h
      have hi : (k0 :: ks).idxOf k = ks.idxOf k + 1 := by
        rw [List.idxOf_cons]
        have : (k0 == k) = false := by simpa using e
        simp [this]
      rw [hi]
      have hs : getSlot (x :: r) (ks.idxOf k + 1) = getSlot r (ks.idxOf k) := by simp [getSlot]
      rw [hs]
      cases x with
      | none => rw [concL]; exact lookup_concL names k ks r hn' hk'
      | some v =>
        rw [concL, C08.lookup]
        simp only [e, if_false]
        exact lookup_concL names k ks r hn' hk'

end conc

/-! ### C15's own slot type is the shared one -/

mutual
def of15 : C15.Val → Val C15.Leaf
  | .leaf a => .leaf a
  | .dict l => .dict (of15L l)
def of15L : C15.Slots → Slots C15.Leaf
  | [] => []
  | none :: r => none :: of15L r
  | some v :: r => some (of15 v) :: of15L r
end

mutual
def to15 : Val C15.Leaf → C15.Val
  | .leaf a => .leaf a
  | .dict l => .dict (to15L l)
def to15L : Slots C15.Leaf → C15.Slots
  | [] => []
  | none :: r => none :: to15L r
  | some v :: r => some (to15 v) :: to15L r
end

mutual
theorem to15_of15 : ∀ v : C15.Val, to15 (of15 v) = v
  | .leaf a => by simp [of15, to15]
  | .dict l => by simp [of15, to15, to15L_of15L l]
theorem to15L_of15L : ∀ l : C15.Slots, to15L (of15L l) = l
  | [] => by simp [of15L, to15L]
  | none :: r => by simp [of15L, to15L, to15L_of15L r]
  | some v :: r => by simp [of15L, to15L, to15_of15 v, to15L_of15L r]
end

mutual
theorem of15_to15 : ∀ v : Val C15.Leaf, of15 (to15 v) = v
  | .leaf a => by simp [of15, to15]
  | .dict l => by simp [of15, to15, of15L_to15L l]
theorem of15L_to15L : ∀ l : Slots C15.Leaf, of15L (to15L l) = l
  | [] => by simp [of15L, to15L]
  | none :: r => by simp [of15L, to15L, of15L_to15L r]
  | some v :: r => by simp [of15L, to15L, of15_to15 v, of15L_to15L r]
end

theorem of15L_length : ∀ l : C15.Slots, (of15L l).length = l.length
  | [] => by simp [of15L]
  | none :: r => by simp [of15L, of15L_length r]
  | some v :: r => by simp [of15L, of15L_length r]

/-- `d.get(key)`: `C15.slotGet` is `Val.getSlot` -/
theorem getSlot_of15L : ∀ (l : C15.Slots) (k : Nat),
    getSlot (of15L l) k = (C15.slotGet l k).map of15
  | [], k => by simp [of15L, getSlot, C15.slotGet]
  | none :: r, 0 => by simp [of15L, getSlot, C15.slotGet]
  | some v :: r, 0 => by simp [of15L, getSlot, C15.slotGet]
  | none :: r, k + 1 => by
    have := getSlot_of15L r k
    simp only [getSlot, C15.slotGet] at this
    simp [of15L, getSlot, C15.slotGet, this]
  | some v :: r, k + 1 => by
    have := getSlot_of15L r k
    simp only [getSlot, C15.slotGet] at this
    simp [of15L, getSlot, C15.slotGet, this]

/-- Python `bool(d)`: `C15.nonEmpty` is `Val.nonEmpty` -/
theorem nonEmpty_of15L : ∀ l : C15.Slots, nonEmpty (of15L l) = C15.nonEmpty l
  | [] => by simp [of15L, nonEmpty, C15.nonEmpty]
  | none :: r => by
    have := nonEmpty_of15L r
    simp only [nonEmpty, C15.nonEmpty] at this
    simp [of15L, nonEmpty, C15.nonEmpty, this]
  | some v :: r => by simp [of15L, nonEmpty, C15.nonEmpty]

/-! ### leaf maps -/

/-- C08 scalars as C13 leaves: ints and strings as themselves, everything else is C13's poison value -/
def leaf13 : C08.Leaf → C13.Leaf
  | .int i => .int i
  | .str s => .str s
  | _ => .bad

/-- C13 leaves as C08 scalars (`bad` has no counterpart: `None` is a placeholder) -/
def leaf13to8 : C13.Leaf → C08.Leaf
  | .int i => .int i
  | .str s => .str s
  | .bad => .none

/-- C08 scalars as C15 leaves: a float or a foreign object is observed by `contains` only through `str()` -/
def leaf15 : C08.Leaf → C15.Leaf
  | .none => .none
  | .bool b => .bool b
  | .int i => .int i
  | .str s => .str s
  | .float r => .obj r
  | .obj s => .obj (s.getD "")

def leaf15to8 : C15.Leaf → C08.Leaf
  | .none => .none
  | .bool b => .bool b
  | .int i => .int i
  | .str s => .str s
  | .obj s => .obj (some s)

theorem leaf13_leaf13to8 (a : C13.Leaf) : leaf13 (leaf13to8 a) = a := by
  cases a <;> simp [leaf13, leaf13to8]

theorem leaf15_leaf15to8 (a : C15.Leaf) : leaf15 (leaf15to8 a) = a := by
  cases a <;> simp [leaf15, leaf15to8]

/-! ### `absV ∘ concV = id` on well-formed slot vectors -/

section absconc
variable {β : Type} (lf : C08.Leaf → β) (ls : List C08.Val → β) (cl : β → C08.Leaf)

mutual
theorem abs_conc (names : List String) (hn : names.Nodup) (hl : ∀ a, lf (cl a) = a) :
    ∀ v : Val β, WF names.length v → absV lf ls names (concV cl names v) = v
  | .leaf a, _ => by rw [concV, absV_leaf, hl]
  | .dict l, hw => by
    rw [WF] at hw
    rw [concV_dict, absV_dict]
    congr 1
    apply List.ext_getElem?
    intro i
    by_cases hi : i < names.length
    · have hk : names[i] ∈ names := List.getElem_mem hi
      have hidx : names.idxOf names[i] = i := hn.idxOf_getElem i hi
      have h1 := getSlot_absE lf ls names (concE cl names l) names[i] hk
      rw [hidx] at h1
      have h2 := lookup_concL cl names names[i] names l hn hk
      rw [hidx] at h2
      have hil : i < l.length := by omega
      have hia : i < (absE lf ls names (concE cl names l)).length := by rw [absE_length]; exact hi
      rw [List.getElem?_eq_getElem hia, List.getElem?_eq_getElem hil]
      have e1 : getSlot (absE lf ls names (concE cl names l)) i = (absE lf ls names (concE cl names l))[i] := by
        simp [getSlot, List.getElem?_eq_getElem hia]
      have e2 : getSlot l i = l[i] := by simp [getSlot, List.getElem?_eq_getElem hil]
      rw [← e1, h1, concE, h2, e2]
      cases hx : l[i] with
      | none => simp
      | some w =>
        have hmem : some w ∈ l := by rw [← hx]; exact List.getElem_mem hil
        simp only [Option.map_some]
        rw [abs_conc_mem names hn hl l hw.2 w hmem]
    · have h1 : (absE lf ls names (concE cl names l))[i]? = none := by
        apply List.getElem?_eq_none; rw [absE_length]; omega
      have h2 : l[i]? = none := by apply List.getElem?_eq_none; omega
      rw [h1, h2]
theorem abs_conc_mem (names : List String) (hn : names.Nodup) (hl : ∀ a, lf (cl a) = a) :
    ∀ (l : Slots β), WFL names.length l → ∀ w, some w ∈ l → absV lf ls names (concV cl names w) = w
  | [], _, w, h => by simp at h
  | none :: r, hw, w, h => by
    rw [WFL] at hw
    exact abs_conc_mem names hn hl r hw w (by simpa using h)
  | some v :: r, hw, w, h => by
    rw [WFL] at hw
    rcases List.mem_cons.1 h with e | e
    · have : w = v := Option.some.inj e
      subst this; exact abs_conc names hn hl w hw.1
    · exact abs_conc_mem names hn hl r hw.2 w e
end

/-- every well-formed slot vector is the slot view of an association list -/
theorem absE_concE (names : List String) (hn : names.Nodup) (hl : ∀ a, lf (cl a) = a)
    (l : Slots β) (hw : WFD names.length l) : absE lf ls names (concE cl names l) = l := by
  have := abs_conc lf ls cl names hn hl (.dict l) (by rw [WF]; exact hw)
  rw [concV_dict, absV_dict] at this
  exact Val.dict.inj this

example : absE leaf13 (fun _ => C13.Leaf.bad) ["a", "b"]
      (concE leaf13to8 ["a", "b"] [some (.dict [none, some (.leaf (.int 3))]), some (.leaf (.str "s"))]) =
    [some (.dict [none, some (.leaf (.int 3))]), some (.leaf (.str "s"))] :=
  absE_concE leaf13 _ leaf13to8 ["a", "b"] (by decide) leaf13_leaf13to8 _ (by simp [WFD, WFL, WF])

end absconc


/-! ## 1. `update_recursively(d, other)` (functions.py:601-653)

Lean: `C07.updL` / `C07.updateRecursively` (slot vectors, any leaf type), `C13.updL` (slot vectors over
`C13.Leaf`, the loop body split differently: `updV` per value of `other`), `C08.updRec` /
`C08.updateRecursively` (association lists: the `for key, val in other.items()` loop as a fold of `setKey`). -/

section update

mutual
theorem c13_updV_eq : ∀ (v : C13.V) (d : Option C13.V), C07.updO d (some v) = some (C13.updV d v)
  | .leaf a, d => by cases d <;> simp [C07.updO, C13.updV]
  | .dict y, none => by simp [C07.updO, C13.updV]
  | .dict y, some (.leaf _) => by simp [C07.updO, C13.updV, c13_updL_eq y]
  | .dict y, some (.dict x) => by simp [C07.updO, C13.updV, c13_updL_eq y]
theorem c13_updO_eq : ∀ (u d : Option C13.V), C13.updO d u = C07.updO d u
  | none, d => by cases d <;> simp [C07.updO, C13.updO]
  | some v, d => by rw [C13.updO, c13_updV_eq v d]
theorem c13_updL_eq : ∀ (u d : C13.Ctx), C13.updL d u = C07.updL d u
  | [], d => by simp [C13.updL, C07.updL]
  | y :: r', [] => by simp [C13.updL, C07.updL, c13_updO_eq y, c13_updL_eq r']
  | y :: r', x :: r => by simp [C13.updL, C07.updL, c13_updO_eq y, c13_updL_eq r']
end

/-- **update_recursively, C13 = C07**: C13's transcription is C07's at the leaf type `C13.Leaf` — for all
slot vectors, also of different lengths; no side condition. -/
theorem updL_13_07 (d u : C13.Ctx) : C13.updL d u = C07.updL d u := c13_updL_eq u d

/-- the per-key body: C13's `updO` is C07's -/
theorem updO_13_07 (d u : Option C13.V) : C13.updO d u = C07.updO d u := c13_updO_eq u d

example : C13.updL [some (.leaf (.int 1)), some (.dict [none, some (.leaf (.str "x"))])]
      [none, some (.dict [some (.leaf (.int 2)), none])] =
    [some (.leaf (.int 1)), some (.dict [some (.leaf (.int 2)), some (.leaf (.str "x"))])] := by decide

variable {β : Type}

/-- the pointwise loop of C07 on two vectors indexed by the same table -/
theorem updL_map {ι : Type} (f g : ι → Option (Val β)) : ∀ l : List ι,
    C07.updL (l.map f) (l.map g) = l.map (fun k => C07.updO (f k) (g k))
  | [] => by simp [C07.updL]
  | k :: r => by simp [C07.updL, updL_map f g r]

variable (lf : C08.Leaf → β) (ls : List C08.Val → β) (names : List String)

/-- (auxiliary) the new item under one key, for a value `v` of `other` -/
def UpdOK (v : C08.Val) : Prop := ∀ cur : Option C08.Val,
  some (absV lf ls names (C08.updItem cur v)) =
    C07.updO (cur.map (absV lf ls names)) (some (absV lf ls names v))

theorem absE_updRec_of (o : C08.Entries) (ho : C08.EntriesWF o)
    (hv : ∀ k v, C08.lookup o k = some v → UpdOK lf ls names v) (d : C08.Entries) :
    absE lf ls names (C08.updRec d o) = C07.updL (absE lf ls names d) (absE lf ls names o) := by
  unfold absE
  rw [updL_map]
  apply List.map_congr_left
  intro k _
  rw [absSlot_eq, absSlot_eq, absSlot_eq, C08.lookup_updRec o ho d k]
  cases h : C08.lookup o k with
  | none => cases C08.lookup d k <;> simp [C07.updO]
  | some v => simpa using hv k v h _

mutual
theorem updOK_val : ∀ v : C08.Val, v.WF → UpdOK lf ls names v
  | .leaf a, _ => fun cur => by cases cur <;> simp [C08.updItem, absV_leaf, C07.updO]
  | .list xs, _ => fun cur => by cases cur <;> simp [C08.updItem, absV_list, C07.updO]
  | .dict o, hw => fun cur => by
    have hrec := absE_updRec_of lf ls names o hw (updOK_entries o hw)
    cases cur with
    | none => simp [C08.updItem, absV_dict, C07.updO]
    | some c =>
      cases c with
      | dict dk => simp [C08.updItem, absV_dict, C07.updO, hrec dk]
      | leaf a =>
        simp [C08.updItem, absV_dict, absV_leaf, C07.updO, hrec [], absE_nil, emptyLike, absE_length, Val.empty]
      | list xs =>
        simp [C08.updItem, absV_dict, absV_list, C07.updO, hrec [], absE_nil, emptyLike, absE_length, Val.empty]
theorem updOK_entries : ∀ es : C08.Entries, C08.EntriesWF es →
    ∀ k v, C08.lookup es k = some v → UpdOK lf ls names v
  | [], _, k, v, h => by simp [C08.lookup] at h
  | (k0, v0) :: r, hw, k, v, h => by
    simp only [C08.EntriesWF] at hw
    rw [C08.lookup] at h
    by_cases e : k0 = k
    · simp [e] at h; subst h; exact updOK_val v0 hw.2.1
    · simp [e] at h; exact updOK_entries r hw.2.2 k v h
end

/-- **update_recursively, C08 → C07** (the loop): the slot view of C08's `updRec d other` is C07's `updL` of
the slot views — for every key table `names`, every leaf abstraction, every `d` (duplicate keys allowed)
and every `other` without a key twice (`EntriesWF`, at every depth: what a Python dict is).
Outside the common domain: an `other` with a repeated key (not a Python dict: C08's fold would apply both
bindings in turn, the slot view sees the first only); the *insertion order* of the result, which the slot
view forgets (C08 keeps it: `to_string`, `repr`). -/
theorem updRec_08_07 (d o : C08.Entries) (ho : C08.EntriesWF o) :
    absE lf ls names (C08.updRec d o) = C07.updL (absE lf ls names d) (absE lf ls names o) :=
  absE_updRec_of lf ls names o ho (updOK_entries lf ls names o ho) d

/-- the hypothesis is necessary: for an `other` with a repeated key (not a Python dict) C08's fold applies both
bindings, the slot view sees the first only -/
example : absE leaf13 (fun _ => C13.Leaf.bad) ["a", "x", "y"]
      (C08.updRec [] [("a", .dict [("x", .leaf (.int 1))]), ("a", .dict [("y", .leaf (.int 2))])]) ≠
    C07.updL (absE leaf13 (fun _ => C13.Leaf.bad) ["a", "x", "y"] [])
      (absE leaf13 (fun _ => C13.Leaf.bad) ["a", "x", "y"]
        [("a", .dict [("x", .leaf (.int 1))]), ("a", .dict [("y", .leaf (.int 2))])]) := by decide +kernel

/-- the item assigned under one key (`updItem`, the body of the loop) against C07's `updO` -/
theorem updItem_08_07 (cur : Option C08.Val) (v : C08.Val) (hv : v.WF) :
    some (absV lf ls names (C08.updItem cur v)) =
      C07.updO (cur.map (absV lf ls names)) (some (absV lf ls names v)) :=
  updOK_val lf ls names v hv cur

/-- outcomes of the whole call: C08's `Except Exc Val` against C07's `Out` -/
def outRel : Except C08.Exc C08.Val → C07.Out (Slots β) → Prop
  | .ok (.dict es), .ok l => l = absE lf ls names es
  | .error .lenaTypeError, .lenaTypeError => True
  | _, _ => False

/-- **update_recursively, C08 → C07** (the call with a non-string `other`, no `value`): the same outcome —
the updated dictionary, or `LenaTypeError` when an argument is not a dictionary (a Python list is a leaf of
the slot view).  Outside: `other` a string (section 5), `value` given with a non-string `other`
(`LenaValueError` in C08 and in `C07.updateRecursivelyX`; `C07.updateRecursively` has no `value`). -/
theorem updateRecursively_08_07 (d o : C08.Val) (ho : o.WF) :
    outRel lf ls names (C08.updateRecursively d (.val o) none)
      (C07.updateRecursively (absV lf ls names d) (absV lf ls names o)) := by
  cases d with
  | leaf a => cases o <;> simp [C08.updateRecursively, absV_leaf, absV_list, absV_dict, C07.updateRecursively, outRel]
  | list xs => cases o <;> simp [C08.updateRecursively, absV_leaf, absV_list, absV_dict, C07.updateRecursively, outRel]
  | dict de =>
    cases o with
    | leaf a => simp [C08.updateRecursively, absV_leaf, absV_dict, C07.updateRecursively, outRel]
    | list xs => simp [C08.updateRecursively, absV_list, absV_dict, C07.updateRecursively, outRel]
    | dict oe =>
      simp only [C08.updateRecursively, Option.isSome_none, Bool.false_eq_true, if_false, absV_dict,
        C07.updateRecursively, outRel]
      exact (updRec_08_07 lf ls names de oe ho).symm

/-- C08 → C13: instantiating the leaf abstraction with `leaf13` -/
theorem updRec_08_13 (d o : C08.Entries) (ho : C08.EntriesWF o) :
    absE leaf13 (fun _ => C13.Leaf.bad) names (C08.updRec d o) =
      C13.updL (absE leaf13 (fun _ => .bad) names d) (absE leaf13 (fun _ => .bad) names o) := by
  rw [updL_13_07]; exact updRec_08_07 _ _ names d o ho

example : C08.EntriesWF [("b", .dict [("a", .leaf (.int 2))]), ("c", .leaf (.str "s"))] := by
  simp [C08.EntriesWF, C08.Val.WF, C08.lookup]

example : absE leaf13 (fun _ => C13.Leaf.bad) ["a", "b"]
      (C08.updRec [("b", .leaf (.int 1)), ("a", .leaf (.int 0))] [("b", .dict [("a", .leaf (.int 2))])]) =
    [some (.leaf (.int 0)), some (.dict [some (.leaf (.int 2)), none])] := by decide

/-! ### corollaries: theorems of one model about the transcription of another -/

/-- C07's `update_idem` holds for C13's transcription (used by the static-context protocol when a context is
delivered twice) -/
theorem c13_update_idem (d u : C13.Ctx) : C13.updL (C13.updL d u) u = C13.updL d u := by
  simp only [updL_13_07]; exact C07.update_idem d u

/-- C07's `update_contains` ("other is contained in the result") for C13's transcription -/
theorem c13_update_contains (d u : C13.Ctx) : C07.contained (-1) u (C13.updL d u) = true := by
  rw [updL_13_07]; exact C07.update_contains d u

/-- C13's monotonicity of the update in the information order (`Lemmas/C13Dict.lean`) is a statement about
C07's `updL` at the leaf type `C13.Leaf` -/
theorem c07_updL_mono_13 (u a b : C13.Ctx) (h : C13.leL a b) : C13.leL (C07.updL a u) (C07.updL b u) := by
  rw [← updL_13_07, ← updL_13_07]; exact C13.updL_mono u a b h

/-- C07's `update_idem` for C08's transcription, seen through the slot view (equal up to insertion order) -/
theorem c08_update_idem (d o : C08.Entries) (ho : C08.EntriesWF o) :
    absE lf ls names (C08.updRec (C08.updRec d o) o) = absE lf ls names (C08.updRec d o) := by
  rw [updRec_08_07 lf ls names _ o ho, updRec_08_07 lf ls names d o ho]
  exact C07.update_idem _ _

/-- C07's `update_keys` for C08's transcription: a key is in the result iff it is in `d` or in `other`
(through the slot view over the one-key table `[k]`) -/
theorem c08_update_keys (d o : C08.Entries) (ho : C08.EntriesWF o) (k : String) :
    (C08.lookup (C08.updRec d o) k).isSome = ((C08.lookup d k).isSome || (C08.lookup o k).isSome) := by
  let lf : C08.Leaf → Unit := fun _ => ()
  let ls : List C08.Val → Unit := fun _ => ()
  have hk : k ∈ [k] := by simp
  have h := C07.update_keys (absE lf ls [k] d) (absE lf ls [k] o) ([k].idxOf k)
  rw [← updRec_08_07 lf ls [k] d o ho, getSlot_absE lf ls [k] _ k hk, getSlot_absE lf ls [k] _ k hk,
    getSlot_absE lf ls [k] _ k hk] at h
  simpa using h

end update

/-! ## 2. `intersection(*dicts, level=-1)` (functions.py:341-418)

Lean: `C07.interO/interL/interFold/interN` (every `level`), `C13.interV/interO/interL/interFold/interN`
(the default level only, as `LenaSplit._get_context` calls it).  The default `level = -1` is decremented
at every recursion and never reaches `0` or `1`: the agreement holds for every negative level.
Outside the common domain: levels `≥ 0` (C13 does not model them); non-dictionary arguments
(`C07.intersection` raises `LenaTypeError`, C13's callers pass dictionaries only). -/

section inter

mutual
theorem c13_interV_eq : ∀ (v w : C13.V) (lv : Int), lv < 0 →
    C07.interO lv (some v) (some w) = C13.interV v w
  | .leaf a, w, lv, h => by
    have h1 : lv ≠ 1 := by omega
    by_cases e : w = .leaf a
    · subst e; simp [C07.interO, C13.interV]
    · cases w <;> simp [C07.interO, C13.interV, e, h1]
  | .dict x, w, lv, h => by
    have h1 : lv ≠ 1 := by omega
    have h2 : lv - 1 ≠ 0 := by omega
    by_cases e : w = .dict x
    · subst e; simp [C07.interO, C13.interV]
    · cases w with
      | leaf b => simp [C07.interO, C13.interV, h1]
      | dict y => simp [C07.interO, C13.interV, e, h1, h2, c13_interL_eq x y (lv - 1) (by omega)]
theorem c13_interO_eq : ∀ (a b : Option C13.V) (lv : Int), lv < 0 → C07.interO lv a b = C13.interO a b
  | none, b, lv, _ => by cases b <;> simp [C07.interO, C13.interO]
  | some v, none, lv, _ => by simp [C07.interO, C13.interO]
  | some v, some w, lv, h => by rw [C13.interO, c13_interV_eq v w lv h]
theorem c13_interL_eq : ∀ (a b : C13.Ctx) (lv : Int), lv < 0 → C07.interL lv a b = C13.interL a b
  | [], b, lv, _ => by simp [C07.interL, C13.interL]
  | x :: r, [], lv, h => by simp [C07.interL, C13.interL, c13_interO_eq x none lv h, c13_interL_eq r [] lv h]
  | x :: r, y :: r', lv, h => by
    simp [C07.interL, C13.interL, c13_interO_eq x y lv h, c13_interL_eq r r' lv h]
end

/-- **intersection, C13 = C07** (one pass of the loop `for key in res:` with its recursion): at every
negative level C07's `interL` is C13's, for all slot vectors -/
theorem interL_13_07 (lv : Int) (h : lv < 0) (a b : C13.Ctx) : C07.interL lv a b = C13.interL a b :=
  c13_interL_eq a b lv h

/-- the loop `for d in dicts[1:]:` with its early return -/
theorem interFold_13_07 (lv : Int) (h : lv < 0) : ∀ (ds : List C13.Ctx) (res : C13.Ctx),
    C07.interFold lv res ds = C13.interFold res ds
  | [], res => by simp [C07.interFold, C13.interFold]
  | d :: ds, res => by
    have h0 : lv ≠ 0 := by omega
    rw [C07.interFold, C13.interFold]
    simp only [h0, if_false, interL_13_07 lv h]
    split
    · exact interFold_13_07 lv h ds _
    · rfl

/-- **intersection, C13 = C07** (the whole function on dictionaries): `C13.interN n` is `C07.interN n lv` for
every negative `lv`, in particular for the default `-1` -/
theorem interN_13_07 (n : Nat) (lv : Int) (h : lv < 0) (ds : List C13.Ctx) :
    C07.interN n lv ds = C13.interN n ds := by
  cases ds with
  | nil => rfl
  | cons d ds => exact interFold_13_07 lv h ds d

/-- the call on arbitrary values: for dictionaries C07's `intersection` returns C13's `interN` -/
theorem intersection_13_07 (n : Nat) (ds : List C13.Ctx) :
    C07.intersection n (-1) (ds.map Val.dict) = .ok (C13.interN n ds) := by
  rw [(C07.intersection_error_iff n (-1) (ds.map Val.dict)).2 ds rfl, interN_13_07 n (-1) (by decide)]

example : C13.interN 2 [[some (.leaf (.int 1)), some (.dict [some (.leaf (.int 5)), some (.leaf (.str "x"))])],
      [some (.leaf (.int 1)), some (.dict [some (.leaf (.int 5)), none])]] =
    [some (.leaf (.int 1)), some (.dict [some (.leaf (.int 5)), none])] := by decide

/-- `LenaSplit._get_context` as C07Ext transcribes it is C13's `interN` -/
theorem splitGetContext_13_07 (n : Nat) (ctxs : List C13.Ctx) :
    C07.splitGetContext n ctxs = C13.interN n ctxs :=
  interN_13_07 n (-1) (by decide) ctxs

/-! ### corollaries -/

/-- C07's `inter_perm` for C13: the context a `Split` exports does not depend on the order of its branches -/
theorem c13_inter_perm (n : Nat) (ds ds' : List C13.Ctx) (hp : ds.Perm ds') (hw : ∀ d ∈ ds, WFD n d) :
    C13.interN n ds = C13.interN n ds' := by
  rw [← interN_13_07 n (-1) (by decide), ← interN_13_07 n (-1) (by decide)]
  exact C07.inter_perm n (-1) ds ds' hp hw

example : ∀ d ∈ [[some (Val.leaf (C13.Leaf.int 1)), none], [none, some (.dict [none, none])]], WFD 2 d := by
  intro d hd; simp at hd; rcases hd with rfl | rfl <;> simp [WFD, WFL, WF]

/-- C07's `inter_lower` / `inter_greatest` for C13, in C07's executable containment `⊑` -/
theorem c13_inter_glb (n : Nat) (ds : List C13.Ctx) :
    (∀ d ∈ ds, C07.contained (-1) (C13.interN n ds) d = true) ∧
    (ds ≠ [] → ∀ c : C13.Ctx, (∀ d ∈ ds, C07.contained (-1) c d = true) →
      C07.contained (-1) c (C13.interN n ds) = true) := by
  rw [← interN_13_07 n (-1) (by decide)]
  exact ⟨fun d hd => C07.inter_lower n (-1) ds d hd, fun hne c hc => C07.inter_greatest n (-1) ds c hne hc⟩

/-- C07's reconstruction law (`reconstruct`) with C13's transcriptions of both `intersection` and
`update_recursively`: updating the common part with the difference gives the dictionary back -/
theorem c13_reconstruct (truthy : C13.Leaf → Bool) (n : Nat) (a b : C13.Ctx) :
    C13.updL (C13.interN n [a, b]) (C07.difference truthy (-1) a b) = a := by
  rw [updL_13_07, ← interN_13_07 n (-1) (by decide)]
  exact C07.reconstruct truthy n (-1) a b

/-- C13's greatest-lower-bound property in *its* information order (`interN_is_meet`) is a statement about
C07's `interN` at level −1 -/
theorem c07_interN_is_meet_13 (n : Nat) (xs : List C13.Ctx) (hne : xs ≠ []) :
    (∀ x ∈ xs, C13.leL (C07.interN n (-1) xs) x) ∧
      ∀ y : C13.Ctx, (∀ x ∈ xs, C13.leL y x) → C13.leL y (C07.interN n (-1) xs) := by
  rw [interN_13_07 n (-1) (by decide)]
  exact C13.interN_is_meet n xs hne

end inter

/-! ## 3. `get_recursively(d, keys)` (functions.py:245-338), the walk of lines 319-338

Lean: `C13.getRec` (slot numbers; the error carries the key that is missing), `C15.getRecGo` (key strings +
table), `C08.walk` / `C08.getRec` (association lists; all three notations of `keys`, default), and the
reference notions `Val.getPath` (C07) and `C08.getPath`.  All of them are the path lookup `Val.getPath`.
Outside the common domain: the *name* in C13's `LenaKeyError` (C08 and C15 only say that the key is missing);
C08's normalisation of the three notations and its `default` (C13 takes a list of slot numbers, C15 a string
or a list of strings); a key that is not in the table `names` (absent in every slot view). -/

section get
variable {β : Type}

theorem getPath_nil' (v : Val β) : getPath v [] = some v := by cases v <;> rfl

theorem getPath_dict_cons' (l : Slots β) (i : Nat) (p : List Nat) :
    getPath (.dict l) (i :: p) = (getSlot l i).bind (fun w => getPath w p) := by
  rw [getPath]; cases getSlot l i <;> rfl

/-! ### change of leaf type (the functions that do not look at leaves commute with it) -/

mutual
def mapLeaf {α γ : Type} (f : α → γ) : Val α → Val γ
  | .leaf a => .leaf (f a)
  | .dict l => .dict (mapLeafL f l)
def mapLeafL {α γ : Type} (f : α → γ) : Slots α → Slots γ
  | [] => []
  | none :: r => none :: mapLeafL f r
  | some v :: r => some (mapLeaf f v) :: mapLeafL f r
end

theorem mapLeaf_dict {α γ : Type} (f : α → γ) (l : Slots α) : mapLeaf f (.dict l) = .dict (mapLeafL f l) := by
  rw [mapLeaf]

theorem getSlot_mapLeafL {α γ : Type} (f : α → γ) : ∀ (l : Slots α) (k : Nat),
    getSlot (mapLeafL f l) k = (getSlot l k).map (mapLeaf f)
  | [], k => by simp [mapLeafL, getSlot]
  | none :: r, 0 => by simp [mapLeafL, getSlot]
  | some v :: r, 0 => by simp [mapLeafL, getSlot]
  | none :: r, k + 1 => by
    have := getSlot_mapLeafL f r k
    simp only [getSlot] at this
    simp [mapLeafL, getSlot, this]
  | some v :: r, k + 1 => by
    have := getSlot_mapLeafL f r k
    simp only [getSlot] at this
    simp [mapLeafL, getSlot, this]

/-- the path lookup commutes with a change of leaf type -/
theorem getPath_mapLeaf {α γ : Type} (f : α → γ) : ∀ (p : List Nat) (v : Val α),
    getPath (mapLeaf f v) p = (getPath v p).map (mapLeaf f)
  | [], v => by simp [getPath_nil']
  | k :: p, .leaf a => by simp [mapLeaf, getPath]
  | k :: p, .dict l => by
    rw [mapLeaf_dict, getPath_dict_cons', getPath_dict_cons', getSlot_mapLeafL]
    cases getSlot l k with
    | none => simp
    | some w => simpa using getPath_mapLeaf f p w

theorem mapLeafL_cons {α γ : Type} (f : α → γ) (x : Option (Val α)) (r : Slots α) :
    mapLeafL f (x :: r) = x.map (mapLeaf f) :: mapLeafL f r := by
  cases x <;> simp [mapLeafL]

theorem mapLeafL_length {α γ : Type} (f : α → γ) : ∀ l : Slots α, (mapLeafL f l).length = l.length
  | [] => by simp [mapLeafL]
  | x :: r => by simp [mapLeafL_cons, mapLeafL_length f r]

theorem mapLeafL_replicate {α γ : Type} (f : α → γ) : ∀ n : Nat,
    mapLeafL f (List.replicate n (none : Option (Val α))) = List.replicate n none
  | 0 => by simp [mapLeafL]
  | n + 1 => by simp [List.replicate_succ, mapLeafL_cons, mapLeafL_replicate f n]

mutual
theorem updO_mapLeaf {α γ : Type} (f : α → γ) : ∀ (u d : Option (Val α)),
    C07.updO (d.map (mapLeaf f)) (u.map (mapLeaf f)) = (C07.updO d u).map (mapLeaf f)
  | none, d => by cases d <;> simp [C07.updO]
  | some (.leaf a), d => by cases d <;> simp [C07.updO, mapLeaf]
  | some (.dict y), none => by simp [C07.updO, mapLeaf]
  | some (.dict y), some (.leaf b) => by
    have h := updL_mapLeaf f y (emptyLike y)
    have e : mapLeafL f (emptyLike y) = emptyLike (mapLeafL f y) := by
      simp [emptyLike, mapLeafL_replicate, mapLeafL_length]
    simp [C07.updO, mapLeaf, ← h, e]
  | some (.dict y), some (.dict x) => by simp [C07.updO, mapLeaf, updL_mapLeaf f y x]
/-- `update_recursively` commutes with a change of leaf type (it never looks at a leaf) -/
theorem updL_mapLeaf {α γ : Type} (f : α → γ) : ∀ (u d : Slots α),
    C07.updL (mapLeafL f d) (mapLeafL f u) = mapLeafL f (C07.updL d u)
  | [], d => by simp [mapLeafL, C07.updL]
  | y :: r', [] => by
    have h1 := updO_mapLeaf f y none
    have h2 := updL_mapLeaf f r' []
    simp only [mapLeafL, Option.map_none] at h1 h2
    simp only [mapLeafL_cons, mapLeafL, C07.updL, h1, h2]
  | y :: r', x :: r => by
    have h1 := updO_mapLeaf f y x
    have h2 := updL_mapLeaf f r' r
    simp only [mapLeafL_cons, C07.updL, h1, h2]
end

/-- **get_recursively, C13 = path lookup**: C13's walk succeeds exactly when the path names an item, and
returns it -/
theorem getRec_13_path : ∀ (p : List Nat) (d : C13.Ctx),
    (C13.getRec d p).toOption = getPath (.dict d) p
  | [], d => by simp [C13.getRec, Except.toOption, getPath]
  | [k], d => by
    rw [C13.getRec, getPath_dict_cons']
    cases h : getSlot d k <;> simp [Except.toOption, getPath_nil']
  | k :: k' :: ks, d => by
    rw [C13.getRec, getPath_dict_cons']
    cases h : getSlot d k with
    | none => simp [Except.toOption]
    | some w =>
      cases w with
      | leaf a => simp [Except.toOption, getPath]
      | dict d' => simpa using getRec_13_path (k' :: ks) d'

/-- C07Ext's `get_recursively(c, "output.changed", default)` for a two-part key (`getRec2`, used by its
transcription of `group_plots`) is C13's walk on the two slot numbers -/
theorem getRec2_07_13 (c : C13.Ctx) (o ch : Nat) : C07.getRec2 c o ch = (C13.getRec c [o, ch]).toOption := by
  rw [getRec_13_path]; rfl

/-- when C13's walk fails it names a key of the path (`Props.C13.getRec_error_mem`), and then the path names
nothing -/
theorem getRec_13_error (p : List Nat) (d : C13.Ctx) (k : Nat) (h : C13.getRec d p = .error k) :
    k ∈ p ∧ getPath (.dict d) p = none := by
  refine ⟨C13.getRec_error_mem p d k h, ?_⟩
  rw [← getRec_13_path, h]; rfl

/-- **get_recursively, C15 = path lookup**: C15's walk over key strings is the path lookup of the slot
numbers `names.idxOf` — every table, every list of keys (a key outside the table has the slot number
`names.length`, absent in both) -/
theorem getRecGo_15_path (names : List String) : ∀ (ks : List String) (d : C15.Slots),
    (C15.getRecGo names d ks).map of15 = getPath (.dict (of15L d)) (idx names ks)
  | [], d => by simp [C15.getRecGo, idx, getPath, of15]
  | [k], d => by
    simp only [C15.getRecGo, idx, List.map_cons, List.map_nil, C15.lookupKey]
    rw [getPath_dict_cons', getSlot_of15L]
    cases C15.slotGet d (names.idxOf k) <;> simp [getPath_nil']
  | k :: k' :: ks, d => by
    simp only [C15.getRecGo, idx, List.map_cons, C15.lookupKey]
    rw [getPath_dict_cons', getSlot_of15L]
    cases h : C15.slotGet d (names.idxOf k) with
    | none => simp
    | some w =>
      cases w with
      | leaf a => simp [of15, getPath]
      | dict l =>
        have ih := getRecGo_15_path names (k' :: ks) l
        simp only [idx, List.map_cons] at ih
        simp [of15, ih]

variable (lf : C08.Leaf → β) (ls : List C08.Val → β) (names : List String)

/-- **get_recursively, C08 → path lookup**: the item a key path names in an association list
(`C08.getPath`, which `C08.walk` computes: `Lemmas.C08.walk_eq_getPath`) is, in the slot view, the item at
the path of slot numbers — for every path whose keys are in the table -/
theorem getPath_08_path : ∀ (p : List String) (v : C08.Val), (∀ k ∈ p, k ∈ names) →
    (C08.getPath v p).map (absV lf ls names) = getPath (absV lf ls names v) (idx names p)
  | [], v, _ => by simp [idx, getPath_nil']
  | k :: p, .leaf a, _ => by simp [idx, absV_leaf, getPath]
  | k :: p, .list xs, _ => by simp [idx, absV_list, getPath]
  | k :: p, .dict es, h => by
    have hk : k ∈ names := h k (by simp)
    have ih := fun w => getPath_08_path p w (fun k' hk' => h k' (by simp [hk']))
    rw [absV_dict, C08.getPath_dict_cons]
    simp only [idx, List.map_cons]
    rw [getPath_dict_cons', getSlot_absE lf ls names es k hk]
    cases C08.lookup es k with
    | none => simp
    | some w => simpa [idx] using ih w

/-- `C08.walk` on string keys, in the slot view -/
theorem walk_08_path (p : List String) (es : C08.Entries) (hp : ∀ k ∈ p, k ∈ names) :
    (C08.walk es (p.map C08.Leaf.str)).map (absV lf ls names) =
      getPath (.dict (absE lf ls names es)) (idx names p) := by
  rw [C08.walk_eq_getPath, getPath_08_path lf ls names p (.dict es) hp, absV_dict]

/-- **get_recursively, C08 ↔ C13** (the walk): C13's walk on the slot view succeeds exactly when C08's does,
with the abstraction of the same item -/
theorem walk_08_13 (p : List String) (es : C08.Entries) (hp : ∀ k ∈ p, k ∈ names) :
    (C13.getRec (absE leaf13 (fun _ => C13.Leaf.bad) names es) (idx names p)).toOption =
      (C08.walk es (p.map C08.Leaf.str)).map (absV leaf13 (fun _ => C13.Leaf.bad) names) := by
  rw [getRec_13_path, walk_08_path _ _ names p es hp]

/-- **get_recursively, C08 ↔ C13** (the call without default, any of the three notations that normalises to
the string keys `p`): the same item, or `LenaKeyError` on both sides (C13 naming a key of the path) -/
theorem getRec_08_13 (es : C08.Entries) (key : C08.KeyArg) (p : List String)
    (hk : C08.normKeys key = .ok (p.map C08.Leaf.str)) (hp : ∀ k ∈ p, k ∈ names) :
    match C08.getRec (.dict es) key none with
    | .ok v => C13.getRec (absE leaf13 (fun _ => C13.Leaf.bad) names es) (idx names p) =
        .ok (absV leaf13 (fun _ => C13.Leaf.bad) names v)
    | .error e => e = .lenaKeyError ∧
        ∃ k ∈ idx names p, C13.getRec (absE leaf13 (fun _ => C13.Leaf.bad) names es) (idx names p) = .error k := by
  have h13 := getRec_13_path (idx names p) (absE leaf13 (fun _ => C13.Leaf.bad) names es)
  have h08 := getPath_08_path leaf13 (fun _ => C13.Leaf.bad) names p (.dict es) hp
  rw [absV_dict] at h08
  rw [C08.get_eq_path es key p none hk]
  cases hg : C08.getPath (.dict es) p with
  | some v =>
    simp only
    rw [hg] at h08
    rw [← h08] at h13
    cases hr : C13.getRec (absE leaf13 (fun _ => C13.Leaf.bad) names es) (idx names p) with
    | ok w => rw [hr] at h13; simp [Except.toOption] at h13; rw [h13]
    | error k => rw [hr] at h13; simp [Except.toOption] at h13
  | none =>
    simp only
    rw [hg] at h08
    rw [← h08] at h13
    cases hr : C13.getRec (absE leaf13 (fun _ => C13.Leaf.bad) names es) (idx names p) with
    | ok w => rw [hr] at h13; simp [Except.toOption] at h13
    | error k => exact ⟨by simp, k, C13.getRec_error_mem _ _ k hr, rfl⟩

example : C08.normKeys (.str "a.b") = .ok (["a", "b"].map C08.Leaf.str) ∧ (∀ k ∈ ["a", "b"], k ∈ ["a", "b", "c"]) := by
  refine ⟨by decide, by simp⟩

/-! ### C15's slot view of a C08 dictionary -/

/-- a Python list has no counterpart in C15 (placeholder; lists are outside the common domain) -/
def ls15 : List C08.Val → C15.Leaf := fun xs => .obj ((C08.reprVal (.list xs)).getD "")

/-- the C15 value of a C08 value over the table `names` -/
def abs15 (names : List String) (v : C08.Val) : C15.Val := to15 (absV leaf15 ls15 names v)
def abs15E (names : List String) (es : C08.Entries) : C15.Slots := to15L (absE leaf15 ls15 names es)

theorem abs15_dict (es : C08.Entries) : abs15 names (.dict es) = .dict (abs15E names es) := by
  rw [abs15, absV_dict, to15]; rfl

theorem slotGet_to15L (x : Slots C15.Leaf) (k : Nat) : C15.slotGet (to15L x) k = (getSlot x k).map to15 := by
  have h := getSlot_of15L (to15L x) k
  rw [of15L_to15L] at h
  rw [h]
  cases C15.slotGet (to15L x) k <;> simp [to15_of15]

/-- `d.get(key)`: C15's `lookupKey` on the slot view is C08's `lookup` -/
theorem lookupKey_15_08 (es : C08.Entries) (k : String) (hk : k ∈ names) :
    C15.lookupKey names (abs15E names es) k = (C08.lookup es k).map (abs15 names) := by
  rw [C15.lookupKey, abs15E, slotGet_to15L, getSlot_absE leaf15 ls15 names es k hk]
  cases C08.lookup es k <;> simp [abs15]

/-- **get_recursively, C08 ↔ C15** (the walk): C15's walk on its slot view of an association list finds the
abstraction of what C08's walk finds, and fails when C08's fails -/
theorem getRecGo_15_08 (ks : List String) (es : C08.Entries) (hk : ∀ k ∈ ks, k ∈ names) :
    C15.getRecGo names (abs15E names es) ks = (C08.walk es (ks.map C08.Leaf.str)).map (abs15 names) := by
  have h1 := getRecGo_15_path names ks (abs15E names es)
  rw [abs15E, of15L_to15L, ← walk_08_path leaf15 ls15 names ks es hk] at h1
  have h2 := congrArg (Option.map to15) h1
  have : (to15 ∘ of15) = id := funext to15_of15
  simp only [Option.map_map, this, Option.map_id, id] at h2
  rw [abs15E, h2]; rfl

/-- **get_recursively, C13 ↔ C15** (directly, on slot vectors): C13's walk on the C13-reading of a C15 vector
(leaves translated by any `f`) succeeds exactly when C15's walk does, with the translated item -/
theorem getRec_13_15 (f : C15.Leaf → C13.Leaf) (names : List String) (ks : List String) (d : C15.Slots) :
    (C13.getRec (mapLeafL f (of15L d)) (idx names ks)).toOption =
      (C15.getRecGo names d ks).map (fun v => mapLeaf f (of15 v)) := by
  have h := congrArg (Option.map (mapLeaf f)) (getRecGo_15_path names ks d)
  rw [getRec_13_path, ← mapLeaf_dict, getPath_mapLeaf, ← h, Option.map_map]
  rfl

example : (C15.getRecGo ["a", "b"] (abs15E ["a", "b"] [("b", .dict [("a", .leaf (.int 3))])]) ["b", "a"]).map of15 =
    some (.leaf (.int 3)) := by decide

example : C13.getRec (absE leaf13 (fun _ => C13.Leaf.bad) ["a", "b"] [("b", .dict [("a", .leaf (.int 3))])])
    (idx ["a", "b"] ["b", "a"]) = .ok (.leaf (.int 3)) := by decide

/-! ### corollaries -/

/-- C07's frame law `update_keeps` for C08's transcription of `update_recursively`, read with C08's own
path lookup: a path that `other` leaves alone names the same item (in the slot view) before and after -/
theorem c08_update_keeps (d o : C08.Entries) (ho : C08.EntriesWF o) (p : List String)
    (hp : ∀ k ∈ p, k ∈ names) (h : C07.untouchedL (absE lf ls names o) (idx names p) = true) :
    (C08.getPath (.dict (C08.updRec d o)) p).map (absV lf ls names) =
      (C08.getPath (.dict d) p).map (absV lf ls names) := by
  rw [getPath_08_path lf ls names p _ hp, getPath_08_path lf ls names p _ hp, absV_dict, absV_dict,
    updRec_08_07 lf ls names d o ho]
  exact C07.update_keeps _ _ _ h

example : C07.untouchedL (absE leaf13 (fun _ => C13.Leaf.bad) ["a", "b"] [("a", .dict [("b", .leaf (.int 1))])])
    (idx ["a", "b"] ["a", "a"]) = true := by decide

/-- the same law for C13's transcriptions of `update_recursively` and `get_recursively`: a `SetContext`
whose key path leaves `p` alone does not change what a later formatting string reads at `p` -/
theorem c13_update_keeps (d u : C13.Ctx) (p : List Nat) (h : C07.untouchedL u p = true) :
    (C13.getRec (C13.updL d u) p).toOption = (C13.getRec d p).toOption := by
  rw [getRec_13_path, getRec_13_path, updL_13_07]
  exact C07.update_keeps d u p h

/-- C13's monotonicity of the lookup (`getRec_mono`) for C15's walk is not needed: both are `getPath`; what
transfers is C08's `get_of_str_to_dict`-style reading: C15's walk reads what C08's `update_recursively`
wrote -/
theorem c15_reads_c08_update (d o : C08.Entries) (ho : C08.EntriesWF o) (ks : List String)
    (hk : ∀ k ∈ ks, k ∈ names) :
    (C15.getRecGo names (abs15E names (C08.updRec d o)) ks).map of15 =
      getPath (.dict (C07.updL (absE leaf15 ls15 names d) (absE leaf15 ls15 names o))) (idx names ks) := by
  rw [getRecGo_15_path, abs15E, of15L_to15L, updRec_08_07 leaf15 ls15 names d o ho]

end get

/-! ## 4. `contains(d, s)` (functions.py:14-63)

Lean: `C08.containsGo` / `C08.contains` (association lists; lists, floats and foreign objects as values),
`C15.containsGo` / `C15.contains` (slot vectors of C15's own type + key table).
Common domain (`In15`): dictionaries whose scalars have a `str()` (every C08 scalar but an object whose
`str()` raises) and that hold no Python list (C15 has no list value; C08 compares `repr(list)`), with a
query whose dot-separated parts are keys of the table.  Outside it: exactly those two kinds of values, and
query parts outside the table (then `C15.contains` is `False`, whatever the dictionary holds). -/

section contains

mutual
/-- the values C15 can represent faithfully for `contains`: no list, no scalar whose `str()` raises -/
def In15 : C08.Val → Prop
  | .leaf a => C08.pyStr a ≠ none
  | .list _ => False
  | .dict es => In15E es
def In15E : C08.Entries → Prop
  | [] => True
  | (_, v) :: r => In15 v ∧ In15E r
end

theorem in15_lookup : ∀ (es : C08.Entries) (k : String) (w : C08.Val), In15E es → C08.lookup es k = some w → In15 w
  | [], k, w, _, h => by simp [C08.lookup] at h
  | (k0, v0) :: r, k, w, hi, h => by
    rw [In15E] at hi
    rw [C08.lookup] at h
    by_cases e : k0 = k
    · simp [e] at h; subst h; exact hi.1
    · simp [e] at h; exact in15_lookup r k w hi.2 h

/-- `str(x)` of a scalar: C15's `pyStr` of the translated leaf is C08's -/
theorem pyStr_15_08 (a : C08.Leaf) (s : String) (h : C08.pyStr a = some s) : C15.pyStr (leaf15 a) = s := by
  cases a with
  | none => simp [C08.pyStr] at h; simp [leaf15, C15.pyStr, h]
  | bool b => cases b <;> simp [C08.pyStr] at h <;> simp [leaf15, C15.pyStr, h]
  | int i => simp [C08.pyStr] at h; simp [leaf15, C15.pyStr, h]
  | str t => simp [C08.pyStr] at h; simp [leaf15, C15.pyStr, h]
  | float r => simp [C08.pyStr] at h; simp [leaf15, C15.pyStr, h]
  | obj o => simp [C08.pyStr] at h; simp [leaf15, C15.pyStr, h]

theorem c15_splitDotsC_eq : ∀ cs : List Char, C15.splitDotsC cs = C08.splitDotsC cs
  | [] => rfl
  | c :: cs => by
    rw [C15.splitDotsC, C08.splitDotsC, c15_splitDotsC_eq cs]
    cases C08.splitDotsC cs <;> rfl

/-- `s.split('.')`: the two transcriptions are the same function -/
theorem splitDots_15_08 (s : String) : C15.splitDots s = C08.splitDots s := by
  rw [C15.splitDots, C08.splitDots, c15_splitDotsC_eq]

variable (names : List String)

/-- **contains, C08 ↔ C15** (the loop over the levels): on the common domain C15's loop on its slot view
returns what C08's loop returns -/
theorem containsGo_08_15 : ∀ (levels : List String) (v : C08.Val), In15 v → (∀ k ∈ levels, k ∈ names) →
    C15.containsGo names (abs15 names v) levels = C08.containsGo v levels
  | [], v, _, _ => by cases v <;> simp [C15.containsGo, C08.containsGo]
  | [last], .dict es, _, hk => by
    rw [abs15_dict, C15.containsGo, C08.containsGo, lookupKey_15_08 names es last (hk last (by simp))]
    cases C08.lookup es last <;> simp
  | [last], .leaf a, hi, _ => by
    rw [In15] at hi
    obtain ⟨s, hs⟩ := Option.ne_none_iff_exists'.1 hi
    rw [abs15, absV_leaf, to15, C15.containsGo, C08.containsGo, pyStr_15_08 a s hs, hs]
    by_cases e : s = last <;> simp [e]
  | [last], .list xs, hi, _ => by rw [In15] at hi; exact absurd hi id
  | key :: k2 :: rest, .dict es, hi, hk => by
    rw [In15] at hi
    rw [abs15_dict]
    simp only [C15.containsGo, C08.containsGo]
    rw [lookupKey_15_08 names es key (hk key (by simp))]
    cases h : C08.lookup es key with
    | none => simp
    | some w =>
      simp only [Option.map_some]
      exact containsGo_08_15 (k2 :: rest) w (in15_lookup es key w hi h)
        (fun k hk' => hk k (by simp at hk' ⊢; exact Or.inr hk'))
  | key :: k2 :: rest, .leaf a, _, _ => by
    rw [abs15, absV_leaf, to15]; simp only [C15.containsGo, C08.containsGo]
  | key :: k2 :: rest, .list xs, hi, _ => by rw [In15] at hi; exact absurd hi id

/-- **contains, C08 ↔ C15** (the function): for a dictionary of the common domain and a query whose parts are
keys of the table, `C15.contains` on the slot view is `C08.contains` -/
theorem contains_08_15 (d : C08.Entries) (s : String) (hd : In15E d)
    (hk : ∀ k ∈ C08.splitDots s, k ∈ names) :
    C15.contains names (abs15E names d) s = C08.contains d s := by
  rw [C15.contains, C08.contains, splitDots_15_08]
  by_cases e : s = ""
  · simp [e]
  · simp only [e, if_false]
    have := containsGo_08_15 names (C08.splitDots s) (.dict d) (by rw [In15]; exact hd) hk
    rw [abs15_dict] at this
    exact this

example : In15E [("a", .dict [("b", .leaf (.float "1.5"))]), ("c", .leaf (.bool true))] := by
  simp [In15E, In15, C08.pyStr]

example : C15.contains ["a", "b", "1.5"] (abs15E ["a", "b", "1.5"] [("a", .dict [("b", .leaf (.int 7))])]) "a.b.7" =
    C08.contains [("a", .dict [("b", .leaf (.int 7))])] "a.b.7" := by decide

/-- the hypothesis `In15` is necessary: for an object whose `str()` raises, C08 answers `False` (the exception
is caught), while C15 — which has no such scalar — sees the empty string -/
example : C08.contains [("a", .leaf (.obj none))] "a." = false ∧
    C15.contains ["", "a"] (abs15E ["", "a"] [("a", .leaf (.obj none))]) "a." = true := by decide

/-! ### corollaries -/

/-- C08's characterisation `contains_iff` ("the path names an item, or its last part is `str()` of the scalar
the path before it names") holds for C15's transcription on the slot view -/
theorem c15_contains_iff (d : C08.Entries) (q : List String) (last : String) (hd : In15E d)
    (hw : C08.WFPath (q ++ [last])) (hk : ∀ k ∈ q ++ [last], k ∈ names) :
    C15.contains names (abs15E names d) (C08.joinDots (q ++ [last])) = true ↔
      (C08.getPath (.dict d) (q ++ [last])).isSome = true ∨
        ∃ x, C08.getPath (.dict d) q = some x ∧ x.isDict = false ∧ C08.pyStrVal x = some last := by
  have hs : C08.splitDots (C08.joinDots (q ++ [last])) = q ++ [last] :=
    C08.splitDots_joinDots (q ++ [last]) (by simp) (fun k hk' => (hw k hk').2)
  rw [contains_08_15 names d _ hd (by rw [hs]; exact hk)]
  exact C08.contains_iff d q last hw

/-- `contains(d, "")` is `True` in both (commit e5c725f) -/
theorem contains_empty_08_15 (d : C08.Entries) :
    C15.contains names (abs15E names d) "" = true ∧ C08.contains d "" = true := by
  simp [C15.contains, C08.contains]

end contains

/-! ## 5. `str_to_dict(s, value)` (functions.py:421-471)

Lean: `C08.strToDict` / `nestList` (strings; `Lemmas.C08.nestList_eq`: the one-key-per-level dictionary
`C08.nestPath`), `C13.single n k ks l` (slot numbers, a scalar value), `C07.single` / `C07.chain` /
`C07.strToDict` (`Model/C07Ext.lean`: slot numbers, any value; the split of the string is C08's business).
Outside the common domain: a key that is not in the table (`C07.single` pads the vector, `C13.single` and
the slot view drop the key: the three agree only on keys `< n`); strings with empty or dotted parts are
handled by C08 alone (`WFPath` is what the other two mean by a key path). -/

section strToDict
variable {β : Type}

theorem getElem_eq_getSlot (l : Slots β) (i : Nat) (h : i < l.length) : l[i] = getSlot l i := by
  simp [getSlot, List.getElem?_eq_getElem h]

/-- C07's `{key: v}` (a `setSlot` into the empty vector) as C13 writes it (a map over the slot numbers) -/
theorem single_07_range (n k : Nat) (hk : k < n) (v : Val β) :
    C07.single n k v = (List.range n).map (fun i => if i = k then some v else none) := by
  have hlen : (C07.single n k v).length = n := by
    unfold C07.single
    rw [C07.setSlot_length _ _ _ (by simpa [Val.empty] using hk)]
    simp [Val.empty]
  apply List.ext_getElem
  · simp [hlen]
  · intro i h1 h2
    rw [getElem_eq_getSlot _ _ h1]
    simp only [List.getElem_map, List.getElem_range]
    by_cases e : i = k
    · subst e; simp [C07.getSlot_single_eq]
    · simp [e, C07.getSlot_single_ne n k i v e]

/-- **str_to_dict, C13 = C07**: for keys below `n`, C13's nested one-key dictionaries are C07's chain of
singletons ending in the scalar -/
theorem single_13_07 (n : Nat) : ∀ (ks : List Nat) (k : Nat) (l : C13.Leaf), k < n → (∀ j ∈ ks, j < n) →
    C13.single n k ks l = C07.single n k (C07.chain n ks (.leaf l))
  | [], k, l, hk, _ => by rw [C13.single, C07.chain, single_07_range n k hk]
  | k' :: ks, k, l, hk, h => by
    rw [C13.single, C07.chain, single_07_range n k hk,
      single_13_07 n ks k' l (h k' (by simp)) (fun j hj => h j (by simp [hj]))]

variable (lf : C08.Leaf → β) (ls : List C08.Val → β) (names : List String)

/-- the slot view of a one-key dictionary -/
theorem absE_singleton (hn : names.Nodup) (k : String) (v : C08.Val) :
    absE lf ls names [(k, v)] =
      (List.range names.length).map (fun i => if i = names.idxOf k then some (absV lf ls names v) else none) := by
  apply List.ext_getElem
  · simp [absE]
  · intro i h1 h2
    have hi : i < names.length := by simpa [absE] using h1
    simp only [absE, List.getElem_map, List.getElem_range, absSlot]
    by_cases e : k = names[i]
    · subst e
      simp [hn.idxOf_getElem i hi]
    · have : i ≠ names.idxOf k := by
        intro h
        apply e
        have hlt : names.idxOf k < names.length := by rw [← h]; exact hi
        have := List.getElem_idxOf hlt
        simp only [← h] at this
        exact this.symm
      simp [e, this]

/-- **str_to_dict, C08 → C07**: the slot view of C08's `{k1: {k2: … v}}` is C07's chain of singletons over
the slot numbers of the keys -/
theorem nestPath_08_07 (hn : names.Nodup) : ∀ (p : List String) (v : C08.Val), (∀ k ∈ p, k ∈ names) →
    absV lf ls names (C08.nestPath p v) = C07.chain names.length (idx names p) (absV lf ls names v)
  | [], v, _ => by simp [C08.nestPath, idx, C07.chain]
  | k :: r, v, h => by
    have hk : names.idxOf k < names.length := List.idxOf_lt_length_of_mem (h k (by simp))
    rw [C08.nestPath, absV_dict, absE_singleton lf ls names hn, nestPath_08_07 hn r v (fun k' hk' => h k' (by simp [hk']))]
    simp only [idx, List.map_cons, C07.chain]
    rw [single_07_range _ _ hk]

/-- **str_to_dict, C08 → C13**: the slot view (leaves by `leaf13`) of C08's nested dictionary with a scalar at
the end is `C13.single` — for every key path, in the table or not (a key outside it is dropped on both
sides) -/
theorem nestPath_08_13 (hn : names.Nodup) : ∀ (ks : List String) (k : String) (a : C08.Leaf),
    absE leaf13 (fun _ => C13.Leaf.bad) names [(k, C08.nestPath ks (.leaf a))] =
      C13.single names.length (names.idxOf k) (idx names ks) (leaf13 a)
  | [], k, a => by
    rw [absE_singleton _ _ names hn, C08.nestPath, absV_leaf]
    simp [idx, C13.single]
  | k' :: ks, k, a => by
    rw [absE_singleton _ _ names hn, C08.nestPath, absV_dict, nestPath_08_13 hn ks k' a]
    simp [idx, C13.single]

/-- **str_to_dict, C08 ↔ C13** (the function, as `SetContext("k.ks", a)` calls it): for a proper key path and a
scalar value, C08's `strToDict` returns a dictionary whose slot view is `C13.single` -/
theorem strToDict_08_13 (hn : names.Nodup) (k : String) (ks : List String) (hw : C08.WFPath (k :: ks))
    (a : C08.Leaf) :
    ∃ es, C08.strToDict (C08.joinDots (k :: ks)) (some (.leaf a)) = .ok (.dict es) ∧
      absE leaf13 (fun _ => C13.Leaf.bad) names es =
        C13.single names.length (names.idxOf k) (idx names ks) (leaf13 a) := by
  refine ⟨[(k, C08.nestPath ks (.leaf a))], ?_, nestPath_08_13 names hn ks k a⟩
  unfold C08.strToDict
  rw [if_neg (C08.joinDots_ne_empty _ (by simp) hw)]
  simp only
  rw [C08.splitDots_joinDots _ (by simp) (fun k' hk' => (hw k' hk').2), C08.nestList_eq _ _ (by simp)]
  rfl

/-- outcomes of `str_to_dict` / `update_recursively` with a string: C08's `Except Exc Val` against
C07Ext's `OutX` -/
def outRelX : Except C08.Exc C08.Val → C07.OutX (Slots β) → Prop
  | .ok (.dict es), .ok l => l = absE lf ls names es
  | .error .lenaTypeError, .lenaTypeError => True
  | .error .lenaValueError, .lenaValueError => True
  | _, _ => False

theorem idx_dropLast (p : List String) : (idx names p).dropLast = idx names p.dropLast := by
  simp [idx, List.map_dropLast]

/-- **str_to_dict, C08 ↔ C07** (the function): for EVERY non-empty string `s` whose dot-separated parts
(`C08.splitDots s`, also empty ones) are keys of the table, C08's `strToDict s value` and C07Ext's `strToDict`
on the slot numbers of the parts have the same outcome, with and without `value`: the nested dictionary (in
the slot view), or `LenaValueError` when there is no value and only one part -/
theorem strToDict_08_07 (hn : names.Nodup) (s : String) (hs : s ≠ "")
    (hk : ∀ k ∈ C08.splitDots s, k ∈ names) (value : Option C08.Val) :
    outRelX lf ls names (C08.strToDict s value)
      (C07.strToDict names.length false (idx names (C08.splitDots s))
        (lf (.str ((C08.splitDots s).getLastD ""))) (value.map (absV lf ls names))) := by
  unfold C08.strToDict
  rw [if_neg hs]
  simp only
  generalize hp : C08.splitDots s = p at hk ⊢
  have hne : p ≠ [] := by
    rw [← hp, C08.splitDots]
    simp [C08.splitDotsC_ne_nil]
  obtain ⟨k0, r, rfl⟩ : ∃ k0 r, p = k0 :: r := by
    cases p with
    | nil => exact absurd rfl hne
    | cons a b => exact ⟨a, b, rfl⟩
  have hk0 : names.idxOf k0 < names.length := List.idxOf_lt_length_of_mem (hk k0 (by simp))
  cases value with
  | some v =>
    dsimp only
    rw [C08.nestList_eq _ _ hne]
    simp only [C08.nestPath, C07.strToDict, Bool.false_eq_true, if_false, Option.map_some, idx, List.map_cons, outRelX]
    rw [absE_singleton lf ls names hn, single_07_range _ _ hk0,
      nestPath_08_07 lf ls names hn r v (fun k' hk' => hk k' (by simp [hk']))]
    rfl
  | none =>
    cases r with
    | nil => simp [C08.nestList, C07.strToDict, idx, outRelX]
    | cons k1 r' =>
      dsimp only
      have hne' : (k0 :: k1 :: r').dropLast ≠ [] := by simp [List.dropLast]
      rw [C08.nestList_eq _ _ hne']
      have hd : (k0 :: k1 :: r').dropLast = k0 :: (k1 :: r').dropLast := by simp [List.dropLast]
      rw [hd]
      simp only [C08.nestPath, C07.strToDict, Bool.false_eq_true, if_false, Option.map_none, idx, List.map_cons, outRelX]
      rw [absE_singleton lf ls names hn, single_07_range _ _ hk0]
      have hsub : ∀ k ∈ (k1 :: r').dropLast, k ∈ names := fun k hk' =>
        hk k (by
          have := List.dropLast_subset (k1 :: r') hk'
          simp at this ⊢; exact Or.inr this)
      have := nestPath_08_07 lf ls names hn (k1 :: r').dropLast
        (.leaf (.str ((k0 :: k1 :: r').getLastD ""))) hsub
      rw [this, absV_leaf]
      have e2 := idx_dropLast names (k1 :: r')
      simp only [idx, List.map_cons] at e2
      rw [e2]
      rfl

/-- the same for the string `".".join(p)` of a key path `p` as the other models mean it (`WFPath`: non-empty
keys without dots): the parts are `p` itself -/
theorem strToDict_path_08_07 (hn : names.Nodup) (p : List String) (hne : p ≠ []) (hw : C08.WFPath p)
    (hk : ∀ k ∈ p, k ∈ names) (value : Option C08.Val) :
    outRelX lf ls names (C08.strToDict (C08.joinDots p) value)
      (C07.strToDict names.length false (idx names p) (lf (.str (p.getLastD "")))
        (value.map (absV lf ls names))) := by
  have hsp := C08.splitDots_joinDots _ hne (fun k hk' => (hw k hk').2)
  have := strToDict_08_07 lf ls names hn (C08.joinDots p) (C08.joinDots_ne_empty _ hne hw) (by rw [hsp]; exact hk) value
  rwa [hsp] at this

/-- **str_to_dict, C08 ↔ C07** (the empty string): `{}` without a value, `LenaValueError` with one -/
theorem strToDict_empty_08_07 (ks : List Nat) (last : β) (value : Option C08.Val) :
    outRelX lf ls names (C08.strToDict "" value)
      (C07.strToDict names.length true ks last (value.map (absV lf ls names))) := by
  cases value <;> simp [C08.strToDict, C07.strToDict, outRelX, absE_nil]

/-- **update_recursively with a string, C08 ↔ C07**: `update_recursively(d, s, value)` for every non-empty
string `s` with parts in the table — C08's `updateRecursively` with `UpdOther.str` against C07Ext's
`updateRecursivelyX` with `Other.str` on the slot numbers of the parts: the same outcome (updated dictionary
in the slot view / `LenaValueError` / `LenaTypeError` for a `d` that is not a dictionary), for every value
without a repeated key -/
theorem updateRecursivelyStr_08_07 (hn : names.Nodup) (s : String) (hs : s ≠ "")
    (hk : ∀ k ∈ C08.splitDots s, k ∈ names) (d : C08.Val) (value : Option C08.Val) (hv : ∀ v, value = some v → v.WF) :
    outRelX lf ls names (C08.updateRecursively d (.str s) value)
      (C07.updateRecursivelyX names.length (absV lf ls names d)
        (.str false (idx names (C08.splitDots s)) (lf (.str ((C08.splitDots s).getLastD ""))))
        (value.map (absV lf ls names))) := by
  have h := strToDict_08_07 lf ls names hn s hs hk value
  have hwf : ∀ es, C08.strToDict s value = .ok (.dict es) → C08.EntriesWF es := by
    intro es he
    unfold C08.strToDict at he
    rw [if_neg hs] at he
    simp only at he
    have nestWF : ∀ (q : List String) (x : C08.Val), x.WF → (C08.nestPath q x).WF := by
      intro q
      induction q with
      | nil => intro x hx; simpa [C08.nestPath] using hx
      | cons k q ih => intro x hx; simp [C08.nestPath, C08.Val.WF, C08.EntriesWF, C08.lookup, ih x hx]
    have hne : C08.splitDots s ≠ [] := by rw [C08.splitDots]; simp [C08.splitDotsC_ne_nil]
    cases value with
    | some v =>
      dsimp only at he
      rw [C08.nestList_eq _ _ hne] at he
      have := nestWF (C08.splitDots s) v (hv v rfl)
      rw [Except.ok.injEq] at he
      rw [he] at this; exact this
    | none =>
      dsimp only at he
      by_cases hd : (C08.splitDots s).dropLast = []
      · rw [hd] at he; simp [C08.nestList] at he
      · rw [C08.nestList_eq _ _ hd] at he
        have := nestWF (C08.splitDots s).dropLast (.leaf (.str ((C08.splitDots s).getLastD ""))) (by simp [C08.Val.WF])
        rw [Except.ok.injEq] at he
        rw [he] at this; exact this
  unfold C08.updateRecursively C07.updateRecursivelyX
  simp only
  cases h8 : C08.strToDict s value with
  | error e =>
    rw [h8] at h
    cases h7 : C07.strToDict names.length false (idx names (C08.splitDots s))
        (lf (.str ((C08.splitDots s).getLastD ""))) (value.map (absV lf ls names)) with
    | ok l => rw [h7] at h; cases e <;> simp [outRelX] at h
    | lenaTypeError => rw [h7] at h; cases e <;> simp_all [outRelX]
    | lenaValueError => rw [h7] at h; cases e <;> simp_all [outRelX]
    | typeError => rw [h7] at h; cases e <;> simp [outRelX] at h
  | ok o =>
    rw [h8] at h
    cases o with
    | leaf a => simp [outRelX] at h
    | list xs => simp [outRelX] at h
    | dict oe =>
      cases h7 : C07.strToDict names.length false (idx names (C08.splitDots s))
          (lf (.str ((C08.splitDots s).getLastD ""))) (value.map (absV lf ls names)) with
      | ok l =>
        rw [h7] at h
        simp only [outRelX] at h
        subst h
        cases d with
        | leaf a => simp [absV_leaf, outRelX]
        | list xs => simp [absV_list, outRelX]
        | dict de =>
          simp only [absV_dict, outRelX]
          exact (updRec_08_07 lf ls names de oe (hwf oe h8)).symm
      | lenaTypeError => rw [h7] at h; simp [outRelX] at h
      | lenaValueError => rw [h7] at h; simp [outRelX] at h
      | typeError => rw [h7] at h; simp [outRelX] at h

example : outRelX leaf13 (fun _ => C13.Leaf.bad) ["a", "b"]
    (C08.strToDict (C08.joinDots ["a", "b"]) (some (.leaf (.int 5))))
    (C07.strToDict 2 false [0, 1] (.str "b") (some (.leaf (.int 5)))) := by
  have := strToDict_path_08_07 leaf13 (fun _ => C13.Leaf.bad) ["a", "b"] (by decide) ["a", "b"] (by simp)
    (by intro k hk; simp at hk; rcases hk with rfl | rfl <;> decide) (by simp) (some (.leaf (.int 5)))
  have e : List.idxOf "b" ["a", "b"] = 1 := by decide
  simpa [idx, absV_leaf, leaf13, e] using this

/-! ### corollaries -/

/-- C07Ext's `str_to_dict_value` ("the value sits at the key path") read for C08's `str_to_dict` in the slot
view; C08 proves the same in its own vocabulary (`get_of_str_to_dict`) -/
theorem c08_str_to_dict_value (hn : names.Nodup) (p : List String) (hk : ∀ k ∈ p, k ∈ names) (v : C08.Val) :
    getPath (absV lf ls names (C08.nestPath p v)) (idx names p) = some (absV lf ls names v) := by
  rw [nestPath_08_07 lf ls names hn p v hk]
  exact C07.getPath_chain names.length (idx names p) _

/-- C07Ext's `getPath_chain` for C13's `single`: a formatting string reads back what `SetContext("k.ks", l)`
wrote -/
theorem c13_single_read (n k : Nat) (ks : List Nat) (l : C13.Leaf) (hk : k < n) (h : ∀ j ∈ ks, j < n) :
    C13.getRec (C13.single n k ks l) (k :: ks) = .ok (.leaf l) := by
  have h1 := getRec_13_path (k :: ks) (C13.single n k ks l)
  rw [single_13_07 n ks k l hk h] at h1 ⊢
  have h2 : getPath (.dict (C07.single n k (C07.chain n ks (.leaf l)))) (k :: ks) = some (.leaf l) := by
    have := C07.getPath_chain n (k :: ks) (Val.leaf l)
    rwa [C07.chain] at this
  rw [h2] at h1
  cases hr : C13.getRec (C07.single n k (C07.chain n ks (.leaf l))) (k :: ks) with
  | ok w => rw [hr] at h1; simp [Except.toOption] at h1; rw [h1]
  | error e => rw [hr] at h1; simp [Except.toOption] at h1

end strToDict

/-! ## 6. `format_context(format_str)(d)` and `format_update_with(key, value, d)` (functions.py:111-239)

Lean: `C08.formatInit` (the scanner over the characters of the template) + `C08.formatCall` (look up every
field with `get_recursively`, `str()` the items, `str.format`), `C08.formatUpdateWith`; `C13.fmt` on a
template given *parsed* (`Tpl`: literal, then (path, literal) pairs), `C13.fmtUpdate`.
A string-level template `Tpl8` (keys are strings) is read by C08 as its template string
`head{{k1.k2}}lit…` (`Tpl8.str`, scanned by `formatInit`) and by C13 as the parsed `Tpl` over slot numbers.
Common domain: brace-free literals, key paths of non-empty keys without `. { } ! :` that are in the table
(`Tpl8.WF`, i.e. `C08.Piece.WF`), and fields that name ints or strings (`ScalarFields`).
Outside it: a field that names a dictionary, a list, `None`, a bool, a float or a foreign object — C13 answers
with its poison leaf `bad`, C08 with Python's `str()` of the item (or `unmodelled`); conversions and format
specifications (`{{x!r}}`, `{{x:>5}}`), which C08 passes to `pyFormat` and C13 does not parse; which key
C13's `LenaKeyError` names. -/

section format

/-- a template with string keys: the literal before the first field, then (key path, literal after it) -/
structure Tpl8 where
  head : String
  parts : List (List String × String)

/-- C13's reading: the parsed template over slot numbers -/
def Tpl8.to13 (names : List String) (t : Tpl8) : C13.Tpl :=
  ⟨t.head, t.parts.map (fun pl => (idx names pl.1, pl.2))⟩

def partPieces : List (List String × String) → List C08.Piece
  | [] => []
  | (p, lit) :: r => .field p :: .lit lit :: partPieces r

/-- C08's reading: literal and field pieces; `Tpl8.str` is the Python template string -/
def Tpl8.pieces (t : Tpl8) : List C08.Piece := .lit t.head :: partPieces t.parts
def Tpl8.str (t : Tpl8) : String := C08.templateString t.pieces

/-- "template strings built from literals and fields" (`C08.Piece.WF`), keys in the table -/
def Tpl8.WF (names : List String) (t : Tpl8) : Prop :=
  (∀ p ∈ t.pieces, p.WF) ∧ ∀ pl ∈ t.parts, ∀ k ∈ pl.1, k ∈ names

/-- an item both models render the same way: a Python int or str -/
def IsIS : C08.Val → Prop
  | .leaf (.int _) => True
  | .leaf (.str _) => True
  | _ => False

/-- every field that names an item names an int or a string -/
def ScalarFields (es : C08.Entries) (parts : List (List String × String)) : Prop :=
  ∀ pl ∈ parts, ∀ v, C08.getPath (.dict es) pl.1 = some v → IsIS v

/-- `str(item)`: C13's `render` of the slot view is C08's `strSpec` -/
theorem render_13_08 (names : List String) (v : C08.Val) (h : IsIS v) :
    C13.render (absV leaf13 (fun _ => C13.Leaf.bad) names v) = some (C08.strSpec v) := by
  cases v with
  | dict es => simp [IsIS] at h
  | list xs => simp [IsIS] at h
  | leaf a =>
    cases a <;> simp [IsIS] at h <;>
      simp [absV_leaf, leaf13, C13.render, C08.strSpec, C08.pyStrVal, C08.pyStr]

theorem strFields_of_scalar (es : C08.Entries) : ∀ (parts : List (List String × String)),
    ScalarFields es parts → C08.StrFields es (partPieces parts) := by
  intro parts h
  unfold C08.StrFields
  intro p hp v hv
  have : ∃ pl ∈ parts, pl.1 = p := by
    clear h hv
    induction parts with
    | nil => simp [partPieces] at hp
    | cons x r ih =>
      obtain ⟨q, lit⟩ := x
      simp only [partPieces, List.mem_cons, C08.Piece.field.injEq, reduceCtorEq, false_or] at hp
      rcases hp with rfl | hp
      · exact ⟨(p, lit), by simp, rfl⟩
      · obtain ⟨pl, hm, he⟩ := ih hp
        exact ⟨pl, by simp [hm], he⟩
  obtain ⟨pl, hm, rfl⟩ := this
  have hi := h pl hm v hv
  cases v with
  | dict es => simp [IsIS] at hi
  | list xs => simp [IsIS] at hi
  | leaf a => cases a <;> simp [IsIS] at hi <;> simp [C08.pyStrVal, C08.pyStr]

variable (names : List String)

/-- the values of the fields (paired with the literal after each), as C13's `lookups` collects them -/
def vals13 (es : C08.Entries) : List (List String × String) → List (C13.V × String)
  | [] => []
  | (p, lit) :: r =>
    (absV leaf13 (fun _ => C13.Leaf.bad) names ((C08.getPath (.dict es) p).getD (.leaf .none)), lit) :: vals13 es r

/-- the loop `for arg in args: new_args.append(get_recursively(context, arg))`: C13's `lookups` on the slot
view succeeds exactly when all fields are present for C08 -/
theorem lookups_13_08 (es : C08.Entries) : ∀ (parts : List (List String × String)),
    (∀ pl ∈ parts, ∀ k ∈ pl.1, k ∈ names) →
    (C08.fieldsPresent es (partPieces parts) = true →
      C13.lookups (absE leaf13 (fun _ => C13.Leaf.bad) names es) (parts.map (fun pl => (idx names pl.1, pl.2))) =
        .ok (vals13 names es parts)) ∧
    (C08.fieldsPresent es (partPieces parts) = false →
      ∃ k, C13.lookups (absE leaf13 (fun _ => C13.Leaf.bad) names es) (parts.map (fun pl => (idx names pl.1, pl.2))) =
        .error k)
  | [], _ => by simp [partPieces, C08.fieldsPresent, C13.lookups, vals13]
  | (p, lit) :: r, hk => by
    have ih := lookups_13_08 es r (fun pl hpl => hk pl (by simp [hpl]))
    have hp : ∀ k ∈ p, k ∈ names := hk (p, lit) (by simp)
    have h13 := getRec_13_path (idx names p) (absE leaf13 (fun _ => C13.Leaf.bad) names es)
    have h08 := getPath_08_path leaf13 (fun _ => C13.Leaf.bad) names p (.dict es) hp
    rw [absV_dict] at h08
    rw [← h08] at h13
    simp only [partPieces, C08.fieldsPresent, List.map_cons, C13.lookups, vals13]
    cases hg : C08.getPath (.dict es) p with
    | none =>
      rw [hg] at h13
      cases hr : C13.getRec (absE leaf13 (fun _ => C13.Leaf.bad) names es) (idx names p) with
      | ok w => rw [hr] at h13; simp [Except.toOption] at h13
      | error k => simp
    | some v =>
      rw [hg] at h13
      cases hr : C13.getRec (absE leaf13 (fun _ => C13.Leaf.bad) names es) (idx names p) with
      | error k => rw [hr] at h13; simp [Except.toOption] at h13
      | ok w =>
        rw [hr] at h13
        simp only [Except.toOption, Option.map_some, Option.some.injEq] at h13
        subst h13
        simp only [Option.isSome_some, Bool.true_and, Option.getD_some]
        constructor
        · intro hf; rw [(ih.1 hf)]
        · intro hf; obtain ⟨k, hk'⟩ := ih.2 hf; exact ⟨k, by rw [hk']⟩

/-- `format_str.format(*new_args)`: C13's `renderAll` produces C08's reference rendering -/
theorem renderAll_13_08 (es : C08.Entries) : ∀ (parts : List (List String × String)) (acc : String),
    C08.fieldsPresent es (partPieces parts) = true → ScalarFields es parts →
    C13.renderAll acc (vals13 names es parts) = some (acc ++ C08.renderSpec es (partPieces parts))
  | [], acc, _, _ => by simp [vals13, C13.renderAll, partPieces, C08.renderSpec]
  | (p, lit) :: r, acc, hf, hs => by
    simp only [partPieces, C08.fieldsPresent, Bool.and_eq_true] at hf
    obtain ⟨v, hv⟩ := Option.isSome_iff_exists.1 hf.1
    have hi : IsIS v := hs (p, lit) (by simp) v hv
    simp only [vals13, C13.renderAll, hv, Option.getD_some, render_13_08 names v hi, partPieces, C08.renderSpec]
    rw [renderAll_13_08 es r _ hf.2 (fun pl hpl => hs pl (by simp [hpl]))]
    simp [String.append_assoc]

/-- **format_context, C08 ↔ C13**: for a template of the common domain, C08 scans its template string
successfully, and for every context (association list) the formatter C08 returns and C13's `fmt` on the
slot view agree: `LenaKeyError` on both sides when a field names nothing, otherwise the same string -/
theorem fmt_08_13 (t : Tpl8) (hw : t.WF names) :
    ∃ f, C08.formatInit (some t.str) = .ok f ∧
      ∀ es : C08.Entries,
        (C08.fieldsPresent es t.pieces = false →
          C08.formatCall f (.dict es) = .error .lenaKeyError ∧
          ∃ k, C13.fmt (t.to13 names) (absE leaf13 (fun _ => C13.Leaf.bad) names es) = .error k) ∧
        (C08.fieldsPresent es t.pieces = true → ScalarFields es t.parts →
          ∃ s, C08.formatCall f (.dict es) = .ok s ∧
            C13.fmt (t.to13 names) (absE leaf13 (fun _ => C13.Leaf.bad) names es) = .ok (.str s)) := by
  obtain ⟨f, hf, hcall⟩ := C08.format_exact t.pieces hw.1
  refine ⟨f, hf, fun es => ⟨?_, ?_⟩⟩
  · intro hp
    refine ⟨(hcall es).1 hp, ?_⟩
    have hp' : C08.fieldsPresent es (partPieces t.parts) = false := by
      simpa [Tpl8.pieces, C08.fieldsPresent] using hp
    obtain ⟨k, hk⟩ := (lookups_13_08 names es t.parts hw.2).2 hp'
    exact ⟨k, by simp [C13.fmt, Tpl8.to13, hk]⟩
  · intro hp hs
    have hp' : C08.fieldsPresent es (partPieces t.parts) = true := by
      simpa [Tpl8.pieces, C08.fieldsPresent] using hp
    have hstr : C08.StrFields es t.pieces := by
      have := strFields_of_scalar es t.parts hs
      unfold C08.StrFields at this ⊢
      intro p hm
      simp only [Tpl8.pieces, List.mem_cons, reduceCtorEq, false_or] at hm
      exact this p hm
    refine ⟨C08.renderSpec es t.pieces, (hcall es).2 hp hstr, ?_⟩
    simp only [C13.fmt, Tpl8.to13, (lookups_13_08 names es t.parts hw.2).1 hp',
      renderAll_13_08 names es t.parts t.head hp' hs, Tpl8.pieces, C08.renderSpec]

/-- what C13 does outside the common domain: when all fields are present but one names something else than an
int or a string (a dictionary, a list, `None`, a bool, a float, a foreign object), `C13.fmt` returns its
poison leaf `bad` (C08 returns Python's `str()` of the item, or declines) -/
theorem renderAll_13_bad (es : C08.Entries) : ∀ (parts : List (List String × String)) (acc : String),
    C08.fieldsPresent es (partPieces parts) = true →
    (∃ pl ∈ parts, ∀ v, C08.getPath (.dict es) pl.1 = some v → ¬ IsIS v) →
    C13.renderAll acc (vals13 names es parts) = none
  | [], acc, _, h => by obtain ⟨pl, hm, _⟩ := h; simp at hm
  | (p, lit) :: r, acc, hf, h => by
    simp only [partPieces, C08.fieldsPresent, Bool.and_eq_true] at hf
    obtain ⟨v, hv⟩ := Option.isSome_iff_exists.1 hf.1
    simp only [vals13, C13.renderAll, hv, Option.getD_some]
    cases hr : C13.render (absV leaf13 (fun _ => C13.Leaf.bad) names v) with
    | none => rfl
    | some sv =>
      simp only
      apply renderAll_13_bad es r _ hf.2
      obtain ⟨pl, hm, hbad⟩ := h
      rcases List.mem_cons.1 hm with e | e
      · exfalso
        subst e
        have hni := hbad v hv
        cases v with
        | dict d => simp [absV_dict, C13.render] at hr
        | list xs => simp [absV_list, C13.render] at hr
        | leaf a => cases a <;> simp [absV_leaf, leaf13, C13.render, IsIS] at hr hni
      · exact ⟨pl, e, hbad⟩

theorem fmt_13_bad (t : Tpl8) (hw : t.WF names) (es : C08.Entries)
    (hp : C08.fieldsPresent es t.pieces = true)
    (hbad : ∃ pl ∈ t.parts, ∀ v, C08.getPath (.dict es) pl.1 = some v → ¬ IsIS v) :
    C13.fmt (t.to13 names) (absE leaf13 (fun _ => C13.Leaf.bad) names es) = .ok .bad := by
  have hp' : C08.fieldsPresent es (partPieces t.parts) = true := by
    simpa [Tpl8.pieces, C08.fieldsPresent] using hp
  simp only [C13.fmt, Tpl8.to13, (lookups_13_08 names es t.parts hw.2).1 hp',
    renderAll_13_bad names es t.parts t.head hp' hbad]

/-! ### `format_update_with` -/

/-- the value argument of `SetContext` / `format_update_with` in both vocabularies: a constant scalar, or a
template -/
inductive SVal8 where
  | const (a : C08.Leaf)
  | tpl (t : Tpl8)

def SVal8.to13 (names : List String) : SVal8 → C13.SVal
  | .const a => .const (leaf13 a)
  | .tpl t => .tpl (t.to13 names)

def SVal8.to08 : SVal8 → C08.Val
  | .const a => .leaf a
  | .tpl t => .leaf (.str t.str)

/-- the recursive assignment `UpdateContext`/`format_update_with` end in (`C08.ucSet true`) is, in the slot
view, C13's `updL d (single …)` -/
theorem ucSet_08_13 (hn : names.Nodup) (d : C08.Entries) (k : String) (ks : List String) (a : C08.Leaf) :
    absE leaf13 (fun _ => C13.Leaf.bad) names (C08.ucSet true d (k :: ks) (.leaf a)) =
      C13.updL (absE leaf13 (fun _ => C13.Leaf.bad) names d)
        (C13.single names.length (names.idxOf k) (idx names ks) (leaf13 a)) := by
  rw [← C08.updRec_nestPath ks d (.leaf a) k, ← nestPath_08_13 names hn ks k a]
  apply updRec_08_13
  have nestWF : ∀ (q : List String) (x : C08.Val), x.WF → (C08.nestPath q x).WF := by
    intro q
    induction q with
    | nil => intro x hx; simpa [C08.nestPath] using hx
    | cons k q ih => intro x hx; simp [C08.nestPath, C08.Val.WF, C08.EntriesWF, C08.lookup, ih x hx]
  simp [C08.EntriesWF, C08.lookup, nestWF ks (.leaf a) (by simp [C08.Val.WF])]

/-- the template string of a template with at least one field holds a brace (so `format_update_with`
formats it); a constant string is taken as it is when it holds none -/
theorem tpl_has_brace (t : Tpl8) (h : t.parts ≠ []) : t.str.toList.contains '{' = true := by
  obtain ⟨head, parts⟩ := t
  cases parts with
  | nil => exact absurd rfl h
  | cons x r =>
    obtain ⟨p, lit⟩ := x
    simp [Tpl8.str, Tpl8.pieces, partPieces, C08.templateString, C08.render0, C08.Piece.toTP]

/-- **format_update_with, C08 ↔ C13** (a constant that is not a template): the same updated dictionary, in
the slot view -/
theorem fuw_const_08_13 (hn : names.Nodup) (k : String) (ks : List String) (hw : C08.WFPath (k :: ks))
    (a : C08.Leaf) (ha : C08.NotTemplate (.leaf a)) (d : C08.Entries) :
    ∃ d', C08.formatUpdateWith (some (C08.joinDots (k :: ks))) (.leaf a) (.dict d) = .ok (.dict d') ∧
      C13.fmtUpdate names.length (names.idxOf k) (idx names ks) (.const (leaf13 a))
          (absE leaf13 (fun _ => C13.Leaf.bad) names d) =
        .ok (absE leaf13 (fun _ => C13.Leaf.bad) names d') := by
  refine ⟨_, C08.fuw_plain (k :: ks) (by simp) hw (.leaf a) ha d, ?_⟩
  rw [C13.fmtUpdate, ucSet_08_13 names hn]

/-- **format_update_with, C08 ↔ C13** (a template value): on the common domain, either both raise
`LenaKeyError` (a field names nothing; nothing is assigned), or both assign the same rendered string to the
key path -/
theorem fuw_tpl_08_13 (hn : names.Nodup) (k : String) (ks : List String) (hw : C08.WFPath (k :: ks))
    (t : Tpl8) (ht : t.WF names) (hne : t.parts ≠ []) (d : C08.Entries) :
    (C08.fieldsPresent d t.pieces = false →
      C08.formatUpdateWith (some (C08.joinDots (k :: ks))) (.leaf (.str t.str)) (.dict d) = .error .lenaKeyError ∧
      ∃ e, C13.fmtUpdate names.length (names.idxOf k) (idx names ks) (.tpl (t.to13 names))
        (absE leaf13 (fun _ => C13.Leaf.bad) names d) = .error e) ∧
    (C08.fieldsPresent d t.pieces = true → ScalarFields d t.parts →
      ∃ d', C08.formatUpdateWith (some (C08.joinDots (k :: ks))) (.leaf (.str t.str)) (.dict d) = .ok (.dict d') ∧
        C13.fmtUpdate names.length (names.idxOf k) (idx names ks) (.tpl (t.to13 names))
            (absE leaf13 (fun _ => C13.Leaf.bad) names d) =
          .ok (absE leaf13 (fun _ => C13.Leaf.bad) names d')) := by
  obtain ⟨f, hf, hcall⟩ := fmt_08_13 names t ht
  have hb := tpl_has_brace t hne
  have h8 := C08.fuw_template (k :: ks) (by simp) hw t.str hb d
  constructor
  · intro hp
    obtain ⟨h1, e, h2⟩ := (hcall d).1 hp
    exact ⟨h8.2.1 f _ hf h1, e, by simp [C13.fmtUpdate, h2]⟩
  · intro hp hs
    obtain ⟨s, h1, h2⟩ := (hcall d).2 hp hs
    refine ⟨_, h8.1 f s hf h1, ?_⟩
    simp only [C13.fmtUpdate, h2]
    rw [ucSet_08_13 names hn]
    rfl

def exT : Tpl8 := ⟨"run_", [(["a", "b"], "_"), (["c"], "")]⟩

example : exT.str = "run_{{a.b}}_{{c}}" := by decide

example : exT.WF ["a", "b", "c"] := by
  refine ⟨?_, ?_⟩
  · intro p hp
    simp [exT, Tpl8.pieces, partPieces] at hp
    rcases hp with rfl | rfl | rfl | rfl | rfl
    · intro c hc; simp at hc; rcases hc with rfl | rfl | rfl | rfl <;> decide
    · refine ⟨?_, ?_⟩ <;> (intro k hk; simp at hk; rcases hk with rfl | rfl <;> decide)
    · intro c hc; simp at hc; subst hc; decide
    · refine ⟨?_, ?_⟩ <;> (intro k hk; simp at hk; subst hk; decide)
    · intro c hc; simp at hc
  · intro pl hpl k hk
    simp [exT] at hpl
    rcases hpl with rfl | rfl <;> simp at hk <;> rcases hk with rfl | rfl <;> simp

example : C13.fmt (exT.to13 ["a", "b", "c"])
    (absE leaf13 (fun _ => C13.Leaf.bad) ["a", "b", "c"] [("a", .dict [("b", .leaf (.int 7))]), ("c", .leaf (.str "x"))]) =
    .ok (.str "run_7_x") := by decide

/-! ### corollaries -/

/-- C13's monotonicity of formatting (`fmt_mono`: a context with more information formats a resolved
template to the same string) transferred to C08's formatter: if C08 renders `t` against `es`, it renders the
same string against any `es'` whose slot view is above that of `es` -/
theorem c08_format_mono (t : Tpl8) (hw : t.WF names) (es es' : C08.Entries)
    (hle : C13.leL (absE leaf13 (fun _ => C13.Leaf.bad) names es) (absE leaf13 (fun _ => C13.Leaf.bad) names es'))
    (hp : C08.fieldsPresent es t.pieces = true) (hs : ScalarFields es t.parts)
    (hp' : C08.fieldsPresent es' t.pieces = true) (hs' : ScalarFields es' t.parts) :
    ∃ f s, C08.formatInit (some t.str) = .ok f ∧ C08.formatCall f (.dict es) = .ok s ∧
      C08.formatCall f (.dict es') = .ok s := by
  obtain ⟨f, hf, hcall⟩ := fmt_08_13 names t hw
  obtain ⟨s, h1, h2⟩ := (hcall es).2 hp hs
  obtain ⟨s', h1', h2'⟩ := (hcall es').2 hp' hs'
  have := C13.fmt_mono (t.to13 names) _ _ (.str s) hle h2
  rw [h2'] at this
  have e : s' = s := by simpa using this
  subst e
  exact ⟨f, s', hf, h1, h1'⟩

end format

/-! ## 7. `update_nested(key, d, other)` (functions.py:538-598) and the dictionary primitives of C14's value type

Lean: `C07.nestV` / `nestL` / `updateNested` (shared slot type, any leaves), `C11.nestInto` / `nestSlots` /
`updateNested` (C14's own value type `V`: ints, strings, lists/tuples, dictionaries — used by
`SplitIntoBins` / `IterateBins`).  `toV lv` puts the shared slot type inside `V` (leaves by `lv`, which must
not produce a dictionary).  Both models raise `TypeError` when a non-dictionary is met on the way.
Outside the common domain: `V`'s lists and tuples that contain dictionaries (not in the image of `toV`;
for `update_nested` they are non-dictionaries like any leaf); `C07.mnV`'s "recursive *other* is forbidden"
test (`LenaValueError` of `get_most_nested_subdict_with`), false for every finite value, which C11 does not
transcribe. -/

section nested
variable {β : Type} (lv : β → C14.V)

mutual
/-- the shared slot type inside C14's value type -/
def toV : Val β → C14.V
  | .leaf a => lv a
  | .dict l => .dict (toVL l)
def toVL : Slots β → C14.Slots
  | [] => []
  | none :: r => none :: toVL r
  | some v :: r => some (toV v) :: toVL r
end

theorem toV_dict (l : Slots β) : toV lv (.dict l) = .dict (toVL lv l) := by rw [toV]

theorem toVL_cons (x : Option (Val β)) (r : Slots β) :
    toVL lv (x :: r) = x.map (toV lv) :: toVL lv r := by
  cases x <;> simp [toVL]

theorem toVL_length : ∀ l : Slots β, (toVL lv l).length = l.length
  | [] => by simp [toVL]
  | x :: r => by simp [toVL_cons, toVL_length r]

/-- `d.get(key)`: `C14.getSlot` is `Val.getSlot` -/
theorem getSlot_14 : ∀ (l : Slots β) (k : Nat), C14.getSlot (toVL lv l) k = (getSlot l k).map (toV lv)
  | [], k => by simp [toVL, C14.getSlot, getSlot]
  | x :: r, 0 => by simp [toVL_cons, C14.getSlot, getSlot]
  | x :: r, k + 1 => by
    have := getSlot_14 r k
    simp only [C14.getSlot, getSlot] at this
    simp [toVL_cons, C14.getSlot, getSlot, this]

/-- `d[key] = v` / `del d[key]`: `C14.setSlot` is `Val.setSlot` -/
theorem setSlot_14 : ∀ (l : Slots β) (k : Nat) (x : Option (Val β)),
    C14.setSlot (toVL lv l) k (x.map (toV lv)) = toVL lv (setSlot l k x)
  | [], 0, x => by simp [toVL, C14.setSlot, setSlot, toVL_cons]
  | [], k + 1, x => by
    have := setSlot_14 [] k x
    simp only [toVL] at this
    simp [toVL, C14.setSlot, setSlot, toVL_cons, this]
  | y :: r, 0, x => by simp [toVL_cons, C14.setSlot, setSlot]
  | y :: r, k + 1, x => by simp [toVL_cons, C14.setSlot, setSlot, setSlot_14 r k x]

/-- `{}` over `n` keys -/
theorem emptyD_14 (n : Nat) : C14.emptyD n = toVL lv (Val.empty n) := by
  induction n with
  | zero => simp [C14.emptyD, Val.empty, toVL]
  | succ n ih =>
    simp only [C14.emptyD, Val.empty] at ih
    simp [C14.emptyD, Val.empty, List.replicate_succ, toVL_cons, ih]

/-- `d.update(other)` (top-level keys of `other` win): C14's `dictUpdate` is C13's `shallowUpdate` -/
theorem dictUpdate_14_13 (lv : C13.Leaf → C14.V) : ∀ (s c : C13.Ctx),
    C14.dictUpdate (toVL lv s) (toVL lv c) = toVL lv (C13.shallowUpdate s c)
  | [], c => by cases c <;> simp [toVL, C14.dictUpdate, C13.shallowUpdate]
  | x :: s, [] => by simp [toVL, toVL_cons, C14.dictUpdate, C13.shallowUpdate]
  | x :: s, y :: c => by
    simp only [toVL_cons, C14.dictUpdate, C13.shallowUpdate, dictUpdate_14_13 lv s c]
    cases y <;> simp

/-- outcomes: C07's `Out` against C11's `Except Lena.Err` -/
def mapOutV : C07.Out (Val β) → Except Lena.Err C14.V
  | .ok v => .ok (toV lv v)
  | .typeError => .error .typeError
  | .lenaTypeError => .error .lenaTypeError

def mapOutL : C07.Out (Slots β) → Except Lena.Err C14.Slots
  | .ok l => .ok (toVL lv l)
  | .typeError => .error .typeError
  | .lenaTypeError => .error .lenaTypeError

theorem nestSlots_nil (k : Nat) (x : C14.V) (dk : Val β) (hx : x = toV lv dk) : ∀ j : Nat,
    C11.nestSlots k x j [] = .ok (toVL lv (setSlot [] j (some dk)))
  | 0 => by simp [C11.nestSlots, setSlot, toVL, hx]
  | j + 1 => by simp [C11.nestSlots, nestSlots_nil k x dk hx j, setSlot, toVL]

mutual
theorem nestInto_11_07 (hlv : ∀ a l, lv a ≠ .dict l) (k : Nat) (dk : Val β) : ∀ v : Val β,
    C11.nestInto k (toV lv dk) (toV lv v) = mapOutV lv (C07.nestV k dk v)
  | .leaf a => by
    rw [toV, C07.nestV, mapOutV]
    cases h : lv a with
    | dict l => exact absurd h (hlv a l)
    | int i => simp [C11.nestInto]
    | str s => simp [C11.nestInto]
    | seq t l => simp [C11.nestInto]
  | .dict y => by
    rw [toV_dict, C11.nestInto, C07.nestV, nestSlots_11_07 hlv k dk y k]
    cases C07.nestL k dk k y <;> simp [mapOutL, mapOutV, toV_dict]
theorem nestSlots_11_07 (hlv : ∀ a l, lv a ≠ .dict l) (k : Nat) (dk : Val β) : ∀ (l : Slots β) (j : Nat),
    C11.nestSlots k (toV lv dk) j (toVL lv l) = mapOutL lv (C07.nestL k dk j l)
  | [], j => by
    rw [toVL, nestSlots_nil lv k _ dk rfl j, C07.nestL, mapOutL]
  | none :: r, 0 => by simp [toVL, C11.nestSlots, C07.nestL, mapOutL]
  | some v :: r, 0 => by
    rw [toVL, C11.nestSlots, C07.nestL, nestInto_11_07 hlv k dk v]
    cases C07.nestV k dk v <;> simp [mapOutV, mapOutL, toVL]
  | x :: r, j + 1 => by
    rw [toVL_cons, C11.nestSlots, C07.nestL, nestSlots_11_07 hlv k dk r j]
    cases C07.nestL k dk j r <;> simp [mapOutL, toVL_cons]
end

/-- **update_nested, C11 = C07**: on the image of the shared slot type, C11's `updateNested` returns what
C07's does — the new `d`, or `TypeError` — for every key number, every `d` and `other`, every leaf
embedding that produces no dictionary -/
theorem updateNested_11_07 (hlv : ∀ a l, lv a ≠ .dict l) (k : Nat) (d o : Slots β) :
    C11.updateNested k (toVL lv d) (toVL lv o) = mapOutL lv (C07.updateNested k d o) := by
  rw [C11.updateNested, C07.updateNested, getSlot_14]
  cases hd : getSlot d k with
  | none =>
    simp only [Option.map_none, mapOutL]
    have := setSlot_14 lv d k (some (.dict o))
    simp only [Option.map_some, toV_dict] at this
    rw [this]
  | some dk =>
    simp only [Option.map_some]
    have h := nestInto_11_07 lv hlv k dk (.dict o)
    rw [toV_dict] at h
    rw [h, C07.nestV]
    cases hn : C07.nestL k dk k o with
    | ok o' =>
      simp only [mapOutV, mapOutL]
      have := setSlot_14 lv d k (some (.dict o'))
      simp only [Option.map_some] at this
      rw [this]
    | lenaTypeError => simp [mapOutV, mapOutL]
    | typeError => simp [mapOutV, mapOutL]

/-- leaves of C13 / of the harness inside `V`: ints and strings -/
def lv13 : C13.Leaf → C14.V
  | .int i => .int i
  | .str s => .str s
  | .bad => .str "<bad>"

theorem lv13_not_dict : ∀ a l, lv13 a ≠ .dict l := by
  intro a l; cases a <;> simp [lv13]

example : C11.updateNested 0 (toVL lv13 [some (.leaf (.int 1)), none]) (toVL lv13 [some (.dict [none, some (.leaf (.int 2))]), none]) =
    mapOutL lv13 (C07.updateNested 0 [some (.leaf (.int 1)), none] [some (.dict [none, some (.leaf (.int 2))]), none]) :=
  updateNested_11_07 lv13 lv13_not_dict 0 _ _

/-! ### corollaries -/

/-- C07's exact characterisation of the `TypeError` of `update_nested` (`update_nested_typeError_iff`) for
C11's transcription -/
theorem c11_update_nested_typeError_iff (hlv : ∀ a l, lv a ≠ .dict l) (k : Nat) (d o : Slots β) :
    C11.updateNested k (toVL lv d) (toVL lv o) = .error .typeError ↔
      (getSlot d k).isSome = true ∧
        ∃ c, getPath (.dict o) (List.replicate (C07.nestDepth k (.dict o)) k) = some (.leaf c) := by
  rw [updateNested_11_07 lv hlv, ← C07.update_nested_typeError_iff]
  cases C07.updateNested k d o <;> simp [mapOutL]

/-- C07's `update_nested_ok` for C11: never `LenaTypeError`; a key that is absent from `d` is simply set -/
theorem c11_update_nested_absent (hlv : ∀ a l, lv a ≠ .dict l) (k : Nat) (d o : Slots β) (h : getSlot d k = none) :
    C11.updateNested k (toVL lv d) (toVL lv o) = .ok (toVL lv (setSlot d k (some (.dict o)))) := by
  rw [updateNested_11_07 lv hlv, (C07.update_nested_ok k d o).2.1 h, mapOutL]

end nested

/-! ## 8. `Variable._update_context(context, var_context)` (variables/variable.py:180-225)

Lean: `C14.updateVar` / `C14.updateContext` (the method in full: composition history, `TypeError`s, both
versions of the condition of line 196; `C14.UP` is its closed form on well-formed dictionaries,
`Lemmas.C14.updateVar_eq_UP`), and the special case that C01 and C05 use: `Flow.variableCall` — "for a variable
without type, on a context whose `variable` (if any) has no `type`, `_update_context` is
`context["variable"] = var_context`" (`Model/Flow.lean`; `C04.setVariable` makes the same assumption).
The theorem below proves that assumption from C14's transcription.  `absF` is the slot view of `Flow.Value`
(association lists with string keys, like C08's) inside C14's value type.
Outside the common domain: a `variable` item that is not a dictionary (C14: `TypeError` or untouched,
depending on its truthiness and type; the flow vocabulary of C01/C05 never produces one), a `variable` with a
`type` or `compose` key (C14 continues the composition history; C01/C05 use untyped variables only), and the
data part of the call (`Flow.Fn.onData` may raise, C14's getters are total functions). -/

section updateContext

/-- `d.get(key)` on `Flow.Ctx` -/
def lookupF : Flow.Ctx → String → Option Flow.Value
  | [], _ => none
  | (k', v) :: r, k => if k' = k then some v else lookupF r k

theorem lookupF_dictSet (k : String) (v : Flow.Value) : ∀ (c : Flow.Ctx) (k' : String),
    lookupF (Flow.dictSet c k v) k' = if k = k' then some v else lookupF c k'
  | [], k' => by simp [Flow.dictSet, lookupF]
  | (k0, v0) :: r, k' => by
    rw [Flow.dictSet]
    by_cases e : k0 = k
    · subst e
      by_cases e2 : k0 = k' <;> simp [lookupF, e2]
    · simp only [e, if_false, lookupF, lookupF_dictSet k v r k']
      by_cases e2 : k0 = k'
      · subst e2; simp [Ne.symm e]
      · simp [e2]

variable (names : List String)

mutual
/-- the slot view of a flow value inside C14's value type (`quot n d`, the float of `Mean`, is an opaque
scalar with the truthiness of `n`) -/
def absF : Flow.Value → C14.V
  | .int i => .int i
  | .str s => .str s
  | .quot n _ => .int n
  | .list xs => .seq false (absFs xs)
  | .tup xs => .seq true (absFs xs)
  | .dict kvs => .dict (names.map (fun k => absFSlot k kvs))
def absFs : List Flow.Value → List C14.V
  | [] => []
  | x :: r => absF x :: absFs r
def absFSlot (k : String) : Flow.Ctx → Option C14.V
  | [] => none
  | (k', v) :: r => if k' = k then some (absF v) else absFSlot k r
end

def absFE (c : Flow.Ctx) : C14.Slots := names.map (fun k => absFSlot names k c)

theorem absF_dict (c : Flow.Ctx) : absF names (.dict c) = .dict (absFE names c) := by rw [absF]; rfl

theorem absFSlot_eq (k : String) : ∀ c : Flow.Ctx, absFSlot names k c = (lookupF c k).map (absF names)
  | [] => by simp [absFSlot, lookupF]
  | (k', v) :: r => by
    rw [absFSlot, lookupF]
    by_cases h : k' = k
    · simp [h]
    · simp [h, absFSlot_eq k r]

theorem getSlot_absFE (c : Flow.Ctx) (k : String) :
    C14.getSlot (absFE names c) (names.idxOf k) = if k ∈ names then (lookupF c k).map (absF names) else none := by
  by_cases hk : k ∈ names
  · have h1 : names[names.idxOf k]? = some k := by
      rw [List.getElem?_eq_getElem (List.idxOf_lt_length_of_mem hk)]
      simp
    simp [C14.getSlot, absFE, List.getElem?_map, h1, absFSlot_eq, hk]
  · have : names.idxOf k = names.length := List.idxOf_eq_length hk
    simp [C14.getSlot, absFE, this, hk]

theorem setSlot_eq_set : ∀ (l : C14.Slots) (i : Nat) (x : Option C14.V), i < l.length →
    C14.setSlot l i x = l.set i x
  | [], i, x, h => by simp at h
  | y :: r, 0, x, _ => by simp [C14.setSlot]
  | y :: r, i + 1, x, h => by
    simp only [C14.setSlot, List.set_cons_succ]
    rw [setSlot_eq_set r i x (by simpa using h)]

/-- `d[key] = v` on `Flow.Ctx` (`dictSet`), in the slot view, is C14's `setSlot` -/
theorem absFE_dictSet (hn : names.Nodup) (c : Flow.Ctx) (k : String) (hk : k ∈ names) (v : Flow.Value) :
    absFE names (Flow.dictSet c k v) = C14.setSlot (absFE names c) (names.idxOf k) (some (absF names v)) := by
  have hlt : names.idxOf k < names.length := List.idxOf_lt_length_of_mem hk
  rw [setSlot_eq_set _ _ _ (by simpa [absFE] using hlt)]
  apply List.ext_getElem?
  intro i
  rw [List.getElem?_set]
  simp only [absFE, List.getElem?_map, List.length_map]
  by_cases hi : i < names.length
  · rw [List.getElem?_eq_getElem hi]
    simp only [Option.map_some, absFSlot_eq, lookupF_dictSet]
    by_cases e : names.idxOf k = i
    · have : names[i] = k := by subst e; exact List.getElem_idxOf hlt
      simp [e, hi, this]
    · have : k ≠ names[i] := by
        intro h; apply e; rw [h]; exact hn.idxOf_getElem i hi
      simp [e, this]
  · have h1 : names[i]? = none := List.getElem?_eq_none (by omega)
    have h2 : names.idxOf k ≠ i := by omega
    simp [h1, h2]

/-- the context of the flow vocabulary of C01/C05: `variable` absent, or a dictionary without `type` and
`compose` -/
def Untyped (c : Flow.Ctx) : Prop :=
  match lookupF c "variable" with
  | none => True
  | some (.dict d) => lookupF d "type" = none ∧ lookupF d "compose" = none
  | some _ => False

/-- **_update_context, C14 ↔ Flow (C01/C05)**: on a context without a typed `variable`, C14's full
transcription of `_update_context` — either version of the condition of line 196 — does what
`Flow.variableCall` (and `C04.setVariable`) assume: `context["variable"] = var_context`, nothing else -/
theorem updateContext_14_flow (hn : names.Nodup) (hv : "variable" ∈ names) (fx : Bool) (c vc : Flow.Ctx)
    (hu : Untyped c) :
    C14.updateContext names fx (absFE names c) (absFE names vc) =
      .ok (absFE names (Flow.dictSet c "variable" (.dict vc))) := by
  have hvar : C14.updateVar names fx (C14.getSlot (absFE names c) (C14.kVariable names)) (absFE names vc) =
      .ok (absFE names vc) := by
    rw [C14.kVariable, C14.key, getSlot_absFE, if_pos hv]
    unfold Untyped at hu
    cases hl : lookupF c "variable" with
    | none => simp [C14.updateVar]
    | some w =>
      rw [hl] at hu
      cases w with
      | int i => exact absurd hu id
      | str s => exact absurd hu id
      | quot n d => exact absurd hu id
      | list xs => exact absurd hu id
      | tup xs => exact absurd hu id
      | dict d =>
        simp only at hu
        have ht : C14.hasKey (absFE names d) (C14.kType names) = false := by
          rw [C14.hasKey, C14.kType, C14.key, getSlot_absFE, hu.1]; simp
        have hc : C14.hasKey (absFE names d) (C14.kCompose names) = false := by
          rw [C14.hasKey, C14.kCompose, C14.key, getSlot_absFE, hu.2]; simp
        simp only [Option.map_some, absF_dict, C14.updateVar, ht, hc, Bool.and_false, Bool.or_false]
        split <;> simp
  rw [C14.updateContext, hvar]
  simp only
  rw [absFE_dictSet names hn c "variable" hv, absF_dict]
  rfl

/-- `Flow.variableCall`'s context, spelled out: `{"name": name}` is stored under `variable` -/
theorem variableCall_ctx_14 (hn : names.Nodup) (hv : "variable" ∈ names) (fx : Bool) (name : String) (g : Flow.Fn)
    (v r : Flow.Value) (hu : Untyped (Flow.getDataContext v).2) (hr : Flow.variableCall name g v = .ok r) :
    ∃ d', r = .tup [d', .dict (Flow.dictSet (Flow.getDataContext v).2 "variable" (.dict [("name", .str name)]))] ∧
      C14.updateContext names fx (absFE names (Flow.getDataContext v).2) (absFE names [("name", .str name)]) =
        .ok (absFE names (Flow.getContext r)) := by
  unfold Flow.variableCall at hr
  simp only at hr
  cases hg : g.onData (Flow.getDataContext v).1 with
  | error e => rw [hg] at hr; simp at hr
  | ok d' =>
    rw [hg] at hr
    simp only [Except.ok.injEq] at hr
    subst hr
    refine ⟨d', rfl, ?_⟩
    rw [updateContext_14_flow names hn hv fx _ _ hu]
    rfl

example : Untyped [("variable", .dict [("name", .str "x")]), ("a", .int 1)] := by
  simp [Untyped, lookupF]

example : C14.updateContext ["name", "type", "variable"] true
      (absFE ["name", "type", "variable"] [("variable", .dict [("name", .str "x")])])
      (absFE ["name", "type", "variable"] [("name", .str "y")]) =
    .ok (absFE ["name", "type", "variable"]
      (Flow.dictSet [("variable", .dict [("name", .str "x")])] "variable" (.dict [("name", .str "y")]))) :=
  updateContext_14_flow _ (by decide) (by decide) true _ _ (by simp [Untyped, lookupF])

/-! ### corollary: the closed form `UP` of C14 on the flow vocabulary -/

/-- on an untyped `variable` dictionary C14's closed form `UP` (which `Props.C14.compose_eq_sequence` rests on)
returns the new variable context: the history is empty.  So the chains of untyped `Variable`s of C01/C05
are chains of `UP` steps, and `Lemmas.C14.UP_of_hist_nil` is exactly `Flow.variableCall`'s assumption. -/
theorem UP_untyped (d vc : Flow.Ctx) (ht : lookupF d "type" = none) (hc : lookupF d "compose" = none) :
    C14.UP names (absFE names d) (absFE names vc) = absFE names vc := by
  apply C14.UP_of_hist_nil
  unfold C14.hist
  rw [C14.kCompose, C14.key, getSlot_absFE, hc, C14.kType, C14.key, getSlot_absFE, ht]
  simp

end updateContext

/-! ## 9. The homomorphism theorems cover all inputs of the slot-vector side too

`absE` is onto the well-formed slot vectors (`absE_concE`), and `concE` produces Python dictionaries (no key
twice).  So every theorem of the form `absE (f₈ x) = f₇ (absE x)` determines `f₇` on *all* well-formed slot
vectors from C08's transcription: spelled out for `update_recursively`, `get_recursively` and `contains`. -/

section onto
variable {β : Type} (lf : C08.Leaf → β) (ls : List C08.Val → β) (cl : β → C08.Leaf)

mutual
theorem concV_wf (names : List String) (hn : names.Nodup) : ∀ v : Val β, (concV cl names v).WF
  | .leaf a => by rw [concV]; simp [C08.Val.WF]
  | .dict l => by rw [concV, C08.Val.WF]; exact concL_wf names hn names l hn
theorem concL_wf (names : List String) (hn : names.Nodup) : ∀ (ks : List String) (l : Slots β), ks.Nodup →
    C08.EntriesWF (concL cl names ks l)
  | _, [], _ => by simp [concL, C08.EntriesWF]
  | [], _ :: _, _ => by simp [concL, C08.EntriesWF]
  | k :: ks, none :: r, h => by rw [concL]; exact concL_wf names hn ks r (List.nodup_cons.1 h).2
  | k :: ks, some v :: r, h => by
    rw [concL, C08.EntriesWF]
    exact ⟨lookup_concL_not_mem cl names k ks r (List.nodup_cons.1 h).1, concV_wf names hn v,
      concL_wf names hn ks r (List.nodup_cons.1 h).2⟩
end

theorem concE_wf (names : List String) (hn : names.Nodup) (l : Slots β) : C08.EntriesWF (concE cl names l) :=
  concL_wf cl names hn names l hn

/-- **update_recursively, C07 from C08**: on ALL well-formed slot vectors C07's `updL` is the slot view of
C08's `updRec` on the association lists -/
theorem updL_07_08 (names : List String) (hn : names.Nodup) (hl : ∀ a, lf (cl a) = a) (d u : Slots β)
    (hd : WFD names.length d) (hu : WFD names.length u) :
    C07.updL d u = absE lf ls names (C08.updRec (concE cl names d) (concE cl names u)) := by
  rw [updRec_08_07 lf ls names _ _ (concE_wf cl names hn u), absE_concE lf ls cl names hn hl d hd,
    absE_concE lf ls cl names hn hl u hu]

/-- **update_recursively, C13 from C08**: the same for C13's transcription, on all well-formed contexts
without the poison leaf -/
theorem updL_13_08 (names : List String) (hn : names.Nodup) (d u : C13.Ctx)
    (hd : WFD names.length d) (hu : WFD names.length u) :
    C13.updL d u = absE leaf13 (fun _ => C13.Leaf.bad) names
      (C08.updRec (concE leaf13to8 names d) (concE leaf13to8 names u)) := by
  rw [updL_13_07]
  exact updL_07_08 leaf13 (fun _ => C13.Leaf.bad) leaf13to8 names hn leaf13_leaf13to8 d u hd hu

/-- **get_recursively, path lookup from C08**: on all well-formed slot vectors the path lookup is the slot
view of what C08's `getPath` finds in the association list -/
theorem getPath_07_08 (names : List String) (hn : names.Nodup) (hl : ∀ a, lf (cl a) = a) (d : Slots β)
    (hd : WFD names.length d) (p : List String) (hp : ∀ k ∈ p, k ∈ names) :
    getPath (.dict d) (idx names p) =
      (C08.getPath (.dict (concE cl names d)) p).map (absV lf ls names) := by
  rw [getPath_08_path lf ls names p _ hp, absV_dict, absE_concE lf ls cl names hn hl d hd]

mutual
theorem in15_concV (names : List String) : ∀ v : Val C15.Leaf, In15 (concV leaf15to8 names v)
  | .leaf a => by
    rw [concV, In15]
    cases a with
    | bool b => cases b <;> simp [leaf15to8, C08.pyStr]
    | none => simp [leaf15to8, C08.pyStr]
    | int i => simp [leaf15to8, C08.pyStr]
    | str s => simp [leaf15to8, C08.pyStr]
    | obj s => simp [leaf15to8, C08.pyStr]
  | .dict l => by rw [concV, In15]; exact in15_concL names names l
theorem in15_concL (names : List String) : ∀ (ks : List String) (l : Slots C15.Leaf),
    In15E (concL leaf15to8 names ks l)
  | _, [] => by simp [concL, In15E]
  | [], _ :: _ => by simp [concL, In15E]
  | k :: ks, none :: r => by rw [concL]; exact in15_concL names ks r
  | k :: ks, some v :: r => by rw [concL, In15E]; exact ⟨in15_concV names v, in15_concL names ks r⟩
end

/-- **contains, C15 from C08**: on every C15 dictionary that is well-formed over the table, `C15.contains` is
`C08.contains` of its association list (C15's scalars all have a `str()` and C15 has no lists: the whole of
C15's domain is common) -/
theorem contains_15_08 (names : List String) (hn : names.Nodup) (d : C15.Slots)
    (hd : WFD names.length (of15L d)) (s : String) (hk : ∀ k ∈ C08.splitDots s, k ∈ names) :
    C15.contains names d s = C08.contains (concE leaf15to8 names (of15L d)) s := by
  have h := contains_08_15 names (concE leaf15to8 names (of15L d)) s (in15_concL names names (of15L d)) hk
  rw [abs15E, absE_concE leaf15 ls15 leaf15to8 names hn leaf15_leaf15to8 (of15L d) hd, to15L_of15L] at h
  exact h

example : WFD 2 (of15L [some (.dict [none, some (.leaf (.int 7))]), none]) := by
  simp [of15L, of15, WFD, WFL, WF]

end onto
end Lena.Bridge.Context
