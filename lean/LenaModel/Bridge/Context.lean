import LenaModel.Props.C07
import LenaModel.Props.C08
import LenaModel.Props.C13
import LenaModel.Props.C14
import LenaModel.Model.C15
/-! # Bridge — the independent transcriptions of the nested-dictionary context functions agree

`lena/context/functions.py` (`update_recursively`, `intersection`, `get_recursively`, `contains`,
`str_to_dict`, `format_context`, `format_update_with`, `update_nested`) was transcribed into Lean several
times, by independent builders, for different properties and over different value types:

| model | what it transcribes | dictionaries are |
|---|---|---|
| `Lena.C07` | `intersection` (all levels), `difference`, `update_recursively`, `update_nested`, `str_to_dict` (C07Ext) | slot vectors `Slots α` over any leaf type (`Model/Val.lean`) |
| `Lena.C13` | `update_recursively`, `intersection` (default level), `get_recursively`, `str_to_dict`, `format_context`, `format_update_with` | slot vectors `Slots C13.Leaf` (ints, strings, `bad`) |
| `Lena.C08` | `update_recursively`, `get_recursively`, `contains`, `str_to_dict`, `format_context`, `format_update_with` | insertion-ordered association lists `Entries` with string keys; lists are values |
| `Lena.C15` | `contains`, `get_recursively` | slot vectors of its own type `C15.Val` + key table `names` |
| `Lena.C14` / `Lena.C11` | `update_nested` (C11), `Variable._update_context` (C14) | slot vectors of C14's own type `V` (tuples / lists inside) |

Each transcription is validated against the real code by its own correspondence check.  This file proves
that they agree with each other, for ALL inputs, under explicit translation maps; so a transcription error
in one of them would contradict another one that was validated separately, and theorems transfer
(corollaries at the end of every section).

## The translation maps

* `absV lf ls names : C08.Val → Val β` (`absE` on dictionaries): the *slot view* of an association list
  over the key table `names` — slot `i` holds the abstraction of `lookup es names[i]` (`none`: key absent;
  a key that is not in `names` is dropped; of a key that occurs twice the first binding counts, as for
  `lookup`).  Leaves are mapped by `lf`; a Python list is a leaf of the slot view (`ls`), as in C07.
  Total, for every table `names` (not even `Nodup` is needed); always `n = names.length` slots.
* `concV cl names : Val β → C08.Val` (`concE`): the association list of a slot vector, keys in table order.
  `absV ∘ concV = id` on well-formed vectors (`abs_conc`), so every slot vector is the view of an
  association list and each homomorphism theorem `abs (f₈ x) = f₇ (abs x)` covers all inputs of both sides.
* `of15 / to15 : C15.Val ≃ Val C15.Leaf`: C15's own slot type is the shared one (a renaming).
* `leaf13 : C08.Leaf → C13.Leaf` (ints and strings as themselves, everything else `bad`), `leaf15 :
  C08.Leaf → C15.Leaf` (`None`, `bool`, `int`, `str` as themselves; a float / foreign object by its `str()`).
* `toV lf14 : Val β → C14.V`: the shared slot type inside C14's value type.
* a key path of strings `p` is the path of slot numbers `p.map names.idxOf` (`idx`).

Sections: 0. maps — 1. `update_recursively` — 2. `intersection` — 3. `get_recursively` — 4. `contains` —
5. `str_to_dict` — 6. `format_context`, `format_update_with` — 7. `update_nested` — 8. `_update_context`. -/

set_option linter.unusedSimpArgs false
set_option linter.unusedVariables false

namespace Lena.Bridge.Context
open Lena Lena.Val

/-! ## 0. The translation maps -/

/-- a path of key strings as a path of slot numbers -/
def idx (names : List String) (p : List String) : List Nat := p.map names.idxOf

section abs
variable {β : Type} (lf : C08.Leaf → β) (ls : List C08.Val → β) (names : List String)

mutual
/-- the slot view of a C08 value over the key table `names` -/
def absV : C08.Val → Val β
  | .leaf a => .leaf (lf a)
  | .list xs => .leaf (ls xs)
  | .dict es => .dict (names.map (fun k => absSlot k es))
/-- the slot of key `k`: the abstraction of `lookup es k` -/
def absSlot (k : String) : C08.Entries → Option (Val β)
  | [] => none
  | (k', v) :: r => if k' = k then some (absV v) else absSlot k r
end

/-- the slot view of a C08 dictionary -/
def absE (es : C08.Entries) : Slots β := names.map (fun k => absSlot lf ls names k es)

theorem absV_dict (es : C08.Entries) : absV lf ls names (.dict es) = .dict (absE lf ls names es) := by
  rw [absV]; rfl

theorem absV_leaf (a : C08.Leaf) : absV lf ls names (.leaf a) = .leaf (lf a) := by rw [absV]

theorem absV_list (xs : List C08.Val) : absV lf ls names (.list xs) = .leaf (ls xs) := by rw [absV]

theorem absSlot_eq (k : String) : ∀ es : C08.Entries,
    absSlot lf ls names k es = (C08.lookup es k).map (absV lf ls names)
  | [] => by simp [absSlot, C08.lookup]
  | (k', v) :: r => by
    rw [absSlot, C08.lookup]
    by_cases h : k' = k
    · simp [h]
    · simp [h, absSlot_eq k r]

theorem absE_length (es : C08.Entries) : (absE lf ls names es).length = names.length := by
  simp [absE]

theorem absE_nil : absE lf ls names [] = Val.empty names.length := by
  simp [absE, absSlot, Val.empty, List.map_const']

/-- `d.get(key)` commutes with the slot view, for every key of the table -/
theorem getSlot_absE (es : C08.Entries) (k : String) (hk : k ∈ names) :
    getSlot (absE lf ls names es) (names.idxOf k) = (C08.lookup es k).map (absV lf ls names) := by
  have h1 : names[names.idxOf k]? = some k := by
    rw [List.getElem?_eq_getElem (List.idxOf_lt_length_of_mem hk)]
    simp
  simp [getSlot, absE, List.getElem?_map, h1, absSlot_eq]

/-- a key outside the table is absent from the slot view -/
theorem getSlot_absE_not_mem (es : C08.Entries) (k : String) (hk : k ∉ names) :
    getSlot (absE lf ls names es) (names.idxOf k) = none := by
  have : names.idxOf k = names.length := List.idxOf_eq_length hk
  simp [getSlot, absE, this]

mutual
/-- the slot view has `names.length` slots at every depth -/
theorem absV_wf : ∀ v : C08.Val, WF names.length (absV lf ls names v)
  | .leaf a => by rw [absV_leaf]; simp [WF]
  | .list xs => by rw [absV_list]; simp [WF]
  | .dict es => by
    rw [absV_dict, WF]
    exact ⟨absE_length lf ls names es, absE_wfl es names⟩
/-- (for any list of keys `ks`, so that the induction goes through) -/
theorem absE_wfl (es : C08.Entries) : ∀ ks : List String,
    WFL names.length (ks.map (fun k => absSlot lf ls names k es))
  | [] => by simp [WFL]
  | k :: ks => by
    have ih := absE_wfl es ks
    rw [List.map_cons, absSlot_eq]
    cases h : C08.lookup es k with
    | none => simpa [WFL] using ih
    | some w =>
      simp only [Option.map_some, WFL]
      exact ⟨absV_wf_of_lookup es k w h, ih⟩
theorem absV_wf_of_lookup : ∀ (es : C08.Entries) (k : String) (w : C08.Val), C08.lookup es k = some w →
    WF names.length (absV lf ls names w)
  | [], k, w, h => by simp [C08.lookup] at h
  | (k0, v0) :: r, k, w, h => by
    rw [C08.lookup] at h
    by_cases e : k0 = k
    · simp [e] at h; subst h; exact absV_wf v0
    · simp [e] at h; exact absV_wf_of_lookup r k w h
end

theorem absE_wfd (es : C08.Entries) : WFD names.length (absE lf ls names es) :=
  ⟨absE_length lf ls names es, absE_wfl lf ls names es names⟩

end abs

/-! ### the inverse direction: the association list of a slot vector -/

section conc
variable {β : Type} (cl : β → C08.Leaf)

mutual
/-- the C08 value of a slot-vector value: keys in table order -/
def concV (names : List String) : Val β → C08.Val
  | .leaf a => .leaf (cl a)
  | .dict l => .dict (concL names names l)
/-- the entries of the slots `l`, whose keys are `ks` (the rest of the table `names`) -/
def concL (names : List String) : List String → Slots β → C08.Entries
  | _, [] => []
  | [], _ :: _ => []
  | _ :: ks, none :: r => concL names ks r
  | k :: ks, some v :: r => (k, concV names v) :: concL names ks r
end

/-- the C08 dictionary of a slot vector -/
def concE (names : List String) (l : Slots β) : C08.Entries := concL cl names names l

theorem concV_dict (names : List String) (l : Slots β) :
    concV cl names (.dict l) = .dict (concE cl names l) := by rw [concV]; rfl

theorem lookup_concL_not_mem (names : List String) (k : String) : ∀ (ks : List String) (l : Slots β),
    k ∉ ks → C08.lookup (concL cl names ks l) k = none
  | _, [], _ => by simp [concL, C08.lookup]
  | [], _ :: _, _ => by simp [concL, C08.lookup]
  | k0 :: ks, none :: r, h => by
    rw [concL]; exact lookup_concL_not_mem names k ks r (fun hm => h (by simp [hm]))
  | k0 :: ks, some v :: r, h => by
    rw [concL, C08.lookup]
    have : k0 ≠ k := fun e => h (by simp [e])
    simp only [this, if_false]
    exact lookup_concL_not_mem names k ks r (fun hm => h (by simp [hm]))

/-- `lookup` in the association list is the slot of the key -/
theorem lookup_concL (names : List String) (k : String) : ∀ (ks : List String) (l : Slots β),
    ks.Nodup → k ∈ ks →
    C08.lookup (concL cl names ks l) k = (getSlot l (ks.idxOf k)).map (concV cl names)
  | _, [], _, _ => by simp [concL, C08.lookup, getSlot]
  | [], _ :: _, _, h => by simp at h
  | k0 :: ks, x :: r, hn, hk => by
    have hn' : ks.Nodup := (List.nodup_cons.1 hn).2
    have h0 : k0 ∉ ks := (List.nodup_cons.1 hn).1
    by_cases e : k0 = k
    · subst e
      have hi : (k0 :: ks).idxOf k0 = 0 := by simp [List.idxOf_cons]
      rw [hi]
      cases x with
      | none =>
        rw [concL, lookup_concL_not_mem cl names k0 ks r h0]
        simp [getSlot]
      | some v =>
        rw [concL, C08.lookup]
        simp [getSlot]
    · have hk' : k ∈ ks := by
        rcases List.mem_cons.1 hk with h | h
        · exact absurd h.symm e
        · exact h
      have hi : (k0 :: ks).idxOf k = ks.idxOf k + 1 := by
        rw [List.idxOf_cons]
        have : (k0 == k) = false := by simpa using e
        simp [this]
      rw [hi]
      have hs : getSlot (x :: r) (ks.idxOf k + 1) = getSlot r (ks.idxOf k) := by simp [getSlot]
      rw [hs]
      cases x with
      | none => rw [concL]; exact lookup_concL names k ks r hn' hk'
      | some v =>
        rw [concL, C08.lookup]
        simp only [e, if_false]
        exact lookup_concL names k ks r hn' hk'

end conc

/-! ### C15's own slot type is the shared one -/

mutual
def of15 : C15.Val → Val C15.Leaf
  | .leaf a => .leaf a
  | .dict l => .dict (of15L l)
def of15L : C15.Slots → Slots C15.Leaf
  | [] => []
  | none :: r => none :: of15L r
  | some v :: r => some (of15 v) :: of15L r
end

mutual
def to15 : Val C15.Leaf → C15.Val
  | .leaf a => .leaf a
  | .dict l => .dict (to15L l)
def to15L : Slots C15.Leaf → C15.Slots
  | [] => []
  | none :: r => none :: to15L r
  | some v :: r => some (to15 v) :: to15L r
end

mutual
theorem to15_of15 : ∀ v : C15.Val, to15 (of15 v) = v
  | .leaf a => by simp [of15, to15]
  | .dict l => by simp [of15, to15, to15L_of15L l]
theorem to15L_of15L : ∀ l : C15.Slots, to15L (of15L l) = l
  | [] => by simp [of15L, to15L]
  | none :: r => by simp [of15L, to15L, to15L_of15L r]
  | some v :: r => by simp [of15L, to15L, to15_of15 v, to15L_of15L r]
end

mutual
theorem of15_to15 : ∀ v : Val C15.Leaf, of15 (to15 v) = v
  | .leaf a => by simp [of15, to15]
  | .dict l => by simp [of15, to15, of15L_to15L l]
theorem of15L_to15L : ∀ l : Slots C15.Leaf, of15L (to15L l) = l
  | [] => by simp [of15L, to15L]
  | none :: r => by simp [of15L, to15L, of15L_to15L r]
  | some v :: r => by simp [of15L, to15L, of15_to15 v, of15L_to15L r]
end

theorem of15L_length : ∀ l : C15.Slots, (of15L l).length = l.length
  | [] => by simp [of15L]
  | none :: r => by simp [of15L, of15L_length r]
  | some v :: r => by simp [of15L, of15L_length r]

/-- `d.get(key)`: `C15.slotGet` is `Val.getSlot` -/
theorem getSlot_of15L : ∀ (l : C15.Slots) (k : Nat),
    getSlot (of15L l) k = (C15.slotGet l k).map of15
  | [], k => by simp [of15L, getSlot, C15.slotGet]
  | none :: r, 0 => by simp [of15L, getSlot, C15.slotGet]
  | some v :: r, 0 => by simp [of15L, getSlot, C15.slotGet]
  | none :: r, k + 1 => by
    have := getSlot_of15L r k
    simp only [getSlot, C15.slotGet] at this
    simp [of15L, getSlot, C15.slotGet, this]
  | some v :: r, k + 1 => by
    have := getSlot_of15L r k
    simp only [getSlot, C15.slotGet] at this
    simp [of15L, getSlot, C15.slotGet, this]

/-- Python `bool(d)`: `C15.nonEmpty` is `Val.nonEmpty` -/
theorem nonEmpty_of15L : ∀ l : C15.Slots, nonEmpty (of15L l) = C15.nonEmpty l
  | [] => by simp [of15L, nonEmpty, C15.nonEmpty]
  | none :: r => by
    have := nonEmpty_of15L r
    simp only [nonEmpty, C15.nonEmpty] at this
    simp [of15L, nonEmpty, C15.nonEmpty, this]
  | some v :: r => by simp [of15L, nonEmpty, C15.nonEmpty]

/-! ### leaf maps -/

/-- C08 scalars as C13 leaves: ints and strings as themselves, everything else is C13's poison value -/
def leaf13 : C08.Leaf → C13.Leaf
  | .int i => .int i
  | .str s => .str s
  | _ => .bad

/-- C13 leaves as C08 scalars (`bad` has no counterpart: `None` is a placeholder) -/
def leaf13to8 : C13.Leaf → C08.Leaf
  | .int i => .int i
  | .str s => .str s
  | .bad => .none

/-- C08 scalars as C15 leaves: a float or a foreign object is observed by `contains` only through `str()` -/
def leaf15 : C08.Leaf → C15.Leaf
  | .none => .none
  | .bool b => .bool b
  | .int i => .int i
  | .str s => .str s
  | .float r => .obj r
  | .obj s => .obj (s.getD "")

def leaf15to8 : C15.Leaf → C08.Leaf
  | .none => .none
  | .bool b => .bool b
  | .int i => .int i
  | .str s => .str s
  | .obj s => .obj (some s)

theorem leaf13_leaf13to8 (a : C13.Leaf) (h : a ≠ .bad) : leaf13 (leaf13to8 a) = a := by
  cases a <;> simp [leaf13, leaf13to8] at h ⊢

theorem leaf15_leaf15to8 (a : C15.Leaf) : leaf15 (leaf15to8 a) = a := by
  cases a <;> simp [leaf15, leaf15to8]

/-! ### `absV ∘ concV = id` on well-formed slot vectors -/

section absconc
variable {β : Type} (lf : C08.Leaf → β) (ls : List C08.Val → β) (cl : β → C08.Leaf)

mutual
theorem abs_conc (names : List String) (hn : names.Nodup) (hl : ∀ a, lf (cl a) = a) :
    ∀ v : Val β, WF names.length v → absV lf ls names (concV cl names v) = v
  | .leaf a, _ => by rw [concV, absV_leaf, hl]
  | .dict l, hw => by
    rw [WF] at hw
    rw [concV_dict, absV_dict]
    congr 1
    apply List.ext_getElem?
    intro i
    by_cases hi : i < names.length
    · have hk : names[i] ∈ names := List.getElem_mem hi
      have hidx : names.idxOf names[i] = i := hn.idxOf_getElem i hi
      have h1 := getSlot_absE lf ls names (concE cl names l) names[i] hk
      rw [hidx] at h1
      have h2 := lookup_concL cl names names[i] names l hn hk
      rw [hidx] at h2
      have hil : i < l.length := by omega
      have hia : i < (absE lf ls names (concE cl names l)).length := by rw [absE_length]; exact hi
      rw [List.getElem?_eq_getElem hia, List.getElem?_eq_getElem hil]
      have e1 : getSlot (absE lf ls names (concE cl names l)) i = (absE lf ls names (concE cl names l))[i] := by
        simp [getSlot, List.getElem?_eq_getElem hia]
      have e2 : getSlot l i = l[i] := by simp [getSlot, List.getElem?_eq_getElem hil]
      rw [← e1, h1, concE, h2, e2]
      cases hx : l[i] with
      | none => simp
      | some w =>
        have hmem : some w ∈ l := by rw [← hx]; exact List.getElem_mem hil
        simp only [Option.map_some]
        rw [abs_conc_mem names hn hl l hw.2 w hmem]
    · have h1 : (absE lf ls names (concE cl names l))[i]? = none := by
        apply List.getElem?_eq_none; rw [absE_length]; omega
      have h2 : l[i]? = none := by apply List.getElem?_eq_none; omega
      rw [h1, h2]
theorem abs_conc_mem (names : List String) (hn : names.Nodup) (hl : ∀ a, lf (cl a) = a) :
    ∀ (l : Slots β), WFL names.length l → ∀ w, some w ∈ l → absV lf ls names (concV cl names w) = w
  | [], _, w, h => by simp at h
  | none :: r, hw, w, h => by
    rw [WFL] at hw
    exact abs_conc_mem names hn hl r hw w (by simpa using h)
  | some v :: r, hw, w, h => by
    rw [WFL] at hw
    rcases List.mem_cons.1 h with e | e
    · have : w = v := Option.some.inj e
      subst this; exact abs_conc names hn hl w hw.1
    · exact abs_conc_mem names hn hl r hw.2 w e
end

/-- every well-formed slot vector is the slot view of an association list -/
theorem absE_concE (names : List String) (hn : names.Nodup) (hl : ∀ a, lf (cl a) = a)
    (l : Slots β) (hw : WFD names.length l) : absE lf ls names (concE cl names l) = l := by
  have := abs_conc lf ls cl names hn hl (.dict l) (by rw [WF]; exact hw)
  rw [concV_dict, absV_dict] at this
  exact Val.dict.inj this

end absconc


/-! ## 1. `update_recursively(d, other)` (functions.py:601-653)

Lean: `C07.updL` / `C07.updateRecursively` (slot vectors, any leaf type), `C13.updL` (slot vectors over
`C13.Leaf`, the loop body split differently: `updV` per value of `other`), `C08.updRec` /
`C08.updateRecursively` (association lists: the `for key, val in other.items()` loop as a fold of `setKey`). -/

section update

mutual
theorem c13_updV_eq : ∀ (v : C13.V) (d : Option C13.V), C07.updO d (some v) = some (C13.updV d v)
  | .leaf a, d => by cases d <;> simp [C07.updO, C13.updV]
  | .dict y, none => by simp [C07.updO, C13.updV]
  | .dict y, some (.leaf _) => by simp [C07.updO, C13.updV, c13_updL_eq y]
  | .dict y, some (.dict x) => by simp [C07.updO, C13.updV, c13_updL_eq y]
theorem c13_updO_eq : ∀ (u d : Option C13.V), C13.updO d u = C07.updO d u
  | none, d => by cases d <;> simp [C07.updO, C13.updO]
  | some v, d => by rw [C13.updO, c13_updV_eq v d]
theorem c13_updL_eq : ∀ (u d : C13.Ctx), C13.updL d u = C07.updL d u
  | [], d => by simp [C13.updL, C07.updL]
  | y :: r', [] => by simp [C13.updL, C07.updL, c13_updO_eq y, c13_updL_eq r']
  | y :: r', x :: r => by simp [C13.updL, C07.updL, c13_updO_eq y, c13_updL_eq r']
end

/-- **update_recursively, C13 = C07**: C13's transcription is C07's at the leaf type `C13.Leaf` — for all
slot vectors, also of different lengths; no side condition. -/
theorem updL_13_07 (d u : C13.Ctx) : C13.updL d u = C07.updL d u := c13_updL_eq u d

/-- the per-key body: C13's `updO` is C07's -/
theorem updO_13_07 (d u : Option C13.V) : C13.updO d u = C07.updO d u := c13_updO_eq u d

example : C13.updL [some (.leaf (.int 1)), some (.dict [none, some (.leaf (.str "x"))])]
      [none, some (.dict [some (.leaf (.int 2)), none])] =
    [some (.leaf (.int 1)), some (.dict [some (.leaf (.int 2)), some (.leaf (.str "x"))])] := by decide

variable {β : Type}

/-- the pointwise loop of C07 on two vectors indexed by the same table -/
theorem updL_map {ι : Type} (f g : ι → Option (Val β)) : ∀ l : List ι,
    C07.updL (l.map f) (l.map g) = l.map (fun k => C07.updO (f k) (g k))
  | [] => by simp [C07.updL]
  | k :: r => by simp [C07.updL, updL_map f g r]

variable (lf : C08.Leaf → β) (ls : List C08.Val → β) (names : List String)

/-- (auxiliary) the new item under one key, for a value `v` of `other` -/
def UpdOK (v : C08.Val) : Prop := ∀ cur : Option C08.Val,
  some (absV lf ls names (C08.updItem cur v)) =
    C07.updO (cur.map (absV lf ls names)) (some (absV lf ls names v))

theorem absE_updRec_of (o : C08.Entries) (ho : C08.EntriesWF o)
    (hv : ∀ k v, C08.lookup o k = some v → UpdOK lf ls names v) (d : C08.Entries) :
    absE lf ls names (C08.updRec d o) = C07.updL (absE lf ls names d) (absE lf ls names o) := by
  unfold absE
  rw [updL_map]
  apply List.map_congr_left
  intro k _
  rw [absSlot_eq, absSlot_eq, absSlot_eq, C08.lookup_updRec o ho d k]
  cases h : C08.lookup o k with
  | none => cases C08.lookup d k <;> simp [C07.updO]
  | some v => simpa using hv k v h _

mutual
theorem updOK_val : ∀ v : C08.Val, v.WF → UpdOK lf ls names v
  | .leaf a, _ => fun cur => by cases cur <;> simp [C08.updItem, absV_leaf, C07.updO]
  | .list xs, _ => fun cur => by cases cur <;> simp [C08.updItem, absV_list, C07.updO]
  | .dict o, hw => fun cur => by
    have hrec := absE_updRec_of lf ls names o hw (updOK_entries o hw)
    cases cur with
    | none => simp [C08.updItem, absV_dict, C07.updO]
    | some c =>
      cases c with
      | dict dk => simp [C08.updItem, absV_dict, C07.updO, hrec dk]
      | leaf a =>
        simp [C08.updItem, absV_dict, absV_leaf, C07.updO, hrec [], absE_nil, emptyLike, absE_length, Val.empty]
      | list xs =>
        simp [C08.updItem, absV_dict, absV_list, C07.updO, hrec [], absE_nil, emptyLike, absE_length, Val.empty]
theorem updOK_entries : ∀ es : C08.Entries, C08.EntriesWF es →
    ∀ k v, C08.lookup es k = some v → UpdOK lf ls names v
  | [], _, k, v, h => by simp [C08.lookup] at h
  | (k0, v0) :: r, hw, k, v, h => by
    simp only [C08.EntriesWF] at hw
    rw [C08.lookup] at h
    by_cases e : k0 = k
    · simp [e] at h; subst h; exact updOK_val v0 hw.2.1
    · simp [e] at h; exact updOK_entries r hw.2.2 k v h
end

/-- **update_recursively, C08 → C07** (the loop): the slot view of C08's `updRec d other` is C07's `updL` of
the slot views — for every key table `names`, every leaf abstraction, every `d` (duplicate keys allowed)
and every `other` without a key twice (`EntriesWF`, at every depth: what a Python dict is).
Outside the common domain: an `other` with a repeated key (not a Python dict: C08's fold would apply both
bindings in turn, the slot view sees the first only); the *insertion order* of the result, which the slot
view forgets (C08 keeps it: `to_string`, `repr`). -/
theorem updRec_08_07 (d o : C08.Entries) (ho : C08.EntriesWF o) :
    absE lf ls names (C08.updRec d o) = C07.updL (absE lf ls names d) (absE lf ls names o) :=
  absE_updRec_of lf ls names o ho (updOK_entries lf ls names o ho) d

/-- the item assigned under one key (`updItem`, the body of the loop) against C07's `updO` -/
theorem updItem_08_07 (cur : Option C08.Val) (v : C08.Val) (hv : v.WF) :
    some (absV lf ls names (C08.updItem cur v)) =
      C07.updO (cur.map (absV lf ls names)) (some (absV lf ls names v)) :=
  updOK_val lf ls names v hv cur

/-- outcomes of the whole call: C08's `Except Exc Val` against C07's `Out` -/
def outRel : Except C08.Exc C08.Val → C07.Out (Slots β) → Prop
  | .ok (.dict es), .ok l => l = absE lf ls names es
  | .error .lenaTypeError, .lenaTypeError => True
  | _, _ => False

/-- **update_recursively, C08 → C07** (the call with a non-string `other`, no `value`): the same outcome —
the updated dictionary, or `LenaTypeError` when an argument is not a dictionary (a Python list is a leaf of
the slot view).  Outside: `other` a string (section 5), `value` given with a non-string `other`
(`LenaValueError` in C08 and in `C07.updateRecursivelyX`; `C07.updateRecursively` has no `value`). -/
theorem updateRecursively_08_07 (d o : C08.Val) (ho : o.WF) :
    outRel lf ls names (C08.updateRecursively d (.val o) none)
      (C07.updateRecursively (absV lf ls names d) (absV lf ls names o)) := by
  cases d with
  | leaf a => cases o <;> simp [C08.updateRecursively, absV_leaf, absV_list, absV_dict, C07.updateRecursively, outRel]
  | list xs => cases o <;> simp [C08.updateRecursively, absV_leaf, absV_list, absV_dict, C07.updateRecursively, outRel]
  | dict de =>
    cases o with
    | leaf a => simp [C08.updateRecursively, absV_leaf, absV_dict, C07.updateRecursively, outRel]
    | list xs => simp [C08.updateRecursively, absV_list, absV_dict, C07.updateRecursively, outRel]
    | dict oe =>
      simp only [C08.updateRecursively, Option.isSome_none, Bool.false_eq_true, if_false, absV_dict,
        C07.updateRecursively, outRel]
      exact (updRec_08_07 lf ls names de oe ho).symm

/-- C08 → C13: instantiating the leaf abstraction with `leaf13` -/
theorem updRec_08_13 (d o : C08.Entries) (ho : C08.EntriesWF o) :
    absE leaf13 (fun _ => C13.Leaf.bad) names (C08.updRec d o) =
      C13.updL (absE leaf13 (fun _ => .bad) names d) (absE leaf13 (fun _ => .bad) names o) := by
  rw [updL_13_07]; exact updRec_08_07 _ _ names d o ho

example : C08.EntriesWF [("b", .dict [("a", .leaf (.int 2))]), ("c", .leaf (.str "s"))] := by
  simp [C08.EntriesWF, C08.Val.WF, C08.lookup]

example : absE leaf13 (fun _ => C13.Leaf.bad) ["a", "b"]
      (C08.updRec [("b", .leaf (.int 1)), ("a", .leaf (.int 0))] [("b", .dict [("a", .leaf (.int 2))])]) =
    [some (.leaf (.int 0)), some (.dict [some (.leaf (.int 2)), none])] := by decide

/-! ### corollaries: theorems of one model about the transcription of another -/

/-- C07's `update_idem` holds for C13's transcription (used by the static-context protocol when a context is
delivered twice) -/
theorem c13_update_idem (d u : C13.Ctx) : C13.updL (C13.updL d u) u = C13.updL d u := by
  simp only [updL_13_07]; exact C07.update_idem d u

/-- C07's `update_contains` ("other is contained in the result") for C13's transcription -/
theorem c13_update_contains (d u : C13.Ctx) : C07.contained (-1) u (C13.updL d u) = true := by
  rw [updL_13_07]; exact C07.update_contains d u

/-- C13's monotonicity of the update in the information order (`Lemmas/C13Dict.lean`) is a statement about
C07's `updL` at the leaf type `C13.Leaf` -/
theorem c07_updL_mono_13 (u a b : C13.Ctx) (h : C13.leL a b) : C13.leL (C07.updL a u) (C07.updL b u) := by
  rw [← updL_13_07, ← updL_13_07]; exact C13.updL_mono u a b h

/-- C07's `update_idem` for C08's transcription, seen through the slot view (equal up to insertion order) -/
theorem c08_update_idem (d o : C08.Entries) (ho : C08.EntriesWF o) :
    absE lf ls names (C08.updRec (C08.updRec d o) o) = absE lf ls names (C08.updRec d o) := by
  rw [updRec_08_07 lf ls names _ o ho, updRec_08_07 lf ls names d o ho]
  exact C07.update_idem _ _

/-- C07's `update_keys` for C08's transcription: a key is in the result iff it is in `d` or in `other`
(through the slot view over the one-key table `[k]`) -/
theorem c08_update_keys (d o : C08.Entries) (ho : C08.EntriesWF o) (k : String) :
    (C08.lookup (C08.updRec d o) k).isSome = ((C08.lookup d k).isSome || (C08.lookup o k).isSome) := by
  let lf : C08.Leaf → Unit := fun _ => ()
  let ls : List C08.Val → Unit := fun _ => ()
  have hk : k ∈ [k] := by simp
  have h := C07.update_keys (absE lf ls [k] d) (absE lf ls [k] o) ([k].idxOf k)
  rw [← updRec_08_07 lf ls [k] d o ho, getSlot_absE lf ls [k] _ k hk, getSlot_absE lf ls [k] _ k hk,
    getSlot_absE lf ls [k] _ k hk] at h
  simpa using h

end update

/-! ## 2. `intersection(*dicts, level=-1)` (functions.py:341-418)

Lean: `C07.interO/interL/interFold/interN` (every `level`), `C13.interV/interO/interL/interFold/interN`
(the default level only, as `LenaSplit._get_context` calls it).  The default `level = -1` is decremented
at every recursion and never reaches `0` or `1`: the agreement holds for every negative level.
Outside the common domain: levels `≥ 0` (C13 does not model them); non-dictionary arguments
(`C07.intersection` raises `LenaTypeError`, C13's callers pass dictionaries only). -/

section inter

mutual
theorem c13_interV_eq : ∀ (v w : C13.V) (lv : Int), lv < 0 →
    C07.interO lv (some v) (some w) = C13.interV v w
  | .leaf a, w, lv, h => by
    have h1 : lv ≠ 1 := by omega
    by_cases e : w = .leaf a
    · subst e; simp [C07.interO, C13.interV]
    · cases w <;> simp [C07.interO, C13.interV, e, h1]
  | .dict x, w, lv, h => by
    have h1 : lv ≠ 1 := by omega
    have h2 : lv - 1 ≠ 0 := by omega
    by_cases e : w = .dict x
    · subst e; simp [C07.interO, C13.interV]
    · cases w with
      | leaf b => simp [C07.interO, C13.interV, h1]
      | dict y => simp [C07.interO, C13.interV, e, h1, h2, c13_interL_eq x y (lv - 1) (by omega)]
theorem c13_interO_eq : ∀ (a b : Option C13.V) (lv : Int), lv < 0 → C07.interO lv a b = C13.interO a b
  | none, b, lv, _ => by cases b <;> simp [C07.interO, C13.interO]
  | some v, none, lv, _ => by simp [C07.interO, C13.interO]
  | some v, some w, lv, h => by rw [C13.interO, c13_interV_eq v w lv h]
theorem c13_interL_eq : ∀ (a b : C13.Ctx) (lv : Int), lv < 0 → C07.interL lv a b = C13.interL a b
  | [], b, lv, _ => by simp [C07.interL, C13.interL]
  | x :: r, [], lv, h => by simp [C07.interL, C13.interL, c13_interO_eq x none lv h, c13_interL_eq r [] lv h]
  | x :: r, y :: r', lv, h => by
    simp [C07.interL, C13.interL, c13_interO_eq x y lv h, c13_interL_eq r r' lv h]
end

/-- **intersection, C13 = C07** (one pass of the loop `for key in res:` with its recursion): at every
negative level C07's `interL` is C13's, for all slot vectors -/
theorem interL_13_07 (lv : Int) (h : lv < 0) (a b : C13.Ctx) : C07.interL lv a b = C13.interL a b :=
  c13_interL_eq a b lv h

/-- the loop `for d in dicts[1:]:` with its early return -/
theorem interFold_13_07 (lv : Int) (h : lv < 0) : ∀ (ds : List C13.Ctx) (res : C13.Ctx),
    C07.interFold lv res ds = C13.interFold res ds
  | [], res => by simp [C07.interFold, C13.interFold]
  | d :: ds, res => by
    have h0 : lv ≠ 0 := by omega
    rw [C07.interFold, C13.interFold]
    simp only [h0, if_false, interL_13_07 lv h]
    split
    · exact interFold_13_07 lv h ds _
    · rfl

/-- **intersection, C13 = C07** (the whole function on dictionaries): `C13.interN n` is `C07.interN n lv` for
every negative `lv`, in particular for the default `-1` -/
theorem interN_13_07 (n : Nat) (lv : Int) (h : lv < 0) (ds : List C13.Ctx) :
    C07.interN n lv ds = C13.interN n ds := by
  cases ds with
  | nil => rfl
  | cons d ds => exact interFold_13_07 lv h ds d

/-- the call on arbitrary values: for dictionaries C07's `intersection` returns C13's `interN` -/
theorem intersection_13_07 (n : Nat) (ds : List C13.Ctx) :
    C07.intersection n (-1) (ds.map Val.dict) = .ok (C13.interN n ds) := by
  rw [(C07.intersection_error_iff n (-1) (ds.map Val.dict)).2 ds rfl, interN_13_07 n (-1) (by decide)]

example : C13.interN 2 [[some (.leaf (.int 1)), some (.dict [some (.leaf (.int 5)), some (.leaf (.str "x"))])],
      [some (.leaf (.int 1)), some (.dict [some (.leaf (.int 5)), none])]] =
    [some (.leaf (.int 1)), some (.dict [some (.leaf (.int 5)), none])] := by decide

/-- `LenaSplit._get_context` as C07Ext transcribes it is C13's `interN` -/
theorem splitGetContext_13_07 (n : Nat) (ctxs : List C13.Ctx) :
    C07.splitGetContext n ctxs = C13.interN n ctxs :=
  interN_13_07 n (-1) (by decide) ctxs

/-! ### corollaries -/

/-- C07's `inter_perm` for C13: the context a `Split` exports does not depend on the order of its branches -/
theorem c13_inter_perm (n : Nat) (ds ds' : List C13.Ctx) (hp : ds.Perm ds') (hw : ∀ d ∈ ds, WFD n d) :
    C13.interN n ds = C13.interN n ds' := by
  rw [← interN_13_07 n (-1) (by decide), ← interN_13_07 n (-1) (by decide)]
  exact C07.inter_perm n (-1) ds ds' hp hw

/-- C07's `inter_lower` / `inter_greatest` for C13, in C07's executable containment `⊑` -/
theorem c13_inter_glb (n : Nat) (ds : List C13.Ctx) :
    (∀ d ∈ ds, C07.contained (-1) (C13.interN n ds) d = true) ∧
    (ds ≠ [] → ∀ c : C13.Ctx, (∀ d ∈ ds, C07.contained (-1) c d = true) →
      C07.contained (-1) c (C13.interN n ds) = true) := by
  rw [← interN_13_07 n (-1) (by decide)]
  exact ⟨fun d hd => C07.inter_lower n (-1) ds d hd, fun hne c hc => C07.inter_greatest n (-1) ds c hne hc⟩

/-- C07's reconstruction law (`reconstruct`) with C13's transcriptions of both `intersection` and
`update_recursively`: updating the common part with the difference gives the dictionary back -/
theorem c13_reconstruct (truthy : C13.Leaf → Bool) (n : Nat) (a b : C13.Ctx) :
    C13.updL (C13.interN n [a, b]) (C07.difference truthy (-1) a b) = a := by
  rw [updL_13_07, ← interN_13_07 n (-1) (by decide)]
  exact C07.reconstruct truthy n (-1) a b

/-- C13's greatest-lower-bound property in *its* information order (`interN_is_meet`) is a statement about
C07's `interN` at level −1 -/
theorem c07_interN_is_meet_13 (n : Nat) (xs : List C13.Ctx) (hne : xs ≠ []) :
    (∀ x ∈ xs, C13.leL (C07.interN n (-1) xs) x) ∧
      ∀ y : C13.Ctx, (∀ x ∈ xs, C13.leL y x) → C13.leL y (C07.interN n (-1) xs) := by
  rw [interN_13_07 n (-1) (by decide)]
  exact C13.interN_is_meet n xs hne

end inter
end Lena.Bridge.Context
