import LenaModel.Model.C03
import LenaModel.Model.Flow
/-! # C04 model — object identity (tokens) in `Split`, `Zip._fill` and the accumulators

Transcription, at the level of *object identity*, of the code as it is in /repo's working tree
(after `4134250 fix: Histogram.compute and VarianceMeanCount.compute yield a copy of the context`):

* `Split.run` (`lena/core/split.py:313-417`) with its copy policy
  `if self._copy_buf and n_of_active_seqs - ind > 1: buf = copy.deepcopy(orig_buf) else: buf = orig_buf`
  (`blockLoop`, `outerLoop`, `finalPass`, `Split.runTrace`), `Split._fill` (`splitFill`: a deep copy
  for every branch but the last), `Split._compute`/`_request`, `Zip._fill` (`zipFill`: a deep copy
  for every branch);
* the accumulators `Sum`, `DSum`, `Mean` (also with a `sum_seq`), `VarianceMeanCount`, `Vectorize`
  (`lena/math/elements.py`), `Count`, `StoreFilled` (`lena/flow/elements.py`), `Histogram`
  (`lena/structures/histogram.py:437-450`), `SplitIntoBins` (`lena/structures/split_into_bins.py:335-410`):
  which object `fill` keeps in `_cur_context`, and which object `compute` yields;
* the per-value elements that mutate data and context in place: `Variable.__call__`,
  `UpdateContext.__call__`, `MakeFilename.__call__`, `Count.fill_into`/`Count.run`, `Slice.fill_into`
  and two user elements of the harness (`Tag`, `AppendData`).

## Token semantics (DESIGN.md section 2, "ownership tokens")

Every mutable Python object that matters — the context dictionary of a flow value, a data list —
is a *cell* with an identity `Tok`; the shared heap `Store` gives the current content of every
cell.  A flow value (`Item`) is an immutable skeleton plus the cells it refers to.  Mutation in
place is `Store.set`; `copy.deepcopy` allocates new cells with the same contents (one memo per
call, as Python does, so aliasing inside the copied object is preserved).  Objects nested inside
a cell (sub-dictionaries of a context) belong to that cell: the model elements never share
them between cells, and the harness checks on the real `id()` graph that the real elements do not
either.

Tokens are pairs `(namespace, serial)`: namespace `0` is everything that exists upstream (the
input flow), namespace `2 i + 3` the deep copies that `Split`/`Zip` make for branch number `i`
(serials from one global counter), namespace `2 i + 2` the objects allocated by branch number `i`
itself (its own counter).  Any injective naming scheme models Python's "a new object is different
from every existing object"; this one makes the objects of a branch independent of what the other
branches allocate, and lets one read off a copy for whom it was made.

The code that runs inside one method invocation (the elements and accumulators) is written in the
state monad `M` over the heap and the branch's own allocation counter, with the primitives
`allocM` (a new object), `readM`, `writeM`/`updM` (mutation in place), `copyM`
(`copy.deepcopy` of one object), so that a `do` block reads like the Python it transcribes.

No imports except `Model/C03.lean` (`Kind`, `readBlock`) and `Model/Flow.lean` (`Value`, `dictSet`). -/

namespace Lena.C04

open Lena.C03 (Kind readBlock)
open Lena.Flow (Value Ctx dictSet)

/-- identity of a mutable object: `(namespace, serial)` -/
abbrev Tok := Nat × Nat

/-- namespace of the objects that exist before `Split` sees them -/
def upNs : Nat := 0
/-- namespace of the deep copies made by `Split.run`, `Split._fill`, `Zip._fill` for branch number `i` -/
def copyNsOf (i : Nat) : Nat := 2 * i + 3
/-- namespace of the objects allocated by the branch with number `i` -/
def ownNs (i : Nat) : Nat := 2 * i + 2

/-- a flow value: immutable skeleton + the mutable objects it refers to, in a fixed order -/
structure Item (S : Type) where
  skel : S
  cells : List Tok
  deriving Repr

/-- the heap: content of every cell -/
abbrev Store (C : Type) := Tok → C

/-- mutation in place of object `t` -/
def Store.set {C : Type} (st : Store C) (t : Tok) (c : C) : Store C :=
  fun u => if u = t then c else st u

variable {σ S C : Type}

/-- all objects a list of values refers to -/
def cellsOf (xs : List (Item S)) : List Tok := xs.flatMap (·.cells)

/-! ## `copy.deepcopy` -/

/-- state of one `copy.deepcopy` call: heap, allocation counter, memo (old object ↦ its copy) -/
structure CopySt (C : Type) where
  st : Store C
  ctr : Nat
  memo : List (Tok × Tok)

/-- copy the objects `ts` into namespace `ns`: an object already in the memo is not copied again -/
def copyCells (ns : Nat) : CopySt C → List Tok → CopySt C × List Tok
  | c, [] => (c, [])
  | c, t :: ts =>
    match c.memo.lookup t with
    | some t' =>
      let r := copyCells ns c ts
      (r.1, t' :: r.2)
    | none =>
      let t' : Tok := (ns, c.ctr)
      let r := copyCells ns { st := c.st.set t' (c.st t), ctr := c.ctr + 1, memo := (t, t') :: c.memo } ts
      (r.1, t' :: r.2)

def copyItems (ns : Nat) : CopySt C → List (Item S) → CopySt C × List (Item S)
  | c, [] => (c, [])
  | c, x :: xs =>
    let r := copyCells ns c x.cells
    let q := copyItems ns r.1 xs
    (q.1, { x with cells := r.2 } :: q.2)

/-- the shared world of one `Split`: the heap and the counter of the copies made so far -/
structure World (C : Type) where
  st : Store C
  cc : Nat

/-- `copy.deepcopy(buf)` (one call, one memo); the new objects are named in namespace `ns` -/
def deepcopy (ns : Nat) (w : World C) (buf : List (Item S)) : World C × List (Item S) :=
  let r := copyItems ns { st := w.st, ctr := w.cc, memo := [] } buf
  ({ st := r.1.st, cc := r.1.ctr }, r.2)

/-! ## branches as objects -/

/-- a method invocation on a branch object -/
inductive Req (S : Type) where
  | call
  | fill (x : Item S)
  | compute
  | request
  | run (buf : List (Item S))
  deriving Repr

/-- the objects passed with an invocation -/
def Req.cells : Req S → List Tok
  | .fill x => x.cells
  | .run buf => cellsOf buf
  | _ => []

/-- what an invocation returns: the values yielded (the generator consumed to the end), whether
`fill` raised `LenaStopFill`, and any other exception (class name) -/
structure Resp (S : Type) where
  outs : List (Item S) := []
  stopped : Bool := false
  err : Option String := none
  deriving Repr

/-- A branch object: `act` is the effect of a method invocation on the shared heap and on the
private state of the object; `refs` the objects that the private state refers to. -/
structure Ops (σ S C : Type) where
  act : Store C → σ → Req S → Store C × σ × Resp S
  refs : σ → List Tok

structure Branch (σ S C : Type) where
  id : Nat
  kind : Kind
  ops : Ops σ S C
  st : σ

/-- observable events of a run -/
inductive Ev (S C : Type) where
  /-- the buffer bound to `buf` for branch `i` (split.py:334-338); `copied` = it is a deep copy -/
  | hand (i : Nat) (buf : List (Item S)) (copied : Bool)
  | fill (i : Nat) (x : Item S) (stopped : Bool)
  | call (i : Nat)
  | compute (i : Nat)
  | request (i : Nat)
  | run (i : Nat) (buf : List (Item S))
  /-- a value yielded on behalf of branch `i`, with the contents of its objects at that moment -/
  | out (i : Nat) (v : Item S) (snap : List C)
  | assertFail

def Ev.branch : Ev S C → Option Nat
  | .hand i _ _ => some i
  | .fill i _ _ => some i
  | .call i => some i
  | .compute i => some i
  | .request i => some i
  | .run i _ => some i
  | .out i _ _ => some i
  | .assertFail => none

/-- the events of branch `i`, in order -/
def proj (i : Nat) (tr : List (Ev S C)) : List (Ev S C) := tr.filter (fun e => e.branch == some i)

/-- `for val in results: yield val` -/
def outsEv (i : Nat) (st : Store C) (vals : List (Item S)) : List (Ev S C) :=
  vals.map (fun v => Ev.out i v (v.cells.map st))

/-- the values yielded, in order -/
def outputs : List (Ev S C) → List (Item S)
  | [] => []
  | .out _ v _ :: r => v :: outputs r
  | _ :: r => outputs r

/-- result of filling one buffer -/
structure FillRes (σ S C : Type) where
  evs : List (Ev S C)
  st : Store C
  s : σ
  stopped : Bool

/-- split.py:350-356 / 368-374: `for val in buf: try: seq.fill(val) except LenaStopFill: stopped = True; break` -/
def fillBuf (i : Nat) (ops : Ops σ S C) : Store C → σ → List (Item S) → FillRes σ S C
  | st, s, [] => ⟨[], st, s, false⟩
  | st, s, x :: xs =>
    let r := ops.act st s (.fill x)
    if r.2.2.stopped then ⟨[.fill i x true], r.1, r.2.1, true⟩
    else
      let q := fillBuf i ops r.1 r.2.1 xs
      ⟨.fill i x false :: q.evs, q.st, q.s, q.stopped⟩

/-- result of one branch processing one buffer; `br = none`: deleted from `active_seqs` -/
structure StepRes (σ S C : Type) where
  evs : List (Ev S C)
  st : Store C
  br : Option (Branch σ S C)

/-- the body of the loop over active sequences for one branch and its buffer (split.py:339-395) -/
def stepBranch (buf : List (Item S)) (st : Store C) (b : Branch σ S C) : StepRes σ S C :=
  match b.kind with
  | .source =>
    let r := b.ops.act st b.st .call
    ⟨.call b.id :: outsEv b.id r.1 r.2.2.outs, r.1, none⟩
  | .fillCompute =>
    let f := fillBuf b.id b.ops st b.st buf
    if f.stopped then
      let r := b.ops.act f.st f.s .compute
      ⟨f.evs ++ .compute b.id :: outsEv b.id r.1 r.2.2.outs, r.1, none⟩
    else ⟨f.evs, f.st, some { b with st := f.s }⟩
  | .fillRequest =>
    let f := fillBuf b.id b.ops st b.st buf
    let r := b.ops.act f.st f.s .request
    ⟨f.evs ++ .request b.id :: outsEv b.id r.1 r.2.2.outs, r.1,
      if f.stopped then none else some { b with st := r.2.1 }⟩
  | .sequence =>
    let r := b.ops.act st b.st (.run buf)
    ⟨.run b.id buf :: outsEv b.id r.1 r.2.2.outs, r.1, some { b with st := r.2.1 }⟩

/-- split.py:334-338: `if self._copy_buf and n_of_active_seqs - ind > 1: buf = copy.deepcopy(orig_buf)
else: buf = orig_buf`; `more` is the value of `n_of_active_seqs - ind > 1` -/
def chooseBuf (copyBuf more : Bool) (orig : List (Item S)) (ns : Nat) (w : World C) :
    World C × List (Item S) × Bool :=
  if copyBuf && more then
    let r := deepcopy ns w orig
    (r.1, r.2, true)
  else (w, orig, false)

/-- `while ind < n_of_active_seqs:` (split.py:332-396), fuel `len(active_seqs) + 1` -/
def blockLoop (copyBuf : Bool) (orig : List (Item S)) :
    Nat → Nat → List (Branch σ S C) → World C → List (Ev S C) → List (Ev S C) × List (Branch σ S C) × World C
  | 0, _, act, w, acc => (acc, act, w)
  | fuel + 1, ind, act, w, acc =>
    if h : ind < act.length then
      let b := act[ind]
      let c := chooseBuf copyBuf (decide (act.length - ind > 1)) orig (copyNsOf b.id) w
      let r := stepBranch c.2.1 c.1.st b
      match r.br with
      | none =>
        blockLoop copyBuf orig fuel ind (act.eraseIdx ind) { c.1 with st := r.st }
          (acc ++ .hand b.id c.2.1 c.2.2 :: r.evs)
      | some b' =>
        blockLoop copyBuf orig fuel (ind + 1) (act.set ind b') { c.1 with st := r.st }
          (acc ++ .hand b.id c.2.1 c.2.2 :: r.evs)
    else (acc, act, w)

/-- `while True:` (split.py:320-397): read a buffer; `break` if it is empty; one pass over the
active sequences.  Fuel `len(flow) + 1`. -/
def outerLoop (copyBuf : Bool) (bufsize : Option Nat) :
    Nat → List (Item S) → List (Branch σ S C) → World C → List (Ev S C) → Bool →
      List (Ev S C) × List (Branch σ S C) × World C × Bool
  | 0, _, act, w, acc, fwe => (acc, act, w, fwe)
  | fuel + 1, flow, act, w, acc, fwe =>
    let rb := readBlock bufsize flow
    if rb.1.isEmpty then (acc, act, w, fwe)
    else
      let r := blockLoop copyBuf rb.1 (act.length + 1) 0 act w acc
      outerLoop copyBuf bufsize fuel rb.2 r.2.1 r.2.2 r.1 false

/-- the final pass (split.py:400-417) -/
def finalPass (fwe : Bool) : Store C → List (Branch σ S C) → List (Ev S C) × Store C
  | st, [] => ([], st)
  | st, b :: rest =>
    match b.kind with
    | .source =>
      if fwe then
        let r := b.ops.act st b.st .call
        let q := finalPass fwe r.1 rest
        (.call b.id :: outsEv b.id r.1 r.2.2.outs ++ q.1, q.2)
      else ([.assertFail], st)
    | .fillCompute =>
      let r := b.ops.act st b.st .compute
      let q := finalPass fwe r.1 rest
      (.compute b.id :: outsEv b.id r.1 r.2.2.outs ++ q.1, q.2)
    | .fillRequest =>
      if fwe then
        let r := b.ops.act st b.st .request
        let q := finalPass fwe r.1 rest
        (.request b.id :: outsEv b.id r.1 r.2.2.outs ++ q.1, q.2)
      else finalPass fwe st rest
    | .sequence =>
      if fwe then
        let r := b.ops.act st b.st (.run [])
        let q := finalPass fwe r.1 rest
        (.run b.id [] :: outsEv b.id r.1 r.2.2.outs ++ q.1, q.2)
      else finalPass fwe st rest

/-- a constructed `Split` -/
structure Split (σ S C : Type) where
  branches : List (Branch σ S C)
  bufsize : Option Nat
  copyBuf : Bool

/-- `Split.run(flow)` started on heap `st0`: the event trace and the heap afterwards -/
def Split.runTrace (s : Split σ S C) (st0 : Store C) (flow : List (Item S)) : List (Ev S C) × Store C :=
  let r := outerLoop s.copyBuf s.bufsize (flow.length + 1) flow s.branches { st := st0, cc := 0 } [] true
  let f := finalPass r.2.2.2 r.2.2.1.st r.2.1
  (r.1 ++ f.1, f.2)

/-- what `split.run(flow)` yields and the heap afterwards: `__init__` rebinds `run` to `_empty_run` when
`seqs` is empty (split.py:223-224, 275-278: `for val in flow: yield val` — the values themselves) -/
def Split.run (s : Split σ S C) (st0 : Store C) (flow : List (Item S)) : List (Item S) × Store C :=
  if s.branches.isEmpty then (flow, st0)
  else (outputs (s.runTrace st0 flow).1, (s.runTrace st0 flow).2)

/-! ## `Split._fill`, `Zip._fill`, `_compute`, `_request` -/

/-- result of filling one value into the branches of a `Split` / `Zip` -/
structure FillAllRes (σ S C : Type) where
  evs : List (Ev S C)
  w : World C
  brs : List (Branch σ S C)
  stopped : Bool

/-- `seq.fill(copy.deepcopy(val))` / `seq.fill(val)` for one branch -/
def fillOne (copied : Bool) (x : Item S) (w : World C) (b : Branch σ S C) :
    List (Ev S C) × World C × Branch σ S C × Bool :=
  let c : World C × List (Item S) := if copied then deepcopy (copyNsOf b.id) w [x] else (w, [x])
  let y := c.2.headD x
  let r := b.ops.act c.1.st b.st (.fill y)
  ([.hand b.id [y] copied, .fill b.id y r.2.2.stopped], { c.1 with st := r.1 }, { b with st := r.2.1 }, r.2.2.stopped)

/-- `Split._fill(val)` (split.py:257-263): `for seq in self._seqs[:-1]: seq.fill(copy.deepcopy(val))`
(`seq.fill(val)` without `copy_buf`), then `self._seqs[-1].fill(val)`.  A `LenaStopFill` is not
caught: the remaining branches do not receive the value. -/
def splitFill (copyBuf : Bool) (x : Item S) : World C → List (Branch σ S C) → FillAllRes σ S C
  | w, [] => ⟨[], w, [], false⟩
  | w, b :: rest =>
    let r := fillOne (copyBuf && !rest.isEmpty) x w b
    if r.2.2.2 then ⟨r.1, r.2.1, r.2.2.1 :: rest, true⟩
    else
      let q := splitFill copyBuf x r.2.1 rest
      ⟨r.1 ++ q.evs, q.w, r.2.2.1 :: q.brs, q.stopped⟩

/-- `Zip._fill(val)` (zip.py:100-102): `for seq in self._sequences: seq.fill(copy.deepcopy(val))` -/
def zipFill (x : Item S) : World C → List (Branch σ S C) → FillAllRes σ S C
  | w, [] => ⟨[], w, [], false⟩
  | w, b :: rest =>
    let r := fillOne true x w b
    if r.2.2.2 then ⟨r.1, r.2.1, r.2.2.1 :: rest, true⟩
    else
      let q := zipFill x r.2.1 rest
      ⟨r.1 ++ q.evs, q.w, r.2.2.1 :: q.brs, q.stopped⟩

/-- a caller that fills a whole flow: `for val in flow: split.fill(val)`, stopping at `LenaStopFill` -/
def fillFlow (fill1 : Item S → World C → List (Branch σ S C) → FillAllRes σ S C) :
    World C → List (Branch σ S C) → List (Item S) → FillAllRes σ S C
  | w, brs, [] => ⟨[], w, brs, false⟩
  | w, brs, x :: xs =>
    let r := fill1 x w brs
    if r.stopped then r
    else
      let q := fillFlow fill1 r.w r.brs xs
      ⟨r.evs ++ q.evs, q.w, q.brs, q.stopped⟩

/-- `Split._compute()` / `Split._request()`: `for seq in self._seqs: for val in seq.compute(): yield val` -/
def collect (req : Req S) (ev : Nat → Ev S C) : Store C → List (Branch σ S C) → List (Ev S C) × Store C × List (Branch σ S C)
  | st, [] => ([], st, [])
  | st, b :: rest =>
    let r := b.ops.act st b.st req
    let q := collect req ev r.1 rest
    (ev b.id :: outsEv b.id r.1 r.2.2.outs ++ q.1, q.2.1, { b with st := r.2.1 } :: q.2.2)

/-! ## accumulators: which object is kept, which object is yielded

Concrete heap: every cell holds a `Value` (a `dict` for a context, a `list` for a data list). -/

/-- skeleton of a flow value of the harness: `data = some v` is immutable data, `none` says that the
data is a mutable list, the first cell; `hasCtx` says that the value is a `(data, context)` pair
whose context is the last cell -/
structure Skel where
  data : Option Value
  hasCtx : Bool
  /-- for a *group* (a list of flow values, as `StoreFilled(yield_as_a_group=True)` and `GroupBy` yield):
  the skeletons `(data, hasCtx)` of its members; the first cell is the list object, then the cells of
  the members follow in order -/
  parts : List (Option Value × Bool) := []
  deriving Repr

abbrev HItem := Item Skel

def HItem.ctxTok (x : HItem) : Option Tok := if x.skel.hasCtx then x.cells.getLast? else none
def HItem.dataTok (x : HItem) : Option Tok := if x.skel.data.isNone then x.cells.head? else none

/-- `(data, context)` with the data part of `x` and context object `c` -/
def HItem.withCtx (x : HItem) (c : Tok) : HItem :=
  { skel := { x.skel with hasCtx := true }, cells := (x.dataTok.toList) ++ [c] }

/-- a value with immutable data `d`; `c = none`: bare data -/
def mkItem (d : Value) (c : Option Tok) : HItem :=
  { skel := { data := some d, hasCtx := c.isSome }, cells := c.toList }

/-- a group: the list object `l` holding the values `members` -/
def mkGroup (l : Tok) (members : List HItem) : HItem :=
  { skel := { data := some (.str "<group>"), hasCtx := false,
              parts := members.map (fun m => (m.skel.data, m.skel.hasCtx)) },
    cells := l :: cellsOf members }

/-- private part of the world during one invocation: heap + allocation counter of the object's own
namespace -/
structure PW where
  st : Store Value
  ctr : Nat

/-- a piece of Python code that runs inside one invocation: it reads and writes the heap and creates
objects (state monad over `PW`) -/
def M (α : Type) : Type := PW → PW × α

/-- run the code in a private world -/
def M.run {α : Type} (k : M α) (w : PW) : PW × α := k w

instance : Monad M where
  pure a := fun w => (w, a)
  bind k g := fun w => (g (k.run w).2).run (k.run w).1

/-- a new object with content `c`, named in namespace `ns` -/
def allocM (ns : Nat) (c : Value) : M Tok :=
  fun w => ({ st := w.st.set (ns, w.ctr) c, ctr := w.ctr + 1 }, (ns, w.ctr))

/-- the content of object `t` -/
def readM (t : Tok) : M Value := fun w => (w, w.st t)

/-- mutation in place: object `t` gets the content `v` -/
def writeM (t : Tok) (v : Value) : M Unit := fun w => ({ w with st := w.st.set t v }, ())

/-- mutation in place by a function of the old content -/
def updM (t : Tok) (f : Value → Value) : M Unit := do
  let v ← readM t
  writeM t (f v)

/-- `copy.deepcopy(obj)` of one object -/
def copyM (ns : Nat) (t : Tok) : M Tok := do
  let v ← readM t
  allocM ns v

def ctxOf : Value → Ctx
  | .dict kvs => kvs
  | _ => []

/-- `not context` -/
def ctxEmpty (v : Value) : Bool := (ctxOf v).isEmpty

/-! Python's `==` on plain values (dictionaries compare without regard to the order of insertion) -/
mutual
def Value.eqv : Value → Value → Bool
  | .int a, .int b => a == b
  | .str a, .str b => a == b
  | .quot a b, .quot c d => a == c && b == d
  | .list xs, .list ys => eqvList xs ys
  | .tup xs, .tup ys => eqvList xs ys
  | .dict kvs, .dict kvs' => kvs.length == kvs'.length && eqvKvs kvs kvs'
  | _, _ => false
def eqvList : List Value → List Value → Bool
  | [], [] => true
  | x :: xs, y :: ys => Value.eqv x y && eqvList xs ys
  | _, _ => false
def eqvKvs : List (String × Value) → List (String × Value) → Bool
  | [], _ => true
  | (k, v) :: rest, l =>
    (match l.lookup k with
      | some v' => Value.eqv v v'
      | none => false) && eqvKvs rest l
end

/-- `data, context = lena.flow.get_data_context(value)`: the context object of a pair; for a bare
value a new `{}` -/
def getCtx (ns : Nat) (x : HItem) : M Tok :=
  match x.ctxTok with
  | some c => pure c
  | none => allocM ns (.dict [])

/-- `math.elements._maybe_with_context(data, context)`: `(data, context)` if the context is not
empty, else `data` -/
def maybeWithContext (d : Value) (c : Tok) : M HItem := do
  let v ← readM c
  match ctxEmpty v with
  | true => pure (mkItem d none)
  | false => pure (mkItem d (some c))

/-- the `sum_seq` of a `Mean` -/
inductive SumSeq where
  /-- `Mean(Sum())` -/
  | sum
  /-- `Mean(DSum())` -/
  | dsum
  /-- `Mean(Split([Sum(), Count(name)]))`: yields the sum and `(count, {name: count})` -/
  | sumCount (name : String)
  deriving Repr, DecidableEq

inductive AccKind where
  | sum
  | dsum
  | count (name : String)
  | mean (sumSeq : Option SumSeq) (passOnEmpty : Bool)
  | vmc (corrected passOnEmpty : Bool)
  /-- `Vectorize(Sum(), dim)` -/
  | vectorize (dim : Nat)
  | histogram
  /-- `SplitIntoBins(Sum(), Variable(var, ident), [lo, …, hi])`: in range iff `lo ≤ data < hi` -/
  | sib (var : String) (lo hi : Int)
  /-- `StoreFilled(yield_as_a_group=False)`: yields the filled values themselves (by specification) -/
  | store
  /-- a user element of the harness: `fill` keeps the value, `compute` yields the last value itself -/
  | keepLast
  /-- a user fill/request element: `request` yields `(total, copy.deepcopy(context))` and goes on -/
  | reqSum
  /-- a user fill/request element: `request` yields the stored values themselves and forgets them -/
  | reqStore
  /-- `Vectorize([Sum(), Mean()])` -/
  | vecList
  /-- `lena.structures.Graph()` (`fill`/`compute`, contexts without "scale") -/
  | graph
  /-- `StoreFilled(yield_as_a_group=True)`: yields a new list of the filled values -/
  | storeGroup
  /-- `GroupBy(key)`: yields its internal lists of the filled values, one per value of `context[key]` -/
  | groupBy (key : String)
  /-- `Mean(Split([Sum()] + [Count(name) for name in names]))`: `1 + len(names)` values per `compute()` -/
  | meanCounts (names : List String)
  /-- `Vectorize(Mean(Split([Sum()] + (k-1) * [Count()])), dim=2)`: `k` values per `compute()` -/
  | vecMulti (k : Nat)
  /-- `SplitIntoBins(Split(k * [Sum()]), Variable(var, ident), [lo, …, hi])`: `k` values per `compute()` -/
  | sibMulti (var : String) (lo hi : Int) (k : Nat)
  /-- `lena.structures.NumpyHistogram(bins=[0, 1, 2, 3, 4], reset=False)` (`fill`/`request`,
  lena/structures/numpy_histogram.py); with `reset=True` a `request()` is this `request()` followed by `reset()` -/
  | numpyHist
  deriving Repr, DecidableEq

/-- state of an accumulator: `_total`/`_sum`, `_count`/`count`, `_cur_context` (`none`: the `{}` that
`__init__` created, which nothing else refers to), `group` -/
structure AccSt where
  total : Int := 0
  count : Nat := 0
  cur : Option Tok := none
  group : List HItem := []
  /-- `GroupBy.groups`: key ↦ (the list object, its members), in insertion order -/
  groups : List (Option Value × Tok × List HItem) := []
  deriving Repr

/-- the objects of `GroupBy.groups` -/
def groupsCells : List (Option Value × Tok × List HItem) → List Tok
  | [] => []
  | g :: rest => g.2.1 :: cellsOf g.2.2 ++ groupsCells rest

def AccSt.refs (s : AccSt) : List Tok := s.cur.toList ++ cellsOf s.group ++ groupsCells s.groups

/-- the integer data of a value (the harness fills integers; a mutable list counts as 0) -/
def dataInt (x : HItem) : Int :=
  match x.skel.data with
  | some (.int i) => i
  | some (.tup (.int i :: _)) => i
  | _ => 0

/-- the object `self._cur_context`; the private initial `{}` is allocated when it is first needed -/
def curTok (ns : Nat) (s : AccSt) : M Tok :=
  match s.cur with
  | some c => pure c
  | none => allocM ns (.dict [])

/-- equality of `GroupBy` keys (`to_string` of the selected sub-context) -/
def keyEq : Option Value → Option Value → Bool
  | none, none => true
  | some a, some b => Value.eqv a b
  | _, _ => false

/-- `key in self.groups` -/
def groupFind (k : Option Value) : List (Option Value × Tok × List HItem) → Bool
  | [] => false
  | g :: rest => keyEq k g.1 || groupFind k rest

/-- `self.groups[key].append(val)` -/
def groupAppend (k : Option Value) (x : HItem) : List (Option Value × Tok × List HItem) →
    List (Option Value × Tok × List HItem)
  | [] => []
  | g :: rest => if keyEq k g.1 then (g.1, g.2.1, g.2.2 ++ [x]) :: rest else g :: groupAppend k x rest

/-- the loop `for …: yield make(copy.deepcopy(context))` of the multi-valued `compute()`s: `k` values, each
made from its own deep copy of the object `c` -/
def yieldCopies (ns : Nat) (c : Tok) (mk : Tok → M HItem) : Nat → M (List HItem)
  | 0 => pure []
  | k + 1 => do
    let d ← copyM ns c
    let y ← mk d
    let r ← yieldCopies ns c mk k
    pure (y :: r)

/-- `Mean.compute`, the loop over `sums[1:]` when they are `(count, {name: count})`: for each a deep copy of the
current context, updated with `{name: count}` -/
def yieldCounts (ns : Nat) (c : Tok) (count : Nat) : List String → M (List HItem)
  | [] => pure []
  | name :: rest => do
    let e ← copyM ns c
    updM e (fun v => .dict (dictSet (ctxOf v) name (.int count)))
    let r ← yieldCounts ns c count rest
    pure (mkItem (.int count) (some e) :: r)

/-- `fill(value)` of the accumulators -/
def accFill (ns : Nat) (k : AccKind) (s : AccSt) (x : HItem) : M AccSt :=
  match k with
  | .sum | .dsum | .reqSum => do
    -- data, context = get_data_context(value); self._total += data; self._cur_context = context
    let c ← getCtx ns x
    pure { s with total := s.total + dataInt x, cur := some c }
  | .count _ => do
    -- self.count += 1; self._cur_context = lena.flow.get_context(value)
    let c ← getCtx ns x
    pure { s with count := s.count + 1, cur := some c }
  | .mean _ _ | .vmc _ _ => do
    -- data, context = get_data_context(value); (sums filled with data); self._count += 1; self._cur_context = context
    let c ← getCtx ns x
    pure { s with total := s.total + dataInt x, count := s.count + 1, cur := some c }
  | .vectorize _ => do
    let c ← getCtx ns x
    pure { s with cur := some c }
  | .vecMulti _ => do
    let c ← getCtx ns x
    pure { s with count := s.count + 1, cur := some c }
  | .meanCounts _ => do
    let c ← getCtx ns x
    pure { s with total := s.total + dataInt x, count := s.count + 1, cur := some c }
  | .sibMulti _ lo hi _ => do
    let c ← getCtx ns x
    let d ← copyM ns c
    if dataInt x < lo || dataInt x ≥ hi then pure s
    else pure { s with total := s.total + dataInt x, cur := some d }
  | .histogram => do
    -- data, self._cur_context = lena.flow.get_data_context(value)
    let c ← getCtx ns x
    pure { s with count := s.count + 1, cur := some c }
  | .numpyHist => do
    -- NumpyHistogram.fill: data, context = get_data_context(val); self._data.append(data); self._cur_context = context
    let c ← getCtx ns x
    pure { s with count := s.count + 1, cur := some c }
  | .sib _ lo hi => do
    -- data, context = get_data_context(val); context = copy.deepcopy(context)
    let c ← getCtx ns x
    let d ← copyM ns c
    -- underflow / overflow: return
    if dataInt x < lo || dataInt x ≥ hi then pure s
    -- subarr.fill(val); self._cur_context = context
    else pure { s with total := s.total + dataInt x, cur := some d }
  | .store | .keepLast | .reqStore | .storeGroup =>
    -- self.group.append(value)
    pure { s with group := s.group ++ [x] }
  | .vecList | .graph => do
    -- Vectorize.fill: seq.fill(data[ind]) …; self._cur_context = context
    -- Graph.fill: point, self._cur_context = get_data_context(value); self._points.append(point)
    let c ← getCtx ns x
    pure { s with count := s.count + 1, cur := some c }
  | .groupBy key => do
    -- context = get_context(val); key = to_string(self._iet.get(context));
    -- if key in self.groups: self.groups[key].append(val) else: self.groups[key] = [val]
    let k ← (match x.ctxTok with
      | some c => do
        let v ← readM c
        pure ((ctxOf v).lookup key)
      | none => pure none)
    match groupFind k s.groups with
    | true => pure { s with groups := groupAppend k x s.groups }
    | false => do
      let l ← allocM ns (.list [])
      pure { s with groups := s.groups ++ [(k, l, [x])] }

/-- `context["variable"] = {"name": name}` (`Variable._update_context` for an untyped variable on a
context without typed variable) -/
def setVariable (name : String) (v : Value) : Value :=
  .dict (dictSet (ctxOf v) "variable" (.dict [("name", .str name)]))

/-- the `"histogram"` entry that `make_hist_context` writes for the histogram with edges `[0, 1, 2, 3, 4]`:
`{"dim": 1, "nbins": [4], "ranges": [(0, 4)]}` -/
def histContext : Value :=
  .dict [("dim", .int 1), ("nbins", .list [.int 4]), ("ranges", .list [.tup [.int 0, .int 4]])]

/-- `compute()` / `request()` of the accumulators: the new state and what is yielded -/
def accCompute (ns : Nat) (k : AccKind) (s : AccSt) : M (AccSt × Resp Skel) :=
  match k with
  | .sum | .dsum => do
    -- if not self._cur_context: yield self._total else: yield (self._total, copy.deepcopy(self._cur_context))
    let c ← curTok ns s
    let v ← readM c
    match ctxEmpty v with
    | true => pure ({ s with cur := some c }, { outs := [mkItem (.int s.total) none] })
    | false => do
      let d ← copyM ns c
      pure ({ s with cur := some c }, { outs := [mkItem (.int s.total) (some d)] })
  | .reqSum => do
    let c ← curTok ns s
    let d ← copyM ns c
    pure ({ s with cur := some c }, { outs := [mkItem (.int s.total) (some d)] })
  | .count name => do
    -- self._cur_context.update({self.name: self.count}); yield (self.count, copy.deepcopy(self._cur_context))
    let c ← curTok ns s
    updM c (fun v => .dict (dictSet (ctxOf v) name (.int s.count)))
    let d ← copyM ns c
    pure ({ s with cur := some c }, { outs := [mkItem (.int s.count) (some d)] })
  | .mean sumSeq passOnEmpty =>
    if s.count = 0 then
      if passOnEmpty then pure (s, {}) else pure (s, { err := some "LenaZeroDivisionError" })
    else do
      let c ← curTok ns s
      -- context = copy.deepcopy(self._cur_context); [update_recursively(context, scont)]
      let d ← copyM ns c
      let first ← maybeWithContext (.quot s.total s.count) d
      match sumSeq with
      | some (.sumCount name) => do
        -- for sval in sums[1:]: context = copy.deepcopy(self._cur_context); update_recursively(context, scont)
        let e ← copyM ns c
        updM e (fun v => .dict (dictSet (ctxOf v) name (.int s.count)))
        pure ({ s with cur := some c }, { outs := [first, mkItem (.int s.count) (some e)] })
      | _ => pure ({ s with cur := some c }, { outs := [first] })
  | .vmc corrected passOnEmpty =>
    if s.count = 0 then
      if passOnEmpty then pure (s, {}) else pure (s, { err := some "LenaZeroDivisionError" })
    else if corrected && s.count == 1 then pure (s, { err := some "LenaZeroDivisionError" })
    else do
      -- yield _maybe_with_context(res, copy.deepcopy(self._cur_context))
      let c ← curTok ns s
      let d ← copyM ns c
      let y ← maybeWithContext (.str "vmc") d
      pure ({ s with cur := some c }, { outs := [y] })
  | .vectorize _ => do
    let c ← curTok ns s
    let d ← copyM ns c
    let y ← maybeWithContext (.str "vec") d
    pure ({ s with cur := some c }, { outs := [y] })
  | .histogram => do
    -- yield (self._hist, copy.deepcopy(self._cur_context))
    let c ← curTok ns s
    let d ← copyM ns c
    pure ({ s with cur := some c }, { outs := [mkItem (.str "hist") (some d)] })
  | .sib var _ _ => do
    -- cur_context = self._cur_context; self._arg_var._update_context(cur_context, deepcopy(var_context))
    let c ← curTok ns s
    updM c (setVariable var)
    -- yield (hist, copy.deepcopy(cur_context))
    let d ← copyM ns c
    pure ({ s with cur := some c }, { outs := [mkItem (.str "hist") (some d)] })
  | .meanCounts names =>
    if s.count = 0 then pure (s, { err := some "LenaZeroDivisionError" })
    else do
      let c ← curTok ns s
      -- context = copy.deepcopy(self._cur_context); yield _maybe_with_context(mean, context)
      let d ← copyM ns c
      let first ← maybeWithContext (.quot s.total s.count) d
      -- for sval in sums[1:]: context = copy.deepcopy(self._cur_context); update_recursively(context, scont); yield
      let r ← yieldCounts ns c s.count names
      pure ({ s with cur := some c }, { outs := first :: r })
  | .vecMulti k =>
    -- the inner Mean raises when nothing was filled
    if s.count = 0 then pure (s, { err := some "LenaZeroDivisionError" })
    else do
      -- while True: data = next(it) …; yield _maybe_with_context(res, copy.deepcopy(self._cur_context))
      let c ← curTok ns s
      let ys ← yieldCopies ns c (maybeWithContext (.str "vec")) k
      pure ({ s with cur := some c }, { outs := ys })
  | .sibMulti var _ _ k => do
    let c ← curTok ns s
    updM c (setVariable var)
    -- while True: result = next(generators) …; yield (hist, copy.deepcopy(cur_context))
    let ys ← yieldCopies ns c (fun d => pure (mkItem (.str "hist") (some d))) k
    pure ({ s with cur := some c }, { outs := ys })
  | .vecList =>
    -- zip_longest(Sum.compute(), Mean.compute()): Mean raises when nothing was filled
    if s.count = 0 then pure (s, { err := some "LenaZeroDivisionError" })
    else do
      let c ← curTok ns s
      let d ← copyM ns c
      let y ← maybeWithContext (.str "vec") d
      pure ({ s with cur := some c }, { outs := [y] })
  | .graph => do
    -- _update: self._context = copy.deepcopy(self._cur_context); self._context.update(self._init_context);
    -- self._context.update({"scale": self._scale}); if self._points: self._context["dim"] = self.dim
    let c ← curTok ns s
    let d ← copyM ns c
    updM d (fun v => .dict (dictSet (ctxOf v) "scale" (.str "None")))
    (if s.count = 0 then pure () else updM d (fun v => .dict (dictSet (ctxOf v) "dim" (.int 1))))
    -- yield (self, self._context)
    pure ({ s with cur := some c }, { outs := [mkItem (.str "graph") (some d)] })
  | .numpyHist => do
    -- NumpyHistogram.request: hist = histogram(edges, bins); context = hf.make_hist_context(hist, self._cur_context)
    -- make_hist_context (hist_functions.py:622-646): context = copy.deepcopy(context);
    -- context.update({"histogram": {"dim": hist.dim, "nbins": hist.nbins, "ranges": hist.ranges}}); return context
    let c ← curTok ns s
    let d ← copyM ns c
    updM d (fun v => .dict (dictSet (ctxOf v) "histogram" histContext))
    -- yield (hist, context)
    pure ({ s with cur := some c }, { outs := [mkItem (.str "hist") (some d)] })
  | .storeGroup => do
    -- yield self.group[:]
    let l ← allocM ns (.list [])
    pure (s, { outs := [mkGroup l s.group] })
  | .groupBy _ =>
    -- for grp in self.groups.values(): yield grp
    pure (s, { outs := s.groups.map (fun g => mkGroup g.2.1 g.2.2) })
  | .store => pure (s, { outs := s.group })
  | .keepLast => pure (s, { outs := s.group.getLast?.toList })
  | .reqStore => pure ({ s with group := [] }, { outs := s.group })

/-- the accumulators whose `compute` allocates everything it yields; the others yield the filled values
themselves, which is their documented result -/
def AccKind.fresh : AccKind → Bool
  | .store | .keepLast | .reqStore | .storeGroup | .groupBy _ => false
  | _ => true

/-- the accumulators whose `compute()` can raise (`LenaZeroDivisionError` when nothing, or too little, was filled) -/
def AccKind.canErr : AccKind → Bool
  | .mean _ poe => !poe
  | .vmc _ _ | .vecList | .meanCounts _ | .vecMulti _ => true
  | _ => false

/-- `reset()` of the accumulators: sums and counts to zero, `_cur_context = {}` (a new dictionary), the stored
values forgotten (`StoreFilled.reset`, `GroupBy.reset`) -/
def accReset (_ : AccSt) : AccSt := {}

/-! ## per-value elements that mutate data and context in place -/

inductive Step where
  /-- `lena.variables.Variable(name, getter)`, `getter = lambda d: d + 1 if isinstance(d, int) else d` -/
  | var (name : String)
  /-- `lena.context.UpdateContext("upd." + key, v)` -/
  | upd (key : String) (v : Int)
  /-- `lena.output.MakeFilename(name)` -/
  | mkfn (name : String)
  /-- user element: `context.setdefault("tags", []).append(name)` -/
  | tag (name : String)
  /-- user element: `if isinstance(data, list): data.append(v)` (the harness treats every list-like object — list
  subclass, deque, bytearray — alike: the model does not know the class of an object, only its content) -/
  | app (v : Int)
  /-- user element: `if isinstance(data, dict): data[key] = v` (for an object with attributes: `setattr(data, key, v)`) -/
  | setd (key : String) (v : Int)
  /-- `lena.flow.Count(name)` -/
  | count (name : String)
  /-- `lena.flow.Slice(n)` in a fill sequence: `LenaStopFill` when value number `n` arrives -/
  | stop (n : Nat)
  /-- user Run element, last of a plain sequence: after the values of every `run(flow)` it yields a new value
  `(-1, {"end": k})`, `k` = number of runs so far (so it yields for an empty flow, too) -/
  | emit
  /-- user element: changes in place every mutable object reachable from the data (`deepTouch(data, v)`: every
  dictionary / object gets the entry `m = v`, every list-like object the element `v`, at every depth) -/
  | touch (v : Int)
  /-- user element: the same for the context (`data, context = get_data_context(value); deepTouch(context, v);
  return (data, context)`) -/
  | touchc (v : Int)
  deriving Repr, DecidableEq

/-- `subdict = context; for key in keys[:-1]: if key not in subdict or not isinstance(subdict[key],
dict): subdict[key] = {}; …; update_recursively(subdict, {keys[-1]: update})` for the two-component
key `a.b` and a scalar `update` -/
def setPath2 (a b : String) (u : Value) (v : Value) : Value :=
  let top := ctxOf v
  let sub : Ctx := match top.lookup a with
    | some (.dict kvs) => kvs
    | _ => []
  .dict (dictSet top a (.dict (dictSet sub b u)))

/-- `"output" in context and "filename" in context["output"]` -/
def hasFilename (v : Value) : Bool :=
  match (ctxOf v).lookup "output" with
  | some (.dict kvs) => (kvs.lookup "filename").isSome
  | _ => false

/-- `update_recursively(context, {"output": {"filename": name}})` on a context without
`output.filename` -/
def makeFilename (name : String) (v : Value) : Value :=
  let top := ctxOf v
  match top.lookup "output" with
  | some (.dict kvs) => .dict (dictSet top "output" (.dict (dictSet kvs "filename" (.str name))))
  | _ => .dict (dictSet top "output" (.dict [("filename", .str name)]))

def listOf : Value → List Value
  | .list xs => xs
  | _ => []

/-- `context.setdefault("tags", []).append(name)` -/
def addTag (name : String) (v : Value) : Value :=
  let top := ctxOf v
  match top.lookup "tags" with
  | some t => .dict (dictSet top "tags" (.list (listOf t ++ [.str name])))
  | none => .dict (dictSet top "tags" (.list [.str name]))

/-- `if isinstance(data, list): data.append(v)` -/
def appendIfList (v : Int) : Value → Value
  | .list xs => .list (xs ++ [.int v])
  | o => o

/-- `if isinstance(data, dict): data[key] = v` -/
def setIfDict (key : String) (v : Int) : Value → Value
  | .dict kvs => .dict (dictSet kvs key (.int v))
  | o => o

/-! `deepTouch(obj, v)` of the harness on the content of one cell (the objects nested in a cell are part of its
content): first the children, then the object itself — a dictionary or an object with attributes gets `m = v`, a
list-like object gets `v` appended, a tuple only has its members touched, scalars are immutable. -/
mutual
def touchVal (v : Int) : Value → Value
  | .list xs => .list (touchList v xs ++ [.int v])
  | .tup xs => .tup (touchList v xs)
  | .dict kvs => .dict (dictSet (touchKvs v kvs) "m" (.int v))
  | o => o
def touchList (v : Int) : List Value → List Value
  | [] => []
  | x :: xs => touchVal v x :: touchList v xs
def touchKvs (v : Int) : List (String × Value) → List (String × Value)
  | [] => []
  | (k, x) :: rest => (k, touchVal v x) :: touchKvs v rest
end

/-- `getter(data)` of the harness variables -/
def getter : Option Value → Option Value
  | some (.int i) => some (.int (i + 1))
  | d => d

/-- one element applied to one value (`__call__` through `FillInto`/`Run`, or `fill_into`); `n` is the
element's own counter (`Count.count`, `Slice._index`).  Returns the new counter and the (possibly
new) value that goes on to the next element; `none`: `LenaStopFill` was raised. -/
def applyStep (ns : Nat) (e : Step) (n : Nat) (x : HItem) : M (Nat × Option HItem) :=
  match e with
  | .var name => do
    -- data, context = get_data_context(value); data = self.getter(data);
    -- self._update_context(context, copy.deepcopy(self.var_context)); return (data, context)
    let c ← getCtx ns x
    updM c (setVariable name)
    pure (n, some (HItem.withCtx { x with skel := { x.skel with data := getter x.skel.data } } c))
  | .upd key v => do
    let c ← getCtx ns x
    updM c (setPath2 "upd" key (.int v))
    pure (n, some (x.withCtx c))
  | .mkfn name => do
    -- context = get_context(value); …; if modified: return (data, context) else: return value
    let c ← getCtx ns x
    let v ← readM c
    match hasFilename v with
    | true => pure (n, some x)
    | false => do
      writeM c (makeFilename name v)
      pure (n, some (x.withCtx c))
  | .tag name => do
    let c ← getCtx ns x
    updM c (addTag name)
    pure (n, some (x.withCtx c))
  | .app v =>
    match x.dataTok with
    | some d => do
      updM d (appendIfList v)
      pure (n, some x)
    | none => pure (n, some x)
  | .setd key v =>
    match x.dataTok with
    | some d => do
      updM d (setIfDict key v)
      pure (n, some x)
    | none => pure (n, some x)
  | .count name => do
    -- Count.fill_into: self.count += 1; data, context = get_data_context(value);
    -- context.update({self.name: self.count}); element.fill((data, context))
    let c ← getCtx ns x
    updM c (fun v => .dict (dictSet (ctxOf v) name (.int (n + 1))))
    pure (n + 1, some (x.withCtx c))
  | .stop m =>
    -- Slice.fill_into: the value with index `m` raises LenaStopFill; earlier ones are passed on
    if n ≥ m then pure (n, none) else pure (n + 1, some x)
  | .emit => pure (n, some x)
  | .touch v =>
    -- data = get_data(value); deepTouch(data, v); return value
    match x.dataTok with
    | some d => do
      updM d (touchVal v)
      pure (n, some x)
    | none => pure (n, some x)
  | .touchc v => do
    -- data, context = get_data_context(value); deepTouch(context, v); return (data, context)
    let c ← getCtx ns x
    updM c (touchVal v)
    pure (n, some (x.withCtx c))

/-- the chain of `_Fill` objects of a `FillSeq`: every element transforms the value and fills the
next.  Returns the counters of the elements and the value that reaches the end (`none`:
`LenaStopFill` was raised on the way). -/
def applySteps (ns : Nat) : List Step → List Nat → HItem → M (List Nat × Option HItem)
  | [], _, x => pure ([], some x)
  | e :: es, cs, x => do
    let a ← applyStep ns e (cs.headD 0) x
    match a.2 with
    | none => pure (a.1 :: cs.tail, none)
    | some y => do
      let r ← applySteps ns es cs.tail y
      pure (a.1 :: r.1, r.2)

/-! ## the branches of the harness -/

/-- a branch of a harness case -/
structure BSpec where
  kind : Kind
  steps : List Step
  /-- the fill/compute or fill/request element at the end (not for `source` and `sequence`) -/
  term : AccKind
  /-- a `Source` yields `srcN` new values -/
  srcN : Nat
  deriving Repr

structure HSt where
  ctr : Nat := 0
  cs : List Nat := []
  acc : AccSt := {}
  deriving Repr

/-- `Sequence(*steps).run(buf)`: every value passes through all elements -/
def runSteps (ns : Nat) (steps : List Step) : List Nat → List HItem → M (List Nat × List HItem)
  | cs, [] => pure (cs, [])
  | cs, x :: xs => do
    let r ← applySteps ns steps cs x
    let q ← runSteps ns steps r.1 xs
    pure (q.1, r.2.toList ++ q.2)

/-- the effect of `Count.run` at the end of a buffer: `context.update({self.name: self.count})` on the
last value -/
def countAtEnd (ns : Nat) (name : String) (count : Nat) (ys : List HItem) : M (List HItem) :=
  match ys.getLast? with
  | none => pure ys
  | some y => do
    let c ← getCtx ns y
    updM c (fun v => .dict (dictSet (ctxOf v) name (.int count)))
    pure (ys.dropLast ++ [y.withCtx c])

/-- the steps of a `sequence` branch without a final `Count`, and that `Count`'s name -/
def splitLastCount (steps : List Step) : List Step × Option String :=
  match steps.getLast? with
  | some (.count name) => (steps.dropLast, some name)
  | _ => (steps, none)

/-- the steps of a `sequence` branch without a final `emit` element, and whether there is one -/
def splitLastEmit (steps : List Step) : List Step × Bool :=
  match steps.getLast? with
  | some .emit => (steps.dropLast, true)
  | _ => (steps, false)

/-- a user source: `total` new values `(j, {"src": j})`, `j = 0 … total - 1` -/
def mkSrc (ns total : Nat) : Nat → List HItem → M (List HItem)
  | 0, acc => pure acc
  | j + 1, acc => do
    let c ← allocM ns (.dict [("src", .int (total - (j + 1)))])
    mkSrc ns total j (acc ++ [mkItem (.int (total - (j + 1))) (some c)])

/-- the code of one method invocation on a harness branch: new private state and response -/
def hActM (ns : Nat) (sp : BSpec) (s : HSt) (r : Req Skel) : M (HSt × Resp Skel) :=
  match r with
  | .call => do
    let outs ← mkSrc ns sp.srcN sp.srcN []
    pure (s, { outs := outs })
  | .fill x => do
    let c ← applySteps ns sp.steps s.cs x
    match c.2 with
    | none => pure ({ s with cs := c.1 }, { stopped := true })
    | some y => do
      let a ← accFill ns sp.term s.acc y
      pure ({ s with cs := c.1, acc := a }, {})
  | .compute | .request => do
    let f ← accCompute ns sp.term s.acc
    pure ({ s with acc := f.1 }, f.2)
  | .run buf => do
    let sl := splitLastCount sp.steps
    let se := splitLastEmit sp.steps
    let q ← runSteps ns (if se.2 then se.1 else sl.1) s.cs buf
    match sl.2 with
    | none =>
      match se.2 with
      | false => pure ({ s with cs := q.1 }, { outs := q.2 })
      | true => do
        -- the user element yields one more, new value after the values of this run
        let k := se.1.length
        let runs := (s.cs.drop k).headD 0
        let c ← allocM ns (.dict [("end", .int runs)])
        pure ({ s with cs := q.1.take k ++ [runs + 1] }, { outs := q.2 ++ [mkItem (.int (-1)) (some c)] })
    | some name => do
      -- Count.run: self.count += (number of values); the last value gets {name: self.count}
      let k := sl.1.length
      let new := (s.cs.drop k).headD 0 + q.2.length
      let ys ← countAtEnd ns name new q.2
      pure ({ s with cs := q.1.take k ++ [new] }, { outs := ys })

/-- a method invocation on the shared heap: the private world is the heap and the branch's own
allocation counter -/
def hAct (ns : Nat) (sp : BSpec) (st : Store Value) (s : HSt) (r : Req Skel) : Store Value × HSt × Resp Skel :=
  let a := (hActM ns sp s r).run ⟨st, s.ctr⟩
  (a.1.st, { a.2.1 with ctr := a.1.ctr }, a.2.2)

def hOps (ns : Nat) (sp : BSpec) : Ops HSt Skel Value :=
  { act := hAct ns sp, refs := fun s => s.acc.refs }

/-- the branch list of a harness case: branch number `i` allocates in namespace `ownNs i` -/
def mkBranches (start : Nat) : List BSpec → List (Branch HSt Skel Value)
  | [] => []
  | sp :: rest =>
    { id := start, kind := sp.kind, ops := hOps (ownNs start) sp, st := {} } :: mkBranches (start + 1) rest

/-- a single accumulator as an object (for the histories of the second sentence of the property) -/
def accOps (ns : Nat) (k : AccKind) : Ops HSt Skel Value :=
  hOps ns { kind := .fillCompute, steps := [], term := k, srcN := 0 }

/-! ## `Zip` of accumulators as one accumulator (`lena/flow/zip.py`): `_fill`, `_compute`/`_request`,
`_yield`, `_create_data`, `_create_context` -/

/-- one step of `intersection(..., level=1)` (context/functions.py:394-417): the items of `res` whose key
is in `d` with an equal value -/
def interL1 (res d : Ctx) : Ctx :=
  res.filter (fun kv => match d.lookup kv.1 with
    | some v' => Value.eqv kv.2 v'
    | none => false)

/-- `intersection(*dicts, level=1)` on contents (`res = copy.deepcopy(dicts[0])`, then one step per further
dictionary; an empty `res` is returned at once, which the fold reproduces) -/
def interAll : List Ctx → Ctx
  | [] => []
  | a :: rest => rest.foldl interL1 a

/-- `difference(d1, d2, level=1)` on contents (context/functions.py:83-108): the items of `d1` whose key is not
in `d2` or has a different value there -/
def diffL1 (d1 d2 : Ctx) : Ctx :=
  d1.filter (fun kv => match d2.lookup kv.1 with
    | some v' => !Value.eqv kv.2 v'
    | none => true)

/-- `Zip._create_context(values)` on contents (zip.py:79-91): the common context, and under `"zip"` the tuple of
what every value has beyond it — if anything -/
def zipContext (values : List Ctx) : Ctx :=
  let common := interAll values
  let diffs := values.map (fun v => diffL1 v common)
  if diffs.any (fun d => !d.isEmpty) then dictSet common "zip" (.tup (diffs.map Value.dict)) else common

/-- state of a `Zip`: its branches, the counter of the deep copies it made, its own allocation counter -/
structure ZSt where
  cc : Nat := 0
  ctr : Nat := 0
  brs : List (Branch HSt Skel Value) := []

/-- result of pulling one value from `compute()`/`request()` of every branch in turn -/
structure ZipPull where
  st : Store Value
  brs : List (Branch HSt Skel Value)
  vals : List HItem
  /-- some branch had nothing to yield: `break_while` -/
  short : Bool
  err : Option String

/-- the first round of `Zip._yield` (zip.py:128-135): `val = next(res)` for every branch in order; an exception
of a branch propagates, an exhausted branch ends the loop -/
def zipPull (req : Req Skel) : Store Value → List (Branch HSt Skel Value) → ZipPull
  | st, [] => ⟨st, [], [], false, none⟩
  | st, b :: rest =>
    let r := b.ops.act st b.st req
    match r.2.2.err with
    | some e => ⟨r.1, { b with st := r.2.1 } :: rest, [], false, some e⟩
    | none =>
      match r.2.2.outs.head? with
      | none => ⟨r.1, { b with st := r.2.1 } :: rest, [], true, none⟩
      | some y =>
        let q := zipPull req r.1 rest
        ⟨q.st, { b with st := r.2.1 } :: q.brs, y :: q.vals, q.short, q.err⟩

/-- the content of the context of a value (`get_data_context`: `{}` for a bare value) -/
def ctxContent (st : Store Value) (y : HItem) : Ctx :=
  match y.ctxTok with
  | some c => ctxOf (st c)
  | none => []

/-- a method invocation on a `Zip` whose own objects are named in namespace `ns` -/
def zipAct (ns : Nat) (st : Store Value) (z : ZSt) (r : Req Skel) : Store Value × ZSt × Resp Skel :=
  match r with
  | .fill x =>
    -- for seq in self._sequences: seq.fill(copy.deepcopy(val))
    let f := zipFill x { st := st, cc := z.cc } z.brs
    (f.w.st, { z with cc := f.w.cc, brs := f.brs }, { stopped := f.stopped })
  | .compute | .request =>
    let p := zipPull r st z.brs
    match p.err with
    | some e => (p.st, { z with brs := p.brs }, { err := some e })
    | none =>
      if p.short then (p.st, { z with brs := p.brs }, {})
      else
        -- data = tuple of the data parts; context = self._create_context(contexts)
        let data := Value.tup (p.vals.map (fun y => y.skel.data.getD (.str "?")))
        let content := zipContext (p.vals.map (ctxContent p.st))
        -- if context: yield (data, context) else: yield data
        if content.isEmpty then (p.st, { z with brs := p.brs }, { outs := [mkItem data none] })
        else
          (p.st.set (ns, z.ctr) (.dict content), { z with ctr := z.ctr + 1, brs := p.brs },
            { outs := [mkItem data (some (ns, z.ctr))] })
  | _ => (st, z, {})

/-- `Split._compute()` consumed by a caller (`list(split.compute())`): the values of every branch in turn; an
exception of a branch ends it (what was yielded before is lost with the list) -/
def splitPull (req : Req Skel) : Store Value → List (Branch HSt Skel Value) → ZipPull
  | st, [] => ⟨st, [], [], false, none⟩
  | st, b :: rest =>
    let r := b.ops.act st b.st req
    match r.2.2.err with
    | some e => ⟨r.1, { b with st := r.2.1 } :: rest, [], false, some e⟩
    | none =>
      let q := splitPull req r.1 rest
      ⟨q.st, { b with st := r.2.1 } :: q.brs, r.2.2.outs ++ q.vals, q.short, q.err⟩

/-- a method invocation on a `Split([accumulator, …])` used through its common-type methods -/
def splitAccAct (st : Store Value) (z : ZSt) (r : Req Skel) : Store Value × ZSt × Resp Skel :=
  match r with
  | .fill x =>
    let f := splitFill true x { st := st, cc := z.cc } z.brs
    (f.w.st, { z with cc := f.w.cc, brs := f.brs }, { stopped := f.stopped })
  | .compute | .request =>
    let p := splitPull r st z.brs
    match p.err with
    | some e => (p.st, { z with brs := p.brs }, { err := some e })
    | none => (p.st, { z with brs := p.brs }, { outs := p.vals })
  | _ => (st, z, {})

def splitAccOps : Ops ZSt Skel Value :=
  { act := splitAccAct, refs := fun z => z.brs.flatMap (fun b => b.ops.refs b.st) }

/-- `Zip([accumulator, …])` as an object: branch number `i` is the accumulator `ks[i]` -/
def zipOps (ks : List AccKind) : Ops ZSt Skel Value :=
  { act := zipAct (ownNs ks.length), refs := fun z => z.brs.flatMap (fun b => b.ops.refs b.st) }

def zipInit (ks : List AccKind) : ZSt :=
  { brs := mkBranches 0 (ks.map (fun k => { kind := .fillCompute, steps := [], term := k, srcN := 0 })) }

end Lena.C04
