import LenaModel.Model.C03
import LenaModel.Model.C03X
import LenaModel.Model.C03Exc
/-! # C03 model, part 5 — `Split.run` as a generator object; methods as Python sees them

`Model/C03.lean` / `C03X.lean` describe `Split.run(flow)` *consumed to the end in one go*.  But
`run` is a generator function: `split.run(flow)` returns a generator object whose frame holds
the local variables of `run` (`active_seqs`, `active_seq_types`, `n_of_active_seqs`, `ind`,
`flow`, `orig_buf`, `flow_was_empty`), while the branch objects in `self._seqs` belong to the
`Split` object and are shared by every generator it hands out.  Two generators of one `Split`
may be alive at the same time and be resumed alternately (`zip(s.run(a), s.run(b))`).

This file transcribes `Split.run` (lena/core/split.py:339-443) once more, as a machine:

* `ObjStore` — `self._seqs`: the shared branch objects, addressed by their number;
* `GenS` — the frame of one suspended generator (the local variables above);
* `microStep` — the code between two points where the frame can be left: reading a block, the
  body of `while ind < n_of_active_seqs` for one branch, one branch of the final pass.  A step
  calls the methods of ONE branch object (through `stepFull` / `finalFull` of `Model/C03X.lean`)
  and changes nothing else in the store;
* `genIter` — one generator resumed until it is exhausted; `runSched` — several generators of
  the same `Split` resumed in an arbitrary order.

Granularity: the values a step yields are handed out one by one (`for val in …: yield val`),
so a generator can also be suspended between two values of one step; what is left of that
inner loop is a list of already computed values and touches no shared object (assumption of the
harness elements: results are computed when the method is called), so every interleaving of
`next()` calls is an interleaving of micro steps.

Also here: `OpsP` (methods that return or raise an exception of some *class*) with the
`except LenaStopFill` clause (`OpsP.toX`), and the stateless harness vocabulary `SSpec`.

Imports only `Model/C03*.lean`; executed by `drivers/C03.lean`. -/

namespace Lena.C03

variable {σ α : Type}

/-! ## methods as Python sees them: return, or raise an exception of some class -/

/-- the methods of a branch: `fill` returns (`none`) or raises an exception of class `c`
(`some c`); a generator yields some values and then finishes or raises -/
structure OpsP (σ α : Type) where
  call : σ → List α × σ × Option ExcClass
  fill : σ → α → σ × Option ExcClass
  compute : σ → List α × σ × Option ExcClass
  request : σ → List α × σ × Option ExcClass
  run : σ → List α → List α × σ × Option ExcClass

/-- what `Split.run` makes of these methods: around `fill` — and only there — the clause
`except exceptions.LenaStopFill` turns the stop signal into `stopped = True` -/
def OpsP.toX (o : OpsP σ α) : OpsX σ α ExcClass :=
  { call := o.call
    fill := fun s x =>
      ((o.fill s x).1, match (o.fill s x).2 with
        | none => .ok
        | some c => catchStopFill c)
    compute := o.compute
    request := o.request
    run := o.run }

/-! ## the generator machine -/

/-- `self._seqs` as a store: the branch object with number `i` -/
abbrev ObjStore (σ α : Type) := Nat → Branch σ α

/-- the method calls of a step changed the object number `i` -/
def ObjStore.set (st : ObjStore σ α) (i : Nat) (b : Branch σ α) : ObjStore σ α :=
  fun j => if j = i then b else st j

/-- the store that holds the objects `brs` under their ids (`d` elsewhere) -/
def storeOf (d : Branch σ α) (brs : List (Branch σ α)) : ObjStore σ α :=
  fun i => (findObj i brs).getD d

/-- The frame of a suspended `Split.run`.  `active_seqs` is `done ++ todo` (references to the
shared objects: their numbers), `ind = len(done)`; `blk` is `orig_buf` while the loop over the
active sequences runs; `final` is what is left of `zip(active_seqs, active_seq_types)` in the
final pass; `fin`: the generator is exhausted. -/
structure GenS (α : Type) where
  flow : List α
  blk : Option (List α)
  done : List Nat
  todo : List Nat
  fwe : Bool
  final : Option (List Nat)
  fin : Bool
  deriving Repr

/-- the frame when `run(flow)` is entered: `active_seqs = self._seqs[:]`, `flow = iter(flow)`,
`flow_was_empty = True` -/
def GenS.start (ids : List Nat) (flow : List α) : GenS α :=
  { flow := flow, blk := none, done := [], todo := ids, fwe := true, final := none, fin := false }

/-- one step of one generator on the shared objects: the events, the store and the frame
afterwards -/
def microStep (bufsize : Option Nat) (st : ObjStore σ α) (g : GenS α) :
    List (Ev α) × ObjStore σ α × GenS α :=
  if g.fin then ([], st, g) else
  match g.final with
  | some [] => ([], st, { g with fin := true })
  | some (i :: rest) =>
    -- one `seq, seq_type` of the final pass (split.py:426-443)
    let r := finalFull g.fwe (st i)
    (r.1, st.set i r.2.1, { g with final := some rest })
  | none =>
    match g.blk with
    | none =>
      -- orig_buf = list(itertools.islice(flow, self._bufsize)); if orig_buf: … else: break; ind = 0
      let rb := readBlock bufsize g.flow
      if rb.1.isEmpty then ([], st, { g with final := some g.todo })
      else ([], st, { g with flow := rb.2, blk := some rb.1, fwe := false, done := [] })
    | some buf =>
      match g.todo with
      | [] =>
        -- `ind < n_of_active_seqs` is false: back to `while True`
        ([], st, { g with blk := none, todo := g.done, done := [] })
      | i :: rest =>
        -- the body of the loop for `active_seqs[ind]`
        match stepFull buf (st i) with
        | (ev, b', .stay) => (ev, st.set i b', { g with done := g.done ++ [i], todo := rest })
        | (ev, b', .drop) => (ev, st.set i b', { g with todo := rest })
        | (_, _, .abort e) => e.elim

/-- `n` steps of one generator, nothing else touching the objects in between -/
def genIter (bufsize : Option Nat) : Nat → ObjStore σ α → GenS α → List (Ev α) × ObjStore σ α × GenS α
  | 0, st, g => ([], st, g)
  | n + 1, st, g =>
    let r := microStep bufsize st g
    let r' := genIter bufsize n r.2.1 r.2.2
    (r.1 ++ r'.1, r'.2)

/-- Several generators of ONE `Split` object (their frames with the events each has produced so
far), resumed in the order `sched` — a list of generator numbers; each entry lets that
generator make one step on the shared objects. -/
def runSched (bufsize : Option Nat) :
    List Nat → ObjStore σ α → List (GenS α × List (Ev α)) → ObjStore σ α × List (GenS α × List (Ev α))
  | [], st, gs => (st, gs)
  | k :: rest, st, gs =>
    match gs[k]? with
    | none => runSched bufsize rest st gs
    | some (g, acc) =>
      let r := microStep bufsize st g
      runSched bufsize rest r.2.1 (gs.set k (r.2.2, acc ++ r.1))

/-- enough steps to exhaust `run(flow)` of a Split with `n` branches: per block one step to read
it, at most `n` branch steps, one to leave the inner loop; the empty read; at most `n` steps of
the final pass; the end -/
def genFuel (n len : Nat) : Nat := (len + 1) * (n + 2) + n + 2

/-! ## stateless branches (harness vocabulary of op "inter") -/

/-- the methods never change the object -/
def Ops.Stateless (o : Ops σ α) : Prop :=
  (∀ s, (o.call s).2 = s) ∧ (∀ s x, (o.fill s x).1 = s) ∧ (∀ s, (o.compute s).2 = s) ∧
    (∀ s, (o.request s).2 = s) ∧ (∀ s buf, (o.run s buf).2 = s)

/-- stateless run elements of the harness -/
inductive SSq where
  | map | even | dup | lam
  deriving Repr, DecidableEq

/-- a stateless harness branch: what it yields and whether `fill` signals `LenaStopFill` are
functions of the arguments alone -/
inductive SSpec where
  /-- `Source(SSrc(tag, k))`: yields `(tag, "src", j)` for `j < k` -/
  | src (k : Nat)
  /-- `fill(x)` raises `LenaStopFill` iff `x >= m`; `compute()` yields `(tag, "compute")` -/
  | fc (m : Option Int)
  /-- the same with `request()` yielding `(tag, "request")` -/
  | fr (m : Option Int)
  | sq (v : SSq)
  deriving Repr

def SSpec.kind : SSpec → Kind
  | .src _ => .source
  | .fc _ => .fillCompute
  | .fr _ => .fillRequest
  | .sq _ => .sequence

def stopsOn (m : Option Int) (x : V) : Bool :=
  match m, x with
  | some m, .int i => decide (m ≤ i)
  | _, _ => false

def SSpec.ops (tag : Nat) : SSpec → Ops Unit V
  | .src k =>
    { call := fun s => ((List.range k).map (fun (j : Nat) => tagged tag "src" [.int j]), s)
      fill := fun s _ => (s, false), compute := fun s => ([], s), request := fun s => ([], s)
      run := fun s _ => ([], s) }
  | .fc m =>
    { call := fun s => ([], s)
      fill := fun s x => (s, stopsOn m x)
      compute := fun s => ([.tup [.int tag, .str "compute"]], s)
      request := fun s => ([], s), run := fun s _ => ([], s) }
  | .fr m =>
    { call := fun s => ([], s)
      fill := fun s x => (s, stopsOn m x)
      compute := fun s => ([], s)
      request := fun s => ([.tup [.int tag, .str "request"]], s)
      run := fun s _ => ([], s) }
  | .sq v =>
    { call := fun s => ([], s), fill := fun s _ => (s, false), compute := fun s => ([], s)
      request := fun s => ([], s)
      run := fun s buf =>
        (match v with
          | .map => buf.map (fun x => tagged tag "run" [x])
          | .lam => buf.map (fun x => tagged tag "lam" [x])
          | .even => (buf.filter V.isEven).map (fun x => tagged tag "even" [x])
          | .dup => buf.flatMap (fun x => [tagged tag "dup" [x], tagged tag "dup" [x]]), s) }

/-- a stateless branch inside a tuple with `preFn` before it and/or `postFn` after it -/
structure SHSpec where
  base : SSpec
  pre : Bool
  post : Bool

def SHSpec.ops (tag : Nat) (h : SHSpec) : Ops Unit V :=
  if h.pre || h.post then
    seqOps (if h.pre then [preFn] else []) (if h.post then [postFn] else []) (h.base.ops tag)
  else h.base.ops tag

def mkStatelessBranches (start : Nat) : List SHSpec → List (Branch Unit V)
  | [] => []
  | h :: rest =>
    { id := start, kind := h.base.kind, ops := h.ops start, st := () } :: mkStatelessBranches (start + 1) rest

end Lena.C03
