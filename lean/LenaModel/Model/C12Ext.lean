import LenaModel.Model.C12
import LenaModel.Model.C06
/-! # C12 model, second part — code around the statement of C12 that `Model/C12.lean` left out

Transcription (code as it is now in /repo) of

* `iter_cells(hist, ranges, coord_ranges)` with coordinate ranges (hist_functions.py:560-583), on top of
  `get_bin_on_value_1d` as modelled for C06 (`Lena.C06.bin1d`, whose float interpolation guess is a parameter),
* `get_bin_edges(index, edges)` (hist_functions.py:105-123) and `get_bin_on_index(index, bins)` (126-156) as
  public functions (number or tuple index),
* the CSV *text* of `hist1d_to_csv` / `hist2d_to_csv` / `ToCSV.run` for histograms: `"{:f}"` formatting (six
  decimals, correctly rounded, ties to even), separator, header, `row_end`, `last_row_end` (to_csv.py:120-181,
  262-302),
* `ToCSV.run` for data without `rows()` (to_csv.py:303-338), `GroupScale.__call__` (group_scale.py:87-98),
  `graph.__add__` with an operand that is not a graph (graph.py:380-381),
* the element `HistToGraph` (elements.py:12-116) without its context bookkeeping (`make_value` is a
  `Variable`, whose context is the subject of C14).

Left out on purpose: the deprecated class `Graph` (graph.py:428-…), `histogram.fill` / `Histogram` (C06, C09),
`cell_to_string`, `get_example_bin`, `make_hist_context` (C11), `iterable_to_table` with `format_` / `footer`
(not used by `ToCSV`), `repr` of floats in the CSV of graphs (shortest round-trip representation).

No imports except `LenaModel.Model.*`: this file is executed by `drivers/C12.lean`. -/

namespace Lena.C12

open Lena Lena.NArr

/-! ## `iter_cells` with `coord_ranges` -/

/-- the body of `for coord, coord_range in enumerate(coord_ranges)` (hist_functions.py:568-583) for one axis:
`none` is the early `return` ("histogram edges are outside the range"), `some (lower, upper)` the index range
appended to `ranges` -/
def coordRangeAxis (guess : Nat → Nat → Int) (e : List Q) (cr : Q × Q) : Except Err (Option (Int × Int)) := do
  let lower ← C06.bin1d guess cr.1 e
  let lower := if lower = -1 then 0 else lower
  let upper ← C06.bin1d guess cr.2 e
  let maxInd : Int := e.length
  let upper := if upper = maxInd then upper - 1 else upper
  if lower ≥ maxInd ∨ upper ≤ 0 then pure none
  else pure (some (lower, upper))

/-- the loop over the coordinate ranges: `guess k` is the interpolation guess of the search along axis `k`;
`edges[coord]` for a coordinate beyond the dimension is an `IndexError` -/
def coordRangesLoop (guess : Nat → Nat → Nat → Int) :
    Nat → List (List Q) → List (Q × Q) → Except Err (Option (List (Option Int × Option Int)))
  | _, _, [] => .ok (some [])
  | _, [], _ :: _ => .error .indexError
  | k, e :: es, cr :: crs => do
    match ← coordRangeAxis (guess k) e cr with
    | none => pure none
    | some (lo, up) =>
      match ← coordRangesLoop guess (k + 1) es crs with
      | none => pure none
      | some rest => pure (some ((some lo, some up) :: rest))

/-- the `coord_ranges` argument: one pair of numbers (`coord_ranges[0]` is not a tuple or list: it is wrapped), or
a tuple of pairs -/
inductive CoordRangesArg where
  | single (cr : Q × Q)
  | many (crs : List (Q × Q))
  deriving Repr

/-- `iter_cells(hist, ranges, coord_ranges)` with `coord_ranges` given (hist_functions.py:560-613).
`rangesGiven`: `ranges` is not `None` too (`LenaTypeError`).  An empty tuple of coordinate ranges fails at
`coord_ranges[0]` (`IndexError`). -/
def iterCellsCoord (guess : Nat → Nat → Nat → Int) (h : Hist) (rangesGiven : Bool) (coordRanges : CoordRangesArg) :
    Except Err (List HistCell) :=
  if rangesGiven then .error .lenaTypeError
  else
    let crs := match coordRanges with
      | .single cr => some [cr]
      | .many [] => none
      | .many l => some l
    match crs with
    | none => .error .indexError
    | some crs => do
      match ← coordRangesLoop guess 0 h.edges.axes crs with
      | none => pure []
      | some ranges => iterCells h (some ranges)

/-! ## `get_bin_edges`, `get_bin_on_index` as public functions -/

/-- the `index` argument: a number or a tuple/list of numbers -/
inductive IndexArg where
  | num (i : Nat)
  | tuple (is : List Nat)
  deriving Repr

/-- what `get_bin_edges` returns: a pair for one-dimensional edges, a list of pairs otherwise -/
inductive BinEdges where
  | pair (lo hi : Q)
  | pairs (l : List (Q × Q))
  deriving Repr

/-- `get_bin_edges(index, edges)` (hist_functions.py:105-123) for non-negative indices.  One-dimensional edges:
`index[0]` of an iterable index (`IndexError` when empty), then `(edges[index], edges[index+1])`.
Multidimensional edges: `enumerate(index)` — a number is not iterable (builtin `TypeError`). -/
def getBinEdges (index : IndexArg) (edges : Edges) : Except Err BinEdges :=
  match edges with
  | .flat e =>
    let i := match index with
      | .num i => some i
      | .tuple [] => none
      | .tuple (i :: _) => some i
    match i with
    | none => .error .indexError
    | some i =>
      match e[i]?, e[i + 1]? with
      | some lo, some hi => .ok (.pair lo hi)
      | _, _ => .error .indexError
  | .nested es =>
    match index with
    | .num _ => .error .typeError
    | .tuple is => do
      let l ← cellEdges es is
      pure (.pairs l)

/-- `get_bin_on_index(index, bins)` (hist_functions.py:126-156): a number is one index; `IndexError` becomes
`LenaIndexError`, indexing a number is a builtin `TypeError` -/
def getBinOnIndex (index : IndexArg) (bins : NArr Q) : Except Err (NArr Q) :=
  match index with
  | .num i => getBin bins [i]
  | .tuple is => getBin bins is

/-! ## CSV text -/

/-- `a / b` rounded to the nearest integer, ties to even (`a ≥ 0`, `b > 0`) -/
def roundHalfEven (a b : Nat) : Nat :=
  let q := a / b
  let r := a % b
  if 2 * r < b then q
  else if 2 * r > b then q + 1
  else if q % 2 = 0 then q else q + 1

/-- the number of millionths that `"{:f}"` prints for `x` (its absolute value) -/
def millionths (x : Q) : Nat := roundHalfEven (x.num.natAbs * 1000000) x.den

/-- left-pad with zeros to six digits -/
def pad6 (s : String) : String := String.ofList (List.replicate (6 - s.length) '0') ++ s

/-- `"{:f}".format(x)` for a finite float or an int `x`: sign (also for a negative number that rounds to zero),
integer part, a dot, six decimals -/
def fmtF (x : Q) : String :=
  let n := millionths x
  (if x < 0 then "-" else "") ++ toString (n / 1000000) ++ "." ++ pad6 (toString (n % 1000000))

/-- one CSV line: `"{:f}{}{:f}…".format(x, separator, …)` -/
def csvLine (sep : String) (row : List Q) : String := sep.intercalate (row.map fmtF)

/-- the parameters of a `ToCSV` element -/
structure CsvFormat where
  separator : String
  /-- `None` or `""`: no header line -/
  header : Option String
  rowEnd : String
  lastRowEnd : String
  deriving Repr

/-- the lines of `hist1d_to_csv` / `hist2d_to_csv`: `if header: yield header`, then one line per row -/
def csvLines (f : CsvFormat) (rows : List (List Q)) : List String :=
  (match f.header with
    | none => []
    | some h => if h.isEmpty then [] else [h]) ++ rows.map (csvLine f.separator)

/-- `(self._row_end + "\n").join(lines_iter) + self._last_row_end` (to_csv.py:297-298) -/
def csvText (f : CsvFormat) (rows : List (List Q)) : String :=
  (f.rowEnd ++ "\n").intercalate (csvLines f rows) ++ f.lastRowEnd

/-- `ToCSV(…).run([(hist, context)])`: the text, or the value unchanged -/
inductive CsvTextOut where
  | unchanged
  | text (s : String)
  deriving Repr

def toCsvHistText (f : CsvFormat) (h : Hist) (toCsv : Bool) (ctxDup : Option Bool) (elemDup : Bool) :
    Except Err CsvTextOut := do
  match ← toCsvHist h toCsv ctxDup elemDup with
  | .unchanged => pure .unchanged
  | .table rows => pure (.text (csvText f rows))

/-- `ToCSV.run` for data that is neither a histogram nor has `rows()` (to_csv.py:303-338): yielded unchanged -/
def toCsvOther : CsvOut := .unchanged

/-! ## `GroupScale.__call__`, `graph + x` -/

/-- `GroupScale(scale_to, allow_zero_scale, allow_unknown_scale)(group)` (group_scale.py:87-98): a group that is
not a list or tuple is a `LenaValueError`; otherwise `scale_to` and the group itself is returned -/
def groupScaleCall (target : ScaleTarget) (isSequence : Bool) (group : List Struct) (allowZero allowUnknown : Bool) :
    List Struct × Option Err :=
  if !isSequence then (group, some .lenaValueError)
  else scaleTo target group allowZero allowUnknown

/-- `self + x` where `x` is any structure: `NotImplemented` for something that is not a graph, which
Python turns into a builtin `TypeError` -/
def graphAddAny (a : Graph) (x : Struct) : Except Err Graph :=
  match x with
  | .graph b => graphAdd a b
  | _ => .error .typeError

/-! ## the element `HistToGraph` -/

/-- the `make_value` argument of `HistToGraph`: `None`, a `Variable` (its getter, as in `hist_to_graph`), or
something else -/
inductive MakeValueArg where
  | none
  | variable (getter : Q → List Q)
  | notVariable

/-- a constructed `HistToGraph` element -/
structure HistToGraphEl where
  /-- `self._make_value.getter`: for `make_value=None` the identity `Variable("hist_bin", …)` -/
  getter : Q → List Q
  mode : CoordMode
  fieldNames : FieldNamesArg
  scale : ScaleArg

/-- `HistToGraph.__init__` (elements.py:15-63): `LenaTypeError` for a `make_value` that is not a `Variable`,
`LenaValueError` for an unknown `get_coordinate` -/
def mkHistToGraph (mv : MakeValueArg) (mode : CoordMode) (fieldNames : FieldNamesArg) (scale : ScaleArg) :
    Except Err HistToGraphEl :=
  match mv with
  | .notVariable => .error .lenaTypeError
  | .none =>
    if mode = .bad then .error .lenaValueError
    else .ok { getter := fun v => [v], mode := mode, fieldNames := fieldNames, scale := scale }
  | .variable g =>
    if mode = .bad then .error .lenaValueError
    else .ok { getter := g, mode := mode, fieldNames := fieldNames, scale := scale }

/-- what `HistToGraph.run` yields for one value -/
inductive H2GOut where
  /-- not a histogram, or `context.histogram.to_graph` is `False`: the value itself -/
  | unchanged
  | graph (h : Hist) (g : Graph)

/-- `HistToGraph.run` for one value of the flow (elements.py:65-116): `isHist` — the data is a histogram `h`;
`toGraph` — `context.histogram.to_graph` (default `True`) -/
def histToGraphRun (el : HistToGraphEl) (isHist : Bool) (h : Hist) (toGraph : Bool) : Except Err H2GOut :=
  if !isHist || !toGraph then .ok .unchanged
  else do
    let (h1, g) ← histToGraph h (some el.getter) el.mode el.fieldNames el.scale
    pure (.graph h1 g)

/-! ## one axis nested in a list: `histogram([[x0, x1, …]], …)`

`Model/C12.lean` answers `unmodelled` for this format of a one-dimensional histogram (`mkHist`), and dispatches the CSV
conversion on the shape of `edges` (`toCsvHist`).  The functions below cover every format: a nested single axis is
one axis like any other (`Edges.axes`), which is what the code does after notes/C12_defect_4.patch
(`histogram.__init__`: `nbins`/`ranges` per axis whenever the edges are nested; `iter_cells`, `hist1d_to_csv`: the
edges are unified with `unify_1_md`).  On all other edges they coincide with the functions of `Model/C12.lean`
(`mkHistU_eq`, `addU_eq`, `toCsvHistU_eq` in `Props/C12Ext.lean`). -/

/-- `histogram.__init__(edges, bins, initial_value)` (histogram.py:47-165) for every format of the edges -/
def mkHistU (edges : Edges) (bins : Option (NArr Q)) (initial : Q) : Except Err Hist := do
  checkEdgesIncreasing edges
  match edges.axes with
  | [] => .error .lenaValueError   -- not reached: `check_edges_increasing` has rejected it
  | e0 :: rest =>
    match bins with
    | none => pure { edges := edges, bins := full (nbinsOf (e0 :: rest)) initial, nOut := 0, scale := none }
    | some b =>
      let n ← lenBins b
      if n ≠ e0.length - 1 then .error .lenaValueError
      else pure { edges := edges, bins := b, nOut := 0, scale := none }

/-- `self.add(other, weight, edges_abs_tol, edges_rel_tol)` (histogram.py:167-209) with the constructor `mk` for the
new histogram: `add = addWith mkHist` -/
def addWith (mk : Edges → Option (NArr Q) → Q → Except Err Hist) (self other : Hist) (weight : Q) (t : Tol) :
    Except Err Hist := do
  let differ ←
    if self.nbins ≠ other.nbins then pure true
    else do
      let c ← iscloseEdges t self.edges other.edges
      pure (!c)
  if differ then .error .lenaValueError
  else do
    let obins ← if weight ≠ 1 then mdMap (fun val => val * weight) other.bins else pure other.bins
    let newBins ← mdMap2 (· + ·) self.bins obins
    let newHist ← mk self.edges (some newBins) 0
    pure { newHist with nOut := self.nOut + other.nOut * weight }

/-- `histogram.add` for every format of the edges -/
def addU : Hist → Hist → Q → Tol → Except Err Hist := addWith mkHistU

/-- `ToCSV.run` for one `(histogram, context)` value, dispatching on `data.dim` (the number of axes) -/
def toCsvHistU (h : Hist) (toCsv : Bool) (ctxDup : Option Bool) (elemDup : Bool) : Except Err CsvOut :=
  if !toCsv then .ok .unchanged
  else
    let dup := match ctxDup with
      | some d => d
      | none => elemDup
    match h.edges.axes with
    | [e] => do
      let rows ← rows1d e h.bins dup
      pure (.table rows)
    | [ex, ey] => do
      let rows ← rows2d ex ey h.bins dup
      pure (.table rows)
    | _ => .ok .unchanged

def toCsvHistTextU (f : CsvFormat) (h : Hist) (toCsv : Bool) (ctxDup : Option Bool) (elemDup : Bool) :
    Except Err CsvTextOut := do
  match ← toCsvHistU h toCsv ctxDup elemDup with
  | .unchanged => pure .unchanged
  | .table rows => pure (.text (csvText f rows))

/-! ## reading a printed number back -/

/-- the characters before the first `'.'` and those after it -/
def splitDot : List Char → List Char × List Char
  | [] => ([], [])
  | c :: cs => if c = '.' then ([], cs) else ((splitDot cs).map (c :: ·) id)

/-- a leading minus sign, and the rest -/
def stripSign : List Char → Bool × List Char
  | '-' :: r => (true, r)
  | r => (false, r)

/-- a decimal number `[-]ddd.dddddd` (as `"{:f}"` prints it) read back: whether it has a minus sign, and its
absolute value in millionths (`int(part before the dot) * 10**6 + int(six digits after the dot)`) -/
def parseFixed (cs : List Char) : Bool × Nat :=
  let (neg, body) := stripSign cs
  let (ip, fp) := splitDot body
  (neg, Nat.ofDigitChars 10 ip 0 * 1000000 + Nat.ofDigitChars 10 fp 0)

end Lena.C12
