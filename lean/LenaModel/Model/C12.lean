import LenaModel.Model.NArr
/-! # C12 model — histogram and graph arithmetic, scaling and conversions

Transcription (of the code as it is now in /repo, after the `fix:` commits 7a20429, e1eb9d9; for 8d715e5 — one axis
nested in a list, `[[x0, …]]`, for which `mkHist` here answers `unmodelled` — see `mkHistU`, `addU`, `toCsvHistU` in
`Model/C12Ext.lean`) of

* `_check_edges_increasing_1d`, `check_edges_increasing` (hist_functions.py:71-102),
  `histogram.__init__` (histogram.py:47-164), `init_bins` (hist_functions.py:394-435, via `NArr.full`),
* `unify_1_md` (hist_functions.py:640-652), `integral` (hist_functions.py:438-455),
* `histogram.scale` (histogram.py:331-370), `histogram.add` (histogram.py:166-208) with
  `lena.math.isclose` (math/utils.py:47-102) and `md_map` (`NArr.mdMap`, `NArr.mdMap2`),
  `get_nevents`, `set_nevents` (histogram.py:266-324), `histogram._update_context` (372-399),
* `iter_bins` (`NArr.cells`), `get_bin_on_index` (`NArr.getBin`), `get_bin_edges`
  (hist_functions.py:105-123), `iter_bins_with_edges` (474-509), `iter_cells` (512-613, index
  `ranges`; `coord_ranges` are outside the model),
* `hist_to_graph` (hist_functions.py:299-391),
* `graph.__init__`, `_parse_error_names`, `_get_err_indices`, `__iter__`/`rows`, `scale`, `__add__`
  (graph.py:16-158,176-271,273-316,374-418),
* `hist1d_to_csv`, `hist2d_to_csv` (to_csv.py:120-181: the rows, as tuples of numbers — `{:f}`
  formatting is not modelled) and the dispatch of `ToCSV.run` for one value (to_csv.py:224-338),
* `scale_to` (flow/group_scale.py:8-62) and `ScaleTo.__call__` (structures/elements.py:119-138).

Modelling decisions (DESIGN.md section 3, C12):
* Numbers are exact rationals `Q := Rat` (Lean core): Python ints and floats are embedded exactly, `float(x)` is
  the identity, rounding is outside the model (DESIGN.md section 8).
* Python exceptions are explicit outcomes: `Except Err ρ` with the exception class (`Lena.Err`).
* One- and multidimensional histograms keep their different `edges` formats (`Edges.flat` / `Edges.nested`);
  the functions that unify them are transcribed (`Edges.axes`).
* Mutation (`scale`, `set_nevents`, the cached `_scale`) is state passing: a function returns the new structure.
* Field names are lists of characters (`"error_x_low".toList`).

No imports except `LenaModel.Model.NArr`: this file is executed by `drivers/C12.lean`. -/

namespace Lena.C12

open Lena Lena.NArr

/-- the numbers of the model: exact rationals -/
abbrev Q := Rat

/-! ## edges, `check_edges_increasing`, `histogram.__init__` -/

/-- `edges` of a histogram: a flat list of numbers (one-dimensional format) or a list of
one-dimensional arrays (multidimensional format). -/
inductive Edges where
  | flat : List Q → Edges
  | nested : List (List Q) → Edges
  deriving Repr, DecidableEq

/-- `unify_1_md(bins, edges)[1]` (hist_functions.py:640-652), also `if hist.dim == 1: edges = (edges,)` of
`iter_cells` and `if not isinstance(edges[0], list): edges = [edges]` of `iter_bins_with_edges`:
one list of edges per axis -/
def Edges.axes : Edges → List (List Q)
  | .flat e => [e]
  | .nested es => es

/-- `all(tup[0] < tup[1] for tup in zip(arr, arr[1:]))` (hist_functions.py:75-76) -/
def increasingPairs : List Q → Bool
  | a :: b :: rest => decide (a < b) && increasingPairs (b :: rest)
  | _ => true

/-- `_check_edges_increasing_1d(arr)` (hist_functions.py:71-80) -/
def checkEdges1d (arr : List Q) : Except Err Unit :=
  if arr.length ≤ 1 then .error .lenaValueError
  else if !increasingPairs arr then .error .lenaValueError
  else .ok ()

/-- the `for arr in edges:` loop of `check_edges_increasing` (hist_functions.py:96-102) -/
def checkEdgesAxes : List (List Q) → Except Err Unit
  | [] => .ok ()
  | arr :: rest =>
    if arr.length ≤ 1 then .error .lenaValueError
    else do
      checkEdges1d arr
      checkEdgesAxes rest

/-- `check_edges_increasing(edges)` (hist_functions.py:83-102) -/
def checkEdgesIncreasing : Edges → Except Err Unit
  | .flat e => if e.isEmpty then .error .lenaValueError else checkEdges1d e
  | .nested es => if es.isEmpty then .error .lenaValueError else checkEdgesAxes es

/-- numbers of bins per axis, `[len(axis) - 1 for axis in edges]` -/
def nbinsOf (axes : List (List Q)) : List Nat := axes.map (fun e => e.length - 1)

/-- the state of a `lena.structures.histogram` -/
structure Hist where
  edges : Edges
  bins : NArr Q
  /-- `n_out_of_range` -/
  nOut : Q
  /-- the cached `_scale` (`None` until computed or set) -/
  scale : Option Q
  deriving Repr

/-- `hist.dim` -/
def Hist.dim (h : Hist) : Nat := h.edges.axes.length
/-- `hist.nbins` -/
def Hist.nbins (h : Hist) : List Nat := nbinsOf h.edges.axes

/-- `len(bins)` -/
def lenBins : NArr Q → Except Err Nat
  | .leaf _ => .error .typeError
  | .node xs => .ok xs.length

/-- `histogram.__init__(edges, bins, initial_value)` (histogram.py:47-164).  A nested `edges` with a single
axis is treated by the code as one-dimensional *flat* edges whose numbers are lists: outside the model. -/
def mkHist (edges : Edges) (bins : Option (NArr Q)) (initial : Q) : Except Err Hist := do
  checkEdgesIncreasing edges
  match edges, edges.axes with
  | .nested [_], _ => .error .unmodelled
  | _, [] => .error .lenaValueError   -- not reached: `check_edges_increasing` has rejected it
  | _, e0 :: rest =>
    match bins with
    | none => pure { edges := edges, bins := full (nbinsOf (e0 :: rest)) initial, nOut := 0, scale := none }
    | some b =>
      let n ← lenBins b
      if n ≠ e0.length - 1 then .error .lenaValueError
      else pure { edges := edges, bins := b, nOut := 0, scale := none }

/-! ## `integral`, `histogram.scale` -/

/-- `[edges[coord][i+1] - edges[coord][i] for coord, i in enumerate(ind)]` (hist_functions.py:447-450) -/
def binLengths : List (List Q) → List Nat → Except Err (List Q)
  | _, [] => .ok []
  | [], _ :: _ => .error .indexError
  | e :: es, i :: is =>
    match e[i + 1]?, e[i]? with
    | some hi, some lo => do
      let rest ← binLengths es is
      pure ((hi - lo) :: rest)
    | _, _ => .error .indexError

/-- `_reduce(operator.mul, bin_lengths, 1)` -/
def prod (l : List Q) : Q := l.foldl (· * ·) 1

/-- the loop of `integral` over the cells, `total` being the running sum -/
def integralLoop (axes : List (List Q)) : List (List Nat × Q) → Q → Except Err Q
  | [], total => .ok total
  | (ind, content) :: rest, total => do
    let lens ← binLengths axes ind
    integralLoop axes rest (total + prod lens * content)

/-- `integral(bins, edges)` (hist_functions.py:438-455), `edges` unified -/
def integral (bins : NArr Q) (axes : List (List Q)) : Except Err Q :=
  integralLoop axes (cells bins) 0

/-- `hist.scale(None, recompute)`: returns the scale and the histogram with `_scale` stored -/
def getScale (h : Hist) (recompute : Bool) : Except Err (Hist × Q) :=
  match h.scale, recompute with
  | some s, false => .ok (h, s)
  | _, _ => do
    let s ← integral h.bins h.edges.axes
    pure ({ h with scale := some s }, s)

/-- `hist.scale(other)` for a number `other` (histogram.py:356-370) -/
def setScale (h : Hist) (other : Q) : Except Err Hist := do
  let (h1, scale) ← getScale h false
  if scale = 0 then .error .lenaValueError
  else do
    let bins ← mdMap (fun binc => binc * other / scale) h1.bins
    pure { h1 with bins := bins, nOut := h1.nOut * (other / scale), scale := some other }

/-- what is left of a histogram when `hist.scale(other)` raised: at most the cached scale changed -/
def cacheScale (h : Hist) : Hist :=
  match getScale h false with
  | .ok (h1, _) => h1
  | .error _ => h

/-! ## `get_nevents`, `set_nevents` -/

/-- `sum(...)` of Python, from 0 -/
def sumQ (l : List Q) : Q := l.foldl (· + ·) 0

/-- `hist.get_nevents(include_out_of_range)` (histogram.py:266-284) -/
def getNevents (h : Hist) (includeOut : Bool) : Q :=
  let nIn := sumQ (values h.bins)
  if includeOut then nIn + h.nOut else nIn

/-- `hist.set_nevents(nevents, include_out_of_range)` (histogram.py:286-324) -/
def setNevents (h : Hist) (nevents : Q) (includeOut : Bool) : Except Err Hist :=
  let old := getNevents h includeOut
  if old = 0 then .error .lenaValueError
  else do
    let scale := nevents / old
    let nOut := h.nOut * scale
    let bins ← mdMap (fun binc => binc * scale) h.bins
    pure { h with bins := bins, nOut := nOut }

/-! ## `histogram.add` -/

/-- `edges_rel_tol`, `edges_abs_tol` -/
structure Tol where
  rel : Q
  abs : Q
  deriving Repr

/-- `_isclose(a, b, rel_tol, abs_tol)` (math/utils.py:41-44) -/
def isclose1 (t : Tol) (a b : Q) : Bool :=
  decide ((a - b).abs ≤ max (t.rel * max a.abs b.abs) t.abs)

/-- `isclose(a, b)` for lists of numbers: `b[ind]` raises `IndexError` when `b` is shorter -/
def iscloseList (t : Tol) : List Q → List Q → Except Err Bool
  | [], _ => .ok true
  | _ :: _, [] => .error .indexError
  | a :: as, b :: bs => if isclose1 t a b then iscloseList t as bs else .ok false

/-- `isclose(a, b)` for lists of lists of numbers -/
def iscloseAxes (t : Tol) : List (List Q) → List (List Q) → Except Err Bool
  | [], _ => .ok true
  | _ :: _, [] => .error .indexError
  | a :: as, b :: bs => do
    let c ← iscloseList t a b
    if c then iscloseAxes t as bs else pure false

/-- `isclose(self.edges, other.edges)`; a flat list against a nested one compares a number with a list
(`_isclose` then raises a builtin `TypeError`) -/
def iscloseEdges (t : Tol) : Edges → Edges → Except Err Bool
  | .flat a, .flat b => iscloseList t a b
  | .nested a, .nested b => iscloseAxes t a b
  | .flat [], _ => .ok true
  | .nested [], _ => .ok true
  | _, _ => .error .typeError

/-- `self.add(other, weight, edges_abs_tol, edges_rel_tol)` (histogram.py:166-208); `other` is a histogram -/
def add (self other : Hist) (weight : Q) (t : Tol) : Except Err Hist := do
  let differ ←
    if self.nbins ≠ other.nbins then pure true
    else do
      let c ← iscloseEdges t self.edges other.edges
      pure (!c)
  if differ then .error .lenaValueError
  else do
    let obins ← if weight ≠ 1 then mdMap (fun val => val * weight) other.bins else pure other.bins
    let newBins ← mdMap2 (· + ·) self.bins obins
    let newHist ← mkHist self.edges (some newBins) 0
    pure { newHist with nOut := self.nOut + other.nOut * weight }

/-! ## iterators: `iter_bins_with_edges`, `iter_cells` -/

/-- `[(edges[coord][i], edges[coord][i+1]) for coord, i in enumerate(index)]` (`get_bin_edges`, multidimensional
branch; the same pairs as `zip(edges_low, edges_high)` in `iter_bins_with_edges`) -/
def cellEdges : List (List Q) → List Nat → Except Err (List (Q × Q))
  | _, [] => .ok []
  | [], _ :: _ => .error .indexError
  | e :: es, i :: is =>
    match e[i]?, e[i + 1]? with
    | some lo, some hi => do
      let rest ← cellEdges es is
      pure ((lo, hi) :: rest)
    | _, _ => .error .indexError

/-- `iter_bins_with_edges(bins, edges)` (hist_functions.py:474-509): `(bin content, bin edges)` for the index
tuples `itertools.product(*[range(len(edge)-1) for edge in edges])`.  The content is whatever
`get_bin_on_index` returns (a sub-array when `bins` are deeper than `edges`). -/
def iterBinsWithEdges (bins : NArr Q) (edges : Edges) : Except Err (List (NArr Q × List (Q × Q))) :=
  let axes := edges.axes
  (indexProd (axes.map (fun e => List.range (e.length - 1)))).mapM (fun index => do
    let b ← getBin bins index
    let ce ← cellEdges axes index
    pure (b, ce))

/-- a `HistCell(edges, bin, index)` -/
structure HistCell where
  edges : List (Q × Q)
  bin : NArr Q
  index : List Nat
  deriving Repr

/-- `list(range(low, up))` for `0 ≤ low` -/
def rangeFromTo (low : Nat) (up : Int) : List Nat :=
  (List.range (up.toNat - low)).map (· + low)

/-- the `for coord, coord_range in enumerate(ranges)` loop of `iter_cells` (hist_functions.py:585-605):
`axes` are the edges from position `coord` on -/
def realIndRanges : List (List Q) → List (Option Int × Option Int) → Except Err (List (List Nat))
  | _, [] => .ok []
  | [], _ :: _ => .error .indexError
  | e :: es, (low, up) :: rest => do
    let low ← match low with
      | none => pure 0
      | some l => if l < 0 then .error .lenaValueError else pure l.toNat
    let maxInd : Int := (e.length : Int) - 1
    let up ← match up with
      | none => pure maxInd
      | some u => if u > maxInd then .error .lenaValueError else pure u
    let tail ← realIndRanges es rest
    pure (rangeFromTo low up :: tail)

/-- `iter_cells(hist, ranges)` (hist_functions.py:512-613) without `coord_ranges`; `ranges = None` or empty
means `((None, None),) * hist.dim` -/
def iterCells (h : Hist) (ranges : Option (List (Option Int × Option Int))) : Except Err (List HistCell) := do
  let axes := h.edges.axes
  let ranges := match ranges with
    | none => List.replicate h.dim (none, none)
    | some [] => List.replicate h.dim (none, none)
    | some r => r
  let real ← realIndRanges axes ranges
  (indexProd real).mapM (fun ind => do
    let ce ← cellEdges axes ind
    let b ← getBin h.bins ind
    pure { edges := ce, bin := b, index := ind })

/-! ## `graph` -/

/-- a field name -/
abbrev Name := List Char

/-- `"error_"` -/
def errorPrefix : Name := "error_".toList

/-- the first loop of `_parse_error_names` (graph.py:277-292): error fields `(field, ind)`, `last_coord_ind`;
`LenaValueError` when a coordinate field follows an error field -/
def splitFields : List Name → Nat → Bool → Nat → Except Err (List (Name × Nat) × Nat)
  | [], _, _, lastCoord => .ok ([], lastCoord)
  | field :: rest, ind, inErr, lastCoord =>
    if errorPrefix.isPrefixOf field then do
      let (errs, lc) ← splitFields rest (ind + 1) true lastCoord
      pure ((field, ind) :: errs, lc)
    else if inErr then .error .lenaValueError
    else splitFields rest (ind + 1) inErr ind

/-- `err_main == coord or err_main.startswith(coord + "_")` -/
def errMatches (errMain coord : Name) : Bool :=
  errMain == coord || (coord ++ ['_']).isPrefixOf errMain

/-- a parsed error field `("error", coordinate name, tail, index)` -/
structure ParsedErr where
  coord : Name
  tail : Name
  ind : Nat
  deriving Repr, DecidableEq

/-- the second loop of `_parse_error_names` (graph.py:294-314) -/
def parseErrs (coords : List Name) : List (Name × Nat) → Except Err (List ParsedErr)
  | [] => .ok []
  | (err, ind) :: rest =>
    let errMain := err.drop 6
    match coords.filter (errMatches errMain) with
    | [] => .error .lenaValueError
    | [c] => do
      let tail ← parseErrs coords rest
      pure ({ coord := c, tail := errMain.drop (c.length + 1), ind := ind } :: tail)
    | _ :: _ :: _ => .error .lenaValueError

/-- `graph._parse_error_names(field_names)` (graph.py:273-316).  `coords` is a set in Python; the field
names are already known to be distinct here. -/
def parseErrorNames (fieldNames : List Name) : Except Err (List ParsedErr) := do
  let (errors, lastCoordInd) ← splitFields fieldNames 0 false 0
  parseErrs (fieldNames.take (lastCoordInd + 1)) errors

/-- the `field_names` argument: a string, a tuple of strings, or something else -/
inductive FieldNamesArg where
  | str : List Char → FieldNamesArg
  | tuple : List Name → FieldNamesArg
  | other : FieldNamesArg
  deriving Repr

/-- `[,\s]` for ASCII -/
def isSep (c : Char) : Bool :=
  c == ',' || c == ' ' || c == '\t' || c == '\n' || c == '\r' || c == '\x0b' || c == '\x0c'

/-- `re.findall(r'[^,\s]+', s)`: `cur` is the field being read (reversed) -/
def splitNames : List Char → List Char → List Name
  | [], cur => if cur.isEmpty then [] else [cur.reverse]
  | c :: cs, cur =>
    if isSep c then
      if cur.isEmpty then splitNames cs [] else cur.reverse :: splitNames cs []
    else splitNames cs (c :: cur)

/-- `field_names` as a tuple (graph.py:100-115, hist_functions.py:356-362) -/
def fieldNamesTuple : FieldNamesArg → Except Err (List Name)
  | .str s => .ok (splitNames s [])
  | .tuple t => .ok t
  | .other => .error .lenaTypeError

/-- the state of a `lena.structures.graph` -/
structure Graph where
  coords : List (List Q)
  fieldNames : List Name
  /-- `_scale` -/
  scale : Option Q
  /-- `_parsed_error_names` -/
  parsed : List ParsedErr
  dim : Nat
  deriving Repr

/-- `len(set(field_names)) != len(field_names)` -/
def hasDuplicates : List Name → Bool
  | [] => false
  | n :: ns => ns.contains n || hasDuplicates ns

/-- all arrays of `coords[1:]` have the length of `coords[0]` -/
def sameLengths : List (List Q) → Bool
  | [] => true
  | c :: cs => cs.all (fun arr => arr.length == c.length)

/-- `graph.__init__(coords, field_names, scale)` (graph.py:16-158) -/
def mkGraph (coords : List (List Q)) (fieldNames : FieldNamesArg) (scale : Option Q) : Except Err Graph := do
  if coords.isEmpty then .error .lenaValueError
  else if !sameLengths coords then .error .lenaValueError
  else do
    let names ← fieldNamesTuple fieldNames
    if names.length ≠ coords.length then .error .lenaValueError
    else if hasDuplicates names then .error .lenaValueError
    else do
      let parsed ← parseErrorNames names
      pure { coords := coords, fieldNames := names, scale := scale, parsed := parsed,
             dim := names.length - parsed.length }

/-- `zip(*coords)`: `graph.__iter__`, `graph.rows()` -/
def zipRows : List (List Q) → List (List Q)
  | [] => []
  | [c] => c.map (fun v => [v])
  | c :: cs => List.zipWith (· :: ·) c (zipRows cs)

/-- `graph.rows()` -/
def Graph.rows (g : Graph) : List (List Q) := zipRows g.coords

/-- `graph._get_err_indices(coord_name)` (graph.py:176-183); `k` is the position in `_parsed_error_names` -/
def errIndices (dim : Nat) (coordName : Name) : List ParsedErr → Nat → List Nat
  | [], _ => []
  | err :: rest, k =>
    if err.coord == coordName then (k + dim) :: errIndices dim coordName rest (k + 1)
    else errIndices dim coordName rest (k + 1)

/-- the loop `for ind, arr in enumerate(self.coords)` of `graph.scale` -/
def rescaleCoords (rescale : Q) (inds : List Nat) : List (List Q) → Nat → List (List Q)
  | [], _ => []
  | arr :: rest, ind =>
    (if inds.contains ind then arr.map (fun v => rescale * v) else arr) :: rescaleCoords rescale inds rest (ind + 1)

/-- `graph.scale(other)` for a number `other` (graph.py:195-271).  `self.field_names[self.dim - 1]` with
`dim = 0` would be Python's `field_names[-1]`; a constructed graph has `dim ≥ 1` (`Props`), the model
answers `unmodelled` otherwise. -/
def graphSetScale (g : Graph) (other : Q) : Except Err Graph :=
  match g.scale with
  | none => .error .lenaValueError
  | some sc =>
    if sc = 0 then .error .lenaValueError
    else if g.dim = 0 then .error .unmodelled
    else
      let lastCoordInd := g.dim - 1
      match g.fieldNames[lastCoordInd]? with
      | none => .error .indexError
      | some lastCoordName =>
        let inds := lastCoordInd :: errIndices g.dim lastCoordName g.parsed 0
        let rescale := other / sc
        .ok { g with coords := rescaleCoords rescale inds g.coords 0, scale := some other }

/-! ## `graph.__add__` -/

/-- `all(len(self.coords[i]) == len(other.coords[i]) for i in range(dim - 1))`; a missing array is an `IndexError` -/
def sameCoordLengths (a b : List (List Q)) : Nat → Except Err Bool
  | 0 => .ok true
  | k + 1 => do
    let rest ← sameCoordLengths a b k
    match a[k]?, b[k]? with
    | some x, some y => pure (rest && x.length == y.length)
    | _, _ => .error .indexError

/-- the scale of a sum of graphs: the sum of the scales if both are known (graph.py:404-414) -/
def addScales : Option Q → Option Q → Option Q
  | some s0, some s1 => some (s0 + s1)
  | _, _ => none

/-- `self + other` for two graphs (graph.py:374-418): the last coordinates are added point by point, the other
coordinates are taken from `self`, error fields are not copied — but all field names of `self` are given to the
new graph, so a `self` with error fields ends in the `LenaValueError` of `graph.__init__`.  The `assert`s
(equal dimensions, equal lengths of the other coordinates) are `AssertionError`s: outside the model. -/
def graphAdd (a b : Graph) : Except Err Graph :=
  if a.dim ≠ b.dim then .error .unmodelled
  else if a.dim = 0 then .error .unmodelled
  else do
    let lastCoordInd := a.dim - 1
    let allSame ← sameCoordLengths a.coords b.coords lastCoordInd
    if !allSame then .error .unmodelled
    else
      match a.coords[lastCoordInd]?, b.coords[lastCoordInd]? with
      | some xa, some xb =>
        if xb.length < xa.length then .error .indexError
        else
          let newVals := List.zipWith (· + ·) xa xb
          let newCoords := a.coords.take lastCoordInd ++ [newVals]
          mkGraph newCoords (.tuple a.fieldNames) (addScales a.scale b.scale)
      | _, _ => .error .indexError

/-! ## `hist_to_graph` -/

/-- `get_coordinate` -/
inductive CoordMode where
  | left | right | middle | bad
  deriving Repr, DecidableEq

/-- `get_coord(edges)` for the three modes (hist_functions.py:338-346) -/
def getCoord : CoordMode → List (Q × Q) → List Q
  | .left, edges => edges.map (fun c => c.1)
  | .right, edges => edges.map (fun c => c.2)
  | .middle, edges => edges.map (fun c => (1 / 2 : Q) * (c.1 + c.2))
  | .bad, _ => []

/-- `for arr, coord_ in zip(coords, chain(coord, graph_value)): arr.append(coord_)` -/
def appendRow : List (List Q) → List Q → List (List Q)
  | arr :: arrs, v :: vs => (arr ++ [v]) :: appendRow arrs vs
  | arrs, [] => arrs
  | [], _ :: _ => []

/-- the `scale` argument of `hist_to_graph` -/
inductive ScaleArg where
  | none | true | num (s : Q)
  deriving Repr

/-- `graph_value`: the bin content, or `make_value(content)`, as a tuple (`if not hasattr(graph_value, "__iter__"):
graph_value = (graph_value,)`).  `makeValue` stands for `make_value` followed by that conversion. -/
def graphValue (makeValue : Option (Q → List Q)) (value : Q) : List Q :=
  match makeValue with
  | none => [value]
  | some f => f value

/-- the loop of `hist_to_graph` over `iter_bins_with_edges`.  A bin that is a list is outside the model. -/
def graphLoop (mode : CoordMode) (makeValue : Option (Q → List Q)) :
    List (NArr Q × List (Q × Q)) → List (List Q) → Except Err (List (List Q))
  | [], coords => .ok coords
  | (.leaf value, edges) :: rest, coords =>
    graphLoop mode makeValue rest (appendRow coords (getCoord mode edges ++ graphValue makeValue value))
  | (.node _, _) :: _, _ => .error .unmodelled

/-- `if scale is True: scale = hist.scale()` (hist_functions.py:366-367): the histogram (its scale is stored by
`scale()`) and the scale of the graph -/
def resolveScale (h : Hist) : ScaleArg → Except Err (Hist × Option Q)
  | .none => .ok (h, none)
  | .num s => .ok (h, some s)
  | .true => do
    let (h1, s) ← getScale h false
    pure (h1, some s)

/-- `hist_to_graph(hist, make_value, get_coordinate, field_names, scale)` (hist_functions.py:299-391).
Returns the histogram too: `scale=True` stores the computed scale in it. -/
def histToGraph (h : Hist) (makeValue : Option (Q → List Q)) (mode : CoordMode)
    (fieldNames : FieldNamesArg) (scale : ScaleArg) : Except Err (Hist × Graph) :=
  if mode = .bad then .error .lenaValueError
  else do
    let names ← fieldNamesTuple fieldNames
    let (h1, sc) ← resolveScale h scale
    let cells ← iterBinsWithEdges h1.bins h1.edges
    let coords ← graphLoop mode makeValue cells (names.map (fun _ => []))
    let g ← mkGraph coords (.tuple names) sc
    pure (h1, g)

/-! ## CSV rows (`hist1d_to_csv`, `hist2d_to_csv`, `ToCSV.run`) -/

/-- `bins_[x_ind]` must be a number (`float(bin_content)`; a list raises `LenaTypeError`) -/
def cellNumber : Option (NArr Q) → Except Err Q
  | none => .error .indexError
  | some (.leaf v) => .ok v
  | some (.node _) => .error .lenaTypeError

/-- the loop `for x_ind, x in enumerate(edges_[:-1])` of `hist1d_to_csv` -/
def rows1dLoop (bins : List (NArr Q)) : List Q → Nat → Except Err (List (List Q))
  | [], _ => .ok []
  | x :: xs, xInd => do
    let c ← cellNumber bins[xInd]?
    let rest ← rows1dLoop bins xs (xInd + 1)
    pure ([x, c] :: rest)

/-- the rows of `hist1d_to_csv(hist, duplicate_last_bin=…)` (to_csv.py:120-155) as `[x, content]` -/
def rows1d (edges : List Q) (bins : NArr Q) (dup : Bool) : Except Err (List (List Q)) :=
  match bins with
  | .leaf _ => .error .typeError
  | .node bs => do
    let rows ← rows1dLoop bs edges.dropLast 0
    if dup then
      let c ← cellNumber bs.getLast?
      match edges.getLast? with
      | none => .error .indexError
      | some x => pure (rows ++ [[x, c]])
    else pure rows

/-- `bins[x_ind][y_ind]` in `hist2d_to_csv`: no conversion, `{:f}` of a list is a builtin `TypeError` -/
def cell2d (bins : NArr Q) (xInd yInd : Nat) : Except Err Q :=
  match bins with
  | .leaf _ => .error .typeError
  | .node rows =>
    match rows[xInd]? with
    | none => .error .indexError
    | some (.leaf _) => .error .typeError
    | some (.node cs) =>
      match cs[yInd]? with
      | none => .error .indexError
      | some (.leaf v) => .ok v
      | some (.node _) => .error .typeError

/-- the inner loop `for y_ind, y in enumerate(edges[1][:-1])`: rows and the last `bin_content` -/
def rows2dInner (bins : NArr Q) (x : Q) (xInd : Nat) : List Q → Nat → Option Q → Except Err (List (List Q) × Option Q)
  | [], _, last => .ok ([], last)
  | y :: ys, yInd, _ => do
    let c ← cell2d bins xInd yInd
    let (rest, last) ← rows2dInner bins x xInd ys (yInd + 1) (some c)
    pure ([x, y, c] :: rest, last)

/-- `format_line(x, y, bin_content)` with `bin_content` possibly still unbound (`UnboundLocalError`: outside
the model, cannot happen for checked edges) -/
def dupRow (x y : Q) : Option Q → Except Err (List Q)
  | none => .error .unmodelled
  | some c => .ok [x, y, c]

/-- the outer loop `for x_ind, x in enumerate(edges[0][:-1])` of `hist2d_to_csv`; carries `bin_content` and
the last `x_ind` -/
def rows2dOuter (bins : NArr Q) (ys : List Q) (yLast : Option Q) (dup : Bool) :
    List Q → Nat → Option Q → Option Nat → Except Err (List (List Q) × Option Q × Option Nat)
  | [], _, last, lastX => .ok ([], last, lastX)
  | x :: xs, xInd, last, _ => do
    let (inner, last) ← rows2dInner bins x xInd ys 0 last
    let extra ← if dup then
        match yLast with
        | none => .error .indexError
        | some y => do
          let r ← dupRow x y last
          pure [r]
      else pure []
    let (rest, last', lastX) ← rows2dOuter bins ys yLast dup xs (xInd + 1) last (some xInd)
    pure (inner ++ extra ++ rest, last', lastX)

/-- the rows of `hist2d_to_csv(hist, duplicate_last_bin=…)` (to_csv.py:158-181) as `[x, y, content]` -/
def rows2d (ex ey : List Q) (bins : NArr Q) (dup : Bool) : Except Err (List (List Q)) := do
  let ys := ey.dropLast
  let (rows, last, lastX) ← rows2dOuter bins ys ey.getLast? dup ex.dropLast 0 none none
  if dup then
    match ex.getLast?, ey.getLast?, lastX with
    | some x, some y, some xInd => do
      let (inner, last) ← rows2dInner bins x xInd ys 0 last
      let r ← dupRow x y last
      pure (rows ++ inner ++ [r])
    | _, _, _ => .error .unmodelled
  else pure rows

/-- what `ToCSV.run` does with one histogram -/
inductive CsvOut where
  /-- the value is yielded unchanged -/
  | unchanged
  /-- a CSV text with these rows (after the header, if any) -/
  | table (rows : List (List Q))
  deriving Repr

/-- `ToCSV.run` for one `(histogram, context)` value (to_csv.py:262-302): `toCsv` is `context.output.to_csv`
(default `True`), `ctxDup` is `context.output.duplicate_last_bin` if present, `elemDup` the element's setting -/
def toCsvHist (h : Hist) (toCsv : Bool) (ctxDup : Option Bool) (elemDup : Bool) : Except Err CsvOut :=
  if !toCsv then .ok .unchanged
  else
    let dup := match ctxDup with
      | some d => d
      | none => elemDup
    match h.edges with
    | .flat e => do
      let rows ← rows1d e h.bins dup
      pure (.table rows)
    | .nested [ex, ey] => do
      let rows ← rows2d ex ey h.bins dup
      pure (.table rows)
    | .nested _ => .ok .unchanged

/-- `ToCSV.run` for one `(graph, context)` value (to_csv.py:315-338): the rows of `graph.rows()` -/
def toCsvGraph (g : Graph) (toCsv : Bool) : CsvOut :=
  if !toCsv then .unchanged
  else .table g.rows   -- `if rows:` is true for the generator `iterable_to_table(...)`, even without rows

/-! ## `scale_to`, `ScaleTo` -/

/-- the data part of a group item -/
inductive Struct where
  | hist (h : Hist)
  | graph (g : Graph)
  /-- an object without a method `scale` -/
  | other
  deriving Repr

/-- outcome of `data.scale(scale)` in `scale_to` / `ScaleTo`: the new structure, or the exception together with
what is left of the structure -/
inductive ScaleOutcome where
  | ok (s : Struct)
  | raised (e : Err) (s : Struct)
  | attributeError
  deriving Repr

/-- `data.scale(scale)`; `scale = None` only *reads* the scale (a histogram computes and stores it) -/
def structScale (d : Struct) (scale : Option Q) : ScaleOutcome :=
  match d, scale with
  | .hist h, some s =>
    match setScale h s with
    | .ok h' => .ok (.hist h')
    | .error e => .raised e (.hist (cacheScale h))
  | .hist h, none =>
    match getScale h false with
    | .ok (h1, _) => .ok (.hist h1)
    | .error e => .raised e (.hist h)
  | .graph g, some s =>
    match graphSetScale g s with
    | .ok g' => .ok (.graph g')
    | .error e => .raised e (.graph g)
  | .graph g, none => .ok (.graph g)
  | .other, _ => .attributeError

/-- `ScaleTo(scale_to)(value)` (elements.py:128-138): the new data, or the exception (`none` = builtin
`AttributeError`) -/
def scaleToCall (d : Struct) (scale : Q) : Except (Option Err) Struct :=
  match structScale d (some scale) with
  | .ok s => .ok s
  | .raised e _ => .error (some e)
  | .attributeError => .error none

/-- the rescaling loop of `scale_to` (group_scale.py:44-61): the group as far as it was rescaled, and the
exception that ended the loop, if any -/
def scaleLoop (scale : Option Q) (allowZero allowUnknown : Bool) : List Struct → List Struct × Option Err
  | [] => ([], none)
  | d :: rest =>
    match structScale d scale with
    | .ok d' =>
      let (r, e) := scaleLoop scale allowZero allowUnknown rest
      (d' :: r, e)
    | .attributeError =>
      if !allowUnknown then (d :: rest, some .lenaValueError)
      else
        let (r, e) := scaleLoop scale allowZero allowUnknown rest
        (d :: r, e)
    | .raised err d' =>
      if err = .lenaValueError then
        if !allowZero then (d' :: rest, some err)
        else
          let (r, e) := scaleLoop scale allowZero allowUnknown rest
          (d' :: r, e)
      else (d' :: rest, some err)

/-- the `scale_to` argument: a number, or a selector (here: by the class of the data) -/
inductive ScaleTarget where
  | num (s : Q)
  | selectHist
  | selectGraph
  deriving Repr

/-- `Selector(cls)(value)`: `isinstance(get_data(value), cls)` -/
def ScaleTarget.selects : ScaleTarget → Struct → Bool
  | .selectHist, .hist _ => true
  | .selectGraph, .graph _ => true
  | _, _ => false

/-- `cand.scale()`: a histogram computes (and stores) its scale, a graph returns `_scale` (may be `None`) -/
def structGetScale : Struct → Except Err (Struct × Option Q)
  | .hist h => do
    let (h1, s) ← getScale h false
    pure (.hist h1, some s)
  | .graph g => .ok (.graph g, g.scale)
  | .other => .error .unmodelled

/-- replace the first selected item (the candidate) by its state after `scale()` -/
def replaceCand (t : ScaleTarget) (c : Struct) : List Struct → List Struct
  | [] => []
  | d :: rest => if t.selects d then c :: rest else d :: replaceCand t c rest

/-- `scale_to(scale_to, group, allow_zero_scale, allow_unknown_scale)` (group_scale.py:8-62).  A graph
candidate with unknown scale passes `None` on, and `data.scale(None)` rescales nothing. -/
def scaleTo (target : ScaleTarget) (group : List Struct) (allowZero allowUnknown : Bool) :
    List Struct × Option Err :=
  match target with
  | .num s => scaleLoop (some s) allowZero allowUnknown group
  | _ =>
    match group.filter target.selects with
    | [] => (group, some .lenaValueError)
    | _ :: _ :: _ => (group, some .lenaValueError)
    | [cand] =>
      match structGetScale cand with
      | .error e => (group, some e)
      | .ok (cand', s) => scaleLoop s allowZero allowUnknown (replaceCand target cand' group)

/-! ## `histogram._update_context` -/

/-- `hist_context` of `histogram._update_context` (histogram.py:372-399): dim, nbins, n_out_of_range, ranges -/
def histContext (h : Hist) : Nat × List Nat × Q × List (Option Q × Option Q) :=
  (h.dim, h.nbins, h.nOut, h.edges.axes.map (fun axis => (axis.head?, axis.getLast?)))

end Lena.C12
