import LenaModel.Model.C14
/-! # C14 token model — `Variable.__call__` with object identities

The value model of `Model/C14.lean` cannot say *which object* is changed.  Here every mutable Python object
(list, dictionary) carries a token, its identity; tuples, numbers and strings are immutable and carry none.
`callT` transcribes `Variable.__call__` / `_update_context` (lines 135-145, 193-225) once more, now recording

* the token of every object it writes to (`writes`: `d[k] = …`, `l.append`, `l.extend`),
* fresh tokens (from the counter `next`) for the objects it creates: the deep copy of `var_context`, the list
  `[cvar["type"]]`, the `{}` of a value without context,
* and which *existing* objects end up inside the result (`cvar[type_] = old_cvar[type_]` and
  `context["variable"]["compose"] = composed` move objects, they do not copy them).

A value is a tree; an object that is reachable along two paths appears twice with the same token.
`copy.deepcopy` gives every mutable object of the tree a fresh token (the harness builds values without
internal sharing, for which this is what `deepcopy` does).  `erase` forgets the tokens: `Lemmas/C14Tok.lean`
proves that `callT` erases to `call`.  The harness compares tokens with `id()` of the real objects. -/

namespace Lena.C14.Tok
open Lena.C14

inductive TV where
  | int (i : Int)
  | str (s : String)
  | tuple (l : List TV)
  | list (tok : Nat) (l : List TV)
  | dict (tok : Nat) (l : List (Option TV))
  deriving Repr

abbrev TSlots := List (Option TV)

mutual
/-- forget the identities -/
def erase : TV → V
  | .int i => .int i
  | .str s => .str s
  | .tuple l => .seq true (eraseL l)
  | .list _ l => .seq false (eraseL l)
  | .dict _ l => .dict (eraseS l)
def eraseL : List TV → List V
  | [] => []
  | x :: r => erase x :: eraseL r
def eraseS : TSlots → Slots
  | [] => []
  | none :: r => none :: eraseS r
  | some x :: r => some (erase x) :: eraseS r
end

mutual
/-- the tokens of all mutable objects of a value -/
def tokens : TV → List Nat
  | .int _ => []
  | .str _ => []
  | .tuple l => tokensL l
  | .list t l => t :: tokensL l
  | .dict t l => t :: tokensS l
def tokensL : List TV → List Nat
  | [] => []
  | x :: r => tokens x ++ tokensL r
def tokensS : TSlots → List Nat
  | [] => []
  | none :: r => tokensS r
  | some x :: r => tokens x ++ tokensS r
end

mutual
/-- `copy.deepcopy`: the same value, every mutable object new (tokens `next, next+1, …` in pre-order) -/
def deepcopyT (next : Nat) : TV → TV × Nat
  | .int i => (.int i, next)
  | .str s => (.str s, next)
  | .tuple l => let (l', n) := deepcopyL next l; (.tuple l', n)
  | .list _ l => let (l', n) := deepcopyL (next + 1) l; (.list next l', n)
  | .dict _ l => let (l', n) := deepcopyS (next + 1) l; (.dict next l', n)
def deepcopyL (next : Nat) : List TV → List TV × Nat
  | [] => ([], next)
  | x :: r =>
    let (x', n1) := deepcopyT next x
    let (r', n2) := deepcopyL n1 r
    (x' :: r', n2)
def deepcopyS (next : Nat) : TSlots → TSlots × Nat
  | [] => ([], next)
  | none :: r => let (r', n) := deepcopyS next r; (none :: r', n)
  | some x :: r =>
    let (x', n1) := deepcopyT next x
    let (r', n2) := deepcopyS n1 r
    (some x' :: r', n2)
end

mutual
/-- a value whose objects are all distinct: tokens `next, next+1, …` in pre-order (how the harness numbers the
objects of the variable and of the input value, by `id()`) -/
def labelT (next : Nat) : V → TV × Nat
  | .int i => (.int i, next)
  | .str s => (.str s, next)
  | .seq true l => let (l', n) := labelL next l; (.tuple l', n)
  | .seq false l => let (l', n) := labelL (next + 1) l; (.list next l', n)
  | .dict l => let (l', n) := labelS (next + 1) l; (.dict next l', n)
def labelL (next : Nat) : List V → List TV × Nat
  | [] => ([], next)
  | x :: r =>
    let (x', n1) := labelT next x
    let (r', n2) := labelL n1 r
    (x' :: r', n2)
def labelS (next : Nat) : Slots → TSlots × Nat
  | [] => ([], next)
  | none :: r => let (r', n) := labelS next r; (none :: r', n)
  | some x :: r =>
    let (x', n1) := labelT next x
    let (r', n2) := labelS n1 r
    (some x' :: r', n2)
end

/-- `d.get(key)` -/
def getT (l : TSlots) (i : Nat) : Option TV :=
  match l[i]? with
  | some x => x
  | none => none

/-- `d[key] = v` -/
def setT : TSlots → Nat → Option TV → TSlots
  | [], 0, v => [v]
  | [], i + 1, v => none :: setT [] i v
  | _ :: r, 0, v => v :: r
  | x :: r, i + 1, v => x :: setT r i v

section withNames
variable (names : List String)

/-- one iteration of `for type_ in composed` (lines 223-225) on the new `context.variable` `acc`:
`cvar[type_] = old_cvar[type_]` stores the *same object*; returns whether `acc` was written -/
def preserveStepT (old : TSlots) (acc : TSlots) (t : TV) : Except Err (TSlots × Bool) :=
  match t with
  | .str s =>
    let k := key names s
    match getT acc k, getT old k with
    | none, some x => .ok (setT acc k (some x), true)
    | _, _ => .ok (acc, false)
  | other => if V.hashable (erase other) then .ok (acc, false) else .error .typeError

def preserveLoopT (old : TSlots) : TSlots → List TV → Except Err (TSlots × Bool)
  | acc, [] => .ok (acc, false)
  | acc, t :: r =>
    match preserveStepT names old acc t with
    | .error e => .error e
    | .ok (acc', w) =>
      match preserveLoopT old acc' r with
      | .error e => .error e
      | .ok (acc'', w') => .ok (acc'', w || w')

/-- the outcome of one `_update_context(context, var_context)` -/
structure Upd where
  /-- the new `context["variable"]` (the object `var_context` after the assignments of lines 221-225) -/
  cvar : TV
  /-- tokens of the objects that were written to, in order -/
  writes : List Nat
  /-- the token counter after the call -/
  next : Nat

/-- lines 197-213 for a dictionary `cvar` (token `cv`, slots `d`) that passed line 196:
the list object `cvar["compose"]` after `extend`/`append` (token, items), the writes, the counter -/
def composedOfT (next : Nat) (cv : Nat) (d : TSlots) (vc : TSlots) :
    Except Err (Nat × List TV × List Nat × Nat) :=
  let curType : Option TV := getT vc (kType names)
  -- `if "compose" in cvar: assert isinstance(…, list) else: cvar["compose"] = [cvar["type"]]`
  let base : Except Err (Nat × List TV × List Nat × Nat) :=
    match getT d (kCompose names) with
    | some (.list t l) => .ok (t, l, [], next)
    | some _ => .error .assertionError
    | none =>
      match getT d (kType names) with
      | some ty => .ok (next, [ty], [cv], next + 1)          -- a new list object; `cvar` is written
      | none => .error .unmodelled
  match base with
  | .error e => .error e
  | .ok (t, l, w, n) =>
    match getT vc (kCompose names) with
    | some (.list _ l2) => .ok (t, l ++ l2, w ++ [t], n)     -- `cvar["compose"].extend(…)`
    | some _ => .error .assertionError
    | none =>
      match curType with
      | some ty => if V.truthy (erase ty) then .ok (t, l ++ [ty], w ++ [t], n) else .ok (t, l, w, n)
      | none => .ok (t, l, w, n)

/-- `Variable._update_context(context, var_context)` seen on `context["variable"]`; `vcTok`/`vc` is the object
`var_context` (the deep copy made by `__call__`) -/
def updateVarT (fx : Bool) (next : Nat) (cvar : Option TV) (vcTok : Nat) (vc : TSlots) : Except Err Upd :=
  let plain : Upd := ⟨.dict vcTok vc, [], next⟩
  match cvar with
  | none => .ok plain
  | some c =>
    if !V.truthy (erase c) then .ok plain
    else match c with
      | .dict cv d =>
        if ((getT d (kType names)).isSome) || (fx && (getT d (kCompose names)).isSome) then
          match composedOfT names next cv d vc with
          | .error e => .error e
          | .ok (t, composed, w, n) =>
            if composed.isEmpty then .ok ⟨.dict vcTok vc, w, n⟩
            else
              -- `context["variable"]["compose"] = composed` (the same list object), then the loop
              let old := setT d (kCompose names) (some (.list t composed))
              match preserveLoopT names old (setT vc (kCompose names) (some (.list t composed))) composed with
              | .error e => .error e
              | .ok (vc', _) => .ok ⟨.dict vcTok vc', w ++ [vcTok], n⟩
        else .ok plain
      | other =>
        match nonDictContains "type" (erase other) with
        | .error e => .error e
        | .ok true => .error .typeError
        | .ok false =>
          if fx then
            match nonDictContains "compose" (erase other) with
            | .error e => .error e
            | .ok true => .error .typeError
            | .ok false => .ok plain
          else .ok plain

/-- the result of `Variable.__call__` on the context part of a value -/
structure CallRes where
  ctxTok : Nat
  ctx : TSlots
  writes : List Nat
  next : Nat

/-- `Variable.__call__(value)` on identities: `ctx = none` is a value without context (`get_data_context`
returns a new `{}`); `vcTok`/`vc` is the variable's own `var_context` object, which is deep-copied first;
line 216 `context["variable"] = var_context` writes the context object -/
def callT (fx : Bool) (next : Nat) (vcTok : Nat) (vc : TSlots) (ctx : Option (Nat × TSlots)) : Except Err CallRes :=
  let (c, cs, n0) : Nat × TSlots × Nat :=
    match ctx with
    | some (c, cs) => (c, cs, next)
    | none => (next, List.replicate names.length none, next + 1)
  match deepcopyT n0 (.dict vcTok vc) with
  | (.dict ct cc, n1) =>
    match updateVarT names fx n1 (getT cs (kVariable names)) ct cc with
    | .error e => .error e
    | .ok u => .ok ⟨c, setT cs (kVariable names) (some u.cvar), u.writes ++ [c], u.next⟩
  | _ => .error .unmodelled      -- unreachable: the copy of a dictionary is a dictionary

/-- the variable applied `k` times, every time to the value the previous application returned
(`Sequence(v, v, …)`): the results in order -/
def callsT (fx : Bool) (vcTok : Nat) (vc : TSlots) : Nat → Nat → Option (Nat × TSlots) → List (Except Err CallRes)
  | 0, _, _ => []
  | k + 1, next, ctx =>
    match callT names fx next vcTok vc ctx with
    | .error e => [.error e]
    | .ok r => .ok r :: callsT fx vcTok vc k r.next (some (r.ctxTok, r.ctx))

/-- different variables applied one after the other, each to the value the previous one returned
(`Sequence(v₁, v₂, …)` on identities); `callsT k` is `seqT` of `k` copies of one variable -/
def seqT (fx : Bool) : List (Nat × TSlots) → Nat → Option (Nat × TSlots) → List (Except Err CallRes)
  | [], _, _ => []
  | (vt, vc) :: r, next, ctx =>
    match callT names fx next vt vc ctx with
    | .error e => [.error e]
    | .ok res => .ok res :: seqT fx r res.next (some (res.ctxTok, res.ctx))

end withNames

/-! ## what the theorems speak about (executable) -/

/-- the tokens of the objects of a value's context -/
def ctxTokens (ctx : Option (Nat × TSlots)) : List Nat :=
  match ctx with
  | some (c, cs) => tokens (.dict c cs)
  | none => []

/-- the token-level hypothesis: the variable's objects are older than the counter and none of them is an object
of the value -/
def sepB (next : Nat) (vcTok : Nat) (vc : TSlots) (ctx : Option (Nat × TSlots)) : Bool :=
  let tv := tokens (.dict vcTok vc)
  let tc := match ctx with | some (c, cs) => tokens (.dict c cs) | none => []
  tv.all (fun t => t < next && !tc.contains t) && tc.all (fun t => t < next)

/-- the objects a call may write to besides the ones it creates: the context, the old `context.variable`
and its `compose` list -/
def spineTokens (names : List String) (ctx : Option (Nat × TSlots)) : List Nat :=
  match ctx with
  | none => []
  | some (c, cs) =>
    c :: (match getT cs (kVariable names) with
      | some (.dict cv d) =>
        cv :: (match getT d (kCompose names) with
          | some (.list t _) => [t]
          | _ => [])
      | _ => [])

end Lena.C14.Tok
