import LenaModel.Model.C18
import LenaModel.Model.C18Split
/-! # C18 model, part 3 — a `Cache` in a member of a `Split` with SEVERAL members of several types

`Source(src, *outer, Split([m_1, …, m_n], bufsize))()` (`lena/core/split.py`), the members being Sequences (or tuples,
which `_get_seq_with_type` turns into Sequences: type *sequence*), FillCompute elements (type *fill_compute*) and
FillRequest elements (type *fill_request*).

* `Split.__init__` (split.py:252-260):
  ```
  if bufsize is not None and any(seq_type == "sequence" and _contains_cache(seq)
                                 for seq, seq_type in zip(new_seqs, self._seq_types)):
      bufsize = None
  ```
  the rule does not look at the types of the *other* members (`effBufsizeMembers`, `effBufsizeTyped`).
* `Split.run` (split.py:291-420) when one buffer holds the whole flow (`self._bufsize is None`): the input is read to its
  end (`list(itertools.islice(flow, None))`); then, in the order of the members, a Sequence is run on the buffer and
  its values are yielded, a FillRequest is filled with the buffer and the values of `request()` are yielded, a
  FillCompute is filled; the next buffer is empty (`break`); then every FillCompute member yields `compute()`.
  If the flow was empty nothing happens in the loop, and after it every member in order yields `compute()`,
  `request()` or `run([])`.

The accumulators of the harness (`_FC`, `_FR` in harness/props/c18.py) yield one value, `10 * (sum of the values
filled) + a`; their `fill` is not an observable event.  Elements are numbered over the outer elements and then the
elements of the Sequence members (accumulators have no number).  No imports besides the earlier parts. -/

namespace Lena.C18

/-- a member of `Split([…], bufsize)` -/
inductive Member where
  /-- `Sequence(*els)` or the tuple `(*els)`: type *sequence* -/
  | seq (els : List ElSpec)
  /-- a FillCompute element: `compute()` yields `10 * sum + a` -/
  | fc (a : Int)
  /-- a FillRequest element: `request()` yields `10 * sum + a` -/
  | fr (a : Int)
  deriving Repr

/-- `seq_type == "sequence" and _contains_cache(seq)` -/
def Member.hasCache : Member → Bool
  | .seq els => !(cacheIds els).isEmpty
  | _ => false

/-- `self._bufsize` after `Split.__init__` (split.py:252-260) -/
def effBufsizeMembers (bufsize : Option Nat) (members : List Member) : Option Nat :=
  if bufsize.isSome && members.any Member.hasCache then none else bufsize

/-- the type `_get_seq_with_type` gives a member -/
inductive MemberTy where
  | sequence | source | fillCompute | fillRequest
  deriving Repr, DecidableEq

/-- the same rule for members given as container trees with their types: only members of type *sequence* count,
whatever the types of the others -/
def effBufsizeTyped (bufsize : Option Nat) (members : List (MemberTy × CTree)) : Option Nat :=
  if bufsize.isSome && members.any (fun m => m.1 == .sequence && containsCache m.2) then none else bufsize

/-- what `Split.run` does with the one buffer, in order: run a Sequence member on it, or yield one value -/
inductive Stage where
  | run (j0 : Nat) (els : List ElSpec)
  | emit (v : Val)
  deriving Repr

def sumVals (buf : List Val) : Int := buf.foldl (· + ·) 0

/-- inside the `while True` loop (the flow is not empty): Sequences run, FillRequests are filled and requested,
FillComputes are only filled -/
def loopStages (buf : List Val) : Nat → List Member → List Stage
  | _, [] => []
  | j0, .seq els :: ms => .run j0 els :: loopStages buf (j0 + els.length) ms
  | j0, .fr a :: ms => .emit (10 * sumVals buf + a) :: loopStages buf j0 ms
  | j0, .fc _ :: ms => loopStages buf j0 ms

/-- "yield computed data" after the loop (the flow was not empty): the FillCompute members -/
def computeStages (buf : List Val) : List Member → List Stage
  | [] => []
  | .fc a :: ms => .emit (10 * sumVals buf + a) :: computeStages buf ms
  | _ :: ms => computeStages buf ms

/-- after the loop when the flow was empty: `compute()`, `request()`, `run([])` of every member in order -/
def emptyStages : Nat → List Member → List Stage
  | _, [] => []
  | j0, .seq els :: ms => .run j0 els :: emptyStages (j0 + els.length) ms
  | j0, .fr a :: ms => .emit a :: emptyStages j0 ms
  | j0, .fc a :: ms => .emit a :: emptyStages j0 ms

def stagesOf (j0 : Nat) (buf : List Val) (members : List Member) : List Stage :=
  if buf.isEmpty then emptyStages j0 members else loopStages buf j0 members ++ computeStages buf members

structure StageResult where
  outs : List (Val × FS)
  evs : List Ev
  end_ : End
  fs : FS
  /-- the generator of the Sequence member that was interrupted, if any -/
  chain : Option Chain

/-- the stages with `k ≥ 1` pulls of the consumer left.  A Sequence member is built on the file system of the
moment (`seq.run(buf)`), its input is the list iterator of the buffer; the next stage starts when the consumer
pulls beyond the last value of this one. -/
def runStages (buf : List Val) : List Stage → Nat → FS → StageResult
  | [], _, fs => ⟨[], [], .exhausted, fs, none⟩
  | .emit v :: ss, k, fs =>
    if k ≤ 1 then ⟨[(v, fs)], [], .stopped, fs, none⟩
    else
      let r := runStages buf ss (k - 1) fs
      { r with outs := (v, fs) :: r.outs }
  | .run j0 els :: ss, k, fs =>
    let d := drive k fs (buildEls fs j0 els ⟨[], freshSrc ⟨buf, none⟩⟩)
    let evs := d.evs.filter (fun e => !e.isSrc)
    match d.end_ with
    | .exhausted =>
      let r := runStages buf ss (k - d.outs.length) d.fs
      { r with outs := d.outs ++ r.outs, evs := evs ++ r.evs }
    | e => ⟨d.outs, evs, e, d.fs, some d.chain⟩

structure MultiSpec where
  src : SrcSpec
  outer : List ElSpec
  members : List Member
  bufsize : Option Nat
  demand : Nat
  leak : Bool

/-- `Source(src, *outer, Split(members, bufsize))()` when the Split reads the whole flow at once
(`effBufsizeMembers r.bufsize r.members = none`), consumed with at most `demand` pulls -/
def runSplitMulti (fs : FS) (r : MultiSpec) : SplitResult :=
  let oc := build .source fs r.src r.outer
  match r.demand with
  | 0 => ⟨[], [], .stopped, fs, [oc]⟩
  | k + 1 =>
    let o := drive (bigDemandOf fs r.src r.outer) fs oc        -- orig_buf = list(islice(flow, None))
    match o.end_ with
    | .raised e => ⟨[], o.evs, .raised e, o.fs, [o.chain]⟩
    | _ =>
      let buf := o.outs.map (·.1)
      let s := runStages buf (stagesOf r.outer.length buf r.members) (k + 1) o.fs
      ⟨s.outs, o.evs ++ s.evs, s.end_, s.fs,
        match s.chain with
        | some c => [c, o.chain]
        | none => [o.chain]⟩

def runSplitMultiOp (w : World) (r : MultiSpec) : World × SplitResult :=
  let d := runSplitMulti w.fs r
  match d.end_ with
  | .exhausted => (⟨d.fs, w.leaked⟩, d)
  | _ =>
    if r.leak then (⟨d.fs, w.leaked ++ d.chains⟩, d)
    else (⟨finalizeAll d.fs d.chains, w.leaked⟩, d)

end Lena.C18
