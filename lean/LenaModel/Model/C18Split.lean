import LenaModel.Model.C18
/-! # C18 model, part 2 — a `Cache` in a Sequence branch of `Split` (`lena/core/split.py`)

`Source(src, *outer, Split([Sequence(*branch)], bufsize))()`: transcription of `Split.__init__` (the rule for
the buffer size) and of `Split.run` (split.py:291-420) for one branch of type *sequence*:
```
flow = iter(flow); flow_was_empty = True
while True:
    orig_buf = list(itertools.islice(flow, self._bufsize))     # at most bufsize pulls on the outer chain
    if orig_buf: flow_was_empty = False
    else: break
    for res in seq.run(buf): yield res                          # the branch is built and run on this buffer
if flow_was_empty:
    for val in seq.run([]): yield val
```
The outer chain (`src`, `outer`) is an ordinary `Chain`; the branch is built afresh for every buffer with
`buildEls` on the file system *of that moment*, its input is the list iterator of the buffer (a source that
never raises and whose resumptions are not observable events).  No imports besides the first part. -/

namespace Lena.C18

/-- the buffer size `Split.__init__` stores in `self._bufsize`.
* pinned code (`patched = false`): the argument;
* with notes/C18_defect_2.patch (`patched = true`): `None` when a branch of type sequence contains a `Cache`
  ("a Sequence is run separately for each buffer, while a cache must be filled with the whole flow"). -/
def effBufsize (patched : Bool) (bufsize : Option Nat) (branch : List ElSpec) : Option Nat :=
  if patched && !(cacheIds branch).isEmpty then none else bufsize

structure SplitRunSpec where
  src : SrcSpec
  /-- the elements of the `Source` before the `Split` -/
  outer : List ElSpec
  /-- `Split([Sequence(*branch)], bufsize=bufsize)` -/
  branch : List ElSpec
  bufsize : Option Nat
  demand : Nat
  leak : Bool
  deriving Repr, DecidableEq

structure SplitResult where
  outs : List (Val × FS)
  evs : List Ev
  end_ : End
  fs : FS
  /-- the generators that are still suspended: the branch run that was interrupted (if any), the outer chain -/
  chains : List Chain

/-- resumptions of a source are events only for the instrumented source, not for `iter(buf)` -/
def Ev.isSrc : Ev → Bool
  | .srcYield _ => true
  | .srcRaise _ => true
  | .srcEnd => true
  | _ => false

/-- a number of pulls that exhausts the outer chain: `islice(flow, None)` -/
def bigDemandOf (fs : FS) (s : SrcSpec) (outer : List ElSpec) : Nat :=
  (cacheIds outer).foldl (fun n c => n + ((fs c).final.getD []).length) (s.vals.length + 1)

/-- the `while True` loop of `Split.run` and what follows it.  `b` = pulls per buffer, `j0` = number of the first
branch element, `first` = `flow_was_empty`, `k` = pulls the consumer still makes (`k ≥ 1`), `oc` = outer chain. -/
def splitLoop (b j0 : Nat) (branch : List ElSpec) : Nat → Nat → Bool → FS → Chain → SplitResult
  | 0, _, _, fs, oc => ⟨[], [], .stopped, fs, [oc]⟩          -- out of fuel: not reached (fuel > number of buffers)
  | fuel + 1, k, first, fs, oc =>
    let o := drive b fs oc                                   -- orig_buf = list(islice(flow, bufsize))
    match o.end_ with
    | .raised e => ⟨[], o.evs, .raised e, o.fs, [o.chain]⟩   -- the exception leaves `list(...)`: the partial buffer is lost
    | _ =>
      let buf := o.outs.map (·.1)
      if buf.isEmpty && !first then ⟨[], o.evs, .exhausted, o.fs, [o.chain]⟩       -- break; nothing to do after the loop
      else
        -- `seq.run(buf)`; for an empty first buffer this is the `seq.run([])` after the loop
        let d := drive k o.fs (buildEls o.fs j0 branch ⟨[], freshSrc ⟨buf, none⟩⟩)
        let evs := o.evs ++ d.evs.filter (fun e => !e.isSrc)
        match d.end_ with
        | .exhausted =>
          if buf.isEmpty then ⟨d.outs, evs, .exhausted, d.fs, [o.chain]⟩
          else
            let r := splitLoop b j0 branch fuel (k - d.outs.length) false d.fs o.chain
            { r with outs := d.outs ++ r.outs, evs := evs ++ r.evs }
        | e => ⟨d.outs, evs, e, d.fs, [d.chain, o.chain]⟩

/-- `Source(src, *outer, Split([Sequence(*branch)], bufsize))()` consumed with at most `demand` pulls.
`Split.run` is a generator: nothing happens before the first pull. -/
def runSplit (patched : Bool) (fs : FS) (r : SplitRunSpec) : SplitResult :=
  let oc := build .source fs r.src r.outer
  match r.demand with
  | 0 => ⟨[], [], .stopped, fs, [oc]⟩
  | k + 1 =>
    let big := bigDemandOf fs r.src r.outer
    let b := (effBufsize patched r.bufsize r.branch).getD big
    splitLoop b r.outer.length r.branch (big + 1) (k + 1) true fs oc

/-- the run as an operation on a world: suspended generators are closed (branch first) or kept -/
def runSplitOp (patched : Bool) (w : World) (r : SplitRunSpec) : World × SplitResult :=
  let d := runSplit patched w.fs r
  match d.end_ with
  | .exhausted => (⟨d.fs, w.leaked⟩, d)
  | _ =>
    if r.leak then (⟨d.fs, w.leaked ++ d.chains⟩, d)
    else (⟨finalizeAll d.fs d.chains, w.leaked⟩, d)

/-! ## A bare `Cache` as a member of `Split`

`Split([Cache(name_c, recompute=rc)], bufsize)`: `Split.__init__` (split.py:208) calls `lena.core.alter_sequence`
on every member; for a bare element that is `Cache.alter_sequence(el)`: a filled cache becomes
`Source(SourceEl(el, call="_load_flow"))`, a member of type *source*; otherwise the Cache is wrapped into a
Sequence (type *sequence*, handled by `runSplit`).  In `Split.run` a source member "doesn't accept the incoming
flow, but produces its own complete flow and becomes inactive": after the first buffer was read its flow is
yielded, and then Split goes on reading buffers until its input is exhausted (split.py:352-360, 406-410). -/

/-- reading the remaining buffers of the input when no member is active any more -/
def drainLoop (b : Nat) : Nat → FS → Chain → List Ev × End × FS × Chain
  | 0, fs, oc => ([], .stopped, fs, oc)
  | fuel + 1, fs, oc =>
    let o := drive b fs oc
    match o.end_ with
    | .raised e => (o.evs, .raised e, o.fs, o.chain)
    | _ =>
      if o.outs.isEmpty then (o.evs, .exhausted, o.fs, o.chain)
      else
        let (evs, e, fs', oc') := drainLoop b fuel o.fs o.chain
        (o.evs ++ evs, e, fs', oc')

/-- `Source(src, *outer, Split([Cache(name_c, recompute=rc)], bufsize))()` -/
def runSplitBare (patched : Bool) (fs : FS) (r : SplitRunSpec) (c : Nat) (rc : Bool) : SplitResult :=
  if cacheExists fs c rc then
    -- a member of type source (the buffer-size rule for caches concerns members of type sequence only)
    let oc := build .source fs r.src r.outer
    match r.demand with
    | 0 => ⟨[], [], .stopped, fs, [oc]⟩
    | k + 1 =>
      let big := bigDemandOf fs r.src r.outer
      let b := r.bufsize.getD big
      let o := drive b fs oc                                     -- the first buffer is read before any member runs
      match o.end_ with
      | .raised e => ⟨[], o.evs, .raised e, o.fs, [o.chain]⟩
      | _ =>
        let d := drive (k + 1) o.fs ⟨[], .load c .fresh []⟩       -- `for val in seq(): yield val`
        match d.end_ with
        | .exhausted =>
          if o.outs.isEmpty then ⟨d.outs, o.evs ++ d.evs, .exhausted, d.fs, [o.chain]⟩    -- after the loop
          else
            let (evs, e, fs', oc') := drainLoop b (big + 1) d.fs o.chain
            ⟨d.outs, o.evs ++ d.evs ++ evs, e, fs', [oc']⟩
        | e => ⟨d.outs, o.evs ++ d.evs, e, d.fs, [d.chain, o.chain]⟩
  else runSplit patched fs { r with branch := [.cache c rc] }

def runSplitBareOp (patched : Bool) (w : World) (r : SplitRunSpec) (c : Nat) (rc : Bool) : World × SplitResult :=
  let d := runSplitBare patched w.fs r c rc
  match d.end_ with
  | .exhausted => (⟨d.fs, w.leaked⟩, d)
  | _ =>
    if r.leak then (⟨d.fs, w.leaked ++ d.chains⟩, d)
    else (⟨finalizeAll d.fs d.chains, w.leaked⟩, d)

/-! ## `_contains_cache` over nested containers (split.py:74-85)

The member of a Split may hold its Cache at any depth: in nested Sequences (also the `_seq` of a `RunIf`, and a
tuple member, which `Split.__init__` turns into a Sequence) and in the members of nested Splits. -/

/-- the container tree of a Split member -/
inductive CTree where
  /-- an element with `is_cache` -/
  | cache
  /-- any other element -/
  | leaf
  /-- an object with `_seq`: a `LenaSequence` (a tuple member becomes one), a `RunIf` -/
  | seq (els : List CTree)
  /-- a `LenaSplit` with its `_seqs` -/
  | split (seqs : List CTree)
  deriving Repr

mutual
/-- `_contains_cache(seq)`: `is_cache`, or recursively through `LenaSplit._seqs` and `_seq` -/
def containsCache : CTree → Bool
  | .cache => true
  | .leaf => false
  | .seq els => anyCache els
  | .split seqs => anyCache seqs
def anyCache : List CTree → Bool
  | [] => false
  | t :: r => containsCache t || anyCache r
end

/-- `self._bufsize` after `Split.__init__` (split.py:252-260) for members of type sequence given as trees -/
def effBufsizeTree (bufsize : Option Nat) (members : List CTree) : Option Nat :=
  if bufsize.isSome && anyCache members then none else bufsize

end Lena.C18
