import LenaModel.Model.Val
import LenaModel.Model.C07
/-! # C07 model, extension — the string form of `update_recursively`, unknown keyword arguments,
the `nested_dicts` test of `update_nested`, and the callers that rely on the algebra

* `str_to_dict(s, value)` (`functions.py` 421-478) *after* `s.split(".")`: the split itself is a
  string operation (C08); here the parts are key numbers of the case's alphabet, and the last part
  — which becomes a *value* when no `value` is given — is also passed as a leaf.
* `update_recursively(d, other, value)` with all its argument forms (611-663).
* `intersection(*dicts, **kwargs)` with an unknown keyword argument (385-389).
* `get_most_nested_subdict_with` with its `nested_dicts` list (590-601).
* `Zip._create_context` (`flow/zip.py` 79-92), `group_plots` (`flow/group_plots.py` 221-244),
  `_update_with_group` (73-105), `LenaSplit._get_context` (`core/split.py` 110-126). -/

namespace Lena.C07
open Lena Lena.Val

variable {α : Type} [DecidableEq α]

/-- outcome of a call that may raise (with `LenaValueError`) -/
inductive OutX (β : Type) where
  | ok (v : β)
  | lenaTypeError
  | lenaValueError
  | typeError
  deriving Repr, DecidableEq

/-! ## str_to_dict -/

/-- `{key: v}` over an alphabet of `n` keys -/
def single (n k : Nat) (v : Val α) : Slots α := setSlot (Val.empty n) k (some v)

/-- `nest_list` (463-474) below the first key: `{k1: {k2: … v}}` -/
def chain (n : Nat) : List Nat → Val α → Val α
  | [], v => v
  | k :: ks, v => .dict (single n k (chain n ks v))

/-- `str_to_dict(s, value)`: `sEmpty` is `s == ""`, `keys` the numbers of the parts `s.split(".")`,
`last` the leaf that the string `parts[-1]` is when it is used as a value -/
def strToDict (n : Nat) (sEmpty : Bool) (keys : List Nat) (last : α) (value : Option (Val α)) :
    OutX (Slots α) :=
  if sEmpty then
    match value with
    | none => .ok (Val.empty n)                        -- `return {}`
    | some _ => .lenaValueError                         -- "to make a dict with a value, provide … key"
  else
    match value with
    | some v =>                                         -- `parts.append(value)`
      match keys with
      | [] => .lenaValueError
      | k :: ks => .ok (single n k (chain n ks v))
    | none =>
      match keys with
      | [] => .lenaValueError
      | [_] => .lenaValueError                          -- `len_l < 2`
      | k :: ks => .ok (single n k (chain n ks.dropLast (.leaf last)))

/-! ## update_recursively, all argument forms -/

/-- the argument `other`: a value that is not a string, or a string (given by its parts) -/
inductive Other (α : Type) where
  | val (v : Val α)
  | str (sEmpty : Bool) (keys : List Nat) (last : α)

/-- `update_recursively(d, other, value)` returning the new `d` -/
def updateRecursivelyX (n : Nat) (d : Val α) (other : Other α) (value : Option (Val α)) : OutX (Slots α) :=
  match other with
  | .str e ks l =>
    match strToDict n e ks l value with                 -- `other = str_to_dict(other, value)`
    | .ok o =>
      match d with
      | .dict x => .ok (updL x o)
      | .leaf _ => .lenaTypeError
    | .lenaTypeError => .lenaTypeError
    | .lenaValueError => .lenaValueError
    | .typeError => .typeError
  | .val o =>
    if value.isSome then .lenaValueError                -- "explicit value is allowed only when other is a string"
    else
      match d, o with
      | .dict x, .dict y => .ok (updL x y)
      | _, _ => .lenaTypeError

/-! ## intersection with keyword arguments -/

/-- `intersection(*args, level=lv, **unknown)`: both checks raise `LenaTypeError` -/
def intersectionKw (n : Nat) (unknownKw : Bool) (lv : Int) (args : List (Val α)) : Out (Slots α) :=
  match intersection n lv args with
  | .lenaTypeError => .lenaTypeError
  | r => if unknownKw then .lenaTypeError else r

/-! ## get_most_nested_subdict_with, with its `nested_dicts` -/

mutual
/-- the `while True:` loop (592-601): `nd` is `nested_dicts`; returns the most nested dictionary -/
def mnV (k : Nat) (nd : List (Slots α)) : Val α → OutX (Slots α)
  | .leaf _ => .typeError                               -- `key in d` / `d[key]` on a non-dictionary
  | .dict y => mnL k nd y k y
/-- walk to slot `j` of `whole` -/
def mnL (k : Nat) (nd : List (Slots α)) (whole : Slots α) : Nat → Slots α → OutX (Slots α)
  | _, [] => .ok whole                                  -- `else: return d`
  | 0, none :: _ => .ok whole
  | 0, some v :: _ =>                                   -- `if key in d:`
    if whole ∈ nd then .lenaValueError                  -- "recursive *other* is forbidden"
    else mnV k (whole :: nd) v                          -- `nested_dicts.append(d); d = d[key]`
  | j + 1, _ :: r => mnL k nd whole j r
end

/-- `update_nested(key, d, other)` when the chain `other[key][key]…` leads back into itself (a self-referential
`other`, which is not a value of this model): the walk meets an object that is already in `nested_dicts` — the list
membership test finds it by identity — and raises, unless `d` has no `key`, in which case there is no walk at all -/
def updateNestedCyclic (keyInD : Bool) : OutX Unit :=
  if keyInD then .lenaValueError else .ok ()

/-! ## the callers -/

/-- `LenaSplit._get_context` (and the first step of `group_plots`): the intersection of the members'
contexts at the default level -/
def splitGetContext (n : Nat) (ctxs : List (Slots α)) : Slots α := interN n (-1) ctxs

/-- what `Zip._create_context` returns: the common context, and `context["zip"]` (a tuple of
dictionaries, not a dictionary) when it was set -/
structure ZipCtx (α : Type) where
  common : Slots α
  zip : Option (List (Slots α))

/-- `Zip._create_context(values)`; `zipKey` is the number of the key `"zip"` -/
def zipCreateContext (truthy : α → Bool) (n zipKey : Nat) (values : List (Slots α)) : OutX (ZipCtx α) :=
  let common := interN n 1 values                        -- `intersection(*values, level=1)`
  let diffs := values.map (fun v => difference truthy 1 v common)
  if diffs.any nonEmpty then                             -- `if any(diff_context):`
    -- `update_nested("zip", common_context, diff_context)` with a tuple as `other`
    if (getSlot common zipKey).isSome then .typeError    -- `key in d`: `tuple[key] = …`
    else .ok ⟨common, some diffs⟩                        -- `d[key] = other`
  else .ok ⟨common, none⟩

/-- `get_recursively(c, "output.changed", default)` for a two-part key: `none` = the default -/
def getRec2 (c : Slots α) (o ch : Nat) : Option (Val α) := getPath (.dict c) [o, ch]

/-- `group_plots(group)`, context part: intersection, `output.changed` set to `any(...)`, and the
members themselves under `"group"` (returned separately).  `tt`/`ff` are the leaves `True`/`False` -/
def groupPlotsContext (truthy : α → Bool) (n o ch : Nat) (tt ff : α) (ctxs : List (Slots α)) : Slots α :=
  let changed := ctxs.any (fun c => match getRec2 c o ch with
    | some v => truthyV truthy v
    | none => false)
  updL (interN n (-1) ctxs) (single n o (chain n [ch] (.leaf (if changed then tt else ff))))

/-- the three-valued `changed` of `_update_with_group` (75-91): `all_changed` is the set of the values
of `output.changed` (`none` = missing); `any(...)`, else `False in ...` (by `==`), else `None` -/
def changed3 (truthy : α → Bool) (ff : α) (vals : List (Option (Val α))) : Option Bool :=
  if vals.any (fun v => match v with | some w => truthyV truthy w | none => false) then some true
  else if vals.any (fun v => v = some (.leaf ff)) then some false
  else none

/-- `_update_with_group(context, new_grp_context, old_inter_context)`: the new `context` without its
`"group"` item (which becomes `new_grp_context` itself) -/
def updateWithGroup (truthy : α → Bool) (n o ch : Nat) (tt ff : α)
    (ctx : Slots α) (newGrp : List (Slots α)) (oldInter : Slots α) : Slots α :=
  let ctx1 := match changed3 truthy ff (getRec2 ctx o ch :: newGrp.map (fun c => getRec2 c o ch)) with
    | some b => updL ctx (single n o (chain n [ch] (.leaf (if b then tt else ff))))
    | none => ctx
  updL ctx1 (difference truthy (-1) (interN n (-1) newGrp) oldInter)

end Lena.C07
