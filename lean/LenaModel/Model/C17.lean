/-! # C17 model — flow iterators (`lena/flow/iterators.py`, `RunningChunkBy` in `lena/flow/elements.py`)

Transcription of `Slice.__init__`, `Slice.run`, `Slice._run_negative_islice`,
`Slice.fill_into`, `Reverse.run`, `Chain.__call__`, `CountFrom.__call__`,
`RunningChunkBy.run`, together with the Python reference `pySlice`.

Finite flows are lists; an iterator that has been partly consumed is the remaining list.
A `collections.deque(maxlen=m)` is the list of its items from left to right.
No imports: this file is executed by `drivers/C17.lean`. -/

namespace Lena.C17

variable {α : Type}

/-! ## Python reference: list slicing with positive step -/

/-- CPython's `PySlice_AdjustIndices` for a positive step: clamp an optional, possibly negative
index into `0..n`. -/
def adj (n : Nat) (i : Option Int) (dflt : Nat) : Nat :=
  match i with
  | none => dflt
  | some i => if i < 0 then (if i + n < 0 then 0 else (i + n).toNat) else min i.toNat n

/-- `everyNthAux k j xs`: skip `j` elements, emit one, then skip `k-1`, emit one, … -/
def everyNthAux (k : Nat) : Nat → List α → List α
  | _, [] => []
  | 0, x :: xs => x :: everyNthAux k (k - 1) xs
  | j + 1, _ :: xs => everyNthAux k j xs

/-- `xs[::k]` for `k ≥ 1`: first element, then skip `k-1`. -/
def everyNth (k : Nat) (xs : List α) : List α := everyNthAux k 0 xs

/-- `xs[start:stop:step]`, `step ≥ 1` -/
def pySlice (xs : List α) (start stop : Option Int) (step : Nat) : List α :=
  let n := xs.length
  let a := adj n start 0
  let b := adj n stop n
  everyNth step ((xs.drop a).take (b - a))

/-! ## `itertools.islice` for non-negative arguments

CPython keeps `next` (index of the next value to emit), `stop`, `step`, `cnt` (values consumed)
and pulls one value at a time. -/

/-- `isliceGo next stop step cnt rest` -/
def isliceGo (stop : Option Nat) (step : Nat) : Nat → Nat → List α → List α
  | _, _, [] => []
  | next, cnt, x :: rest =>
    match stop with
    | some s =>
      if next ≥ s then []          -- `islice` stops without emitting
      else if cnt == next then x :: isliceGo stop step (next + step) (cnt + 1) rest
      else isliceGo stop step next (cnt + 1) rest
    | none =>
      if cnt == next then x :: isliceGo stop step (next + step) (cnt + 1) rest
      else isliceGo stop step next (cnt + 1) rest

def islice (xs : List α) (start : Nat) (stop : Option Nat) (step : Nat) : List α :=
  isliceGo stop step start 0 xs

/-! ## deque operations (items left to right) -/

/-- `d.appendleft(v)` on a deque with `maxlen = m` -/
def dqAppendLeft (m : Nat) (d : List α) (v : α) : List α := (v :: d).take m

/-- `d.append(v)` on a deque with `maxlen = m` -/
def dqAppend (m : Nat) (d : List α) (v : α) : List α :=
  let d' := d ++ [v]
  d'.drop (d'.length - m)

/-- `deque(flow, maxlen=m)` -/
def dqOfFlow (m : Nat) (xs : List α) : List α := xs.foldl (dqAppend m) []

/-- `fill_deque(flow, maxlen)`: returns the deque and the rest of the flow -/
def fillDeque (m : Nat) : Nat → List α → List α → List α × List α
  | 0, d, rest => (d, rest)
  | _ + 1, d, [] => (d, [])
  | k + 1, d, v :: rest => fillDeque m k (dqAppendLeft m d v) rest

/-- `for val in flow: yield d.pop(); d.appendleft(val)`; `d.pop()` on an empty deque raises
`IndexError` — modelled by `none`. -/
def lagLoop (m : Nat) : List α → List α → Option (List α)
  | _, [] => some []
  | d, v :: rest =>
    match d.getLast? with
    | none => none
    | some o => (lagLoop m (dqAppendLeft m d.dropLast v) rest).map (o :: ·)

/-- `while True: try: yield d.popleft() except IndexError: return` -/
def drainLeft (d : List α) : List α := d

/-- `while ind < bound: yield d.popleft(); ind += 1` where an `IndexError` propagates (`none`) -/
def popLeftN : Nat → List α → Option (List α)
  | 0, _ => some []
  | _ + 1, [] => none
  | k + 1, x :: d => (popLeftN k d).map (x :: ·)

/-- same loop, but `IndexError` ends the generator -/
def popLeftUpTo : Nat → List α → List α
  | 0, _ => []
  | _ + 1, [] => []
  | k + 1, x :: d => x :: popLeftUpTo k d

/-- the `for val in flow` loop of the branch "start < 0, stop ≥ 0":
returns `none` when it hits `return`, otherwise `(ind, d)` -/
def posStopLoop (m bound : Nat) : Nat → List α → List α → Option (Nat × List α)
  | ind, d, [] => some (ind, d)
  | ind, d, v :: rest =>
    if ind ≥ bound then none else posStopLoop m bound (ind + 1) (dqAppend m d v) rest

/-- outcome of a generator over a finite flow -/
inductive Out (α : Type) where
  | ok (ys : List α)
  | indexError          -- an uncaught `IndexError` from a deque operation
  deriving Repr, DecidableEq

/-- `Slice._run_negative_islice` with `step = 1`.  `start`/`stop` as stored by `__init__`
(at least one of them negative). -/
def runNegative (start stop : Option Int) (xs : List α) : Out α :=
  match start with
  | none =>
    match stop with
    | none => .ok xs               -- unreachable from `__init__` (all-`None` goes to islice)
    | some stop =>
      let toSkip := (-stop).toNat
      let (d, rest) := fillDeque toSkip toSkip [] xs
      match lagLoop toSkip d rest with
      | some ys => .ok ys
      | none => .indexError
  | some start =>
    if start ≥ 0 then
      let rest0 := xs.drop start.toNat
      match stop with
      | none => .ok rest0          -- unreachable from `__init__`
      | some stop =>
        let k := (-stop).toNat
        let (d, rest) := fillDeque k k [] rest0
        if d.length < k then .ok []
        else
          match lagLoop k d rest with
          | some ys => .ok ys
          | none => .indexError
    else
      let m := (-start).toNat
      match stop with
      | none => .ok (drainLeft (dqOfFlow m xs))
      | some stop =>
        if stop ≤ start then .ok []
        else if stop < 0 then
          let d := dqOfFlow m xs
          -- `while ind < len_d + stop`
          let cnt := ((d.length : Int) + stop).toNat
          match popLeftN cnt d with
          | some ys => .ok ys
          | none => .indexError
        else
          match posStopLoop m (stop - start).toNat 0 [] xs with
          | none => .ok []
          | some (ind, d) =>
            let ind' : Int := (ind : Int) - d.length
            .ok (popLeftUpTo (stop - ind').toNat d)

/-- what `Slice(*args)` becomes -/
inductive SliceKind where
  | islice (start : Nat) (stop : Option Nat) (step : Nat)
  | negative (start stop : Option Int) (step : Nat)
  | valueError
  deriving Repr, DecidableEq

/-- `val is None or val >= 0` -/
def noneOrNonneg (v : Option Int) : Bool :=
  match v with
  | none => true
  | some i => decide (i ≥ 0)

/-- `Slice.__init__` for the three-argument form `(start, stop, step)`; the one-argument form
`Slice(stop)` is `(None, stop, None)` (as `slice(*args)` and `islice(it, stop)` both read it).
`step` is `none` or an integer. -/
def mkSlice (start stop step : Option Int) : SliceKind :=
  if noneOrNonneg start && noneOrNonneg stop && noneOrNonneg step then
    -- islice validates: step must be ≥ 1 (or None)
    if step = some 0 then .valueError
    else .islice (start.getD 0).toNat (stop.map Int.toNat) ((step.getD 1).toNat)
  else
    let st : Int := step.getD 1
    if st ≤ 0 then .valueError
    else .negative start stop st.toNat

/-- `Slice(...).run(flow)` -/
def sliceRun (k : SliceKind) (xs : List α) : Option (Out α) :=
  match k with
  | .valueError => none
  | .islice a b s => some (.ok (islice xs a b s))
  | .negative a b s =>
    match runNegative a b xs with
    | .ok ys => some (.ok (if s = 1 then ys else everyNth s ys))
    | .indexError => some .indexError

/-! ## `Slice.fill_into` (non-negative arguments)

State: `_index`, `_next_index` (−1 initially: stored shifted by one, `0` = "−1") and the
iterator `_indices = islice(count(0), start, stop, step)`, represented by its next value. -/

structure FillState where
  index : Nat
  /-- `_next_index + 1` (so that the initial −1 is 0) -/
  nextIndex1 : Nat
  /-- next value the `_indices` iterator will produce, if it has one -/
  pendingIdx : Nat
  deriving Repr, DecidableEq

def fillInit (start : Nat) : FillState := { index := 0, nextIndex1 := 0, pendingIdx := start }

inductive FillOut where
  | filled      -- `element.fill(value)` was called
  | skipped
  | stopFill    -- `LenaStopFill` raised
  deriving Repr, DecidableEq

/-- `next(self._indices)` on `islice(count(0), start, stop, step)` -/
def nextIndices (stop : Option Nat) (s : FillState) : Option Nat :=
  match stop with
  | some st => if s.pendingIdx ≥ st then none else some s.pendingIdx
  | none => some s.pendingIdx

/-- the part of `fill_into` after the index has been fetched:
`if self._index == self._next_index: element.fill(value)`; `self._index += 1` -/
def fillTail (s : FillState) : FillState × FillOut :=
  if s.index + 1 == s.nextIndex1 then ({ s with index := s.index + 1 }, .filled)
  else ({ s with index := s.index + 1 }, .skipped)

/-- `Slice.fill_into(element, value)` -/
def fillInto (stop : Option Nat) (step : Nat) (s : FillState) : FillState × FillOut :=
  -- `if self._index > self._next_index`
  if s.index + 1 > s.nextIndex1 then
    match nextIndices stop s with
    | none => (s, .stopFill)          -- `except StopIteration: raise LenaStopFill()`
    | some i => fillTail { s with nextIndex1 := i + 1, pendingIdx := s.pendingIdx + step }
  else fillTail s

/-- feed a flow value by value; collect the values that were filled and whether (and where)
`LenaStopFill` was raised (feeding stops there, as every caller does) -/
def fillAll (stop : Option Nat) (step : Nat) : FillState → Nat → List α → List α × Option Nat
  | _, _, [] => ([], none)
  | s, i, x :: rest =>
    match fillInto stop step s with
    | (_, .stopFill) => ([], some i)
    | (s', .filled) => let (ys, st) := fillAll stop step s' (i + 1) rest; (x :: ys, st)
    | (s', .skipped) => fillAll stop step s' (i + 1) rest

/-! ## Reverse, Chain, CountFrom, RunningChunkBy -/

/-- `while 1: try: yield all.pop() except IndexError: return`, fuelled by the list length -/
def popAll : Nat → List α → List α
  | 0, _ => []
  | n + 1, xs =>
    match xs.getLast? with
    | none => []
    | some x => x :: popAll n xs.dropLast

/-- `all = list(flow)` then the pop loop -/
def reverseRun (xs : List α) : List α := popAll (xs.length + 1) xs

/-- `itertools.chain(*iterables)` -/
def chainCall : List (List α) → List α
  | [] => []
  | it :: its => it ++ chainCall its

/-- first `n` values of `itertools.count(start, step)` -/
def countFrom (start step : Int) : Nat → List Int
  | 0 => []
  | n + 1 => start :: countFrom (start + step) step n

/-- `RunningChunkBy(cs).run`: `chunk = deque(islice(flow, cs), maxlen=cs)`, then for every further
value yield the chunk and append; finally yield once more if the chunk is full. -/
def chunkLoop (cs : Nat) : List α → List α → List (List α)
  | chunk, [] => if chunk.length == cs then [chunk] else []
  | chunk, v :: rest => chunk :: chunkLoop cs (dqAppend cs chunk v) rest

def runningChunkBy (cs : Nat) (xs : List α) : List (List α) :=
  chunkLoop cs (dqOfFlow cs (xs.take cs)) (xs.drop cs)

/-- reference: sliding windows of size `cs` -/
def windows (cs : Nat) : List α → List (List α)
  | [] => if cs == 0 then [[]] else []
  | x :: xs => if (x :: xs).length < cs then [] else (x :: xs).take cs :: windows cs xs

end Lena.C17
