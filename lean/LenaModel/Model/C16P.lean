import LenaModel.Model.C16
/-! # C16 model — `_run_run` around a Run element that does not read its whole block

`Model/C16.lean` hands the wrapped element's `run` a list and assumes it is read completely.  A Run element
may stop reading early (`Slice(1)`, anything that breaks the flow).  This file transcribes the three
variants of `FillRequest._run_run` for such an element — as they are now (`runRunYorQ`, `runRunBIP`, `runRunBOQ`,
`runRunQ`: since fix dbe92ef the rest of a block is skipped) and, pinned, as they were before that fix
(`runRunYorP`, `runRunBOP`, `runRunP`, `lena/core/adapters.py:545-620` of the anchored revision): what matters is how
many values of the block the element pulled from the iterator it was given, and whether it ran into the end
of that iterator (only then does the generator of `slice_iterated_with_count` reach `self.count = count`).

* `yield_on_remainder`: the block is `chain([val], islice(flow, bufsize-1))`; what the element leaves
  unread *stays in the flow* and opens the next "block";
* `buffer_input`: the block is a list; what the element leaves unread is dropped with the list;
* `buffer_output`: the block is `slice_iterated_with_count`; unread values stay in the flow, and `count`
  keeps its previous value unless the element exhausted the slice.

Theorems (`Props/C16P.lean`): for elements that read their whole block these are the loops of `Model/C16.lean`;
for the others only the `buffer_input` variant processes consecutive blocks. -/

set_option linter.unusedVariables false

namespace Lena.C16

/-- a Run element: `run` consumed to the end gives the results, the state, the number of values it pulled
from the block it was handed (clipped to the block's length by `readOf`), and whether it asked for a value
beyond the block's last one (`for x in flow:` running to its end does; `break` after the j-th value does not) -/
structure ElR (σ α β : Type) where
  run : σ → List α → List β × σ × Nat × Bool
  reset : σ → σ

variable {σ α β : Type}

/-- how many values of block `b` the element read -/
def readOf (r : List β × σ × Nat × Bool) (b : List α) : Nat := min r.2.2.1 b.length

/-- did the generator over the block run to its end: the element read everything and asked for more -/
def exhaustedOf (r : List β × σ × Nat × Bool) (b : List α) : Bool := r.2.2.2 && decide (b.length ≤ r.2.2.1)

/-- `_run_run`, branch `if self._yield_on_remainder:` (adapters.py:553-572): `val = next(flow)` is gone from the
flow whatever the element does; of `islice(flow, bufsize-1)` only what the element pulls is gone -/
def runRunYorP (e : ElR σ α β) (N : Nat) (rst : Bool) (s : σ) (xs : List α) : List β × σ :=
  match xs with
  | [] => ([], s)
  | x :: rest =>
    let block := x :: rest.take (N - 1)
    let r := e.run s block
    let s2 := if rst then e.reset r.2.1 else r.2.1
    -- values gone from the flow: the first one, and the further ones the element read
    let q := runRunYorP e N rst s2 (rest.drop (readOf r block - 1))
    (r.1 ++ q.1, q.2)
termination_by xs.length
decreasing_by simp only [List.length_drop, List.length_cons]; omega

/-- `_run_run`, branch `if self._buffer_input:` (adapters.py:592-606): `buffer = list(islice(flow, bufsize))` -/
def runRunBIP (e : ElR σ α β) (N : Nat) (rst : Bool) (s : σ) (xs : List α) : List β × σ :=
  if hN : N = 0 then ([], s)
  else
    let buffer := xs.take N
    if hlen : (xs.take N).length < N then ([], s)
    else
      let r := e.run s buffer
      let s2 := if rst then e.reset r.2.1 else r.2.1
      let q := runRunBIP e N rst s2 (xs.drop N)
      (r.1 ++ q.1, q.2)
termination_by xs.length
decreasing_by
  simp only [List.length_take] at hlen; simp only [List.length_drop]; omega

/-- `_run_run`, buffer-output branch (adapters.py:607-620).  `cnt` is `slice_.count` (0 for a new adapter run);
`fuel` bounds the iterations of `while True` (an element that reads nothing while `count` is stale makes the
real loop spin); the flag says the fuel ran out. -/
def runRunBOP (e : ElR σ α β) (N : Nat) (rst : Bool) : Nat → Nat → σ → List α → List β × σ × Bool
  | 0, _, s, _ => ([], s, true)
  | fuel + 1, cnt, s, xs =>
    if N = 0 then ([], s, false)
    else
      let block := xs.take N
      let r := e.run s block
      -- `self.count = count` is reached only when the generator over the slice ends
      let cnt' := if exhaustedOf r block then block.length else cnt
      if cnt' < N then ([], r.2.1, false)
      else
        let s2 := if rst then e.reset r.2.1 else r.2.1
        let q := runRunBOP e N rst fuel cnt' s2 (xs.drop (readOf r block))
        (r.1 ++ q.1, q.2)

/-- the three loops above transcribe `_run_run` as it was BEFORE fix dbe92ef (notes/C16_defect_1); they are kept for the
counterexamples about that code.  `runRunP`: that `_run_run`, by the flags -/
def runRunP (e : ElR σ α β) (N : Nat) (rst bi yor : Bool) (s : σ) (xs : List α) : List β × Bool :=
  if yor then ((runRunYorP e N rst s xs).1, false)
  else if bi then ((runRunBIP e N rst s xs).1, false)
  else let r := runRunBOP e N rst (xs.length + 2) 0 s xs; (r.1, r.2.2)

/-! ## `_run_run` of /repo now (fix dbe92ef): what the element leaves unread of its block is skipped -/

/-- branch `if self._yield_on_remainder:`: `block = chain([val], islice(flow, bufsize-1))`, `el_run(block)` consumed,
then `for _ in block: pass` — the flow has lost the whole block whatever the element read -/
def runRunYorQ (e : ElR σ α β) (N : Nat) (rst : Bool) (s : σ) (xs : List α) : List β × σ :=
  match xs with
  | [] => ([], s)
  | x :: rest =>
    let block := x :: rest.take (N - 1)
    let r := e.run s block
    let s2 := if rst then e.reset r.2.1 else r.2.1
    let q := runRunYorQ e N rst s2 (rest.drop (N - 1))
    (r.1 ++ q.1, q.2)
termination_by xs.length
decreasing_by simp only [List.length_drop, List.length_cons]; omega

/-- buffer-output branch: a new `slice_iterated_with_count(bufsize, flow)` per block (an iterator that counts every value it
gives out), `results = list(el_run(slice_))`, `for _ in slice_: pass` (the rest is skipped and counted), `if slice_.count <
bufsize: return` — `count` is the length of the block -/
def runRunBOQ (e : ElR σ α β) (N : Nat) (rst : Bool) (s : σ) (xs : List α) : List β × σ :=
  if hN : N = 0 then ([], s)
  else
    let block := xs.take N
    let r := e.run s block
    if hlen : (xs.take N).length < N then ([], r.2.1)
    else
      let s2 := if rst then e.reset r.2.1 else r.2.1
      let q := runRunBOQ e N rst s2 (xs.drop N)
      (r.1 ++ q.1, q.2)
termination_by xs.length
decreasing_by
  simp only [List.length_take] at hlen; simp only [List.length_drop]; omega

/-- `FillRequest.run` bound to `_run_run` (the code of /repo now), by the flags; the `buffer_input` branch is unchanged -/
def runRunQ (e : ElR σ α β) (N : Nat) (rst bi yor : Bool) (s : σ) (xs : List α) : List β × σ :=
  if yor then runRunYorQ e N rst s xs
  else if bi then runRunBIP e N rst s xs
  else runRunBOQ e N rst s xs

/-- the statement's reading for a Run element: each consecutive block of `N` values is handed to the element
(which reads as much of it as it likes); full blocks always, the last partial block iff `yor` -/
def specBlocksP (e : ElR σ α β) (N : Nat) (rst yor : Bool) : σ → List (List α) → List β
  | _, [] => []
  | s, b :: bs =>
    if b.length = N then
      let r := e.run s b
      r.1 ++ specBlocksP e N rst yor (if rst then e.reset r.2.1 else r.2.1) bs
    else if yor then (e.run s b).1 else []

/-- a Run element seen as an element of `Model/C16.lean` (forgetting how much it read) -/
def ElR.toEl (e : ElR σ α β) : El σ α β where
  fill s _ := s
  req s := ([], s)
  reset := e.reset
  run s b := ((e.run s b).1, (e.run s b).2.1)

/-- an element of `Model/C16.lean` (it reads its whole block and runs into its end) -/
def ElR.ofEl (e : El σ α β) : ElR σ α β where
  run s b := let r := e.run s b; (r.1, r.2, b.length, true)
  reset := e.reset

/-- the recording element that reads at most `j` values of its block (`none`: all) and then yields its contents:
`for x in flow: v.append(x); if len == j: break` -/
def firstEl (j : Option Nat) : ElR (List α) α (List α) where
  run s b :=
    match j with
    | none => ([s ++ b], s ++ b, b.length, true)
    | some j => ([s ++ b.take j], s ++ b.take j, min j b.length, decide (b.length < j))
  reset _ := []

end Lena.C16
