import LenaModel.Model.Val
/-! # C13 model — static context (`lena/core/lena_sequence.py`, `split.py`, `source.py`,
`lena/meta/elements.py`, consumers in `lena/output/make_filename.py`, `write.py`, `lena/flow/cache.py`)

The code as it is in /repo after the `fix:` commits dd35ba0 (SetContext copies), 47137d4 (a failing Split
branch does not abort the others) and 579340b (`notes/C13_defect_4.patch`: the tail of a `Source` sets no
static context, so that a `Source` is a `LenaSequence` as far as static context is concerned).

Contexts are slot vectors over the key alphabet of the case (`Model/Val.lean`): `n` keys, slot `i` of every
dictionary holds the binding of key `i`.  Leaves are Python ints and strings, plus `bad`: the result of
rendering a dictionary into a string (`str(dict)`), which the model does not describe — it is a poison value
that the driver prints as such, and the harness never generates a program that renders one.

Python exceptions: only `LenaKeyError` occurs in this protocol; it is `Except.error k` with `k` the key
(component of a dotted path) that `get_recursively` names.  The protocol is multi-pass: every sequence runs
`_set_context({})` in its constructor (bottom-up construction), an enclosing sequence later delivers the
context of its own prefix, and `LenaSequence._set_context` skips an element while the running context is
empty.  `build` transcribes exactly that; `Props/C13.lean` relates it to the single top-down fold `fold`.

A value model is adequate because no element mutates a context it was *given*: `SetContext` deep-copies
before `format_update_with`, `StoreContext` deep-copies, `LenaSplit` deep-copies per branch, `_get_context`
returns deep copies, `UpdateContextFromStatic.run` and `MakeFilename.__call__` deep-copy what they stored
(assumption "locality of mutation", checked by the harness through values read after the whole
construction).  No imports besides `Model/Val.lean`. -/

namespace Lena.C13
open Lena Lena.Val

/-- a scalar of a context: Python int, Python str, or the (unmodelled) rendering of a dictionary -/
inductive Leaf where
  | int (i : Int)
  | str (s : String)
  | bad
  deriving DecidableEq, Repr

abbrev V := Val Leaf
/-- a context: a dictionary over the `n` keys of the case -/
abbrev Ctx := Slots Leaf

/-! ## the context functions used by the protocol (`lena/context/functions.py`) -/

mutual
/-- body of `for key, val in other.items():` of `update_recursively` (functions.py 648-657) for a key of `other`
with value `val`; first argument `d.get(key)`; result: `d[key]` afterwards -/
def updV : Option V → V → V
  | _, .leaf a => .leaf a                            -- `if not isinstance(val, dict): d[key] = val`
  | some (.dict x), .dict y => .dict (updL x y)      -- `update_recursively(d[key], other[key])`
  | some (.leaf _), .dict y =>                       -- `d[key] = {}`, then update it
    .dict (updL (emptyLike y) y)
  | none, .dict y => .dict y                         -- `else: d[key] = val`
/-- the binding of one key in `d` after the loop; second argument `other.get(key)` -/
def updO : Option V → Option V → Option V
  | d, none => d                                     -- key not in other
  | d, some v => some (updV d v)
/-- `update_recursively(d, other)`: the new value of `d` -/
def updL : Ctx → Ctx → Ctx
  | d, [] => d
  | [], y :: r' => updO none y :: updL [] r'
  | x :: r, y :: r' => updO x y :: updL r r'
end

mutual
/-- body of `for key in res:` of `intersection` (functions.py 395-406) at `level = -1` for a key that is in both
dictionaries, with values `res[key]` and `d[key]`; result: the binding of `key` in `res` afterwards.  The
recursive call `intersection(res[key], d[key], level=level-1)` on two dictionaries is its loop over the
single further dictionary (its early `return res` returns the same value). -/
def interV : V → V → Option V
  | .dict x, w =>
    if w = .dict x then some (.dict x)               -- `d[key] != res[key]` is false
    else match w with
      | .dict y => some (.dict (interL x y))
      | .leaf _ => none                              -- `else: to_delete.append(key)`
  | .leaf a, w => if w = .leaf a then some (.leaf a) else none
/-- first argument `res.get(key)`, second `d.get(key)` -/
def interO : Option V → Option V → Option V
  | none, _ => none
  | some _, none => none                             -- `else: to_delete.append(key)`
  | some v, some w => interV v w
def interL : Ctx → Ctx → Ctx
  | [], _ => []
  | x :: r, [] => interO x none :: interL r []
  | x :: r, y :: r' => interO x y :: interL r r'
end

/-- the loop `for d in dicts[1:]:` (functions.py 388-412) with its early return `if not res: return res` -/
def interFold : Ctx → List Ctx → Ctx
  | res, [] => res
  | res, d :: ds =>
    let res' := interL res d
    if nonEmpty res' = true then interFold res' ds else res'

/-- `intersection(*dicts)` on dictionaries over `n` keys -/
def interN (n : Nat) : List Ctx → Ctx
  | [] => Val.empty n                                -- `if not dicts: return {}`
  | d0 :: ds => interFold d0 ds                      -- `res = copy.deepcopy(dicts[0])`

/-- `str_to_dict("k.k1.k2…", value)`: nested one-key dictionaries (functions.py 421-481); always `n` slots -/
def single (n : Nat) : Nat → List Nat → Leaf → Ctx
  | k, [], l => (List.range n).map (fun i => if i = k then some (.leaf l) else none)
  | k, k' :: ks, l => (List.range n).map (fun i => if i = k then some (.dict (single n k' ks l)) else none)

/-- `str_to_dict("k.k1.k2…", value)` for ANY value — a scalar, or a dictionary given at once
(`SetContext("data", {"detector": "far"})`): the value sits below the nested one-key dictionaries as it is
(`nest_list`, functions.py 463-475); `single n k ks l = singleV n k ks (.leaf l)` (`single_eq_singleV`) -/
def singleV (n : Nat) : Nat → List Nat → V → Ctx
  | k, [], v => (List.range n).map (fun i => if i = k then some v else none)
  | k, k' :: ks, v => (List.range n).map (fun i => if i = k then some (.dict (singleV n k' ks v)) else none)

/-- `get_recursively(d, keys)` without default (functions.py 323-338) for a list of keys (a dotted string is split
and its empty components dropped by the caller): `error k` = `LenaKeyError("nested dict/key k not found")` -/
def getRec : Ctx → List Nat → Except Nat V
  | d, [] => .ok (.dict d)                           -- `if not keys: return d`
  | d, [k] =>
    match getSlot d k with
    | some v => .ok v                                -- `if keys[-1] in d: return d[keys[-1]]`
    | none => .error k
  | d, k :: k' :: ks =>
    match getSlot d k with
    | some (.dict d') => getRec d' (k' :: ks)        -- `key in d and isinstance(d.get(key), dict)`
    | _ => .error k

/-! ## formatting (`format_context`, functions.py 111-212, for well-formed double-brace templates)

A template `lit0{{path1}}lit1{{path2}}lit2…` is given parsed (the scanner belongs to C08); the function
returned by `format_context` looks up *all* fields first, in order, and then renders. -/

structure Tpl where
  head : String
  parts : List (List Nat × String)
  deriving Repr

/-- `str(v)` as used by `str.format`; `none`: a dictionary (not modelled) -/
def render : V → Option String
  | .leaf (.int i) => some (toString i)
  | .leaf (.str s) => some s
  | .leaf .bad => none
  | .dict _ => none

/-- `for arg in args: new_args.append(get_recursively(context, arg))` -/
def lookups (d : Ctx) : List (List Nat × String) → Except Nat (List (V × String))
  | [] => .ok []
  | (p, lit) :: r =>
    match getRec d p with
    | .error e => .error e
    | .ok v =>
      match lookups d r with
      | .error e => .error e
      | .ok vs => .ok ((v, lit) :: vs)

/-- `format_str.format(*new_args)` -/
def renderAll : String → List (V × String) → Option String
  | acc, [] => some acc
  | acc, (v, lit) :: r =>
    match render v with
    | none => none
    | some s => renderAll (acc ++ s ++ lit) r

/-- `format_context(tpl)(d)` -/
def fmt (t : Tpl) (d : Ctx) : Except Nat Leaf :=
  match lookups d t.parts with
  | .error e => .error e
  | .ok vs =>
    match renderAll t.head vs with
    | some s => .ok (.str s)
    | none => .ok .bad

/-- the value of a `SetContext`: a scalar constant, a formatting string (`isinstance(value, str) and '{' in value`),
or a dictionary constant (a subcontext given at once; it is not a `str`, so it is never formatted) -/
inductive SVal where
  | const (l : Leaf)
  | tpl (t : Tpl)
  | dictv (d : Ctx)
  deriving Repr

/-- `format_update_with(key, value, d)` (functions.py 215-239) returning the new `d`; `key = k.ks` -/
def fmtUpdate (n : Nat) (k : Nat) (ks : List Nat) (v : SVal) (d : Ctx) : Except Nat Ctx :=
  match v with
  | .const l => .ok (updL d (single n k ks l))
  | .tpl t =>
    match fmt t d with
    | .error e => .error e
    | .ok l => .ok (updL d (single n k ks l))
  -- a dictionary value is MERGED into what `d` holds below the key (`update_recursively` recurses into
  -- `other[key]` whenever it is a dictionary, functions.py 654-663); it replaces only a scalar
  | .dictv x => .ok (updL d (singleV n k ks (.dict x)))

/-! ## programs -/

/-- the output keys that a `MakeFilename` can set -/
inductive MkfKey where
  | pfx | sfx | filename | dirname | fileext
  deriving DecidableEq, Repr

/-- `MakeFilename(filename=…, dirname=…, fileext=…, prefix=…, suffix=…, overwrite=…)`: its `_methods` in the
order `__init__` builds them (prefix, suffix, filename, dirname, fileext — those that were given) -/
structure Mkf where
  methods : List (MkfKey × Tpl)
  overwrite : Bool
  deriving Repr

inductive Elem where
  | set (k : Nat) (ks : List Nat) (v : SVal)     -- `SetContext("k.ks", v)`
  | store                                        -- `StoreContext()`
  | ucfs                                         -- `UpdateContextFromStatic()`
  | mkf (m : Mkf)                                -- `MakeFilename(…)`
  | write (t : Tpl)                              -- `Write(t)`
  | cache (t : Tpl)                              -- `Cache(t)`
  | data                                         -- an ordinary element (no static-context methods)
  | mut (k : Nat) (ks : List Nat) (l : Leaf)     -- an ordinary element that updates the *run-time* context of
                                                 -- every value in place: `update_recursively(context, "k.ks", l)`
  | src                                          -- first element of a `Source`
  deriving Repr

inductive Kind where
  | sequence | source
  deriving Repr, DecidableEq

/-- a program: trees of `Sequence`/`Source`/`Split` of any depth.  The branches of a `Split` are
sequences in a well-formed program (`Split` wraps a tuple into a `Sequence`). -/
inductive Tree where
  | leaf (e : Elem)
  | seq (kind : Kind) (cs : List Tree)
  | split (bs : List Tree)
  deriving Repr

/-! ## object states -/

/-- the pair `_static_context` / `_exc` of `SetContext` and `LenaSequence`, as far as `_get_context` can
tell: `ok c` = `_static_context` exists (then `_exc` is never read), `failed e` = only `_exc` exists.
(At least one exists: every constructor runs `_set_context({})`.) -/
inductive SC where
  | ok (c : Ctx)
  | failed (e : Nat)
  deriving Repr

/-- `except LenaKeyError as exc: self._exc = exc`: an existing `_static_context` stays -/
def SC.fail : SC → Nat → SC
  | .ok c, _ => .ok c
  | .failed _, e => .failed e

/-- `_get_context` of `SetContext` / `LenaSequence` (a deep copy, or `raise self._exc`) -/
def SC.get : SC → Except Nat Ctx
  | .ok c => .ok c
  | .failed e => .error e

def SC.ofExcept : Except Nat Ctx → SC
  | .ok c => .ok c
  | .error e => .failed e

inductive St where
  | set (k : Nat) (ks : List Nat) (v : SVal) (sc : SC)
  | store (c : Ctx)                              -- `self.context`
  | ucfs (c : Ctx)                               -- `self._context`
  | mkf (m : Mkf) (c : Option Ctx)               -- `self._context` (absent until set)
  | write (t : Tpl) (name : Option Leaf)         -- `output_directory`; `none`: still the unformatted string
  | cache (t : Tpl) (name : Option Leaf)         -- `_filename`
  | data
  | mut (k : Nat) (ks : List Nat) (l : Leaf)
  | src
  | seq (kind : Kind) (cs : List St) (sc : SC)
  | split (bs : List St)
  deriving Repr

/-- `hasattr(el, "_set_context")` -/
def St.hasSet : St → Bool
  | .data => false
  | .mut .. => false
  | .src => false
  | _ => true

/-- `hasattr(el, "_get_context")` -/
def St.hasGet : St → Bool
  | .set .. => true
  | .seq .. => true
  | .split _ => true
  | _ => false

/-- `Write._set_context` / `Cache._set_context` (write.py 286-298, cache.py 159-168): the new name -/
def nameUpdate (t : Tpl) (old : Option Leaf) (c : Ctx) : Option Leaf :=
  if t.parts.isEmpty then old                        -- `if '{' not in self._orig_…: return`
  else
    match fmt t c with
    | .ok l => some l
    | .error _ => old                                -- `except LenaKeyError: pass`

/-- how the loop of `LenaSequence._set_context` ends -/
inductive LoopOut where
  | done (c : Ctx)        -- ran through: `self._static_context = context`
  | ret (e : Nat)         -- an element's `_set_context` raised: `self._exc = exc; return`
  | raise (e : Nat)       -- an element's `_get_context` raised: `self._exc = exc; raise exc`
  deriving Repr

mutual
/-- `_get_context()` of an element that has one -/
def getCtx (n : Nat) : St → Except Nat Ctx
  | .set _ _ _ sc => sc.get
  | .seq _ _ sc => sc.get
  | .split bs =>                                     -- split.py 124-140 (LenaSplit._get_context)
    match getCtxs n bs with
    | .error e => .error e
    | .ok cs => .ok (interN n cs)
  | _ => .ok (Val.empty n)                           -- (no `_get_context`: never called)
/-- `for seq in self._seqs: if hasattr(seq, "_get_context"): contexts.append(seq._get_context())` -/
def getCtxs (n : Nat) : List St → Except Nat (List Ctx)
  | [] => .ok []
  | b :: bs =>
    if b.hasGet then
      match getCtx n b with
      | .error e => .error e
      | .ok c =>
        match getCtxs n bs with
        | .error e => .error e
        | .ok cs => .ok (c :: cs)
    else getCtxs n bs
end

mutual
/-- `el._set_context(context)`: the new state of the element (and of everything below it) and the
`LenaKeyError` it raised, if any -/
def setCtx (n : Nat) : St → Ctx → St × Option Nat
  | .set k ks v sc, c =>                             -- meta/elements.py 53-65
    match fmtUpdate n k ks v c with
    | .ok c' => (.set k ks v (.ok c'), none)
    | .error e => (.set k ks v (sc.fail e), some e)
  | .store _, c => (.store c, none)                  -- `self.context = deepcopy(context)`
  | .ucfs _, c => (.ucfs c, none)                    -- `self._context = context`
  | .mkf t _, c => (.mkf t (some c), none)           -- `self._context = context`
  | .write t nm, c => (.write t (nameUpdate t nm c), none)
  | .cache t nm, c => (.cache t (nameUpdate t nm c), none)
  | .data, _ => (.data, none)
  | .mut k ks l, _ => (.mut k ks l, none)
  | .src, _ => (.src, none)
  | .seq kind cs sc, c =>                            -- lena_sequence.py 95-133
    match loop n cs c with
    | (cs', .done c') => (.seq kind cs' (.ok c'), none)
    | (cs', .ret e) => (.seq kind cs' (sc.fail e), none)
    | (cs', .raise e) => (.seq kind cs' (sc.fail e), some e)
  | .split bs, c =>                                  -- split.py 142-157 (LenaSplit._set_context)
    if nonEmpty c = true then (.split (branches n bs c), none)
    else (.split bs, none)                           -- `if not context: return`
/-- the loop `for el in self._seq:` of `LenaSequence._set_context` with running context `c` -/
def loop (n : Nat) : List St → Ctx → List St × LoopOut
  | [], c => ([], .done c)
  | el :: rest, c =>
    -- `if hasattr(el, "_set_context") and context:`
    let r := if el.hasSet && nonEmpty c then setCtx n el c else (el, none)
    match r with
    | (el', some e) => (el' :: rest, .ret e)
    | (el', none) =>
      if el'.hasGet then
        match getCtx n el' with
        | .error e => (el' :: rest, .raise e)
        | .ok c' =>
          match loop n rest c' with
          | (rest', o) => (el' :: rest', o)
      else
        match loop n rest c with
        | (rest', o) => (el' :: rest', o)
/-- `for seq in self._seqs: try: seq._set_context(deepcopy(context)) except LenaKeyError: pass` -/
def branches (n : Nat) : List St → Ctx → List St
  | [], _ => []
  | b :: bs, c => (if b.hasSet then (setCtx n b c).1 else b) :: branches n bs c
end

/-- the state of a leaf element after its constructor -/
def initElem (n : Nat) : Elem → St
  | .set k ks v =>                                   -- `try: self._set_context({}) except LenaKeyError: pass`
    .set k ks v (SC.ofExcept (fmtUpdate n k ks v (Val.empty n)))
  | .store => .store (Val.empty n)                   -- `self.context = {}`
  | .ucfs => .ucfs (Val.empty n)                     -- `self._context = {}`
  | .mkf t => .mkf t none
  | .write t => .write t none
  | .cache t => .cache t none
  | .data => .data
  | .mut k ks l => .mut k ks l
  | .src => .src

/-- `LenaSequence.__init__`: `try: self._set_context({}) except LenaKeyError: pass` on elements that are
already constructed -/
def mkSeq (n : Nat) (kind : Kind) (cs : List St) : St :=
  match loop n cs (Val.empty n) with
  | (cs', .done c') => .seq kind cs' (.ok c')
  | (cs', .ret e) => .seq kind cs' (.failed e)
  | (cs', .raise e) => .seq kind cs' (.failed e)

mutual
/-- construction of the program, bottom-up as Python evaluates the constructor calls.  `LenaSplit.__init__`
calls `_set_context({})`, which returns at once; the tail `Sequence` that `Source.__init__` creates sets no
context (commit 579340b). -/
def build (n : Nat) : Tree → St
  | .leaf e => initElem n e
  | .seq kind cs => mkSeq n kind (buildL n cs)
  | .split bs => .split (buildL n bs)
def buildL (n : Nat) : List Tree → List St
  | [] => []
  | t :: ts => build n t :: buildL n ts
end

/-! ## the specification: one top-down fold in document order -/

/-- `hasattr(el, "_get_context")` for the object that `t` constructs -/
def Tree.hasGet : Tree → Bool
  | .leaf (.set ..) => true
  | .leaf _ => false
  | .seq .. => true
  | .split _ => true

/-- `hasattr(el, "_set_context")` -/
def Tree.hasSet : Tree → Bool
  | .leaf .data => false
  | .leaf (.mut ..) => false
  | .leaf .src => false
  | _ => true

/-- what a leaf element contributes to the context of its sequence -/
def foldElem (n : Nat) : Elem → Ctx → Except Nat Ctx
  | .set k ks v, c => fmtUpdate n k ks v c
  | _, c => .ok c

mutual
/-- the context after `t` when the context before it is `c`: `SetContext` updates (formatting strings
resolved against `c`), a `Split` hands `c` to every branch and exports the intersection -/
def fold (n : Nat) : Tree → Ctx → Except Nat Ctx
  | .leaf e, c => foldElem n e c
  | .seq _ cs, c => foldL n cs c
  | .split bs, c =>
    match foldB n bs c with
    | .error e => .error e
    | .ok cs => .ok (interN n cs)
def foldL (n : Nat) : List Tree → Ctx → Except Nat Ctx
  | [], c => .ok c
  | t :: ts, c =>
    match fold n t c with
    | .error e => .error e
    | .ok c' => foldL n ts c'
/-- the contexts exported by the branches of a `Split`, each started from `c`; a branch without
`_get_context` is transparent ("not intersecting the others with {}", split.py 127-129) -/
def foldB (n : Nat) : List Tree → Ctx → Except Nat (List Ctx)
  | [], _ => .ok []
  | b :: bs, c =>
    if b.hasGet then
      match fold n b c with
      | .error e => .error e
      | .ok x =>
        match foldB n bs c with
        | .error e => .error e
        | .ok xs => .ok (x :: xs)
    else foldB n bs c
end

/-! ## run time: what the static context can do to the flow

Flow values are `(data, context)` pairs with integer data.  `Sequence.run` composes the `run` of its data
elements (`SetContext` and `StoreContext` have `_has_no_data` and are not part of it); the only elements
whose `run` reads anything that `_set_context` stored are `UpdateContextFromStatic` and `MakeFilename`.
`Write.run` passes data that is not a string on unchanged, `Cache.run` (no cache file yet, or
`recompute=True`) yields the flow it dumps.  `Split.run` with `bufsize=None` materialises the flow in one
buffer and yields the results of its branches in turn, each branch receiving a copy; a `Source` branch
yields its own flow; a `Split` without branches yields the flow unchanged (Split.run, split.py 306-440).
`none` = outside the modelled domain (`context.output` is not a dictionary, an existing
`output.prefix`/`suffix` is not a string). -/

/-- slots of the keys that `MakeFilename` looks at -/
structure OutKeys where
  output : Nat
  filename : Nat
  pfx : Nat
  sfx : Nat
  dirname : Nat
  fileext : Nat

def OutKeys.slot (ok : OutKeys) : MkfKey → Nat
  | .pfx => ok.pfx
  | .sfx => ok.sfx
  | .filename => ok.filename
  | .dirname => ok.dirname
  | .fileext => ok.fileext

/-- a flow value: data with a context, or bare data (`none`) -/
abbrev Item := Int × Option Ctx

/-- `full_context.update(context)`: top-level keys of the second argument win -/
def shallowUpdate : Ctx → Ctx → Ctx
  | s, [] => s
  | [], c => c
  | x :: s, y :: c => (match y with | some v => some v | none => x) :: shallowUpdate s c

/-- `del d[key]` -/
def clearSlot : Ctx → Nat → Ctx
  | [], _ => []
  | _ :: r, 0 => none :: r
  | x :: r, i + 1 => x :: clearSlot r i

/-- `get_recursively(context, "output.<key>", "")` as a string to be concatenated; `none`: not a string -/
def getAffix (ok : OutKeys) (ctx : Ctx) (key : Nat) : Option String :=
  match getSlot ctx ok.output with
  | some (.dict o) =>
    match getSlot o key with
    | none => some ""
    | some (.leaf (.str s)) => some s
    | some _ => none
  | _ => some ""                                     -- `elif has_default: return default`

/-- `if prefix: del context["output"]["prefix"]` -/
def delAffix (ok : OutKeys) (ctx : Ctx) (key : Nat) (s : String) : Ctx :=
  if s = "" then ctx
  else
    match getSlot ctx ok.output with
    | some (.dict o) => setSlot ctx ok.output (some (.dict (clearSlot o key)))
    | _ => ctx

/-- one iteration of `for key, meth in self._methods:` of `MakeFilename.__call__` (make_filename.py 128-178):
the context of the value afterwards -/
def mkfStep (n : Nat) (ok : OutKeys) (overwrite : Bool) (static : Option Ctx) (ctx : Ctx) (key : MkfKey) (t : Tpl) :
    Option Ctx :=
  let go : Option Ctx :=
    -- `full_context = deepcopy(self._context); full_context.update(context)`
    let full := match static with
      | some s => shallowUpdate s ctx
      | none => ctx
    match fmt t full with
    | .error _ => some ctx                           -- `except LenaKeyError: continue`
    | .ok res =>
      match key with
      | .filename =>
        -- `prefix = get_recursively(context, "output.prefix", "")`, the same for suffix; both are deleted
        match getAffix ok ctx ok.pfx, getAffix ok ctx ok.sfx with
        | some p, some s =>
          let name := match res with
            | .str r => Leaf.str (p ++ r ++ s)
            | l => l
          let ctx' := delAffix ok (delAffix ok ctx ok.pfx p) ok.sfx s
          some (updL ctx' (single n ok.output [ok.filename] name))
        | _, _ => none
      | .pfx =>
        -- `existing = get_recursively(context, "output.prefix", None)`; prepended before an existing prefix
        match getAffix ok ctx ok.pfx with
        | none => none
        | some ex =>
          let res' := match res with
            | .str r => if ex ≠ "" ∧ overwrite = false then Leaf.str (r ++ ex) else Leaf.str r
            | l => l
          some (updL ctx (single n ok.output [ok.pfx] res'))
      | .sfx =>
        match getAffix ok ctx ok.sfx with
        | none => none
        | some ex =>
          let res' := match res with
            | .str r => if ex ≠ "" ∧ overwrite = false then Leaf.str (ex ++ r) else Leaf.str r
            | l => l
          some (updL ctx (single n ok.output [ok.sfx] res'))
      | k => some (updL ctx (single n ok.output [ok.slot k] res))      -- dirname, fileext
  match key with
  | .pfx => go
  | .sfx => go
  | k =>
    -- `if "output" in context and key in context["output"]: if not self._overwrite: continue`
    match getSlot ctx ok.output with
    | some (.leaf _) => none                         -- `key in context["output"]` on a scalar
    | some (.dict o) => if (getSlot o (ok.slot k)).isSome ∧ overwrite = false then some ctx else go
    | none => go

/-- the loop over `self._methods` -/
def mkfSteps (n : Nat) (ok : OutKeys) (overwrite : Bool) (static : Option Ctx) : List (MkfKey × Tpl) → Ctx → Option Ctx
  | [], ctx => some ctx
  | (k, t) :: r, ctx =>
    match mkfStep n ok overwrite static ctx k t with
    | none => none
    | some ctx' => mkfSteps n ok overwrite static r ctx'

/-- `MakeFilename(…).__call__((data, ctx))` (make_filename.py 100-186): the new context -/
def mkfCall (n : Nat) (ok : OutKeys) (m : Mkf) (static : Option Ctx) (ctx : Ctx) : Option Ctx :=
  mkfSteps n ok m.overwrite static m.methods ctx

/-- `UpdateContextFromStatic.run` on one value (meta/elements.py 136-142); `data, context = val` raises for a
value without context: `none` -/
def ucfsItem (c : Ctx) (it : Item) : Option Item :=
  it.2.map fun x => (it.1, some (updL x c))

/-- `MakeFilename.__call__` on one value: `get_context(value)` is `{}` for bare data, and bare data stays bare
unless some method updated the context (then `output` is set, so the context is not empty) -/
def mkfItem (n : Nat) (ok : OutKeys) (m : Mkf) (static : Option Ctx) (it : Item) : Option Item :=
  match it.2 with
  | some x => (mkfCall n ok m static x).map fun y => (it.1, some y)
  | none => (mkfCall n ok m static (Val.empty n)).map fun y => (it.1, if nonEmpty y = true then some y else none)

/-- the run-time mutator on one value (bare data is left alone) -/
def mutItem (n : Nat) (k : Nat) (ks : List Nat) (l : Leaf) (it : Item) : Item :=
  (it.1, it.2.map fun x => updL x (single n k ks l))

mutual
/-- `el.run(flow)` (for a `Source`: `el()`), `srcFlow` being what the first element of a `Source` generates -/
def run (n : Nat) (ok : OutKeys) (srcFlow : List Item) : St → List Item → Option (List Item)
  | .ucfs c, f => f.mapM (ucfsItem c)
  | .mkf t c, f => f.mapM (mkfItem n ok t c)
  | .mut k ks l, f => some (f.map (mutItem n k ks l))
  | .src, _ => some srcFlow
  | .seq _ cs _, f => runL n ok srcFlow cs f
  | .split bs, f => if bs.isEmpty then some f else runB n ok srcFlow bs f
  | _, f => some f
def runL (n : Nat) (ok : OutKeys) (srcFlow : List Item) : List St → List Item → Option (List Item)
  | [], f => some f
  | el :: rest, f =>
    match run n ok srcFlow el f with
    | none => none
    | some f' => runL n ok srcFlow rest f'
def runB (n : Nat) (ok : OutKeys) (srcFlow : List Item) : List St → List Item → Option (List Item)
  | [], _ => some []
  | b :: bs, f =>
    match run n ok srcFlow b f, runB n ok srcFlow bs f with
    | some x, some y => some (x ++ y)
    | _, _ => none
end


/-! ## specification vocabulary (executable; the driver evaluates it next to the transcribed protocol)

Positions in a program, the context that the one top-down fold delivers to a position (`ctxAt`), what
encloses and precedes a position (`cone`), the state that `_set_context(x)` leaves a fresh leaf element in
(`leafFinal`), and the run-time reference flows (`runRef`, `runPlain`). -/

/-- the last context of a history, `{}` for none -/
def lastD (n : Nat) (F : List Ctx) : Ctx := F.getLastD (Val.empty n)

/-- the state of a leaf element after `_set_context(x)` on a fresh object (for `MakeFilename`, `Write`, `Cache`,
whose constructors do not set a context: no call at all for an empty `x`) -/
def leafFinal (n : Nat) : Elem → Ctx → St
  | .set k ks v, x => .set k ks v (SC.ofExcept (fmtUpdate n k ks v x))
  | .store, x => .store x
  | .ucfs, x => .ucfs x
  | .mkf t, x => .mkf t (if nonEmpty x = true then some x else none)
  | .write t, x => .write t (if nonEmpty x = true then nameUpdate t none x else none)
  | .cache t, x => .cache t (if nonEmpty x = true then nameUpdate t none x else none)
  | .data, _ => .data
  | .mut k ks l, _ => .mut k ks l
  | .src, _ => .src

/-! ## positions -/

def Tree.children : Tree → List Tree
  | .leaf _ => []
  | .seq _ cs => cs
  | .split bs => bs

def St.children : St → List St
  | .seq _ cs _ => cs
  | .split bs => bs
  | _ => []

/-- the sub-program at a path of child indices -/
def Tree.at? : Tree → List Nat → Option Tree
  | t, [] => some t
  | t, i :: p => (t.children[i]?).bind fun c => c.at? p

/-- the object at a path of child indices -/
def St.at? : St → List Nat → Option St
  | s, [] => some s
  | s, i :: p => (s.children[i]?).bind fun c => c.at? p

/-- **the context that the one top-down fold delivers to the node at path `p`** when the context before `t`
is `c`: through a sequence, the fold of the earlier children (`SetContext` updates with their formatting
strings resolved against that same prefix, intersections exported by earlier `Split`s); through a `Split`,
the context of the `Split` itself (every branch gets a copy).  `none`: no such node, or a formatting key of
the prefix cannot be resolved (then the statement defines nothing). -/
def ctxAt (n : Nat) : Tree → List Nat → Ctx → Option Ctx
  | _, [], c => some c
  | .leaf _, _ :: _, _ => none
  | .seq _ cs, i :: p, c =>
    (cs[i]?).bind fun t =>
      match foldL n (cs.take i) c with
      | .ok c' => ctxAt n t p c'
      | .error _ => none
  | .split bs, i :: p, c => (bs[i]?).bind fun b => ctxAt n b p c

/-- what encloses and precedes a node: for every enclosing sequence its earlier children (in full), for
every enclosing `Split` nothing but the fact -/
inductive ConeStep where
  | seq (earlier : List Tree)
  | split

def cone : Tree → List Nat → Option (List ConeStep)
  | _, [] => some []
  | .leaf _, _ :: _ => none
  | .seq _ cs, i :: p => (cs[i]?).bind fun c => (cone c p).map (ConeStep.seq (cs.take i) :: ·)
  | .split bs, i :: p => (bs[i]?).bind fun b => (cone b p).map (ConeStep.split :: ·)

/-- what `MakeFilename` holds: nothing for an empty context (which is never delivered) -/
def seenOpt (x : Ctx) : Option Ctx := if nonEmpty x = true then some x else none

mutual
/-- run-time reference: the flow through the program when the static context before `t` is `c`.  Only
`UpdateContextFromStatic` (recursive update of the run-time context with the prefix fold) and `MakeFilename`
(the name it derives) look at `c`. -/
def runRef (n : Nat) (ok : OutKeys) (src : List Item) : Tree → Ctx → List Item → Option (List Item)
  | .leaf .ucfs, c, f => f.mapM (ucfsItem c)
  | .leaf (.mkf t), c, f => f.mapM (mkfItem n ok t (seenOpt c))
  | .leaf .src, _, _ => some src
  | .leaf (.set ..), _, f => some f
  | .leaf .store, _, f => some f
  | .leaf (.write _), _, f => some f
  | .leaf (.cache _), _, f => some f
  | .leaf .data, _, f => some f
  | .leaf (.mut k ks l), _, f => some (f.map (mutItem n k ks l))
  | .seq _ cs, c, f => runRefL n ok src cs c f
  | .split bs, c, f => if bs.isEmpty then some f else runRefB n ok src bs c f
def runRefL (n : Nat) (ok : OutKeys) (src : List Item) : List Tree → Ctx → List Item → Option (List Item)
  | [], _, f => some f
  | t :: ts, c, f =>
    match runRef n ok src t c f with
    | none => none
    | some f' =>
      match fold n t c with
      | .ok c' => runRefL n ok src ts c' f'
      | .error _ => runRefL n ok src ts c f'        -- (not reached when the fold of the sequence succeeds)
def runRefB (n : Nat) (ok : OutKeys) (src : List Item) : List Tree → Ctx → List Item → Option (List Item)
  | [], _, _ => some []
  | b :: bs, c, f =>
    match runRef n ok src b c f, runRefB n ok src bs c f with
    | some x, some y => some (x ++ y)
    | _, _ => none
end

mutual
/-- the flow through a program that ignores static context altogether (run-time elements still act) -/
def runPlain (n : Nat) (src : List Item) : Tree → List Item → List Item
  | .leaf .src, _ => src
  | .leaf (.set ..), f => f
  | .leaf .store, f => f
  | .leaf .ucfs, f => f
  | .leaf (.mkf _), f => f
  | .leaf (.write _), f => f
  | .leaf (.cache _), f => f
  | .leaf .data, f => f
  | .leaf (.mut k ks l), f => f.map (mutItem n k ks l)
  | .seq _ cs, f => runPlainL n src cs f
  | .split bs, f => if bs.isEmpty then f else runPlainB n src bs f
def runPlainL (n : Nat) (src : List Item) : List Tree → List Item → List Item
  | [], f => f
  | t :: ts, f => runPlainL n src ts (runPlain n src t f)
def runPlainB (n : Nat) (src : List Item) : List Tree → List Item → List Item
  | [], _ => []
  | b :: bs, f => runPlain n src b f ++ runPlainB n src bs f
end

mutual
/-- no `UpdateContextFromStatic` and no `MakeFilename` anywhere in the program -/
def Tree.noConsumer : Tree → Bool
  | .leaf .ucfs => false
  | .leaf (.mkf _) => false
  | .leaf _ => true
  | .seq _ cs => noConsumerL cs
  | .split bs => noConsumerL bs
def noConsumerL : List Tree → Bool
  | [] => true
  | t :: ts => t.noConsumer && noConsumerL ts
end

mutual
/-- no `Split` with branches and no source element (whose outputs are not per-value) -/
def St.linear : St → Bool
  | .src => false
  | .split bs => bs.isEmpty
  | .seq _ cs _ => linearL cs
  | _ => true
def linearL : List St → Bool
  | [] => true
  | s :: ss => s.linear && linearL ss
end

/-- concatenation of two optional flows -/
def appendOpt : Option (List Item) → Option (List Item) → Option (List Item)
  | some a, some b => some (a ++ b)
  | _, _ => none


/-! ## closed form of the multi-pass protocol (executable; the driver compares it with the transcribed
protocol and the harness with the real objects)

`final t F`: the state of the objects of program `t` when the contexts delivered to `t` so far are `F` (oldest
first; for a sequence the first one is the `{}` of its own constructor): every object is in the state that the
*last* context that reaches it — computed by the specification fold — puts it in. -/

/-- the contexts that get past `t` -/
def pastT (n : Nat) (t : Tree) (F : List Ctx) : List Ctx := F.filterMap (fun c => (fold n t c).toOption)

mutual
def final (n : Nat) : Tree → List Ctx → St
  | .leaf e, F => leafFinal n e (lastD n F)
  | .seq kind cs, F => .seq kind (finalL n cs F) (SC.ofExcept (foldL n cs (lastD n F)))
  | .split bs, F => .split (finalB n bs F)
/-- children of a sequence; `F`: the contexts that reach the first of them -/
def finalL (n : Nat) : List Tree → List Ctx → List St
  | [], _ => []
  | t :: ts, F => final n t (Val.empty n :: F) :: finalL n ts (pastT n t F)
/-- branches of a `Split` -/
def finalB (n : Nat) : List Tree → List Ctx → List St
  | [], _ => []
  | b :: bs, F => final n b (Val.empty n :: F) :: finalB n bs F
end

/-- the contexts that get past a list of consecutive elements -/
def pastL (n : Nat) : List Tree → List Ctx → List Ctx
  | [], F => F
  | t :: ts, F => pastL n ts (pastT n t F)

/-- the history of the node below the enclosing containers `k`, when the history of the outermost one is `F` -/
def histOfCone (n : Nat) : List ConeStep → List Ctx → List Ctx
  | [], F => F
  | .seq earlier :: k, F => histOfCone n k (Val.empty n :: pastL n earlier F)
  | .split :: k, F => histOfCone n k (Val.empty n :: F)

/-! ## which elements are handed the same dictionary *object* (tokens)

`LenaSequence._set_context` passes its variable `context` to consecutive elements and rebinds it only to the
(deep) copy that an element's `_get_context()` returns; a `Split` hands each branch its own deep copy.
`UpdateContextFromStatic`, `MakeFilename` and a sequence's `_static_context` keep the object they are handed;
`SetContext` and `StoreContext` keep a private copy.  `tokAt t abs inc p`: the token of the dictionary handed to
the node at path `p` below `t`, where `t` sits at the absolute path `abs` and is itself handed `inc`.  A token is
the place where the copy was made: `(path, 0)` the copy returned by `_get_context()` of the element at `path`,
`(path, 1)` the copy a `Split` made for its branch at `path`. -/

abbrev Tok := List Nat × Nat

/-- index of the last element with `_get_context` in a list of children -/
def lastGet : List Tree → Option Nat
  | [] => none
  | t :: ts =>
    match lastGet ts with
    | some j => some (j + 1)
    | none => if t.hasGet then some 0 else none

def tokAt : Tree → List Nat → Tok → List Nat → Option Tok
  | _, _, inc, [] => some inc
  | .leaf _, _, _, _ :: _ => none
  | .seq _ cs, abs, inc, i :: p =>
    (cs[i]?).bind fun c =>
      let running : Tok := match lastGet (cs.take i) with
        | some j => (abs ++ [j], 0)                  -- `context = el._get_context()`
        | none => inc
      tokAt c (abs ++ [i]) running p
  | .split bs, abs, _, i :: p =>
    (bs[i]?).bind fun b => tokAt b (abs ++ [i]) (abs ++ [i], 1) p      -- `seq._set_context(deepcopy(context))`

/-- the token of the dictionary handed to the node at `p` of the whole program `t` -/
def tokOf (t : Tree) (p : List Nat) : Option Tok := tokAt t [] ([], 2) p

/-! ## independent vocabulary for "the key that cannot be resolved" -/

/-- follow a path of keys through nested dictionaries -/
def descend : Ctx → List Nat → Option Ctx
  | c, [] => some c
  | c, k :: ks =>
    match getSlot c k with
    | some (.dict d) => descend d ks
    | _ => none

mutual
/-- forget everything that `_set_context` stored except what `UpdateContextFromStatic` and `MakeFilename` hold -/
def St.strip : St → St
  | .set k ks v _ => .set k ks v (.failed 0)
  | .store _ => .store []
  | .ucfs c => .ucfs c
  | .mkf m c => .mkf m c
  | .write t _ => .write t none
  | .cache t _ => .cache t none
  | .data => .data
  | .mut k ks l => .mut k ks l
  | .src => .src
  | .seq kind cs _ => .seq kind (stripL cs) (.failed 0)
  | .split bs => .split (stripL bs)
def stripL : List St → List St
  | [] => []
  | s :: ss => s.strip :: stripL ss
end

/-! ## domain of validity: no rendered dictionary

`Leaf.bad` stands for `str(dict)`, which the model does not describe: a program in whose constructed state a `bad`
leaf occurs is outside the domain in which the model is a model of the code.  `St.noBad` is evaluated by the
driver on every generated case (and must be `true` there). -/

mutual
def noBadV : V → Bool
  | .leaf .bad => false
  | .leaf _ => true
  | .dict d => noBadL d
def noBadL : Ctx → Bool
  | [] => true
  | none :: r => noBadL r
  | some v :: r => noBadV v && noBadL r
end

def SC.noBad : SC → Bool
  | .ok c => noBadL c
  | .failed _ => true

mutual
def St.noBad : St → Bool
  | .set _ _ _ sc => sc.noBad
  | .store c => noBadL c
  | .ucfs c => noBadL c
  | .mkf _ c => match c with | some x => noBadL x | none => true
  | .write _ nm => nm != some Leaf.bad
  | .cache _ nm => nm != some Leaf.bad
  | .seq _ cs sc => sc.noBad && noBadS cs
  | .split bs => noBadS bs
  | _ => true
def noBadS : List St → Bool
  | [] => true
  | s :: ss => s.noBad && noBadS ss
end

/-! ## re-use of a constructed program: a delivery that reaches every element

A constructed sequence may be placed into a second enclosing sequence (lena's own tests re-use elements): its
`_set_context` is then called with a context that need not be above the earlier ones.  `LenaSequence._set_context`
skips an element while the running context is empty and stops at an unresolved key, `LenaSplit._set_context`
returns at once for an empty context, `Write`/`Cache` keep their name when it cannot be formatted: such elements
keep what an EARLIER delivery left.  `covers t c` says that none of this happens when `c` is delivered to `t`. -/

def okB {ε α : Type} : Except ε α → Bool
  | .ok _ => true
  | .error _ => false

/-- `_set_context(c)` of a leaf element is called (`c` is not empty) and overwrites everything the element holds -/
def coversElem (n : Nat) : Elem → Ctx → Bool
  | .set k ks v, c => nonEmpty c && okB (fmtUpdate n k ks v c)
  | .store, c => nonEmpty c
  | .ucfs, c => nonEmpty c
  | .mkf _, c => nonEmpty c
  | .write t, c => nonEmpty c && (t.parts.isEmpty || okB (fmt t c))
  | .cache t, c => nonEmpty c && (t.parts.isEmpty || okB (fmt t c))
  | .data, _ => true
  | .mut .., _ => true
  | .src, _ => true

mutual
/-- the delivery of `c` to the program `t` reaches every element below it: no formatting key is unresolved and no
element with `_set_context` is handed an empty context -/
def covers (n : Nat) : Tree → Ctx → Bool
  | .leaf e, c => coversElem n e c
  | .seq _ cs, c => nonEmpty c && coversL n cs c
  | .split bs, c => nonEmpty c && coversB n bs c
def coversL (n : Nat) : List Tree → Ctx → Bool
  | [], _ => true
  | t :: ts, c =>
    covers n t c &&
      match fold n t c with
      | .ok c' => coversL n ts c'
      | .error _ => false
def coversB (n : Nat) : List Tree → Ctx → Bool
  | [], _ => true
  | b :: bs, c => covers n b c && coversB n bs c
end

mutual
/-- the program that an object was constructed from (its stored contexts and names forgotten) -/
def St.prog : St → Tree
  | .set k ks v _ => .leaf (.set k ks v)
  | .store _ => .leaf .store
  | .ucfs _ => .leaf .ucfs
  | .mkf m _ => .leaf (.mkf m)
  | .write t _ => .leaf (.write t)
  | .cache t _ => .leaf (.cache t)
  | .data => .leaf .data
  | .mut k ks l => .leaf (.mut k ks l)
  | .src => .leaf .src
  | .seq kind cs _ => .seq kind (progL cs)
  | .split bs => .split (progL bs)
def progL : List St → List Tree
  | [] => []
  | s :: ss => s.prog :: progL ss
end

mutual
/-- invariant of real objects: a `Write` / `Cache` whose string has no field never formats it
(`if '{' not in self._orig_…: return`), so its name is still the unformatted string -/
def St.namesOK : St → Bool
  | .write t nm => !t.parts.isEmpty || nm.isNone
  | .cache t nm => !t.parts.isEmpty || nm.isNone
  | .seq _ cs _ => namesOKL cs
  | .split bs => namesOKL bs
  | _ => true
def namesOKL : List St → Bool
  | [] => true
  | s :: ss => s.namesOK && namesOKL ss
end

/-! ## dictionary constants of a program are dictionaries over the case's alphabet -/

/-- a dictionary value of a `SetContext` has `n` slots in every dictionary at every depth -/
def SVal.wf (n : Nat) : SVal → Bool
  | .dictv d => wfB n (Val.dict d)
  | _ => true

mutual
/-- every dictionary constant of the program is well formed (the driver builds them so; evaluated on every case) -/
def Tree.valsWF (n : Nat) : Tree → Bool
  | .leaf (.set _ _ v) => v.wf n
  | .leaf _ => true
  | .seq _ cs => valsWFL n cs
  | .split bs => valsWFL n bs
def valsWFL (n : Nat) : List Tree → Bool
  | [] => true
  | t :: ts => t.valsWF n && valsWFL n ts
end

/-- `top._set_context(c)` for the contexts of `cs` in turn: the objects afterwards -/
def deliverAll (n : Nat) (s : St) (cs : List Ctx) : St :=
  cs.foldl (fun acc c => (setCtx n acc c).1) s

end Lena.C13
