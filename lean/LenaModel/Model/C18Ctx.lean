import LenaModel.Model.C18
/-! # C18 model, part 3 — cache file names from the static context (`Cache._set_context`, cache.py:159-168)

`Cache("t_{{key}}.pkl")`: when a sequence is created, `LenaSequence._set_context` (lena_sequence.py:95-131) passes
the static context through its elements from left to right; `SetContext(key, value)` (lena/meta/elements.py) adds
`key: value` for the elements after it; a `Cache` whose file name contains `{` formats the name with the context
it receives — if the context is empty (`_set_context` is not called) or lacks the key (`LenaKeyError`, caught) the
name stays as it is: the template itself.  `SetContext` elements carry no data and are not part of the running
pipeline.  `resolve` computes the pipeline of part 1 (`List ElSpec`, caches named by ids) that a templated pipeline
denotes.  No imports besides part 1. -/

namespace Lena.C18

/-- elements of a pipeline with templated cache names.
* `el e`: an element of part 1 (a map, or a cache with a fixed name);
* `setctx k v`: `SetContext("k<k>", v)`;
* `tcache t k rc`: `Cache("t<t>_{{k<k>}}.pkl", recompute=rc)`. -/
inductive TEl where
  | el (e : ElSpec)
  | setctx (k v : Nat)
  | tcache (t k : Nat) (rc : Bool)
  deriving Repr, DecidableEq

/-- static context: the bindings made so far, latest first -/
abbrev SCtx := List (Nat × Nat)

/-- `context[key]`: the latest binding wins (`SetContext` updates the context it received) -/
def SCtx.get (ctx : SCtx) (k : Nat) : Option Nat :=
  match ctx with
  | [] => none
  | (k', v) :: rest => if k' = k then some v else SCtx.get rest k

/-- the id of a file name: plain names are `0 .. nb-1`; template `t` unformatted is `nb + t (V+1)`, formatted with
the value `v` it is `nb + t (V+1) + v + 1` (values range over `0 .. V-1`) -/
def nameId (nb V t : Nat) : Option Nat → Nat
  | none => nb + t * (V + 1)
  | some v => nb + t * (V + 1) + v + 1

/-- the pipeline a templated pipeline denotes under the static context `ctx` that reaches it from outside -/
def resolve (nb V : Nat) : SCtx → List TEl → List ElSpec
  | _, [] => []
  | ctx, .el e :: rest => e :: resolve nb V ctx rest
  | ctx, .setctx k v :: rest => resolve nb V ((k, v) :: ctx) rest
  | ctx, .tcache t k rc :: rest => .cache (nameId nb V t (ctx.get k)) rc :: resolve nb V ctx rest

/-- the static context after the elements `xs` -/
def ctxAfter : SCtx → List TEl → SCtx
  | ctx, [] => ctx
  | ctx, .setctx k v :: rest => ctxAfter ((k, v) :: ctx) rest
  | ctx, _ :: rest => ctxAfter ctx rest

end Lena.C18
