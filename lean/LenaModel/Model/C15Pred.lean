import LenaModel.Model.C15
/-! # C15 — callable objects of every kind as predicates of `SelectContext` and as leaves of `Selector`

`SelectContext.__init__(key, predicate, raise_on_error)` (selectors.py:147-181) asserts `callable(predicate)` and
stores the object; `__call__` (selectors.py:183-203) calls it on the addressed sub-context.  It does **not** look
at what else the object is.  `Selector.__init__` (selectors.py:14-90) on the contrary dispatches on the type of its
argument — `inspect.isclass` first, then `callable`, then `str`, `list`, `tuple`.

A Python object that can be called may at the same time be
* a *class* (`bool`, `int`, `float`, `str`, `dict`, `list`, a user class used as a converter / validator):
  calling it constructs an instance,
* an instance of a subclass of `str`, `list` or `tuple` that defines `__call__`,
* a lena `Selector` instance,
* or nothing else (`plain`: a function, a lambda, a builtin such as `len`, a bound method, a
  `functools.partial` object, an instance of a class with `__call__`).

`Model/C15.lean` describes a callable by the function it computes (`Val → Res`, `Item → Res`); this file adds what
else it is (`CallKind`), so that "the predicate is *applied*, whatever it is" can be stated (`Props/C15Pred.lean`)
and exercised (the driver builds every `selctx` / `fn` specification through `selectContext` / `Callable.asSpec`).
It also transcribes the builtin callables the harness uses as predicates, on the sub-contexts of the model
(`pyBool`, `pyStr`, `pyLen`, `pyDict`, `pyAbs`, `pyInt`): their truth value or the class of their exception. -/

namespace Lena.C15

/-- what a callable object is besides being callable -/
inductive CallKind where
  | plain                          -- function, lambda, builtin, bound method, partial, instance with `__call__`
  | cls (c : PyClass)              -- a class
  | strLike (s : String)           -- an instance of a subclass of `str` with `__call__`
  | listLike                       -- an instance of a subclass of `list` with `__call__`
  | tupleLike                      -- an instance of a subclass of `tuple` with `__call__`
  | selectorInst                   -- a lena `Selector` instance (they are callables)
  deriving Repr

/-- a callable object: what it is (`kind`) and what calling it on `x` gives (`apply x`: the truth value of the
result, or the exception) -/
structure Callable (α : Type) where
  kind : CallKind
  apply : α → Res

/-- `SelectContext(key, predicate, raise_on_error)`: `assert callable(predicate)`; the object is stored and later
called — its kind is not inspected (selectors.py:168-170, 194-203) -/
def selectContext (key : KeyArg) (p : Callable Val) (roe : Bool) : Spec := .selCtx key p.apply roe

/-- a callable object given to `Selector(...)` (or as an item of a list / tuple, or to `Filter`): the dispatch of
`Selector.__init__` — `inspect.isclass(selector)` is tested first ("callable classes are treated as classes"),
then `callable(selector)`, before `str`, `list`, `tuple`: a callable that is also a string or a container is
*applied* -/
def Callable.asSpec (p : Callable Item) : Spec :=
  match p.kind with
  | .cls c => .cls c
  | _ => .fn p.apply

/-! ## builtin callables on a sub-context -/

/-- `bool(sub)`: never raises -/
def pyBool (v : Val) : Res := .ok v.truthy

/-- `str(sub)`: the truth value of the string — `str(None) == "None"`, a dictionary prints as `{...}`; only the
empty string (and an object whose `str()` is empty) gives a false result -/
def pyStrT : Val → Res
  | .leaf (.str s) => .ok (s != "")
  | .leaf (.obj s) => .ok (s != "")
  | _ => .ok true

/-- `len(sub)` (also the truth value of `list(sub)`): defined for strings and dictionaries; `TypeError` for `None`,
numbers and an object without `__len__` / `__iter__` -/
def pyLen : Val → Res
  | .leaf (.str s) => .ok (s != "")
  | .dict l => .ok (nonEmpty l)
  | _ => .raise "Other:TypeError"

/-- `dict(sub)`: a copy of a dictionary; `dict("") == {}`; a non-empty string is a sequence of one-character
strings (`ValueError`: "dictionary update sequence element #0 has length 1; 2 is required"); `TypeError` for what
cannot be iterated -/
def pyDict : Val → Res
  | .dict l => .ok (nonEmpty l)
  | .leaf (.str s) => if s = "" then .ok false else .raise "Other:ValueError"
  | _ => .raise "Other:TypeError"

/-- `abs(sub)`: numbers only -/
def pyAbs : Val → Res
  | .leaf (.int i) => .ok (i != 0)
  | .leaf (.bool b) => .ok b
  | _ => .raise "Other:TypeError"

/-- is the string an integer literal — an optional `-`, then one or more decimal digits — and if so, is the
integer non-zero?  (Python's `int` also accepts a sign `+`, surrounding blanks and underscores between digits; the
strings of the generated contexts have none.) -/
def intLit? (s : String) : Option Bool :=
  let ds := match s.toList with
    | '-' :: r => r
    | r => r
  if ds.isEmpty || !(ds.all Char.isDigit) then none else some (ds.any (· != '0'))

/-- `int(sub)`: a number converts; a string must be an integer literal (`ValueError` otherwise); `TypeError` for
`None`, dictionaries and other objects.  `floatLits` are further strings the caller accepts (for `float(sub)`:
`"1.5"`, `"1e3"` — all of them non-zero). -/
def pyInt (floatLits : List String) : Val → Res
  | .leaf (.int i) => .ok (i != 0)
  | .leaf (.bool b) => .ok b
  | .leaf (.str s) =>
    match intLit? s with
    | some b => .ok b
    | none => if floatLits.contains s then .ok true else .raise "Other:ValueError"
  | _ => .raise "Other:TypeError"

end Lena.C15
