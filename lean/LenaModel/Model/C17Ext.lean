import LenaModel.Model.C17
import LenaModel.Model.C17Sess
/-! # C17 model, part 3 — the rest of `lena/flow/iterators.py` and of `RunningChunkBy`

* `Slice.__init__` with `itertools.islice`'s range check (`sys.maxsize`) and the run-time `OverflowError` of
  `collections.deque(maxlen=…)`: `mkSliceMS`, `sliceRunMS`;
* the argument forms `Slice(stop)`, `Slice(start, stop)`, `Slice(start, stop, step)` and the deprecated alias
  `ISlice`: `sliceOfArgs`;
* `__eq__` and `__repr__` of `Slice`, `CountFrom`, `Reverse`, `Chain`;
* type checks at construction: `CountFrom.__init__` (`TypeError` of `itertools.count`), `RunningChunkBy.__init__`
  (`LenaTypeError` for a container that is not callable);
* `RunningChunkBy.run` with its container (`container(chunk)` / `container(*chunk)`);
* `Chain.__call__` over one-shot iterators (iterators, generators) that all calls of the instance share;
* executable forms of the specification-side predicates (`goodStepB`, `hasNegB`) and projections.

No imports except `Model.*`: executed by `drivers/C17.lean`. -/

namespace Lena.C17

/-! ## specification-side predicates, executable -/

/-- `GoodStep` (Props/C17): the step is `None` or an integer `≥ 1` -/
def goodStepB : Option Int → Bool
  | none => true
  | some s => decide (1 ≤ s)

/-- `HasNeg` (Props/C17): `start` or `stop` is a negative integer -/
def hasNegB (start stop : Option Int) : Bool := !(noneOrNonneg start && noneOrNonneg stop)

/-- the outcomes of the `fill_into` calls among the events of a `Slice` object (`fillEvs` of Props/C17) -/
def fillOutcomes {α : Type} : List (SliceEv α) → List FillOut
  | [] => []
  | .fill o :: es => o :: fillOutcomes es
  | _ :: es => fillOutcomes es

/-- the values given to `fill_into` (`fillVals` of Props/C17) -/
def fillValues {α : Type} : List (SliceOp α) → List α
  | [] => []
  | .fill v :: ops => v :: fillValues ops
  | .run _ :: ops => fillValues ops

/-! ## `Slice` with the limits of `islice` and `deque` (`ms = sys.maxsize`) -/

/-- an integer above `sys.maxsize` -/
def tooBig (ms : Nat) : Option Int → Bool
  | none => false
  | some i => decide (i > (ms : Int))

/-- `Slice.__init__(start, stop, step)`.  Non-negative arguments: `islice(count(0), *args)` is built at once and
its `ValueError` (step 0, an argument above `sys.maxsize`) becomes `LenaValueError`.  With a negative index:
`step <= 0 or int(step) != step` is rejected, and the step is tried with `islice` (notes/C17_defect_2: the step
is used by `islice` during `run`) — `start` and `stop` are not examined. -/
def mkSliceMS (ms : Nat) (start stop step : Option Int) : SliceKind :=
  if noneOrNonneg start && noneOrNonneg stop && noneOrNonneg step then
    if tooBig ms start || tooBig ms stop || tooBig ms step then .valueError else mkSlice start stop step
  else if tooBig ms step then .valueError
  else mkSlice start stop step

/-- outcome of `list(Slice(...).run(flow))` -/
inductive RunOut (α : Type) where
  | ok (ys : List α)
  | indexError
  /-- `deque(maxlen=n)` with `n > sys.maxsize`: "Python int too large to convert to C ssize_t" -/
  | overflowError
  deriving Repr, DecidableEq

/-- the `maxlen` of the deque `_run_negative_islice` creates, if it gets that far:
`fill_deque(flow, -stop)` when `start` is `None` or `≥ 0`; `deque(…, maxlen=-start)` when `start < 0`, except that
`stop <= start` returns before. -/
def dequeMaxlen (start stop : Option Int) : Option Nat :=
  match start with
  | none => stop.map (fun s => (-s).toNat)
  | some a =>
    if a ≥ 0 then stop.map (fun s => (-s).toNat)
    else
      match stop with
      | none => some (-a).toNat
      | some b => if b ≤ a then none else some (-a).toNat

/-- `Slice(...).run(xs)` with the `deque` limit -/
def sliceRunMS {α : Type} (ms : Nat) (k : SliceKind) (xs : List α) : Option (RunOut α) :=
  match k with
  | .valueError => none
  | .islice a b s => some (.ok (islice xs a b s))
  | .negative a b s =>
    match dequeMaxlen a b with
    | some m =>
      if m > ms then some .overflowError
      else match sliceRun (.negative a b s) xs with
        | some (.ok ys) => some (.ok ys)
        | some .indexError => some .indexError
        | none => none
    | none =>
      match sliceRun (.negative a b s) xs with
      | some (.ok ys) => some (.ok ys)
      | some .indexError => some .indexError
      | none => none

/-! ## argument forms, `ISlice`, `__eq__`, `__repr__` -/

/-- `slice(*args)` / `islice(it, *args)`: `(stop)`, `(start, stop)`, `(start, stop, step)`; any other number of
arguments is a `TypeError` (`none`) -/
def argsTriple : List (Option Int) → Option (Option Int × Option Int × Option Int)
  | [b] => some (none, b, none)
  | [a, b] => some (a, b, none)
  | [a, b, s] => some (a, b, s)
  | _ => none

/-- `Slice(*args)`; `ISlice(*args)` is the same (plus a `DeprecationWarning`) -/
def sliceOfArgs (ms : Nat) (args : List (Option Int)) : Option SliceKind :=
  (argsTriple args).map (fun t => mkSliceMS ms t.1 t.2.1 t.2.2)

/-- Python `repr` of `None` / an integer -/
def pyReprArg : Option Int → String
  | none => "None"
  | some i => toString i

def pyReprList (xs : List Int) : String := "[" ++ ", ".intercalate (xs.map toString) ++ "]"

/-- `Slice.__repr__`: `"Slice({})".format(", ".join(repr(arg) for arg in self._args))` -/
def sliceRepr (args : List (Option Int)) : String := "Slice(" ++ ", ".intercalate (args.map pyReprArg) ++ ")"

/-- `Slice.__eq__` between two `Slice` objects: `self._args == other._args` -/
def sliceEq (a b : List (Option Int)) : Bool := a == b

/-- `CountFrom.__repr__` -/
def countFromRepr (c : CountFromInst) : String :=
  "CountFrom(start=" ++ toString c.start ++ ", step=" ++ toString c.step ++ ")"

/-- `CountFrom.__eq__` between two `CountFrom` objects -/
def countFromEq (a b : CountFromInst) : Bool := a.start == b.start && a.step == b.step

def reverseRepr : String := "Reverse()"

/-- `Reverse.__eq__`: "all Reverse elements have no state and are equal" -/
def reverseEq : Bool := true

/-- `Chain.__repr__` for iterables that are lists of integers -/
def chainRepr (xss : List (List Int)) : String :=
  if xss.isEmpty then "Chain()" else "Chain(" ++ ", ".intercalate (xss.map pyReprList) ++ ")"

/-- `Chain.__eq__`: `self._iterables == other._iterables` (tuples of lists) -/
def chainEq (a b : List (List Int)) : Bool := a == b

/-! ## type checks at construction -/

inductive InitOut where
  | ok
  /-- the plain `TypeError` of `itertools.count` re-raised by `CountFrom.__init__` -/
  | typeError
  | lenaTypeError
  deriving Repr, DecidableEq

/-- `CountFrom.__init__`: `itertools.count(start, step)` is tried; it wants two numbers -/
def countFromInit (startIsNumber stepIsNumber : Bool) : InitOut :=
  if startIsNumber && stepIsNumber then .ok else .typeError

/-- `RunningChunkBy.__init__`: `if not callable(container): raise LenaTypeError` -/
def rcbInit (containerCallable : Bool) : InitOut :=
  if containerCallable then .ok else .lenaTypeError

/-! ## `RunningChunkBy.run` with its container -/

/-- how `run` builds a chunk: `container(chunk)` when `container == tuple` or `from_iterable`, else
`container(*chunk)` -/
structure Container (α κ : Type) where
  ofIterable : List α → κ
  ofArgs : List α → κ
  isTuple : Bool
  fromIterable : Bool

def Container.build {α κ : Type} (c : Container α κ) (chunk : List α) : κ :=
  if c.isTuple || c.fromIterable then c.ofIterable chunk else c.ofArgs chunk

/-- the two loops of `RunningChunkBy.run` (they differ only in how the container is called) -/
def chunkLoopC {α κ : Type} (c : Container α κ) (cs : Nat) : List α → List α → List κ
  | chunk, [] => if chunk.length == cs then [c.build chunk] else []
  | chunk, v :: rest => c.build chunk :: chunkLoopC c cs (dqAppend cs chunk v) rest

def runningChunkByC {α κ : Type} (c : Container α κ) (cs : Nat) (xs : List α) : List κ :=
  chunkLoopC c cs (dqOfFlow cs (xs.take cs)) (xs.drop cs)

/-- the containers of the harness: what each makes of a chunk, as a tagged list -/
inductive Chunk where
  | tuple (xs : List Int)
  | list (xs : List Int)
  /-- a set / frozenset: its elements in ascending order -/
  | set (xs : List Int)
  deriving Repr, DecidableEq

/-- insertion into an ascending list without duplicates -/
def insertAsc (v : Int) : List Int → List Int
  | [] => [v]
  | x :: xs => if v < x then v :: x :: xs else if v = x then x :: xs else x :: insertAsc v xs

def ascOf (xs : List Int) : List Int := xs.foldr insertAsc []

def tupleContainer : Container Int Chunk := ⟨.tuple, .tuple, true, false⟩
/-- `RunningChunkBy(cs, list, from_iterable=True)` -/
def listContainer : Container Int Chunk := ⟨.list, .list, false, true⟩
/-- `RunningChunkBy(cs, lambda *a: list(a))`, a namedtuple class, … -/
def starContainer : Container Int Chunk := ⟨.list, .list, false, false⟩
/-- `RunningChunkBy(cs, frozenset, from_iterable=True)` -/
def setContainer : Container Int Chunk := ⟨fun xs => .set (ascOf xs), fun xs => .set (ascOf xs), false, true⟩

/-! ## `Chain` over one-shot iterators shared by all calls

`Chain(it0, it1, …)` keeps the iterator objects; every `__call__` builds `itertools.chain(it0, it1, …)` over the
*same* objects.  An `itertools.chain` object is at some position `p` of its tuple of iterables (`iter(it)` of an
iterator is the iterator itself); `next` takes the next value of iterable `p`, moving on while they are exhausted.
The iterators are modelled by their remaining values. -/

/-- `next` of a chain object at position `p` over the shared iterators `its`; `fuel` bounds the moves
(`its.length + 1` is enough).  Returns the value (`none` = `StopIteration`), the iterators and the position
afterwards. -/
def chainShNext {α : Type} : Nat → List (List α) → Nat → Option α × List (List α) × Nat
  | 0, its, p => (none, its, p)
  | fuel + 1, its, p =>
    match its[p]? with
    | none => (none, its, p)
    | some [] => chainShNext fuel its (p + 1)
    | some (v :: r) => (some v, its.set p r, p)

/-- the shared iterators and the positions of the chain objects created so far -/
structure ChainSh (α : Type) where
  its : List (List α)
  gens : List Nat
  deriving Repr

/-- one operation of a session on a `Chain` over shared iterators -/
def ChainSh.step {α : Type} (s : ChainSh α) : GenOp Unit → ChainSh α × Option (GenEv α)
  | .start _ => ({ s with gens := s.gens ++ [0] }, none)
  | .next i =>
    match s.gens[i]? with
    | none => (s, none)
    | some p =>
      match chainShNext (s.its.length + 1) s.its p with
      | (none, its', p') => ({ its := its', gens := s.gens.set i p' }, some (.stop i))
      | (some v, its', p') => ({ its := its', gens := s.gens.set i p' }, some (.value i v))

def ChainSh.events {α : Type} : ChainSh α → List (GenOp Unit) → List (GenEv α)
  | _, [] => []
  | s, op :: ops =>
    match (s.step op).2 with
    | none => ChainSh.events (s.step op).1 ops
    | some e => e :: ChainSh.events (s.step op).1 ops

def ChainSh.after {α : Type} : ChainSh α → List (GenOp Unit) → ChainSh α
  | s, [] => s
  | s, op :: ops => ChainSh.after (s.step op).1 ops

/-- all values of a list of events, whichever generator yielded them, in order -/
def allValues {β : Type} : List (GenEv β) → List β
  | [] => []
  | .value _ v :: es => v :: allValues es
  | .stop _ :: es => allValues es

/-! ## `fill_into` through the constructor (all call forms, `None` defaults) -/

/-- what feeding a flow to `Slice(start, stop, step).fill_into` value by value gives, the caller stopping at the first
`LenaStopFill` -/
inductive FillRun (α : Type) where
  /-- `LenaValueError` at construction -/
  | valueError
  /-- a `Slice` with a negative argument has no `fill_into` state: `AttributeError` at the first call -/
  | attributeError
  /-- the values filled and the index at which `LenaStopFill` was raised, if it was -/
  | filled (ys : List α) (stopAt : Option Nat)
  deriving Repr, DecidableEq

/-- `sl = Slice(start, stop, step)`, then `sl.fill_into(el, x)` for the values of `xs` in turn -/
def sliceFillAll {α : Type} (start stop step : Option Int) (xs : List α) : FillRun α :=
  match mkSliceInst start stop step with
  | none => .valueError
  | some c =>
    match c.kind with
    | .islice _ b s => .filled (fillAll b s c.fill 0 xs).1 (fillAll b s c.fill 0 xs).2
    | _ => .attributeError

/-- the same for a caller that goes on after `LenaStopFill`: the outcome of every call (`none`: no such object /
no `fill_into` state) -/
def sliceFillTrace {α : Type} (start stop step : Option Int) (xs : List α) : Option (List FillOut) :=
  match mkSliceInst start stop step with
  | none => none
  | some c =>
    match c.kind with
    | .islice _ b s => some (fillTrace b s c.fill xs)
    | _ => none

/-- the index at which `LenaStopFill` is raised by a `Slice` whose index iterator is at `next` while value
number `cnt` is being filled (`st` = stop): at once if nothing more is selected, else right after the last selected
index -/
def stopIdx (next cnt st step : Nat) : Nat :=
  if st ≤ next then cnt else next + ((st - next - 1) / step) * step + 1

/-! ## steps that are not integers -/

/-- the step argument as Python passes it: `None`, an `int`, or a `float` (finite or not, integral or not) -/
inductive StepArg where
  | none
  | int (i : Int)
  | float
  deriving Repr, DecidableEq

/-- `Slice.__init__` for any kind of step: `itertools.islice` accepts no float at all (non-negative branch and the
probe of the negative branch), and the negative branch rejects `step <= 0`, non-integral values and the values
`int()` cannot convert (`inf`, `nan`: notes/C17_defect_3) — every float step ends in `LenaValueError`. -/
def mkSliceStepArg (ms : Nat) (start stop : Option Int) : StepArg → SliceKind
  | .none => mkSliceMS ms start stop Option.none
  | .int i => mkSliceMS ms start stop (some i)
  | .float => .valueError

end Lena.C17
