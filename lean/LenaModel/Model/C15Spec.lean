import LenaModel.Model.C15
/-! # C15 — specification vocabulary (reference semantics)

The executable definitions the property theorems (`LenaModel/Props/C15.lean`) are stated with.  None of
them is used by the model of the code (`Model/C15.lean`): they are what the model is proved equal to.

* Part 1: `sem` — the reference semantics of a selector specification, defined on the specification alone
  (no selector objects); `semB` — its boolean form (the wording of the property); `valAt` — the sub-context
  addressed by a key; `firstError`/`beforeError` — where a `Filter` stops.
* Part 2: `polarity` — the longest-listed-prefix rule; `sel` — its recursive form; `keepV`/`keepL` — the part of
  a context selected by a predicate on key paths; `atPath`, `seen`, `AgreeOn` — what two contexts are
  compared on; `WFV` — slot vectors over one key alphabet; `Disjoint` — no path listed twice.
  `selC` / `flipWalk` — the rule the code implements for all accepted key sets (overlaps included);
  `ExtraAt` / `rejectsB` — improper nesting (what `make_include_exclude_tree` rejects); `disjointB`, `agreeOnB`,
  `wfV`, `allPathsV` — decided forms, run by the driver.
* Part 3: `groupsOf`, `groupsOfG` — the reference partitions.  `DType`, `inMro`, `abcHas`, `issubclass` — the type
  of the data and what `isinstance` means for it.  No imports except the model.

Every definition here is executed by `drivers/C15.lean` on the generated cases and compared with the
implementation or with an independent Python reference (`harness/props/c15.py`, `compare`). -/

namespace Lena.C15

/-! ### structural equality of values (needed to state anything about group keys) -/

mutual
theorem beqV_iff : ∀ a b : Val, beqV a b = true ↔ a = b
  | .leaf a, .leaf b => by simp [beqV]
  | .dict a, .dict b => by simp [beqV, beqL_iff a b]
  | .leaf _, .dict _ => by simp [beqV]
  | .dict _, .leaf _ => by simp [beqV]
theorem beqL_iff : ∀ a b : Slots, beqL a b = true ↔ a = b
  | [], [] => by simp [beqL]
  | x :: r, y :: r' => by simp [beqL, beqO_iff x y, beqL_iff r r']
  | [], _ :: _ => by simp [beqL]
  | _ :: _, [] => by simp [beqL]
theorem beqO_iff : ∀ a b : Option Val, beqO a b = true ↔ a = b
  | none, none => by simp [beqO]
  | some v, some w => by simp [beqO, beqV_iff v w]
  | none, some _ => by simp [beqO]
  | some _, none => by simp [beqO]
end

instance : DecidableEq Val := fun a b => decidable_of_iff _ (beqV_iff a b)

deriving instance DecidableEq for Item

/-! ## Part 1 — selectors -/

section Sem
variable (names : List String)

/-- the sub-context addressed by a list of keys: descend through dictionaries; absent (`none`) as
soon as a key is missing or a scalar is met where a dictionary is expected -/
def valAt : Val → List String → Option Val
  | v, [] => some v
  | .dict l, k :: rest =>
    match lookupKey names l k with
    | none => none
    | some w => valAt w rest
  | .leaf _, _ :: _ => none

def Res.isOk : Res → Bool
  | .ok _ => true
  | .raise _ => false

/-- **the reference semantics of `SelectContext(key, p, raise_on_error=r)`**: the key names a sub-context
(`valAt`); absent → `False` (the predicate is not applied); present → the predicate applied to it, an
exception absorbed iff `r` is `False`.  A malformed key (a dictionary with several keys at a level, a list
with an item that is no string) raises whatever `r` is. -/
def selCtxSem (k : KeyArg) (p : Val → Res) (r : Bool) (v : Item) : Res :=
  match k.resolve with
  | .keys ks =>
    match valAt names (.dict (v.context names.length)) ks with
    | none => .ok false
    | some sub => absorb r (p sub)
  | .never => .ok false
  | .valueError => .raise "LenaValueError"
  | .typeError => .raise "LenaTypeError"

/-- short-circuit OR of outcomes, left to right: the first outcome that is not `False` decides
(`True`, or the exception, which propagates) -/
def orRes : List Res → Res
  | [] => .ok false
  | .ok false :: rest => orRes rest
  | r :: _ => r

/-- short-circuit AND -/
def andRes : List Res → Res
  | [] => .ok true
  | .ok true :: rest => andRes rest
  | r :: _ => r

/-! The reference semantics of a specification: `sem r s v` is the outcome of the selector the
specification `s` denotes where a selector is expected and `raise_on_error = r` is inherited
(an item of a list or tuple, the argument of `Filter`), on the value `v`.  It is defined on the
specification alone: no selector objects. -/
mutual
def sem (r : Bool) : Spec → Item → Res
  | .str s, v => .ok (contains names (v.context names.length) s)       -- a string tests the context
  | .cls c, v => .ok (isinstance v.data c)                              -- a class tests the data
  | .fn f, v => absorb r (f v)                                          -- a callable is applied
  | .list l, v => absorb r (semAny r l v)                               -- a list is OR
  | .tuple l, v => absorb r (semAll r l v)                              -- a tuple is AND
  | .notI s r', v => neg (absorb r' (sem r' s v))                       -- Not negates
  | .selI s r', v => absorb r' (sem r' s v)
  | .andI l r', v => semAll r' l v
  | .orI l r', v => semAny r' l v
  | .selCtx k p r', v => selCtxSem names k p r' v
  | .bad, _ => .raise "LenaTypeError"                                   -- never constructed
def semAny (r : Bool) : List Spec → Item → Res
  | [], _ => .ok false
  | s :: rest, v =>
    match pep479 (sem r s v) with
    | .ok false => semAny r rest v
    | x => x
def semAll (r : Bool) : List Spec → Item → Res
  | [], _ => .ok true
  | s :: rest, v =>
    match pep479 (sem r s v) with
    | .ok true => semAll r rest v
    | x => x
end

/-! some item of the specification is neither a class, a callable, a string, a list nor a tuple -/
mutual
def Spec.hasBad : Spec → Bool
  | .bad => true
  | .list l | .tuple l | .andI l _ | .orI l _ => hasBadL l
  | .notI s _ | .selI s _ => s.hasBad
  | _ => false
def hasBadL : List Spec → Bool
  | [] => false
  | s :: rest => s.hasBad || hasBadL rest
end

/-! ### the boolean semantics: what the property's first sentence says

`semB s v`: a string tests the context with `contains`, a class tests the type of the data, a
callable is applied (selected iff it returns `True`: an exception counts as not selected), a list is
OR, a tuple is AND, `Not` negates, `SelectContext` applies its predicate to the addressed
sub-context and is `False` when that is absent. -/
mutual
def semB : Spec → Item → Bool
  | .str s, v => contains names (v.context names.length) s
  | .cls c, v => isinstance v.data c
  | .fn f, v => decide (f v = .ok true)
  | .list l, v => semBAny l v
  | .tuple l, v => semBAll l v
  | .notI s _, v => !semB s v
  | .selI s _, v => semB s v
  | .andI l _, v => semBAll l v
  | .orI l _, v => semBAny l v
  | .selCtx k p _, v => decide (selCtxSem names k p false v = .ok true)
  | .bad, _ => false
def semBAny : List Spec → Item → Bool
  | [], _ => false
  | s :: rest, v => semB s v || semBAny rest v
def semBAll : List Spec → Item → Bool
  | [], _ => true
  | s :: rest, v => semB s v && semBAll rest v
end

/-! every selector instance inside the specification was built with `raise_on_error = b` -/
mutual
def Spec.allRoe (b : Bool) : Spec → Bool
  | .notI s r | .selI s r => (r == b) && s.allRoe b
  | .andI l r | .orI l r => (r == b) && allRoeL b l
  | .selCtx _ _ r => r == b
  | .list l | .tuple l => allRoeL b l
  | _ => true
def allRoeL (b : Bool) : List Spec → Bool
  | [] => true
  | s :: rest => s.allRoe b && allRoeL b rest
end

/-! every leaf of the specification (callable, `SelectContext` predicate) returns a boolean on `v` -/
mutual
def Spec.totalOn (v : Item) : Spec → Bool
  | .fn f => match f v with | .ok _ => true | .raise _ => false
  | .selCtx k p _ => (selCtxSem names k p true v).isOk
  | .notI s _ | .selI s _ => s.totalOn v
  | .andI l _ | .orI l _ | .list l | .tuple l => totalOnL v l
  | _ => true
def totalOnL (v : Item) : List Spec → Bool
  | [] => true
  | s :: rest => s.totalOn v && totalOnL v rest
end

/-! every `SelectContext` key inside the specification is well formed: a string, a list of strings or a
dictionary with one key at each level -/
mutual
def Spec.keysOk : Spec → Bool
  | .selCtx k _ _ => match k.resolve with | .valueError => false | .typeError => false | _ => true
  | .notI s _ | .selI s _ => s.keysOk
  | .andI l _ | .orI l _ | .list l | .tuple l => keysOkL l
  | _ => true
def keysOkL : List Spec → Bool
  | [] => true
  | s :: rest => s.keysOk && keysOkL rest
end

/-- the test of the last level of `contains`: a key of the dictionary found, or the `str()` of the scalar
found; `False` when nothing is found -/
def containsLast (last : String) : Option Val → Bool
  | none => false
  | some (.dict l) => (lookupKey names l last).isSome
  | some (.leaf a) => pyStr a == last

/-- the error raised by the first value (if any) on which the selector raises -/
def firstError (o : Obj) : List Item → Option String
  | [] => none
  | v :: rest =>
    match call names o v with
    | .raise e => some (pep479e e)         -- raised inside a generator: `StopIteration` arrives as `RuntimeError`
    | .ok _ => firstError o rest

/-- the exception of the first value on which the selector raises, as raised (no generator in between) -/
def firstRaise (o : Obj) : List Item → Option String
  | [] => none
  | v :: rest =>
    match call names o v with
    | .raise e => some e
    | .ok _ => firstRaise o rest

/-- the values before the first one on which the selector raises -/
def beforeError (o : Obj) (vs : List Item) : List Item := vs.takeWhile (fun v => (call names o v).isOk)

end Sem

/-! ## Part 2 — include/exclude trees -/

/-- no path is listed in both lists -/
def Disjoint (I E : List Path) : Prop := ∀ p, p ∈ I → p ∈ E → False

/-- every sub-key of the listed keys belongs to the key alphabet `names`: only then do the index paths of
`splitKeys` stand for the dotted strings (every unknown sub-key becomes the one index `names.length`) -/
def KeysKnown (names : List String) (keys : List String) : Prop :=
  ∀ key ∈ keys, key ≠ "" → ∀ sk ∈ splitDots key, sk ∈ names

/-- the non-empty prefixes `p[:n]`, `n = len(p), …, 1` of a path: longest first -/
def prefixesDesc (p : Path) : List Path := (List.range p.length).reverse.map (fun n => p.take (n + 1))

/-- **the longest-prefix rule**: is the longest prefix of `p` listed in `I` (include / `group_by`) or `E`
(exclude / `merge`) an `I` entry?  The root `""` is a prefix of every path: `d` says whether it is listed
in `I` (`true`) or in `E` (`false`). -/
def polarity (I E : List Path) (d : Bool) (p : Path) : Bool :=
  match (prefixesDesc p).find? (fun q => decide (q ∈ I ∨ q ∈ E)) with
  | some q => decide (q ∈ I)
  | none => d

/-- the same rule, by recursion along the path: after the key `k` the listed paths are the tails of
those that start with `k`, and the default becomes the polarity of `[k]` if that is listed -/
def sel (I E : List Path) (d : Bool) : Path → Bool
  | [] => d
  | k :: p => sel (tailsNE k I) (tailsNE k E) (if [k] ∈ I then true else if [k] ∈ E then false else d) p

/-! `keepV pol v`, `keepL pol k l`: the part of a context selected by a predicate `pol` on key paths
(paths relative to the value; `k` = index of the first slot of `l`).  A scalar is kept iff its path
is selected; a dictionary is kept iff something below it is kept or its own path is selected. -/
mutual
def keepV (pol : Path → Bool) : Val → Option Val
  | .leaf a => if pol [] then some (.leaf a) else none
  | .dict l =>
    let r := keepL pol 0 l
    if nonEmpty r || pol [] then some (.dict r) else none
def keepL (pol : Path → Bool) : Nat → Slots → Slots
  | _, [] => []
  | k, none :: r => none :: keepL pol (k + 1) r
  | k, some v :: r => keepV (fun p => pol (k :: p)) v :: keepL pol (k + 1) r
end

example : polarity [[0, 1]] [[0], [0, 1, 2]] true [0, 1, 5] = true := by decide

example : polarity [[0, 1]] [[0], [0, 1, 2]] true [0, 1, 2, 7] = false := by decide

example : polarity [[0, 1]] [[0], [0, 1, 2]] true [3] = true := by decide

/-- the value at a key path (slot indices) -/
def atPath : Val → Path → Option Val
  | v, [] => some v
  | .dict l, k :: p =>
    match slotGet l k with
    | none => none
    | some w => atPath w p
  | .leaf _, _ :: _ => none

/-- what is seen at a key path of a context: nothing, a scalar (which one), or a dictionary -/
inductive Seen where
  | absent
  | leaf (a : Leaf)
  | dict
  deriving DecidableEq, Repr

def seenOf : Option Val → Seen
  | none => .absent
  | some (.leaf a) => .leaf a
  | some (.dict _) => .dict

def seen (c : Val) (p : Path) : Seen := seenOf (atPath c p)

/-! every dictionary, at every depth, has exactly `n` slots (DESIGN.md section 2): on such values
structural equality is Python's `==` of dictionaries -/
mutual
def WFV (n : Nat) : Val → Prop
  | .leaf _ => True
  | .dict l => l.length = n ∧ WFL n l
def WFL (n : Nat) : Slots → Prop
  | [] => True
  | none :: r => WFL n r
  | some v :: r => WFV n v ∧ WFL n r
end

/-- two contexts agree on every key path selected by `pol`: the same thing is seen there (nothing, the
same scalar, or a dictionary) -/
def AgreeOn (pol : Path → Bool) (c1 c2 : Val) : Prop := ∀ p, pol p = true → seen c1 p = seen c2 p

/-- `q` is the longest non-root prefix of `p` that is listed in `I` or `E` -/
def IsLongestListed (I E : List Path) (p q : Path) : Prop :=
  q ≠ [] ∧ q <+: p ∧ (q ∈ I ∨ q ∈ E) ∧ ∀ q', q' ≠ [] → q' <+: p → (q' ∈ I ∨ q' ∈ E) → q'.length ≤ q.length

/-! ### the rule for all accepted key sets, rejection, and decided forms of the predicates -/

/-- the list whose polarity is opposite to `c` -/
def oppOf (I E : List Path) (c : Bool) : List Path := if c then E else I

/-- the list whose polarity is `c` -/
def sameOf (I E : List Path) (c : Bool) : List Path := if c then I else E

/-- **the rule the code implements, for every accepted key set** (overlapping ones included): walking
down a path, the current polarity (starting with that of the root) flips at a key path exactly when that
path is listed in the list *opposite* to the current polarity -/
def selC (I E : List Path) (d : Bool) : Path → Bool
  | [] => d
  | k :: p => selC (tailsNE k I) (tailsNE k E) (if [k] ∈ oppOf I E d then !d else d) p

/-- the non-empty prefixes of a path, shortest first -/
def prefixesAsc (p : Path) : List Path := (List.range p.length).map (fun n => p.take (n + 1))

/-- `selC` without recursion on the key sets: a left fold over the prefixes, shortest first -/
def flipWalk (I E : List Path) (d : Bool) (p : Path) : Bool :=
  (prefixesAsc p).foldl (fun c q => if q ∈ oppOf I E c then !c else c) d

/-- **improper nesting** at the key path `pre ++ [k]`: some listed path through it is in the list of the
polarity that holds at `pre` anyway, and no listed path through it is in the opposite list ("include/exclude
keys should be strictly within exclude/include keys") -/
def ExtraAt (I E : List Path) (d : Bool) (pre : Path) (k : Nat) : Prop :=
  (∃ t, pre ++ k :: t ∈ sameOf I E (selC I E d pre)) ∧ ∀ t, pre ++ k :: t ∉ oppOf I E (selC I E d pre)

/-- `ExtraAt`, decided: the candidates `pre ++ [k]` are the non-empty prefixes of the listed paths -/
def rejectsB (I E : List Path) (d : Bool) : Bool :=
  ((I ++ E).flatMap prefixesAsc).any (fun q =>
    let c := selC I E d q.dropLast
    (sameOf I E c).any (fun p => q.isPrefixOf p) && !(oppOf I E c).any (fun p => q.isPrefixOf p))

def disjointB (I E : List Path) : Bool := I.all (fun p => !E.contains p)

/-! all key paths present in a value (the root `[]` included), and in a slot vector from index `k` on -/
mutual
def allPathsV : Val → List Path
  | .leaf _ => [[]]
  | .dict l => [] :: allPathsL 0 l
def allPathsL : Nat → Slots → List Path
  | _, [] => []
  | k, none :: r => allPathsL (k + 1) r
  | k, some v :: r => (allPathsV v).map (k :: ·) ++ allPathsL (k + 1) r
end

/-- `AgreeOn`, decided: it suffices to look at the paths present in one of the two contexts -/
def agreeOnB (pol : Path → Bool) (c1 c2 : Val) : Bool :=
  (allPathsV c1 ++ allPathsV c2).all (fun p => !pol p || decide (seen c1 p = seen c2 p))

/-! `WFV`, decided -/
mutual
def wfV (n : Nat) : Val → Bool
  | .leaf _ => true
  | .dict l => decide (l.length = n) && wfL n l
def wfL (n : Nat) : Slots → Bool
  | [] => true
  | none :: r => wfL n r
  | some v :: r => wfV n v && wfL n r
end

/-! ## Part 3 — `GroupBy` -/

/-- the dictionary of groups after the values `xs` were filled: one entry per distinct key, in the order of
first arrival, holding the values with that key in arrival order -/
def groupsOf (key : Item → Slots) (xs : List Item) : Groups :=
  ((xs.map key).eraseDups).map (fun k => (k, xs.filter (fun v => key v = k)))

/-- the key sets `GroupBy.__init__(group_by, merge)` passes to `make_include_exclude_tree` as
`(includes, excludes)`: strings become 1-tuples; the default arguments `("", "")` mean "one group" -/
def gbArgs (g m : StrOrTuple) : List String × List String :=
  if g = .str "" ∧ m = .str "" then ([], [""]) else (g.toList, m.toList)

/-- the context of a value is well formed over an alphabet of `n` keys -/
def Item.WF (n : Nat) (v : Item) : Prop := WFV n (.dict (v.context n))

/-- the reference partition for any key type -/
def groupsOfG {K : Type} [DecidableEq K] (key : Item → K) (xs : List Item) : List (K × List Item) :=
  ((xs.map key).eraseDups).map (fun k => (k, xs.filter (fun v => key v = k)))

/-! ## the type of the data (what a class selector tests) -/

/-- `type(data)`: the concrete class of the data of a value -/
inductive DType where
  | noneType | bool | int | str | tuple
  | other (t : PyType)
  deriving DecidableEq, Repr

def Data.dtype : Data → DType
  | .none => .noneType
  | .bool _ => .bool
  | .int _ => .int
  | .str _ => .str
  | .tuple => .tuple
  | .other t => .other t

/-- `cls in type(data).__mro__`: inheritance alone (`bool < int`, `MyInt < int`, `Str < str`, `UserSub < User`,
a named tuple `< tuple`, everything `< object`) -/
def inMro : DType → PyClass → Bool
  | _, .object => true
  | .noneType, .noneType => true
  | .bool, .bool => true
  | .bool, .int => true
  | .int, .int => true
  | .str, .str => true
  | .tuple, .tuple => true
  | .other .float, .float => true
  | .other .dict, .dict => true
  | .other .list, .list => true
  | .other .intSub, .intSub => true
  | .other .intSub, .int => true
  | .other .strSub, .strSub => true
  | .other .strSub, .str => true
  | .other .user, .user => true
  | .other .userSub, .userSub => true
  | .other .userSub, .user => true
  | .other .namedTuple, .tuple => true
  | _, _ => false

/-- the concrete classes an abstract base class recognises without inheritance: `numbers.Number` (`int`, `float`
registered; `Fraction` through `Rational`), `numbers.Integral` (`int`), `collections.abc.Mapping` (`dict`),
`Sequence` (`str`, `tuple`, `list`), `Hashable` (`__subclasshook__`: a class with a `__hash__`: not `dict`, `list`);
subclasses of a recognised class are recognised -/
def abcHas : PyClass → DType → Bool
  | .number, t => t = .bool || t = .int || t = .other .intSub || t = .other .float || t = .other .fraction
  | .integral, t => t = .bool || t = .int || t = .other .intSub
  | .mapping, t => t = .other .dict
  | .sequence, t => t = .str || t = .other .strSub || t = .tuple || t = .other .namedTuple || t = .other .list
  | .hashable, t => !(t = .other .dict || t = .other .list)
  | _, _ => false

/-- `issubclass(type(data), cls)`: by inheritance or through an abstract base class -/
def issubclass (t : DType) (c : PyClass) : Bool := inMro t c || abcHas c t

end Lena.C15
