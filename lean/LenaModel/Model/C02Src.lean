import LenaModel.Model.C02
/-! # C02 model, part 2 — where the flow comes from: chained iterables and Sources inside a `Split`

`Model/C02.lean` runs a pipeline over ONE instrumented input.  lena has two more places where a flow is
*produced* rather than transformed, and both must be as lazy as the elements:

* `Chain(it_1, …, it_p).__call__` (flow/iterators.py:35-38: `for val in itertools.chain(*iterables): yield
  val`), used as the first element of a `Source`; `Split.__call__` of a `Split` that contains only
  `Source`s (core/split.py:266-283: `for seq in self._seqs: for result in seq(): yield result`) is the
  same loop.                                                                      → `chainSrc`
* a `Source` among the sequences of a `Split` that transforms a flow: `Split.run`
  (core/split.py:368-374 and 399-404) does `for val in seq(): yield val` at the place of that
  sequence in the first block (or in the final pass if the flow was empty).      → `spliceG`

Every iterable involved is an *instrumented generator* of the harness; they all advance the ONE clock
of the case (one tick per value produced, one tick for the resumption that finds the generator
exhausted), so the clock says WHEN a value of a `Source` was produced relative to everything else.

`Split.run` with instrumented `Source`s among its sequences is modelled as the composition

    splicePipe mark srcs ((Stage.split σb brs bufsize copyBuf).run p)

where the branch of `Source` number `j` in `brs` is `srcOps [m_j]` with a *marker* value `m_j`
(`mark m_j = some j`): the machine `splitG` of `Model/C02.lean` decides at which place of which block
(at which clock of its input) the `Source` is reached, and `spliceG` runs the loop `for val in seq():
yield val` there — one pull from the generator of the `Source` per value handed downstream, nothing in
advance.  `CountFrom(start, step).__call__` (`for val in itertools.count(start, step): yield val`) is
`Pipe.ofFn` of `Model/C02.lean`: `itertools.count` computes `value + step` once per `next`.

Imports only `LenaModel.Model.*`; executed by `drivers/C02.lean`. -/

namespace Lena.C02

section generic
variable {σ α : Type}

/-! ## a chain of instrumented iterables as the input -/

/-- state of `itertools.chain(it_1, …, it_p)` over instrumented generators: the iterables not yet
exhausted, each as the list of values it still has to produce (the first one is the active one); an
optional infinite last iterable `f 0, f 1, …` with the number of values it has produced; the clock -/
structure ChainSt (α : Type) where
  parts : List (List α)
  tail : Option (Nat → α)
  idx : Nat
  clock : Nat

/-- one iteration of `chain.__next__`: ask the active iterable; if it is exhausted (one resumption
of its generator: a tick) go on to the next one; without any iterable left: `StopIteration` (no
generator is resumed: no tick, and it stays that way) -/
def chainStep : ChainSt α → Step (ChainSt α) α
  | s =>
    match s.parts with
    | (a :: r) :: ps => .yield a { s with parts := r :: ps, clock := s.clock + 1 }
    | [] :: ps => .cont { s with parts := ps, clock := s.clock + 1 }
    | [] =>
      match s.tail with
      | some f => .yield (f s.idx) { s with idx := s.idx + 1, clock := s.clock + 1 }
      | none => .stop s

/-- `Chain(*iterables).__call__()` / `Split([Source(it_1), …]).__call__()` -/
def chainSrc : Gen (ChainSt α) α := ofStep (fun _ => chainStep)

/-- what is chained: finite iterables, then possibly an infinite one -/
structure Head (α : Type) where
  parts : List (List α)
  tail : Option (Nat → α) := none

def Pipe.ofHead (h : Head α) : Pipe α :=
  { σ := ChainSt α, gen := chainSrc, st := { parts := h.parts, tail := h.tail, idx := 0, clock := 0 },
    clock := ChainSt.clock }

/-- the infinite iterable cut after `n` values -/
def Head.trunc (n : Nat) (h : Head α) : List (List α) :=
  match h.tail with
  | none => h.parts
  | some f => h.parts ++ [prefixOf f n]

/-- the stamped flow of a chain started at clock `c`: iterable after iterable, each exhausted one
costs one more pull -/
def chainStamps : List (List α) → Nat → List (α × Nat)
  | [], _ => []
  | xs :: ps, c => stamps xs c ++ chainStamps ps (c + xs.length + 1)

def chainEnd : List (List α) → Nat → Nat
  | [], c => c
  | xs :: ps, c => chainEnd ps (c + xs.length + 1)

def SF.ofChain (parts : List (List α)) : SF α :=
  { c0 := 0, vals := chainStamps parts 0, cf := chainEnd parts 0 }

/-! ## `Source`s among the sequences of a `Split` -/

/-- the flow of a `Source` inside a `Split`: an instrumented generator, finite or infinite -/
inductive BSrc (α : Type) where
  | fin (xs : List α)
  | inf (f : Nat → α)

/-- the loop `for val in seq(): yield val` of `Split.run`: not inside it / inside it, with what the
generator `seq()` still has to produce -/
inductive BCur (α : Type) where
  | none
  | fin (rest : List α)
  | inf (f : Nat → α) (i : Nat)

/-- `seq()`: the generator is made, nothing runs -/
def BSrc.start : BSrc α → BCur α
  | .fin xs => .fin xs
  | .inf f => .inf f 0

/-- local state: the loop over the `Source` being iterated, and the resumptions of generators of
`Source`s so far (they advance the clock of the case) -/
structure SpSt (α : Type) where
  cur : BCur α
  ticks : Nat

/-- one iteration: inside `for val in seq(): yield val` resume the generator of the `Source` (a tick):
a value is yielded at once; if it is exhausted the loop is left.  Outside, take the next result of
`Split.run` proper: the marker of `Source` `j` means that `seq()` is reached now. -/
def spliceStep (mark : α → Option Nat) (srcs : Nat → BSrc α) (up : Gen σ α) (fu : Nat) :
    σ × SpSt α → Step (σ × SpSt α) α
  | (s, l) =>
    match l.cur with
    | .fin (a :: r) => .yield a (s, { cur := .fin r, ticks := l.ticks + 1 })
    | .fin [] => .cont (s, { cur := .none, ticks := l.ticks + 1 })
    | .inf f i => .yield (f i) (s, { cur := .inf f (i + 1), ticks := l.ticks + 1 })
    | .none =>
      match up.next fu s with
      | .item a s' =>
        match mark a with
        | some j => .cont (s', { l with cur := (srcs j).start })
        | none => .yield a (s', l)
      | .done s' => .stop (s', l)
      | .fuel => .fuel
      | .error e => .error e

def spliceG (mark : α → Option Nat) (srcs : Nat → BSrc α) (up : Gen σ α) : Gen (σ × SpSt α) α :=
  ofStep (spliceStep mark srcs up)

/-- the iterator object; its clock is the clock of the input plus the ticks of the `Source`s -/
def splicePipe (mark : α → Option Nat) (srcs : Nat → BSrc α) (p : Pipe α) : Pipe α :=
  { σ := p.σ × SpSt α, gen := spliceG mark srcs p.gen, st := (p.st, { cur := .none, ticks := 0 }),
    clock := fun s => p.clock s.1 + s.2.ticks }

/-- the values of a `Source` as far as a specification can list them -/
def BSrc.list : BSrc α → List α
  | .fin xs => xs
  | .inf _ => []

def BSrc.trunc (n : Nat) : BSrc α → BSrc α
  | .fin xs => .fin xs
  | .inf f => .fin (prefixOf f n)

/-- specification: `t` ticks of `Source`s so far.  A value of `Split.run` proper is handed over at its
stamp, later by `t`; at the marker of `Source` `j` its values are handed over one per pull from it
(`stamps`), and its end costs one more pull. -/
def spliceVals (mark : α → Option Nat) (srcs : Nat → BSrc α) : Nat → List (α × Nat) → List (α × Nat)
  | _, [] => []
  | t, (a, c) :: r =>
    match mark a with
    | none => (a, c + t) :: spliceVals mark srcs t r
    | some j => stamps (srcs j).list (c + t) ++ spliceVals mark srcs (t + (srcs j).list.length + 1) r

/-- all the ticks of the `Source`s reached in `vals` -/
def spliceTicks (mark : α → Option Nat) (srcs : Nat → BSrc α) : List (α × Nat) → Nat
  | [] => 0
  | (a, _) :: r =>
    (match mark a with
     | none => 0
     | some j => (srcs j).list.length + 1) + spliceTicks mark srcs r

def spliceSpec (mark : α → Option Nat) (srcs : Nat → BSrc α) (sf : SF α) : SF α :=
  { c0 := sf.c0, vals := spliceVals mark srcs 0 sf.vals, cf := sf.cf + spliceTicks mark srcs sf.vals }

/-- list semantics: every marker is replaced by the flow of its `Source` -/
def spliceDen (mark : α → Option Nat) (srcs : Nat → BSrc α) : List α → List α
  | [] => []
  | a :: r =>
    match mark a with
    | none => a :: spliceDen mark srcs r
    | some j => (srcs j).list ++ spliceDen mark srcs r

/-! ## pipelines with `Source`s inside -/

/-- an element of a pipeline: a streaming element of `Model/C02.lean`, or the iteration of the
`Source`s of the `Split` before it -/
inductive XStage (α : Type) : Type 1 where
  | plain (st : Stage α)
  | splice (mark : α → Option Nat) (srcs : Nat → BSrc α)

def XStage.run : XStage α → Pipe α → Pipe α
  | .plain st, p => st.run p
  | .splice mark srcs, p => splicePipe mark srcs p

def XStage.spec : XStage α → SF α → SF α
  | .plain st => st.spec
  | .splice mark srcs => spliceSpec mark srcs

def XStage.den : XStage α → List α → List α
  | .plain st, xs => st.den xs
  | .splice mark srcs, xs => spliceDen mark srcs xs

/-- every infinite `Source` cut after `n` values -/
def XStage.trunc (n : Nat) : XStage α → XStage α
  | .plain st => .plain st
  | .splice mark srcs => .splice mark (fun j => (srcs j).trunc n)

def xseqRun (els : List (XStage α)) (p : Pipe α) : Pipe α := els.foldl (fun fl el => el.run fl) p

def xseqSpec (els : List (XStage α)) (sf : SF α) : SF α := els.foldl (fun s el => el.spec s) sf

def xseqDen (els : List (XStage α)) (xs : List α) : List α := els.foldl (fun ys el => el.den ys) xs

/-- executable forms of the hypotheses of the theorems -/
def XStage.wfb : XStage α → Bool
  | .plain st => st.wfb
  | .splice _ _ => true

def XStage.fuelOKb (e : XStage α) (sf : SF α) (fu : Nat) : Bool :=
  match e with
  | .plain st => st.fuelOKb sf fu
  | .splice _ _ => decide (2 * sf.vals.length + 3 ≤ fu)

def xseqFuelOKb : List (XStage α) → SF α → Nat → Bool
  | [], _, _ => true
  | e :: es, sf, fu => e.fuelOKb sf fu && xseqFuelOKb es (e.spec sf) fu

/-- a `Source` buffers nothing -/
def XStage.cap : XStage α → Option Nat
  | .plain st => st.cap
  | .splice _ _ => some 0

def xseqCap : List (XStage α) → Option Nat
  | [] => some 0
  | e :: es => match e.cap, xseqCap es with
    | some a, some b => some (a + b)
    | _, _ => none

end generic

/-! ## the vocabulary of the harness -/

/-- the key of the context entry that makes a value the marker of a `Source` (no value of the harness
has it) -/
def markKey : String := "\u0000source"

/-- the marker standing for `Source` number `j` in the results of `Split.run` proper -/
def markerV (j : Nat) : V := { d := 0, ctx := [(markKey, (j : Int))] }

def markV (v : V) : Option Nat :=
  match v.ctx with
  | [(k, j)] => if k = markKey then some j.toNat else none
  | _ => none

end Lena.C02
