import LenaModel.Model.C04
/-! # C04 — specification-side definitions

The definitions that the *statements* of the theorems in `Props/C04.lean` mention besides the transcribed
model: which objects an event hands out (`handCells`, `Disj`), the run of one branch alone (`preload`,
`aloneStep`, `aloneLife`, `aloneTrace`, `aloneFill`, `aloneFillLife`, the schedules `SchedOK`, `FillOK`),
locality (`foot`, `Local`; with the fine footprint `footF`, `LocalF`), freshness (`InRange`, `FreshYield`; for
objects with several namespaces `FreshYieldG`, `FilledOld`), histories of an accumulator (`HOp`, `runHist`,
`fillAll`) and the purpose clause (`RefsBelow`, `Tidy`, `runHistS`, `stripExt`, `Downstream`).  They are not transcriptions of lena; they live in a `Model` file (no proofs, no
imports except the model) so that `drivers/C04.lean` can execute them on the generated cases:
the harness compares `aloneTrace` with the real branch run alone, `Disj`/`handCells` and the copy flags with
probes in the real run, `runHist`/`fillAll` with the step-by-step execution, checks the instances of
`Local` (`refs_sub`, `frame`; not `det`) and `FreshYield` on every invocation it performs, and evaluates
`SchedOK`/`FillOK` (through the tests `schedOKb`/`fillOKb`, proved equivalent in `Lemmas/C04Hist.lean`) on the
schedules read off the `hand` events.  `Downstream`, `Tidy`, `FreshYieldG` are not executed (they quantify over all
heaps / states); their non-vacuity is shown by `example`s in `Props/C04.lean`. -/

namespace Lena.C04

open Lena.C03 (Kind readBlock)
open Lena.Flow (Value)

variable {σ S C : Type}

/-- the objects allocated by a copy that started at counter `lo` and is now at `hi` -/
def InRange (ns lo hi : Nat) (t : Tok) : Prop := t.1 = ns ∧ lo ≤ t.2 ∧ t.2 < hi

/-- the objects of the buffer bound for a branch -/
def handCells : Ev S C → List Tok
  | .hand _ buf _ => cellsOf buf
  | _ => []

/-- no common object -/
def Disj (a b : List Tok) : Prop := ∀ t, t ∈ a → t ∉ b

/-- the methods of an accumulator -/
def Req.isAcc : Req S → Bool
  | .fill _ => true
  | .compute => true
  | .request => true
  | _ => false

/-- an accumulator allocates what it yields: `ctr` is its allocation counter in namespace `ns` -/
structure FreshYield (ops : Ops σ S C) (ns : Nat) (ctr : σ → Nat) : Prop where
  mono : ∀ st s r, ctr s ≤ ctr (ops.act st s r).2.1
  fresh : ∀ st s (r : Req S), r.isAcc = true → ∀ t ∈ cellsOf (ops.act st s r).2.2.outs,
    InRange ns (ctr s) (ctr (ops.act st s r).2.1) t
  nodup : ∀ st s (r : Req S), r.isAcc = true → (cellsOf (ops.act st s r).2.2.outs).Nodup

/-- one step of a history: a method invocation, anything the rest of the program does to the heap, or a change
of the private state of the accumulator that allocates nothing (`reset()`) -/
inductive HOp (σ S C : Type) where
  | req (r : Req S)
  | ext (f : Store C → Store C)
  | upd (g : σ → σ)

/-- what was observed of an invocation: the allocation counter before it, the request, the response -/
structure HEv (S : Type) where
  ctr : Nat
  req : Req S
  resp : Resp S

def runHist (ops : Ops σ S C) (ctr : σ → Nat) : Store C → σ → List (HOp σ S C) → List (HEv S)
  | _, _, [] => []
  | st, s, .ext f :: h => runHist ops ctr (f st) s h
  | st, s, .upd g :: h => runHist ops ctr st (g s) h
  | st, s, .req r :: h =>
    let a := ops.act st s r
    ⟨ctr s, r, a.2.2⟩ :: runHist ops ctr a.1 a.2.1 h

/-- the objects an invocation may read or write: the objects of the branch's own namespace, the
objects its state refers to, the objects it is passed -/
def foot (ns : Nat) (refs cells : List Tok) (t : Tok) : Prop := t.1 = ns ∨ t ∈ refs ∨ t ∈ cells

/-- **Locality of mutation** (the assumption of the trusted base, DESIGN.md section 2, as a
hypothesis on a branch object that allocates in namespace `ns`): an invocation
* refers afterwards, and yields values that refer, only to objects of its footprint,
* leaves every object outside its footprint unchanged,
* behaves identically on two heaps that agree on its footprint. -/
structure Local (ops : Ops σ S C) (ns : Nat) : Prop where
  refs_sub : ∀ st s (r : Req S) t,
    (t ∈ ops.refs (ops.act st s r).2.1 ∨ t ∈ cellsOf (ops.act st s r).2.2.outs) → foot ns (ops.refs s) r.cells t
  frame : ∀ st s (r : Req S) t, ¬ foot ns (ops.refs s) r.cells t → (ops.act st s r).1 t = st t
  det : ∀ st₁ st₂ s (r : Req S), (∀ t, foot ns (ops.refs s) r.cells t → st₁ t = st₂ t) →
    (ops.act st₁ s r).2 = (ops.act st₂ s r).2 ∧
    ∀ t, foot ns (ops.refs s) r.cells t → (ops.act st₁ s r).1 t = (ops.act st₂ s r).1 t

/-- the heap in which the objects of `buf` hold what the corresponding objects of `blk` hold in `st0`
(a private deep copy of `blk` as it was at the start) -/
def preload (st0 : Store C) (blk buf : List (Item S)) (st : Store C) : Store C :=
  fun t => match ((cellsOf buf).zip (cellsOf blk)).lookup t with
    | some s => st0 s
    | none => st t

/-- one step of the branch alone: it is handed `buf`; if that is a copy, its objects hold the contents
that the block `blk` had at the start -/
def aloneStep (st0 : Store C) (blk buf : List (Item S)) (copied : Bool) (stA : Store C) (b : Branch σ S C) :
    StepRes σ S C :=
  let r := stepBranch buf (if copied then preload st0 blk buf stA else stA) b
  ⟨.hand b.id buf copied :: r.evs, r.st, r.br⟩

/-- the life of a branch alone: for the successive blocks of the flow it is handed the buffers of the
schedule (`(block, buffer, copied)`), each holding the contents that the block had at the start -/
def aloneLife (st0 : Store C) : Store C → Option (Branch σ S C) → List (List (Item S) × List (Item S) × Bool) →
    List (Ev S C) × Store C × Option (Branch σ S C)
  | st, none, _ => ([], st, none)
  | st, some b, [] => ([], st, some b)
  | st, some b, e :: rest =>
    let a := aloneStep st0 e.1 e.2.1 e.2.2 st b
    let q := aloneLife st0 a.st a.br rest
    (a.evs ++ q.1, q.2)

/-- a schedule entry for branch `i`: the buffer is a deep copy of the block made of objects created for `i`,
or the block itself -/
def SchedOK (i : Nat) (e : List (Item S) × List (Item S) × Bool) : Prop :=
  e.2.1.map (·.skel) = e.1.map (·.skel) ∧ (e.2.2 = false → e.2.1 = e.1) ∧
  (e.2.2 = true → ∀ t ∈ cellsOf e.2.1, t.1 = copyNsOf i)

/-- the complete trace of branch `b` run alone on the schedule -/
def aloneTrace (st0 : Store C) (b : Branch σ S C) (sched : List (List (Item S) × List (Item S) × Bool))
    (fwe : Bool) : List (Ev S C) :=
  (aloneLife st0 st0 (some b) sched).1 ++
    (match (aloneLife st0 st0 (some b) sched).2.2 with
      | none => []
      | some b1 => (finalPass fwe (aloneLife st0 st0 (some b) sched).2.1 [b1]).1)

/-- one `fill` of the branch alone: it is handed `y`; if that is a copy, its objects hold what the
objects of `x` held at the start -/
def aloneFill (st0 : Store C) (x y : Item S) (copied : Bool) (stA : Store C) (b : Branch σ S C) :
    List (Ev S C) × Store C × Branch σ S C × Bool :=
  ([.hand b.id [y] copied,
    .fill b.id y (b.ops.act (if copied then preload st0 [x] [y] stA else stA) b.st (.fill y)).2.2.stopped],
   (b.ops.act (if copied then preload st0 [x] [y] stA else stA) b.st (.fill y)).1,
   { b with st := (b.ops.act (if copied then preload st0 [x] [y] stA else stA) b.st (.fill y)).2.1 },
   (b.ops.act (if copied then preload st0 [x] [y] stA else stA) b.st (.fill y)).2.2.stopped)

/-- the branch alone, filled with the values of a schedule `(value, what it is handed, copied)` until it
raises `LenaStopFill` -/
def aloneFillLife (st0 : Store C) : Store C → Branch σ S C → List (Item S × Item S × Bool) →
    List (Ev S C) × Store C × Branch σ S C × Bool
  | st, b, [] => ([], st, b, false)
  | st, b, e :: rest =>
    if (aloneFill st0 e.1 e.2.1 e.2.2 st b).2.2.2 then aloneFill st0 e.1 e.2.1 e.2.2 st b
    else
      ((aloneFill st0 e.1 e.2.1 e.2.2 st b).1 ++
          (aloneFillLife st0 (aloneFill st0 e.1 e.2.1 e.2.2 st b).2.1 (aloneFill st0 e.1 e.2.1 e.2.2 st b).2.2.1 rest).1,
        (aloneFillLife st0 (aloneFill st0 e.1 e.2.1 e.2.2 st b).2.1 (aloneFill st0 e.1 e.2.1 e.2.2 st b).2.2.1 rest).2)

/-- a schedule entry for branch `i`: what it is handed is a deep copy of the value made of objects created
for `i`, or the value itself -/
def FillOK (i : Nat) (e : Item S × Item S × Bool) : Prop :=
  e.2.1.skel = e.1.skel ∧ (e.2.2 = false → e.2.1 = e.1) ∧ (e.2.2 = true → ∀ t ∈ e.2.1.cells, t.1 = copyNsOf i)

/-- `for val in xs: acc.fill(val)` -/
def fillAll (ops : Ops HSt Skel Value) : Store Value → HSt → List HItem → Store Value × HSt
  | st, s, [] => (st, s)
  | st, s, x :: xs => fillAll ops (ops.act st s (.fill x)).1 (ops.act st s (.fill x)).2.1 xs

/-- the fine footprint of an invocation: the objects the state refers to, the objects passed, and the objects
the invocation creates (own namespace, serial from the current allocation counter on) — *not* the objects the
branch created earlier and no longer refers to, such as contexts it has yielded -/
def footF (ns ctr : Nat) (refs cells : List Tok) (t : Tok) : Prop := t ∈ refs ∨ t ∈ cells ∨ (t.1 = ns ∧ ctr ≤ t.2)

/-- **Locality with the fine footprint**: like `Local`, but an invocation neither reads nor writes objects of
its own namespace that it allocated earlier and does not refer to any more -/
structure LocalF (ops : Ops σ S C) (ns : Nat) (ctr : σ → Nat) : Prop where
  refs_sub : ∀ st s (r : Req S) t,
    (t ∈ ops.refs (ops.act st s r).2.1 ∨ t ∈ cellsOf (ops.act st s r).2.2.outs) → footF ns (ctr s) (ops.refs s) r.cells t
  frame : ∀ st s (r : Req S) t, ¬ footF ns (ctr s) (ops.refs s) r.cells t → (ops.act st s r).1 t = st t
  det : ∀ st₁ st₂ s (r : Req S), (∀ t, footF ns (ctr s) (ops.refs s) r.cells t → st₁ t = st₂ t) →
    (ops.act st₁ s r).2 = (ops.act st₂ s r).2 ∧
    ∀ t, footF ns (ctr s) (ops.refs s) r.cells t → (ops.act st₁ s r).1 t = (ops.act st₂ s r).1 t

/-! ## downstream updates -/

/-- allocation discipline of a state: the objects of the own namespace it refers to have been allocated -/
def RefsBelow (ops : Ops σ S C) (ns : Nat) (ctr : σ → Nat) (s : σ) : Prop :=
  ∀ t ∈ ops.refs s, t.1 = ns → t.2 < ctr s

/-- an accumulator that keeps its books: it refers only to allocated objects, and **it does not keep a reference to
anything it yields** -/
structure Tidy (ops : Ops σ S C) (ns : Nat) (ctr : σ → Nat) : Prop where
  below : ∀ st s (r : Req S), r.isAcc = true → RefsBelow ops ns ctr s → (∀ t ∈ r.cells, t.1 = ns → t.2 < ctr s) →
    RefsBelow ops ns ctr (ops.act st s r).2.1
  nokeep : ∀ st s (r : Req S), r.isAcc = true → RefsBelow ops ns ctr s → (∀ t ∈ r.cells, t.1 = ns → t.2 < ctr s) →
    ∀ t ∈ cellsOf (ops.act st s r).2.2.outs, t ∉ ops.refs (ops.act st s r).2.1

/-- a history as seen from downstream: every invocation with its response and the contents of the objects of the
yielded values right after it -/
def runHistS (ops : Ops σ S C) : Store C → σ → List (HOp σ S C) → List (Req S × Resp S × List C)
  | _, _, [] => []
  | st, s, .ext f :: h => runHistS ops (f st) s h
  | st, s, .upd g :: h => runHistS ops st (g s) h
  | st, s, .req r :: h =>
    let a := ops.act st s r
    (r, a.2.2, (cellsOf a.2.2.outs).map a.1) :: runHistS ops a.1 a.2.1 h

/-- the same history without what the rest of the program does to the heap -/
def stripExt : List (HOp σ S C) → List (HOp σ S C)
  | [] => []
  | .ext _ :: h => stripExt h
  | op :: h => op :: stripExt h

/-- the `ext` steps of the history are *downstream in-place updates*: each changes only objects of values yielded
before it (`Y`); the values filled exist, and are not values yielded before (refilling an updated result would of
course change what follows); `upd` steps (`reset()`) allocate nothing and add no reference -/
def Downstream (ops : Ops σ S C) (ns : Nat) (ctr : σ → Nat) : Store C → σ → List Tok → List (HOp σ S C) → Prop
  | _, _, _, [] => True
  | st, s, Y, .req r :: h =>
    r.isAcc = true ∧ (∀ t ∈ r.cells, (t.1 = ns → t.2 < ctr s) ∧ t ∉ Y) ∧
      Downstream ops ns ctr (ops.act st s r).1 (ops.act st s r).2.1 (Y ++ cellsOf (ops.act st s r).2.2.outs) h
  | st, s, Y, .ext f :: h => (∀ st' t, t ∉ Y → f st' t = st' t) ∧ Downstream ops ns ctr (f st) s Y h
  | st, s, Y, .upd g :: h =>
    (ctr (g s) = ctr s ∧ ∀ t ∈ ops.refs (g s), t ∈ ops.refs s) ∧ Downstream ops ns ctr st (g s) Y h

/-! ## accumulators that allocate in several namespaces (`Split` used through its common-type methods) -/

/-- generalisation of `FreshYield` to an object whose parts allocate in namespaces of their own: `Old s t` says
that the object `t` exists in state `s` (it is not one the element is still going to allocate); `Inv` is an
invariant of the states (for a `Split`: the branches have different numbers and allocate what they yield) -/
structure FreshYieldG (ops : Ops σ S C) (Inv : σ → Prop) (Old : σ → Tok → Prop) : Prop where
  inv : ∀ st s (r : Req S), Inv s → Inv (ops.act st s r).2.1
  mono : ∀ st s (r : Req S) t, Inv s → Old s t → Old (ops.act st s r).2.1 t
  fresh : ∀ st s (r : Req S), Inv s → r.isAcc = true → ∀ t ∈ cellsOf (ops.act st s r).2.2.outs,
    ¬ Old s t ∧ Old (ops.act st s r).2.1 t
  nodup : ∀ st s (r : Req S), Inv s → r.isAcc = true → (cellsOf (ops.act st s r).2.2.outs).Nodup

/-- the values passed to the invocations of a history exist when they are passed -/
def FilledOld (ops : Ops σ S C) (Old : σ → Tok → Prop) : Store C → σ → List (HOp σ S C) → Prop
  | _, _, [] => True
  | st, s, .req r :: h => (∀ t ∈ r.cells, Old s t) ∧ FilledOld ops Old (ops.act st s r).1 (ops.act st s r).2.1 h
  | st, s, .ext f :: h => FilledOld ops Old (f st) s h
  | st, s, .upd g :: h => FilledOld ops Old st (g s) h

/-! ## executable forms (for the driver) -/

instance (a b : List Tok) : Decidable (Disj a b) :=
  if h : a.all (fun t => !b.contains t) then
    isTrue (by
      intro t ht hb
      have := List.all_eq_true.mp h t ht
      simp [hb] at this)
  else
    isFalse (by
      intro hd
      apply h
      rw [List.all_eq_true]
      intro t ht
      have := hd t ht
      simpa using this)

instance (ns lo hi : Nat) (t : Tok) : Decidable (InRange ns lo hi t) := by
  unfold InRange; infer_instance

/-- the instance of `FreshYield` for one invocation: counter before, counter after, what was yielded -/
def freshInstance (ns lo hi : Nat) (outs : List (Item S)) : Bool :=
  decide (lo ≤ hi) && (cellsOf outs).all (fun t => decide (InRange ns lo hi t)) && decide (cellsOf outs).Nodup

/-- the instance of `Local` (`refs_sub` and `frame`) for one invocation, on a finite set `known` of objects:
what the new state and the yielded values refer to is in the footprint; no known object outside the
footprint changed (`same` compares two contents) -/
def localInstance (same : C → C → Bool) (ns : Nat) (refs cells refs' : List Tok) (outs : List (Item S))
    (st st' : Store C) (known : List Tok) : Bool :=
  let inFoot := fun (t : Tok) => t.1 == ns || refs.contains t || cells.contains t
  refs'.all inFoot && (cellsOf outs).all inFoot && known.all (fun t => inFoot t || same (st t) (st' t))

/-- pointwise equality of two lists for a given equality test -/
def listEqb {α : Type} (eq : α → α → Bool) : List α → List α → Bool
  | [], [] => true
  | a :: l, b :: m => eq a b && listEqb eq l m
  | _, _ => false

def itemEqb (eqS : S → S → Bool) (x y : Item S) : Bool := eqS x.skel y.skel && x.cells == y.cells

/-- `SchedOK` as a test, for an equality test `eqS` of skeletons -/
def schedOKb (eqS : S → S → Bool) (i : Nat) (e : List (Item S) × List (Item S) × Bool) : Bool :=
  listEqb eqS (e.2.1.map (·.skel)) (e.1.map (·.skel)) && (e.2.2 || listEqb (itemEqb eqS) e.2.1 e.1) &&
  (!e.2.2 || (cellsOf e.2.1).all (fun t => t.1 == copyNsOf i))

/-- `FillOK` as a test -/
def fillOKb (eqS : S → S → Bool) (i : Nat) (e : Item S × Item S × Bool) : Bool :=
  eqS e.2.1.skel e.1.skel && (e.2.2 || itemEqb eqS e.2.1 e.1) && (!e.2.2 || e.2.1.cells.all (fun t => t.1 == copyNsOf i))

end Lena.C04
