import LenaModel.Model.C17
import LenaModel.Model.C17Sess
/-! # C17 model, part 4 — families of objects made with `copy.deepcopy`

lena multiplies elements with `copy.deepcopy` (one sequence per bin: `lena.structures.init_bins(...,
deepcopy=True)`, `SplitIntoBins`, `lena.math.vectorize`).  Everything a `Slice` object keeps — the
arguments read by `run`, and `_index`, `_next_index`, `_indices` of `fill_into` — lives in instance
attributes, so `copy.deepcopy(obj)` is an object with an equal, separate state (`Model/C17Sess`:
`SliceInst`); nothing is kept outside the instance (no class attribute, no closure shared by the copies).

A *family* is the list of the objects that exist; object number 0.. are numbered in order of creation.
The model is generic in the object (`step` = one method call on one object) and is instantiated with
`SliceInst.step` (one `run` or one `fill_into`).  No imports except `Model.C17*`: executed by
`drivers/C17.lean`. -/

namespace Lena.C17

/-- what a client does with a family of objects whose method calls are described by `ο` -/
inductive FamOp (ο : Type) where
  /-- a method call on object number `i` -/
  | act (i : Nat) (o : ο)
  /-- `fam.append(copy.deepcopy(fam[i]))` -/
  | copy (i : Nat)
  deriving Repr

variable {σ ο ε : Type}

/-- One operation on the family; the event is (object number, outcome of the call).  An operation that
names an object that does not exist is not a client action: nothing happens. -/
def famStep (step : σ → ο → σ × ε) (fam : List σ) : FamOp ο → List σ × Option (Nat × ε)
  | .act i o =>
    match fam[i]? with
    | none => (fam, none)
    | some c => (fam.set i (step c o).1, some (i, (step c o).2))
  | .copy i =>
    match fam[i]? with
    | none => (fam, none)
    | some c => (fam ++ [c], none)

/-- the events of a sequence of operations -/
def famEvents (step : σ → ο → σ × ε) : List σ → List (FamOp ο) → List (Nat × ε)
  | _, [] => []
  | fam, op :: ops =>
    match (famStep step fam op).2 with
    | none => famEvents step (famStep step fam op).1 ops
    | some e => e :: famEvents step (famStep step fam op).1 ops

/-- the family after a sequence of operations -/
def famAfter (step : σ → ο → σ × ε) : List σ → List (FamOp ο) → List σ
  | fam, [] => fam
  | fam, op :: ops => famAfter step (famStep step fam op).1 ops

/-- the outcomes of the calls on object `j`, in order -/
def eventsOf (j : Nat) : List (Nat × ε) → List ε
  | [] => []
  | (i, e) :: es => if i = j then e :: eventsOf j es else eventsOf j es

/-- the calls made on object `j`, in order -/
def opsOf (j : Nat) : List (FamOp ο) → List ο
  | [] => []
  | .act i o :: ops => if i = j then o :: opsOf j ops else opsOf j ops
  | .copy _ :: ops => opsOf j ops

/-- one object alone: the outcomes of a sequence of calls -/
def objEvents (step : σ → ο → σ × ε) : σ → List ο → List ε
  | _, [] => []
  | c, o :: os => (step c o).2 :: objEvents step (step c o).1 os

/-- one object alone: its state after a sequence of calls -/
def objAfter (step : σ → ο → σ × ε) : σ → List ο → σ
  | c, [] => c
  | c, o :: os => objAfter step (step c o).1 os

/-- **Where the state of object `j` comes from.**  `lineage n j ops = some (r, l)`: in a family of `n`
objects on which `ops` are performed, the object that has number `j` at the end descends (through
`copy.deepcopy`s) from object `r` of the initial family, and `l` are the calls it experienced — those
made on its ancestors before the respective copy, then those made on itself. -/
def lineage (n : Nat) (j : Nat) : List (FamOp ο) → Option (Nat × List ο)
  | [] => if j < n then some (j, []) else none
  | .act i o :: ops =>
    if i < n then
      match lineage n j ops with
      | none => none
      | some (r, l) => if r = i then some (r, o :: l) else some (r, l)
    else lineage n j ops
  | .copy i :: ops =>
    if i < n then
      match lineage (n + 1) j ops with
      | none => none
      | some (r, l) => if r = n then some (i, l) else some (r, l)
    else lineage n j ops

/-- `SliceInst.step` with the state first (the shape `famStep` takes) -/
def sliceStep {α : Type} (c : SliceInst) (o : SliceOp α) : SliceInst × SliceEv α := c.step o

end Lena.C17
