/-! # N-dimensional nested arrays (`bins` of a lena histogram) and `lena.math.md_map`

A Python "multidimensional array" as lena uses it is a list of lists of … of cells.  `NArr α`
is that shape with cells of type `α`: nothing forces siblings to have equal lengths or depths
(Python does not either); `HasShape dims a` says that `a` is the regular array with `dims`
cells per axis.  Shared by C11 (cells = analysis states / results) and C12 (cells = numbers).

Transcribed here because both properties use them:
* `lena/structures/hist_functions.py` `iter_bins` (`cells`), `get_bin_on_index` (`getBin`),
  `init_bins` (`full`),
* `lena/math/meshes.py` `md_map` for one array (`mdMap`) and for two arrays (`mdMap2`),
* `itertools.product` over index ranges (`indexProd`).

No imports. -/

namespace Lena

/-- Exceptions of the modelled Python code that C11/C12 observe (class only). -/
inductive Err where
  | lenaValueError
  | lenaTypeError
  | lenaIndexError
  | indexError      -- builtin IndexError
  | typeError       -- builtin TypeError
  | unmodelled      -- input outside the modelled domain (e.g. numbers and lists as siblings)
  deriving Repr, DecidableEq

def Err.name : Err → String
  | .lenaValueError => "LenaValueError"
  | .lenaTypeError => "LenaTypeError"
  | .lenaIndexError => "LenaIndexError"
  | .indexError => "Other:IndexError"
  | .typeError => "Other:TypeError"
  | .unmodelled => "unmodelled"

inductive NArr (α : Type) where
  | leaf : α → NArr α
  | node : List (NArr α) → NArr α
  deriving Repr

namespace NArr

variable {α β γ : Type}

/-! ## pure structure -/

mutual
/-- cell-wise map that keeps the nesting (specification of `md_map` on regular arrays) -/
def map (f : α → β) : NArr α → NArr β
  | .leaf a => .leaf (f a)
  | .node xs => .node (mapList f xs)
def mapList (f : α → β) : List (NArr α) → List (NArr β)
  | [] => []
  | x :: xs => map f x :: mapList f xs
end

mutual
/-- cell-wise combination of two arrays; where the shapes differ the first array's shape is
cut to the common part (only used on arrays of equal shape) -/
def zipWith (f : α → β → γ) : NArr α → NArr β → NArr γ
  | .leaf a, .leaf b => .leaf (f a b)
  | .node xs, .node ys => .node (zipWithList f xs ys)
  | .leaf _, .node _ => .node []
  | .node _, .leaf _ => .node []
def zipWithList (f : α → β → γ) : List (NArr α) → List (NArr β) → List (NArr γ)
  | x :: xs, y :: ys => zipWith f x y :: zipWithList f xs ys
  | _, _ => []
end

mutual
/-- `iter_bins(bins)` (hist_functions.py:458-471): `(index, content)` for every cell, last axis
fastest.  A cell is whatever is not iterable: `leaf`. -/
def cells : NArr α → List (List Nat × α)
  | .leaf a => [([], a)]
  | .node xs => cellsFrom 0 xs
/-- the `for ind, _ in enumerate(bins)` loop of `iter_bins`, from position `k` on -/
def cellsFrom (k : Nat) : List (NArr α) → List (List Nat × α)
  | [] => []
  | x :: xs => (cells x).map (fun p => (k :: p.1, p.2)) ++ cellsFrom (k + 1) xs
end

/-- the contents in iteration order -/
def values (a : NArr α) : List α := (cells a).map (·.2)

/-- `bins[i0][i1]…` for a non-negative index; `none` when an index is out of range or a cell
is indexed -/
def get? : NArr α → List Nat → Option (NArr α)
  | a, [] => some a
  | .leaf _, _ :: _ => none
  | .node xs, i :: is =>
    match xs[i]? with
    | none => none
    | some x => get? x is

/-- `get_bin_on_index(index, bins)` (hist_functions.py:126-156) for a tuple of non-negative
indices: `IndexError` becomes `LenaIndexError`; subscripting a number is a `TypeError`. -/
def getBin : NArr α → List Nat → Except Err (NArr α)
  | a, [] => .ok a
  | .leaf _, _ :: _ => .error .typeError
  | .node xs, i :: is =>
    match xs[i]? with
    | none => .error .lenaIndexError
    | some x => getBin x is

/-- `init_bins(edges, value, deepcopy)` (hist_functions.py:394-435) as a function of the numbers
of bins per axis: every cell holds (a copy of) `v`. -/
def full : List Nat → α → NArr α
  | [], v => .leaf v
  | n :: ns, v => .node (List.replicate n (full ns v))

/-- `a` is the regular array with `dims[k]` entries along axis `k` and cells below the last axis -/
def HasShape : List Nat → NArr α → Prop
  | [], .leaf _ => True
  | n :: ns, .node xs => xs.length = n ∧ ∀ x ∈ xs, HasShape ns x
  | [], .node _ => False
  | _ :: _, .leaf _ => False

mutual
/-- executable version of `HasShape` -/
def hasShape : List Nat → NArr α → Bool
  | [], .leaf _ => true
  | n :: ns, .node xs => xs.length == n && allShape ns xs
  | [], .node _ => false
  | _ :: _, .leaf _ => false
def allShape (ns : List Nat) : List (NArr α) → Bool
  | [] => true
  | x :: xs => hasShape ns x && allShape ns xs
end

/-- replace the cell at `idx` by `f cell`; anything else (bad index) leaves the array as it is -/
def modifyAt (f : α → α) : NArr α → List Nat → NArr α
  | .leaf a, [] => .leaf (f a)
  | .leaf a, _ :: _ => .leaf a
  | .node xs, [] => .node xs
  | .node xs, i :: is =>
    match xs[i]? with
    | none => .node xs
    | some x => .node (xs.set i (modifyAt f x is))

/-- `itertools.product(*ranges)`: all index tuples, last position fastest -/
def indexProd : List (List Nat) → List (List Nat)
  | [] => [[]]
  | r :: rs => r.flatMap (fun i => (indexProd rs).map (i :: ·))

/-! ## `md_map` (lena/math/meshes.py:32-101) -/

/-- last branch of `md_map` with one array: `[f(val) for val in arrays[0]]`.  `f` of a list is
outside the model. -/
def mdMapLeaves (f : α → β) : List (NArr α) → Except Err (List (NArr β))
  | [] => .ok []
  | .leaf v :: xs => do
    let ys ← mdMapLeaves f xs
    pure (.leaf (f v) :: ys)
  | .node _ :: _ => .error .unmodelled

mutual
/-- `md_map(f, array)`:
* `not isinstance(array, list)` → `LenaTypeError`;
* empty list → `[]`;
* first element a list → `[md_map(f, sub) for sub in array]`;
* otherwise → `[f(val) for val in array]`. -/
def mdMap (f : α → β) : NArr α → Except Err (NArr β)
  | .leaf _ => .error .lenaTypeError
  | .node l =>
    match l with
    | [] => .ok (.node [])
    | .leaf _ :: _ => do
      let r ← mdMapLeaves f l
      pure (.node r)
    | .node _ :: _ => do
      let r ← mdMapNodes f l
      pure (.node r)
def mdMapNodes (f : α → β) : List (NArr α) → Except Err (List (NArr β))
  | [] => .ok []
  | x :: xs => do
    let y ← mdMap f x
    let ys ← mdMapNodes f xs
    pure (y :: ys)
end

/-- last branch of `md_map` with two arrays: `[f(a[i], b[i]) for i in range(len(a))]`, the
tuples having been built before (so `b` is at least as long as `a` here).  `f = operator.add`
of a number and a list is a `TypeError`; a list on the left is outside the model. -/
def mdMap2Leaves (f : α → α → β) : List (NArr α) → List (NArr α) → Except Err (List (NArr β))
  | [], _ => .ok []
  | _ :: _, [] => .error .indexError
  | .leaf a :: xs, .leaf b :: ys => do
    let r ← mdMap2Leaves f xs ys
    pure (.leaf (f a b) :: r)
  | .leaf _ :: _, .node _ :: _ => .error .typeError
  | .node _ :: _, _ :: _ => .error .unmodelled

mutual
/-- `md_map(f, a, b)`:
* the arrays are inspected in order: not a list → `LenaTypeError`, empty → return `[]`;
* `tuples = [[arr[i] for arr in arrays] for i in range(len(a))]` — `IndexError` when `b` is
  shorter than `a`, a longer `b` is cut;
* first element of `a` a list → `[md_map(f, *tup) for tup in tuples]`, else `[f(*tup) …]`. -/
def mdMap2 (f : α → α → β) : NArr α → NArr α → Except Err (NArr β)
  | .leaf _, _ => .error .lenaTypeError
  | .node la, b =>
    match la with
    | [] => .ok (.node [])
    | x :: _ =>
      match b with
      | .leaf _ => .error .lenaTypeError
      | .node lb =>
        if lb.isEmpty then .ok (.node [])
        else if lb.length < la.length then .error .indexError
        else
          match x with
          | .leaf _ => do
            let r ← mdMap2Leaves f la lb
            pure (.node r)
          | .node _ => do
            let r ← mdMap2Nodes f la lb
            pure (.node r)
def mdMap2Nodes (f : α → α → β) : List (NArr α) → List (NArr α) → Except Err (List (NArr β))
  | [], _ => .ok []
  | _ :: _, [] => .error .indexError
  | x :: xs, y :: ys => do
    let z ← mdMap2 f x y
    let zs ← mdMap2Nodes f xs ys
    pure (z :: zs)
end

end NArr
end Lena
